#!/usr/bin/env python3
"""sm9_model.py — big-integer reference model of SM9 (GM/T 0044) written from the standard's definitions, deliberately naive:
   Fp12 is the plain polynomial ring Fp[w]/(w^12 + 2) (the tower u^2=-2, v^2=u, w^3=v flattened: u = w^6, v = w^3), inversion is
   the polynomial extended Euclid, Frobenius is x -> x^p by square-and-multiply, G2 is handled through the untwist into E(Fp12)
   with affine chord-and-tangent, the R-ate Miller loop runs over the plain binary expansion of 6t+2 and the final exponentiation
   is one exponentiation by (p^12-1)/N.  Nothing is shared with the implementation's Montgomery / tower / NAF / sparse-line code.
   `--selftest` checks the model against the worked values of GM/T 0044.5 Annex A; `--serve` answers queries of harness/c17.c."""
import sys, hashlib, hmac

p = 0xB640000002A3A6F1D603AB4FF58EC74521F2934B1A7AEEDBE56F9B27E351457D
N = 0xB640000002A3A6F1D603AB4FF58EC74449F2934B18EA8BEEE56EE19CD69ECF25
t = 0x600000000058F98A
assert p == 36*t**4 + 36*t**3 + 24*t**2 + 6*t + 1 and N == 36*t**4 + 36*t**3 + 18*t**2 + 6*t + 1
A_LOOP = 6*t + 2
B = 5
P1 = (0x93DE051D62BF718FF5ED0704487D01D6E1E4086909DC3280E8C4E4817C66DDDD, 0x21FE8DDA4F21E607631065125C395BBC1C1C00CBFA6024350C464CD70A3EA616)
# P2 = (x1*u + x0, y1*u + y0) on the twist y^2 = x^3 + 5u ; stored (c0, c1)
P2 = ((0x3722755292130B08D2AAB97FD34EC120EE265948D19C17ABF9B7213BAF82D65B, 0x85AEF3D078640C98597B6027B441A01FF1DD2C190F5E93C454806C11D8806141),
      (0xA7CF28D519BE3DA65F3170153D278FF247EFBA98A71A08116215BBA5C999A7C7, 0x17509B092E845C1266BA0D262CBEE6ED0736A96FA347C8BD856DC76B84EBEB96))

# ---------------- Fp12 = Fp[w]/(w^12+2) ----------------
ZERO12 = [0]*12
def f12(c0=0): r = [0]*12; r[0] = c0 % p; return r
ONE12 = f12(1)
def f12_add(a, b): return [(x + y) % p for x, y in zip(a, b)]
def f12_sub(a, b): return [(x - y) % p for x, y in zip(a, b)]
def f12_neg(a): return [(-x) % p for x in a]
def f12_mul(a, b):
    c = [0]*23
    for i, x in enumerate(a):
        if x:
            for j, y in enumerate(b):
                if y: c[i + j] += x * y
    return [(c[i] - 2 * c[i + 12]) % p if i < 11 else c[i] % p for i in range(12)]
def f12_smul(a, k): return [x * k % p for x in a]
def f12_pow(a, e):
    r = ONE12;
    for bit in bin(e)[2:]:
        r = f12_mul(r, r)
        if bit == '1': r = f12_mul(r, a)
    return r
def _pdeg(a):
    for i in range(len(a) - 1, -1, -1):
        if a[i]: return i
    return -1
def _pdivmod(a, b):
    a = a[:]; db = _pdeg(b); inv = pow(b[db], -1, p); q = [0] * max(1, len(a))
    while True:
        da = _pdeg(a)
        if da < db: break
        c = a[da] * inv % p; q[da - db] = c
        for i in range(db + 1): a[da - db + i] = (a[da - db + i] - c * b[i]) % p
    return q, a
def _pmul(a, b):
    c = [0] * (len(a) + len(b))
    for i, x in enumerate(a):
        if x:
            for j, y in enumerate(b): c[i + j] = (c[i + j] + x * y) % p
    return c
def f12_inv(a):
    if not any(a): raise ZeroDivisionError
    m = [2] + [0]*11 + [1]           # w^12 + 2
    r0, r1 = m, a[:] + [0]; s0, s1 = [0], [1]     # s_i * a = r_i (mod m)
    while _pdeg(r1) > 0:
        q, r = _pdivmod(r0, r1)
        qs = _pmul(q, s1); n = max(len(s0), len(qs)); s = [((s0[i] if i < len(s0) else 0) - (qs[i] if i < len(qs) else 0)) % p for i in range(n)]
        r0, r1, s0, s1 = r1, r, s1, s
    c = pow(r1[0], -1, p); s1 = (s1 + [0]*24)[:24]
    # reduce s1 mod m (degree < 24 at most)
    red = [(s1[i] - 2 * s1[i + 12]) % p for i in range(12)]
    return [x * c % p for x in red]
def f12_frob(a, n=1): return f12_pow(a, p ** n)
# standard serialisation: 12 x 32 bytes, slot s holds the coefficient of w^(i + 3j + 6k), i = 2 - s//4, j = 1 - (s%4)//2, k = 1 - s%2
SLOT = [ (2 - s // 4) + 3 * (1 - (s % 4) // 2) + 6 * (1 - s % 2) for s in range(12) ]
def f12_to_bytes(a): return b''.join(a[SLOT[s]].to_bytes(32, 'big') for s in range(12))
def f12_from_bytes(b):
    a = [0]*12
    for s in range(12): a[SLOT[s]] = int.from_bytes(b[32*s:32*s+32], 'big')
    return a
# sub-fields: Fp2 = {c0 + c1 w^6}; Fp4 = {b00 + b01 w^6 + (b10 + b11 w^6) w^3}
def f2_to12(c): r = [0]*12; r[0] = c[0] % p; r[6] = c[1] % p; return r
def f12_to2(a): assert all(a[i] == 0 for i in range(12) if i not in (0, 6)), 'not in Fp2'; return (a[0], a[6])
def f2_from_bytes(b): return (int.from_bytes(b[32:64], 'big'), int.from_bytes(b[0:32], 'big'))
def f2_to_bytes(c): return c[1].to_bytes(32, 'big') + c[0].to_bytes(32, 'big')
def f4_from_bytes(b):   # (a[1] , a[0]) each fp2
    hi = f2_from_bytes(b[0:64]); lo = f2_from_bytes(b[64:128]); r = [0]*12; r[0], r[6], r[3], r[9] = lo[0], lo[1], hi[0], hi[1]; return r
def f12_to4bytes(a): assert all(a[i] == 0 for i in range(12) if i not in (0, 3, 6, 9)), 'not in Fp4'; return f2_to_bytes((a[3], a[9])) + f2_to_bytes((a[0], a[6]))
W = [0]*12; W[1] = 1
U = [0]*12; U[6] = 1
V = [0]*12; V[3] = 1

# ---------------- curves ----------------
def ec_add(P, Q, mul, inv, sub, add, three_x2=None):
    raise NotImplementedError
# G1: affine over Fp, None = infinity
def g1_on_curve(P): return P is None or (P[1] * P[1] - P[0] ** 3 - B) % p == 0
def g1_add(P, Q):
    if P is None: return Q
    if Q is None: return P
    if P[0] == Q[0]:
        if (P[1] + Q[1]) % p == 0: return None
        l = 3 * P[0] * P[0] * pow(2 * P[1], -1, p) % p
    else: l = (Q[1] - P[1]) * pow(Q[0] - P[0], -1, p) % p
    x = (l * l - P[0] - Q[0]) % p; return (x, (l * (P[0] - x) - P[1]) % p)
def g1_neg(P): return None if P is None else (P[0], (-P[1]) % p)
def g1_mul(k, P):
    R = None
    for bit in bin(k)[2:] if k else '':
        R = g1_add(R, R)
        if bit == '1': R = g1_add(R, P)
    return R
# generic affine arithmetic on y^2 = x^3 + b over Fp12 (used for E(Fp12) and, through the embedding, for the twist)
def e12_add(P, Q):
    if P is None: return Q
    if Q is None: return P
    if P[0] == Q[0]:
        if not any(f12_add(P[1], Q[1])): return None
        l = f12_mul(f12_smul(f12_mul(P[0], P[0]), 3), f12_inv(f12_smul(P[1], 2)))
    else: l = f12_mul(f12_sub(Q[1], P[1]), f12_inv(f12_sub(Q[0], P[0])))
    x = f12_sub(f12_sub(f12_mul(l, l), P[0]), Q[0]); return (x, f12_sub(f12_mul(l, f12_sub(P[0], x)), P[1]))
def e12_neg(P): return None if P is None else (P[0], f12_neg(P[1]))
def e12_mul(k, P):
    R = None
    for bit in bin(k)[2:] if k else '':
        R = e12_add(R, R)
        if bit == '1': R = e12_add(R, P)
    return R
# twist points are kept as pairs of Fp2 elements embedded in Fp12; the group law formulas do not involve b, so e12_* apply
def g2_embed(Q): return None if Q is None else (f2_to12(Q[0]), f2_to12(Q[1]))
def g2_unembed(Q): return None if Q is None else (f12_to2(Q[0]), f12_to2(Q[1]))
def g2_on_curve(Q):
    if Q is None: return True
    x, y = f2_to12(Q[0]), f2_to12(Q[1]); return f12_sub(f12_mul(y, y), f12_add(f12_mul(f12_mul(x, x), x), f12_smul(U, B))) == ZERO12
W2I = f12_inv(f12_mul(W, W)); W3I = f12_inv(f12_mul(f12_mul(W, W), W))
def untwist(Q): return None if Q is None else (f12_mul(f2_to12(Q[0]), W2I), f12_mul(f2_to12(Q[1]), W3I))
def line(Uu, Vv, P):    # g_{U,V}(P): the line through U and V (tangent if equal) evaluated at P, all on E(Fp12)
    if Uu[0] == Vv[0] and Uu[1] == Vv[1]: l = f12_mul(f12_smul(f12_mul(Uu[0], Uu[0]), 3), f12_inv(f12_smul(Uu[1], 2)))
    elif Uu[0] == Vv[0]: return f12_sub(P[0], Vv[0])     # vertical
    else: l = f12_mul(f12_sub(Uu[1], Vv[1]), f12_inv(f12_sub(Uu[0], Vv[0])))
    return f12_sub(f12_mul(l, f12_sub(P[0], Vv[0])), f12_sub(P[1], Vv[1]))
FINAL_EXP = (p ** 12 - 1) // N
def pairing(P, Q):
    """R-ate pairing e(P, Q), P in G1 (affine Fp pair), Q in G2 (pair of Fp2 pairs)"""
    if P is None or Q is None: return ONE12
    Pe = (f12(P[0]), f12(P[1])); Qe = untwist(Q); T = Qe; f = ONE12
    for bit in bin(A_LOOP)[3:]:
        f = f12_mul(f12_mul(f, f), line(T, T, Pe)); T = e12_add(T, T)
        if bit == '1': f = f12_mul(f, line(T, Qe, Pe)); T = e12_add(T, Qe)
    Q1 = (f12_frob(Qe[0]), f12_frob(Qe[1])); Q2 = (f12_frob(Qe[0], 2), f12_frob(Qe[1], 2)); nQ2 = e12_neg(Q2)
    f = f12_mul(f, line(T, Q1, Pe)); T = e12_add(T, Q1)
    f = f12_mul(f, line(T, nQ2, Pe)); T = e12_add(T, nQ2)
    return f12_pow(f, FINAL_EXP)

# ---------------- hash functions, KDF ----------------
def sm3(b): return hashlib.new('sm3', b).digest()
def Hn(prefix, z):
    ha = b''.join(sm3(bytes([prefix]) + z + ct.to_bytes(4, 'big')) for ct in (1, 2))[:40]
    return int.from_bytes(ha, 'big') % (N - 1) + 1
def H1(ident, hid): return Hn(1, ident + bytes([hid]))
def H2(z): return Hn(2, z)
def kdf(z, klen):
    out = b''; ct = 1
    while len(out) < klen: out += sm3(z + ct.to_bytes(4, 'big')); ct += 1
    return out[:klen]
def g1_bytes(P): return P[0].to_bytes(32, 'big') + P[1].to_bytes(32, 'big')
def g2_bytes(Q): return f2_to_bytes(Q[0]) + f2_to_bytes(Q[1])
def g2_mul(k, Q): return g2_unembed(e12_mul(k, g2_embed(Q)))
def g2_add(Q, R): return g2_unembed(e12_add(g2_embed(Q), g2_embed(R)))

# ---------------- schemes ----------------
def sign_extract(ks, ident):
    t1 = (H1(ident, 1) + ks) % N
    if t1 == 0: return None
    return g1_mul(ks * pow(t1, -1, N) % N, P1)
def sign(ks, ident, msg, r):
    ds = sign_extract(ks, ident); Ppubs = g2_mul(ks, P2); g = pairing(P1, Ppubs); w = f12_pow(g, r); h = H2(msg + f12_to_bytes(w)); l = (r - h) % N
    if l == 0: return None
    return h, g1_mul(l, ds)
def verify(Ppubs, ident, msg, h, S):
    if not (1 <= h <= N - 1): return False
    if S is None or not g1_on_curve(S): return False
    g = pairing(P1, Ppubs); tt = f12_pow(g, h); h1 = H1(ident, 1); Pq = g2_add(g2_mul(h1, P2), Ppubs); u = pairing(S, Pq); w = f12_mul(u, tt)
    return H2(msg + f12_to_bytes(w)) == h
def enc_extract(ke, ident, hid=3):
    t1 = (H1(ident, hid) + ke) % N
    if t1 == 0: return None
    return g2_mul(ke * pow(t1, -1, N) % N, P2)
def kem_enc(ke, ident, r, klen, hid=3):
    Ppube = g1_mul(ke, P1); QB = g1_add(g1_mul(H1(ident, hid), P1), Ppube); C = g1_mul(r, QB); g = pairing(Ppube, P2); w = f12_pow(g, r)
    return C, kdf(g1_bytes(C) + f12_to_bytes(w) + ident, klen)
def kem_dec(de, ident, C, klen):
    w = pairing(C, de); return kdf(g1_bytes(C) + f12_to_bytes(w) + ident, klen)
def encrypt(ke, ident, r, msg):     # the library's SM9 public-key encryption: XOR stream + HMAC-SM3 tag under K2 (the standard's MAC is SM3(C2||K2))
    C, K = kem_enc(ke, ident, r, len(msg) + 32); c2 = bytes(a ^ b for a, b in zip(msg, K)); return C, c2, hmac.new(K[len(msg):], c2, 'sm3').digest()

def exchange(ke, idA, idB, rA, rB, klen, hid=2):
    Ppube = g1_mul(ke, P1); deA = enc_extract(ke, idA, hid); deB = enc_extract(ke, idB, hid)
    QB = g1_add(g1_mul(H1(idB, hid), P1), Ppube); RA = g1_mul(rA, QB); QA = g1_add(g1_mul(H1(idA, hid), P1), Ppube); RB = g1_mul(rB, QA)
    g = pairing(Ppube, P2); g1 = pairing(RA, deB); g2 = f12_pow(g, rB); g3 = f12_pow(g1, rB)
    # the initiator's view must agree
    g1a = f12_pow(g, rA); g2a = pairing(RB, deA); g3a = f12_pow(g2a, rA); assert (g1, g2, g3) == (g1a, g2a, g3a), 'model: exchange views differ'
    return RA, RB, kdf(idA + idB + g1_bytes(RA) + g1_bytes(RB) + f12_to_bytes(g1) + f12_to_bytes(g2) + f12_to_bytes(g3), klen)

# ---------------- self test against GM/T 0044.5 Annex A ----------------
def selftest():
    ks = 0x000130E78459D78545CB54C587E02CF480CE0B66340F319F348A1D5B1F2DC5F4
    Ppubs = g2_mul(ks, P2)
    assert g1_on_curve(P1) and g2_on_curve(P2) and g1_mul(N, P1) is None and g2_mul(N, P2) is None
    assert Ppubs[0][1] == 0x9F64080B3084F733E48AFF4B41B565011CE0711C5E392CFB0AB1B6791B94C408 and Ppubs[0][0] == 0x29DBA116152D1F786CE843ED24A3B573414D2177386A92DD8F14D65696EA5E32, 'Ppub-s'
    g = pairing(P1, Ppubs); gb = f12_to_bytes(g)
    assert gb[:32].hex() == '4e378fb5561cd0668f906b731ac58fee25738edf09cadc7a29c0abc0177aea6d' and gb[-32:].hex() == 'aab9f06a4eeba4323a7833db202e4e35639d93fa3305af73f0f071d7d284fcfb', 'pairing g = e(P1, Ppub-s)'
    r = 0x033C8616B06704813203DFD00965022ED15975C662337AED648835DC4B1CBE
    h, S = sign(ks, b'Alice', b'Chinese IBS standard', r)
    assert h == 0x823C4B21E4BD2DFE1ED92C606653E996668563152FC33F55D7BFBB9BD9705ADB, 'signature h'
    assert S == (0x73BF96923CE58B6AD0E13E9643A406D8EB98417C50EF1B29CEF9ADB48B6D598C, 0x856712F1C2E0968AB7769F42A99586AED139D5B8B3E15891827CC2ACED9BAA05), 'signature S'
    assert verify(Ppubs, b'Alice', b'Chinese IBS standard', h, S) and not verify(Ppubs, b'Alicf', b'Chinese IBS standard', h, S)
    ke = 0x0001EDEE3778F441F8DEA3D9FA0ACC4E07EE36C93F9A08618AF4AD85CEDE1C22
    de = enc_extract(ke, b'Bob')
    assert de[0][1] == 0x94736ACD2C8C8796CC4785E938301A139A059D3537B6414140B2D31EECF41683, 'de_B'
    rr = 0x000074015F8489C01EF4270456F9E6475BFB602BDE7F33FD482AB4E3684A6722
    C, K = kem_enc(ke, b'Bob', rr, 32)
    assert C[0] == 0x1EDEE2C3F465914491DE44CEFB2CB434AB02C308D9DC5E2067B4FED5AAAC8A0F, 'KEM C'
    assert K.hex() == '4ff5cf86d2ad40c8f4bac98d76abdbde0c0e2f0a829d3f911ef5b2bce0695480', 'KEM K'
    assert kem_dec(de, b'Bob', C, 32) == K
    # algebra of the model itself
    a = f12_from_bytes(gb); assert f12_mul(a, f12_inv(a)) == ONE12 and f12_pow(g, N) == ONE12 and g != ONE12
    print('sm9_model selftest ok')

# ---------------- query server ----------------
def pt1(b): return None if b == b'\x00' else (int.from_bytes(b[1:33], 'big'), int.from_bytes(b[33:65], 'big'))
def pt1b(P): return b'\x00' if P is None else b'\x04' + g1_bytes(P)
def pt2(b): return None if b == b'\x00' else (f2_from_bytes(b[1:65]), f2_from_bytes(b[65:129]))
def pt2b(Q): return b'\x00' if Q is None else b'\x04' + g2_bytes(Q)
def lvl_in(level, b): return f12_from_bytes(b) if level == 12 else (f4_from_bytes(b) if level == 4 else (f2_to12(f2_from_bytes(b)) if level == 2 else f12(int.from_bytes(b, 'big'))))
def lvl_out(level, a): return f12_to_bytes(a) if level == 12 else (f12_to4bytes(a) if level == 4 else (f2_to_bytes(f12_to2(a)) if level == 2 else (lambda: (a[0]).to_bytes(32, 'big'))()))
def conj_struct(level, a):
    r = a[:]
    if level == 2: r[6] = -r[6] % p
    elif level == 4: r[3] = -r[3] % p; r[9] = -r[9] % p
    return r
def field_op(level, op, args):
    A = [lvl_in(level, x) for x in args]
    gen = {2: U, 4: V}.get(level)
    if op == 'add': r = f12_add(A[0], A[1])
    elif op == 'sub': r = f12_sub(A[0], A[1])
    elif op == 'neg': r = f12_neg(A[0])
    elif op == 'dbl': r = f12_smul(A[0], 2)
    elif op == 'tri': r = f12_smul(A[0], 3)
    elif op == 'haf': r = f12_smul(A[0], pow(2, -1, p))
    elif op == 'mul': r = f12_mul(A[0], A[1])
    elif op == 'sqr': r = f12_mul(A[0], A[0])
    elif op == 'inv': r = f12_inv(A[0])
    elif op == 'div': r = f12_mul(A[0], f12_inv(A[1]))
    elif op == 'mulg': r = f12_mul(f12_mul(A[0], A[1]), gen)      # mul_u / mul_v
    elif op == 'sqrg': r = f12_mul(f12_mul(A[0], A[0]), gen)
    elif op == 'amulg': r = f12_mul(A[0], gen)
    elif op == 'conj': r = conj_struct(level, A[0])
    elif op.startswith('frob'): r = f12_frob(A[0], int(op[4:] or '1'))
    else: raise ValueError(op)
    return lvl_out(level, r)
def serve():
    out = sys.stdout
    for ln in sys.stdin:
        q = ln.split()
        if not q: continue
        try:
            c = q[0]; a = [bytes.fromhex(x) if x != '-' else b'' for x in q[1:]] if c not in ('fop', 'modn') else None
            if c == 'ping': res = b'\x01'
            elif c == 'fop':    # fop <level> <op> args...   (operands of mixed level: mul_fp / mul_fp2 handled by 'fopx')
                res = field_op(int(q[1]), q[2], [bytes.fromhex(x) for x in q[3:]])
            elif c == 'fmulsub':   # fmulsub <level> <sublevel> A k : A * k with k from a sub-field
                lv, sl = int.from_bytes(a[0], 'big'), int.from_bytes(a[1], 'big'); res = lvl_out(lv, f12_mul(lvl_in(lv, a[2]), lvl_in(sl, a[3])))
            elif c == 'fpow': lv = int.from_bytes(a[0], 'big'); res = lvl_out(lv, f12_pow(lvl_in(lv, a[1]), int.from_bytes(a[2], 'big')))
            elif c == 'modn':   # modn op a b
                op = q[1]; x = int(q[2], 16); y = int(q[3], 16) if len(q) > 3 else 0
                v = {'add': lambda: (x + y) % N, 'sub': lambda: (x - y) % N, 'mul': lambda: x * y % N, 'pow': lambda: pow(x, y, N), 'inv': lambda: pow(x, -1, N)}[op](); res = v.to_bytes(32, 'big')
            elif c == 'g1add': res = pt1b(g1_add(pt1(a[0]), pt1(a[1])))
            elif c == 'g1mul': res = pt1b(g1_mul(int.from_bytes(a[0], 'big'), pt1(a[1])))
            elif c == 'g1on': res = bytes([1 if g1_on_curve(pt1(a[0])) else 0])
            elif c == 'g2add': res = pt2b(g2_add(pt2(a[0]), pt2(a[1])))
            elif c == 'g2mul': res = pt2b(g2_mul(int.from_bytes(a[0], 'big'), pt2(a[1])))
            elif c == 'g2on': res = bytes([1 if g2_on_curve(pt2(a[0])) else 0])
            elif c == 'pair': res = f12_to_bytes(pairing(pt1(a[0]), pt2(a[1])))       # pair <G1 point> <G2 point>
            elif c == 'h1': res = H1(a[1], a[0][0]).to_bytes(32, 'big')                   # h1 <hid> <id>
            elif c == 'h2': res = H2(a[0]).to_bytes(32, 'big')
            elif c == 'nearmult': res = ((int.from_bytes(a[0], 'big') * (N - 1) + int.from_bytes(a[1], 'big') - 8) % (1 << 320)).to_bytes(40, 'big')   # k*(N-1) + d - 8
            elif c == 'hash2n': res = (int.from_bytes(a[0], 'big') % (N - 1) + 1).to_bytes(32, 'big')     # the 40-byte Ha -> [1, N-1]
            elif c == 'sigkey': res = pt1b(sign_extract(int.from_bytes(a[0], 'big'), a[1]))
            elif c == 'enckey': res = pt2b(enc_extract(int.from_bytes(a[0], 'big'), a[1], a[2][0] if len(a) > 2 else 3))
            elif c == 'sign':
                s = sign(int.from_bytes(a[0], 'big'), a[1], a[2], int.from_bytes(a[3], 'big')); res = b'\x00' if s is None else s[0].to_bytes(32, 'big') + pt1b(s[1])
            elif c == 'verify': res = bytes([1 if verify(pt2(a[0]), a[1], a[2], int.from_bytes(a[3], 'big'), pt1(a[4])) else 0])
            elif c == 'kem': C, K = kem_enc(int.from_bytes(a[0], 'big'), a[1], int.from_bytes(a[2], 'big'), int.from_bytes(a[3], 'big'), a[4][0] if len(a) > 4 else 3); res = pt1b(C) + K
            elif c == 'enc': C, c2, c3 = encrypt(int.from_bytes(a[0], 'big'), a[1], int.from_bytes(a[2], 'big'), a[3]); res = pt1b(C) + c3 + c2
            elif c == 'exch': RA, RB, K = exchange(int.from_bytes(a[0], 'big'), a[1], a[2], int.from_bytes(a[3], 'big'), int.from_bytes(a[4], 'big'), int.from_bytes(a[5], 'big')); res = pt1b(RA) + pt1b(RB) + K
            elif c == 'kdf': res = kdf(a[0], int.from_bytes(a[1], 'big'))
            else: raise ValueError(c)
            out.write('ok ' + (res.hex() or '-') + '\n')
        except Exception as e:
            out.write('err %s:%s\n' % (type(e).__name__, str(e).replace('\n', ' ')[:120]))
        out.flush()
if __name__ == '__main__':
    if '--selftest' in sys.argv: selftest()
    elif '--serve' in sys.argv: serve()
