"""Per-property job tables for bin/vcheck.  A job = one driver built against one library variant, run in N shards."""
RUNENV = {
    'ASAN_OPTIONS': 'abort_on_error=1:detect_leaks=0:allocator_may_return_null=1:handle_abort=0:symbolize=1',
    'UBSAN_OPTIONS': 'print_stacktrace=0:halt_on_error=1',
    'MSAN_OPTIONS': 'abort_on_error=1',
    'ASAN_SYMBOLIZER_PATH': '/usr/bin/llvm-symbolizer-14',
}
REF = ['harness/venv.c', 'ref/ossl_ref.c']

def J(driver, variant, **kw):
    d = {'driver': driver, 'variant': variant, 'srcs': REF}
    d.update(kw); return d

SPECS = {}
NOT_BUILT = {}
SPECS['C03'] = {
    'level': 'exploration',
    'technique': 'explicit-state enumeration of the hash update automaton and parameter grids on the real code, OpenSSL as reference model',
    'claim': 'Every (buffer fill, update length) state pair and every 3-cut chunking of short messages, for every digest/HMAC/HKDF/PBKDF2/KDF interface, returns the OpenSSL value; exhaustive over the stated alphabet, nothing outside it is claimed.',
    'trusted': 'OpenSSL 3.0 libcrypto as the standard; two message contents; gcc/clang code generation of the checked variants',
    'rule': 'explicit enumeration of the update automaton: every (buffer fill f in [0,B), update length 0..3B+1) pair for 8 digests x {native, dispatch, sm3_digest} x 2 contents; every 3-cut chunking of every message <= B+2 (quick) / 2B+2 (thorough); HMAC key-length x message-length x 2-cut grid; HKDF/PBKDF2/KDF parameter grids; thorough adds 2^29(+0,1,64)-byte streams. A case is non-trivial and distinct by (algorithm, interface, content, cut vector / parameter tuple); oracle = OpenSSL libcrypto value for the same input.',
    'bound': {'quick': '3-cuts up to B+2 bytes; builds fast, asan(subset via deadline), small', 'thorough': '3-cuts up to 2B+2 bytes; 2^29+64 byte streams; builds fast, asan, small, sm3sse'},
    'assumptions': ['OpenSSL 3.0 libcrypto is a correct implementation of SM3/SHA-1/SHA-2/HMAC/HKDF/PBKDF2/X9.63-KDF', 'message contents limited to two byte patterns'],
    'quick': [J('c03', 'fast'), J('c03', 'small', shards=4, deadline=60)],
    'thorough': [J('c03', 'fast'), J('c03', 'asan'), J('c03', 'small'), J('c03', 'sm3sse', cpu=['ssse3'])],
    'budget': {'quick': 120, 'thorough': 1200},
}
