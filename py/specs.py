"""Per-property job tables for bin/vcheck.  A job = one driver built against one library variant, run in N shards."""
RUNENV = {
    'ASAN_OPTIONS': 'abort_on_error=1:detect_leaks=0:allocator_may_return_null=1:handle_abort=0:symbolize=1',
    'UBSAN_OPTIONS': 'print_stacktrace=0:halt_on_error=1',
    'MSAN_OPTIONS': 'abort_on_error=1',
    'ASAN_SYMBOLIZER_PATH': '/usr/bin/llvm-symbolizer-14',
}
REF = ['harness/venv.c', 'ref/ossl_ref.c']

def J(driver, variant, **kw):
    d = {'driver': driver, 'variant': variant, 'srcs': REF}
    d.update(kw); return d

SPECS = {}
NOT_BUILT = {}
SPECS['C03'] = {
    'level': 'exploration',
    'technique': 'explicit-state enumeration of the hash update automaton and parameter grids on the real code, OpenSSL as reference model',
    'claim': 'Every (buffer fill, update length) state pair and every 3-cut chunking of short messages, for every digest/HMAC/HKDF/PBKDF2/KDF interface, returns the OpenSSL value; exhaustive over the stated alphabet, nothing outside it is claimed.',
    'trusted': 'OpenSSL 3.0 libcrypto as the standard; two message contents; gcc/clang code generation of the checked variants',
    'rule': 'explicit enumeration of the update automaton: every (buffer fill f in [0,B), update length 0..3B+1) pair for 8 digests x {native, dispatch, sm3_digest} x 2 contents; every 3-cut chunking of every message <= B+2 (quick) / 2B+2 (thorough); HMAC key-length x message-length x 2-cut grid; HKDF/PBKDF2/KDF parameter grids; thorough adds 2^29(+0,1,64)-byte streams. A case is non-trivial and distinct by (algorithm, interface, content, cut vector / parameter tuple); oracle = OpenSSL libcrypto value for the same input.',
    'bound': {'quick': '3-cuts up to B+2 bytes; builds fast, asan(subset via deadline), small', 'thorough': '3-cuts up to 2B+2 bytes; 2^29+64 byte streams; builds fast, asan, small, sm3sse'},
    'assumptions': ['OpenSSL 3.0 libcrypto is a correct implementation of SM3/SHA-1/SHA-2/HMAC/HKDF/PBKDF2/X9.63-KDF', 'message contents limited to two byte patterns'],
    'quick': [J('c03', 'fast'), J('c03', 'small', shards=4, deadline=60)],
    'thorough': [J('c03', 'fast'), J('c03', 'asan'), J('c03', 'small'), J('c03', 'sm3sse', cpu=['ssse3'])],
    'budget': {'quick': 120, 'thorough': 1200},
}

MREF = ['harness/venv.c', 'ref/ossl_ref.c', 'ref/modes_ref.c']
SPECS['C04'] = {
    'level': 'exploration',
    'technique': 'explicit-state enumeration of every streaming context\'s (fill, length) automaton and of the length/IV/tag/AAD grids on the real code; reference model = OpenSSL + generic mode references validated on AES against OpenSSL',
    'claim': 'For every streaming cipher context every (buffer fill, update length) pair, in place and with guarded exact-size outputs, and for the one-shot calls every length/IV-length/tag-length/AAD-length combination of the stated grids, the bytes equal the independent reference and decrypt(encrypt) is the identity; exhaustive over that alphabet only.',
    'trusted': 'OpenSSL 3.0 (SM4-ECB/CBC/CTR/OFB/CFB, AES all modes, ChaCha20); ref/modes_ref.c for SM4-GCM/CCM/XTS/CFB-s/CTR32 (self-tested on AES vs OpenSSL on the same grids); ZUC: specification known answers and the bit-level EEA3/EIA3 definition only (no independent ZUC core); GB/T XTS tweak doubling pinned by the reference implementation of GHASH-style doubling',
    'rule': 'streams: 14 SM4/ZUC streaming contexts x 3 keys x every (fill in [0,unit), len in [0,50)) two-step feeding + finish, NULL-output size query before every call, canary-guarded output of exactly the reported size, in-place subset; CFB all s=1..16, XTS data units {16,17,31,32,48}, GCM tag 12..16; one-shot: 63 lengths x 3 keys x {CBC, CTR/CTR32 with 7 wrap counters, OFB, CFB s=1..16, CBC-MAC all cuts, XTS}; GCM: IV length 0..65 x AAD 0..33,4096 x 8 message lengths x tag lengths; CCM: nonce 6..14 x tag 2..18 x 11 AAD lengths (incl. 0xfeff/0xff00/0xff01) x 12 lengths (to 65537); AES-128/192/256 block+CBC, AES-CTR/GCM; ChaCha20 counters; ZUC-128/256 structure, specification test set 4 incl. z2000, 2^16-word agreement of keyword / bulk keystream / byte encryptor (one-shot and streamed), EEA3/EIA3 bit lengths 1..300; GCM counter wrap: 16-byte IVs constructed for 9 chosen J0 tails x 3 keys x {SM4, AES}. distinct = parameter tuple; non-trivial = a definite reference value exists. One-shot GCM (SM4, AES) and CCM also in place, both directions; the constructed-J0 counter-wrap IVs also through the streaming GCM interface in 8 chunkings.',
    'bound': {'quick': 'builds fast + small(subset by deadline)', 'thorough': 'builds fast, asan, small, aesni, avx2; full CCM grid for all 3 keys'},
    'assumptions': ['3 keys / IVs per cipher, one plaintext pattern', 'OpenSSL correctness'],
    'quick': [J('c04', 'fast', srcs=MREF), J('c04', 'asan', srcs=MREF, shards=8, deadline=100), J('c04', 'small', srcs=MREF, deadline=100), J('c04', 'aesni', srcs=MREF, cpu=['aes'], deadline=100), J('c04', 'avx2', srcs=MREF, cpu=['avx2'], deadline=100)],
    'thorough': [J('c04', 'fast', srcs=MREF), J('c04', 'asan', srcs=MREF), J('c04', 'small', srcs=MREF), J('c04', 'aesni', srcs=MREF, cpu=['aes']), J('c04', 'avx2', srcs=MREF, cpu=['avx2'])],
    'budget': {'quick': 150, 'thorough': 1500},
}

SPECS['C05'] = {
    'level': 'fault_enumeration',
    'technique': 'exhaustive single-fault enumeration (every bit of nonce/AAD/ciphertext/tag, every truncation, one-byte extensions) x every 2-cut chunking of the streaming decryptors, on the real code',
    'claim': 'For every sealed message of the grid, every single-bit modification of nonce, AAD, ciphertext and tag, every truncation and the one-byte extensions are reported as failure by the one-shot call or by *_decrypt_finish, for every way of splitting the stream in two; the untouched message opens in every chunking.',
    'trusted': 'the library\'s own encryptors produce the sealed messages (their conformance is C04); exact-size heap inputs + ASan catch over-reads',
    'rule': 'big-aad block: AAD lengths {0xfeff,0xff00,0xff01,0xffff,0x10000,0x10001} x 4 schemes (untouched, 64 end-of-AAD bit flips, +-1 byte, length-prefix confusion); schemes {SM4-GCM, AES-GCM, SM4-CCM one-shot; SM4-GCM, SM4-CBC+SM3-HMAC, SM4-CTR+SM3-HMAC streaming} x message lengths {0,1,17} (thorough {0,1,15,16,17,33}) x AAD {0,1,20,15,16,17,32} x tag lengths (quick 12,16 / CCM 4,10,16; thorough all) x nonce lengths (thorough); per sealed message: all bit flips of every field, all prefixes, 3 one-byte extensions at both ends, AAD +-1 byte; streaming: every 2-cut. distinct = (scheme, parameters, fault, cut); every fault is non-trivial (expected verdict: reject). In-place one-shot opens; a sentinel in *outlen of every streaming update (a successful call must set it); block command-line-tools: the three AEAD front ends of tools/ compiled into the driver, file sizes around the multiples of their 4096-octet buffer, round trip and 8 single-bit alterations of the sealed file.',
    'bound': {'quick': '1 fault, 2 chunks', 'thorough': '1 fault, 2 chunks, full parameter grid'},
    'assumptions': ['one key/nonce/plaintext per scheme', 'multi-bit forgeries are out of scope'],
    'quick': [J('c05', 'asan', srcs=MREF), J('c05', 'fast', srcs=MREF)],
    'thorough': [J('c05', 'asan', srcs=MREF), J('c05', 'fast', srcs=MREF)],
    'budget': {'quick': 150, 'thorough': 1200},
}

SREF = ['harness/venv.c', 'ref/ossl_ref.c', 'ref/sm2_ref.c']
SPECS['C13'] = {
    'level': 'exploration',
    'technique': 'exhaustive enumeration of an operand alphabet (all 4-limb combinations over a boundary limb set, all pairs), point-pair table and Booth-window scalars on the real code; reference model = OpenSSL BN/EC_POINT',
    'claim': 'Every exported sm2_z256 integer / mod-p / mod-n / Montgomery function agrees with OpenSSL BN on all ordered pairs (singles) of the operand alphabet inside its domain; point add/sub/dbl/neg/affine variants agree on all ordered pairs of 12 representative points (incl. infinity in both encodings, P=Q, P=-Q, non-normalised Jacobian); scalar multiplication agrees by every route for every single-window and adjacent-window scalar. Nothing is claimed for operands whose limbs are outside the alphabet.',
    'trusted': 'OpenSSL BN and EC_POINT arithmetic (explicit SM2 parameters cross-checked against NID_sm2); conversion from Montgomery/Jacobian form done in the reference with BN',
    'rule': 'operands: limb set L (quick 6 values -> 1296 operands, thorough 8 -> 4096) in all 4 positions + 18 named boundary values (n-2..n+1, p-2..p+1, R mod p/n, R^2, halves, typical); 12 binary functions on all ordered pairs filtered to the domain [0,p) resp. [0,n); 25 unary functions on all singles (rshift all 64 shifts, Booth digits w=5,7 reconstruct the operand, sqrt existence+value, exp with 6 exponents); points: 12x12 ordered pairs for add/sub/aliased add, affine variants, unary ops, equality table; scalars: v*2^(w*i) for all v<2^w, all window positions, w in {5,7}; adjacent-window pairs over 10 values; boundary and alphabet scalars; routes mul_generator, point_mul and pre_compute+mul_ex on 4 base points, mul_sum with 3 s values. distinct = operand tuple (pairs are distinct by construction). Result-over-operand variants of every field and point operation; squares block (12/16 limb values incl. the limbs of p and n); representatives with stored Z = 1 / 2.',
    'bound': {'quick': 'L of 6 limbs; builds fast, amd64(if built)', 'thorough': 'L of 8 limbs; builds fast, asan, amd64'},
    'assumptions': ['operands outside the limb alphabet are not covered (alphabet argument, not a proof)'],
    'quick': [J('c13', 'fast', srcs=SREF), J('c13', 'amd64', srcs=SREF, deadline=100)],
    'thorough': [J('c13', 'fast', srcs=SREF), J('c13', 'amd64', srcs=SREF), J('c13', 'asan', srcs=SREF, deadline=900)],
    'budget': {'quick': 150, 'thorough': 1500},
}

SPECS['C01'] = {
    'level': 'exploration',
    'technique': 'bounded exhaustive enumeration of signing/verifying interface pairs, scripted nonces (incl. solved retry branches), chunkings, ID shapes, (r,s) boundary pairs and the complete 1-deviation neighbourhood of DER signatures on the real code; reference model = OpenSSL BN/EC equations + OpenSSL EVP SM2',
    'claim': 'For the key set D, scripted nonces and message/ID grids every signing interface returns exactly the GB/T 32918.2 (r,s) of the nonce drawn and it verifies under every verification interface and under OpenSSL; every offered (r,s) boundary pair, every single-bit flip / truncation / one-byte extension / non-canonical re-encoding of a valid signature, and every message / public-key bit flip is accepted iff the reference predicate (strict DER and equations) accepts; Z binds exactly idlen bytes.',
    'trusted': 'OpenSSL BN/EC and SM3; the strict-DER predicate and DER encoder written for the harness (cross-checked by OpenSSL EVP verification of library signatures); scripted entropy shim',
    'rule': 'sign: 5 keys x 5 nonces (1,2,n-1,n-2,typical) x 12 message lengths x {sm2_sign, sm2_do_sign, streaming init/update/finish, reset+finish, finish_fixlen x3, sign_fixlen x3}; retry: 5 keys x 3 nonces x {r=0, r+k=n, s=0} solved digests; chunks: every 2-cut of every message <= 130 (thorough 194) through streaming sign and verify; id: 3 content kinds x 8 lengths x {exact heap buffer, NUL after}, 7x7 cross-ID matrix; rs-pairs: ~29x29 boundary pairs x {do_verify, fast_verify, DER via sm2_verify and verify ctx}; der: per (key, length shape) every bit flip, truncation, 256 one-byte extensions inside/outside, 17 non-canonical forms, 160 message and 512 public-key bit flips; interop: OpenSSL-made signatures. distinct = parameter tuple / offered byte string; non-trivial = reference gives a definite verdict.',
    'bound': {'quick': '1 deviation from a valid signature; keys {1, typical} for neighbourhoods', 'thorough': 'all 5 keys, 3 length shapes'},
    'assumptions': ['keys, nonces, messages outside the sets are not covered', 'multi-bit forgeries out of scope'],
    'quick': [J('c01', 'fast', srcs=SREF), J('c01', 'asan', srcs=SREF, deadline=110)],
    'thorough': [J('c01', 'fast', srcs=SREF), J('c01', 'asan', srcs=SREF), J('c01', 'amd64', srcs=SREF)],
    'budget': {'quick': 150, 'thorough': 1500},
}

SPECS['C02'] = {
    'level': 'exploration',
    'technique': 'bounded exhaustive enumeration (all 255 plaintext lengths x keys x contents x interfaces, every 2-cut of short messages, complete 1-deviation neighbourhood of DER ciphertexts, C1 substitution set, all ordered key pairs for ECDH) on the real code; reference model = OpenSSL BN/EC equations + OpenSSL EVP SM2',
    'claim': 'For the key set D and scripted nonces every encryption interface produces exactly the GB/T 32918.4 ciphertext of the nonce drawn for every plaintext length 1..255, it decrypts through every interface and under OpenSSL (and vice versa); every bit flip, truncation, extension, non-canonical form and C1 substitution of a valid ciphertext is accepted iff the reference accepts; ECDH equals d_A*d_B*G for all ordered key pairs and refuses invalid peer shares.',
    'trusted': 'OpenSSL BN/EC/SM3/X9.63-KDF and EVP SM2; harness strict-DER reader/writer (der.h); scripted entropy shim',
    'rule': 'roundtrip: 5 keys x lengths 0..256 x 3 contents x {sm2_encrypt, sm2_do_encrypt, do_decrypt, sm2_decrypt, streaming decrypt, streaming encrypt in every 2-cut for len<=40, fixlen x3, OpenSSL interop both ways}; malformed: per (key,length in {1,16,255}) every bit flip, every prefix, one-byte extensions, 7 C1 substitutions, 10 non-canonical forms, 4 wrong keys, C3 with a zero first / last octet (nonce search) offered with that octet cut / a zero added, the maximum-size ciphertext (366 bytes, nonce search) with 1..100 trailing bytes; ecdh: 5x5 ordered pairs x {do_ecdh, sm2_ecdh uncompressed/compressed, symmetry}, 8 invalid peer shares. distinct = parameter tuple / offered byte string. C1 with a small ordinate and its y + p alias.',
    'bound': {'quick': 'neighbourhoods for key typical (3 lengths) and d=1 (1 length)', 'thorough': 'all keys x 3 lengths'},
    'assumptions': ['keys/nonces/contents outside the sets not covered; the KDF-all-zero retry cannot be forced'],
    'quick': [J('c02', 'fast', srcs=SREF), J('c02', 'asan', srcs=SREF, deadline=110)],
    'thorough': [J('c02', 'fast', srcs=SREF), J('c02', 'asan', srcs=SREF), J('c02', 'amd64', srcs=SREF)],
    'budget': {'quick': 150, 'thorough': 1500},
}

SPECS['C12'] = {
    'level': 'exploration',
    'technique': 'exhaustive crossing of a coordinate/scalar value alphabet with every import container and every octet prefix byte on the real code; reference model = BN curve-membership predicate',
    'claim': 'Every point/key import path accepts a value from the alphabet only if the coordinates are below p and satisfy the curve equation (never infinity as a key or ECDH share), the imported object equals the input, private scalars are accepted iff in [1,n-2], a private-key container with a mismatching embedded public key is refused, and compress/decompress is the identity on k*G for k in 1..16, n-1.',
    'trusted': 'OpenSSL BN for the curve predicates (SM2 explicit parameters; SM9 G1 y^2=x^3+5 and the G2 twist equation, self-tested on the generators)',
    'rule': 'values: {valid, negated, y+1, (0,0), x=p, y=p, x/y=2^256-1, small x, x+p, y+p, (1,0), (0,1)} x containers {from_bytes, from_octets, point DER, SubjectPublicKeyInfo DER and PEM, certificate, request, ECPrivateKey and PKCS#8 embedded public key, SM2 ciphertext C1, ECDH peer share}; octet strings of lengths {1,33,64,65,66} x all 256 prefix bytes; 11 scalars around 0, n-2..n+1, p, 2^255, 2^256-1 through set_private_key and ECPrivateKey DER; SM9 G1 (8) and G2 (9) octet variants, coordinate+p aliases of [k]P1 / [k]P2 (k = 1..60) also inside the master public key container; TLS ServerKeyExchange / ClientKeyExchange / TLS 1.3 key shares as point containers; SubjectPublicKeyInfo bit-string length x prefix grid. distinct = (container, value).',
    'bound': {'quick': 'whole alphabet', 'thorough': 'whole alphabet, + asan and amd64 builds'},
    'assumptions': ['points outside the value alphabet are not covered', 'TLS key-exchange containers are exercised by the handshake checks (C09/C10)'],
    'quick': [J('c12', 'fast', srcs=SREF), J('c12', 'asan', srcs=SREF)],
    'thorough': [J('c12', 'fast', srcs=SREF), J('c12', 'asan', srcs=SREF), J('c12', 'amd64', srcs=SREF)],
    'budget': {'quick': 100, 'thorough': 600},
}

SPECS['C14'] = {
    'level': 'exploration',
    'technique': 'small-scope exhaustive enumeration: per-type value grids (encode/decode), every byte string up to length 2 (6 over a boundary alphabet) into each primitive decoder, base64/hex/PEM automata in every (fill,len) pair and 2-cut, capacity edges, one-edit password neighbourhood; oracle = harness strict-DER reader, reference codecs and a civil-calendar function written for the harness',
    'claim': 'Within the enumerated spaces every encoder output decodes to the same value consuming exactly its bytes, dry-run length equals bytes written (canary-checked), every input a primitive decoder accepts re-encodes to the identical bytes and is strict DER, composite objects are strict DER and round-trip, text codecs invert for every chunking, refuse malformed text and stay within the declared capacity, and no one-edit neighbour of the password opens an encrypted key.',
    'trusted': 'harness der.h strict reader/writer, reference base64, Hinnant civil-from-days calendar algorithm; OpenSSL not needed here',
    'rule': 'values: lengths and ints 0..70000 + 2^k, 2^k+-1; INTEGER byte strings length 1..33 x leading {00,01,7f,80,ff} x second byte {00,7f,80}; BOOLEAN; BIT STRING 0..40 bits; OIDs 2..33 arcs x 11 arc values; UTF-8 strings of 1..3 code points over 11 scalar-value boundaries + 11 invalid sequences; all 256 bytes as Printable/IA5 characters; every day 1970..9999 (quick: every day to 2051, then every 37th, last 400) at seconds {0,1,86399} + 11 impossible dates. decoders: 14 decoders x every string of length<=2 (and 3-4 after short lengths) over all bytes, length 3..6 over {00,01,02,7f,80,81,82,84,ff,tag}. text: base64 encoder (fill 0..47 x len 0..100), decoder n 0..200 x every 2-cut, 6 character substitutions at every position, 4095/4096; hex 0..200 both cases, odd lengths, every byte as a digit; PEM 3 capacities x {cap-1,cap,cap+1,2cap} x 3 newline styles, malformed bodies. composite: 5 keys x {ECPrivateKey, PKCS#8, SPKI (+ every 7th single-byte XOR of its header), PEM, encrypted PKCS#8 with ~30 wrong passwords}, algorithm identifiers, 32 name shapes. distinct = value / byte string. Block signatures-and-ciphertexts (SM2/SM9 signature and ciphertext: every bit change, members re-written with 33/34 octets, redundant zero, negative, empty, truncated, trailing octet; accepted => re-encodes identically); block reused-destination (21 key readers, three prior states of the destination object).',
    'bound': {'quick': 'calendar thinned after 2051', 'thorough': 'every day to 9999-12-31; encrypted PKCS#8 for all 5 keys'},
    'assumptions': ['strings longer than 3 characters, big integers > 33 bytes, passwords beyond one edit are not covered'],
    'quick': [J('c14', 'fast'), J('c14', 'asan', deadline=120)],
    'thorough': [J('c14', 'fast'), J('c14', 'asan')],
    'budget': {'quick': 150, 'thorough': 1500},
}

SPECS['C07'] = {
    'level': 'exploration',
    'technique': 'exhaustive enumeration of all <=1 (quick) / <=2 (thorough) deviations from the canonical valid chain of each length 1..5, role and form, verified by the real x509_certs_verify(_tlcp); three-valued executable reference predicate',
    'claim': 'For every chain in the <=k-deviation neighbourhood of the toolkit-shaped valid chains (1..5 certificates, server/client, TLS and TLCP two-leaf form): the library accepts only if the reference predicate does not say must-reject (validity now, issuer/subject linkage, signatures, anchor in store, every issuer a CA with keyCertSign, pathLen and depth respected, end-entity usages fit the role, no unknown critical extension), and accepts every toolkit-shaped chain the predicate marks must-accept.',
    'trusted': 'the reference predicate in harness/c07.c (three-valued: stricter library behaviour that the property does not forbid is "unspecified"); certificates are issued with the library\'s own x509_cert_sign_to_der; clock owned by the shim',
    'rule': 'per (form in {tls,tlcp}) x (role in {server,client}) x (L in 1..5): menu of 26 per-certificate deviations (basicConstraints absent/FALSE/TRUE, pathLen absent/0/1/exact/one-less, keyUsage absent/no-keyCertSign/DS-only/KE-only/non-critical/certSign-on-leaf, EKU server/client/any, expired/not-yet/10-year span, signature bit flip/other key, issuer mismatch, unknown extension non-critical/critical, v1) at every position incl. anchor (and TLCP encryption leaf) + store {unrelated, same name other key, empty} + depth 0..5; quick: single deviations; thorough: all pairs. distinct = the chain specification; non-trivial = reference verdict is definite (must-accept or must-reject). Validity windows 2^31 / 2^32 seconds ahead; subjects with a malformed non-final RDN.',
    'bound': {'quick': '<=1 deviation', 'thorough': '<=2 deviations (~10^5 chains)'},
    'assumptions': ['name constraints, policies, CRL/OCSP status are outside the property', 'more than 2 simultaneous defects not covered'],
    'quick': [J('c07', 'fast', srcs=['harness/venv.c']), J('c07', 'asan', srcs=['harness/venv.c'], deadline=110)],
    'thorough': [J('c07', 'fast', srcs=['harness/venv.c']), J('c07', 'asan', srcs=['harness/venv.c'], deadline=1200)],
    'budget': {'quick': 150, 'thorough': 1500},
}

SPECS['C15'] = {
    'level': 'exploration',
    'technique': 'exhaustive enumeration of field grids for issued certificates / requests / CRLs, the full key x signer-ID verification matrix, every single-bit modification of issued objects, all serial queries against all CRL subsets, on the real code',
    'claim': 'Every object issued over the field grid parses back to exactly the supplied fields; it verifies iff the issuer key and the signer ID it was issued under are used (4 IDs incl. prefix / NUL-extended forms); no single-bit modification of a certificate, request or CRL still verifies; CRL lookup reports a serial revoked exactly when listed, for all subsets of prefix-related serials.',
    'trusted': 'the library parses its own output (field comparison is against the values handed to the issuing call); SM2 signature soundness is C01',
    'rule': 'certs: serial lengths {1,2,8,19,20} x top bit x 5 validity windows (now, 2049, 2049/2050 straddle, 2050, 2100) x 8 extension sets x 2 signer IDs: all fields compared, UTCTime/GeneralizedTime choice, 2x4 verification matrix, every bit flip for selected objects (thorough: all); requests: 4 signer IDs x 3 names, ID matrix, bit flips, subject key different from the signing key; extension sizes: dNSName lengths 1..8, 100..140, 235..270, 300 in subjectAltName / issuerAltName (block well-formed, every extension found again); CRLs: 16 subsets of 4 prefix-related serials x 2 IDs, 7 serial queries each, fields, matrix, bit flips. distinct = (object parameters, verification attempt / flipped bit / query). Blocks crl-entry-extensions, CRLs without nextUpdate, extension-builders-append (20 builders x predecessors). Block user-notice (UserNotice qualifier in its three forms read into variables holding a previous notice).',
    'bound': {'quick': 'grid thinned to ~1/3 for certificates; bit flips on 4 certificates, 2 requests, 4 CRLs', 'thorough': 'full grid, bit flips on every object'},
    'assumptions': ['multi-bit modifications out of scope'],
    'quick': [J('c15', 'fast', srcs=['harness/venv.c']), J('c15', 'asan', srcs=['harness/venv.c'], deadline=110)],
    'thorough': [J('c15', 'fast', srcs=['harness/venv.c']), J('c15', 'asan', srcs=['harness/venv.c'], deadline=1200)],
    'budget': {'quick': 150, 'thorough': 1500},
}

SPECS['C16'] = {
    'level': 'exploration',
    'technique': 'exhaustive enumeration of signer/recipient counts 1..4, key-object provenance, content lengths and every single-bit modification inside the fields the property names (located with the harness DER walker), on the real CMS code',
    'claim': 'For every signer set and recipient set of 1..4 parties, key objects obtained by generation / DER import / PEM import and the content-length set, signed, enveloped, encrypted and signed-and-enveloped messages round-trip; every single-bit change inside content, signature value, encrypted key, IV or ciphertext of a short message, a non-recipient key, a key/certificate mismatch and a zero-signer SignedData are refused.',
    'trusted': 'harness DER walker locates the named fields; bit flips outside those fields (e.g. inside embedded certificates, which SignedData does not sign) are unspecified and not judged',
    'rule': 'sign-verify: signers 1..4 x 3 key origins x 7 content lengths {0,1,15,16,17,4096,65536}; all bit flips inside content/signature for content<=17; swapped signer keys; zero SignerInfos. envelop: recipients 1..4 x 7 lengths, each of the 4 parties x 3 key origins tries to open, key/cert mismatch, all bit flips in own encrypted key / IV / ciphertext. encrypt/decrypt with wrong key and IV/ciphertext flips; set_data; sign-and-envelop signers x recipients x lengths, all single-bit modifications of short signed-and-enveloped messages (accepted => signed type and content returned); 5 look-alike recipient pairs x both orders. distinct = (parties, origin, length, flipped bit). Blocks shared-info, sign-with-crls, signer-attributes (SignedData assembled with the library writers; attribute fields exchanged / replaced with the signature kept).',
    'bound': {'quick': 'large contents only for <=2 parties; sign+envelop for signers+recipients<=4', 'thorough': 'full cross product'},
    'assumptions': ['more than 4 parties and 2-bit changes are not covered'],
    'quick': [J('c16', 'fast', srcs=['harness/venv.c']), J('c16', 'asan', srcs=['harness/venv.c'], deadline=110)],
    'thorough': [J('c16', 'fast', srcs=['harness/venv.c']), J('c16', 'asan', srcs=['harness/venv.c'], deadline=1200)],
    'budget': {'quick': 150, 'thorough': 1500},
}

TLSSRC = ['harness/venv.c']
PBWRAP = ['-Wl,--wrap=sm3_pbkdf2', '-lpthread', '-ldl', '-lm']
PGWRAP = ['-Wl,--wrap=sm3_pbkdf2', '-Wl,--wrap=sm4_gcm_encrypt', '-lpthread', '-ldl', '-lm']
GCMWRAP2 = ['-Wl,--wrap=sm4_gcm_encrypt', '-lpthread', '-ldl', '-lm']
GCMWRAP = ['-Wl,--wrap=sm4_gcm_encrypt', '-lcrypto', '-lpthread', '-ldl', '-lm']

SPECS['C06'] = {
    'level': 'fault_enumeration',
    'technique': 'exhaustive <=1-deviation mutation enumeration of library-built objects (byte substitutions from a boundary alphabet at every offset, every truncation, every length-field / tag rewrite of every TLV found by a DER walker, algebraic boundary values in 32-byte fields, capacity +-1 lists) fed in exact-size heap blocks to every decoder / verifier / printer under ASan+UBSan(bounds), and of every handshake record of live handshakes over vnet with a peer-state guard; one guarded implementation run per mutant',
    'claim': 'No mutant of the enumerated neighbourhood of any seed makes any consumer read or write outside the presented block or its own buffers, abort, or hang; a peer that alters any byte of any handshake record, or sends over-long lists, never crashes the endpoint nor changes its configured CA certificates, chain or keys.',
    'trusted': 'ASan redzones + UBSan bounds/null/object-size as the memory oracle; exact-size malloc blocks (no slack); guarded child with per-case timeout as abort/hang oracle',
    'rule': 'c06a: per seed (certificate, chain, CRL, CSR, 5 CMS types, PKCS#8 plain/encrypted, SPKI, ECPrivateKey, SM2/SM9 signatures, ciphertexts and keys, PEM, hex/base64/URI/HTTP text, handshake records of honest TLCP/TLS1.2 runs): 9 substitutions x every offset + every truncation + per TLV header 11 length encodings + 14 tags + 9 boundary values + tree operator (every element of every constructed value, also inside OCTET/BIT STRING wrappers, emitted r times, r in {0,2,3,7,8,9,16,17,32,33,64,65,128,129}, lengths re-encoded); password-protected SM2 / SM9 key files (PBKDF2 cut to 64 iterations for writer and reader); cross-type block (every seed to every other consumer); capacity block (OID arcs, SEQUENCE OF INTEGER, tag names, certificate lists around 2048 bytes, cipher-suite / session-id sizes). ASan+UBSan and MSan builds. c06b: per configuration and handshake record: substitutions at every payload offset (quick: thinned), every consistent truncation of plaintext handshake messages, oversize certificate lists, hello-extension rewriting (delete / repeat 2..200 times / cut every extension, shrink every inner vector, lengths re-encoded), the same substitutions and truncations inside ENCRYPTED TLS 1.3 handshake messages (malicious peer through a wrap of sm4_gcm_encrypt), crafted records after the handshake, with state guard; fast, ASan and MSan builds. c06c: every exported *_print and *_from_der[_ex] entry point of the tree under test (wrappers generated from include/gmssl/*.h by bin/vgen_c06c: 116 printers in 5 byte-string signature classes + 144 readers (*_from_der[_ex], *_from_bytes, tls*_process_* extension processors) whose outputs are provided at their contractual capacity in exact-size heap blocks, tag / index selectors enumerated; after a successful return every (pointer,length) output is read through and list counts are compared with the capacity given; what is not generated is listed in the table with the reason); likewise every *_from_pem reader (16) x 440 PEM texts (every DER seed under each of the 14 labels the library reads, files with 2..12 certificates) x text-level deviations (header / footer dropped or altered, one 10000-character line, CRLF, blank lines, foreign characters, padding removed / doubled, empty body, garbage around, truncations) with caller buffers of 0 / 1 / 100 / 512 / 4096 octets x every node (TLV and bare content) of the DER tree of every seed incl. a certificate with every extension the library can write, a CRL with every CRL/entry extension, a request with attributes, all GeneralName choices, and every record / handshake message / length-prefixed vector of honest TLCP, TLS 1.2 and TLS 1.3 runs (TLS 1.3 plaintext taken at the AEAD boundary) x {unchanged, 6 substitutions at each of the first HEAD bytes and the last byte, every truncation below HEAD, n-1, n-2} x every selector value for the printers that take one; ASan+UBSan and MSan builds. c06a also: crafted TLS 1.3 inner plaintexts (all zeros, every type octet), connection-store-capacities (tls_init with 1..13 certificates as trust list / own chain).',
    'bound': {'quick': '1 mutation, offsets thinned (step 3) for seeds > 2500 bytes', 'thorough': '1 mutation at every offset'},
    'assumptions': ['two simultaneous mutations out of scope', 'file / socket plumbing of the command-line tools not covered'],
    'quick': [J('c06a', 'asan', srcs=TLSSRC, libs=PBWRAP, deadline=400), J('c06a', 'msan', srcs=TLSSRC, libs=PBWRAP, deadline=400),
              J('c06c', 'asan', srcs=TLSSRC, libs=PGWRAP, gen='vgen_c06c', deadline=400), J('c06c', 'msan', srcs=TLSSRC, libs=PGWRAP, gen='vgen_c06c', deadline=400, env={'C06C_HEAD': '4'}),
              J('c06b', 'fast', srcs=TLSSRC, libs=GCMWRAP, deadline=400, env={'C06B_STEP': '3', 'C06B_DENSE': '160', 'C06B_SUBS': '0x1ff'}),
              J('c06b', 'asan', srcs=TLSSRC, libs=GCMWRAP, deadline=400, env={'C06B_STEP': '32', 'C06B_DENSE': '96', 'C06B_SUBS': '0xc9'}),
              J('c06b', 'msan', srcs=TLSSRC, libs=GCMWRAP2, deadline=400, env={'C06B_STEP': '64', 'C06B_DENSE': '160', 'C06B_SUBS': '0x81'})],
    'thorough': [J('c06a', 'asan', srcs=TLSSRC, libs=PBWRAP, deadline=1500), J('c06a', 'msan', srcs=TLSSRC, libs=PBWRAP, deadline=1500),
              J('c06c', 'asan', srcs=TLSSRC, libs=PGWRAP, gen='vgen_c06c', deadline=1500, env={'C06C_HEAD': '24'}), J('c06c', 'msan', srcs=TLSSRC, libs=PGWRAP, gen='vgen_c06c', deadline=1500, env={'C06C_HEAD': '12'}),
              J('c06b', 'fast', srcs=TLSSRC, libs=GCMWRAP, deadline=1500, env={'C06B_STEP': '1', 'C06B_DENSE': '160', 'C06B_SUBS': '0x1ff'}),
              J('c06b', 'asan', srcs=TLSSRC, libs=GCMWRAP, deadline=1500, env={'C06B_STEP': '2', 'C06B_DENSE': '160', 'C06B_SUBS': '0x1ff'}),
              J('c06b', 'msan', srcs=TLSSRC, libs=GCMWRAP2, deadline=1500, env={'C06B_STEP': '4', 'C06B_DENSE': '160', 'C06B_SUBS': '0x1ff'})],
    'budget': {'quick': 170, 'thorough': 1700},
}
SPECS['C08'] = {
    'level': 'model_checking',
    'technique': 'stateless model checking of the two real endpoints under a controlled scheduler and environment: deviation-bounded exhaustive exploration of short reads / partial sends / task switches at every socket call, plus the crossed application size alphabet; every execution is an implementation run',
    'claim': 'For 3 protocols x {server-auth, mutual} x chain depth 1..3, under every environment schedule with at most k deviations (short read, partial send, task switch at any of the ~300 socket calls) the handshake completes on both sides with identical secrets, suite and version, the scripted data arrives complete and in order in both directions and the close is observed; for every write size x read buffer x direction x burst combination of the size alphabet the same holds under the default environment.',
    'trusted': 'in-memory pipe and hand-off scheduler (harness/vnet.h) model a blocking stream socket; entropy and clock scripted per endpoint; endpoints are deterministic functions of the bytes they consume',
    'require_counters': {'quick': {'tlcp_serverauth_handshakes_with_a_short_client_key_exchange': 2, 'tlcp_mutual_handshakes_with_a_short_client_key_exchange': 2}},
    'rule': 'env blocks: per configuration the DFS over choice prefixes: at every send {all, 1 byte, half} and every recv {full, 1 byte, half} and after each {continue, switch}; bound = number of non-default choices (quick: 1; thorough: 2 for depth-1 chains, 1 otherwise). interleaved blocks: the server reads part of a record (buffers 1,7,100,999 of records 17,1000,16384), writes {1,500,16384,20000} bytes, reads the rest; sizes blocks: write sizes {1,2,15,16,17,16383,16384,16385,32768,50000} x read buffers {1,7,16384,20000} x {single, burst of 3} x {c2s, s2c} x 3 protocols. distinct = (configuration, choice prefix); states/transitions = choice points visited. Block keys-*: the honest handshake under 4096 (TLCP; thorough 16384) / 256 (TLS 1.2, TLS 1.3; thorough 1024) further entropy scripts per authentication mode, same oracle; TLCP runs whose ClientKeyExchange carries a shorter-than-usual SM2 ciphertext (coordinate with leading zero octets) are counted and a minimum is required. Configurations client-holds-an-unrequested-certificate and chain-at-the-store-limit (chain totals 2036..2048 octets, depth 2-3).',
    'bound': {'quick': 'deviations <= 1', 'thorough': 'deviations <= 2 (depth-1 chains) / 1 (depth 2,3)'},
    'assumptions': ['blocking sockets only (EAGAIN mid-handshake is documented as unsupported)', 'sizes outside the alphabet not covered'],
    'quick': [J('c08', 'fast', srcs=TLSSRC)],
    'thorough': [J('c08', 'fast', srcs=TLSSRC, deadline=1500), J('c08', 'asan', srcs=TLSSRC, deadline=600, env={'VH_TIER': 'quick'})],
    'budget': {'quick': 170, 'thorough': 1700},
}

SPECS['C10'] = {
    'level': 'fault_enumeration',
    'technique': 'exhaustive single-fault enumeration on the real handshakes over vnet: every (record, payload offset, bit) flip of every handshake record plus per-record drop / duplicate / swap / truncate / inject faults (thorough: all pairs of record-level faults), one forked implementation run per fault',
    'claim': 'For 3 protocols x {server-auth, mutual}: under every single-bit modification of any handshake record payload and every per-record drop, duplication, swap with the next record, truncation (1 byte / half / all but one) and injection (copy of first record, copy of itself, alert, empty handshake record, CCS), client and server never both complete and no completed party accepts application data afterwards; the honest run completes and exchanges data (non-vacuity).',
    'trusted': 'vnet record-aware adversary; endpoints deterministic under scripted entropy/clock',
    'rule': 'faults enumerated from the record log of the honest run of each of the 9 configurations (3 protocols x {server-auth, mutual, mutual with two trusted client CAs}; 7-13 records, 1.2-2.5 KB payload => 9.5-20 k bit flips each, ~100 k in total) + 11 record-level faults per record; thorough adds ordered pairs (drop|dup|swap) x (any record-level fault). distinct = (configuration, fault); every fault is non-trivial (expected verdict: detected).',
    'bound': {'quick': '1 fault', 'thorough': '1 fault + 2 record-level faults'},
    'assumptions': ['record header bytes are covered under C06/C11', 'adversary without private keys'],
    'quick': [J('c10', 'fast', srcs=TLSSRC)],
    'thorough': [J('c10', 'fast', srcs=TLSSRC, deadline=1500)],
    'budget': {'quick': 170, 'thorough': 1700},
}

SPECS['C11'] = {
    'level': 'fault_enumeration',
    'technique': 'exhaustive enumeration of payload lengths x content types x sequence numbers through the real record protection (CBC+HMAC and GCM), the complete single-fault neighbourhood (bit flips, header fields, truncations, extensions, other sequence numbers) of short records, crafted records, and every duplicate / drop / swap / reflection of application records on live connections over vnet',
    'claim': 'For every payload length of the tier and the content-type / sequence-number sets, unprotect(protect(x)) returns the original type and payload with a reported length not exceeding the ciphertext; every single-bit change of body or authenticated header field, every truncation, extension and other sequence number of a short record, all-zero TLS 1.3 inner plaintexts and crafted CBC paddings are refused; on a live connection the delivered bytes are always a prefix of the sent stream (duplicated, swapped, reflected records are rejected) and nothing behind a deleted record is delivered.',
    'trusted': 'records are produced by the library\'s own protect functions (their wire format is exercised against the peer in C08); exact-size heap blocks + ASan for out-of-buffer writes; vnet adversary',
    'rule': 'cbc/gcm: payload lengths (quick: 0..1100, k*1024+-1, 16300..16384; thorough: every 0..16384) x content types x 8 sequence numbers (0,1,255,256,2^32-1,2^32,2^56-1,2^64-1) x TLS 1.3 paddings {0,1,15,16,255}; tamper neighbourhood for lengths {0,1,15,16,17,100}: all body bits, type/version bits, 16 length-field bits presented as 5+length bytes, all truncations, extensions, 8 other sequence numbers; crafted paddings and all-zero inner plaintexts; live: 3 protocols x 2 directions x 3 records x {duplicate, drop, swap, reflect}.',
    'bound': {'quick': 'thinned length set', 'thorough': 'all 16385 lengths'},
    'assumptions': ['one key per mode', '2-bit alterations out of scope'],
    'quick': [J('c11', 'fast', srcs=TLSSRC), J('c11', 'asan', srcs=TLSSRC, deadline=100)],
    'thorough': [J('c11', 'fast', srcs=TLSSRC, deadline=1500), J('c11', 'asan', srcs=TLSSRC, deadline=1500)],
    'budget': {'quick': 170, 'thorough': 1700},
}

PUPWRAP = ['-Wl,--wrap=tls_record_send', '-Wl,--wrap=sm3_update', '-Wl,--wrap=digest_update', '-Wl,--wrap=tls_seq_num_incr', '-Wl,--wrap=sm4_gcm_encrypt', '-lpthread', '-ldl', '-lm']
SPECS['C09'] = {
    'level': 'model_checking',
    'technique': 'exhaustive enumeration of (a) credential-defect configurations of the peer and (b) protocol deviations of a puppet prover (the library\'s own endpoint with link-time filters that leave out any one handshake message consistently, or send an empty certificate list) against the real verifying endpoint over vnet, one implementation run per configuration; invariant: verifier completed => credentials authentic and every authentication message seen',
    'claim': 'For 3 protocols x {client verifies server, server verifies client}: with every defective peer credential of the menu (untrusted root, expired, not yet valid, issuer or second-level issuer without basicConstraints / cA=FALSE, flipped certificate signature, sign key not matching the certificate, TLCP encryption key not matching / encryption certificate forged / expired, chain in wrong order, empty chain), at chain depths 1..3, and with a prover that omits any single one of its handshake messages (Certificate, ServerKeyExchange, CertificateVerify, ClientKeyExchange, Finished, ...) or presents an empty certificate list while keeping its own transcript consistent, and with a prover that lacks the private key and additionally rewrites any one of the first 12 bytes (algorithm identifier, lengths, start of the signature) of its signed message, the verifying endpoint never reports a completed handshake; with honest credentials of depth 1..3 both sides complete with equal secrets.',
    'trusted': 'the peer is the real opposite endpoint with TLS_CTX filled directly (bypassing the key/certificate match check of the loader); the puppet filters sit on tls_record_send / sm3_update / digest_update / tls_seq_num_incr (link-time --wrap)',
    'rule': 'c09: 3 protocols x 2 verifier roles x 27 credential configurations (3 honest + 24 defective); c09b: 3 protocols x 2 roles x every message the prover sends (4-7 per flight set) x {omit, empty certificate list}; keyless prover (genuine chain, unrelated signing key) x its CertificateVerify / ServerKeyExchange x {untouched, 12 header offsets x 9 substitution values altered consistently}; distinct = configuration; states = configurations run, transitions = endpoint runs. c09b oversized-chain: puppet under an untrusted root appends 2..12 entries to its Certificate message (TLCP / TLS 1.2); invariant in the endpoint task: trust anchors, own chain, own keys in the connection object unchanged after the handshake. c09: impostor certificate shaped like the trust anchor.',
    'bound': {'quick': 'whole menu, 1 protocol deviation', 'thorough': 'whole menu (+ asan)'},
    'assumptions': ['two simultaneous protocol deviations of the prover and reordered messages are not enumerated (C10 covers dropped / injected / swapped records by a network attacker)'],
    'quick': [J('c09', 'fast', srcs=TLSSRC), J('c09b', 'fast', srcs=TLSSRC, libs=PUPWRAP)],
    'thorough': [J('c09', 'fast', srcs=TLSSRC), J('c09', 'asan', srcs=TLSSRC), J('c09b', 'fast', srcs=TLSSRC, libs=PUPWRAP), J('c09b', 'asan', srcs=TLSSRC, libs=PUPWRAP)],
    'budget': {'quick': 120, 'thorough': 600},
}

SPECS['C17'] = {
    'level': 'exploration',
    'technique': 'exhaustive enumeration of operand / parameter alphabets through the real SM9 code, every result compared with a big-integer reference model (py/sm9_model.py: plain polynomial Fp12 = Fp[w]/(w^12+2), definition-level R-ate pairing, validated on the GM/T 0044.5 worked example) run as a co-process; scripted nonces make signatures, ciphertexts and exchanged keys exactly predictable; complete single-bit neighbourhoods of signatures and ciphertexts for the negative clauses',
    'claim': 'Over the stated alphabets every Fp, Fn, Fp2, Fp4, Fp12, G1, G2 operation returns the model value; e([a]P1,[b]P2) equals the model pairing, equals e(P1,P2)^(ab), is != 1 and has order N for all scalar pairs of the tier; H1 / hash-to-range agree; extracted keys, signatures (scripted r), ciphertexts, KEM keys and exchanged keys equal the model values, honest signatures verify and ciphertexts round-trip; another identity, another message, another master key, a negated S and every single-bit change of signature or ciphertext are rejected; both exchange parties derive the same key; key files of secrets with leading zero octets read back.',
    'trusted': 'py/sm9_model.py (validated by its --selftest on the standard\'s worked example, shares no code or algorithmic structure with src/sm9_z256.c); Python hashlib SM3 (OpenSSL)',
    'rule': 'fp: 256 (thorough 625) limb-alphabet values + p-3..p-1, (p-1)/2, (p+1)/2: all pairs x {add,sub,mul}, all x {neg,dbl,tri,haf,sqr,inv} and x 17 exponents; fn subset grid; hash-to-range 6 x 17 Ha values; fp2: 64 elements, pairs x {add,sub,mul,mul_u,div}, 10 unary ops, mul_fp; fp4: 24 shapes, all pairs x 4 ops, 11 unary, mul_fp, mul_fp2; fp12: 36 shapes, pairs x 3 ops, 9 unary ops incl. 4 Frobenius maps, pow; G1/G2: 6 points (incl. infinity, -P, [N-1]P) all pairs add/sub/dbl, 17 scalars (0,1,2,3,2^128,2^255,2^256-1,N-2..N+2,...) x points mul / mul_generator; pairing: 5x5 (thorough 7x7) scalar pairs; schemes: master secrets {1,2,N-1,example} x identity lengths {1,2,5,31,32,33,64,8191} x message lengths {0,1,20,55,56,63,64,65,119,128,1000} x nonces {1,2,N-1,example,typical} (full cross on the short axes), plaintexts {0,1,31,32,33,100,255}, key lengths {1,16,32,33,64,100}; all bit flips, trailing bytes and truncation of signature and ciphertext DER for the short cases; Ha = k(N-1)+d near-multiples; key files of secrets with leading zero octets. In-place variants for Fp, Fp2, Fp4, Fp12, G1, G2; signatures re-encoded with longer / shorter members.',
    'bound': {'quick': '4-limb alphabet over 4 limb values; 5x5 pairings', 'thorough': '5 limb values; 7x7 pairings; bit-flip neighbourhoods for every nonce'},
    'assumptions': ['values outside the alphabets are not covered', 'the model is the specification of "integer mathematics"; SM9 encryption uses the library\'s HMAC-SM3 tag (the standard\'s MAC is SM3(C2||K2): recorded as an observation, not judged)'],
    'quick': [J('c17', 'fast', srcs=TLSSRC, libs=['-lpthread', '-ldl', '-lm'], deadline=150)],
    'thorough': [J('c17', 'fast', srcs=TLSSRC, libs=['-lpthread', '-ldl', '-lm'], deadline=1500), J('c17', 'asan', srcs=TLSSRC, libs=['-lpthread', '-ldl', '-lm'], deadline=900, env={'VH_TIER': 'quick'})],
    'budget': {'quick': 170, 'thorough': 1700},
}

SPECS['C18'] = {
    'level': 'fault_enumeration',
    'technique': 'exhaustive entropy-fault enumeration: for every randomised operation and every handshake role, one implementation run per entropy-draw index with that draw failing, plus stream-pair (A/A, A/B) and long same-stream sequence runs, under the scripted getentropy shim',
    'claim': 'For 22 randomised API operations and the 12 handshake roles (3 protocols x {server-auth, mutual} x {client, server}): with the draw at every index failing the operation reports failure (the handshake endpoint does not complete and emits no further handshake / CCS / application record); equal streams give byte-identical output and different streams different ephemeral values; 200 (thorough 1000) repeated signatures / encryptions in one stream never reuse a nonce.',
    'trusted': 'libc getentropy is the only entropy gateway (rand_bytes); per-thread scripted streams; for handshakes the record log of vnet',
    'rule': 'ops: {sm2 keygen, sign, do_sign, sign_fixlen, streaming sign, encrypt, encrypt_fixlen, streaming encrypt, PKCS#8 encrypt, certificate / request / CRL signing, CMS sign / envelop, TLS CBC record IV, SM9 master keygen x2, sign, encrypt, KEM, exchange step 1A / 1B} x draw index 0..N-1 (N measured per operation) + A/A + A/B; sequences: 4 repeated-operation runs, 100 failing-draw positions x 110 streaming signatures on one context (continue after failure: every returned signature verifies, no nonce repeats); handshakes: 6 configurations x 2 roles x every draw index (35-70 draws per role) + A/A + A/B transcripts. distinct = (operation or role, failing draw index). Stuck-at-ones window (120 draws) on every range-checked draw under two streams; SM9 key-info encryptors and PEM writers among the operations.',
    'bound': {'quick': '1 failing draw per run; sequences of 200', 'thorough': 'sequences of 1000'},
    'assumptions': ['a failing draw is modelled as getentropy returning -1 once; partial reads do not exist for getentropy'],
    'quick': [J('c18', 'fast', srcs=TLSSRC)],
    'thorough': [J('c18', 'fast', srcs=TLSSRC), J('c18', 'asan', srcs=TLSSRC, deadline=900)],
    'budget': {'quick': 170, 'thorough': 1500},
}

WRAPS = ['-Wl,--wrap=tls_prf', '-Wl,--wrap=hkdf_extract', '-Wl,--wrap=hkdf_expand', '-Wl,--wrap=sm3_pbkdf2', '-Wl,--wrap=sm4_gcm_encrypt', '-Wl,--wrap=tls_record_encrypt', '-lcrypto', '-lpthread', '-ldl', '-lm']
SPECS['C19'] = {
    'level': 'fault_enumeration',
    'technique': 'exhaustive enumeration of handshake executions (honest, every credential defect, per-record tampering, every entropy-draw failure on both roles) and a list of secret-handling API sequences incl. their failure modes; fd 1 and fd 2 captured per execution and searched for every secret of that execution',
    'claim': 'In the default build, for 6 handshake configurations x {honest, 6 credential defects per role, bit flip / drop / duplicate of each of the first 8 records per direction, failure of each of the first 72 entropy draws per role} and for the SM2 / PKCS#8 / CMS / SM9 secret-handling sequences (success, tampered input, wrong key, wrong password, entropy failure), no window of 8 bytes of any private key, password, plaintext, pre-master / master secret, key block, TLS 1.3 secret, traffic key or IV appears on standard output or standard error, raw or as hex.',
    'trusted': 'secrets of the handshakes are captured at derivation by link-time wrapping of tls_prf / hkdf_extract / hkdf_expand; only fd 1 and fd 2 are observed (the library writes diagnostics nowhere else)',
    'require_counters': {'quick': {'tls12_runs_with_a_leading_zero_secret': 3, 'tls13_runs_with_a_leading_zero_secret': 2, 'tlcp_runs_with_a_leading_zero_secret': 3}},
    'rule': 'per execution: secrets = private scalars, application plaintext, PRF/HKDF inputs and outputs (Finished verify_data excluded), passwords; search = raw 8-byte windows and 16-hex-digit windows over the separator-stripped, case-folded capture. executions: handshakes (honest, 6 credential defects, 48 record faults, every failing entropy draw, 81 post-handshake operation pairs per protocol, the honest handshake under 1024 (thorough 4096) further entropy scripts so that value-dependent diagnostics show: runs whose key-exchange secret has a leading / trailing zero octet are counted and a minimum is required), 7 API scenarios, key-file import failure paths (5 container kinds x {consistent, spliced public point} x every 1-byte substitution (3 values) and truncation). distinct = (configuration, variant). Key-holding-peer faults also for TLCP / TLS 1.2 (wrap of tls_record_encrypt); every private key handed to an operation is a registered secret.',
    'bound': {'quick': 'whole menu', 'thorough': 'whole menu'},
    'assumptions': ['explicit print / export calls are not invoked', 'secrets shorter than 8 bytes are not searched'],
    'quick': [J('c19', 'fast', srcs=TLSSRC, libs=WRAPS)],
    'thorough': [J('c19', 'fast', srcs=TLSSRC, libs=WRAPS)],
    'budget': {'quick': 170, 'thorough': 600},
}

VSWRAP = ['-Wl,--wrap=memcpy', '-Wl,--wrap=memset', '-Wl,--wrap=memmove', '-Wl,--wrap=free', '-lpthread', '-ldl', '-lm']
SPECS['C20'] = {
    'level': 'model_checking',
    'technique': 'stateless model checking of the real code under a controlled scheduler: every load/store of the (TSan-instrumented, runtime-less) library reports to the harness, a footprint pass finds conflict granules (written by one task, touched by another / writable statics), and all schedules with at most k preemptions at task start, end, blocking and conflict-granule accesses are enumerated with a fixpoint on newly found conflicts; plus a separate free-running pass of the same task bodies under the real ThreadSanitizer',
    'claim': 'For every unordered pair (thorough: also triples of the six cheapest) of the 15 workload operations, each on its own objects and its own entropy stream, every schedule within the preemption bound gives each task exactly the outputs it produces alone; no memory granule is written by one task and accessed by another and no library static is written at all (conflict set empty => no data race on library state in any interleaving of these tasks); the free-running ThreadSanitizer pass reports no race and the same outputs.',
    'trusted': 'clang -fsanitize=thread instrumentation reports every library load/store (memcpy/memset/memmove through --wrap with -fno-builtin); sequential consistency; the hand-off scheduler; libc internals (stdio locks) are outside',
    'rule': 'operations: hash (SM3, SHA-256, SHA-512), HMAC+PBKDF2, SM4 CBC/CTR/GCM, ZUC, SM2 keygen+sign+verify, SM2 encrypt+ECDH, X.509 sign+verify (+error path), CMS sign+verify+encrypt+decrypt, TLS record protect/unprotect (CBC, GCM), malformed-input decoding (error path), SM9 sign+verify, PKCS#8 encrypt/decrypt, misc-interfaces (compressed points, key containers, base64, hex, times, OIDs, CRL / request signing, CCM / OFB / CFB / CBC-MAC, ZUC-256, SHA-1 / SHA-384, HKDF, SM9 encryption and exchange), names-and-printers (every `const char *name(int)` helper of the headers - table generated by bin/vgen_c20 - over 340 identifiers in an instance-dependent order, certificate / CRL / request / CMS / key / OID printers into a per-task memory stream), TLCP / TLS 1.2 / TLS 1.3 handshake (client task + server task over a private pipe pair). every execution in a forked child (pristine statics); distinct = (combination, schedule prefix); states = choice points + schedules, transitions = choice points. Operations cms-envelop and three refused-handshake pairs; close() interposed: the library must not close a pair descriptor.',
    'bound': {'quick': 'pairs, preemptions <= 1 (0 for two concurrent handshakes = 4 tasks: all run-to-block schedules)', 'thorough': 'pairs with preemptions <= 2 (<= 1 when a handshake is involved), triples of cheap operations with preemptions <= 2'},
    'assumptions': ['at most 3 (4 with handshake pairs) tasks in the exhaustive part; 16-thread behaviour only through the free-running pass', 'weak-memory reorderings beyond what ThreadSanitizer models are out of scope'],
    'quick': [J('c20', 'vsched', srcs=TLSSRC, libs=VSWRAP, gen='vgen_c20', deadline=150), J('c20', 'tsan', srcs=TLSSRC, libs=['-lpthread', '-ldl', '-lm'], gen='vgen_c20', deadline=150)],
    'thorough': [J('c20', 'vsched', srcs=TLSSRC, libs=VSWRAP, gen='vgen_c20', deadline=1500), J('c20', 'tsan', srcs=TLSSRC, libs=['-lpthread', '-ldl', '-lm'], gen='vgen_c20', deadline=900)],
    'budget': {'quick': 170, 'thorough': 1700},
}
