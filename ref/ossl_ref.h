/* ossl_ref.h — thin wrappers around OpenSSL 3 libcrypto used as the independent reference model. */
#ifndef OSSL_REF_H
#define OSSL_REF_H
#include <stdint.h>
#include <stddef.h>
/* digests: name in {"SM3","SHA1","SHA224","SHA256","SHA384","SHA512","SHA512-224","SHA512-256"}; returns digest length or 0 */
size_t ref_digest(const char *name, const uint8_t *in, size_t inlen, uint8_t *out);
size_t ref_hmac(const char *name, const uint8_t *key, size_t keylen, const uint8_t *in, size_t inlen, uint8_t *out);
int ref_pbkdf2(const char *name, const char *pass, size_t passlen, const uint8_t *salt, size_t saltlen, int iter, size_t outlen, uint8_t *out);
int ref_hkdf_extract(const char *name, const uint8_t *salt, size_t saltlen, const uint8_t *ikm, size_t ikmlen, uint8_t *prk);
int ref_hkdf_expand(const char *name, const uint8_t *prk, size_t prklen, const uint8_t *info, size_t infolen, size_t L, uint8_t *okm);
int ref_x963kdf_sm3(const uint8_t *z, size_t zlen, size_t outlen, uint8_t *out);
/* streaming digest for very long inputs */
void *ref_digest_new(const char *name); void ref_digest_update(void *c, const uint8_t *in, size_t n); size_t ref_digest_final(void *c, uint8_t *out);
/* generic cipher: name like "SM4-CBC", "AES-128-GCM"; enc=1/0; pad=0/1; returns outlen or -1.
 * aead: aad/tag used when tag != NULL (on decrypt, tag is the expected tag; returns -1 on auth failure) */
long ref_cipher(const char *name, int enc, int pad, const uint8_t *key, const uint8_t *iv, size_t ivlen,
	const uint8_t *aad, size_t aadlen, const uint8_t *in, size_t inlen, uint8_t *out, uint8_t *tag, size_t taglen);
#endif
