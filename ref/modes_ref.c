/* modes_ref.c — block-cipher modes written once, generic over a 16-byte block function.
 * Clean-room from the mode definitions (NIST SP 800-38A/B/C/D/E, GB/T 17964); every routine is first validated with
 * AES against OpenSSL's own AES modes over the enumerated space (driver self-test), then instantiated with SM4. */
#include <string.h>
#include <stdlib.h>
#include <openssl/evp.h>
#include "modes_ref.h"
extern __thread int venv_in_ref;

/* ---- block functions backed by OpenSSL ECB ---- */
struct mr_blk { EVP_CIPHER_CTX *e, *d; };
mr_blk *mr_blk_new(const char *ecbname, const uint8_t *key) {
	venv_in_ref++; mr_blk *b = calloc(1, sizeof *b); EVP_CIPHER *c = EVP_CIPHER_fetch(NULL, ecbname, NULL);
	b->e = EVP_CIPHER_CTX_new(); b->d = EVP_CIPHER_CTX_new();
	if (!c || !EVP_EncryptInit_ex(b->e, c, NULL, key, NULL) || !EVP_DecryptInit_ex(b->d, c, NULL, key, NULL)) { venv_in_ref--; return NULL; }
	EVP_CIPHER_CTX_set_padding(b->e, 0); EVP_CIPHER_CTX_set_padding(b->d, 0); EVP_CIPHER_free(c); venv_in_ref--; return b;
}
void mr_blk_free(mr_blk *b) { if (b) { EVP_CIPHER_CTX_free(b->e); EVP_CIPHER_CTX_free(b->d); free(b); } }
void mr_E(const mr_blk *b, const uint8_t in[16], uint8_t out[16]) { int n; uint8_t t[32]; venv_in_ref++; EVP_EncryptUpdate(b->e, t, &n, in, 16); venv_in_ref--; memcpy(out, t, 16); }
void mr_D(const mr_blk *b, const uint8_t in[16], uint8_t out[16]) { int n; uint8_t t[32]; venv_in_ref++; EVP_DecryptUpdate(b->d, t, &n, in, 16); venv_in_ref--; memcpy(out, t, 16); }

static void xor16(uint8_t *r, const uint8_t *a, const uint8_t *b, size_t n) { for (size_t i = 0; i < n; i++) r[i] = a[i] ^ b[i]; }

void mr_ecb(const mr_blk *b, int enc, const uint8_t *in, size_t nblocks, uint8_t *out) { for (size_t i = 0; i < nblocks; i++) (enc ? mr_E : mr_D)(b, in + 16 * i, out + 16 * i); }
/* CBC with PKCS#7 padding; returns output length, or -1 on bad padding/length */
long mr_cbc_pad(const mr_blk *b, int enc, const uint8_t iv[16], const uint8_t *in, size_t inlen, uint8_t *out) {
	uint8_t c[16], t[16]; memcpy(c, iv, 16);
	if (enc) {
		size_t full = inlen / 16, i; for (i = 0; i < full; i++) { xor16(t, in + 16 * i, c, 16); mr_E(b, t, c); memcpy(out + 16 * i, c, 16); }
		uint8_t last[16]; size_t rem = inlen % 16; memcpy(last, in + 16 * full, rem); memset(last + rem, (int)(16 - rem), 16 - rem);
		xor16(t, last, c, 16); mr_E(b, t, c); memcpy(out + 16 * full, c, 16); return (long)(16 * full + 16);
	}
	if (inlen == 0 || inlen % 16) return -1;
	for (size_t i = 0; i < inlen / 16; i++) { mr_D(b, in + 16 * i, t); xor16(out + 16 * i, t, c, 16); memcpy(c, in + 16 * i, 16); }
	uint8_t p = out[inlen - 1]; if (p < 1 || p > 16) return -1;
	for (int i = 0; i < p; i++) if (out[inlen - 1 - i] != p) return -2; /* -2: padding bytes other than the last are wrong */
	return (long)(inlen - p);
}
void mr_cbc_blocks(const mr_blk *b, int enc, const uint8_t iv[16], const uint8_t *in, size_t nblocks, uint8_t *out) {
	uint8_t c[16], t[16]; memcpy(c, iv, 16);
	for (size_t i = 0; i < nblocks; i++) { if (enc) { xor16(t, in + 16 * i, c, 16); mr_E(b, t, c); memcpy(out + 16 * i, c, 16); } else { uint8_t s[16]; memcpy(s, in + 16 * i, 16); mr_D(b, s, t); xor16(out + 16 * i, t, c, 16); memcpy(c, s, 16); } }
}
/* CTR with the low `cbytes` bytes of the counter block incremented big-endian (16 = full 128-bit, 4 = GCM's inc32) */
void mr_ctr(const mr_blk *b, const uint8_t ctr0[16], int cbytes, const uint8_t *in, size_t inlen, uint8_t *out) {
	uint8_t c[16], ks[16]; memcpy(c, ctr0, 16);
	for (size_t off = 0; off < inlen; off += 16) { size_t n = inlen - off < 16 ? inlen - off : 16; mr_E(b, c, ks); xor16(out + off, in + off, ks, n);
		for (int i = 15; i >= 16 - cbytes; i--) if (++c[i]) break; }
}
void mr_ofb(const mr_blk *b, const uint8_t iv[16], const uint8_t *in, size_t inlen, uint8_t *out) {
	uint8_t o[16]; memcpy(o, iv, 16);
	for (size_t off = 0; off < inlen; off += 16) { size_t n = inlen - off < 16 ? inlen - off : 16; mr_E(b, o, o); xor16(out + off, in + off, o, n); }
}
/* CFB with s-byte segments (SP 800-38A 6.3); a trailing partial segment is processed as a short segment */
void mr_cfb(const mr_blk *b, int enc, size_t s, const uint8_t iv[16], const uint8_t *in, size_t inlen, uint8_t *out) {
	uint8_t sh[16], o[16]; memcpy(sh, iv, 16);
	for (size_t off = 0; off < inlen; off += s) { size_t n = inlen - off < s ? inlen - off : s; uint8_t cseg[16];
		mr_E(b, sh, o); if (enc) { xor16(out + off, in + off, o, n); memcpy(cseg, out + off, n); } else { memcpy(cseg, in + off, n); xor16(out + off, in + off, o, n); }
		if (n == s) { memmove(sh, sh + s, 16 - s); memcpy(sh + 16 - s, cseg, s); } }
}
/* GHASH, bit by bit (SP 800-38D 6.3/6.4) */
static void gmul(uint8_t x[16], const uint8_t y[16]) {
	uint8_t z[16] = {0}, v[16]; memcpy(v, y, 16);
	for (int i = 0; i < 128; i++) { if ((x[i / 8] >> (7 - i % 8)) & 1) xor16(z, z, v, 16);
		int lsb = v[15] & 1; for (int j = 15; j > 0; j--) v[j] = (uint8_t)((v[j] >> 1) | (v[j - 1] << 7)); v[0] >>= 1; if (lsb) v[0] ^= 0xe1; }
	memcpy(x, z, 16);
}
static void ghash_blocks(uint8_t y[16], const uint8_t h[16], const uint8_t *d, size_t n) {
	for (size_t off = 0; off < n; off += 16) { size_t m = n - off < 16 ? n - off : 16; uint8_t t[16] = {0}; memcpy(t, d + off, m); xor16(y, y, t, 16); gmul(y, h); }
}
/* a 16-byte IV whose GCM pre-counter block J0 = GHASH_H(IV || 0^64 || [128]_64) equals the wanted block: IV = ((J0 * H^-1) xor L) * H^-1 */
void mr_gcm_iv_for_j0(const mr_blk *b, const uint8_t j0[16], uint8_t iv[16]) {
	uint8_t z[16] = {0}, h[16]; mr_E(b, z, h); uint8_t inv[16] = { 0x80 }, sq[16], t[16]; memcpy(sq, h, 16); /* H^(2^128-2) = prod_{i=1..127} H^(2^i) */
	for (int i = 1; i < 128; i++) { memcpy(t, sq, 16); gmul(sq, t); gmul(inv, sq); }
	uint8_t l[16] = {0}; l[15] = 128; memcpy(iv, j0, 16); gmul(iv, inv); xor16(iv, iv, l, 16); gmul(iv, inv); }
void mr_ghash(const uint8_t h[16], const uint8_t *a, size_t alen, const uint8_t *c, size_t clen, uint8_t out[16]) {
	uint8_t y[16] = {0}, l[16]; ghash_blocks(y, h, a, alen); ghash_blocks(y, h, c, clen);
	uint64_t ab = (uint64_t)alen * 8, cb = (uint64_t)clen * 8; for (int i = 0; i < 8; i++) { l[i] = (uint8_t)(ab >> (56 - 8 * i)); l[8 + i] = (uint8_t)(cb >> (56 - 8 * i)); }
	xor16(y, y, l, 16); gmul(y, h); memcpy(out, y, 16);
}
/* GCM: enc: out = ciphertext, tag written (taglen bytes). dec: returns 1 iff tag matches, out = plaintext */
int mr_gcm(const mr_blk *b, int enc, const uint8_t *iv, size_t ivlen, const uint8_t *aad, size_t aadlen, const uint8_t *in, size_t inlen, uint8_t *out, uint8_t *tag, size_t taglen) {
	uint8_t h[16] = {0}, j0[16], s[16], ek[16], c1[16]; mr_E(b, h, h);
	if (ivlen == 12) { memcpy(j0, iv, 12); j0[12] = j0[13] = j0[14] = 0; j0[15] = 1; } else mr_ghash(h, NULL, 0, iv, ivlen, j0);
	memcpy(c1, j0, 16); for (int i = 15; i >= 12; i--) if (++c1[i]) break;
	mr_E(b, j0, ek);
	if (enc) { mr_ctr(b, c1, 4, in, inlen, out); mr_ghash(h, aad, aadlen, out, inlen, s); xor16(s, s, ek, 16); memcpy(tag, s, taglen); return 1; }
	mr_ghash(h, aad, aadlen, in, inlen, s); xor16(s, s, ek, 16); mr_ctr(b, c1, 4, in, inlen, out); return memcmp(s, tag, taglen) == 0;
}
/* CCM (SP 800-38C): nonce length n in 7..13, tag t in {4,6,...,16} */
int mr_ccm(const mr_blk *b, int enc, const uint8_t *nonce, size_t n, const uint8_t *aad, size_t aadlen, const uint8_t *in, size_t inlen, uint8_t *out, uint8_t *tag, size_t t) {
	size_t q = 15 - n; uint8_t b0[16], x[16] = {0}, a0[16], s0[16], mac[16];
	b0[0] = (uint8_t)((aadlen ? 0x40 : 0) | (((t - 2) / 2) << 3) | (q - 1)); memcpy(b0 + 1, nonce, n);
	for (size_t i = 0; i < q; i++) b0[15 - i] = (i < 8) ? (uint8_t)((uint64_t)inlen >> (8 * i)) : 0;
	a0[0] = (uint8_t)(q - 1); memcpy(a0 + 1, nonce, n); memset(a0 + 1 + n, 0, q); mr_E(b, a0, s0);
	uint8_t c1[16]; memcpy(c1, a0, 16); c1[15] = 1;
	const uint8_t *pt = in; uint8_t *tmp = NULL;
	if (!enc) { tmp = malloc(inlen + 1); mr_ctr(b, c1, (int)q, in, inlen, tmp); pt = tmp; }
	/* CBC-MAC over B0 | encoded(aad) | padded payload */
	xor16(x, x, b0, 16); mr_E(b, x, x);
	if (aadlen) {
		uint8_t hdr[10]; size_t hl;
		if (aadlen < 0xff00) { hdr[0] = (uint8_t)(aadlen >> 8); hdr[1] = (uint8_t)aadlen; hl = 2; }
		else if ((uint64_t)aadlen < ((uint64_t)1 << 32)) { hdr[0] = 0xff; hdr[1] = 0xfe; for (int i = 0; i < 4; i++) hdr[2 + i] = (uint8_t)(aadlen >> (24 - 8 * i)); hl = 6; }
		else { hdr[0] = 0xff; hdr[1] = 0xff; for (int i = 0; i < 8; i++) hdr[2 + i] = (uint8_t)((uint64_t)aadlen >> (56 - 8 * i)); hl = 10; }
		size_t tot = hl + aadlen, pos = 0; uint8_t blk[16];
		while (pos < tot) { memset(blk, 0, 16); for (size_t i = 0; i < 16 && pos + i < tot; i++) blk[i] = (pos + i < hl) ? hdr[pos + i] : aad[pos + i - hl]; xor16(x, x, blk, 16); mr_E(b, x, x); pos += 16; }
	}
	for (size_t pos = 0; pos < inlen; pos += 16) { uint8_t blk[16] = {0}; memcpy(blk, pt + pos, inlen - pos < 16 ? inlen - pos : 16); xor16(x, x, blk, 16); mr_E(b, x, x); }
	xor16(mac, x, s0, 16);
	int ok = 1;
	if (enc) { mr_ctr(b, c1, (int)q, in, inlen, out); memcpy(tag, mac, t); }
	else { ok = memcmp(mac, tag, t) == 0; memcpy(out, tmp, inlen); free(tmp); }
	return ok;
}
/* XTS with ciphertext stealing; dbl selects the tweak-doubling convention: 0 = IEEE 1619 (little-endian, x^128 -> 0x87 in byte 0),
 * 1 = GB/T 17964 style used by the library (bit-reflected GHASH representation, shift right, 0xE1 into byte 0) */
static void xts_dbl(uint8_t t[16], int dbl) {
	if (dbl == 0) { int c = t[15] >> 7; for (int i = 15; i > 0; i--) t[i] = (uint8_t)((t[i] << 1) | (t[i - 1] >> 7)); t[0] = (uint8_t)(t[0] << 1); if (c) t[0] ^= 0x87; }
	else { int c = t[15] & 1; for (int i = 15; i > 0; i--) t[i] = (uint8_t)((t[i] >> 1) | (t[i - 1] << 7)); t[0] >>= 1; if (c) t[0] ^= 0xe1; }
}
int mr_xts(const mr_blk *k1, const mr_blk *k2, int enc, int dbl, const uint8_t tweak[16], const uint8_t *in, size_t inlen, uint8_t *out) {
	if (inlen < 16) return -1;
	uint8_t T[16], x[16]; mr_E(k2, tweak, T); size_t m = inlen / 16, r = inlen % 16, full = r ? m - 1 : m;
	for (size_t i = 0; i < full; i++) { xor16(x, in + 16 * i, T, 16); (enc ? mr_E : mr_D)(k1, x, x); xor16(out + 16 * i, x, T, 16); xts_dbl(T, dbl); }
	if (r) {
		uint8_t T2[16], cc[16], pp[16]; memcpy(T2, T, 16); xts_dbl(T2, dbl); const uint8_t *pm1 = in + 16 * full, *pm = pm1 + 16;
		if (enc) { xor16(x, pm1, T, 16); mr_E(k1, x, x); xor16(cc, x, T, 16); memcpy(pp, pm, r); memcpy(pp + r, cc + r, 16 - r);
			xor16(x, pp, T2, 16); mr_E(k1, x, x); xor16(x, x, T2, 16); memcpy(out + 16 * full + 16, cc, r); memcpy(out + 16 * full, x, 16); }
		else { xor16(x, pm1, T2, 16); mr_D(k1, x, x); xor16(pp, x, T2, 16); memcpy(cc, pm, r); memcpy(cc + r, pp + r, 16 - r);
			xor16(x, cc, T, 16); mr_D(k1, x, x); xor16(x, x, T, 16); memcpy(out + 16 * full + 16, pp, r); memcpy(out + 16 * full, x, 16); }
	}
	return 1;
}
/* raw CBC-MAC, zero IV, final partial block zero-padded (the variant sm4_cbc_mac documents) */
void mr_cbcmac(const mr_blk *b, const uint8_t *in, size_t inlen, uint8_t mac[16]) {
	uint8_t x[16] = {0}; for (size_t pos = 0; pos < inlen; pos += 16) { uint8_t blk[16] = {0}; memcpy(blk, in + pos, inlen - pos < 16 ? inlen - pos : 16); xor16(x, x, blk, 16); mr_E(b, x, x); }
	memcpy(mac, x, 16);
}
