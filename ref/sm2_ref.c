#include <string.h>
#include <stdlib.h>
#include <stdio.h>
#include <openssl/evp.h>
#include <openssl/obj_mac.h>
#include <openssl/core_names.h>
#include <openssl/param_build.h>
#include "sm2_ref.h"
#include "ossl_ref.h"
extern __thread int venv_in_ref;
static BIGNUM *P, *A, *B, *N, *GX, *GY, *R256, *RINV; static EC_GROUP *G; static BN_CTX *C;
static const char *HP = "FFFFFFFEFFFFFFFFFFFFFFFFFFFFFFFFFFFFFFFF00000000FFFFFFFFFFFFFFFF", *HA = "FFFFFFFEFFFFFFFFFFFFFFFFFFFFFFFFFFFFFFFF00000000FFFFFFFFFFFFFFFC",
 *HB = "28E9FA9E9D9F5E344D5A9E4BCF6509A7F39789F515AB8F92DDBCBD414D940E93", *HN = "FFFFFFFEFFFFFFFFFFFFFFFFFFFFFFFF7203DF6B21C6052B53BBF40939D54123",
 *HGX = "32C4AE2C1F1981195F9904466A39C9948FE30BBFF2660BE1715A4589334C74C7", *HGY = "BC3736A2F4F6779C59BDCEE36B692153D0A9877CC62A474002DF32E52139F0A0";
void sr_init(void) {
	if (G) return; venv_in_ref++;
	C = BN_CTX_new(); P = A = B = N = GX = GY = NULL; BN_hex2bn(&P, HP); BN_hex2bn(&A, HA); BN_hex2bn(&B, HB); BN_hex2bn(&N, HN); BN_hex2bn(&GX, HGX); BN_hex2bn(&GY, HGY);
	G = EC_GROUP_new_curve_GFp(P, A, B, C); EC_POINT *g = EC_POINT_new(G); EC_POINT_set_affine_coordinates(G, g, GX, GY, C); EC_GROUP_set_generator(G, g, N, BN_value_one());
	R256 = BN_new(); BN_set_bit(R256, 256); RINV = BN_new(); BN_mod_inverse(RINV, R256, P, C);
	/* cross-check against OpenSSL's built-in SM2 curve */
	EC_GROUP *b = EC_GROUP_new_by_curve_name(NID_sm2); if (!b || EC_GROUP_cmp(G, b, C) != 0) { fprintf(stderr, "sm2_ref: explicit parameters differ from NID_sm2\n"); abort(); }
	EC_GROUP_free(b); EC_POINT_free(g); venv_in_ref--;
}
const BIGNUM *sr_p(void) { return P; } const BIGNUM *sr_n(void) { return N; } const EC_GROUP *sr_group(void) { return G; } BN_CTX *sr_ctx(void) { return C; }
void sr_limbs_to_bn(BIGNUM *r, const uint64_t a[4]) { uint8_t b[32]; for (int i = 0; i < 4; i++) for (int j = 0; j < 8; j++) b[31 - 8 * i - j] = (uint8_t)(a[i] >> (8 * j)); BN_bin2bn(b, 32, r); }
void sr_bn_to_bytes32(uint8_t out[32], const BIGNUM *a) { BIGNUM *t = BN_dup(a); BN_mask_bits(t, 256); BN_bn2binpad(t, out, 32); BN_free(t); }
void sr_bn_to_limbs(uint64_t r[4], const BIGNUM *a) { uint8_t b[32]; sr_bn_to_bytes32(b, a); for (int i = 0; i < 4; i++) { r[i] = 0; for (int j = 0; j < 8; j++) r[i] |= (uint64_t)b[31 - 8 * i - j] << (8 * j); } }
int sr_point_from_jac_mont(EC_POINT *R, const uint64_t X[4], const uint64_t Y[4], const uint64_t Z[4]) {
	BIGNUM *x = BN_new(), *y = BN_new(), *z = BN_new(), *zi = BN_new(), *t = BN_new(); int ok = 0; sr_limbs_to_bn(x, X); sr_limbs_to_bn(y, Y); sr_limbs_to_bn(z, Z);
	BN_mod_mul(x, x, RINV, P, C); BN_mod_mul(y, y, RINV, P, C); BN_mod_mul(z, z, RINV, P, C);
	if (BN_is_zero(z)) { EC_POINT_set_to_infinity(G, R); ok = 1; goto end; }
	BN_mod_inverse(zi, z, P, C); BN_mod_sqr(t, zi, P, C); BN_mod_mul(x, x, t, P, C); BN_mod_mul(t, t, zi, P, C); BN_mod_mul(y, y, t, P, C);
	ok = EC_POINT_set_affine_coordinates(G, R, x, y, C) == 1;
end: BN_free(x); BN_free(y); BN_free(z); BN_free(zi); BN_free(t); return ok;
}
void sr_point_to_jac_mont(const EC_POINT *Pt, const BIGNUM *zs, uint64_t X[4], uint64_t Y[4], uint64_t Z[4]) {
	BIGNUM *x = BN_new(), *y = BN_new(), *z = BN_new(), *t = BN_new();
	if (EC_POINT_is_at_infinity(G, Pt)) { BN_one(x); BN_one(y); BN_zero(z); }
	else { EC_POINT_get_affine_coordinates(G, Pt, x, y, C); BN_copy(z, zs); BN_mod_sqr(t, z, P, C); BN_mod_mul(x, x, t, P, C); BN_mod_mul(t, t, z, P, C); BN_mod_mul(y, y, t, P, C); }
	BN_mod_mul(x, x, R256, P, C); BN_mod_mul(y, y, R256, P, C); BN_mod_mul(z, z, R256, P, C); sr_bn_to_limbs(X, x); sr_bn_to_limbs(Y, y); sr_bn_to_limbs(Z, z);
	BN_free(x); BN_free(y); BN_free(z); BN_free(t);
}
int sr_point_to_xy(const EC_POINT *Pt, uint8_t xy[64]) { if (EC_POINT_is_at_infinity(G, Pt)) { memset(xy, 0, 64); return 0; } BIGNUM *x = BN_new(), *y = BN_new(); EC_POINT_get_affine_coordinates(G, Pt, x, y, C); BN_bn2binpad(x, xy, 32); BN_bn2binpad(y, xy + 32, 32); BN_free(x); BN_free(y); return 1; }
int sr_xy_on_curve(const uint8_t xy[64]) {
	BIGNUM *x = BN_bin2bn(xy, 32, NULL), *y = BN_bin2bn(xy + 32, 32, NULL), *l = BN_new(), *r = BN_new(); int ok = 0;
	if (BN_cmp(x, P) >= 0 || BN_cmp(y, P) >= 0) goto end;
	BN_mod_sqr(l, y, P, C); BN_mod_sqr(r, x, P, C); BN_mod_mul(r, r, x, P, C); BIGNUM *ax = BN_new(); BN_mod_mul(ax, A, x, P, C); BN_mod_add(r, r, ax, P, C); BN_mod_add(r, r, B, P, C); BN_free(ax);
	ok = BN_cmp(l, r) == 0;
end: BN_free(x); BN_free(y); BN_free(l); BN_free(r); return ok;
}
int sr_point_from_xy(EC_POINT *Pt, const uint8_t xy[64]) { if (!sr_xy_on_curve(xy)) return 0; BIGNUM *x = BN_bin2bn(xy, 32, NULL), *y = BN_bin2bn(xy + 32, 32, NULL); int r = EC_POINT_set_affine_coordinates(G, Pt, x, y, C); BN_free(x); BN_free(y); return r == 1; }
void sr_compute_z(uint8_t z[32], const uint8_t *id, size_t idlen, const uint8_t pub[64]) {
	uint8_t buf[2 + 8192 + 32 * 6]; size_t n = 0; buf[n++] = (uint8_t)((idlen * 8) >> 8); buf[n++] = (uint8_t)(idlen * 8); memcpy(buf + n, id, idlen); n += idlen;
	BN_bn2binpad(A, buf + n, 32); n += 32; BN_bn2binpad(B, buf + n, 32); n += 32; BN_bn2binpad(GX, buf + n, 32); n += 32; BN_bn2binpad(GY, buf + n, 32); n += 32; memcpy(buf + n, pub, 64); n += 64;
	ref_digest("SM3", buf, n, z);
}
void sr_digest_e(uint8_t e[32], const uint8_t z[32], const uint8_t *msg, size_t msglen) { void *c = ref_digest_new("SM3"); ref_digest_update(c, z, 32); if (msglen) ref_digest_update(c, msg, msglen); ref_digest_final(c, e); }
int sr_pubkey(const uint8_t d[32], uint8_t pub[64]) { BIGNUM *k = BN_bin2bn(d, 32, NULL); EC_POINT *Q = EC_POINT_new(G); EC_POINT_mul(G, Q, k, NULL, NULL, C); int r = sr_point_to_xy(Q, pub); EC_POINT_free(Q); BN_free(k); return r; }
int sr_sign(const uint8_t d[32], const uint8_t e[32], const uint8_t kb[32], uint8_t rb[32], uint8_t sb[32]) {
	BIGNUM *dd = BN_bin2bn(d, 32, NULL), *ee = BN_bin2bn(e, 32, NULL), *k = BN_bin2bn(kb, 32, NULL), *x = BN_new(), *r = BN_new(), *s = BN_new(), *t = BN_new(); EC_POINT *Q = EC_POINT_new(G); int ok = 0;
	EC_POINT_mul(G, Q, k, NULL, NULL, C); EC_POINT_get_affine_coordinates(G, Q, x, NULL, C); BN_mod_add(r, ee, x, N, C); if (BN_is_zero(r)) goto end; BN_add(t, r, k); if (BN_cmp(t, N) == 0) goto end;
	BN_mod_mul(t, r, dd, N, C); BN_mod_sub(t, k, t, N, C); BN_copy(s, dd); BN_add_word(s, 1); BN_mod_inverse(s, s, N, C); BN_mod_mul(s, s, t, N, C); if (BN_is_zero(s)) goto end;
	BN_bn2binpad(r, rb, 32); BN_bn2binpad(s, sb, 32); ok = 1;
end: BN_free(dd); BN_free(ee); BN_free(k); BN_free(x); BN_free(r); BN_free(s); BN_free(t); EC_POINT_free(Q); return ok;
}
int sr_verify(const uint8_t pub[64], const uint8_t e[32], const uint8_t rb[32], const uint8_t sb[32]) {
	BIGNUM *r = BN_bin2bn(rb, 32, NULL), *s = BN_bin2bn(sb, 32, NULL), *ee = BN_bin2bn(e, 32, NULL), *t = BN_new(), *x = BN_new(); EC_POINT *Q = EC_POINT_new(G), *Rr = EC_POINT_new(G); int ok = 0;
	if (BN_is_zero(r) || BN_is_zero(s) || BN_cmp(r, N) >= 0 || BN_cmp(s, N) >= 0) goto end; if (!sr_point_from_xy(Q, pub)) goto end;
	BN_mod_add(t, r, s, N, C); if (BN_is_zero(t)) goto end; EC_POINT_mul(G, Rr, s, Q, t, C); if (EC_POINT_is_at_infinity(G, Rr)) goto end;
	EC_POINT_get_affine_coordinates(G, Rr, x, NULL, C); BN_mod_add(t, ee, x, N, C); ok = BN_cmp(t, r) == 0;
end: BN_free(r); BN_free(s); BN_free(ee); BN_free(t); BN_free(x); EC_POINT_free(Q); EC_POINT_free(Rr); return ok;
}
int sr_encrypt(const uint8_t pub[64], const uint8_t kb[32], const uint8_t *in, size_t inlen, uint8_t c1[64], uint8_t c3[32], uint8_t *c2) {
	BIGNUM *k = BN_bin2bn(kb, 32, NULL); EC_POINT *Q = EC_POINT_new(G), *K = EC_POINT_new(G); uint8_t x2y2[64], t[300]; int ok = 0, nz = 0;
	if (!sr_point_from_xy(Q, pub)) goto end; EC_POINT_mul(G, K, k, NULL, NULL, C); sr_point_to_xy(K, c1); EC_POINT_mul(G, K, NULL, Q, k, C); if (!sr_point_to_xy(K, x2y2)) goto end;
	if (inlen) ref_x963kdf_sm3(x2y2, 64, inlen, t); for (size_t i = 0; i < inlen; i++) { if (t[i]) nz = 1; c2[i] = in[i] ^ t[i]; } if (!nz && inlen) goto end;
	{ uint8_t buf[64 + 300]; memcpy(buf, x2y2, 32); memcpy(buf + 32, in, inlen); memcpy(buf + 32 + inlen, x2y2 + 32, 32); ref_digest("SM3", buf, 64 + inlen, c3); } ok = 1;
end: BN_free(k); EC_POINT_free(Q); EC_POINT_free(K); return ok;
}
int sr_decrypt(const uint8_t d[32], const uint8_t c1[64], const uint8_t c3[32], const uint8_t *c2, size_t n, uint8_t *out) {
	BIGNUM *dd = BN_bin2bn(d, 32, NULL); EC_POINT *Q = EC_POINT_new(G); uint8_t x2y2[64], t[300], h[32]; int ok = 0, nz = 0;
	if (!sr_point_from_xy(Q, c1)) goto end; EC_POINT_mul(G, Q, NULL, Q, dd, C); if (!sr_point_to_xy(Q, x2y2)) goto end;
	if (n) ref_x963kdf_sm3(x2y2, 64, n, t); for (size_t i = 0; i < n; i++) { if (t[i]) nz = 1; out[i] = c2[i] ^ t[i]; } if (!nz && n) goto end;
	{ uint8_t buf[64 + 300]; memcpy(buf, x2y2, 32); memcpy(buf + 32, out, n); memcpy(buf + 32 + n, x2y2 + 32, 32); ref_digest("SM3", buf, 64 + n, h); } ok = memcmp(h, c3, 32) == 0;
end: BN_free(dd); EC_POINT_free(Q); return ok;
}
int sr_ecdh(const uint8_t d[32], const uint8_t peer[64], uint8_t out[64]) { BIGNUM *dd = BN_bin2bn(d, 32, NULL); EC_POINT *Q = EC_POINT_new(G); int ok = 0; if (sr_point_from_xy(Q, peer)) { EC_POINT_mul(G, Q, NULL, Q, dd, C); ok = sr_point_to_xy(Q, out); } BN_free(dd); EC_POINT_free(Q); return ok; }

/* ---- EVP level ---- */
static EVP_PKEY *mk_pkey(const uint8_t *d, const uint8_t pub[64]) {
	OSSL_PARAM_BLD *bld = OSSL_PARAM_BLD_new(); uint8_t oct[65]; oct[0] = 4; memcpy(oct + 1, pub, 64); BIGNUM *dd = NULL;
	OSSL_PARAM_BLD_push_utf8_string(bld, OSSL_PKEY_PARAM_GROUP_NAME, "SM2", 0); OSSL_PARAM_BLD_push_octet_string(bld, OSSL_PKEY_PARAM_PUB_KEY, oct, 65);
	if (d) { dd = BN_bin2bn(d, 32, NULL); OSSL_PARAM_BLD_push_BN(bld, OSSL_PKEY_PARAM_PRIV_KEY, dd); }
	OSSL_PARAM *params = OSSL_PARAM_BLD_to_param(bld); EVP_PKEY_CTX *c = EVP_PKEY_CTX_new_from_name(NULL, "SM2", NULL); EVP_PKEY *pk = NULL;
	if (EVP_PKEY_fromdata_init(c) <= 0 || EVP_PKEY_fromdata(c, &pk, d ? EVP_PKEY_KEYPAIR : EVP_PKEY_PUBLIC_KEY, params) <= 0) pk = NULL;
	EVP_PKEY_CTX_free(c); OSSL_PARAM_free(params); OSSL_PARAM_BLD_free(bld); BN_free(dd); return pk;
}
int sr_evp_verify(const uint8_t pub[64], const uint8_t *id, size_t idlen, const uint8_t *msg, size_t msglen, const uint8_t *sig, size_t siglen) {
	venv_in_ref++; int r = -1; EVP_PKEY *pk = mk_pkey(NULL, pub); if (!pk) { venv_in_ref--; return -1; }
	EVP_MD_CTX *m = EVP_MD_CTX_new(); EVP_PKEY_CTX *pc = EVP_PKEY_CTX_new(pk, NULL); EVP_PKEY_CTX_set1_id(pc, id, idlen); EVP_MD_CTX_set_pkey_ctx(m, pc);
	if (EVP_DigestVerifyInit(m, NULL, EVP_sm3(), NULL, pk) == 1) { static const uint8_t z = 0; r = EVP_DigestVerify(m, sig, siglen, msglen ? msg : &z, msglen) == 1; }
	EVP_MD_CTX_free(m); EVP_PKEY_CTX_free(pc); EVP_PKEY_free(pk); venv_in_ref--; return r;
}
int sr_evp_sign(const uint8_t d[32], const uint8_t pub[64], const uint8_t *id, size_t idlen, const uint8_t *msg, size_t msglen, uint8_t *sig, size_t *siglen) {
	venv_in_ref++; int r = -1; EVP_PKEY *pk = mk_pkey(d, pub); if (!pk) { venv_in_ref--; return -1; }
	EVP_MD_CTX *m = EVP_MD_CTX_new(); EVP_PKEY_CTX *pc = EVP_PKEY_CTX_new(pk, NULL); EVP_PKEY_CTX_set1_id(pc, id, idlen); EVP_MD_CTX_set_pkey_ctx(m, pc); *siglen = 80;
	if (EVP_DigestSignInit(m, NULL, EVP_sm3(), NULL, pk) == 1) { static const uint8_t z = 0; r = EVP_DigestSign(m, sig, siglen, msglen ? msg : &z, msglen) == 1; }
	EVP_MD_CTX_free(m); EVP_PKEY_CTX_free(pc); EVP_PKEY_free(pk); venv_in_ref--; return r;
}
int sr_evp_encrypt(const uint8_t pub[64], const uint8_t *in, size_t inlen, uint8_t *out, size_t *outlen) {
	venv_in_ref++; int r = -1; EVP_PKEY *pk = mk_pkey(NULL, pub); if (pk) { EVP_PKEY_CTX *c = EVP_PKEY_CTX_new(pk, NULL); if (EVP_PKEY_encrypt_init(c) == 1) r = EVP_PKEY_encrypt(c, out, outlen, in, inlen) == 1; EVP_PKEY_CTX_free(c); EVP_PKEY_free(pk); } venv_in_ref--; return r; }
int sr_evp_decrypt(const uint8_t d[32], const uint8_t pub[64], const uint8_t *in, size_t inlen, uint8_t *out, size_t *outlen) {
	venv_in_ref++; int r = -1; EVP_PKEY *pk = mk_pkey(d, pub); if (pk) { EVP_PKEY_CTX *c = EVP_PKEY_CTX_new(pk, NULL); if (EVP_PKEY_decrypt_init(c) == 1) r = EVP_PKEY_decrypt(c, out, outlen, in, inlen) == 1; EVP_PKEY_CTX_free(c); EVP_PKEY_free(pk); } venv_in_ref--; return r; }

/* build C2/C3 for a chosen C1 using the recipient's private key (lets the harness make valid ciphertexts whose C1 is a special point) */
int sr_seal_with_c1(const uint8_t d[32], const uint8_t c1[64], const uint8_t *in, size_t n, uint8_t c3[32], uint8_t *c2) {
	BIGNUM *dd = BN_bin2bn(d, 32, NULL); EC_POINT *Q = EC_POINT_new(G); uint8_t x2y2[64], t[300]; int ok = 0, nz = 0;
	if (!sr_point_from_xy(Q, c1)) goto end; EC_POINT_mul(G, Q, NULL, Q, dd, C); if (!sr_point_to_xy(Q, x2y2)) goto end;
	if (n) ref_x963kdf_sm3(x2y2, 64, n, t); for (size_t i = 0; i < n; i++) { if (t[i]) nz = 1; c2[i] = in[i] ^ t[i]; } if (!nz && n) goto end;
	{ uint8_t buf[64 + 300]; memcpy(buf, x2y2, 32); memcpy(buf + 32, in, n); memcpy(buf + 32 + n, x2y2 + 32, 32); ref_digest("SM3", buf, 64 + n, c3); } ok = 1;
end: BN_free(dd); EC_POINT_free(Q); return ok;
}
