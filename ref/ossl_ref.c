#include <string.h>
#include <openssl/evp.h>
#include <openssl/hmac.h>
#include <openssl/kdf.h>
#include <openssl/params.h>
#include <openssl/core_names.h>
#include "ossl_ref.h"
extern __thread int venv_in_ref;
#define IN  venv_in_ref++
#define OUT venv_in_ref--

static const EVP_MD *md_of(const char *name) {
	static struct { const char *n; const EVP_MD *md; } cache[16]; static int nc = 0;
	for (int i = 0; i < nc; i++) if (!strcmp(cache[i].n, name)) return cache[i].md;
	const EVP_MD *md = EVP_MD_fetch(NULL, name, NULL);
	if (nc < 16) { cache[nc].n = name; cache[nc].md = md; nc++; }
	return md;
}
size_t ref_digest(const char *name, const uint8_t *in, size_t inlen, uint8_t *out) {
	unsigned int n = 0; IN; const EVP_MD *md = md_of(name);
	if (!md || !EVP_Digest(in, inlen, out, &n, md, NULL)) n = 0; OUT; return n;
}
void *ref_digest_new(const char *name) { IN; EVP_MD_CTX *c = EVP_MD_CTX_new(); EVP_DigestInit_ex(c, md_of(name), NULL); OUT; return c; }
void ref_digest_update(void *c, const uint8_t *in, size_t n) { IN; EVP_DigestUpdate((EVP_MD_CTX *)c, in, n); OUT; }
size_t ref_digest_final(void *c, uint8_t *out) { unsigned int n = 0; IN; EVP_DigestFinal_ex((EVP_MD_CTX *)c, out, &n); EVP_MD_CTX_free((EVP_MD_CTX *)c); OUT; return n; }
size_t ref_hmac(const char *name, const uint8_t *key, size_t keylen, const uint8_t *in, size_t inlen, uint8_t *out) {
	unsigned int n = 0; static const uint8_t z = 0; IN;
	if (!HMAC(md_of(name), key ? key : &z, (int)keylen, in ? in : &z, inlen, out, &n)) n = 0; OUT; return n;
}
int ref_pbkdf2(const char *name, const char *pass, size_t passlen, const uint8_t *salt, size_t saltlen, int iter, size_t outlen, uint8_t *out) {
	IN; int r = PKCS5_PBKDF2_HMAC(pass, (int)passlen, salt, (int)saltlen, iter, md_of(name), (int)outlen, out); OUT; return r;
}
static int hkdf(const char *name, int mode, const uint8_t *key, size_t keylen, const uint8_t *salt, size_t saltlen, const uint8_t *info, size_t infolen, uint8_t *out, size_t outlen) {
	IN; int r = 0; EVP_KDF *kdf = EVP_KDF_fetch(NULL, "HKDF", NULL); EVP_KDF_CTX *c = EVP_KDF_CTX_new(kdf);
	OSSL_PARAM p[6]; int n = 0;
	p[n++] = OSSL_PARAM_construct_utf8_string(OSSL_KDF_PARAM_DIGEST, (char *)name, 0);
	p[n++] = OSSL_PARAM_construct_int(OSSL_KDF_PARAM_MODE, &mode);
	p[n++] = OSSL_PARAM_construct_octet_string(OSSL_KDF_PARAM_KEY, (void *)key, keylen);
	if (salt) p[n++] = OSSL_PARAM_construct_octet_string(OSSL_KDF_PARAM_SALT, (void *)salt, saltlen);
	if (info) p[n++] = OSSL_PARAM_construct_octet_string(OSSL_KDF_PARAM_INFO, (void *)info, infolen);
	p[n] = OSSL_PARAM_construct_end();
	r = EVP_KDF_derive(c, out, outlen, p) > 0;
	EVP_KDF_CTX_free(c); EVP_KDF_free(kdf); OUT; return r;
}
int ref_hkdf_extract(const char *name, const uint8_t *salt, size_t saltlen, const uint8_t *ikm, size_t ikmlen, uint8_t *prk) {
	static const uint8_t z = 0; size_t n = EVP_MD_get_size(md_of(name));
	return hkdf(name, EVP_KDF_HKDF_MODE_EXTRACT_ONLY, ikm ? ikm : &z, ikmlen, saltlen ? salt : NULL, saltlen, NULL, 0, prk, n);
}
int ref_hkdf_expand(const char *name, const uint8_t *prk, size_t prklen, const uint8_t *info, size_t infolen, size_t L, uint8_t *okm) {
	return hkdf(name, EVP_KDF_HKDF_MODE_EXPAND_ONLY, prk, prklen, NULL, 0, infolen ? info : NULL, infolen, okm, L);
}
int ref_x963kdf_sm3(const uint8_t *z, size_t zlen, size_t outlen, uint8_t *out) {
	IN; EVP_KDF *kdf = EVP_KDF_fetch(NULL, "X963KDF", NULL); EVP_KDF_CTX *c = EVP_KDF_CTX_new(kdf); OSSL_PARAM p[3];
	p[0] = OSSL_PARAM_construct_utf8_string(OSSL_KDF_PARAM_DIGEST, "SM3", 0);
	p[1] = OSSL_PARAM_construct_octet_string(OSSL_KDF_PARAM_KEY, (void *)z, zlen);
	p[2] = OSSL_PARAM_construct_end();
	int r = EVP_KDF_derive(c, out, outlen, p) > 0; EVP_KDF_CTX_free(c); EVP_KDF_free(kdf); OUT; return r;
}
long ref_cipher(const char *name, int enc, int pad, const uint8_t *key, const uint8_t *iv, size_t ivlen,
	const uint8_t *aad, size_t aadlen, const uint8_t *in, size_t inlen, uint8_t *out, uint8_t *tag, size_t taglen)
{
	IN; long ret = -1; int n = 0, m = 0; static uint8_t dummy[16];
	static struct { char n[32]; EVP_CIPHER *c; } cache[32]; static int nc = 0; EVP_CIPHER *ci = NULL;
	for (int i = 0; i < nc; i++) if (!strcmp(cache[i].n, name)) ci = cache[i].c;
	if (!ci) { ci = EVP_CIPHER_fetch(NULL, name, NULL); if (nc < 32) { strncpy(cache[nc].n, name, 31); cache[nc].c = ci; nc++; } }
	EVP_CIPHER_CTX *c = EVP_CIPHER_CTX_new();
	if (!ci || !c) goto end;
	int is_ccm = strstr(name, "CCM") != NULL, is_aead = tag != NULL;
	if (!EVP_CipherInit_ex(c, ci, NULL, NULL, NULL, enc)) goto end;
	if (is_aead) {
		if (!EVP_CIPHER_CTX_ctrl(c, EVP_CTRL_AEAD_SET_IVLEN, (int)ivlen, NULL)) goto end;
		if (is_ccm || !enc) { if (!EVP_CIPHER_CTX_ctrl(c, EVP_CTRL_AEAD_SET_TAG, (int)taglen, enc ? NULL : tag)) goto end; }
	}
	if (!EVP_CipherInit_ex(c, NULL, NULL, key, iv, enc)) goto end;
	EVP_CIPHER_CTX_set_padding(c, pad);
	if (is_aead) {
		if (is_ccm && !EVP_CipherUpdate(c, NULL, &n, NULL, (int)inlen)) goto end;
		if (aadlen && !EVP_CipherUpdate(c, NULL, &n, aad, (int)aadlen)) goto end;
	}
	n = 0;
	if (inlen || is_ccm) { if (!EVP_CipherUpdate(c, out ? out : dummy, &n, inlen ? in : dummy, (int)inlen)) goto end; }
	if (!is_ccm) { if (!EVP_CipherFinal_ex(c, (out ? out : dummy) + n, &m)) goto end; }
	if (is_aead && enc) { if (!EVP_CIPHER_CTX_ctrl(c, EVP_CTRL_AEAD_GET_TAG, (int)taglen, tag)) goto end; }
	ret = n + m;
end:
	EVP_CIPHER_CTX_free(c); OUT; return ret;
}
