#ifndef MODES_REF_H
#define MODES_REF_H
#include <stdint.h>
#include <stddef.h>
typedef struct mr_blk mr_blk;
mr_blk *mr_blk_new(const char *ecbname, const uint8_t *key);   /* "SM4-ECB", "AES-128-ECB", ... */
void mr_blk_free(mr_blk *b);
void mr_E(const mr_blk *b, const uint8_t in[16], uint8_t out[16]);
void mr_D(const mr_blk *b, const uint8_t in[16], uint8_t out[16]);
void mr_ecb(const mr_blk *b, int enc, const uint8_t *in, size_t nblocks, uint8_t *out);
long mr_cbc_pad(const mr_blk *b, int enc, const uint8_t iv[16], const uint8_t *in, size_t inlen, uint8_t *out);
void mr_cbc_blocks(const mr_blk *b, int enc, const uint8_t iv[16], const uint8_t *in, size_t nblocks, uint8_t *out);
void mr_ctr(const mr_blk *b, const uint8_t ctr0[16], int cbytes, const uint8_t *in, size_t inlen, uint8_t *out);
void mr_ofb(const mr_blk *b, const uint8_t iv[16], const uint8_t *in, size_t inlen, uint8_t *out);
void mr_cfb(const mr_blk *b, int enc, size_t s, const uint8_t iv[16], const uint8_t *in, size_t inlen, uint8_t *out);
void mr_ghash(const uint8_t h[16], const uint8_t *a, size_t alen, const uint8_t *c, size_t clen, uint8_t out[16]);
void mr_gcm_iv_for_j0(const mr_blk *b, const uint8_t j0[16], uint8_t iv[16]);
int mr_gcm(const mr_blk *b, int enc, const uint8_t *iv, size_t ivlen, const uint8_t *aad, size_t aadlen, const uint8_t *in, size_t inlen, uint8_t *out, uint8_t *tag, size_t taglen);
int mr_ccm(const mr_blk *b, int enc, const uint8_t *nonce, size_t n, const uint8_t *aad, size_t aadlen, const uint8_t *in, size_t inlen, uint8_t *out, uint8_t *tag, size_t t);
int mr_xts(const mr_blk *k1, const mr_blk *k2, int enc, int dbl, const uint8_t tweak[16], const uint8_t *in, size_t inlen, uint8_t *out);
void mr_cbcmac(const mr_blk *b, const uint8_t *in, size_t inlen, uint8_t mac[16]);
#endif
