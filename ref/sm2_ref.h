/* sm2_ref.h — equation-level SM2 reference on OpenSSL BN/EC (explicit curve parameters, cross-checked against NID_sm2). */
#ifndef SM2_REF_H
#define SM2_REF_H
#include <stdint.h>
#include <stddef.h>
#include <openssl/bn.h>
#include <openssl/ec.h>
void sr_init(void);
const BIGNUM *sr_p(void); const BIGNUM *sr_n(void); const EC_GROUP *sr_group(void); BN_CTX *sr_ctx(void);
void sr_limbs_to_bn(BIGNUM *r, const uint64_t a[4]);
void sr_bn_to_limbs(uint64_t r[4], const BIGNUM *a);      /* low 256 bits */
void sr_bn_to_bytes32(uint8_t out[32], const BIGNUM *a);
/* library point (Jacobian, Montgomery coordinates X,Y,Z as 4-limb arrays) -> reference point; returns 0 if coordinates are not a curve point */
int sr_point_from_jac_mont(EC_POINT *R, const uint64_t X[4], const uint64_t Y[4], const uint64_t Z[4]);
/* reference point -> Jacobian Montgomery representation with Z = zscale (plain integer in [1,p)); infinity -> (1,1,0) in Montgomery form */
void sr_point_to_jac_mont(const EC_POINT *P, const BIGNUM *zscale, uint64_t X[4], uint64_t Y[4], uint64_t Z[4]);
int sr_point_to_xy(const EC_POINT *P, uint8_t xy[64]);    /* 0 if infinity */
int sr_xy_on_curve(const uint8_t xy[64]);                  /* coordinates < p, equation holds */
int sr_point_from_xy(EC_POINT *P, const uint8_t xy[64]);   /* 1 iff sr_xy_on_curve */
/* scheme level */
void sr_compute_z(uint8_t z[32], const uint8_t *id, size_t idlen, const uint8_t pub[64]);
void sr_digest_e(uint8_t e[32], const uint8_t z[32], const uint8_t *msg, size_t msglen);
int sr_sign(const uint8_t d[32], const uint8_t e[32], const uint8_t k[32], uint8_t r[32], uint8_t s[32]); /* 1 ok; 0 = this k must be retried (r=0, r+k=n or s=0) */
int sr_verify(const uint8_t pub[64], const uint8_t e[32], const uint8_t r[32], const uint8_t s[32]);      /* 1 iff 1<=r,s<n, r+s!=0 mod n and equation */
int sr_encrypt(const uint8_t pub[64], const uint8_t k[32], const uint8_t *in, size_t inlen, uint8_t c1[64], uint8_t c3[32], uint8_t *c2); /* 0 if kdf output all zero */
int sr_decrypt(const uint8_t d[32], const uint8_t c1[64], const uint8_t c3[32], const uint8_t *c2, size_t c2len, uint8_t *out); /* 1 iff valid */
int sr_seal_with_c1(const uint8_t d[32], const uint8_t c1[64], const uint8_t *in, size_t n, uint8_t c3[32], uint8_t *c2);
int sr_pubkey(const uint8_t d[32], uint8_t pub[64]);
int sr_ecdh(const uint8_t d[32], const uint8_t peer[64], uint8_t out[64]); /* d*peer, 0 if infinity */
/* OpenSSL EVP high level (independent implementation of the scheme, not only of the arithmetic) */
int sr_evp_verify(const uint8_t pub[64], const uint8_t *id, size_t idlen, const uint8_t *msg, size_t msglen, const uint8_t *sig, size_t siglen);
int sr_evp_sign(const uint8_t d[32], const uint8_t pub[64], const uint8_t *id, size_t idlen, const uint8_t *msg, size_t msglen, uint8_t *sig, size_t *siglen);
int sr_evp_encrypt(const uint8_t pub[64], const uint8_t *in, size_t inlen, uint8_t *out, size_t *outlen);
int sr_evp_decrypt(const uint8_t d[32], const uint8_t pub[64], const uint8_t *in, size_t inlen, uint8_t *out, size_t *outlen);
#endif
