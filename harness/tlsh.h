/* tlsh.h — TLS/TLCP endpoint tasks for vnet: credentials built in memory, TLS_CTX filled directly, handshake + scripted
 * application phase, result snapshot (keys, data delivered, return codes). */
#ifndef TLSH_H
#define TLSH_H
#include <gmssl/tls.h>
#include "creds.h"
#include "vnet.h"

enum { P_TLCP = 0, P_TLS12 = 1, P_TLS13 = 2 };
static const int PROTO[3] = { TLS_protocol_tlcp, TLS_protocol_tls12, TLS_protocol_tls13 };
static const int CIPHER[3] = { TLS_cipher_ecc_sm4_cbc_sm3, TLS_cipher_ecdhe_sm4_cbc_sm3, TLS_cipher_sm4_gcm_sm3 };
static const char *PNAME[3] = { "tlcp", "tls12", "tls13" };

/* credentials for one side */
typedef struct { uint8_t certs[6000]; size_t certslen; uint8_t cacerts[3000]; size_t cacertslen; SM2_KEY signkey, kenckey; } side_creds;
/* key pool use: root CK[5]; server leaf CK[0], server enc CK[6]; client leaf CK[2], client enc CK[7]; intermediates CK[1], CK[3]; rogue root CK[9] */
/* depth = number of certificates in the chain below the root: 1 (leaf only) .. 3 (leaf + 2 intermediates).  defect knobs applied to the leaf / first CA. */
typedef struct { int expired1h, notyet1h /* expired one hour ago / valid from in one hour: inside any time-zone offset */; int chain_total /* > 0 (honest knob): the leaf certificate is padded so that the presented chain is exactly this many octets */; int notyet32 /* valid from now + 2^32 s - 1 h for a year: an alias of 'valid now' for 32-bit time arithmetic */; int expired, notyet, sigflip, untrusted_root, issuer_no_bc, issuer_ca_false, issuer2_no_bc, issuer2_ca_false, wrong_signkey, wrong_enckey, wrong_order, empty_chain, enc_forged /* TLCP encryption certificate signed by an unrelated key (its private key is held) */, enc_expired, issuer_forged /* the first CA certificate is signed by an unrelated key (the impostor made his own issuing CA naming the genuine upper CA) */, issuer2_no_pathlen /* the CA above it carries basicConstraints without pathLenConstraint */, lookalike /* with untrusted_root, depth 1: the impostor's certificate copies the SHAPE of the trust anchor - its serial number, validity, issuer name, total and TBS length (same first octets) - but carries the impostor's key and is signed by it */; } cred_defects;
static int build_side(side_creds *sc, int proto, int is_client, int depth, const cred_defects *df) {
	creds_init(); memset(sc, 0, sizeof *sc); cert_spec leaf, enc, ca[3], root; const SM2_KEY *leafk = is_client ? &CK[2] : &CK[0], *enck = is_client ? &CK[7] : &CK[6], *rootk = (df && df->untrusted_root) ? &CK[9] : &CK[5];
	spec_leaf(&leaf, is_client ? "c" : "s", X509_KU_DIGITAL_SIGNATURE); spec_leaf(&enc, is_client ? "d" : "e", X509_KU_KEY_ENCIPHERMENT); spec_ca(&root, "R", -1);
	if (df && df->expired) { leaf.nb = VENV_NOW - 400 * 86400; leaf.na = VENV_NOW - 86400; } if (df && df->notyet) { leaf.nb = VENV_NOW + 86400; leaf.na = VENV_NOW + 100 * 86400; } if (df && df->expired1h) { leaf.nb = VENV_NOW - 30 * 86400; leaf.na = VENV_NOW - 3600; } if (df && df->notyet1h) { leaf.nb = VENV_NOW + 3600; leaf.na = VENV_NOW + 30 * 86400; } if (df && df->notyet32) { leaf.nb = VENV_NOW + ((time_t)1 << 32) - 3600; leaf.na = leaf.nb + 365 * 86400; } if (df && df->sigflip) leaf.sig = 1;
	int nca = depth - 1; const SM2_KEY *cak[3] = { &CK[1], &CK[3], &CK[4] }; char cacn[3][4] = { "A", "B", "C" };
	for (int i = 0; i < nca; i++) { spec_ca(&ca[i], cacn[i], i); } if (df && nca >= 1) { if (df->issuer_no_bc) { ca[0].bc = 0; ca[0].pathlen = -1; ca[0].ku = -1; } if (df->issuer_ca_false) { ca[0].bc = 1; ca[0].pathlen = -1; } }
	if (df && nca >= 2 && df->issuer2_no_pathlen) ca[1].pathlen = -1; if (df && nca >= 1 && df->issuer_forged) ca[0].sig = 2;
	if (df && nca >= 2) { if (df->issuer2_no_bc) { ca[1].bc = 0; ca[1].pathlen = -1; ca[1].ku = -1; } if (df->issuer2_ca_false) { ca[1].bc = 1; ca[1].pathlen = -1; } }
	size_t n; uint8_t *p = sc->certs; const SM2_KEY *issk = nca ? cak[0] : rootk; const char *isscn = nca ? cacn[0] : "R";
	uint8_t tmp[4][2200]; size_t tl[4]; int nt = 0;
	int root_done = 0;
	if (df && df->lookalike) { n = 0; if (make_cert(&root, &CK[5], &CK[5], "R", sc->cacerts, &n) != 1) return -1; sc->cacertslen = n; root_done = 1; memcpy(leaf.serial, root.serial, root.serial_len); leaf.serial_len = root.serial_len; leaf.nb = root.nb; leaf.na = root.na; int ok = 0;
		for (int cl = 1; cl <= 11 && !ok; cl++) for (int ue = 0; ue < 2 && !ok; ue++) for (int t = 0; t < 8 && !ok; t++) { memset(leaf.cn, 0, sizeof leaf.cn); memset(leaf.cn, is_client ? 'c' : 's', (size_t)cl); leaf.unknown_ext = ue; n = 0; if (make_cert(&leaf, leafk, issk, isscn, tmp[nt], &n) != 1) return -1; if (n == sc->cacertslen && !memcmp(tmp[nt], sc->cacerts, 8)) ok = 1; }
		if (!ok) return -1; tl[nt++] = n; }
	else { n = 0; if (make_cert(&leaf, leafk, issk, isscn, tmp[nt], &n) != 1) return -1; tl[nt++] = n; }
	int twoleaf = (proto == P_TLCP && !is_client); /* the TLCP server presents sign+enc certificates; a TLCP client chain is an ordinary chain */
	uint8_t encc[1200]; size_t encl = 0; if (twoleaf) { if (df && df->enc_expired) { enc.nb = VENV_NOW - 400 * 86400; enc.na = VENV_NOW - 86400; } if (make_cert(&enc, enck, (df && df->enc_forged) ? &CK[10] : issk, isscn, encc, &encl) != 1) return -1; }
	for (int i = 0; i < nca; i++) { const SM2_KEY *ik = i + 1 < nca ? cak[i + 1] : rootk; const char *icn = i + 1 < nca ? cacn[i + 1] : "R"; n = 0; if (make_cert(&ca[i], cak[i], ik, icn, tmp[nt], &n) != 1) return -1; tl[nt++] = n; }
	if (df && df->chain_total > 0) { /* size the leaf: total = sum of the chain entries (+ the TLCP encryption certificate) */ int ok = 0; for (int it = 0; it < 24 && !ok; it++) { size_t tot = encl; for (int i = 0; i < nt; i++) tot += tl[i]; if ((int)tot == df->chain_total) { ok = 1; break; } long d = (long)df->chain_total - (long)tot; long np = (long)leaf.pad + d; if (leaf.pad == 0) np -= 14; if (np < 1) np = 1; if (np == leaf.pad) np += (d > 0 ? 1 : -1); leaf.pad = (int)np; n = 0; if (make_cert(&leaf, leafk, issk, isscn, tmp[0], &n) != 1) return -1; tl[0] = n; } if (!ok) return -1; }
	if (df && df->wrong_order && nt >= 2) { uint8_t sw[1200]; size_t sl = tl[nt - 1]; memcpy(sw, tmp[nt - 1], sl); memcpy(tmp[nt - 1], tmp[0], tl[0]); tl[nt - 1] = tl[0]; memcpy(tmp[0], sw, sl); tl[0] = sl; }
	if (!(df && df->empty_chain)) { memcpy(p, tmp[0], tl[0]); p += tl[0]; if (twoleaf) { memcpy(p, encc, encl); p += encl; } for (int i = 1; i < nt; i++) { memcpy(p, tmp[i], tl[i]); p += tl[i]; } }
	sc->certslen = (size_t)(p - sc->certs);
	if (!root_done) { n = 0; if (make_cert(&root, &CK[5], &CK[5], "R", sc->cacerts, &n) != 1) return -1; sc->cacertslen = n; }   /* the trust store always holds the GENUINE root */
	sc->signkey = (df && df->wrong_signkey) ? CK[10] : *leafk; sc->kenckey = (df && df->wrong_enckey) ? CK[10] : *enck;
	return 1;
}
/* application-phase script */
typedef struct { size_t wsize[6]; int nw; size_t rbuf; } app_dir;
typedef struct {
	int proto, is_client, mutual; const side_creds *own; const side_creds *trust; /* whose cacerts to trust (NULL: none) */
	app_dir out, in; int do_app, do_close, interleave; /* interleave: the second speaker sends its data after its FIRST (partial) read, then keeps reading */ uint64_t entropy_key; long entropy_fail_at;
	/* results */
	int hs_ret; int app_ok; size_t app_got; int app_err; int close_seen; uint8_t secrets[400]; size_t secrets_len; int cipher_suite, protocol; long draws; int extra_data; /* application data received after the script (C10/C11) */
	TLS_CONNECT *conn_out; int config_altered; /* after the handshake the endpoint's own configuration inside the connection object (trust anchors, own chain, own keys) differs from what tls_init put there: bit 1 anchors, 2 own chain, 4 own keys */
	int via_files; /* configure the endpoint the way an application does: PEM files + the tls_ctx_* interface (instead of filling TLS_CTX directly) */
} ep_t;
static uint8_t APPDATA[2][70000];
static void app_fill(void) { for (size_t i = 0; i < sizeof APPDATA[0]; i++) { APPDATA[0][i] = (uint8_t)(i * 7 + 1 + (i >> 8)); APPDATA[1][i] = (uint8_t)(i * 13 + 5 + (i >> 7)); } }
static int ep_send(ep_t *e, TLS_CONNECT *c, const uint8_t *p, size_t n) { size_t off = 0; int guard = 0; while (off < n) { size_t s = 0; int r = e->proto == P_TLS13 ? tls13_send(c, p + off, n - off, &s) : tls_send(c, p + off, n - off, &s); if (r != 1 || s == 0 || s > n - off) return -1; off += s; if (++guard > 100000) return -1; } return 1; }
static int ep_recv(ep_t *e, TLS_CONNECT *c, uint8_t *buf, size_t cap, size_t *got) { return e->proto == P_TLS13 ? tls13_recv(c, buf, cap, got) : tls_recv(c, buf, cap, got); }
static void (*ep_hook)(void *e, TLS_CONNECT *conn, int phase);   /* phase 0: configured, before the handshake; 1: handshake returned */
static int ep_task(void *arg) {
	ep_t *e = (ep_t *)arg; static __thread TLS_CONNECT *conn; TLS_CTX ctx; conn = (TLS_CONNECT *)calloc(1, sizeof *conn); e->conn_out = conn;
	venv_reset(e->entropy_key); if (e->entropy_fail_at >= 0) venv_fail_at(e->entropy_fail_at);
	memset(&ctx, 0, sizeof ctx); ctx.protocol = PROTO[e->proto]; ctx.is_client = e->is_client; ctx.cipher_suites[0] = CIPHER[e->proto]; ctx.cipher_suites_cnt = 1; ctx.verify_depth = 4; ctx.quiet = 1;
	if (!e->is_client || e->mutual) { ctx.certs = (uint8_t *)e->own->certs; ctx.certslen = e->own->certslen; ctx.signkey = e->own->signkey; ctx.kenckey = e->own->kenckey; }
	if (e->trust) { ctx.cacerts = (uint8_t *)e->trust->cacerts; ctx.cacertslen = e->trust->cacertslen; }
	if (e->via_files) { char dir[64] = "/tmp/vfilesXXXXXX", f1[96], f2[96], f3[96], f4[96]; if (!mkdtemp(dir)) { e->hs_ret = -79; return -79; } snprintf(f1, sizeof f1, "%s/chain.pem", dir); snprintf(f2, sizeof f2, "%s/signkey.pem", dir); snprintf(f3, sizeof f3, "%s/enckey.pem", dir); snprintf(f4, sizeof f4, "%s/ca.pem", dir);
		int ok = 1, cs[1] = { CIPHER[e->proto] }; FILE *f; memset(&ctx, 0, sizeof ctx);
		if (!e->is_client || e->mutual) { if ((f = fopen(f1, "w"))) { ok &= x509_certs_to_pem(e->own->certs, e->own->certslen, f) == 1; fclose(f); } else ok = 0; if ((f = fopen(f2, "w"))) { ok &= sm2_private_key_info_encrypt_to_pem(&e->own->signkey, "file-pass", f) == 1; fclose(f); } else ok = 0; if ((f = fopen(f3, "w"))) { ok &= sm2_private_key_info_encrypt_to_pem(&e->own->kenckey, "enc-pass", f) == 1; fclose(f); } else ok = 0; }
		if (e->trust) { if ((f = fopen(f4, "w"))) { ok &= x509_certs_to_pem(e->trust->cacerts, e->trust->cacertslen, f) == 1; fclose(f); } else ok = 0; }
		ok = ok && tls_ctx_init(&ctx, PROTO[e->proto], e->is_client) == 1 && tls_ctx_set_cipher_suites(&ctx, cs, 1) == 1; if (ok && e->trust) ok = tls_ctx_set_ca_certificates(&ctx, f4, 4) == 1;
		if (ok && (!e->is_client || e->mutual)) ok = (e->proto == P_TLCP && !e->is_client) ? tls_ctx_set_tlcp_server_certificate_and_keys(&ctx, f1, f2, "file-pass", f3, "enc-pass") == 1 : tls_ctx_set_certificate_and_key(&ctx, f1, f2, "file-pass") == 1;
		ctx.quiet = 1; unlink(f1); unlink(f2); unlink(f3); unlink(f4); rmdir(dir); if (!ok) { e->hs_ret = -78; return -78; } }
	if (tls_init(conn, &ctx) != 1) { e->hs_ret = -77; return -77; }
	if (e->via_files) tls_ctx_cleanup(&ctx);
	conn->sock = e->is_client ? VN_CLIENT_FD : VN_SERVER_FD;
	if (ep_hook) ep_hook(e, conn, 0);
	static __thread uint8_t cfg_ca[2048], cfg_own[2048]; size_t cfg_cal = conn->ca_certs_len, cfg_ownl = e->is_client ? conn->client_certs_len : conn->server_certs_len; SM2_KEY cfg_sk = conn->sign_key, cfg_kk = conn->kenc_key; memcpy(cfg_ca, conn->ca_certs, sizeof cfg_ca); memcpy(cfg_own, e->is_client ? conn->client_certs : conn->server_certs, sizeof cfg_own);
	e->hs_ret = tls_do_handshake(conn); e->draws = venv_cur()->draws;
	/* nothing a peer sends may alter the verifier's configuration: trust anchors, own chain (when one is configured), own keys */
	if (conn->ca_certs_len != cfg_cal || memcmp(conn->ca_certs, cfg_ca, cfg_cal < sizeof cfg_ca ? cfg_cal : sizeof cfg_ca)) e->config_altered |= 1;
	if (cfg_ownl && ((e->is_client ? conn->client_certs_len : conn->server_certs_len) != cfg_ownl || memcmp(e->is_client ? conn->client_certs : conn->server_certs, cfg_own, cfg_ownl < sizeof cfg_own ? cfg_ownl : sizeof cfg_own))) e->config_altered |= 2;
	if (cfg_ownl && (memcmp(&conn->sign_key, &cfg_sk, sizeof cfg_sk) || memcmp(&conn->kenc_key, &cfg_kk, sizeof cfg_kk))) e->config_altered |= 4;
	if (ep_hook) ep_hook(e, conn, 1);
	e->cipher_suite = conn->cipher_suite; e->protocol = conn->protocol;
	/* secrets snapshot: master_secret+key_block (TLCP/1.2) or the four traffic keys/ivs (1.3) */
	size_t sl = 0; if (e->proto != P_TLS13) { memcpy(e->secrets, conn->master_secret, 48); memcpy(e->secrets + 48, conn->key_block, 96); sl = 144; } else { memcpy(e->secrets, conn->client_write_iv, 12); memcpy(e->secrets + 12, conn->server_write_iv, 12); memcpy(e->secrets + 24, &conn->client_write_key, sizeof(BLOCK_CIPHER_KEY) < 160 ? sizeof(BLOCK_CIPHER_KEY) : 160); sl = 24 + (sizeof(BLOCK_CIPHER_KEY) < 160 ? sizeof(BLOCK_CIPHER_KEY) : 160); memcpy(e->secrets + sl, &conn->server_write_key, sizeof(BLOCK_CIPHER_KEY) < 160 ? sizeof(BLOCK_CIPHER_KEY) : 160); sl += sizeof(BLOCK_CIPHER_KEY) < 160 ? sizeof(BLOCK_CIPHER_KEY) : 160; } e->secrets_len = sl;
	if (e->hs_ret != 1) return e->hs_ret;
	e->app_ok = 1;
	if (e->do_app) { static __thread uint8_t rb[70000];
		/* client speaks first, then the server answers */
		int sent_early = 0;
		for (int phase = 0; phase < 2; phase++) { int sending = (phase == 0) == (e->is_client != 0);
			if (sending && sent_early) continue;
			if (sending) { const uint8_t *src = APPDATA[e->is_client ? 0 : 1]; size_t off = 0; for (int i = 0; i < e->out.nw; i++) { if (ep_send(e, conn, src + off, e->out.wsize[i]) != 1) { e->app_ok = 0; e->app_err = 1; return 1; } off += e->out.wsize[i]; } }
			else { const uint8_t *exp = APPDATA[e->is_client ? 1 : 0]; size_t total = 0; for (int i = 0; i < e->in.nw; i++) total += e->in.wsize[i]; size_t got = 0; int guard = 0; while (got < total) { size_t g = 0; size_t cap = e->in.rbuf; int r = ep_recv(e, conn, rb, cap, &g); if (r != 1) { e->app_ok = 0; e->app_err = 2; e->app_got = got; return 1; } if (g == 0 || g > cap || got + g > total || memcmp(rb, exp + got, g)) { e->app_ok = 0; e->app_err = 3; e->app_got = got; return 1; } got += g; if (++guard > 200000) { e->app_ok = 0; e->app_err = 4; return 1; }
					if (e->interleave && !sent_early && !e->is_client && got < total) { /* unread bytes of the current record are still buffered: write now */ const uint8_t *src = APPDATA[1]; size_t off = 0; int refused = 0; for (int i = 0; i < e->out.nw; i++) { if (ep_send(e, conn, src + off, e->out.wsize[i]) != 1) { refused = 1; break; } off += e->out.wsize[i]; } if (!refused) sent_early = 1; else if (off) { e->app_ok = 0; e->app_err = 5; return 1; } /* a refusal of the very first write while data is buffered is a documented restriction of tls_send: fall back to the strict order */ } } e->app_got = got; } }
	}
	if (e->do_close && e->proto != P_TLS13) { if (e->is_client) { tls_shutdown(conn); } else { static __thread uint8_t rb2[64]; size_t g; int r = tls_recv(conn, rb2, sizeof rb2, &g); e->close_seen = (r == 0); if (r == 1) e->extra_data = 1; tls_shutdown(conn); } }
	return 1;
}
#endif
