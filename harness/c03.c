/* C03 — hashes / HMAC / KDFs equal their standards under every chunking.
 * Explicit-state exploration of the (buffer fill, length) automaton of every update function, every 3-cut chunking
 * of short messages, HMAC/HKDF/PBKDF2/KDF parameter grids; oracle = OpenSSL libcrypto. */
#include <gmssl/sm3.h>
#include <gmssl/sha1.h>
#include <gmssl/sha2.h>
#include <gmssl/digest.h>
#include <gmssl/hmac.h>
#include <gmssl/hkdf.h>
#include <gmssl/sm2.h>
#include "vh.h"
#include "ossl_ref.h"

typedef void (*init_f)(void *); typedef void (*upd_f)(void *, const uint8_t *, size_t); typedef void (*fin_f)(void *, uint8_t *);
typedef struct { const char *name, *oname; size_t B, dlen; init_f init; upd_f upd; fin_f fin; const DIGEST *(*get)(void); int named; } alg_t;
static alg_t ALG[] = {
	{ "sm3", "SM3", 64, 32, (init_f)sm3_init, (upd_f)sm3_update, (fin_f)sm3_finish, DIGEST_sm3, 1 },
	{ "sha1", "SHA1", 64, 20, (init_f)sha1_init, (upd_f)sha1_update, (fin_f)sha1_finish, DIGEST_sha1, 1 },
	{ "sha224", "SHA224", 64, 28, (init_f)sha224_init, (upd_f)sha224_update, (fin_f)sha224_finish, DIGEST_sha224, 1 },
	{ "sha256", "SHA256", 64, 32, (init_f)sha256_init, (upd_f)sha256_update, (fin_f)sha256_finish, DIGEST_sha256, 1 },
	{ "sha384", "SHA384", 128, 48, (init_f)sha384_init, (upd_f)sha384_update, (fin_f)sha384_finish, DIGEST_sha384, 1 },
	{ "sha512", "SHA512", 128, 64, (init_f)sha512_init, (upd_f)sha512_update, (fin_f)sha512_finish, DIGEST_sha512, 1 },
	/* dispatch-only entries the property does not name: compared against truncated SHA-512 for chunking invariance only */
	{ "sha512_224", "SHA512", 128, 28, NULL, NULL, NULL, DIGEST_sha512_224, 0 },
	{ "sha512_256", "SHA512", 128, 32, NULL, NULL, NULL, DIGEST_sha512_256, 0 },
};
#define NALG (sizeof ALG / sizeof ALG[0])
static uint8_t MSG[2][70000];
static void fill(void) { for (size_t i = 0; i < sizeof MSG[0]; i++) { MSG[0][i] = (uint8_t)(i * 7 + 3); MSG[1][i] = (uint8_t)(0xff - (i % 251)); } }
static union { SM3_CTX a; SHA1_CTX b; SHA256_CTX c; SHA512_CTX d; uint8_t pad[1024]; } NCTX;

/* iface 0 = native, 1 = digest_* dispatch, 2 = sm3_digest_* (sm3 only, unkeyed) */
static int run_chunks(const alg_t *A, int iface, const uint8_t *m, const size_t *cuts, int ncuts, uint8_t *out, size_t *outlen) {
	size_t pos = 0;
	if (iface == 0) {
		A->init(&NCTX);
		for (int i = 0; i < ncuts; i++) { if (cuts[i]) A->upd(&NCTX, m + pos, cuts[i]); pos += cuts[i]; }
		A->fin(&NCTX, out); *outlen = A->dlen; return 1;
	} else if (iface == 1) {
		DIGEST_CTX c; if (digest_init(&c, A->get()) != 1) return -1;
		for (int i = 0; i < ncuts; i++) { int r = digest_update(&c, m + pos, cuts[i]); if (r < 0 || (r == 0 && cuts[i])) return -1; pos += cuts[i]; }
		return digest_finish(&c, out, outlen);
	} else {
		SM3_DIGEST_CTX c; if (sm3_digest_init(&c, NULL, 0) != 1) return -1;
		for (int i = 0; i < ncuts; i++) { if (cuts[i]) { if (sm3_digest_update(&c, m + pos, cuts[i]) != 1) return -1; } pos += cuts[i]; }
		*outlen = 32; return sm3_digest_finish(&c, out);
	}
}
static void expect_digest(const alg_t *A, const uint8_t *m, size_t n, uint8_t *exp) {
	uint8_t full[64]; ref_digest(A->oname, m, n, full); memcpy(exp, full, A->dlen);
}
static const char *IFN[] = { "native", "dispatch", "sm3_digest" };
static void check_chunks(const alg_t *A, int iface, int pat, const size_t *cuts, int ncuts, const uint8_t *exp, const char *blk) {
	uint8_t out[64]; size_t outlen = 0, total = 0; for (int i = 0; i < ncuts; i++) total += cuts[i];
	int r = run_chunks(A, iface, MSG[pat], cuts, ncuts, out, &outlen);
	uint64_t k = vh_hash(cuts, sizeof(size_t) * ncuts, (uint64_t)(A - ALG) * 16 + iface * 2 + pat);
	vh_eval(total ? k : k);
	if (r != 1 || outlen != A->dlen || memcmp(out, exp, A->dlen)) {
		char key[128]; snprintf(key, sizeof key, "C03:%s:%s:%s%s", blk, A->name, IFN[iface], r != 1 ? ":refused" : "");
		vh_viol(key, "\"alg\":\"%s\",\"iface\":\"%s\",\"cuts\":[%zu,%zu,%zu],\"ret\":%d,\"got\":\"%s\",\"expected\":\"%s\"", A->name, IFN[iface],
			cuts[0], ncuts > 1 ? cuts[1] : 0, ncuts > 2 ? cuts[2] : 0, r, vh_hex(out, A->dlen), vh_hex(exp, A->dlen));
	}
}

static void blk_automaton(void) {
	for (size_t a = 0; a < NALG; a++) {
		const alg_t *A = &ALG[a]; char bn[64]; snprintf(bn, sizeof bn, "automaton-%s", A->name);
		if (!vh_block_begin(bn)) continue;
		for (size_t f = 0; f < A->B; f++) for (size_t len = 0; len <= 3 * A->B + 1; len++) {
			if (!vh_next()) continue;
			size_t cuts[2] = { f, len }; uint8_t exp[64];
			for (int pat = 0; pat < 2; pat++) {
				expect_digest(A, MSG[pat], f + len, exp);
				if (A->init) check_chunks(A, 0, pat, cuts, 2, exp, "automaton");
				check_chunks(A, 1, pat, cuts, 2, exp, "automaton");
				if (a == 0) check_chunks(A, 2, pat, cuts, 2, exp, "automaton");
			}
			if (f == 5 && len == 70) vh_sample("{\"block\":\"%s\",\"fill\":%zu,\"len\":%zu,\"expected\":\"%s\"}", bn, f, len, vh_hex(exp, A->dlen));
			else vh_sample("{\"block\":\"%s\",\"fill\":%zu,\"len\":%zu}", bn, f, len);
		}
	}
}
static void blk_cuts3(void) {
	for (size_t a = 0; a < NALG; a++) {
		const alg_t *A = &ALG[a]; char bn[64]; snprintf(bn, sizeof bn, "cuts3-%s", A->name);
		if (!vh_block_begin(bn)) continue;
		size_t maxlen = vh_thorough ? 2 * A->B + 2 : A->B + 2;
		if (!vh_thorough && A->B == 128 && !A->named) maxlen = 66;
		for (size_t n = 0; n <= maxlen; n++) {
			if (!vh_next()) continue;
			uint8_t exp[64]; expect_digest(A, MSG[0], n, exp);
			for (size_t c1 = 0; c1 <= n; c1++) for (size_t c2 = 0; c1 + c2 <= n; c2++) {
				size_t cuts[3] = { c1, c2, n - c1 - c2 };
				if (A->init) check_chunks(A, 0, 0, cuts, 3, exp, "cuts3");
				check_chunks(A, 1, 0, cuts, 3, exp, "cuts3");
			}
		}
	}
}
/* one-shot interfaces incl. empty message, and dispatch == native */
static void blk_oneshot(void) {
	if (!vh_block_begin("oneshot")) return;
	for (size_t a = 0; a < NALG; a++) for (size_t n = 0; n <= 300; n++) {
		if (!vh_next()) continue;
		const alg_t *A = &ALG[a]; uint8_t exp[64], out[64]; size_t ol = 0; expect_digest(A, MSG[1], n, exp);
		int r = digest(A->get(), MSG[1], n, out, &ol); vh_eval(vh_hash(&n, sizeof n, a + 777));
		if (r != 1 || ol != A->dlen || memcmp(out, exp, ol)) {
			char key[128]; snprintf(key, sizeof key, "C03:oneshot:digest:%s%s", A->name, n ? "" : ":empty");
			vh_viol(key, "\"alg\":\"%s\",\"len\":%zu,\"ret\":%d", A->name, n, r);
		}
		/* NULL data pointer with zero length */
		if (n == 0) { r = digest(A->get(), NULL, 0, out, &ol); vh_eval(0); if (r != 1 || memcmp(out, exp, A->dlen)) { char key[128]; snprintf(key, sizeof key, "C03:oneshot:digest:%s:null-empty", A->name); vh_viol(key, "\"ret\":%d", r); } }
	}
}
static const size_t KEYLENS64[] = { 1, 12, 31, 32, 63, 64, 65, 128, 200 }, KEYLENS128[] = { 1, 12, 64, 127, 128, 129, 200, 256, 300 };
/* dispatch by name: digest_from_name (lower and upper case) hands out the descriptor whose one-shot digest equals the reference for that algorithm,
   digest_name names it back, descriptor sizes agree with the algorithm */
static void blk_names(void) {
	if (!vh_block_begin("names")) return; static const char *NM[][2] = { { "sm3", "SM3" }, { "sha1", "SHA1" }, { "sha224", "SHA224" }, { "sha256", "SHA256" }, { "sha384", "SHA384" }, { "sha512", "SHA512" } };
	for (int a = 0; a < 6; a++) for (int c = 0; c < 2; c++) { if (!vh_next()) continue; const alg_t *A = &ALG[a]; const DIGEST *d = digest_from_name(NM[a][c]); vh_eval(vh_mix(a * 2 + c + 991)); char key[96];
		if (!d) { snprintf(key, sizeof key, "C03:names:%s:unknown-name", A->name); vh_viol(key, "\"name\":\"%s\"", NM[a][c]); continue; }
		uint8_t out[64], exp[64]; size_t ol = 0; static uint8_t msg[300]; for (int i = 0; i < 300; i++) msg[i] = (uint8_t)(i * 5 + a); int r = digest(d, msg, 200 + a, out, &ol); ref_digest(A->oname, msg, 200 + a, exp);
		if (r != 1 || ol != A->dlen || memcmp(out, exp, A->dlen)) { snprintf(key, sizeof key, "C03:names:%s:descriptor-by-name-computes-another-function", A->name); vh_viol(key, "\"name\":\"%s\",\"outlen\":%zu", NM[a][c], ol); }
		if (d->digest_size != A->dlen || d->block_size != A->B) { snprintf(key, sizeof key, "C03:names:%s:descriptor-sizes", A->name); vh_viol(key, "\"digest_size\":%zu,\"block_size\":%zu", (size_t)d->digest_size, (size_t)d->block_size); }
		const char *back = digest_name(d); if (!back || digest_from_name(back) != d) { snprintf(key, sizeof key, "C03:names:%s:digest_name-does-not-name-it-back", A->name); vh_viol(key, "\"got\":\"%s\"", back ? back : "(null)"); } }
}
static void blk_hmac(void) {
	if (!vh_block_begin("hmac")) return;
	for (size_t a = 0; a < NALG; a++) {
		const alg_t *A = &ALG[a]; if (!A->named) continue;
		const size_t *KL = A->B == 64 ? KEYLENS64 : KEYLENS128;
		for (int ki = 0; ki < 9; ki++) for (size_t n = 0; n <= 2 * A->B + 1; n++) {
			if (!vh_next()) continue;
			size_t kl = KL[ki]; const uint8_t *key = MSG[1] + 1000; uint8_t exp[64], out[64]; size_t ol = 0;
			ref_hmac(A->oname, key, kl, MSG[0], n, exp);
			/* one-shot */
			int r = hmac(A->get(), key, kl, MSG[0], n, out, &ol); vh_eval(vh_hash(&n, sizeof n, a * 100 + ki));
			if (r != 1 || ol != A->dlen || memcmp(out, exp, ol)) {
				char k[128]; snprintf(k, sizeof k, "C03:hmac:oneshot:%s%s%s", A->name, n ? "" : ":empty-msg", r != 1 ? ":refused" : "");
				vh_viol(k, "\"alg\":\"%s\",\"keylen\":%zu,\"len\":%zu,\"ret\":%d,\"expected\":\"%s\"", A->name, kl, n, r, vh_hex(exp, A->dlen));
			}
			/* streaming, every 2-cut (for n small) or three representative cuts */
			for (size_t c = 0; c <= n; c += (n <= 70 ? 1 : (n / 3 ? n / 3 : 1))) {
				HMAC_CTX h; ol = 0; int ok = hmac_init(&h, A->get(), key, kl) == 1;
				if (ok && c) ok = hmac_update(&h, MSG[0], c) == 1;
				if (ok && n - c) ok = hmac_update(&h, MSG[0] + c, n - c) == 1;
				if (ok) ok = hmac_finish(&h, out, &ol) == 1;
				vh_eval(vh_hash(&c, sizeof c, a * 100 + ki + n * 1000 + 5));
				if (!ok || ol != A->dlen || memcmp(out, exp, ol)) { char k[128]; snprintf(k, sizeof k, "C03:hmac:stream:%s", A->name); vh_viol(k, "\"keylen\":%zu,\"len\":%zu,\"cut\":%zu", kl, n, c); }
				if (a == 0) {
					SM3_HMAC_CTX s; sm3_hmac_init(&s, key, kl); if (c) sm3_hmac_update(&s, MSG[0], c); if (n - c) sm3_hmac_update(&s, MSG[0] + c, n - c); sm3_hmac_finish(&s, out);
					vh_eval(vh_hash(&c, sizeof c, a * 100 + ki + n * 1000 + 6));
					if (memcmp(out, exp, 32)) vh_viol("C03:hmac:sm3_hmac", "\"keylen\":%zu,\"len\":%zu,\"cut\":%zu", kl, n, c);
					if (kl >= 12 && kl <= 64) {
						SM3_DIGEST_CTX d; int ok2 = sm3_digest_init(&d, key, kl) == 1; if (ok2 && c) ok2 = sm3_digest_update(&d, MSG[0], c) == 1; if (ok2 && n - c) ok2 = sm3_digest_update(&d, MSG[0] + c, n - c) == 1;
						if (ok2) ok2 = sm3_digest_finish(&d, out) == 1; vh_eval(vh_hash(&c, sizeof c, a * 100 + ki + n * 1000 + 7));
						if (!ok2 || memcmp(out, exp, 32)) vh_viol("C03:hmac:sm3_digest-keyed", "\"keylen\":%zu,\"len\":%zu,\"cut\":%zu", kl, n, c);
					}
				}
			}
			vh_sample("{\"block\":\"hmac\",\"alg\":\"%s\",\"keylen\":%zu,\"msglen\":%zu}", A->name, kl, n);
		}
	}
}
static void blk_hkdf(void) {
	if (!vh_block_begin("hkdf")) return;
	static const size_t SL[] = { 0, 1, 32, 64, 65, 200 }, IL[] = { 0, 1, 22, 32, 64, 80 }, NF[] = { 0, 1, 10, 64, 100 };
	for (size_t a = 0; a < NALG; a++) {
		const alg_t *A = &ALG[a]; if (!A->named) continue;
		for (int si = 0; si < 6; si++) for (int ii = 0; ii < 6; ii++) {
			if (!vh_next()) continue;
			uint8_t prk[64], exp[64]; size_t pl = 0; int r = hkdf_extract(A->get(), MSG[0] + 50, SL[si], MSG[1] + 9, IL[ii], prk, &pl);
			int rr = ref_hkdf_extract(A->oname, MSG[0] + 50, SL[si], MSG[1] + 9, IL[ii], exp); vh_eval(vh_hash(&si, sizeof si, a * 64 + ii));
			if (!rr) vh_harness_error("ref hkdf extract failed");
			if (r != 1 || pl != A->dlen || memcmp(prk, exp, pl)) { char k[128]; snprintf(k, sizeof k, "C03:hkdf_extract:%s%s", A->name, IL[ii] ? "" : ":empty-ikm"); vh_viol(k, "\"saltlen\":%zu,\"ikmlen\":%zu,\"ret\":%d", SL[si], IL[ii], r); }
			if (a == 0) { r = sm3_hkdf_extract(MSG[0] + 50, SL[si], MSG[1] + 9, IL[ii], prk); vh_eval(vh_hash(&si, sizeof si, 9999 + ii)); if (r != 1 || memcmp(prk, exp, 32)) vh_viol("C03:sm3_hkdf_extract", "\"saltlen\":%zu,\"ikmlen\":%zu,\"ret\":%d", SL[si], IL[ii], r); }
		}
		for (int fi = 0; fi < 5; fi++) for (size_t L = 1; L <= 3 * A->dlen + 1 + 2; L++) {
			if (!vh_next()) continue;
			size_t LL = L; if (L == 3 * A->dlen + 2) LL = 255 * A->dlen; if (L == 3 * A->dlen + 3) LL = 255 * A->dlen - 1;
			static uint8_t okm[255 * 64 + 8], exp[255 * 64 + 8]; memset(okm, 0xA5, sizeof okm);
			int r = hkdf_expand(A->get(), MSG[1] + 3, A->dlen, MSG[0] + 7, NF[fi], LL, okm);
			if (!ref_hkdf_expand(A->oname, MSG[1] + 3, A->dlen, MSG[0] + 7, NF[fi], LL, exp)) vh_harness_error("ref hkdf expand failed");
			vh_eval(vh_hash(&LL, sizeof LL, a * 64 + fi + 31337));
			if (r != 1 || memcmp(okm, exp, LL) || okm[LL] != 0xA5) { char k[128]; snprintf(k, sizeof k, "C03:hkdf_expand:%s", A->name); vh_viol(k, "\"infolen\":%zu,\"L\":%zu,\"ret\":%d,\"overrun\":%d", NF[fi], LL, r, okm[LL] != 0xA5); }
			if (a == 0) { memset(okm, 0xA5, sizeof okm); r = sm3_hkdf_expand(MSG[1] + 3, MSG[0] + 7, NF[fi], LL, okm); vh_eval(vh_hash(&LL, sizeof LL, fi + 4242)); if (r != 1 || memcmp(okm, exp, LL) || okm[LL] != 0xA5) vh_viol("C03:sm3_hkdf_expand", "\"infolen\":%zu,\"L\":%zu,\"ret\":%d", NF[fi], LL, r); }
		}
	}
}
static void blk_pbkdf2(void) {
	if (!vh_block_begin("pbkdf2")) return;
	static const size_t PL[] = { 1, 8, 64, 65, 100 }, SL[] = { 0, 1, 8, 64 }, OL[] = { 1, 31, 32, 33, 64, 65, 100 }; static const int IT[] = { 1, 2, 3, 1000 };
	for (int p = 0; p < 5; p++) for (int s = 0; s < 4; s++) for (int it = 0; it < 4; it++) for (int o = 0; o < 7; o++) {
		if (!vh_next()) continue;
		uint8_t out[128], exp[128]; memset(out, 0x5A, sizeof out);
		int r = sm3_pbkdf2((const char *)MSG[0] + 33, PL[p], MSG[1] + 77, SL[s], IT[it], OL[o], out);
		ref_pbkdf2("SM3", (const char *)MSG[0] + 33, PL[p], MSG[1] + 77, SL[s], IT[it], OL[o], exp);
		int key4[4] = { p, s, it, o }; vh_eval(vh_hash(key4, sizeof key4, 1));
		if (r != 1) { if (SL[s] == 0) continue; /* refusing an empty salt is unspecified */ vh_viol("C03:sm3_pbkdf2:refused", "\"passlen\":%zu,\"saltlen\":%zu,\"iter\":%d,\"outlen\":%zu,\"ret\":%d", PL[p], SL[s], IT[it], OL[o], r); continue; }
		if (memcmp(out, exp, OL[o]) || out[OL[o]] != 0x5A) vh_viol("C03:sm3_pbkdf2", "\"passlen\":%zu,\"saltlen\":%zu,\"iter\":%d,\"outlen\":%zu", PL[p], SL[s], IT[it], OL[o]);
		vh_sample("{\"block\":\"pbkdf2\",\"passlen\":%zu,\"saltlen\":%zu,\"iter\":%d,\"outlen\":%zu}", PL[p], SL[s], IT[it], OL[o]);
	}
}
/* outputs long enough for the block index of the KDFs to pass 255 / 256 (one-octet counters, T(256) = T(0) mistakes) */
static void blk_long_outputs(void) {
	if (!vh_block_begin("long-outputs")) return; static uint8_t out[20100], exp[20100];
	static const size_t OL[] = { 8128, 8159, 8160, 8161, 8191, 8192, 8193, 8224, 16384, 20000 };
	for (int o = 0; o < 10; o++) for (int it = 1; it <= 2; it++) { if (!vh_next()) continue; memset(out, 0x5A, sizeof out); int r = sm3_pbkdf2((const char *)MSG[0] + 33, 8, MSG[1] + 77, 8, (size_t)it, OL[o], out); ref_pbkdf2("SM3", (const char *)MSG[0] + 33, 8, MSG[1] + 77, 8, it, OL[o], exp); vh_eval(vh_mix(880000 + o * 4 + it));
		if (r != 1) vh_viol("C03:sm3_pbkdf2:refused", "\"outlen\":%zu,\"iter\":%d,\"ret\":%d", OL[o], it, r); else if (memcmp(out, exp, OL[o]) || out[OL[o]] != 0x5A) { size_t fb = 0; while (fb < OL[o] && out[fb] == exp[fb]) fb++; vh_viol("C03:sm3_pbkdf2:long-output", "\"outlen\":%zu,\"iter\":%d,\"first_bad_byte\":%zu", OL[o], it, fb); } }
	for (int o = 0; o < 10; o++) { if (!vh_next()) continue; memset(out, 0x5A, sizeof out); if (!ref_x963kdf_sm3(MSG[0] + 11, 33, OL[o], exp)) vh_harness_error("ref x963 failed"); int r = sm2_kdf(MSG[0] + 11, 33, OL[o], out); vh_eval(vh_mix(881000 + o));
		if (r != 1 || memcmp(out, exp, OL[o]) || out[OL[o]] != 0x5A) { size_t fb = 0; while (fb < OL[o] && out[fb] == exp[fb]) fb++; vh_viol("C03:sm2_kdf:long-output", "\"outlen\":%zu,\"ret\":%d,\"first_bad_byte\":%zu", OL[o], r, fb); }
		SM3_KDF_CTX kc; memset(out, 0x5A, sizeof out); sm3_kdf_init(&kc, OL[o]); sm3_kdf_update(&kc, MSG[0] + 11, 20); sm3_kdf_update(&kc, MSG[0] + 31, 13); sm3_kdf_finish(&kc, out); vh_eval(vh_mix(882000 + o)); if (memcmp(out, exp, OL[o]) || out[OL[o]] != 0x5A) { size_t fb = 0; while (fb < OL[o] && out[fb] == exp[fb]) fb++; vh_viol("C03:sm3_kdf:long-output", "\"outlen\":%zu,\"first_bad_byte\":%zu", OL[o], fb); } }
	/* HKDF-Expand at its limit L = 255 * HashLen (and one short of it); one more must be refused */
	for (size_t a = 0; a < NALG; a++) { const alg_t *A = &ALG[a]; if (!A->named) continue; for (int d = -1; d <= 1; d++) { if (!vh_next()) continue; size_t LL = 255 * A->dlen + d; memset(out, 0xA5, sizeof out); int r = hkdf_expand(A->get(), MSG[1] + 3, A->dlen, MSG[0] + 7, 10, LL, out); vh_eval(vh_mix(883000 + a * 4 + d + 1)); char k[128];
		if (d <= 0) { if (!ref_hkdf_expand(A->oname, MSG[1] + 3, A->dlen, MSG[0] + 7, 10, LL, exp)) vh_harness_error("ref hkdf expand failed"); if (r != 1 || memcmp(out, exp, LL) || out[LL] != 0xA5) { snprintf(k, sizeof k, "C03:hkdf_expand:%s:limit", A->name); vh_viol(k, "\"L\":%zu,\"ret\":%d", LL, r); } }
		else if (r == 1) { snprintf(k, sizeof k, "C03:hkdf_expand:%s:beyond-limit-accepted", A->name); vh_viol(k, "\"L\":%zu", LL); } } }
}
static void blk_kdf(void) {
	if (!vh_block_begin("sm3kdf")) return;
	static const size_t ZL[] = { 1, 32, 63, 64, 65, 100 };
	for (int z = 0; z < 6; z++) for (size_t ol = 0; ol <= 100; ol++) {
		if (!vh_next()) continue;
		uint8_t out[128], exp[128]; memset(out, 0x5A, sizeof out);
		if (ol) { if (!ref_x963kdf_sm3(MSG[0] + 11, ZL[z], ol, exp)) vh_harness_error("ref x963 failed"); }
		int r = sm2_kdf(MSG[0] + 11, ZL[z], ol, out); vh_eval(vh_hash(&ol, sizeof ol, z + 500));
		if (r != 1 || memcmp(out, exp, ol) || out[ol] != 0x5A) vh_viol("C03:sm2_kdf", "\"zlen\":%zu,\"outlen\":%zu,\"ret\":%d", ZL[z], ol, r);
		for (size_t c = 0; c <= ZL[z]; c++) { /* every 2-cut of the input */
			SM3_KDF_CTX k; memset(out, 0x5A, sizeof out); sm3_kdf_init(&k, ol); if (c) sm3_kdf_update(&k, MSG[0] + 11, c); if (ZL[z] - c) sm3_kdf_update(&k, MSG[0] + 11 + c, ZL[z] - c); sm3_kdf_finish(&k, out);
			vh_eval(vh_hash(&c, sizeof c, z * 1000 + ol + 600000));
			if (memcmp(out, exp, ol) || out[ol] != 0x5A) vh_viol("C03:sm3_kdf", "\"zlen\":%zu,\"outlen\":%zu,\"cut\":%zu", ZL[z], ol, c);
		}
	}
}
/* messages whose bit length exceeds 2^32 (quick: one length and one chunking per algorithm; thorough: three lengths, two chunkings) */
static void blk_long(void) {
	if (!vh_block_begin("long-2^29")) return;
	static const size_t EXTRA[] = { 0, 1, 64 }, CH[] = { 1 << 20, 4093 };
	static uint8_t big[1 << 20]; for (size_t i = 0; i < sizeof big; i++) big[i] = (uint8_t)(i * 13 + (i >> 8));
	for (size_t a = 0; a < NALG; a++) for (int e = 0; e < 3; e++) for (int ch = 0; ch < 2; ch++) {
		if (!vh_next()) continue;
		const alg_t *A = &ALG[a]; if (!A->named) continue; if (ch == 1 && e != 1) continue; if (!vh_thorough && !(e == 1 && ch == 0)) continue;
		size_t total = ((size_t)1 << 29) + EXTRA[e], done = 0; uint8_t out[64], exp[64]; size_t ol;
		void *rc = ref_digest_new(A->oname); DIGEST_CTX c; digest_init(&c, A->get()); A->init(&NCTX);
		while (done < total) { size_t n = CH[ch]; if (n > total - done) n = total - done; ref_digest_update(rc, big, n); digest_update(&c, big, n); A->upd(&NCTX, big, n); done += n; }
		ref_digest_final(rc, exp); digest_finish(&c, out, &ol); vh_eval(vh_hash(&total, sizeof total, a * 8 + ch));
		if (memcmp(out, exp, A->dlen)) { char k[128]; snprintf(k, sizeof k, "C03:long:%s:dispatch", A->name); vh_viol(k, "\"bytes\":%zu,\"chunk\":%zu", total, CH[ch]); }
		A->fin(&NCTX, out); vh_eval(vh_hash(&total, sizeof total, a * 8 + ch + 4));
		if (memcmp(out, exp, A->dlen)) { char k[128]; snprintf(k, sizeof k, "C03:long:%s:native", A->name); vh_viol(k, "\"bytes\":%zu,\"chunk\":%zu", total, CH[ch]); }
		vh_sample("{\"block\":\"long\",\"alg\":\"%s\",\"bytes\":%zu,\"chunk\":%zu,\"digest\":\"%s\"}", A->name, total, CH[ch], vh_hex(exp, A->dlen));
	}
}
/* oracle self-test: SM3("abc") from GB/T 32905 and the two SHA-512/t observations */
static void selftest(void) {
	uint8_t d[64]; static const uint8_t abc[32] = { 0x66,0xc7,0xf0,0xf4,0x62,0xee,0xed,0xd9,0xd1,0xf2,0xd4,0x6b,0xdc,0x10,0xe4,0xe2,0x41,0x67,0xc4,0x87,0x5c,0xf2,0xf7,0xa2,0x29,0x7d,0xa0,0x2b,0x8f,0x4b,0xa8,0xe0 };
	if (ref_digest("SM3", (const uint8_t *)"abc", 3, d) != 32 || memcmp(d, abc, 32)) vh_harness_error("OpenSSL SM3(abc) self-test failed");
	if (vh_shard == 0 && !vh_replay_block) {
		uint8_t g[64], r[64]; size_t gl; digest(DIGEST_sha512_224(), (const uint8_t *)"abc", 3, g, &gl); ref_digest("SHA512-224", (const uint8_t *)"abc", 3, r);
		if (memcmp(g, r, 28)) vh_obs("DIGEST_sha512_224/256 are SHA-512 truncated, not FIPS 180-4 SHA-512/t; the property's list does not name SHA-512/t, so they are checked for chunking invariance against truncated SHA-512 only");
	}
}
int main(int argc, char **argv) {
	vh_init(argc, argv); if (!freopen("/dev/null", "w", stderr)) {} fill(); selftest();
	blk_oneshot(); blk_names(); blk_hmac(); blk_hkdf(); blk_pbkdf2(); blk_long_outputs(); blk_kdf(); blk_automaton(); blk_cuts3(); blk_long();
	return vh_finish();
}
