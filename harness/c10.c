/* C10 — in-flight tampering with the handshake is always detected.
 * Honest endpoints over vnet; a record-aware adversary applies exactly one fault (every payload bit of every handshake
 * record; per record drop / duplicate / swap-with-next / truncate / inject) — thorough: pairs of record-level faults. */
#include <stdio.h>
#include <sys/mman.h>
#include <sys/wait.h>
#include "vh.h"
#include "venv.h"
#include "tlsh.h"

enum { F_NONE, F_BIT, F_DROP, F_DUP, F_SWAP, F_TRUNC1, F_TRUNCHALF, F_TRUNCALLBUT1, F_INJ_COPY0, F_INJ_SELF, F_INJ_ALERT, F_INJ_EMPTYHS, F_INJ_CCS, NF };
static const char *FN[] = { "none", "bitflip", "drop", "duplicate", "swap-with-next", "truncate-to-1", "truncate-half", "truncate-all-but-1", "inject-copy-of-first", "inject-copy-of-self", "inject-alert", "inject-empty-handshake", "inject-ccs" };
typedef struct { int kind, dir, idx; size_t off; int bit; } fault_t;
static fault_t FA[2]; static int NFA;
typedef struct { int status, cret, sret, c_done, s_done, c_data, s_data, c_bad, s_bad, nrec; struct { int dir; size_t len; uint8_t type; } rec[64]; int sec_equal; } out_t;
static out_t *XO; static side_creds SRV[3], CLI[3], CLI2[3]; /* CLI2: the client credentials with a trust store of TWO roots (the genuine one first) for the server */

static int adv(vn_rec *r) { int copies = 1; for (int i = 0; i < NFA; i++) { fault_t *f = &FA[i]; if (f->dir != r->dir || f->idx != r->idx) continue; size_t pl = r->len - 5;
	switch (f->kind) { case F_BIT: if (f->off < pl) r->rec[5 + f->off] ^= (uint8_t)(1 << f->bit); break; case F_DROP: copies = 0; break; case F_DUP: copies = 2; break; case F_SWAP: copies = -1; break;
	case F_TRUNC1: if (pl > 1) { r->len = 6; r->rec[3] = 0; r->rec[4] = 1; } break; case F_TRUNCHALF: if (pl > 1) { size_t n = pl / 2; r->len = 5 + n; r->rec[3] = (uint8_t)(n >> 8); r->rec[4] = (uint8_t)n; } break; case F_TRUNCALLBUT1: if (pl > 1) { size_t n = pl - 1; r->len = 5 + n; r->rec[3] = (uint8_t)(n >> 8); r->rec[4] = (uint8_t)n; } break; default: break; } }
	return copies; }
static void adv_after(int dir, int idx) { for (int i = 0; i < NFA; i++) { fault_t *f = &FA[i]; if (f->dir != dir || f->idx != idx) continue; uint8_t ver[2] = { 0x03, 0x03 }; for (int k = vn_nlog - 1; k >= 0; k--) if (vn_log[k].dir == dir) { ver[0] = vn_log[k].hdr[1]; ver[1] = vn_log[k].hdr[2]; break; }
	if (f->kind == F_INJ_COPY0) { for (int k = 0; k < vn_nlog; k++) if (vn_log[k].dir == dir) { vn_inject(dir, vn_log[k].copy, vn_log[k].len); break; } }
	else if (f->kind == F_INJ_SELF) { for (int k = vn_nlog - 1; k >= 0; k--) if (vn_log[k].dir == dir) { vn_inject(dir, vn_log[k].copy, vn_log[k].len); break; } }
	else if (f->kind == F_INJ_ALERT) { uint8_t a[7] = { 21, ver[0], ver[1], 0, 2, 1, 0 }; vn_inject(dir, a, 7); }
	else if (f->kind == F_INJ_EMPTYHS) { uint8_t a[5] = { 22, ver[0], ver[1], 0, 0 }; vn_inject(dir, a, 5); }
	else if (f->kind == F_INJ_CCS) { uint8_t a[6] = { 20, ver[0], ver[1], 0, 1, 1 }; vn_inject(dir, a, 6); } } }

/* endpoint: handshake; if completed: send 17 bytes, then up to 3 receives; data accepted? */
typedef struct { ep_t e; int post; int done, got_data, got_bad; } cep_t;
static int cep_task(void *arg) { cep_t *c = (cep_t *)arg; c->e.do_app = 0; c->e.do_close = 0; int r = ep_task(&c->e); c->done = (c->e.hs_ret == 1); if (!c->done || !c->post) return r; TLS_CONNECT *conn = c->e.conn_out;
	ep_send(&c->e, conn, APPDATA[c->e.is_client ? 0 : 1], 17); static __thread uint8_t rb[20000]; for (int i = 0; i < 3; i++) { size_t g = 0; int rr = ep_recv(&c->e, conn, rb, sizeof rb, &g); if (rr == 1 && g > 0) { if (g <= 17 && !memcmp(rb, APPDATA[c->e.is_client ? 1 : 0], g)) c->got_data = 1; else c->got_bad = 1; break; } if (rr != 1) { /* keep trying: later records may still be delivered */ } } return r; }
static int run_child(int proto, int mutual, int post) {
	static cep_t c, s; memset(&c, 0, sizeof c); memset(&s, 0, sizeof s); c.e.proto = s.e.proto = proto; c.e.is_client = 1; c.e.mutual = s.e.mutual = (mutual != 0); c.e.own = &CLI[proto]; s.e.own = &SRV[proto]; c.e.trust = &SRV[proto]; s.e.trust = mutual == 2 ? &CLI2[proto] : mutual ? &CLI[proto] : NULL; c.e.entropy_key = 0xC11E17; s.e.entropy_key = 0x5E12BE12; c.e.entropy_fail_at = s.e.entropy_fail_at = -1; c.post = s.post = post;
	vx_explore_env = 0; vn_adv = adv; vn_adv_after = adv_after; XO->status = vnet_run2(cep_task, &c, cep_task, &s, &XO->cret, &XO->sret); XO->c_done = c.done; XO->s_done = s.done; XO->c_data = c.got_data; XO->s_data = s.got_data; XO->c_bad = c.got_bad; XO->s_bad = s.got_bad;
	XO->nrec = vn_nlog < 64 ? vn_nlog : 64; for (int i = 0; i < XO->nrec; i++) { XO->rec[i].dir = vn_log[i].dir; XO->rec[i].len = vn_log[i].len; XO->rec[i].type = vn_log[i].hdr[0]; }
	XO->sec_equal = c.e.secrets_len == s.e.secrets_len && !memcmp(c.e.secrets, s.e.secrets, c.e.secrets_len); return 0; }
static char FAIL[64];
static int run_exec(int proto, int mutual, int post) { memset(XO, 0, sizeof *XO); FAIL[0] = 0; fflush(stdout); pid_t pid = fork(); if (pid < 0) vh_harness_error("fork");
	if (pid == 0) { if (!getenv("C10_SHOWERR")) { if (!freopen("/dev/null", "w", stderr) || !freopen("/dev/null", "w", stdout)) {} } alarm(30); run_child(proto, mutual, post); _exit(0); }
	int st; while (waitpid(pid, &st, 0) < 0 && errno == EINTR) {} if (!WIFEXITED(st) || WEXITSTATUS(st)) { snprintf(FAIL, sizeof FAIL, "%s", WIFSIGNALED(st) ? (WTERMSIG(st) == SIGALRM ? "hang" : "crash") : "abnormal-exit"); return -1; } return 0; }
static const char *fdesc(void) { static char b[200]; b[0] = 0; for (int i = 0; i < NFA; i++) { char t[96]; if (FA[i].kind == F_BIT) snprintf(t, sizeof t, "%s%s#%d+%zu.%d", i ? " & " : "", FA[i].dir ? "c2s" : "s2c", FA[i].idx, FA[i].off, FA[i].bit); else snprintf(t, sizeof t, "%s%s:%s#%d", i ? " & " : "", FN[FA[i].kind], FA[i].dir ? "c2s" : "s2c", FA[i].idx); strcat(b, t); } return b; }
static uint64_t OUTCOMES[8];
static int POSTHS;   /* the fault only ADDS bytes behind the last handshake record of its direction: the receiver has already completed when they arrive */
static void judge(int proto, int mutual) {
	char key[200]; const char *cn = mutual == 2 ? "mutual-2cas" : mutual ? "mutual" : "serverauth"; vh_eval(vh_hash(FA, sizeof(fault_t) * NFA, proto * 2 + mutual + 1));
	const char *kn = NFA == 2 ? "pair" : FN[FA[0].kind];
	if (FAIL[0]) { snprintf(key, sizeof key, "C10:%s-%s:%s:%s", PNAME[proto], cn, kn, FAIL); vh_viol(key, "\"fault\":\"%s\"", fdesc()); return; }
	if (XO->status & 2) { snprintf(key, sizeof key, "C10:%s-%s:%s:livelock", PNAME[proto], cn, kn); vh_viol(key, "\"fault\":\"%s\"", fdesc()); }
	OUTCOMES[(XO->c_done ? 1 : 0) | (XO->s_done ? 2 : 0) | (XO->status & 1 ? 4 : 0)]++;
	if (XO->c_bad || XO->s_bad) { snprintf(key, sizeof key, "C10:%s-%s:%s:forged-application-data-accepted", PNAME[proto], cn, kn); vh_viol(key, "\"fault\":\"%s\",\"by\":\"%s\"", fdesc(), XO->c_bad ? "client" : "server"); }
	if (POSTHS) return; /* record-layer behaviour after completion is judged by C11; here only: nothing forged is delivered */
	if (XO->c_done && XO->s_done) { snprintf(key, sizeof key, "C10:%s-%s:%s:both-completed", PNAME[proto], cn, kn); vh_viol(key, "\"fault\":\"%s\",\"secrets_equal\":%d", fdesc(), XO->sec_equal); }
	if (XO->c_data || XO->s_data) { snprintf(key, sizeof key, "C10:%s-%s:%s:application-data-accepted-after-tampering", PNAME[proto], cn, kn); vh_viol(key, "\"fault\":\"%s\",\"by\":\"%s\"", fdesc(), XO->c_data ? "client" : "server"); }
}
static void body(void) {
	for (int p = 0; p < 3; p++) for (int m = 0; m < 3; m++) { char bn[64]; snprintf(bn, sizeof bn, "faults-%s-%s", PNAME[p], m == 2 ? "mutual-2cas" : m ? "mutual" : "serverauth"); if (!vh_block_begin(bn)) continue;
		/* baseline: learn the handshake records, and check non-vacuity (honest run completes, data flows) */
		NFA = 0; run_exec(p, m, 1); out_t base = *XO; if (FAIL[0] || !base.c_done || !base.s_done || !base.c_data || !base.s_data) { if (vh_next()) vh_viol("C10:baseline-honest-run-does-not-complete", "\"proto\":\"%s\",\"mutual\":%d,\"fail\":\"%s\",\"c\":%d,\"s\":%d", PNAME[p], m, FAIL, base.c_done, base.s_done); continue; }
		NFA = 0; run_exec(p, m, 0); base = *XO; int nrec = base.nrec; int cnt[2] = { 0, 0 }; int idxof[64]; for (int i = 0; i < nrec; i++) idxof[i] = cnt[base.rec[i].dir]++;
		if (vh_shard == 0 && !vh_replay_block) { char d[600] = ""; for (int i = 0; i < nrec; i++) { char t[32]; snprintf(t, sizeof t, "%s%s:%d:%zu", i ? "," : "", base.rec[i].dir ? "c2s" : "s2c", base.rec[i].type, base.rec[i].len - 5); strcat(d, t); } vh_sample("{\"block\":\"%s\",\"handshake_records\":\"%s\"}", bn, d); }
		/* single faults */
		for (int i = 0; i < nrec; i++) { size_t pl = base.rec[i].len - 5;
			for (size_t off = 0; off < pl; off++) for (int bit = 0; bit < 8; bit++) { if (!vh_next()) continue; if (vh_deadline_hit()) { vh_capped = 1; continue; } NFA = 1; FA[0] = (fault_t){ F_BIT, base.rec[i].dir, idxof[i], off, bit }; run_exec(p, m, 1); judge(p, m); }
			for (int k = F_DROP; k < NF; k++) { if (!vh_next()) continue; if (k >= F_TRUNC1 && k <= F_TRUNCALLBUT1 && pl <= 1) continue; NFA = 1; FA[0] = (fault_t){ k, base.rec[i].dir, idxof[i], 0, 0 }; POSTHS = (idxof[i] == cnt[base.rec[i].dir] - 1) && (k == F_DUP || k >= F_INJ_COPY0); run_exec(p, m, 1); judge(p, m); POSTHS = 0; } }
		/* thorough: all pairs of record-level faults */
		if (vh_thorough) for (int i = 0; i < nrec; i++) for (int k1 = F_DROP; k1 <= F_SWAP; k1++) for (int j = i; j < nrec; j++) for (int k2 = F_DROP; k2 < NF; k2++) { if (j == i && k2 <= k1) continue; /* two faults on one record that cancel out (drop + re-insert the same bytes) or collapse into one single fault leave the stream untouched or repeat a single-fault case: not a pair */ if (j == i && k1 == F_DROP && (k2 == F_DUP || k2 == F_INJ_SELF || (k2 == F_INJ_COPY0 && idxof[i] == 0) || (k2 == F_INJ_CCS && base.rec[i].type == 20 && base.rec[i].len == 6))) continue; /* dropping the (plaintext) ChangeCipherSpec and injecting a ChangeCipherSpec puts the same six octets back */ if (!vh_next()) continue; if (vh_deadline_hit()) { vh_capped = 1; continue; } if (k2 >= F_TRUNC1 && k2 <= F_TRUNCALLBUT1 && base.rec[j].len - 5 <= 1) continue; NFA = 2; FA[0] = (fault_t){ k1, base.rec[i].dir, idxof[i], 0, 0 }; FA[1] = (fault_t){ k2, base.rec[j].dir, idxof[j], 0, 0 }; POSTHS = ((idxof[i] == cnt[base.rec[i].dir] - 1) && k1 == F_DUP) && ((idxof[j] == cnt[base.rec[j].dir] - 1) && (k2 == F_DUP || k2 >= F_INJ_COPY0)); run_exec(p, m, 1); judge(p, m); POSTHS = 0; }
	}
	printf("STAT executions=%llu outcome_neither=%llu outcome_client_only=%llu outcome_server_only=%llu outcome_both=%llu\n", (unsigned long long)vh_evals, (unsigned long long)(OUTCOMES[0] + OUTCOMES[4]), (unsigned long long)(OUTCOMES[1] + OUTCOMES[5]), (unsigned long long)(OUTCOMES[2] + OUTCOMES[6]), (unsigned long long)(OUTCOMES[3] + OUTCOMES[7]));
}
int main(int argc, char **argv) { vh_init(argc, argv); app_fill(); XO = mmap(NULL, sizeof *XO, PROT_READ | PROT_WRITE, MAP_SHARED | MAP_ANONYMOUS, -1, 0);
	for (int p = 0; p < 3; p++) if (build_side(&SRV[p], p, 0, 1, NULL) != 1 || build_side(&CLI[p], p, 1, 1, NULL) != 1) vh_harness_error("creds"); for (int p = 0; p < 3; p++) { CLI2[p] = CLI[p]; cert_spec r2; spec_ca(&r2, "X", -1); size_t n = 0; if (make_cert(&r2, &CK[9], &CK[9], "X", CLI2[p].cacerts + CLI2[p].cacertslen, &n) != 1) vh_harness_error("second root"); CLI2[p].cacertslen += n; } body(); return vh_finish(); }
