/* C09 (part b) — the prover is a PUPPET: the library's own endpoint code with link-time filters on tls_record_send and on the
 * transcript updates (sm3_update / digest_update / tls_seq_num_incr), so that it can leave out any one of its handshake messages
 * CONSISTENTLY (not sent, not hashed into its own transcript, sequence number not advanced) or send an empty certificate list — i.e.
 * what a peer does that deliberately skips a step of the protocol, as opposed to the network dropping a record (C10).
 * For every protocol x verifier role x message of the prover's flights x action: the verifier must not report a completed handshake
 * when a message that carries authentication (Certificate, ServerKeyExchange, CertificateVerify, ClientKeyExchange, Finished) is
 * left out or emptied. */
#include <stdio.h>
#include <sys/mman.h>
#include <sys/wait.h>
#include <gmssl/digest.h>
#include "vh.h"
#include "venv.h"
#include "tlsh.h"
#include "der.h"

enum { A_NONE, A_OMIT, A_EMPTY_CERT, A_ALTER, A_LONG_CERT };
typedef struct { int puppet /* vnet task id: 0 client, 1 server */, k, action, off, val, wrongkey; } plan_t; static plan_t PLAN = { -1, -1, A_NONE, 0, 0, 0 };
typedef struct { int status, c_hs, s_hs, c_cfg, s_cfg, nsend[2]; struct { uint8_t rtype, hstype; uint16_t len; } snd[2][24]; } out_t; static out_t *XO;
/* per-thread filter state */
static __thread int T_NSEND; static __thread const uint8_t *T_SKIP_PTR; static __thread size_t T_SKIP_LEN; static __thread int T_SKIP_NEXT_DIGEST, T_SKIP_NEXT_SEQ, T_CCS_SENT, T_LEARN_IDX = -1; static __thread uint8_t T_REP[16]; static __thread int T_SUBST; static __thread uint8_t T_ALT[20000]; static __thread size_t T_ALTLEN; static __thread int T_ALT13;
static uint8_t FILL[1400]; static size_t FILLLEN; /* certificate appended PLAN.val times to the puppet's certificate list (A_LONG_CERT) */ static __thread uint8_t T_BIG[16400]; static __thread size_t T_BIGLEN;
static const uint8_t SUBV[7] = { 0x00, 0x01, 0x7f, 0x80, 0x81, 0xfe, 0xff }; static uint8_t subst(uint8_t o, int k) { return k < 7 ? SUBV[k] : (k == 7 ? o ^ 0x01 : o ^ 0x80); }
int __real_tls_record_send(const uint8_t *record, size_t recordlen, tls_socket_t sock); void __real_sm3_update(SM3_CTX *c, const uint8_t *d, size_t n); int __real_digest_update(DIGEST_CTX *c, const uint8_t *d, size_t n); int __real_tls_seq_num_incr(uint8_t seq[8]);
int __wrap_tls_record_send(const uint8_t *record, size_t recordlen, tls_socket_t sock) {
	if (vn_me < 0 || !vn_active) return __real_tls_record_send(record, recordlen, sock);
	int me = vn_me, idx = T_NSEND++; T_SKIP_PTR = NULL; T_SUBST = 0; int plain_hs = record[0] == 22 && !T_CCS_SENT && recordlen > 5; if (record[0] == 20) T_CCS_SENT = 1;
	if (idx < 24) { XO->snd[me][idx].rtype = record[0]; XO->snd[me][idx].hstype = plain_hs ? record[5] : 0; XO->snd[me][idx].len = (uint16_t)recordlen; XO->nsend[me] = idx + 1; } T_LEARN_IDX = (record[0] == 23) ? idx : -1;
	if (me == PLAN.puppet && idx == PLAN.k) {
		if (PLAN.action == A_OMIT) { if (plain_hs) { T_SKIP_PTR = record + 5; T_SKIP_LEN = recordlen - 5; } else if (record[0] == 23) { T_SKIP_NEXT_DIGEST = 1; T_SKIP_NEXT_SEQ = 1; } return 1; }
		if (PLAN.action == A_ALTER && plain_hs && recordlen <= sizeof T_ALT && (size_t)(9 + PLAN.off) < recordlen) { memcpy(T_ALT, record, recordlen); T_ALT[9 + PLAN.off] = subst(T_ALT[9 + PLAN.off], PLAN.val); T_ALTLEN = recordlen; T_SKIP_PTR = record + 5; T_SKIP_LEN = recordlen - 5; T_SUBST = 2; return __real_tls_record_send(T_ALT, recordlen, sock); }
		if (PLAN.action == A_LONG_CERT && plain_hs && record[5] == 11 && recordlen >= 12) { /* own list + PLAN.val filler entries, lengths recomputed, hashed consistently */ size_t ll = ((size_t)record[9] << 16) | ((size_t)record[10] << 8) | record[11]; size_t nl = ll + (size_t)PLAN.val * (3 + FILLLEN); if (12 + nl <= sizeof T_BIG && 12 + ll <= recordlen) { memcpy(T_BIG, record, 12 + ll); size_t o = 12 + ll; for (int i = 0; i < PLAN.val; i++) { T_BIG[o++] = (uint8_t)(FILLLEN >> 16); T_BIG[o++] = (uint8_t)(FILLLEN >> 8); T_BIG[o++] = (uint8_t)FILLLEN; memcpy(T_BIG + o, FILL, FILLLEN); o += FILLLEN; }
			size_t hl = nl + 3, rl = hl + 4; T_BIG[3] = (uint8_t)(rl >> 8); T_BIG[4] = (uint8_t)rl; T_BIG[6] = (uint8_t)(hl >> 16); T_BIG[7] = (uint8_t)(hl >> 8); T_BIG[8] = (uint8_t)hl; T_BIG[9] = (uint8_t)(nl >> 16); T_BIG[10] = (uint8_t)(nl >> 8); T_BIG[11] = (uint8_t)nl; T_BIGLEN = o; T_SKIP_PTR = record + 5; T_SKIP_LEN = recordlen - 5; T_SUBST = 3; return __real_tls_record_send(T_BIG, o, sock); } }
		if (PLAN.action == A_EMPTY_CERT && plain_hs && record[5] == 11) { uint8_t rep[12] = { 22, record[1], record[2], 0, 7, 11, 0, 0, 3, 0, 0, 0 }; memcpy(T_REP, rep, 12); T_SKIP_PTR = record + 5; T_SKIP_LEN = recordlen - 5; T_SUBST = 1; return __real_tls_record_send(T_REP, 12, sock); } }
	return __real_tls_record_send(record, recordlen, sock); }
void __wrap_sm3_update(SM3_CTX *c, const uint8_t *d, size_t n) { if (T_SKIP_PTR && d == T_SKIP_PTR && n == T_SKIP_LEN && vn_me >= 0) { if (T_SUBST == 1) __real_sm3_update(c, T_REP + 5, 7); else if (T_SUBST == 2) __real_sm3_update(c, T_ALT + 5, T_ALTLEN - 5); else if (T_SUBST == 3) __real_sm3_update(c, T_BIG + 5, T_BIGLEN - 5); return; } __real_sm3_update(c, d, n); }
int __real_sm4_gcm_encrypt(const SM4_KEY *key, const uint8_t *iv, size_t ivlen, const uint8_t *aad, size_t aadlen, const uint8_t *in, size_t inlen, uint8_t *out, size_t taglen, uint8_t *tag);
int __wrap_sm4_gcm_encrypt(const SM4_KEY *key, const uint8_t *iv, size_t ivlen, const uint8_t *aad, size_t aadlen, const uint8_t *in, size_t inlen, uint8_t *out, size_t taglen, uint8_t *tag) {
	if (vn_me >= 0 && vn_active && vn_me == PLAN.puppet && PLAN.action == A_ALTER && T_NSEND == PLAN.k && inlen <= sizeof T_ALT && (size_t)(4 + PLAN.off) < inlen) { memcpy(T_ALT, in, inlen); T_ALT[4 + PLAN.off] = subst(T_ALT[4 + PLAN.off], PLAN.val); T_ALT13 = 1; return __real_sm4_gcm_encrypt(key, iv, ivlen, aad, aadlen, T_ALT, inlen, out, taglen, tag); }
	return __real_sm4_gcm_encrypt(key, iv, ivlen, aad, aadlen, in, inlen, out, taglen, tag); }
int __wrap_digest_update(DIGEST_CTX *c, const uint8_t *d, size_t n) { if (vn_me >= 0 && vn_active) { if (T_ALT13 && vn_me == PLAN.puppet && n <= sizeof T_ALT && (size_t)(4 + PLAN.off) < n) { T_ALT13 = 0; static __thread uint8_t cp[20000]; memcpy(cp, d, n); cp[4 + PLAN.off] = subst(cp[4 + PLAN.off], PLAN.val); return __real_digest_update(c, cp, n); } if (T_LEARN_IDX >= 0 && T_LEARN_IDX < 24 && n >= 4) { XO->snd[vn_me][T_LEARN_IDX].hstype = d[0]; T_LEARN_IDX = -1; } if (T_SKIP_NEXT_DIGEST) { T_SKIP_NEXT_DIGEST = 0; return 1; } } return __real_digest_update(c, d, n); }
int __wrap_tls_seq_num_incr(uint8_t seq[8]) { if (vn_me >= 0 && vn_active && T_SKIP_NEXT_SEQ) { T_SKIP_NEXT_SEQ = 0; return 1; } return __real_tls_seq_num_incr(seq); }

static side_creds SRV[3], CLI[3], SRVW[3], CLIW[3], SRVU[3], CLIU[3]; /* ...U: a chain under an untrusted root */ /* ...W: the prover's chain is genuine but it signs with an unrelated key */ static char FAIL[32];
static void run_exec(int proto, int who /* 0: client verifies the (puppet) server, 1: server verifies the (puppet) client */) {
	memset(XO, 0, sizeof *XO); FAIL[0] = 0; fflush(stdout); pid_t pid = fork(); if (pid < 0) vh_harness_error("fork");
	if (pid == 0) { if (!freopen("/dev/null", "w", stderr) || !freopen("/dev/null", "w", stdout)) {} alarm(30); static ep_t c, s; memset(&c, 0, sizeof c); memset(&s, 0, sizeof s);
		c.proto = s.proto = proto; c.is_client = 1; c.mutual = s.mutual = (who == 1); c.own = (PLAN.wrongkey == 2 && who == 1) ? &CLIU[proto] : (PLAN.wrongkey && who == 1) ? &CLIW[proto] : &CLI[proto]; s.own = (PLAN.wrongkey == 2 && who == 0) ? &SRVU[proto] : (PLAN.wrongkey && who == 0) ? &SRVW[proto] : &SRV[proto]; c.trust = &SRV[proto]; s.trust = who == 1 ? &CLI[proto] : NULL; c.entropy_key = 0xC11E17; s.entropy_key = 0x5E12BE12; c.entropy_fail_at = s.entropy_fail_at = -1;
		int cr, sr; XO->status = vnet_run2(ep_task, &c, ep_task, &s, &cr, &sr); XO->c_hs = c.hs_ret; XO->s_hs = s.hs_ret; XO->c_cfg = c.config_altered; XO->s_cfg = s.config_altered; _exit(0); }
	int st; while (waitpid(pid, &st, 0) < 0 && errno == EINTR) {} if (!WIFEXITED(st) || WEXITSTATUS(st)) snprintf(FAIL, sizeof FAIL, "%s", WIFSIGNALED(st) ? (WTERMSIG(st) == SIGALRM ? "hang" : "crash") : "abnormal-exit"); }
static const char *hsname(int t) { switch (t) { case 1: return "ClientHello"; case 2: return "ServerHello"; case 8: return "EncryptedExtensions"; case 11: return "Certificate"; case 12: return "ServerKeyExchange"; case 13: return "CertificateRequest"; case 14: return "ServerHelloDone"; case 15: return "CertificateVerify"; case 16: return "ClientKeyExchange"; case 20: return "Finished"; default: return "other"; } }
static uint64_t NEXEC;
static void body(void) {
	for (int p = 0; p < 3; p++) for (int who = 0; who < 2; who++) { char bn[64]; snprintf(bn, sizeof bn, "puppet-%s-%s-verifies-%s", PNAME[p], who ? "server" : "client", who ? "client" : "server"); if (!vh_block_begin(bn)) continue;
		int pup = who ? 0 : 1; /* vnet task id of the prover */ PLAN = (plan_t){ -1, -1, A_NONE }; run_exec(p, who); NEXEC++; out_t base = *XO;
		if (FAIL[0] || base.c_hs != 1 || base.s_hs != 1) { if (vh_next()) vh_viol("C09:puppet:baseline-does-not-complete", "\"block\":\"%s\",\"c_hs\":%d,\"s_hs\":%d,\"fail\":\"%s\"", bn, base.c_hs, base.s_hs, FAIL); continue; }
		if (vh_shard == 0 && !vh_replay_block) { char d[400] = ""; for (int i = 0; i < base.nsend[pup]; i++) { char t[48]; snprintf(t, sizeof t, "%s%d:%s", i ? "," : "", base.snd[pup][i].rtype, base.snd[pup][i].rtype == 20 ? "CCS" : hsname(base.snd[pup][i].hstype)); strcat(d, t); } vh_sample("{\"block\":\"%s\",\"prover_sends\":\"%s\"}", bn, d); }
		for (int k = 0; k < base.nsend[pup]; k++) for (int act = A_OMIT; act <= A_EMPTY_CERT; act++) { int rt = base.snd[pup][k].rtype, ht = base.snd[pup][k].hstype; if (rt != 22 && rt != 23) continue; /* CCS / alerts are not handshake messages */ if (act == A_EMPTY_CERT && !(ht == 11 && p != P_TLS13)) continue; if (!vh_next()) continue;
			PLAN = (plan_t){ pup, k, act }; run_exec(p, who); NEXEC++; int verifier_done = who ? XO->s_hs == 1 : XO->c_hs == 1; size_t kk[4] = { (size_t)p, (size_t)who, (size_t)k, (size_t)act }; vh_eval(vh_hash(kk, sizeof kk, 3)); char key[200]; const char *an = act == A_OMIT ? "omitted" : "empty-list";
			const char *mn = (rt == 22 && ht == 0) ? "Finished" : hsname(ht); /* an encrypted type-22 record of TLCP / TLS 1.2 is the Finished message */
			int relevant = ht == 11 || ht == 12 || ht == 15 || ht == 16 || ht == 20 || (rt == 22 && ht == 0);
			if (FAIL[0]) { snprintf(key, sizeof key, "C09:%s:%s-%s:%s", bn, mn, an, FAIL); vh_viol(key, "\"message_index\":%d", k); continue; }
			if (verifier_done && relevant) { snprintf(key, sizeof key, "C09:%s:%s-%s:verifier-completed", bn, mn, an); vh_viol(key, "\"message_index\":%d,\"c_hs\":%d,\"s_hs\":%d", k, XO->c_hs, XO->s_hs); }
			else if (verifier_done) vh_obs("%s: verifier completes although the prover left out %s (not an authentication message)", bn, mn);
			vh_sample("{\"block\":\"%s\",\"message\":\"%s\",\"action\":\"%s\",\"verifier_completed\":%d,\"prover_completed\":%d}", bn, mn, an, verifier_done, who ? XO->c_hs == 1 : XO->s_hs == 1); } }
	/* a prover whose chain hangs under an UNTRUSTED root and whose Certificate message carries more than the verifier's certificate store can hold (2048 octets):
	   its own list followed by 2..12 further entries (its own leaf again / the verifier's trusted root / its rogue root). Whatever the verifier does with the surplus,
	   it must not complete, crash or hang. (TLCP / TLS 1.2: the message is in the clear; the TLS 1.3 message is covered by the stream mutations of C06.) */
	for (int p = 0; p < 3; p++) for (int who = 0; who < 2; who++) { if (p == P_TLS13) continue; char bn[80]; snprintf(bn, sizeof bn, "oversized-chain-%s-%s-verifies-%s", PNAME[p], who ? "server" : "client", who ? "client" : "server"); if (!vh_block_begin(bn)) continue; int pup = who ? 0 : 1;
		PLAN = (plan_t){ -1, -1, A_NONE, 0, 0, 0 }; run_exec(p, who); NEXEC++; out_t base = *XO; if (FAIL[0] || base.c_hs != 1 || base.s_hs != 1) continue;
		for (int k = 0; k < base.nsend[pup]; k++) { if (base.snd[pup][k].hstype != 11 || base.snd[pup][k].rtype != 22) continue;
			for (int ft = 0; ft < 3; ft++) for (int nf = 2; nf <= 12; nf++) { if (!vh_next()) continue; const side_creds *pu = who ? &CLIU[p] : &SRVU[p]; const uint8_t *src = ft == 1 ? SRV[p].cacerts : pu->certs; size_t sl = ft == 1 ? SRV[p].cacertslen : pu->certslen; /* first certificate of the source; ft 2: the LAST certificate of the puppet's chain */
				der_cur c = { src, sl }; int tag; const uint8_t *v; size_t vl, h; const uint8_t *st = c.p; size_t one = 0; while (c.n) { st = c.p; if (!der_tlv(&c, &tag, &v, &vl, &h)) break; one = h + vl; if (ft != 2) break; } if (!one || one > sizeof FILL) vh_harness_error("filler certificate"); memcpy(FILL, st, one); FILLLEN = one;
				PLAN = (plan_t){ pup, k, A_LONG_CERT, ft, nf, 2 }; run_exec(p, who); NEXEC++; int verifier_done = who ? XO->s_hs == 1 : XO->c_hs == 1; size_t kk[5] = { (size_t)p, (size_t)who, (size_t)k, (size_t)ft, (size_t)nf }; vh_eval(vh_hash(kk, sizeof kk, 9)); char key[200]; static const char *FT[] = { "own-leaf", "verifiers-trusted-root", "own-rogue-root" };
				if (FAIL[0]) { snprintf(key, sizeof key, "C09:%s:%s", bn, FAIL); vh_viol(key, "\"filler\":\"%s\",\"extra_entries\":%d,\"entry_len\":%zu", FT[ft], nf, one); continue; }
				{ int cfg = who ? XO->s_cfg : XO->c_cfg; if (cfg) { snprintf(key, sizeof key, "C09:%s:peer-message-altered-the-verifiers-%s", bn, (cfg & 1) ? "trust-anchors" : (cfg & 2) ? "own-certificate-chain" : "own-keys"); vh_viol(key, "\"filler\":\"%s\",\"extra_entries\":%d,\"entry_len\":%zu,\"altered_mask\":%d", FT[ft], nf, one, cfg); } }
				if (verifier_done) { snprintf(key, sizeof key, "C09:%s:verifier-completed", bn); vh_viol(key, "\"filler\":\"%s\",\"extra_entries\":%d,\"entry_len\":%zu,\"c_hs\":%d,\"s_hs\":%d", FT[ft], nf, one, XO->c_hs, XO->s_hs); }
				vh_sample("{\"block\":\"%s\",\"filler\":\"%s\",\"extra_entries\":%d,\"verifier_completed\":%d}", bn, FT[ft], nf, verifier_done); } } }
	/* a prover WITHOUT the private key (genuine chain, signatures made with an unrelated key) that in addition alters one byte of the header
	   fields of its signed message (CertificateVerify / ServerKeyExchange: algorithm identifiers, lengths, first signature bytes) consistently:
	   whatever it writes there, the verifier must not complete */
	for (int p = 0; p < 3; p++) for (int who = 0; who < 2; who++) { char bn[64]; snprintf(bn, sizeof bn, "keyless-%s-%s-verifies-%s", PNAME[p], who ? "server" : "client", who ? "client" : "server"); if (!vh_block_begin(bn)) continue; int pup = who ? 0 : 1;
		PLAN = (plan_t){ -1, -1, A_NONE, 0, 0, 0 }; run_exec(p, who); NEXEC++; out_t base = *XO; if (FAIL[0] || base.c_hs != 1 || base.s_hs != 1) continue; /* reported by the puppet block */
		for (int k = 0; k < base.nsend[pup]; k++) { int ht = base.snd[pup][k].hstype; if (ht != 15 && ht != 12) continue; size_t blen = base.snd[pup][k].len; (void)blen;
			for (int off = -1; off < 12; off++) for (int v = 0; v < 9; v++) { if (off < 0 && v) continue; if (!vh_next()) continue; PLAN = (plan_t){ pup, k, off < 0 ? A_NONE : A_ALTER, off < 0 ? 0 : off, v, 1 }; run_exec(p, who); NEXEC++; int verifier_done = who ? XO->s_hs == 1 : XO->c_hs == 1; size_t kk[5] = { (size_t)p, (size_t)who, (size_t)k, (size_t)(off + 1), (size_t)v }; vh_eval(vh_hash(kk, sizeof kk, 7)); char key[200];
				if (FAIL[0]) { snprintf(key, sizeof key, "C09:%s:%s-altered:%s", bn, hsname(ht), FAIL); vh_viol(key, "\"offset\":%d,\"value\":%d", off, v); continue; }
				if (verifier_done) { snprintf(key, sizeof key, "C09:%s:%s-signed-with-unrelated-key%s:verifier-completed", bn, hsname(ht), off < 0 ? "" : "-and-header-byte-altered"); vh_viol(key, "\"offset\":%d,\"value_index\":%d,\"c_hs\":%d,\"s_hs\":%d", off, v, XO->c_hs, XO->s_hs); } } } }
	printf("STAT states=%llu transitions=%llu executions=%llu\n", (unsigned long long)NEXEC, (unsigned long long)NEXEC * 2, (unsigned long long)NEXEC);
}
int main(int argc, char **argv) { vh_init(argc, argv); app_fill(); XO = mmap(NULL, sizeof *XO, PROT_READ | PROT_WRITE, MAP_SHARED | MAP_ANONYMOUS, -1, 0); cred_defects wk; memset(&wk, 0, sizeof wk); wk.wrong_signkey = 1; for (int p = 0; p < 3; p++) if (build_side(&SRV[p], p, 0, 1, NULL) != 1 || build_side(&CLI[p], p, 1, 1, NULL) != 1 || build_side(&SRVW[p], p, 0, 1, &wk) != 1 || build_side(&CLIW[p], p, 1, 1, &wk) != 1) vh_harness_error("creds"); { cred_defects ur; memset(&ur, 0, sizeof ur); ur.untrusted_root = 1; for (int p = 0; p < 3; p++) if (build_side(&SRVU[p], p, 0, 2, &ur) != 1 || build_side(&CLIU[p], p, 1, 2, &ur) != 1) vh_harness_error("creds-u"); } body(); return vh_finish(); }
