/* C15 — certificates, requests and CRLs parse as issued and verify only as issued. */
#include <stdio.h>
#include <gmssl/x509.h>
#include <gmssl/x509_alg.h>
#include <gmssl/x509_ext.h>
#include <gmssl/x509_req.h>
#include <gmssl/x509_crl.h>
#include "vh.h"
#include "creds.h"

static uint8_t NAME_I[128], NAME_S[128]; static size_t NIL, NSL;
static const struct { const char *p; size_t n; } IDS[] = { { "1234567812345678", 16 }, { "alice@example", 13 }, { "12345678", 8 }, { "1234567812345678\0", 17 } };

/* verification matrix: issuer key x {right, other} and signer id x IDS; must verify iff right key and the id it was signed under */
static void verify_matrix(const char *what, const uint8_t *obj, size_t len, const SM2_KEY *right, int sid) {
	for (int k = 0; k < 2; k++) for (int i = 0; i < 4; i++) { const SM2_KEY *key = k ? &CK[10] : right; char *idb = (char *)malloc(IDS[i].n); memcpy(idb, IDS[i].p, IDS[i].n);
		int r = x509_signed_verify(obj, len, key, idb, IDS[i].n); free(idb); int want = (k == 0 && i == sid); vh_eval(vh_hash(obj, len, k * 10 + i + 1));
		if ((r == 1) != want) { char key2[160]; snprintf(key2, sizeof key2, "C15:%s:verify-matrix:%s:key=%s:id=%d-signed-under-%d", what, r == 1 ? "accepted" : "rejected", k ? "other" : "issuer", i, sid); vh_viol(key2, "\"verify_id\":\"%s\",\"sign_id\":\"%s\"", vh_hex(IDS[i].p, IDS[i].n), vh_hex(IDS[sid].p, IDS[sid].n)); } }
}
/* the outer signatureAlgorithm replaced by every OTHER signature algorithm the library knows (taken from its own table: every oid for which
   x509_signature_algor_name answers), TBS and signature value untouched: the object must not verify under the issuer's SM2 key any more */
static void alg_relabel(const char *what, const uint8_t *obj, size_t len, const SM2_KEY *key, int sid) {
	der_cur c = { obj, len }; int tag; const uint8_t *v, *tbs, *alg, *sig; size_t vl, tl, al, sl, h, th, ah, sh; if (!der_tlv(&c, &tag, &v, &vl, &h)) return; der_cur in = { v, vl }; const uint8_t *t0 = in.p; if (!der_tlv(&in, &tag, &tbs, &tl, &th)) return; const uint8_t *a0 = in.p; if (!der_tlv(&in, &tag, &alg, &al, &ah)) return; const uint8_t *s0 = in.p; if (!der_tlv(&in, &tag, &sig, &sl, &sh)) return;
	int n = 0; for (int oid = 1; oid < 400; oid++) { if (oid == OID_sm2sign_with_sm3 || !x509_signature_algor_name(oid)) continue; uint8_t ab[64], *p = ab; size_t abl = 0; if (x509_signature_algor_to_der(oid, &p, &abl) != 1) continue; n++;
		uint8_t *body = (uint8_t *)malloc(len + 64), *m = (uint8_t *)malloc(len + 80); size_t bl = 0; memcpy(body, t0, th + tl); bl = th + tl; memcpy(body + bl, ab, abl); bl += abl; memcpy(body + bl, s0, sh + sl); bl += sh + sl; size_t ml = der_put_tlv(m, 0x30, body, bl); (void)a0;
		int r = x509_signed_verify(m, ml, key, IDS[sid].p, IDS[sid].n); vh_eval(vh_hash(obj, len, 50000 + oid));
		if (r == 1) { char k2[160]; snprintf(k2, sizeof k2, "C15:%s:verifies-with-signatureAlgorithm-relabelled:%s", what, x509_signature_algor_name(oid)); vh_viol(k2, "\"object\":\"%s\"", vh_hex(m, ml > 250 ? 250 : ml)); } free(body); free(m); }
	if (n < 5) vh_harness_error("fewer than 5 other signature algorithms found in the library's table");
}
static void bitflips(const char *what, const uint8_t *obj, size_t len, const SM2_KEY *key, int sid, int step) {
	uint8_t *m = (uint8_t *)malloc(len);
	for (size_t bit = 0; bit < len * 8; bit += step) { memcpy(m, obj, len); m[bit / 8] ^= (uint8_t)(1 << (bit % 8)); int r = x509_signed_verify(m, len, key, IDS[sid].p, IDS[sid].n); vh_eval(vh_hash(obj, len, bit + 1000));
		if (r == 1) { /* locate the region for the key */ der_cur c = { obj, len }; int tag; const uint8_t *v; size_t vl, h; const char *reg = "outer-header"; if (der_tlv(&c, &tag, &v, &vl, &h) && bit / 8 >= h) { der_cur in = { v, vl }; const uint8_t *t; size_t tl, th; size_t off = h; if (der_tlv(&in, &tag, &t, &tl, &th)) { if (bit / 8 < off + th + tl) reg = "tbs"; else { off += th + tl; if (der_tlv(&in, &tag, &t, &tl, &th)) { if (bit / 8 < off + th + tl) reg = "signatureAlgorithm"; else reg = "signatureValue"; } } } }
			char key2[128]; snprintf(key2, sizeof key2, "C15:%s:bitflip-still-verifies:%s", what, reg); vh_viol(key2, "\"bit\":%zu,\"object\":\"%s\"", bit, vh_hex(m, len > 300 ? 300 : len)); } }
	free(m);
}
static void blk_certs(void) {
	if (!vh_block_begin("certs")) return;
	static const size_t SL[] = { 1, 2, 8, 19, 20 }; static const time_t TW[][2] = { { 0, 0 }, { 2493072000, 2524607999 } /* 2049-01-01 .. 2049-12-31 */, { 2524521600, 2524694400 } /* 2049-12-31 .. 2050-01-02 */, { 2524608000, 2556143999 } /* 2050 */, { 4102444800, 4133980799 } /* 2100 */ };
	for (int si = 0; si < 5; si++) for (int hb = 0; hb < 2; hb++) for (int tw = 0; tw < 5; tw++) for (int ex = 0; ex < 8; ex++) for (int sid = 0; sid < 2; sid++) {
		if (!vh_next()) continue; if (!vh_thorough && ((si + tw + ex) % 3) && !(si == 4 && hb) && !(tw == 2)) continue;
		uint8_t serial[20]; for (size_t i = 0; i < SL[si]; i++) serial[i] = (uint8_t)(0x11 * (i + 1) + ex); serial[0] = hb ? 0x80 | serial[0] : (serial[0] & 0x7f) | 0x01;
		time_t nb = tw ? TW[tw][0] : VENV_NOW - 1000, na = tw ? TW[tw][1] : VENV_NOW + 100000; uint8_t exts[512]; size_t el = 0; int ku = X509_KU_DIGITAL_SIGNATURE | X509_KU_NON_REPUDIATION;
		if (ex & 1) x509_exts_add_key_usage(exts, &el, sizeof exts, (ex & 4) ? X509_critical : X509_non_critical, ku); if (ex & 2) x509_exts_add_basic_constraints(exts, &el, sizeof exts, X509_critical, 1, ex & 4 ? 3 : -1);
		if (ex & 4) { int kp[2] = { OID_kp_server_auth, OID_kp_client_auth }; x509_exts_add_ext_key_usage(exts, &el, sizeof exts, X509_non_critical, kp, 2); x509_exts_add_subject_key_identifier_ex(exts, &el, sizeof exts, X509_non_critical, &CK[0]); }
		static uint8_t cert[2048]; uint8_t *p = cert; size_t cl = 0; venv_reset(si * 100 + tw * 10 + ex);
		int r = x509_cert_sign_to_der(X509_version_v3, serial, SL[si], OID_sm2sign_with_sm3, NAME_I, NIL, nb, na, NAME_S, NSL, &CK[0], NULL, 0, NULL, 0, el ? exts : NULL, el, &CK[1], IDS[sid].p, IDS[sid].n, &p, &cl);
		size_t kk[5] = { (size_t)si, (size_t)hb, (size_t)tw, (size_t)ex, (size_t)sid }; vh_eval(vh_hash(kk, sizeof kk, 1));
		if (r != 1) { char key[128]; snprintf(key, sizeof key, "C15:cert:issue-refused:serial%zu%s:tw%d", SL[si], hb ? "-topbit" : "", tw); vh_viol(key, "\"ret\":%d", r); continue; }
		int ver, alg1, alg2; const uint8_t *sn, *iss, *sub, *iu, *su, *ee, *sig; size_t snl, il, sl2, iul, sul, eel, sgl; time_t gnb, gna; SM2_KEY pk;
		r = x509_cert_get_details(cert, cl, &ver, &sn, &snl, &alg1, &iss, &il, &gnb, &gna, &sub, &sl2, &pk, &iu, &iul, &su, &sul, &ee, &eel, &alg2, &sig, &sgl); vh_eval(vh_hash(kk, sizeof kk, 2)); char key[160];
		if (r != 1) { snprintf(key, sizeof key, "C15:cert:own-output-does-not-parse:serial%zu%s:tw%d:ex%d", SL[si], hb ? "-topbit" : "", tw, ex); vh_viol(key, "\"cert\":\"%s\"", vh_hex(cert, cl)); continue; }
#define FIELD(cond, name) do { if (!(cond)) { snprintf(key, sizeof key, "C15:cert:field-differs:%s", name); vh_viol(key, "\"serial_len\":%zu,\"topbit\":%d,\"tw\":%d,\"ex\":%d,\"cert\":\"%s\"", SL[si], hb, tw, ex, vh_hex(cert, cl > 250 ? 250 : cl)); } } while (0)
		FIELD(ver == X509_version_v3, "version"); { const uint8_t *a = sn; size_t al = snl; while (al > 1 && a[0] == 0) { a++; al--; } const uint8_t *b = serial; size_t bl = SL[si]; while (bl > 1 && b[0] == 0) { b++; bl--; } FIELD(al == bl && !memcmp(a, b, al), hb ? "serial-topbit" : "serial"); }
		FIELD(il == NIL && !memcmp(iss, NAME_I, NIL), "issuer"); FIELD(sl2 == NSL && !memcmp(sub, NAME_S, NSL), "subject"); FIELD(gnb == nb, tw >= 3 ? "notBefore-generalized" : "notBefore"); FIELD(gna == na, tw >= 2 ? "notAfter-generalized" : "notAfter");
		FIELD(sm2_public_key_equ(&pk, &CK[0]) == 1, "public-key"); FIELD(eel == el && (!el || !memcmp(ee, exts, el)), "extensions"); FIELD(alg1 == OID_sm2sign_with_sm3 && alg2 == alg1, "algorithm"); FIELD(iu == NULL && su == NULL, "unique-ids");
		/* the time encoding switch: UTCTime through 2049, GeneralizedTime from 2050 (RFC 5280 4.1.2.5) */
		{ int utc = 0, gen = 0; for (size_t i = 0; i + 1 < cl; i++) { if (cert[i] == 0x17 && cert[i + 1] == 0x0d) utc++; if (cert[i] == 0x18 && cert[i + 1] == 0x0f) gen++; } int wantgen = (nb >= 2524608000) + (na >= 2524608000); if (gen < wantgen || utc < 2 - wantgen) { snprintf(key, sizeof key, "C15:cert:time-type:tw%d", tw); vh_viol(key, "\"utc\":%d,\"generalized\":%d", utc, gen); } }
		verify_matrix("cert", cert, cl, &CK[1], sid); if (ex == 0 || ex == 7) alg_relabel("cert", cert, cl, &CK[1], sid);
		if ((si == 2 && tw == 0 && (ex == 0 || ex == 7)) || vh_thorough) bitflips("cert", cert, cl, &CK[1], sid, vh_thorough ? 1 : 1);
		vh_sample("{\"block\":\"certs\",\"serial_len\":%zu,\"topbit\":%d,\"window\":%d,\"exts\":%d,\"signer_id\":%d,\"certlen\":%zu}", SL[si], hb, tw, ex, sid, cl);
	}
}
/* issuerUniqueID / subjectUniqueID: absent, one of them, both with different and with equal lengths, with and without extensions: issued
   certificate hands both back exactly (value and length), and still verifies */
static void blk_unique_ids(void) {
	if (!vh_block_begin("unique-ids")) return; static const size_t UL[] = { 0, 1, 8, 12, 32 }; uint8_t iu[32], su[32]; for (int i = 0; i < 32; i++) { iu[i] = (uint8_t)(0x31 + i); su[i] = (uint8_t)(0xc1 - i); }
	for (int a = 0; a < 5; a++) for (int b = 0; b < 5; b++) for (int ex = 0; ex < 2; ex++) { if (!vh_next()) continue; uint8_t exts[128]; size_t el = 0; if (ex) x509_exts_add_key_usage(exts, &el, sizeof exts, X509_critical, X509_KU_DIGITAL_SIGNATURE);
		static uint8_t cert[2048]; uint8_t *p = cert; size_t cl = 0; uint8_t serial[3] = { 0x21, (uint8_t)a, (uint8_t)b }; venv_reset(900 + a * 10 + b);
		int r = x509_cert_sign_to_der(X509_version_v3, serial, 3, OID_sm2sign_with_sm3, NAME_I, NIL, VENV_NOW - 1000, VENV_NOW + 100000, NAME_S, NSL, &CK[0], UL[a] ? iu : NULL, UL[a], UL[b] ? su : NULL, UL[b], el ? exts : NULL, el, &CK[1], IDS[0].p, IDS[0].n, &p, &cl); size_t kk[3] = { UL[a], UL[b], (size_t)ex }; vh_eval(vh_hash(kk, sizeof kk, 61));
		if (r != 1) { vh_viol("C15:cert:unique-ids:issue-refused", "\"issuer_uid_len\":%zu,\"subject_uid_len\":%zu,\"ret\":%d", UL[a], UL[b], r); continue; }
		int ver, alg1, alg2; const uint8_t *sn, *iss, *sub, *giu = (const uint8_t *)"x", *gsu = (const uint8_t *)"x", *ee, *sig; size_t snl, il, sl2, giul = 777, gsul = 777, eel, sgl; time_t gnb, gna; SM2_KEY pk;
		r = x509_cert_get_details(cert, cl, &ver, &sn, &snl, &alg1, &iss, &il, &gnb, &gna, &sub, &sl2, &pk, &giu, &giul, &gsu, &gsul, &ee, &eel, &alg2, &sig, &sgl); vh_eval(vh_hash(kk, sizeof kk, 62));
		if (r != 1) { vh_viol("C15:cert:unique-ids:own-output-does-not-parse", "\"issuer_uid_len\":%zu,\"subject_uid_len\":%zu", UL[a], UL[b]); continue; }
		if (giul != UL[a] || (UL[a] ? (!giu || memcmp(giu, iu, UL[a])) : giu != NULL)) vh_viol("C15:cert:field-differs:issuerUniqueID", "\"supplied_len\":%zu,\"got_len\":%zu,\"other_len\":%zu,\"exts\":%d", UL[a], giul, UL[b], ex);
		if (gsul != UL[b] || (UL[b] ? (!gsu || memcmp(gsu, su, UL[b])) : gsu != NULL)) vh_viol("C15:cert:field-differs:subjectUniqueID", "\"supplied_len\":%zu,\"got_len\":%zu,\"other_len\":%zu,\"exts\":%d", UL[b], gsul, UL[a], ex);
		if (eel != el || (el && memcmp(ee, exts, el))) vh_viol("C15:cert:field-differs:extensions-with-unique-ids", "\"issuer_uid_len\":%zu,\"subject_uid_len\":%zu", UL[a], UL[b]);
		if (x509_signed_verify(cert, cl, &CK[1], IDS[0].p, IDS[0].n) != 1) vh_viol("C15:cert:unique-ids:does-not-verify", "\"issuer_uid_len\":%zu,\"subject_uid_len\":%zu", UL[a], UL[b]);
		if (a == 2 && b == 3) bitflips("cert", cert, cl, &CK[1], 0, 1);
		vh_sample("{\"block\":\"unique-ids\",\"issuer_uid_len\":%zu,\"subject_uid_len\":%zu,\"exts\":%d,\"certlen\":%zu}", UL[a], UL[b], ex, cl); }
}
/* GeneralNames: every one of the nine choices written by the library is read back by the library as the same choice with the same
   content, alone and in a list of all nine; subjectAltName carrying the list survives issuing (extension found again, names read back) */
static void blk_general_names(void) {
	if (!vh_block_begin("general-names")) return; static const char *CN[9] = { "otherName", "rfc822Name", "dNSName", "x400Address", "directoryName", "ediPartyName", "uniformResourceIdentifier", "iPAddress", "registeredID" };
	static const uint32_t oidn[] = { 1, 2, 156, 10197, 6, 1, 4, 2, 1 }; uint8_t val[] = { 0x0c, 0x03, 'a', 'b', 'c' }, x4[] = { 0x30, 0x03, 0x02, 0x01, 0x05 }, ip[4] = { 127, 0, 0, 1 };
	for (int only = -1; only < 9; only++) { if (!vh_next()) continue; uint8_t gn[1024]; size_t gl = 0; int want[9], nw = 0, r = 1;
		for (int c = 0; c < 9 && r == 1; c++) { if (only >= 0 && c != only) continue; want[nw++] = c; switch (c) {
			case 0: r = x509_general_names_add_other_name(gn, &gl, sizeof gn, oidn, 9, val, sizeof val); break; case 1: r = x509_general_names_add_general_name(gn, &gl, sizeof gn, X509_gn_rfc822_name, (const uint8_t *)"a@b.cn", 6); break;
			case 2: r = x509_general_names_add_general_name(gn, &gl, sizeof gn, X509_gn_dns_name, (const uint8_t *)"www.b.cn", 8); break; case 3: r = x509_general_names_add_general_name(gn, &gl, sizeof gn, X509_gn_x400_address, x4, sizeof x4); break;
			case 4: r = x509_general_names_add_general_name(gn, &gl, sizeof gn, X509_gn_directory_name, NAME_S, NSL); break; case 5: r = x509_general_names_add_edi_party_name(gn, &gl, sizeof gn, ASN1_TAG_PrintableString, (const uint8_t *)"assigner", 8, ASN1_TAG_UTF8String, (const uint8_t *)"party", 5); break;
			case 6: r = x509_general_names_add_general_name(gn, &gl, sizeof gn, X509_gn_uniform_resource_identifier, (const uint8_t *)"http://b.cn/x", 13); break; case 7: r = x509_general_names_add_general_name(gn, &gl, sizeof gn, X509_gn_ip_address, ip, 4); break;
			default: r = x509_general_names_add_registered_id(gn, &gl, sizeof gn, oidn, 9); break; } if (r != 1) { char key[96]; snprintf(key, sizeof key, "C15:general-names:cannot-write:%s", CN[c]); vh_viol(key, "\"ret\":%d", r); } }
		vh_eval(vh_mix(only + 9001)); if (r != 1) continue;
		/* read back, element by element */ const uint8_t *cp = gn; size_t l = gl; int got = 0, bad = 0; while (l && !bad) { int ch = -9; const uint8_t *d; size_t dl; int rr = x509_general_name_from_der(&ch, &d, &dl, &cp, &l); if (rr != 1 || got >= nw || ch != want[got]) { char key[128]; snprintf(key, sizeof key, "C15:general-names:own-output-not-read-back:%s", got < nw ? CN[want[got]] : "extra"); vh_viol(key, "\"ret\":%d,\"choice_read\":%d,\"list\":\"%s\"", rr, ch, vh_hex(gn, gl > 200 ? 200 : gl)); bad = 1; break; }
			if (want[got] == 4 && (dl != NSL || memcmp(d, NAME_S, NSL))) vh_viol("C15:general-names:content-differs:directoryName", "\"len\":%zu", dl); if (want[got] == 2 && (dl != 8 || memcmp(d, "www.b.cn", 8))) vh_viol("C15:general-names:content-differs:dNSName", "\"len\":%zu", dl); if (want[got] == 7 && (dl != 4 || memcmp(d, ip, 4))) vh_viol("C15:general-names:content-differs:iPAddress", "\"len\":%zu", dl); got++; }
		if (!bad && got != nw) vh_viol("C15:general-names:count-differs", "\"written\":%d,\"read\":%d", nw, got);
		/* inside a certificate */ uint8_t exts[1400]; size_t el = 0; if (x509_exts_add_subject_alt_name(exts, &el, sizeof exts, X509_non_critical, gn, gl) != 1) { vh_viol("C15:general-names:subjectAltName-refused", "\"only\":%d", only); continue; }
		static uint8_t cert[4096]; uint8_t *p = cert; size_t cl = 0; uint8_t serial[2] = { 0x31, (uint8_t)(only + 2) }; venv_reset(9100 + only); r = x509_cert_sign_to_der(X509_version_v3, serial, 2, OID_sm2sign_with_sm3, NAME_I, NIL, VENV_NOW - 1000, VENV_NOW + 100000, NAME_S, NSL, &CK[0], NULL, 0, NULL, 0, exts, el, &CK[1], IDS[0].p, IDS[0].n, &p, &cl);
		if (r != 1) { vh_viol("C15:general-names:certificate-refused", "\"only\":%d", only); continue; } const uint8_t *ee; size_t eel; if (x509_cert_get_exts(cert, cl, &ee, &eel) != 1 || eel != el || memcmp(ee, exts, el)) vh_viol("C15:general-names:extensions-differ", "\"only\":%d", only);
		int crit; const uint8_t *v; size_t vl; if (x509_exts_get_ext_by_oid(ee, eel, OID_ce_subject_alt_name, &crit, &v, &vl) != 1) vh_viol("C15:general-names:subjectAltName-not-found-again", "\"only\":%d", only);
		else { const uint8_t *g2; size_t g2l; if (x509_general_names_from_der(&g2, &g2l, &v, &vl) != 1 || vl || g2l != gl || memcmp(g2, gn, gl)) vh_viol("C15:general-names:subjectAltName-value-differs", "\"only\":%d", only); }
		if (x509_signed_verify(cert, cl, &CK[1], IDS[0].p, IDS[0].n) != 1) vh_viol("C15:general-names:certificate-does-not-verify", "\"only\":%d", only);
		vh_sample("{\"block\":\"general-names\",\"choices\":\"%s\",\"names_len\":%zu}", only < 0 ? "all nine" : CN[only], gl); }
}
/* CONTENT of extensions as issued and read back through the library's own readers: authorityKeyIdentifier (keyIdentifier, authorityCertIssuer,
   authorityCertSerialNumber with every leading-octet class and length), basicConstraints, keyUsage (every single bit and all), extKeyUsage,
   policyConstraints, inhibitAnyPolicy */
static const uint8_t *ext_value(const uint8_t *exts, size_t el, int oid, size_t *vl, const char *what) { int crit; const uint8_t *v; if (x509_exts_get_ext_by_oid(exts, el, oid, &crit, &v, vl) != 1) { char k[96]; snprintf(k, sizeof k, "C15:ext-content:%s:not-found-again", what); vh_viol(k, "\"oid\":%d", oid); return NULL; } return v; }
static void blk_ext_content(void) {
	if (!vh_block_begin("extension-content")) return; static const uint8_t LEAD[] = { 0x01, 0x7f, 0x80, 0xff }; static const size_t SL[] = { 1, 2, 8, 19, 20 }; uint8_t kid[20]; for (int i = 0; i < 20; i++) kid[i] = (uint8_t)(0xe1 - 7 * i);
	uint8_t gn[300]; size_t gl = 0; x509_general_names_add_general_name(gn, &gl, sizeof gn, X509_gn_directory_name, NAME_I, NIL); x509_general_names_add_general_name(gn, &gl, sizeof gn, X509_gn_uniform_resource_identifier, (const uint8_t *)"http://b.cn/ca", 14);
	for (int le = 0; le < 4; le++) for (int si = 0; si < 5; si++) for (int parts = 1; parts < 8; parts++) { if (!vh_next()) continue; if (!vh_thorough && parts != 7 && parts != 4 && !(le == 2 && si == 4)) continue; uint8_t ser[20]; for (size_t i = 0; i < SL[si]; i++) ser[i] = (uint8_t)(0x11 * (i + 1)); ser[0] = LEAD[le];
		uint8_t ex[1024]; size_t el = 0; int r = x509_exts_add_authority_key_identifier(ex, &el, sizeof ex, X509_non_critical, (parts & 1) ? kid : NULL, (parts & 1) ? 20 : 0, (parts & 2) ? gn : NULL, (parts & 2) ? gl : 0, (parts & 4) ? ser : NULL, (parts & 4) ? SL[si] : 0); size_t kk[3] = { (size_t)le, SL[si], (size_t)parts }; vh_eval(vh_hash(kk, sizeof kk, 71));
		if (r != 1) { vh_viol("C15:ext-content:authorityKeyIdentifier:refused", "\"parts\":%d,\"serial_len\":%zu,\"lead\":%d", parts, SL[si], LEAD[le]); continue; }
		size_t vl; const uint8_t *v = ext_value(ex, el, OID_ce_authority_key_identifier, &vl, "authorityKeyIdentifier"); if (!v) continue; const uint8_t *gk = (const uint8_t *)"x", *gi = gk, *gs = gk; size_t gkl = 77, gil = 77, gsl = 77;
		r = x509_authority_key_identifier_from_der(&gk, &gkl, &gi, &gil, &gs, &gsl, &v, &vl); if (r != 1 || vl) { vh_viol("C15:ext-content:authorityKeyIdentifier:own-output-does-not-parse", "\"parts\":%d,\"ret\":%d", parts, r); continue; }
		if ((parts & 1) ? (gkl != 20 || memcmp(gk, kid, 20)) : (gk != NULL || gkl)) vh_viol("C15:ext-content:authorityKeyIdentifier:keyIdentifier-differs", "\"parts\":%d,\"got_len\":%zu", parts, gkl);
		if ((parts & 2) ? (gil != gl || memcmp(gi, gn, gl)) : (gi != NULL || gil)) vh_viol("C15:ext-content:authorityKeyIdentifier:authorityCertIssuer-differs", "\"parts\":%d,\"got_len\":%zu,\"want_len\":%zu", parts, gil, gl);
		if (parts & 4) { const uint8_t *a = gs; size_t al = gsl; while (al > 1 && a && a[0] == 0 && !(SL[si] == al)) { a++; al--; } if (!gs || gsl != SL[si] || memcmp(gs, ser, SL[si])) vh_viol("C15:ext-content:authorityKeyIdentifier:authorityCertSerialNumber-differs", "\"supplied\":\"%s\",\"got\":\"%s\"", vh_hex(ser, SL[si]), gs ? vh_hex(gs, gsl > 30 ? 30 : gsl) : "(null)"); (void)a; (void)al; } else if (gs != NULL || gsl) vh_viol("C15:ext-content:authorityKeyIdentifier:authorityCertSerialNumber-differs", "\"supplied\":\"none\",\"got_len\":%zu", gsl);
		vh_sample("{\"block\":\"extension-content\",\"aki_parts\":%d,\"serial_len\":%zu,\"serial_lead\":%d}", parts, SL[si], LEAD[le]); }
	/* nameConstraints: permitted only, excluded only, both (the two lists are distinguished by their context tags only) */
	{ uint8_t s1[300], s2[300], *w1 = s1, *w2 = s2; size_t l1 = 0, l2 = 0; x509_general_subtree_to_der(X509_gn_dns_name, (const uint8_t *)".b.cn", 5, 0, -1, &w1, &l1); x509_general_subtree_to_der(X509_gn_directory_name, NAME_I, NIL, 0, -1, &w1, &l1); x509_general_subtree_to_der(X509_gn_rfc822_name, (const uint8_t *)"x@y.cn", 6, 0, -1, &w2, &l2);
	  for (int which = 1; which <= 3; which++) for (int crit = 0; crit < 2; crit++) { if (!vh_next()) continue; uint8_t ex[1024]; size_t el = 0; int r = x509_exts_add_name_constraints(ex, &el, sizeof ex, crit ? X509_critical : X509_non_critical, (which & 1) ? s1 : NULL, (which & 1) ? l1 : 0, (which & 2) ? s2 : NULL, (which & 2) ? l2 : 0); vh_eval(vh_mix(which * 2 + crit + 7501));
		if (r != 1) { vh_viol("C15:ext-content:nameConstraints:refused", "\"which\":%d", which); continue; } size_t vl; const uint8_t *v = ext_value(ex, el, OID_ce_name_constraints, &vl, "nameConstraints"); if (!v) continue; const uint8_t *gp = (const uint8_t *)"x", *ge = gp; size_t gpl = 77, gel = 77;
		r = x509_name_constraints_from_der(&gp, &gpl, &ge, &gel, &v, &vl); if (r != 1 || vl) { vh_viol("C15:ext-content:nameConstraints:own-output-does-not-parse", "\"which\":%d,\"ret\":%d", which, r); continue; }
		if ((which & 1) ? (gpl != l1 || memcmp(gp, s1, l1)) : (gp != NULL || gpl)) vh_viol("C15:ext-content:nameConstraints:permittedSubtrees-differs", "\"which\":%d,\"got_len\":%zu,\"want_len\":%zu", which, gpl, (which & 1) ? l1 : (size_t)0);
		if ((which & 2) ? (gel != l2 || memcmp(ge, s2, l2)) : (ge != NULL || gel)) vh_viol("C15:ext-content:nameConstraints:excludedSubtrees-differs", "\"which\":%d,\"got_len\":%zu,\"want_len\":%zu", which, gel, (which & 2) ? l2 : (size_t)0); } }
	/* basicConstraints x keyUsage x extKeyUsage x policyConstraints x inhibitAnyPolicy */
	for (int ca = 0; ca < 2; ca++) for (int pl = -1; pl <= 6; pl += (pl < 1 ? 1 : 5)) for (int kb = 0; kb <= 9; kb++) { if (!vh_next()) continue; if (!ca && pl >= 0) continue; uint8_t ex[512]; size_t el = 0; int ku = kb == 9 ? 0x1ff : (1 << kb); int kp[3] = { OID_kp_client_auth, OID_kp_server_auth, OID_kp_ocsp_signing };
		int r = x509_exts_add_basic_constraints(ex, &el, sizeof ex, X509_critical, ca, pl) == 1 && x509_exts_add_key_usage(ex, &el, sizeof ex, X509_critical, ku) == 1 && x509_exts_add_ext_key_usage(ex, &el, sizeof ex, X509_non_critical, kp, 1 + kb % 3) == 1 && x509_exts_add_policy_constraints(ex, &el, sizeof ex, X509_critical, kb % 4, pl < 0 ? -1 : pl + 1) == 1 && x509_exts_add_inhibit_any_policy(ex, &el, sizeof ex, X509_critical, kb) == 1;
		size_t kk[3] = { (size_t)ca, (size_t)(pl + 1), (size_t)kb }; vh_eval(vh_hash(kk, sizeof kk, 73)); if (!r) { vh_viol("C15:ext-content:refused", "\"ca\":%d,\"pathlen\":%d,\"ku\":%d", ca, pl, ku); continue; } size_t vl; const uint8_t *v;
		if ((v = ext_value(ex, el, OID_ce_basic_constraints, &vl, "basicConstraints"))) { int gca = -7, gpl = -7; if (x509_basic_constraints_from_der(&gca, &gpl, &v, &vl) != 1 || vl || (gca > 0) != ca || gpl != pl) vh_viol("C15:ext-content:basicConstraints-differs", "\"ca\":%d,\"pathlen\":%d,\"got_ca\":%d,\"got_pathlen\":%d", ca, pl, gca, gpl); }
		if ((v = ext_value(ex, el, OID_ce_key_usage, &vl, "keyUsage"))) { int g = -7; if (x509_key_usage_from_der(&g, &v, &vl) != 1 || vl || g != ku) vh_viol("C15:ext-content:keyUsage-differs", "\"bits\":%d,\"got\":%d", ku, g); }
		if ((v = ext_value(ex, el, OID_ce_ext_key_usage, &vl, "extKeyUsage"))) { int g[8]; size_t gc = 99; if (x509_ext_key_usage_from_der(g, &gc, 8, &v, &vl) != 1 || vl || gc != (size_t)(1 + kb % 3) || memcmp(g, kp, gc * sizeof(int))) vh_viol("C15:ext-content:extKeyUsage-differs", "\"count\":%d,\"got_count\":%zu", 1 + kb % 3, gc); }
		if ((v = ext_value(ex, el, OID_ce_policy_constraints, &vl, "policyConstraints"))) { int a = -7, b = -7; if (x509_policy_constraints_from_der(&a, &b, &v, &vl) != 1 || vl || a != kb % 4 || b != (pl < 0 ? -1 : pl + 1)) vh_viol("C15:ext-content:policyConstraints-differs", "\"require\":%d,\"inhibit\":%d,\"got\":[%d,%d]", kb % 4, pl < 0 ? -1 : pl + 1, a, b); }
		if ((v = ext_value(ex, el, OID_ce_inhibit_any_policy, &vl, "inhibitAnyPolicy"))) { int g = -7; if (x509_inhibit_any_policy_from_der(&g, &v, &vl) != 1 || vl || g != kb) vh_viol("C15:ext-content:inhibitAnyPolicy-differs", "\"skip\":%d,\"got\":%d", kb, g); } }
}
static void blk_reqs(void) {
	if (!vh_block_begin("reqs")) return;
	for (int sid = 0; sid < 4; sid++) for (int nm = 0; nm < 3; nm++) { if (!vh_next()) continue; uint8_t subj[256]; size_t sl = 0; x509_name_set(subj, &sl, sizeof subj, "CN", nm ? "Beijing" : NULL, NULL, nm == 2 ? "Org" : NULL, NULL, "req");
		static uint8_t req[1024]; uint8_t *p = req; size_t rl = 0; venv_reset(sid + 10 * nm); char *idb = (char *)malloc(IDS[sid].n); memcpy(idb, IDS[sid].p, IDS[sid].n);
		int r = x509_req_sign_to_der(X509_version_v1, subj, sl, &CK[0], (const uint8_t *)"", 0, OID_sm2sign_with_sm3, &CK[0], idb, IDS[sid].n, &p, &rl); vh_eval(vh_mix(sid * 10 + nm + 1)); if (r != 1) { vh_viol("C15:req:issue-refused", "\"sid\":%d", sid); free(idb); continue; }
		int ver, alg; const uint8_t *gs, *at, *sg; size_t gsl, atl, sgl; SM2_KEY pk; r = x509_req_get_details(req, rl, &ver, &gs, &gsl, &pk, &at, &atl, &alg, &sg, &sgl); vh_eval(vh_mix(sid * 10 + nm + 101));
		if (r != 1 || ver != X509_version_v1 || gsl != sl || memcmp(gs, subj, sl) || sm2_public_key_equ(&pk, &CK[0]) != 1 || alg != OID_sm2sign_with_sm3) vh_viol("C15:req:field-differs", "\"req\":\"%s\"", vh_hex(req, rl));
		for (int i = 0; i < 4; i++) { char *vb = (char *)malloc(IDS[i].n); memcpy(vb, IDS[i].p, IDS[i].n); r = x509_req_verify(req, rl, vb, IDS[i].n); free(vb); vh_eval(vh_mix(sid * 100 + nm * 10 + i + 201)); if ((r == 1) != (i == sid)) { char key[128]; snprintf(key, sizeof key, "C15:req:verify-id-matrix:%s:id=%d-signed-under-%d", r == 1 ? "accepted" : "rejected", i, sid); vh_viol(key, "\"x\":1"); } }
		verify_matrix("req", req, rl, &CK[0], sid); alg_relabel("req", req, rl, &CK[0], sid); if (sid < 2 && nm == 0) bitflips("req", req, rl, &CK[0], sid, 1); free(idb); 
		/* a request whose subject key is NOT the signing key (the API takes the two separately): it must carry the subject key as given, and -
		   being signed by somebody else - must not verify as a proof of possession */
		{ static uint8_t rq2[1024]; uint8_t *p2 = rq2; size_t r2l = 0; venv_reset(77 + sid); char *id2 = (char *)malloc(IDS[sid].n); memcpy(id2, IDS[sid].p, IDS[sid].n); int r2 = x509_req_sign_to_der(X509_version_v1, subj, sl, &CK[1], (const uint8_t *)"", 0, OID_sm2sign_with_sm3, &CK[0], id2, IDS[sid].n, &p2, &r2l); vh_eval(vh_mix(sid * 10 + nm + 301));
			if (r2 == 1) { SM2_KEY pk2; r2 = x509_req_get_details(rq2, r2l, &ver, &gs, &gsl, &pk2, &at, &atl, &alg, &sg, &sgl); if (r2 != 1 || sm2_public_key_equ(&pk2, &CK[1]) != 1) vh_viol("C15:req:subject-key-not-the-one-supplied", "\"req\":\"%s\"", vh_hex(rq2, r2l)); if (x509_req_verify(rq2, r2l, id2, IDS[sid].n) == 1) vh_viol("C15:req:verifies-although-signed-by-another-key", "\"sid\":%d", sid); } else vh_obs("x509_req_sign_to_der refuses a subject key different from the signing key"); free(id2); } }
}
static void blk_crls(void) {
	if (!vh_block_begin("crls")) return;
	static const struct { uint8_t b[4]; size_t n; } SER[] = { { { 0x01 }, 1 }, { { 0x01, 0x02 }, 2 }, { { 0x01, 0x02, 0x03 }, 3 }, { { 0x02 }, 1 }, { { 0x01, 0x02, 0x04 }, 3 }, { { 0x00, 0x01 }, 2 }, { { 0x02, 0x01 }, 2 } };
	for (int mask = 0; mask < 16; mask++) for (int sid = 0; sid < 2; sid++) for (int nua = 0; nua < 3; nua++) { /* nua: nextUpdate present / absent / absent and no CRL extensions either */ if (!vh_next()) continue; uint8_t rev[512]; uint8_t *rp = rev; size_t rvl = 0; time_t rd = VENV_NOW - 5000; time_t NU = nua ? (time_t)-1 : VENV_NOW + 86400;
		for (int i = 0; i < 4; i++) if (mask & (1 << i)) { if (x509_revoked_cert_to_der(SER[i].b, SER[i].n, rd + i, NULL, 0, &rp, &rvl) != 1) vh_harness_error("revoked_cert_to_der"); }
		static uint8_t crl[2048]; uint8_t *p = crl; size_t cl = 0; venv_reset(mask + 50 * sid); uint8_t exts[128]; size_t el = 0; if (nua < 2) x509_crl_exts_add_crl_number(exts, &el, sizeof exts, X509_non_critical, mask + 1);
		int r = x509_crl_sign_to_der(X509_version_v2, OID_sm2sign_with_sm3, NAME_I, NIL, VENV_NOW - 100, NU, rvl ? rev : NULL, rvl, el ? exts : NULL, el, &CK[1], IDS[sid].p, IDS[sid].n, &p, &cl); vh_eval(vh_mix(mask * 6 + sid * 3 + nua + 1));
		if (r != 1) { char key[96]; snprintf(key, sizeof key, "C15:crl:issue-refused:%s%s", mask ? "nonempty" : "empty", nua ? ":without-nextUpdate" : ""); vh_viol(key, "\"mask\":%d,\"ret\":%d", mask, r); continue; }
		int ver, a1, a2; const uint8_t *iss, *rv, *ex, *sg; size_t il, rl2, exl, sgl; time_t tu = 1111, nu = 2222 /* stale values of the caller */; r = x509_crl_get_details(crl, cl, &ver, &a1, &iss, &il, &tu, &nu, &rv, &rl2, &ex, &exl, &a2, &sg, &sgl); vh_eval(vh_mix(mask * 2 + sid + 101));
		if (r != 1 || ver != X509_version_v2 || il != NIL || memcmp(iss, NAME_I, NIL) || tu != VENV_NOW - 100 || nu != NU || rl2 != rvl || (rvl && memcmp(rv, rev, rvl)) || exl != el || memcmp(ex, exts, el)) { vh_viol(nua && r == 1 && nu != NU ? "C15:crl:field-differs:absent-nextUpdate-reported-as-a-time" : "C15:crl:field-differs", "\"mask\":%d,\"ret\":%d,\"next_update_reported\":%lld,\"crl\":\"%s\"", mask, r, (long long)nu, vh_hex(crl, cl > 250 ? 250 : cl)); }
		/* every serial queried against this CRL */
		for (int q = 0; q < 7; q++) { time_t d; const uint8_t *ee; size_t eel; r = x509_crl_find_revoked_cert_by_serial_number(crl, cl, SER[q].b, SER[q].n, &d, &ee, &eel); int want = q < 4 && (mask & (1 << q)); vh_eval(vh_mix(mask * 100 + q + 201));
			if ((r == 1) != want) { char key[128]; snprintf(key, sizeof key, "C15:crl:lookup:%s:serial=%s", r == 1 ? "reported-revoked-but-not-listed" : "listed-but-not-reported", vh_hex(SER[q].b, SER[q].n)); vh_viol(key, "\"mask\":%d,\"ret\":%d", mask, r); }
			else if (r == 1 && d != rd + q) vh_viol("C15:crl:lookup:wrong-revocation-date", "\"mask\":%d,\"q\":%d", mask, q); }
		r = x509_signed_verify(crl, cl, &CK[1], IDS[sid].p, IDS[sid].n); vh_eval(vh_mix(mask * 2 + sid + 301)); if (r != 1) vh_viol("C15:crl:verify-own", "\"mask\":%d", mask);
		if (nua == 0) { verify_matrix("crl", crl, cl, &CK[1], sid); alg_relabel("crl", crl, cl, &CK[1], sid); } if ((mask == 5 || mask == 0) && nua < 2) bitflips("crl", crl, cl, &CK[1], sid, 1);
		vh_sample("{\"block\":\"crls\",\"listed_mask\":%d,\"signer_id\":%d,\"next_update\":\"%s\",\"crllen\":%zu}", mask, sid, nua ? "absent" : "present", cl); }
}
/* revoked entries WITH and WITHOUT entry extensions in one list, every with/without pattern over four entries and both listing orders: each lookup must
   report exactly the entry that was supplied (date, reason code, invalidity date, or no extensions at all) -- never a neighbour's */
static void blk_crl_entry_exts(void) {
	if (!vh_block_begin("crl-entry-extensions")) return;
	static const struct { uint8_t b[4]; size_t n; } SER[] = { { { 0x11 }, 1 }, { { 0x11, 0x02 }, 2 }, { { 0x7f, 0x02, 0x03 }, 3 }, { { 0x22 }, 1 } }; static const int RS[4] = { 1, 3, 5, 9 };
	for (int em = 0; em < 16; em++) for (int order = 0; order < 2; order++) for (int nent = 1; nent <= 4; nent += 3) { if (!vh_next()) continue; uint8_t rev[1024]; uint8_t *rp = rev; size_t rvl = 0; time_t rd = VENV_NOW - 7000; if (nent == 1 && (em > 1 || order)) continue;
		for (int j = 0; j < nent; j++) { int i = order ? nent - 1 - j : j; int withx = (em >> i) & 1; int r = withx ? x509_revoked_cert_to_der_ex(SER[i].b, SER[i].n, rd + i, RS[i], rd - 1000 * (i + 1), NULL, 0, &rp, &rvl) : x509_revoked_cert_to_der(SER[i].b, SER[i].n, rd + i, NULL, 0, &rp, &rvl); if (r != 1) vh_harness_error("revoked entry"); }
		static uint8_t crl[4096]; uint8_t *p = crl; size_t cl = 0; venv_reset(900 + em * 2 + order); uint8_t exts[128]; size_t el = 0; x509_crl_exts_add_crl_number(exts, &el, sizeof exts, X509_non_critical, em + 1);
		int r = x509_crl_sign_to_der(X509_version_v2, OID_sm2sign_with_sm3, NAME_I, NIL, VENV_NOW - 100, VENV_NOW + 86400, rev, rvl, exts, el, &CK[1], IDS[0].p, IDS[0].n, &p, &cl); vh_eval(vh_mix(em * 8 + order * 4 + nent + 7001));
		if (r != 1) { vh_viol("C15:crl-entry-extensions:issue-refused", "\"ext_mask\":%d,\"order\":%d,\"ret\":%d", em, order, r); continue; }
		if (x509_signed_verify(crl, cl, &CK[1], IDS[0].p, IDS[0].n) != 1) vh_viol("C15:crl-entry-extensions:verify-own", "\"ext_mask\":%d", em);
		for (int q = 0; q < nent; q++) { time_t d = 0; const uint8_t *ee = (const uint8_t *)"stale"; size_t eel = 5; r = x509_crl_find_revoked_cert_by_serial_number(crl, cl, SER[q].b, SER[q].n, &d, &ee, &eel); int withx = (em >> q) & 1; vh_eval(vh_mix(em * 64 + order * 32 + nent * 4 + q + 7201)); char key[160];
			if (r != 1 || d != rd + q) { vh_viol("C15:crl-entry-extensions:lookup", "\"ext_mask\":%d,\"order\":%d,\"entry\":%d,\"ret\":%d", em, order, q, r); continue; }
			if (!withx) { if (ee != NULL || eel != 0) { snprintf(key, sizeof key, "C15:crl-entry-extensions:entry-without-extensions-reported-with-%s", eel == 5 && ee && !memcmp(ee, "stale", 5) ? "the-callers-previous-values" : "extensions"); vh_viol(key, "\"ext_mask\":%d,\"order\":%d,\"entry\":%d,\"reported\":\"%s\"", em, order, q, vh_hex(ee, eel > 60 ? 60 : eel)); } continue; }
			int reason = -2; time_t inv = -2; const uint8_t *ci; size_t cil; if (!ee || !eel || x509_crl_entry_exts_get(ee, eel, &reason, &inv, &ci, &cil) != 1 || reason != RS[q] || inv != rd - 1000 * (q + 1) || ci || cil) vh_viol("C15:crl-entry-extensions:entry-extensions-differ-from-the-supplied-ones", "\"ext_mask\":%d,\"order\":%d,\"entry\":%d,\"reason\":%d,\"want_reason\":%d", em, order, q, reason, RS[q]); }
		/* the walk over the list (x509_revoked_cert_from_der with the same output variables for every entry, as the library's own loops do) */
		{ const uint8_t *rv, *iss, *ex, *sg; size_t rl2, il, exl, sgl; int ver, a1, a2; time_t tu, nu; if (x509_crl_get_details(crl, cl, &ver, &a1, &iss, &il, &tu, &nu, &rv, &rl2, &ex, &exl, &a2, &sg, &sgl) == 1) { const uint8_t *sn = NULL, *ee = NULL; size_t snl = 0, eel = 0; time_t d; int j = 0;
			while (rl2 && j < nent) { if (x509_revoked_cert_from_der(&sn, &snl, &d, &ee, &eel, &rv, &rl2) != 1) { vh_viol("C15:crl-entry-extensions:walk-failed", "\"ext_mask\":%d,\"order\":%d,\"at\":%d", em, order, j); break; } int i = order ? nent - 1 - j : j; int withx = (em >> i) & 1; vh_eval(vh_mix(em * 64 + order * 32 + nent * 4 + j + 7601));
				if (snl != SER[i].n || memcmp(sn, SER[i].b, snl) || d != rd + i || (withx ? (!ee || !eel) : (ee || eel))) { vh_viol("C15:crl-entry-extensions:walk-reports-another-entrys-fields", "\"ext_mask\":%d,\"order\":%d,\"position\":%d,\"has_extensions\":%d,\"reported_len\":%zu", em, order, j, withx, eel); break; } j++; } } }
		vh_sample("{\"block\":\"crl-entry-extensions\",\"ext_mask\":%d,\"order\":%d,\"entries\":%d,\"crllen\":%zu}", em, order, nent, cl); }
}
/* extension builders are appenders: for every builder B and every position (first, second, third element of the list) the list after the call is the list before it
   followed by exactly what B writes into an empty list, the reported length grows by exactly that much, and octets behind the new end are untouched */
typedef int (*bld_f)(uint8_t *exts, size_t *el, size_t max);
static uint8_t B_KID[20], B_GN[64]; static size_t B_GNL; static SM2_KEY *B_KEY;
static int b_aki(uint8_t *e, size_t *l, size_t m) { return x509_exts_add_authority_key_identifier(e, l, m, X509_non_critical, B_KID, 20, NULL, 0, NULL, 0); }
static int b_aki_def(uint8_t *e, size_t *l, size_t m) { return x509_exts_add_default_authority_key_identifier(e, l, m, B_KEY); }
static int b_ski(uint8_t *e, size_t *l, size_t m) { return x509_exts_add_subject_key_identifier(e, l, m, X509_non_critical, B_KID, 20); }
static int b_ski_ex(uint8_t *e, size_t *l, size_t m) { return x509_exts_add_subject_key_identifier_ex(e, l, m, X509_non_critical, B_KEY); }
static int b_ku(uint8_t *e, size_t *l, size_t m) { return x509_exts_add_key_usage(e, l, m, X509_critical, X509_KU_DIGITAL_SIGNATURE | X509_KU_KEY_CERT_SIGN); }
static int b_san(uint8_t *e, size_t *l, size_t m) { return x509_exts_add_subject_alt_name(e, l, m, X509_non_critical, B_GN, B_GNL); }
static int b_ian(uint8_t *e, size_t *l, size_t m) { return x509_exts_add_issuer_alt_name(e, l, m, X509_non_critical, B_GN, B_GNL); }
static int b_pc(uint8_t *e, size_t *l, size_t m) { return x509_exts_add_policy_constraints(e, l, m, X509_critical, 2, 3); }
static int b_bc(uint8_t *e, size_t *l, size_t m) { return x509_exts_add_basic_constraints(e, l, m, X509_critical, 1, 2); }
static int b_eku(uint8_t *e, size_t *l, size_t m) { int kp[2] = { OID_kp_server_auth, OID_kp_client_auth }; return x509_exts_add_ext_key_usage(e, l, m, X509_non_critical, kp, 2); }
static int b_cdp(uint8_t *e, size_t *l, size_t m) { return x509_exts_add_crl_distribution_points(e, l, m, X509_non_critical, "http://a.example/c.crl", 22, NULL, 0); }
static int b_iap(uint8_t *e, size_t *l, size_t m) { return x509_exts_add_inhibit_any_policy(e, l, m, X509_critical, 4); }
static int b_aia(uint8_t *e, size_t *l, size_t m) { return x509_exts_add_authority_info_access(e, l, m, X509_non_critical, "http://a.example/ca.crt", 23, "http://a.example/ocsp", 21); }
static int b_crlnum(uint8_t *e, size_t *l, size_t m) { return x509_crl_exts_add_crl_number(e, l, m, X509_non_critical, 77); }
static int b_delta(uint8_t *e, size_t *l, size_t m) { return x509_crl_exts_add_delta_crl_indicator(e, l, m, X509_critical, 5); }
static int b_crl_aki(uint8_t *e, size_t *l, size_t m) { return x509_crl_exts_add_authority_key_identifier(e, l, m, X509_non_critical, B_KID, 20, NULL, 0, NULL, 0); }
static int b_crl_aki_def(uint8_t *e, size_t *l, size_t m) { return x509_crl_exts_add_default_authority_key_identifier(e, l, m, B_KEY); }
static int b_crl_ian(uint8_t *e, size_t *l, size_t m) { return x509_crl_exts_add_issuer_alt_name(e, l, m, X509_non_critical, B_GN, B_GNL); }
static int b_crl_fresh(uint8_t *e, size_t *l, size_t m) { return x509_crl_exts_add_freshest_crl(e, l, m, X509_non_critical, "http://a.example/d.crl", 22, NULL, 0); }
static int b_crl_aia(uint8_t *e, size_t *l, size_t m) { return x509_crl_exts_add_authority_info_acess(e, l, m, X509_non_critical, "http://a.example/ca.crt", 23, NULL, 0); }
static const struct { const char *name; bld_f f; } BLD[] = { { "authority_key_identifier", b_aki }, { "default_authority_key_identifier", b_aki_def }, { "subject_key_identifier", b_ski }, { "subject_key_identifier_ex", b_ski_ex }, { "key_usage", b_ku }, { "subject_alt_name", b_san }, { "issuer_alt_name", b_ian }, { "policy_constraints", b_pc }, { "basic_constraints", b_bc }, { "ext_key_usage", b_eku }, { "crl_distribution_points", b_cdp }, { "inhibit_any_policy", b_iap }, { "authority_info_access", b_aia },
	{ "crl_number", b_crlnum }, { "delta_crl_indicator", b_delta }, { "crl_authority_key_identifier", b_crl_aki }, { "crl_default_authority_key_identifier", b_crl_aki_def }, { "crl_issuer_alt_name", b_crl_ian }, { "crl_freshest_crl", b_crl_fresh }, { "crl_authority_info_access", b_crl_aia } };
#define NBLD ((int)(sizeof BLD / sizeof BLD[0]))
static void blk_builders(void) {
	if (!vh_block_begin("extension-builders-append")) return; for (int i = 0; i < 20; i++) B_KID[i] = (uint8_t)(0xc0 + i); B_KEY = &CK[3]; B_GNL = 0; if (x509_general_names_add_dns_name(B_GN, &B_GNL, sizeof B_GN, "host.example") != 1) vh_harness_error("general name");
	for (int b = 0; b < NBLD; b++) for (int p1 = -1; p1 < NBLD; p1++) { if (!vh_next()) continue; if (p1 == b) continue; /* prefix list: empty (p1 = -1), one other extension, or that one plus key_usage-or-basic_constraints */
		for (int two = 0; two < (p1 < 0 ? 1 : 2); two++) { uint8_t alone[600], list[1600], before[1600]; size_t al = 0, ll = 0; memset(alone, 0, sizeof alone); if (BLD[b].f(alone, &al, sizeof alone) != 1) { if (p1 < 0) vh_obs("builder %s refuses its sample arguments", BLD[b].name); continue; }
			memset(list, 0xEE, sizeof list); if (p1 >= 0 && BLD[p1].f(list, &ll, sizeof list) != 1) continue; if (two) { int q = (b == 4 || p1 == 4) ? 8 : 4; if (q == b || q == p1) continue; if (BLD[q].f(list, &ll, sizeof list) != 1) continue; }
			memcpy(before, list, sizeof list); size_t l0 = ll; int r = BLD[b].f(list, &ll, sizeof list); int kk[3] = { b, p1, two }; vh_eval(vh_hash(kk, sizeof kk, 881)); char key[200];
			if (r != 1) { snprintf(key, sizeof key, "C15:extension-builders:%s:refuses-a-non-empty-list", BLD[b].name); vh_viol(key, "\"after\":\"%s\",\"elements_before\":%d", p1 < 0 ? "" : BLD[p1].name, p1 < 0 ? 0 : 1 + two); continue; }
			if (ll != l0 + al || memcmp(list, before, l0) || memcmp(list + l0, alone, al) || memcmp(list + l0 + al, before + l0 + al, sizeof list - l0 - al)) { snprintf(key, sizeof key, "C15:extension-builders:%s:does-not-append", BLD[b].name); vh_viol(key, "\"after\":\"%s\",\"elements_before\":%d,\"len_before\":%zu,\"len_after\":%zu,\"own_len\":%zu,\"prefix_intact\":%d", p1 < 0 ? "" : BLD[p1].name, p1 < 0 ? 0 : 1 + two, l0, ll, al, !memcmp(list, before, l0)); } }
		if (p1 < 0) vh_sample("{\"block\":\"extension-builders-append\",\"builder\":\"%s\"}", BLD[b].name); }
}
/* UserNotice (certificatePolicies qualifier): the writer accepts a notice reference, an explicit text, or both; reading it back into variables that hold the values of a
   previously read notice must report exactly what was written - an absent part as absent (NULL / 0), not as the previous notice's */
static void blk_user_notice(void) {
	if (!vh_block_begin("user-notice")) return; static const uint8_t ORG[] = "Example Org", TXT[] = "explicit text"; static const int NUMS[3] = { 1, 7, 300 };
	for (int form = 1; form < 4; form++) for (int nn = 0; nn < 2; nn++) { if (!vh_next()) continue; int ref = form & 1, txt = (form & 2) != 0; if (!ref && nn) continue; uint8_t der[200], *p = der; size_t dl = 0;
		int r = x509_user_notice_to_der(ASN1_TAG_UTF8String, ref ? ORG : NULL, ref ? sizeof ORG - 1 : 0, ref ? NUMS : NULL, ref ? (nn ? 3 : 1) : 0, ASN1_TAG_UTF8String, txt ? TXT : NULL, txt ? sizeof TXT - 1 : 0, &p, &dl); vh_eval(vh_mix(form * 2 + nn + 660001)); char key[160];
		if (r != 1) { snprintf(key, sizeof key, "C15:user-notice:writer-refuses:%s%s", ref ? "reference" : "", txt ? "+text" : ""); vh_viol(key, "\"ret\":%d", r); continue; }
		/* caller's variables hold a previous notice */ int otag = ASN1_TAG_IA5String, ttag = ASN1_TAG_IA5String; const uint8_t *org = (const uint8_t *)"stale-org", *tx = (const uint8_t *)"stale-text"; size_t ol = 9, txl = 10; int nums[8] = { 99, 98, 97, 96, 95, 94, 93, 92 }; size_t cnt = 5; const uint8_t *cp = der; size_t il = dl;
		r = x509_user_notice_from_der(&otag, &org, &ol, nums, &cnt, 8, &ttag, &tx, &txl, &cp, &il); vh_eval(vh_mix(form * 2 + nn + 660011));
		if (r != 1 || il) { snprintf(key, sizeof key, "C15:user-notice:own-encoding-refused"); vh_viol(key, "\"form\":%d,\"ret\":%d", form, r); continue; }
		int bad = 0; if (ref) { if (ol != sizeof ORG - 1 || memcmp(org, ORG, ol) || cnt != (size_t)(nn ? 3 : 1) || nums[0] != 1 || (nn && (nums[1] != 7 || nums[2] != 300))) bad |= 1; } else if (org != NULL || ol != 0 || cnt != 0) bad |= 2;
		if (txt) { if (txl != sizeof TXT - 1 || memcmp(tx, TXT, txl)) bad |= 4; } else if (tx != NULL || txl != 0) bad |= 8;
		if (bad) { snprintf(key, sizeof key, "C15:user-notice:%s", (bad & 10) ? "absent-part-reported-with-the-callers-previous-values" : "field-differs"); vh_viol(key, "\"reference_written\":%d,\"text_written\":%d,\"mask\":%d,\"org_len\":%zu,\"numbers\":%zu,\"text_len\":%zu", ref, txt, bad, ol, cnt, txl); }
		vh_sample("{\"block\":\"user-notice\",\"reference\":%d,\"numbers\":%d,\"text\":%d,\"derlen\":%zu}", ref, ref ? (nn ? 3 : 1) : 0, txt, dl); }
}
/* extension values of every size around the DER length-form boundaries (127/128, 255/256): issued certificate must carry a well-formed
   extension block in which every extension supplied is found again, with its criticality and exactly its value */
static void blk_ext_sizes(void) {
	if (!vh_block_begin("extension-sizes")) return; static char dns[400]; for (int i = 0; i < 400; i++) dns[i] = (char)('a' + i % 26);
	for (int n = 1; n <= 300; n++) for (int which = 0; which < 2; which++) { if (!vh_next()) continue; if (!(n <= 8 || (n >= 100 && n <= 140) || (n >= 235 && n <= 270) || n == 300)) continue;
		uint8_t gns[512]; size_t gl = 0; if (x509_general_names_add_general_name(gns, &gl, sizeof gns, X509_gn_dns_name, (const uint8_t *)dns, (size_t)n) != 1) { vh_obs("general name of %d bytes refused", n); continue; }
		uint8_t exts[1024]; size_t el = 0; int r = x509_exts_add_key_usage(exts, &el, sizeof exts, X509_critical, X509_KU_DIGITAL_SIGNATURE); r &= which ? x509_exts_add_issuer_alt_name(exts, &el, sizeof exts, X509_non_critical, gns, gl) : x509_exts_add_subject_alt_name(exts, &el, sizeof exts, X509_non_critical, gns, gl); r &= x509_exts_add_basic_constraints(exts, &el, sizeof exts, X509_critical, 0, -1); vh_eval(vh_mix(40000 + n * 2 + which)); char key[160];
		if (r != 1) { snprintf(key, sizeof key, "C15:ext-sizes:%s:refused", which ? "issuerAltName" : "subjectAltName"); vh_viol(key, "\"dns_len\":%d", n); continue; }
		if (!der_tree_ok(exts, el, 0)) { snprintf(key, sizeof key, "C15:ext-sizes:%s:extension-block-malformed", which ? "issuerAltName" : "subjectAltName"); vh_viol(key, "\"dns_len\":%d,\"general_names_len\":%zu", n, gl); }
		static uint8_t cert[2048]; uint8_t *p = cert; size_t cl = 0; uint8_t serial[3] = { 1, (uint8_t)n, (uint8_t)which }; venv_reset(4000 + n); r = x509_cert_sign_to_der(X509_version_v3, serial, 3, OID_sm2sign_with_sm3, NAME_I, NIL, VENV_NOW - 1000, VENV_NOW + 100000, NAME_S, NSL, &CK[0], NULL, 0, NULL, 0, exts, el, &CK[1], SM2_DEFAULT_ID, 16, &p, &cl);
		if (r != 1) { snprintf(key, sizeof key, "C15:ext-sizes:%s:certificate-not-issued", which ? "issuerAltName" : "subjectAltName"); vh_viol(key, "\"dns_len\":%d", n); continue; }
		const uint8_t *ee; size_t eel; if (x509_cert_get_exts(cert, cl, &ee, &eel) != 1 || eel != el || memcmp(ee, exts, el)) { vh_viol("C15:ext-sizes:extension-block-not-returned-as-supplied", "\"dns_len\":%d", n); continue; }
		int oids[3] = { OID_ce_key_usage, which ? OID_ce_issuer_alt_name : OID_ce_subject_alt_name, OID_ce_basic_constraints }; for (int i = 0; i < 3; i++) { int crit = -9; const uint8_t *val; size_t vl; int g = x509_exts_get_ext_by_oid(ee, eel, oids[i], &crit, &val, &vl); vh_eval(vh_mix(50000 + n * 8 + which * 4 + i));
			if (g != 1) { snprintf(key, sizeof key, "C15:ext-sizes:extension-not-found-again:%s", i == 0 ? "keyUsage" : i == 1 ? (which ? "issuerAltName" : "subjectAltName") : "basicConstraints"); vh_viol(key, "\"dns_len\":%d,\"ret\":%d", n, g); continue; }
			if (i == 1) { uint8_t want[600], *wp = want; size_t wl = 0; x509_general_names_to_der(gns, gl, &wp, &wl); if (vl != wl || memcmp(val, want, wl) || (crit != 0 && crit != -1)) { snprintf(key, sizeof key, "C15:ext-sizes:%s:value-differs", which ? "issuerAltName" : "subjectAltName"); vh_viol(key, "\"dns_len\":%d,\"vlen\":%zu,\"want\":%zu", n, vl, wl); } } } }
}
/* names: every subset of the six attributes x509_name_set knows, each present attribute either a PrintableString-only text or a UTF-8 text; the
   produced name is read with the harness DER reader: attribute order and OIDs, one attribute per RDN, string type PrintableString exactly when the
   text is printable (UTF8String otherwise), the text itself; then a certificate with that subject must give the same bytes back */
static void blk_names(void) {
	if (!vh_block_begin("names")) return; static const uint8_t AOID[6] = { 6, 8, 7, 10, 11, 3 }; /* C ST L O OU CN */ static const char *PRN[6] = { "CN", "Bei Jing", "Hai-Dian", "Org (1)", "Unit 7", "name.example" }; static const char *UTF[6] = { NULL, "\xe5\x8c\x97\xe4\xba\xac", "\xe6\xb5\xb7\xe6\xb7\x80", "\xe7\xbb\x84\xe7\xbb\x87", "\xe9\x83\xa8\xe9\x97\xa8", "\xe5\x90\x8d\xe5\xad\x97" };
	for (int mask = 0; mask < 729 * 1; mask++) { if (!vh_next()) continue; int m = mask, kind[6]; for (int i = 0; i < 6; i++) { kind[i] = m % 3; m /= 3; } if (kind[0] == 2) continue; /* country is a two-letter PrintableString */ if (kind[5] == 0) continue; /* the harness always names the subject */
		const char *v[6]; for (int i = 0; i < 6; i++) v[i] = kind[i] == 0 ? NULL : kind[i] == 1 ? PRN[i] : UTF[i]; uint8_t nm[512]; size_t nl = 0; int r = x509_name_set(nm, &nl, sizeof nm, v[0], v[1], v[2], v[3], v[4], v[5]); vh_eval(vh_mix(600000 + mask)); char key[160];
		if (r != 1) { snprintf(key, sizeof key, "C15:names:x509_name_set-refused"); vh_viol(key, "\"kinds\":\"%d%d%d%d%d%d\"", kind[0], kind[1], kind[2], kind[3], kind[4], kind[5]); continue; }
		der_cur c = { nm, nl }; int ok = 1, at = 0; const char *why = ""; for (int i = 0; i < 6 && ok; i++) { if (!v[i]) continue; int tag; const uint8_t *sv; size_t svl; if (!der_tlv(&c, &tag, &sv, &svl, NULL) || tag != 0x31) { ok = 0; why = "rdn-missing"; break; } der_cur s1 = { sv, svl }; const uint8_t *av; size_t avl; if (!der_tlv(&s1, &tag, &av, &avl, NULL) || tag != 0x30 || s1.n) { ok = 0; why = "rdn-not-a-single-attribute"; break; }
			der_cur a = { av, avl }; const uint8_t *ov, *tv; size_t ovl, tvl; int ttag; if (!der_tlv(&a, &tag, &ov, &ovl, NULL) || tag != 0x06 || ovl != 3 || ov[0] != 0x55 || ov[1] != 0x04 || ov[2] != AOID[i]) { ok = 0; why = "attribute-oid-or-order"; break; } if (!der_tlv(&a, &ttag, &tv, &tvl, NULL) || a.n) { ok = 0; why = "attribute-value"; break; }
			if (tvl != strlen(v[i]) || memcmp(tv, v[i], tvl)) { ok = 0; why = "attribute-text"; break; } if (ttag != (kind[i] == 1 ? 0x13 : 0x0c)) { ok = 0; why = kind[i] == 1 ? "printable-text-not-PrintableString" : "utf8-text-not-UTF8String"; at = i; break; } at = i; }
		if (ok && c.n) { ok = 0; why = "extra-rdn"; } if (!ok) { snprintf(key, sizeof key, "C15:names:%s", why); vh_viol(key, "\"kinds\":\"%d%d%d%d%d%d\",\"attribute\":%d,\"name\":\"%s\"", kind[0], kind[1], kind[2], kind[3], kind[4], kind[5], at, vh_hex(nm, nl > 120 ? 120 : nl)); continue; }
		if ((mask % 7) == 0 || vh_thorough) { static uint8_t cert[2048]; uint8_t *p = cert; size_t cl = 0; uint8_t serial[2] = { 2, (uint8_t)mask }; venv_reset(7000 + mask); r = x509_cert_sign_to_der(X509_version_v3, serial, 2, OID_sm2sign_with_sm3, NAME_I, NIL, VENV_NOW - 1000, VENV_NOW + 100000, nm, nl, &CK[0], NULL, 0, NULL, 0, NULL, 0, &CK[1], SM2_DEFAULT_ID, 16, &p, &cl); const uint8_t *sub; size_t subl; if (r != 1 || x509_cert_get_subject(cert, cl, &sub, &subl) != 1 || subl != nl || memcmp(sub, nm, nl)) { vh_viol("C15:names:subject-not-returned-as-supplied", "\"kinds\":\"%d%d%d%d%d%d\",\"ret\":%d", kind[0], kind[1], kind[2], kind[3], kind[4], kind[5], r); } } }
}
static void body(void) { blk_certs(); blk_unique_ids(); blk_general_names(); blk_ext_content(); blk_reqs(); blk_crls(); blk_crl_entry_exts(); blk_builders(); blk_user_notice(); blk_ext_sizes(); blk_names(); }
int main(int argc, char **argv) { vh_init(argc, argv); if (!freopen("/dev/null", "w", stderr)) {} creds_init(); make_name(NAME_I, &NIL, "Issuer"); x509_name_set(NAME_S, &NSL, sizeof NAME_S, "CN", "Beijing", "Haidian", "PKU", "CS", "Subject"); vh_guarded("C15", body, 120); return vh_finish(); }
