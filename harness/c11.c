/* C11 — record protection round-trips and rejects altered, replayed or misplaced records.
 * Direct API: every payload length (quick: dense small set + boundaries; thorough: 0..16384) x content types x sequence numbers,
 * single-bit / header / truncation / extension / other-sequence-number neighbourhood for short payloads, crafted records.
 * Live: 3-record application streams with every duplicate / swap / drop / reflection by the vnet adversary. */
#include <stdio.h>
#include <sys/mman.h>
#include <sys/wait.h>
#include <gmssl/sm4.h>
#include "vh.h"
#include "venv.h"
#include "tlsh.h"
/* exported by the library, not declared in its headers */
int tls13_record_encrypt(const BLOCK_CIPHER_KEY *key, const uint8_t iv[12], const uint8_t seq_num[8], const uint8_t *record, size_t recordlen, size_t padding_len, uint8_t *enced_record, size_t *enced_recordlen);
int tls13_record_decrypt(const BLOCK_CIPHER_KEY *key, const uint8_t iv[12], const uint8_t seq_num[8], const uint8_t *enced_record, size_t enced_recordlen, uint8_t *record, size_t *recordlen);

static SM3_HMAC_CTX HM; static SM4_KEY EK, DK; static BLOCK_CIPHER_KEY GK; static uint8_t GIV[12] = { 9, 8, 7, 6, 5, 4, 3, 2, 1, 0, 11, 12 };
static const uint8_t SEQS[8][8] = { {0,0,0,0,0,0,0,0}, {0,0,0,0,0,0,0,1}, {0,0,0,0,0,0,0,255}, {0,0,0,0,0,0,1,0}, {0,0,0,0,255,255,255,255}, {0,0,0,1,0,0,0,0}, {0,255,255,255,255,255,255,255}, {255,255,255,255,255,255,255,255} };
static uint8_t PAY[16500];
static void setup(void) { uint8_t k[16], mk[32]; for (int i = 0; i < 16; i++) k[i] = (uint8_t)(0x40 + i); for (int i = 0; i < 32; i++) mk[i] = (uint8_t)(0x70 + i); sm3_hmac_init(&HM, mk, 32); sm4_set_encrypt_key(&EK, k); sm4_set_decrypt_key(&DK, k); block_cipher_set_encrypt_key(&GK, BLOCK_CIPHER_sm4(), k); for (size_t i = 0; i < sizeof PAY; i++) PAY[i] = (uint8_t)(i * 3 + 7 + (i >> 8)); }
static int quick_len(size_t L) { return L <= 1100 || (L % 1024) <= 1 || (L % 1024) == 1023 || L >= 16300; }
/* present `rec` (reclen bytes, header length field authoritative) to the decryptor through exact-size heap blocks */
static int cbc_open(const uint8_t *rec, size_t reclen, const uint8_t seq[8], uint8_t *type, uint8_t *out, size_t *ol) { uint8_t *in = (uint8_t *)malloc(reclen ? reclen : 1); memcpy(in, rec, reclen); uint8_t *o = (uint8_t *)malloc(reclen + 5); size_t l = 0; int r = reclen >= 5 ? tls_record_decrypt(&HM, &DK, seq, in, reclen, o, &l) : -1; if (r == 1) { if (l > reclen) r = 77; else { *type = o[0]; *ol = l - 5; memcpy(out, o + 5, l - 5); if ((((size_t)o[3] << 8) | o[4]) != l - 5) r = 78; } } free(in); free(o); return r; }
static int gcm_open(const uint8_t *rec, size_t reclen, const uint8_t seq[8], uint8_t *type, uint8_t *out, size_t *ol) { uint8_t *in = (uint8_t *)malloc(reclen ? reclen : 1); memcpy(in, rec, reclen); uint8_t *o = (uint8_t *)malloc(reclen + 5); size_t l = 0; int r = reclen >= 5 ? tls13_record_decrypt(&GK, GIV, seq, in, reclen, o, &l) : -1; if (r == 1) { if (l > reclen) r = 77; else { *type = o[0]; *ol = l - 5; memcpy(out, o + 5, l - 5); } } free(in); free(o); return r; }
typedef int (*open_f)(const uint8_t *, size_t, const uint8_t *, uint8_t *, uint8_t *, size_t *);
static void tamper(const char *mode, open_f op, const uint8_t *rec, size_t rl, const uint8_t *seq, size_t L) {
	static uint8_t m[20000], out[20000]; uint8_t ty; size_t ol; char key[160];
#define REJ(what, ...) do { int r_ = op(m, ml_, sq_, &ty, out, &ol); vh_eval(vh_mix(cnt_++ + (uint64_t)L * 1000003 + rl)); if (r_ == 1) { snprintf(key, sizeof key, "C11:%s:accepted:%s", mode, what); vh_viol(key, __VA_ARGS__); } else if (r_ >= 77) { snprintf(key, sizeof key, "C11:%s:length-larger-than-ciphertext:%s", mode, what); vh_viol(key, __VA_ARGS__); } } while (0)
	uint64_t cnt_ = 1; size_t ml_ = rl; const uint8_t *sq_ = seq;
	for (size_t bit = 40; bit < rl * 8; bit++) { memcpy(m, rec, rl); m[bit / 8] ^= (uint8_t)(1 << (bit % 8)); REJ("body-bitflip", "\"len\":%zu,\"bit\":%zu", L, bit); }
	/* header: type and version bits (authenticated in TLCP/TLS1.2; TLS 1.3 authenticates the header as AAD) */
	for (size_t bit = 0; bit < 24; bit++) { memcpy(m, rec, rl); m[bit / 8] ^= (uint8_t)(1 << (bit % 8)); int r_ = op(m, rl, seq, &ty, out, &ol); vh_eval(vh_mix(cnt_++ + (uint64_t)L * 7919)); if (r_ == 1 && !strcmp(mode, "cbc")) { snprintf(key, sizeof key, "C11:%s:accepted:header-%s-bitflip", mode, bit < 8 ? "type" : "version"); vh_viol(key, "\"len\":%zu,\"bit\":%zu", L, bit); } }
	/* header length bits: the receiver sees 5 + length-field bytes (following bytes zero-filled, or cut) */
	for (int bit = 0; bit < 16; bit++) { memcpy(m, rec, rl); memset(m + rl, 0, sizeof m - rl > 70000 ? 0 : (sizeof m - rl)); m[3 + bit / 8] ^= (uint8_t)(1 << (bit % 8)); size_t nl = ((size_t)m[3] << 8) | m[4]; if (5 + nl > sizeof m) continue; ml_ = 5 + nl; REJ("header-length-bitflip", "\"len\":%zu,\"bit\":%d,\"newlen\":%zu", L, bit, nl); }
	/* truncations (header length fixed up) and one-byte extensions */
	for (size_t k = 5; k < rl; k++) { memcpy(m, rec, k); size_t nl = k - 5; m[3] = (uint8_t)(nl >> 8); m[4] = (uint8_t)nl; ml_ = k; REJ("truncation", "\"len\":%zu,\"to\":%zu", L, k); }
	for (int e = 0; e < 3; e++) { static const uint8_t EX[] = { 0x00, 0x01, 0xff }; memcpy(m, rec, rl); m[rl] = EX[e]; size_t nl = rl - 5 + 1; m[3] = (uint8_t)(nl >> 8); m[4] = (uint8_t)nl; ml_ = rl + 1; REJ("extension", "\"len\":%zu,\"byte\":%d", L, EX[e]); }
	for (int e = 0; e < 2; e++) { size_t add = e ? 32 : 16; memcpy(m, rec, rl); memcpy(m + rl, rec + rl - add, add); size_t nl = rl - 5 + add; m[3] = (uint8_t)(nl >> 8); m[4] = (uint8_t)nl; ml_ = rl + add; REJ("block-extension", "\"len\":%zu,\"add\":%zu", L, add); }
	/* every other sequence number of the set */
	ml_ = rl; memcpy(m, rec, rl); for (int s = 0; s < 8; s++) { if (!memcmp(SEQS[s], seq, 8)) continue; sq_ = SEQS[s]; REJ("other-sequence-number", "\"len\":%zu,\"seq\":\"%s\"", L, vh_hex(SEQS[s], 8)); } { uint8_t s2[8]; memcpy(s2, seq, 8); s2[7] ^= 1; sq_ = s2; REJ("neighbour-sequence-number", "\"len\":%zu", L); }
#undef REJ
}
static void blk_cbc(void) {
	if (!vh_block_begin("cbc")) return; static uint8_t plain[16400 + 8], enc[17000], out[17000]; static const uint8_t TYPES[] = { 20, 21, 22, 23 };
	for (size_t L = 0; L <= 16384; L++) { if (!vh_next()) continue; if (!vh_thorough && !quick_len(L)) continue; if (vh_deadline_hit()) { vh_capped = 1; continue; }
		for (int ti = 0; ti < 4; ti++) { int si = (int)((L + ti) % 8); plain[0] = TYPES[ti]; plain[1] = 0x01; plain[2] = 0x01; plain[3] = (uint8_t)(L >> 8); plain[4] = (uint8_t)L; memcpy(plain + 5, PAY, L); size_t el = 0; venv_reset(L * 4 + ti);
			int r = tls_record_encrypt(&HM, &EK, SEQS[si], plain, 5 + L, enc, &el); size_t kk[3] = { L, (size_t)ti, (size_t)si }; vh_eval(vh_hash(kk, sizeof kk, 1)); char key[128];
			if (r != 1) { snprintf(key, sizeof key, "C11:cbc:encrypt-refused:%s", L ? "nonempty" : "empty-payload"); vh_viol(key, "\"len\":%zu,\"type\":%d", L, TYPES[ti]); continue; }
			uint8_t ty = 0; size_t ol = 0; r = cbc_open(enc, el, SEQS[si], &ty, out, &ol); vh_eval(vh_hash(kk, sizeof kk, 2));
			if (r != 1 || ty != TYPES[ti] || ol != L || memcmp(out, PAY, L)) { snprintf(key, sizeof key, "C11:cbc:roundtrip"); vh_viol(key, "\"len\":%zu,\"type\":%d,\"ret\":%d,\"gotlen\":%zu", L, TYPES[ti], r, ol); continue; }
			if (ti == 3 && (L == 0 || L == 1 || L == 15 || L == 16 || L == 17 || L == 100)) tamper("cbc", cbc_open, enc, el, SEQS[si], L); }
		vh_sample("{\"block\":\"cbc\",\"payload_len\":%zu}", L); }
	/* crafted: plaintext (after decryption) whose padding byte points before the MAC / beyond the record */
	static const int PADV[] = { 0xff, 0x80, 0x30, 0x2f, 0x20, 0x10 }; for (int pv = 0; pv < 6; pv++) for (size_t nb = 4; nb <= 6; nb++) { if (!vh_next()) continue; uint8_t pt[200], iv[16], rec[220], ivc[16]; memset(pt, PADV[pv], sizeof pt); for (int i = 0; i < 16; i++) iv[i] = (uint8_t)(i + pv); memcpy(ivc, iv, 16);
		rec[0] = 23; rec[1] = 1; rec[2] = 1; size_t bl = 16 + 16 * nb; rec[3] = 0; rec[4] = (uint8_t)bl; memcpy(rec + 5, iv, 16); sm4_cbc_encrypt_blocks(&EK, ivc, pt, nb, rec + 21); uint8_t ty; size_t ol; static uint8_t o2[400]; int r = cbc_open(rec, 5 + bl, SEQS[0], &ty, o2, &ol); vh_eval(vh_mix(pv * 10 + nb + 555)); if (r == 1 || r >= 77) vh_viol("C11:cbc:crafted-padding-accepted", "\"padbyte\":%d,\"blocks\":%zu,\"ret\":%d", PADV[pv], nb, r); }
}
/* records with MORE than the minimal padding (legal up to 255 padding octets, never produced by the library's own sender): built here from the
   primitives with a correct MAC. The untouched record must open (it is what a conforming peer may send); every single-bit change of it - the
   padding octets above all - must be refused, like any other bit of the protected body. */
static size_t craft_cbc(uint8_t type, const uint8_t seq[8], const uint8_t *pay, size_t L, int extra_blocks, uint8_t *rec) {
	static uint8_t pt[17000]; uint8_t hdr[5] = { type, 0x01, 0x01, (uint8_t)(L >> 8), (uint8_t)L }; SM3_HMAC_CTX h = HM; memcpy(pt, pay, L); sm3_hmac_update(&h, seq, 8); sm3_hmac_update(&h, hdr, 5); sm3_hmac_update(&h, pay, L); sm3_hmac_finish(&h, pt + L);
	size_t n = L + 32; size_t pad = 16 - (n % 16) + 16 * (size_t)extra_blocks; /* pad in 1..16 (+16k) octets, each holding pad-1 */ if (pad > 256) return 0; memset(pt + n, (int)(pad - 1), pad); n += pad;
	uint8_t iv[16]; for (int i = 0; i < 16; i++) iv[i] = (uint8_t)(0xa0 + i + extra_blocks); rec[0] = type; rec[1] = 0x01; rec[2] = 0x01; size_t bl = 16 + n; rec[3] = (uint8_t)(bl >> 8); rec[4] = (uint8_t)bl; memcpy(rec + 5, iv, 16); sm4_cbc_encrypt_blocks(&EK, iv, pt, n / 16, rec + 21); return 5 + bl; }
static void blk_cbc_longpad(void) {
	if (!vh_block_begin("cbc-long-padding")) return; static uint8_t rec[17500], out[17500]; static const size_t LL[] = { 0, 1, 15, 16, 17, 100 };
	for (int li = 0; li < 6; li++) for (int xb = 0; xb <= 15; xb++) { if (!vh_next()) continue; if (!vh_thorough && !(xb <= 2 || xb == 7 || xb == 14 || xb == 15)) continue; size_t L = LL[li]; int si = (li + xb) % 8; size_t rl = craft_cbc(23, SEQS[si], PAY, L, xb, rec); if (!rl) continue;
		uint8_t ty = 0; size_t ol = 0; int r = cbc_open(rec, rl, SEQS[si], &ty, out, &ol); size_t kk[3] = { L, (size_t)xb, 77 }; vh_eval(vh_hash(kk, sizeof kk, 3));
		if (r != 1 || ty != 23 || ol != L || memcmp(out, PAY, L)) { vh_viol(xb ? "C11:cbc:long-padding:conforming-record-refused" : "C11:cbc:crafted-minimal-padding-record-refused", "\"len\":%zu,\"extra_blocks\":%d,\"ret\":%d", L, xb, r); continue; }
		char mode[40]; snprintf(mode, sizeof mode, "cbc-long-padding"); tamper(mode, cbc_open, rec, rl, SEQS[si], L);
		vh_sample("{\"block\":\"cbc-long-padding\",\"payload_len\":%zu,\"padding_octets\":%zu}", L, (size_t)(16 - ((L + 32) % 16) + 16 * xb)); }
}
/* the sequence number is a 64-bit big-endian counter: every carry chain (all-ones in the low k octets), neighbours of each, and a walk over 70000 steps from
   several starts - a record protected under the library's idea of n+1 must open under the integer n+1 and under nothing else */
static void blk_seq(void) {
	if (!vh_block_begin("sequence-number")) return; uint8_t lib[8], ref[8];
	for (int k = 0; k <= 7; k++) for (int d = -2; d <= 1; d++) { if (!vh_next()) continue; uint64_t v = k == 0 ? 0 : ((k == 8 ? 0 : (1ULL << (8 * k))) - 1); v += (uint64_t)(int64_t)d; if (k == 0 && d < 0) continue; for (int i = 0; i < 8; i++) lib[i] = (uint8_t)(v >> (56 - 8 * i)); tls_seq_num_incr(lib); uint64_t w = v + 1; for (int i = 0; i < 8; i++) ref[i] = (uint8_t)(w >> (56 - 8 * i)); vh_eval(vh_mix(k * 10 + d + 60001));
		if (memcmp(lib, ref, 8)) { vh_viol("C11:sequence-number:increment-differs-from-the-integer", "\"from\":\"%016llx\",\"got\":\"%s\",\"exp\":\"%s\"", (unsigned long long)v, vh_hex(lib, 8), vh_hex(ref, 8)); continue; }
		/* and through a record: protected under the library's n+1, opened under the integer n+1 (must open) and under n (must not) */ static uint8_t plain[64], enc[200], out[200]; plain[0] = 23; plain[1] = 1; plain[2] = 1; plain[3] = 0; plain[4] = 20; memcpy(plain + 5, PAY, 20); size_t el = 0; venv_reset(9900 + k); if (tls_record_encrypt(&HM, &EK, lib, plain, 25, enc, &el) != 1) continue; uint8_t ty; size_t ol; uint8_t prev[8]; for (int i = 0; i < 8; i++) prev[i] = (uint8_t)(v >> (56 - 8 * i));
		if (cbc_open(enc, el, ref, &ty, out, &ol) != 1) vh_viol("C11:sequence-number:record-does-not-open-under-the-integer-successor", "\"from\":\"%016llx\"", (unsigned long long)v); if (cbc_open(enc, el, prev, &ty, out, &ol) == 1) vh_viol("C11:sequence-number:record-opens-under-the-previous-number", "\"from\":\"%016llx\"", (unsigned long long)v); }
	static const uint64_t ST[] = { 0, 0xfff0, 0xffffff00ULL, 0x00ffffffffffff00ULL }; for (int s0 = 0; s0 < 4; s0++) { if (!vh_next()) continue; uint64_t v = ST[s0]; for (int i = 0; i < 8; i++) lib[i] = (uint8_t)(v >> (56 - 8 * i)); int bad = 0; for (int step = 0; step < 70000 && !bad; step++) { tls_seq_num_incr(lib); v++; for (int i = 0; i < 8; i++) ref[i] = (uint8_t)(v >> (56 - 8 * i)); vh_evals++; if (memcmp(lib, ref, 8)) { bad = 1; vh_viol("C11:sequence-number:walk-differs-from-the-integer", "\"start\":\"%016llx\",\"step\":%d,\"got\":\"%s\"", (unsigned long long)ST[s0], step, vh_hex(lib, 8)); } } vh_nontriv++; }
}
static void blk_gcm(void) {
	if (!vh_block_begin("gcm")) return; static uint8_t plain[16400 + 8], enc[17000], out[17000]; static const uint8_t TYPES[] = { 21, 22, 23 }; static const size_t PADS[] = { 0, 1, 15, 16, 255, 256, 1000 }; /* padding is a parameter of TLS 1.3 protection; any amount that keeps the inner plaintext within 2^14+1 octets is legal */
	for (size_t L = 0; L <= 16384; L++) { if (!vh_next()) continue; if (!vh_thorough && !quick_len(L)) continue; if (vh_deadline_hit()) { vh_capped = 1; continue; }
		for (int ti = 0; ti < 3; ti++) { int si = (int)((L + ti) % 8); size_t pad = PADS[(L + ti) % 7]; if (L + 1 + pad > 16385) pad = 16385 - (L + 1); plain[0] = TYPES[ti]; plain[1] = 3; plain[2] = 3; plain[3] = (uint8_t)(L >> 8); plain[4] = (uint8_t)L; memcpy(plain + 5, PAY, L); size_t el = 0;
			int r = tls13_record_encrypt(&GK, GIV, SEQS[si], plain, 5 + L, pad, enc, &el); size_t kk[3] = { L, (size_t)ti, (size_t)si }; vh_eval(vh_hash(kk, sizeof kk, 11)); char key[128];
			if (r != 1) { snprintf(key, sizeof key, "C11:gcm:encrypt-refused:%s", L ? "nonempty" : "empty-payload"); vh_viol(key, "\"len\":%zu,\"pad\":%zu", L, pad); continue; }
			uint8_t ty = 0; size_t ol = 0; r = gcm_open(enc, el, SEQS[si], &ty, out, &ol); vh_eval(vh_hash(kk, sizeof kk, 12));
			if (r != 1 || ty != TYPES[ti] || ol != L || memcmp(out, PAY, L)) { snprintf(key, sizeof key, "C11:gcm:roundtrip:%s", L ? "nonempty" : "empty-payload"); vh_viol(key, "\"len\":%zu,\"type\":%d,\"pad\":%zu,\"ret\":%d,\"gotlen\":%zu", L, TYPES[ti], pad, r, ol); continue; }
			if (ti == 2 && (L == 0 || L == 1 || L == 15 || L == 16 || L == 17 || L == 100)) tamper("gcm", gcm_open, enc, el, SEQS[si], L); }
		vh_sample("{\"block\":\"gcm\",\"payload_len\":%zu}", L); }
	/* all-zero inner plaintexts (no content type): must be refused, reported length never larger than the ciphertext */
	static const size_t ZL[] = { 0, 1, 16, 100 }; for (int z = 0; z < 4; z++) { if (!vh_next()) continue; uint8_t zeros[128] = {0}, rec[200]; size_t el = 0; /* record_type 0 and zero data => inner plaintext all zero */
		if (tls13_gcm_encrypt(&GK, GIV, SEQS[1], 0, zeros, ZL[z], 0, rec + 5, &el) != 1) continue; rec[0] = 23; rec[1] = 3; rec[2] = 3; rec[3] = (uint8_t)(el >> 8); rec[4] = (uint8_t)el; uint8_t ty; size_t ol; static uint8_t o2[300]; int r = gcm_open(rec, 5 + el, SEQS[1], &ty, o2, &ol); vh_eval(vh_mix(z + 777));
		if (r == 1 || r >= 77) vh_viol("C11:gcm:all-zero-inner-plaintext-accepted", "\"zeros\":%zu,\"ret\":%d", ZL[z], r);
		/* the raw decryptor must not report a huge length either when it fails */ int rt; size_t rawl = 12345; uint8_t *o = (uint8_t *)malloc(el + 1); r = tls13_gcm_decrypt(&GK, GIV, SEQS[1], rec + 5, el, &rt, o, &rawl); free(o); vh_eval(vh_mix(z + 787)); if (r == 1) vh_viol("C11:gcm:all-zero-inner-plaintext-accepted:raw", "\"zeros\":%zu", ZL[z]); }
}
/* ---- live connection ---- */
enum { L_NONE, L_DUP, L_DROP, L_SWAP, L_REFLECT, NL };
static const char *LN[] = { "none", "duplicate", "drop", "swap", "reflect-from-other-direction" };
static int LK, LDIR, LIDX, HSREC[2]; static uint8_t *LAST_OTHER; static size_t LAST_OTHER_LEN;
static int ladv(vn_rec *r) { if (r->dir != LDIR) { free(LAST_OTHER); LAST_OTHER = malloc(r->len); memcpy(LAST_OTHER, r->rec, r->len); LAST_OTHER_LEN = r->len; return 1; } int appidx = r->idx - HSREC[r->dir]; if (appidx != LIDX) return 1; switch (LK) { case L_DUP: return 2; case L_DROP: return 0; case L_SWAP: return -1; default: return 1; } }
static void ladv_after(int dir, int idx) { if (LK == L_REFLECT && dir == LDIR && idx - HSREC[dir] == LIDX && LAST_OTHER) vn_inject(dir, LAST_OTHER, LAST_OTHER_LEN); }
typedef struct { ep_t e; int done; size_t got; int bad, after_reject_data, rejected; } lep_t;
/* an AUTHENTIC record of another content type in front of application record FT_IDX of direction FT_DIR, written by the sender itself with its
   own write keys (a warning alert / a post-handshake handshake message): it consumes one sequence number on both sides, so the application
   records behind it must still be delivered */
static int FT_TYPE, FT_DIR, FT_IDX = -1;
static int send_foreign(ep_t *e, TLS_CONNECT *c, int type) { static __thread uint8_t plain[64], rec[128]; size_t pl, rl = 0; uint8_t *seq = e->is_client ? c->client_seq_num : c->server_seq_num;
	if (type >= 100) { /* authentic alert records the alert reader does not know: unknown description, unknown level, body not 2 octets */ static const uint8_t AB[4][16] = { { 2, 120 }, { 3, 0 }, { 1, 90, 0 }, "GET /secret HTTP" }; static const size_t AL_[4] = { 2, 2, 3, 16 }; pl = AL_[type - 100]; memcpy(plain, AB[type - 100], pl); type = TLS_record_alert; }
	else if (type == TLS_record_alert) { plain[0] = 1; plain[1] = 90; pl = 2; } else { plain[0] = e->proto == P_TLS13 ? 4 : 0; plain[1] = 0; plain[2] = 0; plain[3] = e->proto == P_TLS13 ? 6 : 0; memset(plain + 4, 0x5a, 6); pl = e->proto == P_TLS13 ? 10 : 4; }
	if (e->proto == P_TLS13) { size_t el = 0; if (tls13_gcm_encrypt(e->is_client ? &c->client_write_key : &c->server_write_key, e->is_client ? c->client_write_iv : c->server_write_iv, seq, type, plain, pl, 0, rec + 5, &el) != 1) return -1; rec[0] = 23; rec[1] = 3; rec[2] = 3; rec[3] = (uint8_t)(el >> 8); rec[4] = (uint8_t)el; rl = 5 + el; }
	else { uint8_t pr[80]; pr[0] = (uint8_t)type; pr[1] = (uint8_t)(c->protocol >> 8); pr[2] = (uint8_t)c->protocol; pr[3] = 0; pr[4] = (uint8_t)pl; memcpy(pr + 5, plain, pl); if (tls_record_encrypt(e->is_client ? &c->client_write_mac_ctx : &c->server_write_mac_ctx, e->is_client ? &c->client_write_enc_key : &c->server_write_enc_key, seq, pr, 5 + pl, rec, &rl) != 1) return -1; }
	tls_seq_num_incr(seq); return tls_record_send(rec, rl, c->sock); }
static size_t STREAM3[3] = { 5, 17, 40 };
static int lep_task(void *arg) { lep_t *c = (lep_t *)arg; c->e.do_app = 0; c->e.do_close = 0; int r = ep_task(&c->e); c->done = c->e.hs_ret == 1; if (!c->done) return r; TLS_CONNECT *conn = c->e.conn_out;
	/* both directions carry a 3-record stream; the client writes first, then reads; the server reads, then writes */
	const uint8_t *mine = APPDATA[c->e.is_client ? 0 : 1], *theirs = APPDATA[c->e.is_client ? 1 : 0]; size_t total = STREAM3[0] + STREAM3[1] + STREAM3[2];
	for (int phase = 0; phase < 2; phase++) { int sending = (phase == 0) == (c->e.is_client != 0); if (sending) { size_t off = 0; for (int i = 0; i < 3; i++) { if (FT_IDX == i && FT_DIR == (c->e.is_client ? 1 : 0)) send_foreign(&c->e, conn, FT_TYPE); ep_send(&c->e, conn, mine + off, STREAM3[i]); off += STREAM3[i]; } }
		else { static __thread uint8_t rb[4096]; int calls = 0; while (c->got < total && calls < 12) { size_t g = 0; int rr = ep_recv(&c->e, conn, rb, sizeof rb, &g); calls++; if (rr == 1 && g) { if (c->rejected) c->after_reject_data = 1; if (c->got + g > total || memcmp(rb, theirs + c->got, g)) { c->bad = 1; break; } c->got += g; } else { c->rejected++; if (c->rejected > 3) break; } } } }
	return r; }
typedef struct { int status, c_done, s_done, c_bad, s_bad, c_after, s_after; size_t c_got, s_got; int hs[2]; } lout_t; static lout_t *LO; static side_creds LSRV[3], LCLI[3]; static char LFAIL[32];
static void live_exec(int proto) { memset(LO, 0, sizeof *LO); LFAIL[0] = 0; fflush(stdout); pid_t pid = fork(); if (pid == 0) { if (!freopen("/dev/null", "w", stderr) || !freopen("/dev/null", "w", stdout)) {} alarm(30);
		static lep_t c, s; memset(&c, 0, sizeof c); memset(&s, 0, sizeof s); c.e.proto = s.e.proto = proto; c.e.is_client = 1; c.e.own = &LCLI[proto]; s.e.own = &LSRV[proto]; c.e.trust = &LSRV[proto]; c.e.entropy_key = 0xC11E17; s.e.entropy_key = 0x5E12BE12; c.e.entropy_fail_at = s.e.entropy_fail_at = -1; vn_adv = ladv; vn_adv_after = ladv_after; int cr, sr; LO->status = vnet_run2(lep_task, &c, lep_task, &s, &cr, &sr);
		LO->c_done = c.done; LO->s_done = s.done; LO->c_bad = c.bad; LO->s_bad = s.bad; LO->c_after = c.after_reject_data; LO->s_after = s.after_reject_data; LO->c_got = c.got; LO->s_got = s.got; int cnt[2] = { 0, 0 }; for (int i = 0; i < vn_nlog; i++) cnt[vn_log[i].dir]++; LO->hs[0] = cnt[0] - 3; LO->hs[1] = cnt[1] - 3; _exit(0); }
	int st; while (waitpid(pid, &st, 0) < 0 && errno == EINTR) {} if (!WIFEXITED(st) || WEXITSTATUS(st)) snprintf(LFAIL, sizeof LFAIL, "%s", WIFSIGNALED(st) && WTERMSIG(st) == SIGALRM ? "hang" : "crash"); }
/* piecewise delivery: the receiver takes a record in pieces (read buffer smaller than the record) and WRITES in between; what it goes on to read must
   still be the sender's bytes (the record buffer must not be reused for the outgoing record while unread plaintext sits in it) */
typedef struct { int status, c_hs, s_hs, c_ok, s_ok, c_err, s_err; size_t s_got; } pw_t; static pw_t *PW;
static void blk_piecewise(void) { if (!PW) PW = (pw_t *)mmap(NULL, sizeof *PW, PROT_READ | PROT_WRITE, MAP_SHARED | MAP_ANONYMOUS, -1, 0);
	for (int p = 0; p < 3; p++) { char bn[40]; snprintf(bn, sizeof bn, "piecewise-%s", PNAME[p]); if (!vh_block_begin(bn)) continue; static const size_t IW[] = { 17, 1000, 16384 }, IR[] = { 1, 7, 100, 999 }, IX[] = { 1, 23, 500 };
		for (int wi = 0; wi < 3; wi++) for (int ri = 0; ri < 4; ri++) for (int xi = 0; xi < 3; xi++) { if (IR[ri] >= IW[wi]) continue; if (!vh_next()) continue; memset(PW, 0, sizeof *PW); fflush(stdout); pid_t pid = fork();
			if (pid == 0) { if (!freopen("/dev/null", "w", stderr) || !freopen("/dev/null", "w", stdout)) {} alarm(60); static side_creds srv, cli; static ep_t c, s; build_side(&srv, p, 0, 1, NULL); build_side(&cli, p, 1, 1, NULL); memset(&c, 0, sizeof c); memset(&s, 0, sizeof s); c.proto = s.proto = p; c.is_client = 1; c.own = &cli; s.own = &srv; c.trust = &srv; c.entropy_key = 0xC11E17; s.entropy_key = 0x5E12BE12; c.entropy_fail_at = s.entropy_fail_at = -1;
				c.do_app = s.do_app = 1; c.out = (app_dir){ { IW[wi] }, 1, IR[ri] }; s.in = c.out; s.out = (app_dir){ { IX[xi] }, 1, 4096 }; c.in = s.out; s.interleave = 1; int cr, sr; PW->status = vnet_run2(ep_task, &c, ep_task, &s, &cr, &sr); PW->c_hs = c.hs_ret; PW->s_hs = s.hs_ret; PW->c_ok = c.app_ok; PW->s_ok = s.app_ok; PW->c_err = c.app_err; PW->s_err = s.app_err; PW->s_got = s.app_got; _exit(0); }
			int st; while (waitpid(pid, &st, 0) < 0 && errno == EINTR) {} size_t kk[4] = { (size_t)p, IW[wi], IR[ri], IX[xi] }; vh_eval(vh_hash(kk, sizeof kk, 71)); char key[160];
			if (!WIFEXITED(st) || WEXITSTATUS(st)) { snprintf(key, sizeof key, "C11:piecewise:%s:crash-or-hang", PNAME[p]); vh_viol(key, "\"write\":%zu,\"readbuf\":%zu,\"reply\":%zu", IW[wi], IR[ri], IX[xi]); continue; }
			if (PW->c_hs != 1 || PW->s_hs != 1) { snprintf(key, sizeof key, "C11:piecewise:%s:handshake-failed", PNAME[p]); vh_viol(key, "\"c\":%d,\"s\":%d", PW->c_hs, PW->s_hs); continue; }
			if (!PW->s_ok || !PW->c_ok) { snprintf(key, sizeof key, "C11:piecewise:%s:delivered-bytes-differ-from-the-sent-ones", PNAME[p]); vh_viol(key, "\"write\":%zu,\"readbuf\":%zu,\"reply\":%zu,\"server_err\":%d,\"client_err\":%d,\"server_got\":%zu", IW[wi], IR[ri], IX[xi], PW->s_err, PW->c_err, PW->s_got); } } } }
static void blk_live(void) {
	for (int p = 0; p < 3; p++) { char bn[32]; snprintf(bn, sizeof bn, "live-%s", PNAME[p]); if (!vh_block_begin(bn)) continue; LK = L_NONE; LIDX = -1; LDIR = 0; HSREC[0] = HSREC[1] = 1000; live_exec(p); if (LFAIL[0] || !LO->c_done || !LO->s_done || LO->c_got != 62 || LO->s_got != 62) { if (vh_next()) vh_viol("C11:live:baseline-stream-not-delivered", "\"proto\":\"%s\",\"c_got\":%zu,\"s_got\":%zu,\"fail\":\"%s\"", PNAME[p], LO->c_got, LO->s_got, LFAIL); continue; }
		int hs0 = LO->hs[0], hs1 = LO->hs[1];
		for (int dir = 0; dir < 2; dir++) for (int idx = 0; idx < 3; idx++) for (int k = L_DUP; k < NL; k++) { if (!vh_next()) continue; LK = k; LDIR = dir; LIDX = idx; HSREC[0] = hs0; HSREC[1] = hs1; live_exec(p); int kk[4] = { p, dir, idx, k }; vh_eval(vh_hash(kk, sizeof kk, 31)); char key[160];
			if (LFAIL[0]) { snprintf(key, sizeof key, "C11:live:%s:%s:%s", PNAME[p], LN[k], LFAIL); vh_viol(key, "\"dir\":\"%s\",\"record\":%d", dir ? "c2s" : "s2c", idx); continue; }
			int bad = dir ? LO->s_bad : LO->c_bad, after = dir ? LO->s_after : LO->c_after; size_t got = dir ? LO->s_got : LO->c_got; size_t pre = 0; for (int i = 0; i < idx; i++) pre += STREAM3[i];
			if (bad) { snprintf(key, sizeof key, "C11:live:%s:%s:delivered-bytes-not-a-prefix-of-the-sent-stream", PNAME[p], LN[k]); vh_viol(key, "\"dir\":\"%s\",\"record\":%d,\"got\":%zu", dir ? "c2s" : "s2c", idx, got); }
			/* the property demands that replayed / reordered / deleted records are REJECTED (delivered bytes stay a prefix of the sent stream); it does not demand that the
			   connection dies, so in-sequence records accepted after a rejected one are fine.  After a DROP nothing behind the gap may be delivered. */
			(void)after; if (k == L_DROP && got > pre) { snprintf(key, sizeof key, "C11:live:%s:%s:record-accepted-behind-a-gap", PNAME[p], LN[k]); vh_viol(key, "\"dir\":\"%s\",\"record\":%d,\"got\":%zu,\"max\":%zu", dir ? "c2s" : "s2c", idx, got, pre); }
			vh_sample("{\"block\":\"%s\",\"fault\":\"%s\",\"dir\":\"%s\",\"record\":%d,\"delivered\":%zu}", bn, LN[k], dir ? "c2s" : "s2c", idx, got); }
		/* authentic records of other content types between the application records */
		static const int FT[] = { TLS_record_alert, TLS_record_handshake, 100, 101, 102, 103 }; static const char *FTN[] = { "warning-alert", "handshake-record", "alert-unknown-description", "alert-unknown-level", "alert-3-octets", "alert-16-octets" };
		for (int dir = 0; dir < 2; dir++) for (int idx = 0; idx < 3; idx++) for (int t = 0; t < 6; t++) { if (!vh_next()) continue; LK = L_NONE; LIDX = -1; HSREC[0] = hs0; HSREC[1] = hs1; FT_TYPE = FT[t]; FT_DIR = dir; FT_IDX = idx; live_exec(p); FT_IDX = -1; int kk[4] = { p, dir, idx, 100 + t }; vh_eval(vh_hash(kk, sizeof kk, 37)); char key[160];
			if (LFAIL[0]) { snprintf(key, sizeof key, "C11:live:%s:interleaved-%s:%s", PNAME[p], FTN[t], LFAIL); vh_viol(key, "\"dir\":\"%s\",\"before-record\":%d", dir ? "c2s" : "s2c", idx); continue; }
			int bad = dir ? LO->s_bad : LO->c_bad; size_t got = dir ? LO->s_got : LO->c_got;
			/* the malformed alerts may end the connection; what is delivered must still be a prefix of the sent stream (never the alert body) */
			if (bad || (t < 2 && got != 62)) { snprintf(key, sizeof key, "C11:live:%s:interleaved-%s:%s", PNAME[p], FTN[t], bad ? "delivered-bytes-not-a-prefix-of-the-sent-stream" : "application-records-behind-it-not-delivered"); vh_viol(key, "\"dir\":\"%s\",\"before-record\":%d,\"delivered\":%zu,\"sent\":62", dir ? "c2s" : "s2c", idx, got); } } }
}
int main(int argc, char **argv) { vh_init(argc, argv); app_fill(); setup(); LO = mmap(NULL, sizeof *LO, PROT_READ | PROT_WRITE, MAP_SHARED | MAP_ANONYMOUS, -1, 0); for (int p = 0; p < 3; p++) if (build_side(&LSRV[p], p, 0, 1, NULL) != 1 || build_side(&LCLI[p], p, 1, 1, NULL) != 1) vh_harness_error("creds");
	if (!freopen("/dev/null", "w", stderr)) {} blk_live(); blk_piecewise(); vh_guarded("C11", blk_cbc, 60); vh_guarded("C11", blk_cbc_longpad, 60); vh_guarded("C11", blk_seq, 60); vh_guarded("C11", blk_gcm, 60); return vh_finish(); }
