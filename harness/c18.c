/* C18 — randomised operations are fresh, entropy-driven and fail closed.
 * For every randomised API operation: a clean run counts the entropy draws N; then one run per draw index i < N with that draw
 * failing (must not report success); stream A vs A (identical output), A vs B (different ephemeral values); long same-stream
 * sequences never reuse a nonce.  Handshake roles over vnet: the endpoint whose draw failed must not complete nor emit
 * further handshake / CCS / application records. */
#define _GNU_SOURCE
#include <stdio.h>
#include <sys/mman.h>
#include <sys/wait.h>
#include <gmssl/sm2.h>
#include <gmssl/sm9.h>
#include <gmssl/cms.h>
#include <gmssl/x509.h>
#include <gmssl/x509_req.h>
#include <gmssl/x509_crl.h>
#include <gmssl/pkcs8.h>
#include "vh.h"
#include "venv.h"
#include "tlsh.h"

#define SA 0xA11CE5ULL
#define SB 0xB0B5EEDULL
typedef int (*op_f)(uint8_t *out, size_t *outlen);   /* returns the library's verdict (1 = success) and the bytes that must be fresh */
static uint8_t DG[32] = { 1, 2, 3, 4, 5, 6, 7, 8, 9 }; static uint8_t MSG40[40];
static SM9_SIGN_MASTER_KEY S9M; static SM9_SIGN_KEY S9K; static SM9_ENC_MASTER_KEY E9M; static SM9_ENC_KEY E9K, E9KB; static int s9ready;
static uint8_t NM[128]; static size_t NML; static uint8_t LCERT[1024]; static size_t LCERTL;
static void setup(void) { creds_init(); make_name(NM, &NML, "n"); cert_spec s; spec_leaf(&s, "r", X509_KU_KEY_ENCIPHERMENT | X509_KU_DIGITAL_SIGNATURE); LCERTL = 0; make_cert(&s, &CK[2], &CK[5], "R", LCERT, &LCERTL);
	venv_reset(42); if (sm9_sign_master_key_generate(&S9M) == 1 && sm9_sign_master_key_extract_key(&S9M, "alice", 5, &S9K) == 1 && sm9_enc_master_key_generate(&E9M) == 1 && sm9_enc_master_key_extract_key(&E9M, "alice", 5, &E9K) == 1 && sm9_enc_master_key_extract_key(&E9M, "bob", 3, &E9KB) == 1) s9ready = 1; }
static int op_keygen(uint8_t *o, size_t *l) { SM2_KEY k; int r = sm2_key_generate(&k); if (r == 1) { sm2_z256_point_to_bytes(&k.public_key, o); *l = 64; } return r; }
static int op_sign(uint8_t *o, size_t *l) { return sm2_sign(&CK[0], DG, o, l); }
static int op_do_sign(uint8_t *o, size_t *l) { SM2_SIGNATURE s; int r = sm2_do_sign(&CK[0], DG, &s); memcpy(o, &s, 64); *l = 64; return r; }
static int op_sign_fixlen(uint8_t *o, size_t *l) { *l = 71; return sm2_sign_fixlen(&CK[0], DG, 71, o); }
static int op_sign_ctx(uint8_t *o, size_t *l) { SM2_SIGN_CTX c; if (sm2_sign_init(&c, &CK[0], SM2_DEFAULT_ID, 16) != 1) return -1; if (sm2_sign_update(&c, MSG40, 40) != 1) return -1; return sm2_sign_finish(&c, o, l); }
static int op_encrypt(uint8_t *o, size_t *l) { return sm2_encrypt(&CK[1], MSG40, 40, o, l); }
static int op_encrypt_fixlen(uint8_t *o, size_t *l) { return sm2_encrypt_fixlen(&CK[1], MSG40, 40, SM2_ciphertext_typical_point_size, o, l); }
static int op_encrypt_ctx(uint8_t *o, size_t *l) { SM2_ENC_CTX c; if (sm2_encrypt_init(&c) != 1) return -1; if (sm2_encrypt_update(&c, MSG40, 40) != 1) return -1; return sm2_encrypt_finish(&c, &CK[1], o, l); }
static int op_p8(uint8_t *o, size_t *l) { uint8_t *p = o; *l = 0; return sm2_private_key_info_encrypt_to_der(&CK[0], "pw", &p, l); }
static int op_cert(uint8_t *o, size_t *l) { uint8_t *p = o; *l = 0; uint8_t sn[8] = { 1 }; return x509_cert_sign_to_der(X509_version_v3, sn, 8, OID_sm2sign_with_sm3, NM, NML, VENV_NOW, VENV_NOW + 1000, NM, NML, &CK[1], NULL, 0, NULL, 0, NULL, 0, &CK[0], SM2_DEFAULT_ID, 16, &p, l); }
static int op_req(uint8_t *o, size_t *l) { uint8_t *p = o; *l = 0; return x509_req_sign_to_der(X509_version_v1, NM, NML, &CK[0], (const uint8_t *)"", 0, OID_sm2sign_with_sm3, &CK[0], SM2_DEFAULT_ID, 16, &p, l); }
static int op_crl(uint8_t *o, size_t *l) { uint8_t *p = o; *l = 0; return x509_crl_sign_to_der(X509_version_v2, OID_sm2sign_with_sm3, NM, NML, VENV_NOW, VENV_NOW + 1000, NULL, 0, NULL, 0, &CK[0], SM2_DEFAULT_ID, 16, &p, l); }
static int op_cms_sign(uint8_t *o, size_t *l) { CMS_CERTS_AND_KEY s = { LCERT, LCERTL, &CK[2] }; *l = 0; return cms_sign(o, l, &s, 1, OID_cms_data, MSG40, 40, NULL, 0); }
static int op_cms_envelop(uint8_t *o, size_t *l) { uint8_t k[16] = { 1 }, iv[16] = { 2 }; *l = 0; return cms_envelop(o, l, LCERT, LCERTL, OID_sm4_cbc, k, 16, iv, 16, OID_cms_data, MSG40, 40, NULL, 0, NULL, 0); }
static SM3_HMAC_CTX HM; static SM4_KEY EK;
static int op_cbc_iv(uint8_t *o, size_t *l) { uint8_t rec[64] = { 23, 1, 1, 0, 40 }; memcpy(rec + 5, MSG40, 40); uint8_t seq[8] = {0}; return tls_record_encrypt(&HM, &EK, seq, rec, 45, o, l); }
static int op_sm9_msk(uint8_t *o, size_t *l) { SM9_SIGN_MASTER_KEY m; int r = sm9_sign_master_key_generate(&m); if (r == 1) { sm9_z256_twist_point_to_uncompressed_octets(&m.Ppubs, o); *l = 129; } return r; }
static int op_sm9_emsk(uint8_t *o, size_t *l) { SM9_ENC_MASTER_KEY m; int r = sm9_enc_master_key_generate(&m); if (r == 1) { sm9_z256_point_to_uncompressed_octets(&m.Ppube, o); *l = 65; } return r; }
static int op_sm9_sign(uint8_t *o, size_t *l) { SM9_SIGN_CTX c; if (sm9_sign_init(&c) != 1 || sm9_sign_update(&c, MSG40, 40) != 1) return -1; return sm9_sign_finish(&c, &S9K, o, l); }
static int op_sm9_encrypt(uint8_t *o, size_t *l) { return sm9_encrypt(&E9M, "alice", 5, MSG40, 40, o, l); }
static int op_sm9_kem(uint8_t *o, size_t *l) { SM9_Z256_POINT C; uint8_t k[32]; int r = sm9_kem_encrypt(&E9M, "alice", 5, 32, k, &C); if (r == 1) { sm9_z256_point_to_uncompressed_octets(&C, o); *l = 65; } return r; }
static int op_sm9_exch1a(uint8_t *o, size_t *l) { SM9_Z256_POINT RA; sm9_z256_t rA; int r = sm9_exch_step_1A(&E9M, "bob", 3, &RA, rA); if (r == 1) { sm9_z256_point_to_uncompressed_octets(&RA, o); *l = 65; } return r; }
static int op_sm9_exch1b(uint8_t *o, size_t *l) { SM9_Z256_POINT RA, RB; sm9_z256_t rA; uint8_t sk[16]; venv_stream sv = *venv_cur(); venv_reset(777); if (sm9_exch_step_1A(&E9M, "bob", 3, &RA, rA) != 1) return -9; *venv_cur() = sv; int r = sm9_exch_step_1B(&E9M, "alice", 5, "bob", 3, &E9KB, &RA, &RB, sk, 16); if (r == 1) { sm9_z256_point_to_uncompressed_octets(&RB, o); *l = 65; } return r; }
static int op_sm9_p8_sm(uint8_t *o, size_t *l) { uint8_t *p = o; *l = 0; return sm9_sign_master_key_info_encrypt_to_der(&S9M, "pw", &p, l); }
static int op_sm9_p8_sk(uint8_t *o, size_t *l) { uint8_t *p = o; *l = 0; return sm9_sign_key_info_encrypt_to_der(&S9K, "pw", &p, l); }
static int op_sm9_p8_em(uint8_t *o, size_t *l) { uint8_t *p = o; *l = 0; return sm9_enc_master_key_info_encrypt_to_der(&E9M, "pw", &p, l); }
static int op_sm9_p8_ek(uint8_t *o, size_t *l) { uint8_t *p = o; *l = 0; return sm9_enc_key_info_encrypt_to_der(&E9K, "pw", &p, l); }
static int op_sm9_p8_pem(uint8_t *o, size_t *l) { char *t = NULL; size_t tl = 0; FILE *f = open_memstream(&t, &tl); int r = sm9_sign_key_info_encrypt_to_pem(&S9K, "pw", f); fclose(f); if (tl > 4000) tl = 4000; memcpy(o, t, tl); *l = tl; free(t); return r; }
static int op_sm2_p8_pem(uint8_t *o, size_t *l) { char *t = NULL; size_t tl = 0; FILE *f = open_memstream(&t, &tl); int r = sm2_private_key_info_encrypt_to_pem(&CK[0], "pw", f); fclose(f); if (tl > 4000) tl = 4000; memcpy(o, t, tl); *l = tl; free(t); return r; }
static const struct { const char *name; op_f f; int sm9; } OPS[] = { { "sm9_sign_master_key_info_encrypt", op_sm9_p8_sm, 1 }, { "sm9_sign_key_info_encrypt", op_sm9_p8_sk, 1 }, { "sm9_enc_master_key_info_encrypt", op_sm9_p8_em, 1 }, { "sm9_enc_key_info_encrypt", op_sm9_p8_ek, 1 }, { "sm9_sign_key_info_encrypt_to_pem", op_sm9_p8_pem, 1 }, { "sm2_private_key_info_encrypt_to_pem", op_sm2_p8_pem }, { "sm2_key_generate", op_keygen }, { "sm2_sign", op_sign }, { "sm2_do_sign", op_do_sign }, { "sm2_sign_fixlen", op_sign_fixlen }, { "sm2_sign_init+finish", op_sign_ctx }, { "sm2_encrypt", op_encrypt }, { "sm2_encrypt_fixlen", op_encrypt_fixlen }, { "sm2_encrypt_init+finish", op_encrypt_ctx },
	{ "pkcs8_encrypt", op_p8 }, { "x509_cert_sign", op_cert }, { "x509_req_sign", op_req }, { "x509_crl_sign", op_crl }, { "cms_sign", op_cms_sign }, { "cms_envelop", op_cms_envelop }, { "tls_cbc_encrypt", op_cbc_iv },
	{ "sm9_sign_master_key_generate", op_sm9_msk, 1 }, { "sm9_enc_master_key_generate", op_sm9_emsk, 1 }, { "sm9_sign", op_sm9_sign, 1 }, { "sm9_encrypt", op_sm9_encrypt, 1 }, { "sm9_kem_encrypt", op_sm9_kem, 1 }, { "sm9_exch_step_1A", op_sm9_exch1a, 1 }, { "sm9_exch_step_1B", op_sm9_exch1b, 1 } };
#define NOPS (sizeof OPS / sizeof OPS[0])
static uint8_t OA[70000], OB[70000], OC[70000];
static void blk_ops(void) {
	for (size_t oi = 0; oi < NOPS; oi++) { char bn[64]; snprintf(bn, sizeof bn, "op-%s", OPS[oi].name); if (!vh_block_begin(bn)) continue; if (OPS[oi].sm9 && !s9ready) { if (vh_next()) vh_viol("C18:sm9-setup-failed", "\"x\":1"); continue; }
		char key[200]; size_t la = 0, lb = 0, lc = 0; long N = 0; int ra = 0;
		if (vh_next()) { /* case 0: clean A, A again, B */ venv_reset(SA); memset(OA, 0xEE, 4096); ra = OPS[oi].f(OA, &la); N = venv_cur()->draws; vh_eval(vh_mix(oi * 1000 + 1));
			if (ra != 1) { snprintf(key, sizeof key, "C18:%s:clean-run-fails", OPS[oi].name); vh_viol(key, "\"ret\":%d", ra); }
			else { if (N == 0) { snprintf(key, sizeof key, "C18:%s:draws-no-entropy", OPS[oi].name); vh_viol(key, "\"x\":1"); }
				venv_reset(SA); memset(OC, 0xEE, 4096); int rc = OPS[oi].f(OC, &lc); vh_eval(vh_mix(oi * 1000 + 2)); if (rc != 1 || lc != la || memcmp(OA, OC, la)) { snprintf(key, sizeof key, "C18:%s:same-stream-different-output", OPS[oi].name); vh_viol(key, "\"la\":%zu,\"lc\":%zu", la, lc); }
				venv_reset(SB); memset(OB, 0xEE, 4096); int rb = OPS[oi].f(OB, &lb); vh_eval(vh_mix(oi * 1000 + 3)); if (rb == 1 && lb == la && !memcmp(OA, OB, la)) { snprintf(key, sizeof key, "C18:%s:different-streams-same-output", OPS[oi].name); vh_viol(key, "\"out\":\"%s\"", vh_hex(OA, la > 80 ? 80 : la)); } }
			vh_sample("{\"block\":\"%s\",\"draws\":%ld,\"outlen\":%zu}", bn, N, la); }
		else { venv_reset(SA); ra = OPS[oi].f(OA, &la); N = venv_cur()->draws; }
		/* one case per failing draw index */
		for (long i = 0; i < N; i++) { if (!vh_next()) continue; venv_reset(SA); venv_fail_at(i); memset(OB, 0xEE, 4096); lb = 0; int r = OPS[oi].f(OB, &lb); vh_eval(vh_mix(oi * 1000 + 100 + (uint64_t)i));
			if (venv_cur()->failed == 0) continue; /* this run did not reach draw i (data-dependent retry count) */
			if (r == 1) { snprintf(key, sizeof key, "C18:%s:reports-success-although-draw-failed", OPS[oi].name); vh_viol(key, "\"failed_draw\":%ld,\"of\":%ld,\"outlen\":%zu", i, N, lb); } }
		/* a source stuck at all-ones for 120 consecutive draws starting at draw j (a range-checked candidate can then never be accepted: the bounded retry loops give
		   up), under two different streams: an operation that still reports success must not have produced the same bytes under both (it would then depend on the
		   stuck value alone - a nonce outside the range used as if it had been drawn). Draws that are plain octets (IV, salt) are not judged: there the source's octets ARE the output. */
		for (long j = 0; j < N && j < 40; j++) { if (!vh_next()) continue; /* only draws that are range-checked candidates: one all-ones answer there makes the operation draw again */ venv_reset(SA); venv_ff_at(j); memset(OB, 0xEE, 4096); lb = 0; (void)OPS[oi].f(OB, &lb); if (venv_cur()->draws <= N) continue; venv_reset(SA); venv_ff_window(j, 120); memset(OB, 0xEE, 4096); lb = 0; int r1 = OPS[oi].f(OB, &lb); venv_reset(SB); venv_ff_window(j, 120); memset(OC, 0xEE, 4096); lc = 0; int r2 = OPS[oi].f(OC, &lc); vh_eval(vh_mix(oi * 1000 + 800 + (uint64_t)j));
			if (r1 == 1 && r2 == 1 && lb == lc && lb && !memcmp(OB, OC, lb)) { snprintf(key, sizeof key, "C18:%s:same-output-under-different-streams-when-the-source-sticks-at-all-ones", OPS[oi].name); vh_viol(key, "\"stuck_from_draw\":%ld,\"outlen\":%zu", j, lb); } }
		/* a candidate that is out of range forces a redraw: draw j answered with all-0xff octets, draw j+1 failing (retry loops must fail closed too) */
		for (long j = 0; j < N && j < 48; j++) { if (!vh_next()) continue; venv_reset(SA); venv_ff_at(j); venv_fail_at(j + 1); memset(OB, 0xEE, 4096); lb = 0; int r = OPS[oi].f(OB, &lb); vh_eval(vh_mix(oi * 1000 + 600 + (uint64_t)j));
			if (venv_cur()->failed == 0) continue; if (r == 1) { snprintf(key, sizeof key, "C18:%s:reports-success-although-redraw-failed", OPS[oi].name); vh_viol(key, "\"all_ff_draw\":%ld,\"failed_draw\":%ld,\"outlen\":%zu", j, j + 1, lb); } }
	}
}
/* long same-stream sequences: nonces never reused (r values of signatures over one digest, C1 of ciphertexts) */
static void blk_sequences(void) {
	if (!vh_block_begin("sequences")) return; int reps = vh_thorough ? 1000 : 200;
	if (vh_next()) { venv_reset(SA); SM2_SIGN_CTX c; if (sm2_sign_init(&c, &CK[0], SM2_DEFAULT_ID, 16) != 1) { vh_viol("C18:sequences:sign_init", "\"x\":1"); return; } static uint8_t R[1000][32]; int n = 0;
		for (int i = 0; i < reps; i++) { uint8_t sig[80]; size_t sl = 0; sm2_sign_reset(&c); sm2_sign_update(&c, MSG40, 40); if (sm2_sign_finish(&c, sig, &sl) != 1) { vh_viol("C18:sequences:streaming-sign-failed", "\"i\":%d", i); break; } SM2_SIGNATURE s; const uint8_t *p = sig; size_t l = sl; sm2_signature_from_der(&s, &p, &l); memcpy(R[n++], s.r, 32); }
		vh_eval(5551); for (int i = 0; i < n; i++) for (int j = i + 1; j < n; j++) if (!memcmp(R[i], R[j], 32)) { vh_viol("C18:sequences:streaming-signer-reuses-a-nonce", "\"i\":%d,\"j\":%d", i, j); i = n; break; }
		vh_sample("{\"block\":\"sequences\",\"op\":\"streaming-sign\",\"repetitions\":%d}", n); }
	if (vh_next()) { venv_reset(SA); static uint8_t R[1000][32]; int n = 0; for (int i = 0; i < reps; i++) { SM2_SIGNATURE s; if (sm2_do_sign(&CK[0], DG, &s) != 1) break; memcpy(R[n++], s.r, 32); } vh_eval(5552); for (int i = 0; i < n; i++) for (int j = i + 1; j < n; j++) if (!memcmp(R[i], R[j], 32)) { vh_viol("C18:sequences:sm2_do_sign-reuses-a-nonce", "\"i\":%d,\"j\":%d", i, j); i = n; break; } }
	if (vh_next()) { venv_reset(SA); static uint8_t R[1000][64]; int n = 0; for (int i = 0; i < reps / 4; i++) { SM2_CIPHERTEXT C; if (sm2_do_encrypt(&CK[1], MSG40, 40, &C) != 1) break; memcpy(R[n++], &C.point, 64); } vh_eval(5553); for (int i = 0; i < n; i++) for (int j = i + 1; j < n; j++) if (!memcmp(R[i], R[j], 64)) { vh_viol("C18:sequences:sm2_do_encrypt-reuses-a-nonce", "\"i\":%d,\"j\":%d", i, j); i = n; break; } }
	if (vh_next()) { venv_reset(SA); SM2_ENC_CTX c; sm2_encrypt_init(&c); static uint8_t R[300][64]; int n = 0; for (int i = 0; i < reps / 4; i++) { uint8_t ct[400]; size_t cl = 0; sm2_encrypt_reset(&c); sm2_encrypt_update(&c, MSG40, 40); if (sm2_encrypt_finish(&c, &CK[1], ct, &cl) != 1) break; SM2_CIPHERTEXT C; const uint8_t *p = ct; size_t l = cl; sm2_ciphertext_from_der(&C, &p, &l); memcpy(R[n++], &C.point, 64); } vh_eval(5554); for (int i = 0; i < n; i++) for (int j = i + 1; j < n; j++) if (!memcmp(R[i], R[j], 64)) { vh_viol("C18:sequences:streaming-encryptor-reuses-a-nonce", "\"i\":%d,\"j\":%d", i, j); i = n; break; } }
	/* one entropy failure anywhere in a long run of the streaming signer, the caller carrying on with the same context afterwards:
	   every signature that is returned must verify and no nonce may repeat (same message => equal r iff equal nonce) */
	for (long fi = 0; fi < 100; fi++) { if (!vh_next()) continue; venv_reset(SA); venv_fail_at(fi); SM2_SIGN_CTX c; vh_eval(vh_mix(770000 + (uint64_t)fi)); if (sm2_sign_init(&c, &CK[0], SM2_DEFAULT_ID, 16) != 1) continue; static uint8_t R[120][32]; int n = 0, failed = 0, bad = -1;
		for (int i = 0; i < 110; i++) { uint8_t sig[80]; size_t sl = 0; sm2_sign_reset(&c); sm2_sign_update(&c, MSG40, 40); if (sm2_sign_finish(&c, sig, &sl) != 1) { failed++; continue; } SM2_VERIFY_CTX v; sm2_verify_init(&v, &CK[0], SM2_DEFAULT_ID, 16); sm2_verify_update(&v, MSG40, 40); if (sm2_verify_finish(&v, sig, sl) != 1 && bad < 0) bad = i; SM2_SIGNATURE sg; const uint8_t *p = sig; size_t l = sl; sm2_signature_from_der(&sg, &p, &l); memcpy(R[n++], sg.r, 32); }
		if (bad >= 0) vh_viol("C18:sequences:signature-after-entropy-failure-does-not-verify", "\"failing_draw\":%ld,\"signature_index\":%d", fi, bad);
		for (int i = 0; i < n; i++) for (int j = i + 1; j < n; j++) if (!memcmp(R[i], R[j], 32)) { vh_viol("C18:sequences:nonce-reused-after-entropy-failure", "\"failing_draw\":%ld,\"i\":%d,\"j\":%d,\"failed_calls\":%d", fi, i, j, failed); i = n; break; } }
}
/* ---- handshake roles ---- */
typedef struct { int status, c_hs, s_hs; long c_draws, s_draws; int c_failed, s_failed, late_records; uint8_t first_c[200], first_s[200]; size_t fcl, fsl; uint64_t transcript; } hout_t; static hout_t *HO; static side_creds HS[3], HC[3]; static char HFAIL[32];
static volatile int SNAP_DIR = -1, SNAP_IDX = -1;
static void fail_hook(void) { if (vn_me >= 0 && SNAP_DIR < 0) { SNAP_DIR = vn_me == 0 ? 1 : 0; /* client sends in dir 1 */ SNAP_IDX = vn_recidx[SNAP_DIR]; } }
static void hs_exec(int proto, int mutual, uint64_t ck, uint64_t sk, long cfail, long sfail) { memset(HO, 0, sizeof *HO); HFAIL[0] = 0; fflush(stdout); pid_t pid = fork(); if (pid == 0) { if (!freopen("/dev/null", "w", stderr) || !freopen("/dev/null", "w", stdout)) {} alarm(30);
		static ep_t c, s; memset(&c, 0, sizeof c); memset(&s, 0, sizeof s); c.proto = s.proto = proto; c.is_client = 1; c.mutual = s.mutual = mutual; c.own = &HC[proto]; s.own = &HS[proto]; c.trust = &HS[proto]; s.trust = mutual ? &HC[proto] : NULL; c.entropy_key = ck; s.entropy_key = sk; c.entropy_fail_at = cfail; s.entropy_fail_at = sfail; c.do_app = s.do_app = 1; c.out = (app_dir){ { 9 }, 1, 64 }; s.in = c.out; s.out = (app_dir){ { 11 }, 1, 64 }; c.in = s.out;
		venv_fail_hook = fail_hook; int cr, sr; HO->status = vnet_run2(ep_task, &c, ep_task, &s, &cr, &sr); HO->c_hs = c.hs_ret; HO->s_hs = s.hs_ret; HO->c_draws = c.draws; HO->s_draws = s.draws; HO->c_failed = cfail >= 0; HO->s_failed = sfail >= 0;
		uint64_t h = 0; for (int i = 0; i < vn_nlog; i++) { h = vh_hash(vn_log[i].copy, vn_log[i].len, h); if (vn_log[i].dir == 1 && !HO->fcl) { HO->fcl = vn_log[i].len < 200 ? vn_log[i].len : 200; memcpy(HO->first_c, vn_log[i].copy, HO->fcl); } if (vn_log[i].dir == 0 && !HO->fsl) { HO->fsl = vn_log[i].len < 200 ? vn_log[i].len : 200; memcpy(HO->first_s, vn_log[i].copy, HO->fsl); } } HO->transcript = h;
		if (SNAP_DIR >= 0) { int idx = 0; for (int i = 0; i < vn_nlog; i++) if (vn_log[i].dir == SNAP_DIR) { if (idx >= SNAP_IDX && (vn_log[i].hdr[0] == 22 || vn_log[i].hdr[0] == 20 || vn_log[i].hdr[0] == 23)) HO->late_records++; idx++; } } _exit(0); }
	int st; while (waitpid(pid, &st, 0) < 0 && errno == EINTR) {} if (!WIFEXITED(st) || WEXITSTATUS(st)) snprintf(HFAIL, sizeof HFAIL, "%s", WIFSIGNALED(st) && WTERMSIG(st) == SIGALRM ? "hang" : "crash"); }
static void blk_handshakes(void) {
	for (int p = 0; p < 3; p++) for (int m = 0; m < 2; m++) { char bn[64]; snprintf(bn, sizeof bn, "handshake-%s-%s", PNAME[p], m ? "mutual" : "serverauth"); if (!vh_block_begin(bn)) continue; char key[200];
		hs_exec(p, m, SA, SB, -1, -1); hout_t a = *HO; if (HFAIL[0] || a.c_hs != 1 || a.s_hs != 1) { if (vh_next()) vh_viol("C18:handshake:clean-run-fails", "\"proto\":\"%s\"", PNAME[p]); continue; }
		if (vh_next()) { hs_exec(p, m, SA, SB, -1, -1); vh_eval(vh_mix(p * 10 + m + 1)); if (HO->transcript != a.transcript) { snprintf(key, sizeof key, "C18:%s:same-streams-different-transcript", bn); vh_viol(key, "\"x\":1"); }
			hs_exec(p, m, SA + 1, SB + 1, -1, -1); vh_eval(vh_mix(p * 10 + m + 2)); if (HO->fcl == a.fcl && !memcmp(HO->first_c, a.first_c, a.fcl)) { snprintf(key, sizeof key, "C18:%s:client-hello-identical-under-different-entropy", bn); vh_viol(key, "\"x\":1"); } if (HO->fsl == a.fsl && !memcmp(HO->first_s, a.first_s, a.fsl)) { snprintf(key, sizeof key, "C18:%s:server-hello-identical-under-different-entropy", bn); vh_viol(key, "\"x\":1"); }
			vh_sample("{\"block\":\"%s\",\"client_draws\":%ld,\"server_draws\":%ld}", bn, a.c_draws, a.s_draws); }
		for (int role = 0; role < 2; role++) { long N = role ? a.s_draws : a.c_draws; for (long i = 0; i < N; i++) { if (!vh_next()) continue; hs_exec(p, m, SA, SB, role ? -1 : i, role ? i : -1); vh_eval(vh_mix(p * 100000 + m * 50000 + role * 20000 + (uint64_t)i)); const char *rn = role ? "server" : "client";
			if (HFAIL[0]) { snprintf(key, sizeof key, "C18:%s:%s-draw-fails:%s", bn, rn, HFAIL); vh_viol(key, "\"failed_draw\":%ld,\"of\":%ld", i, N); continue; }
			int done = role ? HO->s_hs == 1 : HO->c_hs == 1; if (done) { snprintf(key, sizeof key, "C18:%s:%s-completes-handshake-although-draw-failed", bn, rn); vh_viol(key, "\"failed_draw\":%ld,\"of\":%ld", i, N); }
			else if (HO->late_records) { snprintf(key, sizeof key, "C18:%s:%s-keeps-sending-after-failed-draw", bn, rn); vh_viol(key, "\"failed_draw\":%ld,\"of\":%ld,\"records_after\":%d", i, N, HO->late_records); } } } }
}
static void body_ops(void) { blk_ops(); blk_sequences(); }
int main(int argc, char **argv) { vh_init(argc, argv); app_fill(); for (int i = 0; i < 40; i++) MSG40[i] = (uint8_t)(i + 1); setup(); { uint8_t mk[32] = { 7 }, k[16] = { 9 }; sm3_hmac_init(&HM, mk, 32); sm4_set_encrypt_key(&EK, k); }
	HO = mmap(NULL, sizeof *HO, PROT_READ | PROT_WRITE, MAP_SHARED | MAP_ANONYMOUS, -1, 0); for (int p = 0; p < 3; p++) if (build_side(&HS[p], p, 0, 1, NULL) != 1 || build_side(&HC[p], p, 1, 1, NULL) != 1) vh_harness_error("creds");
	blk_handshakes(); if (!freopen("/dev/null", "w", stderr)) {} vh_guarded("C18", body_ops, 60); return vh_finish(); }
