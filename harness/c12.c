/* C12 — imported keys and points are validated on every path.
 * A small set of coordinate values (valid, negated, off-curve, >= p, zero, wrapped) and scalars is pushed through every
 * container the library imports points or keys from; oracle = BN predicate (coordinates < p, curve equation, not infinity). */
#include <gmssl/sm2.h>
#include <gmssl/sm9.h>
#include <gmssl/sm9_z256.h>
#include <gmssl/x509.h>
#include <gmssl/x509_req.h>
#include <gmssl/asn1.h>
#include <gmssl/pem.h>
#include <gmssl/tls.h>
#include "vh.h"
#include <openssl/err.h>
/* exported by the library, not declared in its headers */
int sm2_public_key_from_der(SM2_KEY *key, const uint8_t **in, size_t *inlen);
#include "venv.h"
#include "der.h"
#include "sm2_ref.h"

static uint8_t VAL[32][64]; static const char *VNAME[32]; static int NV, VVALID[32];
static void bn_be(uint8_t o[32], const BIGNUM *b) { sr_bn_to_bytes32(o, b); }
static void addv(const char *n, const uint8_t xy[64]) { memcpy(VAL[NV], xy, 64); VNAME[NV] = n; VVALID[NV] = sr_xy_on_curve(xy); NV++; }
static uint8_t GOOD[64], GOODD[32];
#include "smally.h"
static void build_values(void) {
	sr_init(); BIGNUM *t = BN_new(), *y = BN_new(); const BIGNUM *p = sr_p(); uint8_t v[64];
	BN_hex2bn(&t, "3945208F7B2144B13F36E38AC6D39F95889393692860B51A42FB81EF4DF7C5B8"); bn_be(GOODD, t); sr_pubkey(GOODD, GOOD);
	addv("valid", GOOD);
	memcpy(v, GOOD, 64); BN_bin2bn(GOOD + 32, 32, y); BN_sub(y, p, y); bn_be(v + 32, y); addv("negated-y(valid)", v);
	memcpy(v, GOOD, 64); BN_bin2bn(GOOD + 32, 32, y); BN_add_word(y, 1); bn_be(v + 32, y); addv("y+1", v);
	memset(v, 0, 64); addv("zero", v);
	memcpy(v, GOOD, 64); bn_be(v, p); addv("x=p", v);
	memcpy(v, GOOD, 64); bn_be(v + 32, p); addv("y=p", v);
	memcpy(v, GOOD, 64); memset(v, 0xff, 32); addv("x=2^256-1", v);
	memcpy(v, GOOD, 64); memset(v + 32, 0xff, 32); addv("y=2^256-1", v);
	/* a valid point with a small x (so that x+p fits in 256 bits), then the wrapped form x+p */
	for (unsigned xs = 0, found = 0; xs < 200 && found < 2; xs++) { uint8_t c[64] = {0}; c[31] = (uint8_t)xs; EC_POINT *P = EC_POINT_new(sr_group()); BN_set_word(t, xs); if (EC_POINT_set_compressed_coordinates(sr_group(), P, t, 0, sr_ctx()) == 1) { sr_point_to_xy(P, c); addv("valid-small-x", c); BN_add(t, t, p); bn_be(v, t); memcpy(v + 32, c + 32, 32); addv("small-x+p", v);
			BN_bin2bn(c + 32, 32, y); BN_add(y, y, p); if (BN_num_bits(y) <= 256) { memcpy(v, c, 32); bn_be(v + 32, y); addv("small-x,y+p", v); } found++; } EC_POINT_free(P); ERR_clear_error(); }
	/* a genuine curve point with a SMALL y (so that y+p still fits in 256 bits): solve x^3 - 3x + b - y^2 = 0 over F_p for y = 1,2,... (cubic with exactly one root, found as gcd(x^p - x, f)) */
	for (unsigned ys = 1; ys < 40; ys++) { uint8_t c[64] = {0}; if (small_y_point(ys, c)) { if (!sr_xy_on_curve(c)) vh_harness_error("root finder produced an off-curve point"); addv("valid-small-y", c); memcpy(v, c, 64); BN_set_word(t, ys); BN_add(t, t, p); bn_be(v + 32, t); addv("small-y+p", v); memcpy(v, c, 64); bn_be(v + 32, p); BN_set_word(t, ys); BN_sub(t, p, t); bn_be(v + 32, t); addv("small-y-negated(valid)", v); break; } }
	/* the OTHER points on the horizontal line through the good key: same y, x' = (-x +- sqrt(12 - 3x^2)) / 2 (they exist for about half of all points): valid points, and the nearest
	   possible miss for anything that compares two points coordinate by coordinate */
	{ BIGNUM *x = BN_new(), *sq = BN_new(), *h = BN_new(), *two = BN_new(); BN_CTX *c = sr_ctx(); BN_bin2bn(GOOD, 32, x); BN_mod_sqr(sq, x, p, c); BN_mul_word(sq, 3); BN_set_word(h, 12); BN_mod_sub(sq, h, sq, p, c); BIGNUM *rt = BN_mod_sqrt(NULL, sq, p, c); ERR_clear_error();
	  if (rt) { BN_set_word(two, 2); BN_mod_inverse(two, two, p, c); for (int sg = 0; sg < 2; sg++) { if (sg) BN_sub(rt, p, rt); BN_mod_sub(h, rt, x, p, c); BN_mod_mul(h, h, two, p, c); memcpy(v, GOOD, 64); bn_be(v, h); if (sr_xy_on_curve(v) && memcmp(v, GOOD, 32)) addv(sg ? "same-y-other-x-2(valid)" : "same-y-other-x-1(valid)", v); } BN_free(rt); }
	  else vh_obs("the good key has no same-y partner points"); BN_free(x); BN_free(sq); BN_free(h); BN_free(two); }
	memset(v, 0, 64); v[31] = 1; addv("x=1,y=0", v); memset(v, 0, 64); v[63] = 1; addv("x=0,y=1", v);
	BN_free(t); BN_free(y);
}
static void verdict(const char *container, int vi, int ret, const uint8_t *back /* 64 bytes read back or NULL */) {
	char key[160]; vh_eval(vh_hash(container, strlen(container), vi + 1));
	if (ret == 1 && !VVALID[vi]) { snprintf(key, sizeof key, "C12:%s:accepts:%s", container, VNAME[vi]); vh_viol(key, "\"xy\":\"%s\"", vh_hex(VAL[vi], 64)); }
	else if (ret == 1 && back && (memcmp(back, VAL[vi], 64) || !sr_xy_on_curve(back))) { snprintf(key, sizeof key, "C12:%s:imported-object-differs:%s", container, VNAME[vi]); vh_viol(key, "\"in\":\"%s\",\"out\":\"%s\"", vh_hex(VAL[vi], 64), vh_hex(back, 64)); }
	else if (ret != 1 && vi == 0) { snprintf(key, sizeof key, "C12:%s:valid-rejected", container); vh_viol(key, "\"xy\":\"%s\",\"ret\":%d", vh_hex(VAL[vi], 64), ret); }
}
static void key_back(const SM2_KEY *k, uint8_t b[64]) { memset(b, 0, 64); if (!sm2_z256_point_is_at_infinity(&k->public_key)) sm2_z256_point_to_bytes(&k->public_key, b); }
/* replace the 64 coordinate bytes that follow the first occurrence of `GOOD` inside a DER object */
static int subst(uint8_t *der, size_t n, const uint8_t newxy[64]) { for (size_t i = 0; i + 64 <= n; i++) if (!memcmp(der + i, GOOD, 64)) { memcpy(der + i, newxy, 64); return 1; } return 0; }

static uint8_t SPKI[200]; static size_t SPKIL; static uint8_t CERT[1024]; static size_t CERTL; static uint8_t REQ[1024]; static size_t REQL; static uint8_t PRIV[200]; static size_t PRIVL; static uint8_t P8[300]; static size_t P8L;
static void build_containers(void) {
	SM2_KEY k; sm2_z256_t d; sm2_z256_from_bytes(d, GOODD); if (sm2_key_set_private_key(&k, d) != 1) vh_harness_error("key");
	uint8_t *p = SPKI; SPKIL = 0; if (sm2_public_key_info_to_der(&k, &p, &SPKIL) != 1) vh_harness_error("spki");
	uint8_t name[256]; size_t nl = 0; if (x509_name_set(name, &nl, sizeof name, "CN", NULL, NULL, NULL, NULL, "t") != 1) vh_harness_error("name");
	uint8_t serial[4] = { 1, 2, 3, 4 }; p = CERT; CERTL = 0; venv_reset(1);
	if (x509_cert_sign_to_der(X509_version_v3, serial, 4, OID_sm2sign_with_sm3, name, nl, VENV_NOW - 1000, VENV_NOW + 100000, name, nl, &k, NULL, 0, NULL, 0, NULL, 0, &k, SM2_DEFAULT_ID, SM2_DEFAULT_ID_LENGTH, &p, &CERTL) != 1) vh_harness_error("cert");
	p = REQ; REQL = 0; if (x509_req_sign_to_der(X509_version_v1, name, nl, &k, (const uint8_t *)"", 0, OID_sm2sign_with_sm3, &k, SM2_DEFAULT_ID, SM2_DEFAULT_ID_LENGTH, &p, &REQL) != 1) vh_harness_error("req");
	p = PRIV; PRIVL = 0; if (sm2_private_key_to_der(&k, &p, &PRIVL) != 1) vh_harness_error("priv"); p = P8; P8L = 0; if (sm2_private_key_info_to_der(&k, &p, &P8L) != 1) vh_harness_error("p8");
}
static FILE *memfile(const void *b, size_t n) { FILE *f = tmpfile(); if (n) fwrite(b, 1, n, f); rewind(f); return f; }

static void blk_points(void) {
	if (!vh_block_begin("sm2-point-containers")) return;
	for (int vi = 0; vi < NV; vi++) { if (!vh_next()) continue; uint8_t b[64], m[1100]; SM2_Z256_POINT P; SM2_KEY k; int r;
		r = sm2_z256_point_from_bytes(&P, VAL[vi]); if (r == 1) sm2_z256_point_to_bytes(&P, b); verdict("sm2_z256_point_from_bytes", vi, r, r == 1 ? b : NULL);
		{ uint8_t o[65]; o[0] = 4; memcpy(o + 1, VAL[vi], 64); r = sm2_z256_point_from_octets(&P, o, 65); if (r == 1 && !sm2_z256_point_is_at_infinity(&P)) sm2_z256_point_to_bytes(&P, b); else memset(b, 0, 64); verdict("sm2_z256_point_from_octets", vi, r, r == 1 ? b : NULL);
			uint8_t der[80], *dp = der; size_t dl = der_put_tlv(der, 0x04, o, 65); const uint8_t *cp = der; (void)dp; r = sm2_z256_point_from_der(&P, &cp, &dl); if (r == 1 && !sm2_z256_point_is_at_infinity(&P)) sm2_z256_point_to_bytes(&P, b); else memset(b, 0, 64); verdict("sm2_z256_point_from_der", vi, r, r == 1 ? b : NULL); }
		{ memcpy(m, SPKI, SPKIL); subst(m, SPKIL, VAL[vi]); const uint8_t *cp = m; size_t l = SPKIL; r = sm2_public_key_info_from_der(&k, &cp, &l); key_back(&k, b); verdict("sm2_public_key_info_from_der", vi, r, r == 1 ? b : NULL);
			FILE *f = tmpfile(); pem_write(f, "PUBLIC KEY", m, SPKIL); rewind(f); r = sm2_public_key_info_from_pem(&k, f); fclose(f); key_back(&k, b); verdict("sm2_public_key_info_from_pem", vi, r, r == 1 ? b : NULL); }
		{ memcpy(m, CERT, CERTL); subst(m, CERTL, VAL[vi]); r = x509_cert_get_subject_public_key(m, CERTL, &k); key_back(&k, b); verdict("x509_cert_get_subject_public_key", vi, r, r == 1 ? b : NULL); }
		{ memcpy(m, REQ, REQL); subst(m, REQL, VAL[vi]); int ver; const uint8_t *s, *at, *sg; size_t sl, al, sgl; int alg; r = x509_req_get_details(m, REQL, &ver, &s, &sl, &k, &at, &al, &alg, &sg, &sgl); key_back(&k, b); verdict("x509_req_get_details", vi, r, r == 1 ? b : NULL); }
		/* private key containers whose embedded public key is replaced: must be refused unless it is the matching key (vi==0) */
		{ memcpy(m, PRIV, PRIVL); subst(m, PRIVL, VAL[vi]); const uint8_t *cp = m; size_t l = PRIVL; r = sm2_private_key_from_der(&k, &cp, &l); vh_eval(vh_mix(vi + 7001)); if ((r == 1) != (vi == 0)) { char key[128]; snprintf(key, sizeof key, "C12:sm2_private_key_from_der:%s:%s", vi == 0 ? "valid-rejected" : "mismatching-public-key-accepted", VNAME[vi]); vh_viol(key, "\"pub\":\"%s\"", vh_hex(VAL[vi], 64)); }
			memcpy(m, P8, P8L); subst(m, P8L, VAL[vi]); cp = m; l = P8L; const uint8_t *at; size_t al; r = sm2_private_key_info_from_der(&k, &at, &al, &cp, &l); vh_eval(vh_mix(vi + 7101)); if ((r == 1) != (vi == 0)) { char key[128]; snprintf(key, sizeof key, "C12:sm2_private_key_info_from_der:%s:%s", vi == 0 ? "valid-rejected" : "mismatching-public-key-accepted", VNAME[vi]); vh_viol(key, "\"pub\":\"%s\"", vh_hex(VAL[vi], 64)); }
			FILE *f = tmpfile(); pem_write(f, "EC PRIVATE KEY", m, 0); fclose(f); }
		/* SM2 ciphertext C1 */
		{ SM2_KEY dk; sm2_z256_t d; sm2_z256_from_bytes(d, GOODD); sm2_key_set_private_key(&dk, d); SM2_CIPHERTEXT C; memset(&C, 0, sizeof C); memcpy(&C.point, VAL[vi], 64); C.ciphertext_size = 5; uint8_t out[16]; size_t ol; r = sm2_do_decrypt(&dk, &C, out, &ol); vh_eval(vh_mix(vi + 7201)); if (r == 1) { char key[128]; snprintf(key, sizeof key, "C12:sm2_do_decrypt:garbage-accepted:%s", VNAME[vi]); vh_viol(key, "\"c1\":\"%s\"", vh_hex(VAL[vi], 64)); } }
		/* ECDH peer share */
		{ SM2_KEY dk; sm2_z256_t d; sm2_z256_from_bytes(d, GOODD); sm2_key_set_private_key(&dk, d); uint8_t o[65], out[64]; o[0] = 4; memcpy(o + 1, VAL[vi], 64); r = sm2_ecdh(&dk, o, 65, out); uint8_t e[64]; int er = sr_ecdh(GOODD, VAL[vi], e); vh_eval(vh_mix(vi + 7301));
			if ((r == 1) != (er == 1) || (r == 1 && memcmp(out, e, 64))) { char key[128]; snprintf(key, sizeof key, "C12:sm2_ecdh:%s:%s", r == 1 ? "accepts" : "rejects-valid", VNAME[vi]); vh_viol(key, "\"peer\":\"%s\"", vh_hex(VAL[vi], 64)); } }
		/* TLS key-exchange messages and key shares: the value in the place of the peer's ephemeral point */
		{ SM2_Z256_POINT G0; sm2_z256_point_from_bytes(&G0, GOOD); static uint8_t rec[600]; size_t rl = 0; uint8_t sig[72]; memset(sig, 0x30, sizeof sig); SM2_Z256_POINT Q; int curve; const uint8_t *sg; size_t sgl;
			tls_record_set_protocol(rec, TLS_protocol_tls12); if (tls_record_set_handshake_server_key_exchange_ecdhe(rec, &rl, TLS_curve_sm2p256v1, &G0, sig, 70) != 1 || !subst(rec, rl, VAL[vi])) vh_harness_error("ske"); r = tls_record_get_handshake_server_key_exchange_ecdhe(rec, &curve, &Q, &sg, &sgl); if (r == 1 && !sm2_z256_point_is_at_infinity(&Q)) sm2_z256_point_to_bytes(&Q, b); else memset(b, 0, 64); verdict("tls_server_key_exchange_ecdhe", vi, r, r == 1 ? b : NULL);
			rl = 0; tls_record_set_protocol(rec, TLS_protocol_tls12); if (tls_record_set_handshake_client_key_exchange_ecdhe(rec, &rl, &G0) != 1 || !subst(rec, rl, VAL[vi])) vh_harness_error("cke"); r = tls_record_get_handshake_client_key_exchange_ecdhe(rec, &Q); if (r == 1 && !sm2_z256_point_is_at_infinity(&Q)) sm2_z256_point_to_bytes(&Q, b); else memset(b, 0, 64); verdict("tls_client_key_exchange_ecdhe", vi, r, r == 1 ? b : NULL);
			uint8_t ext[200], *ep = ext; size_t el = 0; if (tls13_server_key_share_ext_to_bytes(&G0, &ep, &el) != 1 || !subst(ext, el, VAL[vi])) vh_harness_error("sks"); r = tls13_process_server_key_share(ext + 4, el - 4, &Q); if (r == 1 && !sm2_z256_point_is_at_infinity(&Q)) sm2_z256_point_to_bytes(&Q, b); else memset(b, 0, 64); verdict("tls13_server_key_share", vi, r, r == 1 ? b : NULL);
			ep = ext; el = 0; if (tls13_client_key_share_ext_to_bytes(&G0, &ep, &el) != 1 || !subst(ext, el, VAL[vi])) vh_harness_error("cks"); SM2_KEY sk; sm2_z256_t d; sm2_z256_from_bytes(d, GOODD); sm2_key_set_private_key(&sk, d); uint8_t ob[200], *op = ob; size_t ol = 0; r = tls13_process_client_key_share(ext + 4, el - 4, &sk, &Q, &op, &ol); if (r == 1 && !sm2_z256_point_is_at_infinity(&Q)) sm2_z256_point_to_bytes(&Q, b); else memset(b, 0, 64); verdict("tls13_client_key_share", vi, r, r == 1 ? b : NULL); }
		vh_sample("{\"block\":\"sm2-point-containers\",\"value\":\"%s\",\"xy\":\"%s\",\"on_curve\":%d}", VNAME[vi], vh_hex(VAL[vi], 64), VVALID[vi]);
	}
}
/* the peer's key-agreement share inside TLS messages with every LENGTH and PREFIX of the octet string (the readers above only saw 65-octet fields):
   TLS 1.3 client key_share list (the SM2 entry alone, after another group's entry, twice), TLS 1.3 server key_share, TLS 1.2 ECDHE ServerKeyExchange and
   ClientKeyExchange. Whatever is accepted must be a finite point on the curve. */
static void blk_tls_share_lengths(void) {
	if (!vh_block_begin("tls-share-lengths")) return; static const size_t LL[] = { 0, 1, 2, 32, 33, 64, 65, 66, 97 }; static const uint8_t PF[] = { 0x00, 0x01, 0x02, 0x03, 0x04, 0x05, 0x06, 0x07 }; SM2_KEY sk; sm2_z256_t d; sm2_z256_from_bytes(d, GOODD); sm2_key_set_private_key(&sk, d);
	for (int li = 0; li < 9; li++) for (int pi = 0; pi < 8; pi++) for (int fill = 0; fill < 3; fill++) { if (!vh_next()) continue; size_t L = LL[li]; uint8_t key[100]; memset(key, 0, sizeof key); if (fill == 1) { memcpy(key + 1, GOOD, L > 1 ? (L - 1 > 64 ? 64 : L - 1) : 0); } else if (fill == 2) memset(key, 0xff, sizeof key); if (L) key[0] = PF[pi]; char nm[64]; snprintf(nm, sizeof nm, "len=%zu:prefix=%02x:%s", L, PF[pi], fill == 0 ? "zeros" : fill == 1 ? "good-xy" : "ff");
		for (int shape = 0; shape < 6; shape++) { uint8_t m[400]; size_t n = 0; SM2_Z256_POINT Q; memset(&Q, 0xEE, sizeof Q); int r = -9; const char *where = "";
			if (shape <= 2) { /* client key_share: list */ size_t lp = n; n += 2; if (shape == 1) { m[n++] = 0; m[n++] = 23; m[n++] = 0; m[n++] = 65; m[n++] = 4; memset(m + n, 0x11, 64); n += 64; } int reps = shape == 2 ? 2 : 1; for (int rr = 0; rr < reps; rr++) { m[n++] = 0; m[n++] = TLS_curve_sm2p256v1; m[n++] = (uint8_t)(L >> 8); m[n++] = (uint8_t)L; memcpy(m + n, key, L); n += L; } m[lp] = (uint8_t)((n - lp - 2) >> 8); m[lp + 1] = (uint8_t)(n - lp - 2); uint8_t ob[300], *op = ob; size_t ol = 0; uint8_t *hb = (uint8_t *)malloc(n ? n : 1); memcpy(hb, m, n); r = tls13_process_client_key_share(hb, n, &sk, &Q, &op, &ol); free(hb); where = shape == 0 ? "tls13-client-key-share" : shape == 1 ? "tls13-client-key-share-after-another-group" : "tls13-client-key-share-twice"; }
			else if (shape == 3) { m[n++] = 0; m[n++] = TLS_curve_sm2p256v1; m[n++] = (uint8_t)(L >> 8); m[n++] = (uint8_t)L; memcpy(m + n, key, L); n += L; uint8_t *hb = (uint8_t *)malloc(n); memcpy(hb, m, n); r = tls13_process_server_key_share(hb, n, &Q); free(hb); where = "tls13-server-key-share"; }
			else if (shape == 4 && L < 256) { static uint8_t rec[600]; size_t hl = 1 + 2 + 1 + L + 2 + 2 + 70; rec[0] = 22; rec[1] = 3; rec[2] = 3; rec[3] = (uint8_t)((hl + 4) >> 8); rec[4] = (uint8_t)(hl + 4); rec[5] = 12; rec[6] = 0; rec[7] = (uint8_t)(hl >> 8); rec[8] = (uint8_t)hl; n = 9; rec[n++] = 3; rec[n++] = 0; rec[n++] = TLS_curve_sm2p256v1; rec[n++] = (uint8_t)L; memcpy(rec + n, key, L); n += L; rec[n++] = 7; rec[n++] = 8; rec[n++] = 0; rec[n++] = 70; memset(rec + n, 0x30, 70); n += 70; int curve; const uint8_t *sg; size_t sgl; uint8_t *hb = (uint8_t *)malloc(n); memcpy(hb, rec, n); r = tls_record_get_handshake_server_key_exchange_ecdhe(hb, &curve, &Q, &sg, &sgl); free(hb); where = "tls12-server-key-exchange"; }
			else if (shape == 5 && L < 256) { static uint8_t rec[400]; size_t hl = 1 + L; rec[0] = 22; rec[1] = 3; rec[2] = 3; rec[3] = (uint8_t)((hl + 4) >> 8); rec[4] = (uint8_t)(hl + 4); rec[5] = 16; rec[6] = 0; rec[7] = (uint8_t)(hl >> 8); rec[8] = (uint8_t)hl; n = 9; rec[n++] = (uint8_t)L; memcpy(rec + n, key, L); n += L; uint8_t *hb = (uint8_t *)malloc(n); memcpy(hb, rec, n); r = tls_record_get_handshake_client_key_exchange_ecdhe(hb, &Q); free(hb); where = "tls12-client-key-exchange"; } else continue;
			size_t kk[4] = { L, (size_t)pi, (size_t)fill, (size_t)shape }; vh_eval(vh_hash(kk, sizeof kk, 8123));
			if (r == 1 && (sm2_z256_point_is_at_infinity(&Q) || sm2_z256_point_is_on_curve(&Q) != 1)) { char k2[160]; snprintf(k2, sizeof k2, "C12:%s:accepts-a-share-that-is-%s:%s", where, sm2_z256_point_is_at_infinity(&Q) ? "the-point-at-infinity" : "not-on-the-curve", nm); vh_viol(k2, "\"octets\":\"%s\"", vh_hex(key, L > 70 ? 70 : L)); } } }
}
/* octet strings of lengths {1,33,64,65,66} with every prefix byte */
static void blk_octets(void) {
	if (!vh_block_begin("octets-prefix")) return;
	static const size_t LN[] = { 1, 33, 64, 65, 66 }; BIGNUM *x = BN_new(), *y = BN_new();
	for (int li = 0; li < 5; li++) for (int pre = 0; pre < 256; pre++) for (int vi = 0; vi < NV; vi++) {
		if (!vh_next()) continue; if (vi > 1 && !(pre == 4 || pre == 2 || pre == 3)) continue;
		uint8_t o[70] = {0}; o[0] = (uint8_t)pre; memcpy(o + 1, VAL[vi], 64); uint8_t *ob = (uint8_t *)malloc(LN[li]); memcpy(ob, o, LN[li]); SM2_Z256_POINT P; int r = sm2_z256_point_from_octets(&P, ob, LN[li]); free(ob);
		/* expectation: only 04||valid xy (65), 02/03||x with a curve point of that parity (33); 00 (1) is the encoding of infinity: decodable, but never a key */
		int want = 0; uint8_t exy[64] = {0};
		if (pre == 4 && LN[li] == 65 && VVALID[vi]) { want = 1; memcpy(exy, VAL[vi], 64); }
		if ((pre == 2 || pre == 3) && LN[li] == 33) { BN_bin2bn(VAL[vi], 32, x); if (BN_cmp(x, sr_p()) < 0) { EC_POINT *Q = EC_POINT_new(sr_group()); if (EC_POINT_set_compressed_coordinates(sr_group(), Q, x, pre & 1, sr_ctx()) == 1) { want = 1; sr_point_to_xy(Q, exy); } EC_POINT_free(Q); ERR_clear_error(); } }
		int isinf = (pre == 0 && LN[li] == 1); size_t kk[3] = { LN[li], (size_t)pre, (size_t)vi }; vh_eval(vh_hash(kk, sizeof kk, 5)); char key[160];
		if (isinf) { if (r == 1 && !sm2_z256_point_is_at_infinity(&P)) vh_viol("C12:from_octets:00-not-infinity", "\"x\":1"); continue; }
		if (r == 1 && !want) { snprintf(key, sizeof key, "C12:from_octets:accepts:len=%zu:prefix=%02x:%s", LN[li], pre, VNAME[vi]); vh_viol(key, "\"octets\":\"%s\"", vh_hex(o, LN[li])); }
		else if (r == 1) { uint8_t b[64]; if (sm2_z256_point_is_at_infinity(&P) || sm2_z256_point_to_bytes(&P, b) != 1 || memcmp(b, exy, 64)) { snprintf(key, sizeof key, "C12:from_octets:wrong-point:len=%zu:prefix=%02x:%s", LN[li], pre, VNAME[vi]); vh_viol(key, "\"octets\":\"%s\"", vh_hex(o, LN[li])); } }
		else if (want && vi == 0) { snprintf(key, sizeof key, "C12:from_octets:valid-rejected:len=%zu:prefix=%02x", LN[li], pre); vh_viol(key, "\"octets\":\"%s\"", vh_hex(o, LN[li])); }
	}
	/* the same octet strings as the subjectPublicKey BIT STRING of a SubjectPublicKeyInfo (DER and PEM) and of the bare BIT STRING reader: a key
	   container must give back a finite point that is on the curve, or refuse */
	{ uint8_t algid[40]; size_t alen = 0; { der_cur c = { SPKI, SPKIL }; int tag; const uint8_t *v; size_t vl; if (!der_tlv(&c, &tag, &v, &vl, NULL) || tag != 0x30) vh_harness_error("spki"); der_cur in = { v, vl }; const uint8_t *st = in.p; if (!der_tlv(&in, &tag, &v, &vl, NULL)) vh_harness_error("spki alg"); alen = (size_t)(in.p - st); memcpy(algid, st, alen); }
	  static const size_t CL[] = { 0, 1, 2, 32, 33, 64, 65, 66 }; static const int PRE[] = { 0, 2, 3, 4, 6, 7 };
	  for (int li = 0; li < 8; li++) for (int pi = 0; pi < 6; pi++) for (int vi = 0; vi < 2; vi++) { if (!vh_next()) continue; uint8_t o[70] = {0}; o[0] = (uint8_t)PRE[pi]; memcpy(o + 1, VAL[vi], 64); size_t ol = CL[li];
		uint8_t bs[80], body[140], spki[160]; bs[0] = 0; memcpy(bs + 1, o, ol); size_t bl = der_put_tlv(body, 0x03, bs, ol + 1); memmove(body + alen, body, bl); memcpy(body, algid, alen); size_t sl = der_put_tlv(spki, 0x30, body, alen + bl);
		int fin = 0; uint8_t exy[64]; /* a valid finite point encoding? */ if (PRE[pi] == 4 && ol == 65 && VVALID[vi]) { fin = 1; memcpy(exy, VAL[vi], 64); } if ((PRE[pi] == 2 || PRE[pi] == 3) && ol == 33) { BN_bin2bn(VAL[vi], 32, x); EC_POINT *Q = EC_POINT_new(sr_group()); if (BN_cmp(x, sr_p()) < 0 && EC_POINT_set_compressed_coordinates(sr_group(), Q, x, PRE[pi] & 1, sr_ctx()) == 1) { fin = 1; sr_point_to_xy(Q, exy); } EC_POINT_free(Q); ERR_clear_error(); }
		for (int route = 0; route < 3; route++) { SM2_KEY k; memset(&k, 0, sizeof k); int r; if (route == 0) { const uint8_t *cp = spki; size_t l = sl; r = sm2_public_key_info_from_der(&k, &cp, &l); } else if (route == 1) { FILE *f = tmpfile(); pem_write(f, "PUBLIC KEY", spki, sl); rewind(f); r = sm2_public_key_info_from_pem(&k, f); fclose(f); } else { const uint8_t *cp = body + alen; size_t l = bl; r = sm2_public_key_from_der(&k, &cp, &l); }
			static const char *RN[3] = { "sm2_public_key_info_from_der", "sm2_public_key_info_from_pem", "sm2_public_key_from_der" }; size_t kk[4] = { ol, (size_t)PRE[pi], (size_t)vi, (size_t)route }; vh_eval(vh_hash(kk, sizeof kk, 17)); char key[160];
			if (r == 1 && !fin) { snprintf(key, sizeof key, "C12:%s:accepts:bitstring-len=%zu:prefix=%02x", RN[route], ol, PRE[pi]); vh_viol(key, "\"octets\":\"%s\",\"infinity\":%d", vh_hex(o, ol), (int)sm2_z256_point_is_at_infinity(&k.public_key)); }
			else if (r == 1) { uint8_t b[64]; if (sm2_z256_point_is_at_infinity(&k.public_key) || sm2_z256_point_to_bytes(&k.public_key, b) != 1 || memcmp(b, exy, 64)) { snprintf(key, sizeof key, "C12:%s:wrong-point:bitstring-len=%zu:prefix=%02x", RN[route], ol, PRE[pi]); vh_viol(key, "\"octets\":\"%s\"", vh_hex(o, ol)); } }
			else if (fin && ol == 65 && vi == 0) { snprintf(key, sizeof key, "C12:%s:valid-rejected", RN[route]); vh_viol(key, "\"octets\":\"%s\"", vh_hex(o, ol)); } } } }
	/* compress then decompress k*G for k in 1..16, n-1 */
	for (int k = 1; k <= 17; k++) { if (!vh_next()) continue; BN_set_word(x, k); if (k == 17) { BN_copy(x, sr_n()); BN_sub_word(x, 1); } uint8_t kb[32], xy[64], c[33], u[65], b[64]; bn_be(kb, x); sr_pubkey(kb, xy); SM2_Z256_POINT P, Q; sm2_z256_point_from_bytes(&P, xy);
		vh_eval(vh_mix(k + 90000)); if (sm2_z256_point_to_compressed_octets(&P, c) != 1 || sm2_z256_point_from_octets(&Q, c, 33) != 1 || sm2_z256_point_to_bytes(&Q, b) != 1 || memcmp(b, xy, 64) || c[0] != (2 + (xy[63] & 1)) || memcmp(c + 1, xy, 32)) vh_viol("C12:compress-decompress", "\"k\":%d,\"xy\":\"%s\"", k, vh_hex(xy, 64));
		if (sm2_z256_point_to_uncompressed_octets(&P, u) != 1 || u[0] != 4 || memcmp(u + 1, xy, 64)) vh_viol("C12:to_uncompressed_octets", "\"k\":%d", k);
		/* the other parity must give the negated point */
		c[0] ^= 1; vh_eval(vh_mix(k + 91000)); if (sm2_z256_point_from_octets(&Q, c, 33) == 1) { sm2_z256_point_to_bytes(&Q, b); BN_bin2bn(xy + 32, 32, y); BN_sub(y, sr_p(), y); uint8_t ny[32]; bn_be(ny, y); if (memcmp(b, xy, 32) || memcmp(b + 32, ny, 32)) vh_viol("C12:decompress-other-parity", "\"k\":%d", k); } else vh_viol("C12:decompress-other-parity:refused", "\"k\":%d", k);
		int yodd = xy[63] & 1; vh_eval(vh_mix(k + 92000)); if (sm2_z256_point_from_x_bytes(&Q, xy, yodd) != 1 || sm2_z256_point_to_bytes(&Q, b) != 1 || memcmp(b, xy, 64)) vh_viol("C12:from_x_bytes", "\"k\":%d", k); }
	BN_free(x); BN_free(y);
}
/* private scalars: accepted iff in [1, n-2] */
static void blk_scalars(void) {
	if (!vh_block_begin("scalars")) return;
	BIGNUM *t = BN_new(); uint8_t S[16][32]; int ns = 0; const char *SN[16];
	BN_zero(t); bn_be(S[ns], t); SN[ns++] = "0"; BN_one(t); bn_be(S[ns], t); SN[ns++] = "1"; BN_set_word(t, 2); bn_be(S[ns], t); SN[ns++] = "2";
	static const char *NN[] = { "n-3", "n-2", "n-1", "n", "n+1" }; for (int d = -3; d <= 1; d++) { BN_copy(t, sr_n()); if (d < 0) BN_sub_word(t, -d); else BN_add_word(t, d); bn_be(S[ns], t); SN[ns++] = NN[d + 3]; }
	BN_copy(t, sr_p()); bn_be(S[ns], t); SN[ns++] = "p"; memset(S[ns], 0xff, 32); SN[ns++] = "2^256-1"; BN_zero(t); BN_set_bit(t, 255); bn_be(S[ns], t); SN[ns++] = "2^255";
	for (int i = 0; i < ns; i++) { if (!vh_next()) continue; BN_bin2bn(S[i], 32, t); BIGNUM *nm2 = BN_dup(sr_n()); BN_sub_word(nm2, 2); int want = !BN_is_zero(t) && BN_cmp(t, nm2) <= 0; BN_free(nm2); char key[128];
		SM2_KEY k; sm2_z256_t d; sm2_z256_from_bytes(d, S[i]); int r = sm2_key_set_private_key(&k, d); vh_eval(vh_mix(i + 1));
		if ((r == 1) != want) { snprintf(key, sizeof key, "C12:sm2_key_set_private_key:%s:%s", r == 1 ? "accepts" : "rejects", SN[i]); vh_viol(key, "\"d\":\"%s\"", vh_hex(S[i], 32)); }
		if (r == 1) { uint8_t pub[64], b[64]; sr_pubkey(S[i], pub); sm2_z256_point_to_bytes(&k.public_key, b); if (memcmp(pub, b, 64)) { snprintf(key, sizeof key, "C12:sm2_key_set_private_key:wrong-public-key:%s", SN[i]); vh_viol(key, "\"d\":\"%s\"", vh_hex(S[i], 32)); } }
		/* the same scalar inside ECPrivateKey DER without the optional public key, and with the right public key */
		uint8_t body[200], der[220]; size_t bl = 0; static const uint8_t one[1] = { 1 }, oid[] = { 0x06, 0x08, 0x2a, 0x81, 0x1c, 0xcf, 0x55, 0x01, 0x82, 0x2d }; bl += der_put_tlv(body + bl, 0x02, one, 1); bl += der_put_tlv(body + bl, 0x04, S[i], 32); bl += der_put_tlv(body + bl, 0xa0, oid, sizeof oid);
		size_t dl = der_put_tlv(der, 0x30, body, bl); const uint8_t *cp = der; size_t l = dl; r = sm2_private_key_from_der(&k, &cp, &l); vh_eval(vh_mix(i + 101));
		/* one-sided: the container without the optional [1] publicKey may be refused altogether (stricter than the property) */
		if (r == 1 && !want) { snprintf(key, sizeof key, "C12:sm2_private_key_from_der:scalar:accepts:%s", SN[i]); vh_viol(key, "\"d\":\"%s\"", vh_hex(S[i], 32)); }
		if (r != 1 && want && i == 1) vh_obs("sm2_private_key_from_der refuses an ECPrivateKey without the optional [1] publicKey field (stricter than required; not a C12 violation)");
		/* library-made container for in-range scalars must come back; the same container with the scalar bytes overwritten must not */
		if (want) { SM2_KEY k2, k3; sm2_z256_t dd; sm2_z256_from_bytes(dd, S[i]); sm2_key_set_private_key(&k2, dd); uint8_t pd[200], *pp = pd; size_t pl = 0; sm2_private_key_to_der(&k2, &pp, &pl); cp = pd; l = pl; r = sm2_private_key_from_der(&k3, &cp, &l); vh_eval(vh_mix(i + 201));
			if (r != 1 || memcmp(&k3, &k2, sizeof(SM2_KEY)) ) { uint8_t b1[64], b2[64]; sm2_z256_point_to_bytes(&k2.public_key, b1); if (r == 1) sm2_z256_point_to_bytes(&k3.public_key, b2); if (r != 1 || memcmp(b1, b2, 64) || memcmp(k2.private_key, k3.private_key, 32)) { snprintf(key, sizeof key, "C12:sm2_private_key_from_der:roundtrip:%s", SN[i]); vh_viol(key, "\"d\":\"%s\",\"ret\":%d", vh_hex(S[i], 32), r); } }
			for (int j = 0; j < ns; j++) if (j != i) { uint8_t md[200]; memcpy(md, pd, pl); for (size_t q = 0; q + 32 <= pl; q++) if (!memcmp(md + q, S[i], 32)) { memcpy(md + q, S[j], 32); break; } cp = md; l = pl; r = sm2_private_key_from_der(&k3, &cp, &l); vh_eval(vh_mix(i * 100 + j + 301)); if (r == 1) { snprintf(key, sizeof key, "C12:sm2_private_key_from_der:scalar-public-mismatch-accepted:%s-with-pub-of-%s", SN[j], SN[i]); vh_viol(key, "\"d\":\"%s\"", vh_hex(S[j], 32)); } } }
		vh_sample("{\"block\":\"scalars\",\"d\":\"%s\",\"name\":\"%s\",\"valid\":%d}", vh_hex(S[i], 32), SN[i], want);
	}
	BN_free(t);
}
/* SM9 G1 / G2 octets: coordinates < p and on the (twisted) curve */
static BIGNUM *P9; static BN_CTX *C9;
static int g1_ok(const uint8_t xy[64]) { BIGNUM *x = BN_bin2bn(xy, 32, NULL), *y = BN_bin2bn(xy + 32, 32, NULL), *l = BN_new(), *r = BN_new(); int ok = 0; if (BN_cmp(x, P9) < 0 && BN_cmp(y, P9) < 0) { BN_mod_sqr(l, y, P9, C9); BN_mod_sqr(r, x, P9, C9); BN_mod_mul(r, r, x, P9, C9); BN_add_word(r, 5); BN_mod(r, r, P9, C9); ok = BN_cmp(l, r) == 0; } BN_free(x); BN_free(y); BN_free(l); BN_free(r); return ok; }
/* Fp2 = Fp[u]/(u^2+2); element (a1,a0) = a1*u + a0, serialised a1||a0 */
typedef struct { BIGNUM *a1, *a0; } f2;
static void f2mul(f2 r, f2 a, f2 b) { BIGNUM *t0 = BN_new(), *t1 = BN_new(), *t2 = BN_new(); BN_mod_mul(t0, a.a0, b.a0, P9, C9); BN_mod_mul(t1, a.a1, b.a1, P9, C9); BN_mod_lshift1(t1, t1, P9, C9); BN_mod_sub(t0, t0, t1, P9, C9); BN_mod_mul(t1, a.a0, b.a1, P9, C9); BN_mod_mul(t2, a.a1, b.a0, P9, C9); BN_mod_add(t1, t1, t2, P9, C9); BN_copy(r.a0, t0); BN_copy(r.a1, t1); BN_free(t0); BN_free(t1); BN_free(t2); }
static int g2_ok(const uint8_t o[128], int bvariant) { f2 x = { BN_bin2bn(o, 32, NULL), BN_bin2bn(o + 32, 32, NULL) }, y = { BN_bin2bn(o + 64, 32, NULL), BN_bin2bn(o + 96, 32, NULL) }, l = { BN_new(), BN_new() }, r = { BN_new(), BN_new() }; int ok = 0;
	if (BN_cmp(x.a1, P9) < 0 && BN_cmp(x.a0, P9) < 0 && BN_cmp(y.a1, P9) < 0 && BN_cmp(y.a0, P9) < 0) { f2mul(l, y, y); f2mul(r, x, x); f2mul(r, r, x); BIGNUM *five = BN_new(); BN_set_word(five, 5); if (bvariant == 0) BN_mod_add(r.a1, r.a1, five, P9, C9); /* + 5u */ else BN_mod_add(r.a0, r.a0, five, P9, C9); BN_free(five); ok = BN_cmp(l.a0, r.a0) == 0 && BN_cmp(l.a1, r.a1) == 0; }
	BN_free(x.a1); BN_free(x.a0); BN_free(y.a1); BN_free(y.a0); BN_free(l.a1); BN_free(l.a0); BN_free(r.a1); BN_free(r.a0); return ok; }
static void blk_sm9(void) {
	if (!vh_block_begin("sm9-points")) return;
	P9 = NULL; BN_hex2bn(&P9, "B640000002A3A6F1D603AB4FF58EC74521F2934B1A7AEEDBE56F9B27E351457D"); C9 = BN_CTX_new();
	uint8_t g1[65], g2[129]; sm9_z256_point_to_uncompressed_octets(sm9_z256_generator(), g1); sm9_z256_twist_point_to_uncompressed_octets(sm9_z256_twist_generator(), g2);
	if (!g1_ok(g1 + 1)) vh_harness_error("SM9 G1 generator does not satisfy y^2=x^3+5 in the reference"); int bv = g2_ok(g2 + 1, 0) ? 0 : (g2_ok(g2 + 1, 1) ? 1 : -1); if (bv < 0) vh_harness_error("SM9 G2 generator satisfies neither twist equation of the reference");
	BIGNUM *t = BN_new(); uint8_t pb[32]; BN_bn2binpad(P9, pb, 32);
	/* G1: generator, negated, y+1, zero, x=p, y=p, ff */
	for (int v = 0; v < 8; v++) { if (!vh_next()) continue; uint8_t o[65]; memcpy(o, g1, 65); const char *nm = "valid";
		switch (v) { case 1: BN_bin2bn(g1 + 33, 32, t); BN_sub(t, P9, t); BN_bn2binpad(t, o + 33, 32); nm = "negated(valid)"; break; case 2: o[64] ^= 1; nm = "y^1"; break; case 3: memset(o + 1, 0, 64); nm = "zero"; break; case 4: memcpy(o + 1, pb, 32); nm = "x=p"; break; case 5: memcpy(o + 33, pb, 32); nm = "y=p"; break; case 6: memset(o + 1, 0xff, 32); nm = "x=ff"; break; case 7: o[0] = 0; nm = "prefix0"; break; }
		int want = o[0] == 4 && g1_ok(o + 1); SM9_Z256_POINT P; int r = sm9_z256_point_from_uncompressed_octets(&P, o); vh_eval(vh_mix(v + 1)); char key[128];
		if ((r == 1) != want) { snprintf(key, sizeof key, "C12:sm9_z256_point_from_uncompressed_octets:%s:%s", r == 1 ? "accepts" : "rejects", nm); vh_viol(key, "\"octets\":\"%s\"", vh_hex(o, 65)); }
		if (r == 1) { uint8_t b[65]; sm9_z256_point_to_uncompressed_octets(&P, b); if (memcmp(b, o, 65)) vh_viol("C12:sm9-g1-readback", "\"in\":\"%s\"", vh_hex(o, 65)); } }
	for (int v = 0; v < 9; v++) { if (!vh_next()) continue; uint8_t o[129]; memcpy(o, g2, 129); const char *nm = "valid";
		switch (v) { case 1: BN_bin2bn(g2 + 65, 32, t); BN_sub(t, P9, t); BN_bn2binpad(t, o + 65, 32); BN_bin2bn(g2 + 97, 32, t); BN_sub(t, P9, t); BN_bn2binpad(t, o + 97, 32); nm = "negated(valid)"; break; case 2: o[128] ^= 1; nm = "y0^1"; break; case 3: memset(o + 1, 0, 128); nm = "zero"; break; case 4: memcpy(o + 1, pb, 32); nm = "x1=p"; break; case 5: memcpy(o + 33, pb, 32); nm = "x0=p"; break; case 6: memcpy(o + 65, pb, 32); nm = "y1=p"; break; case 7: memcpy(o + 97, pb, 32); nm = "y0=p"; break; case 8: o[0] = 2; nm = "prefix2"; break; }
		int want = o[0] == 4 && g2_ok(o + 1, bv); SM9_Z256_TWIST_POINT P; int r = sm9_z256_twist_point_from_uncompressed_octets(&P, o); vh_eval(vh_mix(v + 101)); char key[128];
		if ((r == 1) != want) { snprintf(key, sizeof key, "C12:sm9_z256_twist_point_from_uncompressed_octets:%s:%s", r == 1 ? "accepts" : "rejects", nm); vh_viol(key, "\"octets\":\"%s\"", vh_hex(o, 129)); } }
	/* aliases c+p of a coordinate of a GENUINE point (they name the same residue, so only the range check can refuse them): multiples of the
	   generators until every coordinate position has had a value small enough for c+p to fit in 256 bits */
	{ int seen1[2] = { 0, 0 }, seen2[4] = { 0, 0, 0, 0 }; BIGNUM *lim = BN_new(); BN_one(lim); BN_lshift(lim, lim, 256);
	  for (int k = 1; k <= 60; k++) { if (!vh_next()) continue; sm9_z256_t kk = { (uint64_t)k, 0, 0, 0 }; SM9_Z256_POINT P; SM9_Z256_TWIST_POINT Q; sm9_z256_point_mul_generator(&P, kk); sm9_z256_twist_point_mul_generator(&Q, kk); uint8_t o1[65], o2[129]; sm9_z256_point_to_uncompressed_octets(&P, o1); sm9_z256_twist_point_to_uncompressed_octets(&Q, o2);
		if (!g1_ok(o1 + 1) || !g2_ok(o2 + 1, bv)) { vh_viol("C12:sm9:multiple-of-generator-off-curve-in-reference", "\"k\":%d", k); continue; }
		for (int j = 0; j < 2; j++) { BN_bin2bn(o1 + 1 + 32 * j, 32, t); BN_add(t, t, P9); if (BN_cmp(t, lim) >= 0) continue; uint8_t o[65]; memcpy(o, o1, 65); BN_bn2binpad(t, o + 1 + 32 * j, 32); SM9_Z256_POINT R; int r = sm9_z256_point_from_uncompressed_octets(&R, o); seen1[j]++; vh_eval(vh_mix(5000 + k * 8 + j)); if (r == 1) { char key[128]; snprintf(key, sizeof key, "C12:sm9_z256_point_from_uncompressed_octets:accepts:%s+p", j ? "y" : "x"); vh_viol(key, "\"k\":%d,\"octets\":\"%s\"", k, vh_hex(o, 65)); } }
		for (int j = 0; j < 4; j++) { static const char *CN[4] = { "x1", "x0", "y1", "y0" }; BN_bin2bn(o2 + 1 + 32 * j, 32, t); BN_add(t, t, P9); if (BN_cmp(t, lim) >= 0) continue; uint8_t o[129]; memcpy(o, o2, 129); BN_bn2binpad(t, o + 1 + 32 * j, 32); SM9_Z256_TWIST_POINT R; int r = sm9_z256_twist_point_from_uncompressed_octets(&R, o); seen2[j]++; vh_eval(vh_mix(6000 + k * 8 + j)); if (r == 1) { char key[128]; snprintf(key, sizeof key, "C12:sm9_z256_twist_point_from_uncompressed_octets:accepts:%s+p", CN[j]); vh_viol(key, "\"k\":%d,\"octets\":\"%s\"", k, vh_hex(o, 129)); }
			/* the same alias inside the key containers */
			if (j < 4) { SM9_SIGN_MASTER_KEY M; memset(&M, 0, sizeof M); uint8_t der[300], *dp = der; size_t dl = 0; M.Ppubs = Q; if (sm9_sign_master_public_key_to_der(&M, &dp, &dl) == 1) { for (size_t q = 0; q + 129 <= dl; q++) if (!memcmp(der + q, o2, 129)) { memcpy(der + q, o, 129); break; } const uint8_t *cp = der; size_t rem = dl; SM9_SIGN_MASTER_KEY M2; if (sm9_sign_master_public_key_from_der(&M2, &cp, &rem) == 1) { char key[128]; snprintf(key, sizeof key, "C12:sm9_sign_master_public_key_from_der:accepts:%s+p", CN[j]); vh_viol(key, "\"k\":%d", k); } } } } }
	  if (vh_shard == 0 && !vh_replay_block) vh_sample("{\"block\":\"sm9-points\",\"alias_cases_g1\":[%d,%d],\"alias_cases_g2\":[%d,%d,%d,%d]}", seen1[0], seen1[1], seen2[0], seen2[1], seen2[2], seen2[3]); BN_free(lim); }
	BN_free(t);
}
/* replace the element that occupies [off, off+dl) of a DER tree by `ins` (il octets, may be empty), re-encoding the length of every enclosing element */
static size_t der_splice(const uint8_t *in, size_t n, size_t off, size_t dl, const uint8_t *ins, size_t il, uint8_t *out) {
	der_cur c = { in, n }; size_t o = 0;
	while (c.n) { const uint8_t *start = c.p; int tag; const uint8_t *v; size_t vl, h; if (!der_tlv(&c, &tag, &v, &vl, &h)) vh_harness_error("der_splice: malformed input"); size_t pos = (size_t)(start - in);
		if (pos == off && h + vl == dl) { if (il) memcpy(out + o, ins, il); o += il; }
		else if ((tag & 0x20) && off >= pos + h && off + dl <= pos + h + vl) { uint8_t *tmp = (uint8_t *)malloc(vl + il + 8); size_t tl = der_splice(v, vl, off - (pos + h), dl, ins, il, tmp); o += der_put_tlv(out + o, tag, tmp, tl); free(tmp); }
		else { memcpy(out + o, start, h + vl); o += h + vl; } }
	return o;
}
static size_t find_sub(const uint8_t *hay, size_t n, const uint8_t *needle, size_t m) { for (size_t i = 0; i + m <= n; i++) if (!memcmp(hay + i, needle, m)) return i; return (size_t)-1; }
/* key-bearing containers in which the key field is ABSENT or EMPTY (the subjectPublicKeyInfo removed from a certificate or a request, an info without its
   bit string, an empty bit string, ...): there are no coordinates to validate, so an import that reports success hands out a key nobody supplied.
   The output object is pre-filled with an off-curve value; every interface must refuse. */
static void blk_absent(void) {
	if (!vh_block_begin("absent-key-field")) return;
	size_t coff = find_sub(CERT, CERTL, SPKI, SPKIL), roff = find_sub(REQ, REQL, SPKI, SPKIL); if (coff == (size_t)-1 || roff == (size_t)-1) vh_harness_error("SPKI not embedded verbatim");
	/* replacement elements for the SPKI: nothing; empty SEQUENCE; algorithm only; algorithm + empty BIT STRING; algorithm + BIT STRING holding only the 04 prefix; bit string first; NULL; [1] EXPLICIT wrapper around the good info */
	static uint8_t REP[9][260]; size_t RL[9]; static const char *RN[9] = { "removed", "empty-sequence", "algorithm-only", "empty-bit-string", "bit-string-with-prefix-only", "bit-string-only", "null-instead", "wrapped-in-[1]", "octet-string-instead-of-bit-string" };
	{ der_cur c = { SPKI, SPKIL }; int tag; const uint8_t *v; size_t vl; if (!der_tlv(&c, &tag, &v, &vl, NULL)) vh_harness_error("spki"); der_cur in = { v, vl }; const uint8_t *alg = in.p; const uint8_t *av, *bv; size_t avl, bvl, ah, bh; if (!der_tlv(&in, &tag, &av, &avl, &ah)) vh_harness_error("alg"); size_t algl = ah + avl; const uint8_t *bits = in.p; if (!der_tlv(&in, &tag, &bv, &bvl, &bh)) vh_harness_error("bits"); size_t bitsl = bh + bvl; uint8_t t[260]; size_t n;
	  RL[0] = 0; RL[1] = der_put_tlv(REP[1], 0x30, NULL, 0); RL[2] = der_put_tlv(REP[2], 0x30, alg, algl);
	  memcpy(t, alg, algl); n = algl; t[n++] = 0x03; t[n++] = 0x01; t[n++] = 0x00; RL[3] = der_put_tlv(REP[3], 0x30, t, n);
	  memcpy(t, alg, algl); n = algl; t[n++] = 0x03; t[n++] = 0x02; t[n++] = 0x00; t[n++] = 0x04; RL[4] = der_put_tlv(REP[4], 0x30, t, n);
	  RL[5] = der_put_tlv(REP[5], 0x30, bits, bitsl); REP[6][0] = 0x05; REP[6][1] = 0x00; RL[6] = 2; RL[7] = der_put_tlv(REP[7], 0xa1, SPKI, SPKIL);
	  memcpy(t, alg, algl); n = algl; memcpy(t + n, bits, bitsl); t[n] = 0x04; n += bitsl; RL[8] = der_put_tlv(REP[8], 0x30, t, n); }
	for (int ri = 0; ri < 9; ri++) { if (!vh_next()) continue; static uint8_t m[1200]; size_t ml; SM2_KEY k; int r; char key[160];
#define POISON(K) memset(&(K), 0xAA, sizeof(K))
#define REFUSE(IFACE) do { vh_eval(vh_hash(IFACE, strlen(IFACE), 9100 + ri)); if (r == 1) { uint8_t b[64]; key_back(&k, b); snprintf(key, sizeof key, "C12:%s:accepts-container-without-a-key:%s", IFACE, RN[ri]); vh_viol(key, "\"returned_key\":\"%s\",\"on_curve\":%d", vh_hex(b, 64), sr_xy_on_curve(b)); } } while (0)
		ml = der_splice(CERT, CERTL, coff, SPKIL, REP[ri], RL[ri], m); POISON(k); r = x509_cert_get_subject_public_key(m, ml, &k); REFUSE("x509_cert_get_subject_public_key");
		{ int ver, sa; const uint8_t *sn, *is, *su, *iu, *suid, *ex, *sg; size_t snl, isl, sul, iul, suidl, exl, sgl; time_t nb, na; POISON(k); r = x509_cert_get_details(m, ml, &ver, &sn, &snl, &sa, &is, &isl, &nb, &na, &su, &sul, &k, &iu, &iul, &suid, &suidl, &ex, &exl, &sa, &sg, &sgl); REFUSE("x509_cert_get_details"); }
		ml = der_splice(REQ, REQL, roff, SPKIL, REP[ri], RL[ri], m); { int ver; const uint8_t *s_, *at, *sg; size_t sl, al, sgl; int alg; POISON(k); r = x509_req_get_details(m, ml, &ver, &s_, &sl, &k, &at, &al, &alg, &sg, &sgl); REFUSE("x509_req_get_details"); }
		if (ri) { const uint8_t *cp = REP[ri]; size_t l = RL[ri]; POISON(k); r = sm2_public_key_info_from_der(&k, &cp, &l); REFUSE("sm2_public_key_info_from_der");
			FILE *f = tmpfile(); pem_write(f, "PUBLIC KEY", REP[ri], RL[ri]); rewind(f); POISON(k); r = sm2_public_key_info_from_pem(&k, f); fclose(f); REFUSE("sm2_public_key_info_from_pem"); }
		vh_sample("{\"block\":\"absent-key-field\",\"replacement\":\"%s\",\"octets\":\"%s\"}", RN[ri], vh_hex(REP[ri], RL[ri]));
	}
}
static void body(void) { blk_points(); blk_absent(); blk_octets(); blk_tls_share_lengths(); blk_scalars(); blk_sm9(); }
int main(int argc, char **argv) { vh_init(argc, argv); build_values(); build_containers(); vh_guarded("C12", body, 60); return vh_finish(); }
