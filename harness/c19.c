/* C19 — secret material never appears on diagnostic channels.
 * fd 1 and fd 2 are captured for every execution and searched for every secret of that execution (raw and as hex, any case,
 * with or without separators, windows of >= 8 bytes).  Secrets of handshakes are captured at their point of derivation by
 * link-time wrapping (tls_prf, hkdf_extract, hkdf_expand) in addition to the private keys and plaintexts the harness knows. */
#define _GNU_SOURCE
#include <stdio.h>
#include <sys/mman.h>
#include <sys/wait.h>
#include <fcntl.h>
#include <gmssl/sm2.h>
#include <gmssl/sm9.h>
#include <gmssl/cms.h>
#include <gmssl/hkdf.h>
#include <gmssl/pkcs8.h>
#include "vh.h"
#include "venv.h"
#include "tlsh.h"

/* ---- secret registry (shared memory so that the child's secrets are visible to nobody else; scanning happens in the child) ---- */
static struct { uint8_t b[64]; size_t n; char name[24]; } SEC[400]; static int NSEC;
static void sec_add(const char *name, const void *p, size_t n) { const uint8_t *b = (const uint8_t *)p; while (n >= 8 && NSEC < 400) { size_t k = n > 64 ? 64 : n; int allsame = 1; for (size_t i = 1; i < k; i++) if (b[i] != b[0]) allsame = 0; if (!allsame) { memcpy(SEC[NSEC].b, b, k); SEC[NSEC].n = k; snprintf(SEC[NSEC].name, sizeof SEC[0].name, "%s", name); NSEC++; } b += k; n -= k; } }
/* link-time wrappers: every PRF / HKDF output of the handshakes is a secret */
int __real_tls_prf(const uint8_t *secret, size_t secretlen, const char *label, const uint8_t *seed, size_t seedlen, const uint8_t *more, size_t morelen, size_t outlen, uint8_t *out);
int __wrap_tls_prf(const uint8_t *secret, size_t secretlen, const char *label, const uint8_t *seed, size_t seedlen, const uint8_t *more, size_t morelen, size_t outlen, uint8_t *out) { int r = __real_tls_prf(secret, secretlen, label, seed, seedlen, more, morelen, outlen, out); sec_add("prf-secret", secret, secretlen); if (r == 1 && strstr(label, "finished") == NULL) sec_add(label, out, outlen); return r; }
int __real_hkdf_extract(const DIGEST *digest, const uint8_t *salt, size_t saltlen, const uint8_t *ikm, size_t ikmlen, uint8_t *prk, size_t *prklen);
int __wrap_hkdf_extract(const DIGEST *digest, const uint8_t *salt, size_t saltlen, const uint8_t *ikm, size_t ikmlen, uint8_t *prk, size_t *prklen) { int r = __real_hkdf_extract(digest, salt, saltlen, ikm, ikmlen, prk, prklen); if (r == 1) { sec_add("hkdf-prk", prk, *prklen); sec_add("hkdf-ikm", ikm, ikmlen); } return r; }
int __real_hkdf_expand(const DIGEST *digest, const uint8_t *prk, size_t prklen, const uint8_t *info, size_t infolen, size_t L, uint8_t *okm);
int __wrap_hkdf_expand(const DIGEST *digest, const uint8_t *prk, size_t prklen, const uint8_t *info, size_t infolen, size_t L, uint8_t *okm) { int r = __real_hkdf_expand(digest, prk, prklen, info, infolen, L, okm); if (r == 1 && !(infolen > 12 && memmem(info, infolen, "finished", 8))) sec_add("hkdf-okm", okm, L); return r; }

/* ---- capture ---- */
static int CAP1 = -1, CAP2 = -1, SAVE1 = -1, SAVE2 = -1;
static void cap_begin(void) { fflush(stdout); fflush(stderr); if (CAP1 < 0) { CAP1 = memfd_create("c1", 0); CAP2 = memfd_create("c2", 0); } if (ftruncate(CAP1, 0) || ftruncate(CAP2, 0)) {} lseek(CAP1, 0, SEEK_SET); lseek(CAP2, 0, SEEK_SET); SAVE1 = dup(1); SAVE2 = dup(2); dup2(CAP1, 1); dup2(CAP2, 2); }
static void cap_end(void) { fflush(stdout); fflush(stderr); dup2(SAVE1, 1); dup2(SAVE2, 2); close(SAVE1); close(SAVE2); }
/* search one captured stream; returns index of the leaked secret or -1 */
static int scan_fd(int fd, size_t *total, char *how) {
	off_t sz = lseek(fd, 0, SEEK_END); if (sz <= 0) { *total = 0; return -1; } if (sz > (8 << 20)) sz = 8 << 20; uint8_t *t = (uint8_t *)malloc(sz + 1); if (pread(fd, t, sz, 0) != sz) {} *total = (size_t)sz;
	/* normalised hex stream: only hex digits, lower case */ char *hx = (char *)malloc(sz + 1); size_t hl = 0; for (off_t i = 0; i < sz; i++) { uint8_t c = t[i]; if (c >= '0' && c <= '9') hx[hl++] = (char)c; else if ((c | 0x20) >= 'a' && (c | 0x20) <= 'f') hx[hl++] = (char)(c | 0x20); } hx[hl] = 0;
	int found = -1; for (int s = 0; s < NSEC && found < 0; s++) for (size_t w = 0; w + 8 <= SEC[s].n && found < 0; w++) { if (memmem(t, sz, SEC[s].b + w, 8)) { found = s; strcpy(how, "raw"); break; } char h[17]; for (int k = 0; k < 8; k++) sprintf(h + 2 * k, "%02x", SEC[s].b[w + k]); if (hl >= 16 && strstr(hx, h)) { found = s; strcpy(how, "hex"); break; } }
	free(t); free(hx); return found; }
typedef struct { int leak_fd, leak_sec; char secname[24], how[8]; size_t out1, out2; int c_hs, s_hs; char where[80]; long mutants; } cout_t; static cout_t *CO;
static void scan_all(void) { char how[8] = ""; size_t t1, t2; int s = scan_fd(CAP1, &t1, how); CO->out1 = t1; if (s >= 0) { CO->leak_fd = 1; CO->leak_sec = s; snprintf(CO->secname, sizeof CO->secname, "%s", SEC[s].name); strcpy(CO->how, how); } int s2 = scan_fd(CAP2, &t2, how); CO->out2 = t2; if (s2 >= 0 && !CO->leak_fd) { CO->leak_fd = 2; CO->leak_sec = s2; snprintf(CO->secname, sizeof CO->secname, "%s", SEC[s2].name); strcpy(CO->how, how); } }

/* ---- handshake executions ---- */
enum { V_HONEST, V_DEFECT, V_FAULT, V_ENTROPY, V_OPS };
typedef struct { int kind; cred_defects df; int who; int fdir, fidx, fkind; long fail_at; int fail_role; int cops[2], sops[2]; } variant_t;
/* post-handshake operation sequences: each side runs two operations out of {send 24 bytes, receive, shutdown} in its own order */
typedef struct { ep_t e; int ops[2]; } oep_t;
static int oep_task(void *arg) { oep_t *o = (oep_t *)arg; o->e.do_app = 0; o->e.do_close = 0; int r = ep_task(&o->e); if (o->e.hs_ret != 1) return r; TLS_CONNECT *conn = o->e.conn_out; static __thread uint8_t rb[20000];
	for (int i = 0; i < 2; i++) { size_t g = 0; switch (o->ops[i]) { case 0: ep_send(&o->e, conn, APPDATA[o->e.is_client ? 0 : 1], 24); break; case 1: ep_recv(&o->e, conn, rb, sizeof rb, &g); break; default: if (o->e.proto != P_TLS13) tls_shutdown(conn); break; } } return r; }
static variant_t CURV;
static int hadv(vn_rec *r) { if (CURV.kind != V_FAULT || r->dir != CURV.fdir || r->idx != CURV.fidx) return 1; switch (CURV.fkind) { case 0: if (r->len > 6) r->rec[5 + (r->len - 5) / 2] ^= 0x10; return 1; case 1: return 0; case 2: return 2; default: return 1; } }
static char HFAIL[32];
static void hs_exec(int proto, int mutual, const variant_t *v) { memset(CO, 0, sizeof *CO); HFAIL[0] = 0; fflush(stdout); pid_t pid = fork(); if (pid == 0) { alarm(30); CURV = *v; NSEC = 0; static side_creds srv, cli; static ep_t c, s; memset(&c, 0, sizeof c); memset(&s, 0, sizeof s);
		build_side(&srv, proto, 0, v->kind == V_DEFECT && v->who == 0 ? 2 : 1, v->kind == V_DEFECT && v->who == 0 ? &v->df : NULL); build_side(&cli, proto, 1, v->kind == V_DEFECT && v->who == 1 ? 2 : 1, v->kind == V_DEFECT && v->who == 1 ? &v->df : NULL);
		c.proto = s.proto = proto; c.is_client = 1; c.mutual = s.mutual = mutual; c.own = &cli; s.own = &srv; c.trust = &srv; s.trust = mutual ? &cli : NULL; c.entropy_key = 0xC11E17; s.entropy_key = 0x5E12BE12; c.entropy_fail_at = (v->kind == V_ENTROPY && v->fail_role == 0) ? v->fail_at : -1; s.entropy_fail_at = (v->kind == V_ENTROPY && v->fail_role == 1) ? v->fail_at : -1;
		c.do_app = s.do_app = 1; c.do_close = s.do_close = 1; c.out = (app_dir){ { 24 }, 1, 64 }; s.in = c.out; s.out = (app_dir){ { 24 }, 1, 64 }; c.in = s.out;
		uint8_t d[32]; sm2_z256_to_bytes(srv.signkey.private_key, d); sec_add("server-sign-key", d, 32); sm2_z256_to_bytes(srv.kenckey.private_key, d); sec_add("server-enc-key", d, 32); sm2_z256_to_bytes(cli.signkey.private_key, d); sec_add("client-sign-key", d, 32); sec_add("app-data-c", APPDATA[0], 24); sec_add("app-data-s", APPDATA[1], 24);
		vn_adv = hadv; cap_begin(); int cr, sr; if (v->kind == V_OPS) { static oep_t oc, os; oc.e = c; os.e = s; memcpy(oc.ops, v->cops, sizeof oc.ops); memcpy(os.ops, v->sops, sizeof os.ops); vnet_run2(oep_task, &oc, oep_task, &os, &cr, &sr); c = oc.e; s = os.e; } else vnet_run2(ep_task, &c, ep_task, &s, &cr, &sr); cap_end(); CO->c_hs = c.hs_ret; CO->s_hs = s.hs_ret; scan_all(); _exit(0); }
	int st; while (waitpid(pid, &st, 0) < 0 && errno == EINTR) {} if (!WIFEXITED(st) || WEXITSTATUS(st)) snprintf(HFAIL, sizeof HFAIL, "%s", WIFSIGNALED(st) && WTERMSIG(st) == SIGALRM ? "hang" : "crash"); }
static void judge(const char *blk, const char *what) { char key[200]; if (HFAIL[0]) return; /* crashes / hangs are C06 / C18 territory */ if (CO->leak_fd) { snprintf(key, sizeof key, "C19:%s:%s:%s-on-%s", blk, what, CO->secname, CO->leak_fd == 1 ? "stdout" : "stderr"); vh_viol(key, "\"secret\":\"%s\",\"form\":\"%s\",\"stdout_bytes\":%zu,\"stderr_bytes\":%zu", CO->secname, CO->how, CO->out1, CO->out2); } }
static uint64_t NEXEC;
static void blk_handshakes(void) {
	static const struct { const char *n; cred_defects d; } DF[] = { { "untrusted-root", { .untrusted_root = 1 } }, { "expired", { .expired = 1 } }, { "sigflip", { .sigflip = 1 } }, { "wrong-signkey", { .wrong_signkey = 1 } }, { "wrong-enckey", { .wrong_enckey = 1 } }, { "issuer-no-bc", { .issuer_no_bc = 1 } } };
	for (int p = 0; p < 3; p++) for (int m = 0; m < 2; m++) { char bn[64]; snprintf(bn, sizeof bn, "hs-%s-%s", PNAME[p], m ? "mutual" : "serverauth"); if (!vh_block_begin(bn)) continue;
		variant_t v; memset(&v, 0, sizeof v); v.kind = V_HONEST; if (vh_next()) { hs_exec(p, m, &v); NEXEC++; vh_eval(vh_mix(p * 10 + m + 1)); if (HFAIL[0] || CO->c_hs != 1 || CO->s_hs != 1) vh_viol("C19:honest-handshake-does-not-complete", "\"proto\":\"%s\"", PNAME[p]); judge(bn, "honest"); vh_sample("{\"block\":\"%s\",\"variant\":\"honest\",\"stdout_bytes\":%zu,\"stderr_bytes\":%zu}", bn, CO->out1, CO->out2); }
		for (int d = 0; d < 6; d++) for (int who = 0; who <= m; who++) { if (!vh_next()) continue; memset(&v, 0, sizeof v); v.kind = V_DEFECT; v.df = DF[d].d; v.who = who; hs_exec(p, m, &v); NEXEC++; vh_eval(vh_mix(p * 1000 + m * 500 + d * 10 + who + 7)); char w[64]; snprintf(w, sizeof w, "%s-%s", who ? "client" : "server", DF[d].n); judge(bn, w); }
		for (int dir = 0; dir < 2; dir++) for (int idx = 0; idx < 8; idx++) for (int k = 0; k < 3; k++) { if (!vh_next()) continue; memset(&v, 0, sizeof v); v.kind = V_FAULT; v.fdir = dir; v.fidx = idx; v.fkind = k; hs_exec(p, m, &v); NEXEC++; vh_eval(vh_mix(p * 10000 + m * 5000 + dir * 1000 + idx * 10 + k + 3)); char w[64]; snprintf(w, sizeof w, "%s-record%d-%s", dir ? "c2s" : "s2c", idx, k == 0 ? "bitflip" : k == 1 ? "drop" : "duplicate"); judge(bn, "tampered"); (void)w; }
		if (m == 0) for (int co = 0; co < 9; co++) for (int so = 0; so < 9; so++) { if (!vh_next()) continue; memset(&v, 0, sizeof v); v.kind = V_OPS; v.cops[0] = co / 3; v.cops[1] = co % 3; v.sops[0] = so / 3; v.sops[1] = so % 3; hs_exec(p, m, &v); NEXEC++; vh_eval(vh_mix(p * 1000000 + co * 100 + so + 11)); static const char *ON[3] = { "send", "recv", "shutdown" }; char w[96]; snprintf(w, sizeof w, "ops-client-%s-%s-server-%s-%s", ON[co / 3], ON[co % 3], ON[so / 3], ON[so % 3]); judge(bn, w); }
		for (int role = 0; role < 2; role++) for (long i = 0; i < 72; i++) { if (!vh_next()) continue; memset(&v, 0, sizeof v); v.kind = V_ENTROPY; v.fail_role = role; v.fail_at = i; hs_exec(p, m, &v); NEXEC++; vh_eval(vh_mix(p * 100000 + m * 50000 + role * 1000 + i + 9)); judge(bn, role ? "server-entropy-failure" : "client-entropy-failure"); }
	}
}
/* ---- direct API list ---- */
static void api_case(const char *name, void (*fn)(void)) { if (!vh_next()) return; memset(CO, 0, sizeof *CO); HFAIL[0] = 0; fflush(stdout); pid_t pid = fork(); if (pid == 0) { alarm(30); cap_begin(); fn(); cap_end(); scan_all(); _exit(0); } int st; while (waitpid(pid, &st, 0) < 0 && errno == EINTR) {} NEXEC++; vh_eval(vh_hash(name, strlen(name), 5)); if (WIFEXITED(st) && !WEXITSTATUS(st)) judge("api", name); vh_sample("{\"block\":\"api\",\"case\":\"%s\",\"stdout_bytes\":%zu,\"stderr_bytes\":%zu}", name, CO->out1, CO->out2); }
static uint8_t PLAIN[40];
static void a_keygen(void) { SM2_KEY k; venv_reset(1); sm2_key_generate(&k); uint8_t d[32]; sm2_z256_to_bytes(k.private_key, d); NSEC = 0; sec_add("generated-key", d, 32); uint8_t b[300], *p = b; size_t l = 0; sm2_private_key_info_to_der(&k, &p, &l); SM2_KEY k2; const uint8_t *cp = b, *at; size_t al; sm2_private_key_info_from_der(&k2, &at, &al, &cp, &l); }
static void a_sign(void) { creds_init(); NSEC = 0; uint8_t d[32]; sm2_z256_to_bytes(CK[0].private_key, d); sec_add("sign-key", d, 32); uint8_t sig[80]; size_t sl; venv_reset(2); sm2_sign(&CK[0], PLAIN, sig, &sl); sig[10] ^= 1; sm2_verify(&CK[0], PLAIN, sig, sl); venv_reset(3); venv_fail_at(0); sm2_sign(&CK[0], PLAIN, sig, &sl); SM2_SIGN_CTX c; venv_reset(4); venv_fail_at(5); sm2_sign_init(&c, &CK[0], "id", 2); }
static void a_decrypt(void) { creds_init(); NSEC = 0; uint8_t d[32]; sm2_z256_to_bytes(CK[1].private_key, d); sec_add("decrypt-key", d, 32); sec_add("plaintext", PLAIN, 40); uint8_t ct[300], out[300]; size_t cl = 0, ol; venv_reset(5); sm2_encrypt(&CK[1], PLAIN, 40, ct, &cl); sm2_decrypt(&CK[1], ct, cl, out, &ol); ct[cl - 3] ^= 1; sm2_decrypt(&CK[1], ct, cl, out, &ol); sm2_decrypt(&CK[2], ct, cl, out, &ol); sm2_decrypt(&CK[1], ct, cl - 5, out, &ol); }
static void a_ecdh(void) { creds_init(); NSEC = 0; uint8_t d[32], o[65], out[64]; sm2_z256_to_bytes(CK[0].private_key, d); sec_add("ecdh-key", d, 32); sm2_z256_point_to_uncompressed_octets(&CK[1].public_key, o); sm2_ecdh(&CK[0], o, 65, out); sec_add("ecdh-shared", out, 64); sm2_ecdh(&CK[0], o, 65, out); o[40] ^= 1; sm2_ecdh(&CK[0], o, 65, out); }
static void a_pkcs8(void) { creds_init(); NSEC = 0; uint8_t d[32]; sm2_z256_to_bytes(CK[0].private_key, d); sec_add("pkcs8-key", d, 32); sec_add("password", "Secr3tPassw0rd!!", 16); uint8_t b[600], *p = b; size_t l = 0; venv_reset(6); sm2_private_key_info_encrypt_to_der(&CK[0], "Secr3tPassw0rd!!", &p, &l); SM2_KEY k; const uint8_t *cp = b, *at; size_t al, il = l; sm2_private_key_info_decrypt_from_der(&k, &at, &al, "Secr3tPassw0rd!!", &cp, &il); cp = b; il = l; sm2_private_key_info_decrypt_from_der(&k, &at, &al, "Secr3tPassw0rd!?", &cp, &il); b[l - 4] ^= 1; cp = b; il = l; sm2_private_key_info_decrypt_from_der(&k, &at, &al, "Secr3tPassw0rd!!", &cp, &il);
	char *t = NULL; size_t tl = 0; FILE *f = open_memstream(&t, &tl); venv_reset(7); sm2_private_key_info_encrypt_to_pem(&CK[0], "Secr3tPassw0rd!!", f); fclose(f); FILE *g = fmemopen(t, tl, "r"); sm2_private_key_info_decrypt_from_pem(&k, "wrongwrongwrong!", g); fclose(g); }
static void a_cms(void) { creds_init(); NSEC = 0; uint8_t d[32]; sm2_z256_to_bytes(CK[2].private_key, d); sec_add("recipient-key", d, 32); sec_add("cms-content", PLAIN, 40); uint8_t key[16] = { 0x11, 0x22, 0x33, 0x44, 0x55, 0x66, 0x77, 0x88, 0x99, 0xaa, 0xbb, 0xcc, 0xdd, 0xee, 0xf1, 0x0f }, iv[16] = { 1 }; sec_add("content-key", key, 16);
	cert_spec s; spec_leaf(&s, "r", X509_KU_KEY_ENCIPHERMENT); uint8_t cert[1024]; size_t cl = 0; make_cert(&s, &CK[2], &CK[5], "R", cert, &cl); static uint8_t cms[4096], out[4096]; size_t ml = 0, ol; int ct; const uint8_t *ri, *s1, *s2; size_t ril, s1l, s2l; venv_reset(8); cms_envelop(cms, &ml, cert, cl, OID_sm4_cbc, key, 16, iv, 16, OID_cms_data, PLAIN, 40, NULL, 0, NULL, 0);
	cms_deenvelop(cms, ml, &CK[2], cert, cl, &ct, out, &ol, &ri, &ril, &s1, &s1l, &s2, &s2l); cms_deenvelop(cms, ml, &CK[3], cert, cl, &ct, out, &ol, &ri, &ril, &s1, &s1l, &s2, &s2l); cms[ml - 9] ^= 1; cms_deenvelop(cms, ml, &CK[2], cert, cl, &ct, out, &ol, &ri, &ril, &s1, &s1l, &s2, &s2l); int alg; cms_encrypt(cms, &ml, OID_sm4_cbc, key, 16, iv, 16, OID_cms_data, PLAIN, 40, NULL, 0, NULL, 0); key[0] ^= 1; cms_decrypt(cms, ml, &alg, key, 16, &ct, out, &ol, &s1, &s1l, &s2, &s2l); }
static void a_sm9(void) { NSEC = 0; SM9_SIGN_MASTER_KEY m; SM9_SIGN_KEY k; SM9_ENC_MASTER_KEY em; SM9_ENC_KEY ek; venv_reset(9); sm9_sign_master_key_generate(&m); uint8_t ks[32]; sm9_z256_to_bytes(m.ks, ks); sec_add("sm9-master-ks", ks, 32); sm9_sign_master_key_extract_key(&m, "alice", 5, &k); uint8_t o[65]; sm9_z256_point_to_uncompressed_octets(&k.ds, o); sec_add("sm9-user-ds", o + 1, 64);
	SM9_SIGN_CTX c; uint8_t sig[200]; size_t sl = 0; sm9_sign_init(&c); sm9_sign_update(&c, PLAIN, 40); sm9_sign_finish(&c, &k, sig, &sl); sm9_verify_init(&c); sm9_verify_update(&c, PLAIN, 39); sm9_verify_finish(&c, sig, sl, &m, "alice", 5); sm9_enc_master_key_generate(&em); sm9_z256_to_bytes(em.ke, ks); sec_add("sm9-master-ke", ks, 32); sm9_enc_master_key_extract_key(&em, "bob", 3, &ek); sec_add("sm9-plaintext", PLAIN, 40);
	uint8_t ct[400], out[300]; size_t cl = 0, ol; sm9_encrypt(&em, "bob", 3, PLAIN, 40, ct, &cl); sm9_decrypt(&ek, "bob", 3, ct, cl, out, &ol); ct[cl - 2] ^= 1; sm9_decrypt(&ek, "bob", 3, ct, cl, out, &ol); sm9_decrypt(&ek, "eve", 3, ct, cl, out, &ol); }
/* ---- key-file import failure paths: the complete one-byte neighbourhood (3 values per offset), every truncation and a spliced public key of each
   private-key container; after EVERY rejected (or accepted) import the two streams are searched for the private scalar and the password ---- */
int __real_sm3_pbkdf2(const char *pass, size_t passlen, const uint8_t *salt, size_t saltlen, size_t count, size_t outlen, uint8_t *out);
int __wrap_sm3_pbkdf2(const char *pass, size_t passlen, const uint8_t *salt, size_t saltlen, size_t count, size_t outlen, uint8_t *out) { return __real_sm3_pbkdf2(pass, passlen, salt, saltlen, count > 64 ? 64 : count, outlen, out); } /* cost cut, consistent for writer and reader (see c06a) */
static const char IMP_PW[] = "Secr3tPassw0rd!!";
static void imp_try(int kind, const uint8_t *b, size_t n) { SM2_KEY k; const uint8_t *cp = b, *at; size_t l = n, al; switch (kind) { case 0: sm2_private_key_from_der(&k, &cp, &l); break; case 1: sm2_private_key_info_from_der(&k, &at, &al, &cp, &l); break; case 2: sm2_private_key_info_decrypt_from_der(&k, &at, &al, IMP_PW, &cp, &l); break;
	default: { FILE *f = fmemopen((void *)b, n ? n : 1, "r"); if (f) { if (kind == 3) sm2_private_key_info_decrypt_from_pem(&k, IMP_PW, f); else sm2_private_key_info_from_pem(&k, f); fclose(f); } } } }
static int imp_check(const char *where) { cap_end(); scan_all(); CO->mutants++; if (CO->leak_fd) { snprintf(CO->where, sizeof CO->where, "%s", where); return 1; } return 0; }
static void import_case(const char *name, int kind, int spliced) { if (!vh_next()) return; memset(CO, 0, sizeof *CO); HFAIL[0] = 0; fflush(stdout); pid_t pid = fork();
	if (pid == 0) { alarm(120); creds_init(); NSEC = 0; uint8_t d[32]; sm2_z256_to_bytes(CK[0].private_key, d); sec_add("private-key", d, 32); sec_add("password", IMP_PW, 16); SM2_KEY src = CK[0]; if (spliced) src.public_key = CK[1].public_key; /* the scalar of one key with the public point of another */
		static uint8_t b[2000]; size_t n = 0; uint8_t *p = b; venv_reset(99); if (kind == 0) sm2_private_key_to_der(&src, &p, &n); else if (kind == 1) sm2_private_key_info_to_der(&src, &p, &n); else if (kind == 2) sm2_private_key_info_encrypt_to_der(&src, IMP_PW, &p, &n); else { char *t = NULL; size_t tl = 0; FILE *f = open_memstream(&t, &tl); if (kind == 3) sm2_private_key_info_encrypt_to_pem(&src, IMP_PW, f); else sm2_private_key_info_to_pem(&src, f); fclose(f); n = tl < sizeof b ? tl : sizeof b; memcpy(b, t, n); free(t); }
		char w[80]; cap_begin(); imp_try(kind, b, n); if (imp_check("untouched")) _exit(0); static uint8_t m[2000];
		for (size_t off = 0; off < n; off++) for (int v = 0; v < 3; v++) { memcpy(m, b, n); uint8_t nv = v == 0 ? 0x00 : v == 1 ? 0xff : (uint8_t)(b[off] ^ 0x01); if (nv == b[off]) continue; m[off] = nv; cap_begin(); imp_try(kind, m, n); snprintf(w, sizeof w, "byte %zu -> %02x", off, nv); if (imp_check(w)) _exit(0); }
		for (size_t t = 0; t < n; t++) { cap_begin(); imp_try(kind, b, t); snprintf(w, sizeof w, "truncated to %zu", t); if (imp_check(w)) _exit(0); }
		_exit(0); }
	int st; while (waitpid(pid, &st, 0) < 0 && errno == EINTR) {} NEXEC++; vh_eval(vh_hash(name, strlen(name), 6 + spliced)); char key[200];
	if (WIFEXITED(st) && !WEXITSTATUS(st) && CO->leak_fd) { snprintf(key, sizeof key, "C19:import:%s:%s-on-%s", name, CO->secname, CO->leak_fd == 1 ? "stdout" : "stderr"); vh_viol(key, "\"mutant\":\"%s\",\"form\":\"%s\",\"mutants_tried\":%ld", CO->where, CO->how, CO->mutants); }
	vh_sample("{\"block\":\"import\",\"container\":\"%s\",\"mutants\":%ld}", name, CO->mutants); }
static void blk_import(void) { if (!vh_block_begin("import")) return; static const char *KN[5] = { "ec-private-key-der", "pkcs8-der", "pkcs8-encrypted-der", "pkcs8-encrypted-pem", "pkcs8-pem" };
	for (int kind = 0; kind < 5; kind++) for (int sp = 0; sp < 2; sp++) { char nm[64]; snprintf(nm, sizeof nm, "%s%s", KN[kind], sp ? "-with-another-keys-public-point" : ""); import_case(nm, kind, sp); } }
static void blk_api(void) { if (!vh_block_begin("api")) return; api_case("sm2-keygen-export-import", a_keygen); api_case("sm2-sign-verify-entropy-failure", a_sign); api_case("sm2-decrypt-tampered-wrong-key", a_decrypt); api_case("sm2-ecdh", a_ecdh); api_case("pkcs8-right-and-wrong-password", a_pkcs8); api_case("cms-envelop-open-tampered", a_cms); api_case("sm9-sign-encrypt-failures", a_sm9); }
int main(int argc, char **argv) { vh_init(argc, argv); app_fill(); for (int i = 0; i < 40; i++) PLAIN[i] = (uint8_t)(0xC3 ^ (i * 29)); CO = mmap(NULL, sizeof *CO, PROT_READ | PROT_WRITE, MAP_SHARED | MAP_ANONYMOUS, -1, 0); blk_handshakes(); blk_api(); blk_import(); printf("STAT executions=%llu\n", (unsigned long long)NEXEC); return vh_finish(); }
