/* C06 (part c) — printing / tracing entry points on every sub-structure.
 * c06a feeds whole objects to the top-level readers; the ~120 exported `*_print` functions below them (extension bodies, general names,
 * policy structures, CMS parts, handshake messages, TLS 1.3 extensions) are reached there only through what the top-level printer decides
 * to pass down. Here each of them is an entry point of its own. The table of functions is generated from the headers of the tree under
 * test (bin/vgen_c06c), so a printer added to guanzhi/GmSSL is covered without touching the harness.
 *   input pool  = every node of the DER tree of every seed (as TLV and as bare content; seeds of c06a + a certificate carrying every
 *                 extension the library can write, a CRL with every CRL / entry extension, a request with attributes) and, for TLS,
 *                 every record and handshake message of honest TLCP / TLS 1.2 / TLS 1.3 runs (TLS 1.3 plaintext taken at the AEAD
 *                 boundary), their bodies and every length-prefixed vector found at any offset in them; de-duplicated
 *   deviations  = none; one byte of the first HEAD bytes or the last byte replaced by one of 6 values; every truncation to < HEAD bytes,
 *                 to n-1 and n-2 bytes
 *   x           = every function of the table (x every small value of its integer selector where it has one)
 * Each mutant sits in an exact-size heap block. Oracle: no sanitizer report, abort, signal or hang. */
#define C06_LIB 1
#include "c06a.c"
static uint8_t C06C_NAME[128]; static size_t C06C_NAMELEN;   /* the subject looked for by x509_cert_from_pem_by_subject */
#include "c06c_table.h"
#include <gmssl/x509_ext.h>

/* ---------- TLS 1.3 plaintext at the AEAD boundary ---------- */
int __real_sm4_gcm_encrypt(const SM4_KEY *key, const uint8_t *iv, size_t ivlen, const uint8_t *aad, size_t aadlen, const uint8_t *in, size_t inlen, uint8_t *out, size_t taglen, uint8_t *tag);
static struct { uint8_t *d; size_t n; } GLOG[64]; static int NGLOG; static int GREC;
int __wrap_sm4_gcm_encrypt(const SM4_KEY *key, const uint8_t *iv, size_t ivlen, const uint8_t *aad, size_t aadlen, const uint8_t *in, size_t inlen, uint8_t *out, size_t taglen, uint8_t *tag) {
	if (GREC && vn_active && NGLOG < 64 && inlen && inlen < 20000) { GLOG[NGLOG].d = (uint8_t *)malloc(inlen); memcpy(GLOG[NGLOG].d, in, inlen); GLOG[NGLOG].n = inlen; __sync_fetch_and_add(&NGLOG, 1); }
	return __real_sm4_gcm_encrypt(key, iv, ivlen, aad, aadlen, in, inlen, out, taglen, tag); }

/* ---------- pool ---------- */
typedef struct { uint8_t *d; size_t n; } inp_t; static inp_t *POOL; static int NPOOL, CAPPOOL; static uint64_t *PSET; static size_t PSETCAP = 1 << 20;
static uint64_t fnv(const uint8_t *p, size_t n) { uint64_t h = 1469598103934665603ULL ^ (n * 0x9E3779B97F4A7C15ULL); for (size_t i = 0; i < n; i++) { h ^= p[i]; h *= 1099511628211ULL; } return h ? h : 1; }
static void pool_add(const uint8_t *d, size_t n) { if (n > 20000) return; uint64_t h = fnv(d, n); size_t j = h & (PSETCAP - 1); while (PSET[j]) { if (PSET[j] == h) return; j = (j + 1) & (PSETCAP - 1); } PSET[j] = h;
	if (NPOOL == CAPPOOL) { CAPPOOL = CAPPOOL ? CAPPOOL * 2 : 4096; POOL = (inp_t *)realloc(POOL, CAPPOOL * sizeof *POOL); } POOL[NPOOL].d = (uint8_t *)malloc(n ? n : 1); memcpy(POOL[NPOOL].d, d, n); POOL[NPOOL].n = n; NPOOL++; }
static void pool_der(const uint8_t *d, size_t n) { pool_add(d, n); NND = 0; int root = tparse(d, n, 0); if (root < 0) return; static uint8_t tl[70000]; for (int i = 0; i < NND; i++) { pool_add(ND[i].v, ND[i].vl); if (ND[i].vl + 8 < sizeof tl) { size_t k = der_put_tlv(tl, ND[i].tag, ND[i].v, ND[i].vl); pool_add(tl, k); } if (ND[i].kind == 3 && ND[i].vl > 1) pool_add(ND[i].v + 1, ND[i].vl - 1); } }
static void pool_tls(const uint8_t *d, size_t n) { pool_add(d, n); size_t lim = n < 400 ? n : 400; for (size_t o = 0; o < lim; o++) { if (o == 4 || o == 5 || o == 9) pool_add(d + o, n - o);
		size_t l1 = d[o]; if (l1 && o + 1 + l1 <= n) { pool_add(d + o + 1, l1); pool_add(d + o, 1 + l1); }
		if (o + 2 <= n) { size_t l2 = ((size_t)d[o] << 8) | d[o + 1]; if (l2 && o + 2 + l2 <= n) { pool_add(d + o + 2, l2); pool_add(d + o, 2 + l2); if (o >= 2) pool_add(d + o - 2, 4 + l2); /* type + length + body (extension) */ } }
		if (o + 3 <= n) { size_t l3 = ((size_t)d[o] << 16) | ((size_t)d[o + 1] << 8) | d[o + 2]; if (l3 && o + 3 + l3 <= n) { pool_add(d + o + 3, l3); if (o >= 1) pool_add(d + o - 1, 4 + l3); /* handshake header + body */ } } } }

/* ---------- rich seeds ---------- */
static void rich_seeds(void) {
	static uint8_t b[8192], ex[4096], gn[1024], t1[1024], t2[1024]; size_t el = 0, gl = 0, n; uint8_t *p; uint8_t nm[128]; size_t nl; make_name(nm, &nl, "rich");
	static const uint32_t oidn[] = { 1, 2, 156, 10197, 6, 1, 4, 2, 1 }; uint8_t val[] = { 0x0c, 0x03, 'a', 'b', 'c' };
	x509_general_names_add_other_name(gn, &gl, sizeof gn, oidn, 9, val, sizeof val); x509_general_names_add_general_name(gn, &gl, sizeof gn, X509_gn_rfc822_name, (const uint8_t *)"a@b.cn", 6); x509_general_names_add_general_name(gn, &gl, sizeof gn, X509_gn_dns_name, (const uint8_t *)"www.b.cn", 8);
	{ uint8_t x4[] = { 0x30, 0x03, 0x02, 0x01, 0x05 }; x509_general_names_add_general_name(gn, &gl, sizeof gn, X509_gn_x400_address, x4, sizeof x4); } x509_general_names_add_general_name(gn, &gl, sizeof gn, X509_gn_directory_name, nm, nl);
	x509_general_names_add_edi_party_name(gn, &gl, sizeof gn, ASN1_TAG_PrintableString, (const uint8_t *)"assigner", 8, ASN1_TAG_UTF8String, (const uint8_t *)"party", 5); x509_general_names_add_general_name(gn, &gl, sizeof gn, X509_gn_uniform_resource_identifier, (const uint8_t *)"http://b.cn/x", 13);
	{ uint8_t ip[4] = { 127, 0, 0, 1 }; x509_general_names_add_general_name(gn, &gl, sizeof gn, X509_gn_ip_address, ip, 4); } x509_general_names_add_registered_id(gn, &gl, sizeof gn, oidn, 9);
	{ p = b; n = 0; if (x509_general_names_to_der(gn, gl, &p, &n) == 1) add_seed("general-names", b, n, c_cert, 1); }
	uint8_t kid[20] = { 1, 2, 3 }, ser[4] = { 1, 2, 3, 4 };
	x509_exts_add_authority_key_identifier(ex, &el, sizeof ex, X509_non_critical, kid, 20, gn, gl, ser, 4); x509_exts_add_subject_key_identifier(ex, &el, sizeof ex, X509_non_critical, kid, 20); x509_exts_add_key_usage(ex, &el, sizeof ex, X509_critical, X509_KU_DIGITAL_SIGNATURE | X509_KU_KEY_CERT_SIGN | X509_KU_CRL_SIGN | X509_KU_DECIPHER_ONLY);
	{ /* certificate policies: one with qualifiers (CPS uri + user notice), one by raw oid */ size_t ql = 0, pl = 0; uint8_t un[256], *q = t1; size_t unl = 0; int nn[3] = { 1, 2, 300 }; uint8_t *u = un; x509_user_notice_to_der(ASN1_TAG_UTF8String, (const uint8_t *)"org", 3, nn, 3, ASN1_TAG_BMPString, (const uint8_t *)"\0n\0o", 4, &u, &unl);
	  x509_policy_qualifier_info_to_der(OID_qt_cps, (const uint8_t *)"http://b.cn/cps", 15, &q, &ql); x509_policy_qualifier_info_to_der(OID_qt_unotice, un, unl, &q, &ql);
	  { uint8_t *w = t2; x509_policy_information_to_der(OID_any_policy, NULL, 0, t1, ql, &w, &pl); x509_policy_information_to_der(OID_undef, oidn, 9, NULL, 0, &w, &pl); } x509_exts_add_certificate_policies(ex, &el, sizeof ex, X509_non_critical, t2, pl); }
	{ size_t ml = 0; uint8_t *q = t1; x509_policy_mapping_to_der(OID_undef, oidn, 9, OID_undef, oidn, 8, &q, &ml); x509_policy_mapping_to_der(OID_undef, oidn, 7, OID_undef, oidn, 9, &q, &ml); x509_exts_add_policy_mappings(ex, &el, sizeof ex, X509_critical, t1, ml); }
	x509_exts_add_subject_alt_name(ex, &el, sizeof ex, X509_non_critical, gn, gl); x509_exts_add_issuer_alt_name(ex, &el, sizeof ex, X509_non_critical, gn, gl);
	{ size_t al = 0; uint8_t v[] = { 0x13, 0x02, 'C', 'N', 0x0c, 0x01, 'x' }; uint8_t *q = t1; x509_attribute_to_der(oidn, 9, v, sizeof v, &q, &al); x509_attribute_to_der(oidn, 8, v, 4, &q, &al); x509_exts_add_subject_directory_attributes(ex, &el, sizeof ex, X509_non_critical, t1, al); }
	x509_exts_add_basic_constraints(ex, &el, sizeof ex, X509_critical, 1, 3);
	{ size_t s1 = 0, s2 = 0; uint8_t *w1 = t1, *w2 = t2; x509_general_subtree_to_der(X509_gn_dns_name, (const uint8_t *)".b.cn", 5, 0, -1, &w1, &s1); x509_general_subtree_to_der(X509_gn_directory_name, nm, nl, 1, 5, &w1, &s1); x509_general_subtree_to_der(X509_gn_rfc822_name, (const uint8_t *)"x@y.cn", 6, 0, 2, &w2, &s2); x509_exts_add_name_constraints(ex, &el, sizeof ex, X509_critical, t1, s1, t2, s2); }
	x509_exts_add_policy_constraints(ex, &el, sizeof ex, X509_critical, 2, 5);
	{ int kp[] = { OID_kp_server_auth, OID_kp_client_auth, OID_kp_code_signing, OID_kp_email_protection, OID_kp_time_stamping, OID_kp_ocsp_signing, OID_any_extended_key_usage }; x509_exts_add_ext_key_usage(ex, &el, sizeof ex, X509_non_critical, kp, 7); }
	x509_exts_add_crl_distribution_points(ex, &el, sizeof ex, X509_non_critical, "http://b.cn/ca.crl", 18, "ldap://b.cn/cn=ca", 17); x509_exts_add_inhibit_any_policy(ex, &el, sizeof ex, X509_critical, 4);
	{ uint8_t *q = t1; size_t ql = 0; if (x509_uri_as_distribution_points_to_der("http://b.cn/delta.crl", 21, X509_RF_KEY_COMPROMISE | X509_RF_CA_COMPROMISE, nm, nl, &q, &ql) == 1) { /* content of the SEQUENCE OF */ der_cur c = { t1, ql }; int tg; const uint8_t *v; size_t vl; if (der_tlv(&c, &tg, &v, &vl, NULL)) x509_exts_add_freshest_crl(ex, &el, sizeof ex, X509_non_critical, v, vl); } }
	x509_exts_add_authority_info_access(ex, &el, sizeof ex, X509_non_critical, "http://b.cn/ca.crt", 18, "http://ocsp.b.cn", 16);
	{ static const uint8_t ns[] = { 0x30, 0x11, 0x06, 0x09, 0x60, 0x86, 0x48, 0x01, 0x86, 0xf8, 0x42, 0x01, 0x01, 0x04, 0x04, 0x03, 0x02, 0x06, 0x40 }; if (el + sizeof ns <= sizeof ex) { memcpy(ex + el, ns, sizeof ns); el += sizeof ns; } }
	{ uint8_t ser2[9] = { 0x55, 1, 2, 3, 4, 5, 6, 7, 8 }; uint8_t uid[5] = { 0, 0xaa, 0xbb, 0xcc, 0xdd }; p = b; n = 0; int r = x509_cert_sign_to_der(X509_version_v3, ser2, 9, OID_sm2sign_with_sm3, nm, nl, VENV_NOW - 100, VENV_NOW + 86400, nm, nl, &CK[2], uid, 5, uid, 5, ex, el, &CK[5], SM2_DEFAULT_ID, SM2_DEFAULT_ID_LENGTH, &p, &n);
	  if (r == 1) add_seed("rich-certificate", b, n, c_cert, 1); else vh_obs("rich certificate could not be written (%d, exts %zu bytes)", r, el); }
	{ /* rich CRL */ uint8_t rev[600], *rp = rev; size_t rl = 0; uint8_t ee[300], *ep = ee; size_t eel = 0; x509_crl_reason_ext_to_der(X509_non_critical, X509_cr_key_compromise, &ep, &eel); x509_invalidity_date_ext_to_der(X509_non_critical, VENV_NOW - 500, &ep, &eel); x509_cert_issuer_ext_to_der(X509_critical, gn, gl, &ep, &eel);
	  uint8_t s1[2] = { 1, 2 }; x509_revoked_cert_to_der(s1, 2, VENV_NOW - 10, ee, eel, &rp, &rl); x509_revoked_cert_to_der_ex(ser, 4, VENV_NOW - 9, X509_cr_ca_compromise, VENV_NOW - 20, gn, gl, &rp, &rl);
	  uint8_t ce[2048]; size_t cl = 0; x509_crl_exts_add_authority_key_identifier(ce, &cl, sizeof ce, X509_non_critical, kid, 20, gn, gl, ser, 4); x509_crl_exts_add_issuer_alt_name(ce, &cl, sizeof ce, X509_non_critical, gn, gl); x509_crl_exts_add_crl_number(ce, &cl, sizeof ce, X509_non_critical, 77); x509_crl_exts_add_delta_crl_indicator(ce, &cl, sizeof ce, X509_critical, 70);
	  x509_crl_exts_add_issuing_distribution_point(ce, &cl, sizeof ce, X509_critical, "http://b.cn/ca.crl", 18, 1, 0, X509_RF_KEY_COMPROMISE, 0, 0); x509_crl_exts_add_freshest_crl(ce, &cl, sizeof ce, X509_non_critical, "http://b.cn/d.crl", 17, "ldap://b.cn/d", 13); x509_crl_exts_add_authority_info_acess(ce, &cl, sizeof ce, X509_non_critical, "http://b.cn/ca.crt", 18, "http://ocsp.b.cn", 16);
	  p = b; n = 0; int r = x509_crl_sign_to_der(X509_version_v2, OID_sm2sign_with_sm3, nm, nl, VENV_NOW - 100, VENV_NOW + 1000, rev, rl, ce, cl, &CK[5], SM2_DEFAULT_ID, 16, &p, &n); if (r == 1) add_seed("rich-crl", b, n, c_crl, 1); else vh_obs("rich crl could not be written (%d)", r); }
	{ /* request with attributes */ size_t al = 0; uint8_t v[] = { 0x13, 0x02, 'p', 'w' }; static const uint32_t chpw[] = { 1, 2, 840, 113549, 1, 9, 7 }; uint8_t *q = t1; x509_attribute_to_der(chpw, 7, v, sizeof v, &q, &al); p = b; n = 0; if (x509_req_sign_to_der(X509_version_v1, nm, nl, &CK[2], t1, al, OID_sm2sign_with_sm3, &CK[2], SM2_DEFAULT_ID, 16, &p, &n) == 1) add_seed("rich-request", b, n, c_req, 1); }
}
static void tls_inputs(void) {
	for (int pr = 0; pr < 3; pr++) { static side_creds srv, cli; static ep_t c, s; build_side(&srv, pr, 0, 2, NULL); build_side(&cli, pr, 1, 1, NULL); memset(&c, 0, sizeof c); memset(&s, 0, sizeof s); c.proto = s.proto = pr; c.is_client = 1; c.mutual = s.mutual = 1; c.own = &cli; s.own = &srv; c.trust = &srv; s.trust = &cli; c.entropy_key = 1; s.entropy_key = 2; c.entropy_fail_at = s.entropy_fail_at = -1; int cr, sr;
		fflush(stdout); int sv = dup(1); int dn = open("/dev/null", 1); dup2(dn, 1); GREC = 1; vnet_run2(ep_task, &c, ep_task, &s, &cr, &sr); GREC = 0; fflush(stdout); dup2(sv, 1); close(sv); close(dn);
		for (int i = 0; i < vn_nlog && i < 24; i++) pool_tls(vn_log[i].copy, vn_log[i].len); }
	for (int i = 0; i < NGLOG; i++) pool_tls(GLOG[i].d, GLOG[i].n);
}

/* ---------- enumeration ---------- */
static int HEAD = 10;
static void one(const c06c_fn *f, const uint8_t *m, size_t n) { uint8_t *hb = (uint8_t *)malloc(n ? n : 1); memcpy(hb, m, n); f->fn(hb, n); free(hb); vh_nontriv++; }
static void run_input(const c06c_fn *f, const inp_t *in) { static uint8_t m[20008]; size_t n = in->n; one(f, in->d, n);
	size_t h = n < (size_t)HEAD ? n : (size_t)HEAD;
	for (size_t off = 0; off <= h; off++) { size_t o = off < h ? off : (n ? n - 1 : 0); if (off == h && (n <= h)) break; uint8_t v0 = in->d[o]; uint8_t S[6] = { 0x00, 0x7f, 0x80, 0xff, (uint8_t)(v0 ^ 1), (uint8_t)(v0 ^ 0x20) }; for (int k = 0; k < 6; k++) { if (S[k] == v0) continue; memcpy(m, in->d, n); m[o] = S[k]; one(f, m, n); } }
	for (size_t k = 0; k < h; k++) one(f, in->d, k); if (n > h + 1) one(f, in->d, n - 1); if (n > h + 2) one(f, in->d, n - 2); }
/* ---------- PEM readers: every *_from_pem of the headers x (every DER seed under every label the library reads) x text-level deviations ---------- */
static inp_t *PPOOL; static int NPP, CAPPP;
static void ppool_add(const char *t, size_t n) { if (n > 60000) return; if (NPP == CAPPP) { CAPPP = CAPPP ? CAPPP * 2 : 1024; PPOOL = (inp_t *)realloc(PPOOL, CAPPP * sizeof *PPOOL); } PPOOL[NPP].d = (uint8_t *)malloc(n ? n : 1); memcpy(PPOOL[NPP].d, t, n); PPOOL[NPP].n = n; NPP++; }
static char *pem_text(const char *label, const uint8_t *der, size_t n, size_t *tl) { char *t = NULL; FILE *f = open_memstream(&t, tl); pem_write(f, label, der, n); fclose(f); return t; }
static void build_ppool(void) {
	static const char *LAB[] = { "CERTIFICATE", "CERTIFICATE REQUEST", "X509 CRL", "CMS", "PUBLIC KEY", "PRIVATE KEY", "EC PRIVATE KEY", "ENCRYPTED PRIVATE KEY", "ENCRYPTED SM9 SIGN MASTER KEY", "SM9 SIGN MASTER PUBLIC KEY", "ENCRYPTED SM9 SIGN PRIVATE KEY", "ENCRYPTED SM9 ENC MASTER KEY", "SM9 ENC MASTER PUBLIC KEY", "ENCRYPTED SM9 ENC PRIVATE KEY" };
	for (int i = 0; i < NSEEDS; i++) { if (!SEEDS[i].der || SEEDS[i].n > 1700) continue; for (int l = 0; l < 14; l++) { size_t tl; char *t = pem_text(LAB[l], SEEDS[i].d, SEEDS[i].n, &tl); ppool_add(t, tl); free(t); } }
	/* several objects in one file: lists that outgrow the caller's buffer */
	for (int cnt = 2; cnt <= 12; cnt += (cnt < 4 ? 1 : 4)) { char *t = NULL; size_t tl = 0; FILE *f = open_memstream(&t, &tl); for (int k = 0; k < cnt; k++) pem_write(f, "CERTIFICATE", ROOTC, ROOTL); fclose(f); ppool_add(t, tl); free(t); }
	{ char *t = NULL; size_t tl = 0; FILE *f = open_memstream(&t, &tl); for (int i = 0; i < NSEEDS; i++) if (SEEDS[i].der && SEEDS[i].c == c_cert && SEEDS[i].n < 1700) pem_write(f, "CERTIFICATE", SEEDS[i].d, SEEDS[i].n); fclose(f); ppool_add(t, tl); free(t); } }
static void run_pem(const c06c_fn *f, const inp_t *in) { static char m[70000]; const char *t = (const char *)in->d; size_t n = in->n; one(f, in->d, n);
	const char *h_end = memchr(t, '\n', n); const char *foot = NULL; for (size_t i = n; i >= 5; i--) if (!memcmp(t + i - 5, "-----", 5) && i >= 10) { /* last line start */ size_t j = i - 5; while (j > 0 && t[j - 1] != '\n') j--; foot = t + j; break; } if (!h_end || !foot || foot <= h_end) return; size_t hl = (size_t)(h_end - t) + 1, bl = (size_t)(foot - t) - hl, fl = n - hl - bl; const char *body = t + hl;
#define EMIT(len) one(f, (const uint8_t *)m, (len))
	/* footer / header dropped, labels altered */ memcpy(m, t, hl + bl); EMIT(hl + bl); memcpy(m, body, bl + fl); EMIT(bl + fl); memcpy(m, t, n); m[hl + bl + 9] ^= 0x01; EMIT(n); memcpy(m, t, n); m[11] ^= 0x01; EMIT(n); memcpy(m, t, n); m[2] = '+'; EMIT(n);
	/* body on ONE long line; CRLF; blank lines; leading blanks */ { size_t k = hl; memcpy(m, t, hl); for (size_t i = 0; i < bl; i++) if (body[i] != '\n') m[k++] = body[i]; m[k++] = '\n'; memcpy(m + k, foot, fl); EMIT(k + fl); }
	{ size_t k = 0; for (size_t i = 0; i < n && k + 2 < sizeof m; i++) { if (t[i] == '\n') m[k++] = '\r'; m[k++] = t[i]; } EMIT(k); } { size_t k = 0; for (size_t i = 0; i < n && k + 2 < sizeof m; i++) { m[k++] = t[i]; if (t[i] == '\n') m[k++] = '\n'; } EMIT(k); } { size_t k = 0; for (size_t i = 0; i < n && k + 2 < sizeof m; i++) { if (i == 0 || t[i - 1] == '\n') m[k++] = ' '; m[k++] = t[i]; } EMIT(k); }
	/* one foreign character inside the body: first, middle, last position x { '*', ' ', '=', NUL, 0xff, '-' } */ { static const char FC[] = { '*', ' ', '=', 0, (char)0xff, '-' }; size_t P[3] = { hl, hl + bl / 2, hl + bl - 2 }; for (int p = 0; p < 3; p++) for (int c = 0; c < 6; c++) { if (P[p] >= n) continue; memcpy(m, t, n); m[P[p]] = FC[c]; EMIT(n); } }
	/* padding: removed, doubled */ { memcpy(m, t, n); size_t e = hl + bl; size_t q = e; while (q > hl && (m[q - 1] == '\n' || m[q - 1] == '=')) q--; if (q < e) { size_t k = q; m[k++] = '\n'; memcpy(m + k, foot, fl); EMIT(k + fl); k = q; m[k++] = '='; m[k++] = '='; m[k++] = '='; m[k++] = '='; m[k++] = '\n'; memcpy(m + k, foot, fl); EMIT(k + fl); } }
	/* empty body; garbage around; truncations */ memcpy(m, t, hl); memcpy(m + hl, foot, fl); EMIT(hl + fl); { size_t k = (size_t)snprintf(m, sizeof m, "garbage line\n-----BEGIN\n"); memcpy(m + k, t, n); k += n; k += (size_t)snprintf(m + k, sizeof m - k, "trailing garbage without newline"); EMIT(k); }
	{ size_t C[8] = { 0, 5, hl - 1, hl, hl + 1, hl + bl / 2, hl + bl, n - 1 }; for (int c = 0; c < 8; c++) if (C[c] <= n) one(f, in->d, C[c]); }
	/* a body line of 10000 characters */ { size_t k = hl; memcpy(m, t, hl); for (int r = 0; r < 10000 && k + 2 < sizeof m; r++) m[k++] = body[r % (bl ? bl : 1)] == '\n' ? 'A' : body[r % (bl ? bl : 1)]; m[k++] = '\n'; memcpy(m + k, foot, fl); EMIT(k + fl); }
#undef EMIT
}
static void body_pem(void) {
	for (int fi = 0; fi < C06C_NPEMFN; fi++) { char bn[96]; snprintf(bn, sizeof bn, "pem-%s", C06C_PEMFN[fi].name); if (!vh_block_begin(bn)) continue; if (vh_deadline_hit()) { vh_capped = 1; continue; }
		for (int i = 0; i < NPP; i++) { if (!vh_next()) continue; if (vh_deadline_hit()) { vh_capped = 1; break; } run_pem(&C06C_PEMFN[fi], &PPOOL[i]); }
		vh_sample("{\"pem_reader\":\"%s\",\"texts\":%d}", C06C_PEMFN[fi].name, NPP); } }
static void body_c(void) {
	for (int fi = 0; fi < C06C_NFN; fi++) { char bn[96]; snprintf(bn, sizeof bn, "fn-%s", C06C_FN[fi].name); if (!vh_block_begin(bn)) continue; if (vh_deadline_hit()) { vh_capped = 1; continue; }
		for (int i = 0; i < NPOOL; i++) { if (!vh_next()) continue; if (vh_deadline_hit()) { vh_capped = 1; break; } run_input(&C06C_FN[fi], &POOL[i]); }
		vh_sample("{\"function\":\"%s\",\"pool\":%d}", C06C_FN[fi].name, NPOOL); } }
int main(int argc, char **argv) { vh_init(argc, argv); NUL = fopen("/dev/null", "w"); app_fill(); PSET = (uint64_t *)calloc(PSETCAP, sizeof *PSET); build_seeds(); rich_seeds();
	const char *e = getenv("C06C_HEAD"); if (e) HEAD = atoi(e);
	for (int i = 0; i < NSEEDS; i++) { if (SEEDS[i].der) pool_der(SEEDS[i].d, SEEDS[i].n); else if (SEEDS[i].c == c_tlsrec) pool_tls(SEEDS[i].d, SEEDS[i].n); else pool_add(SEEDS[i].d, SEEDS[i].n); } tls_inputs();
	if (getenv("C06C_LIST")) for (int i = 0; i < NSEEDS; i++) fprintf(stderr, "seed %s %zu bytes\n", SEEDS[i].name, SEEDS[i].n);
	vh_obs("pool: %d distinct inputs from %d seeds, %d TLS 1.3 plaintexts; %d functions", NPOOL, NSEEDS, NGLOG, C06C_NFN);
	make_name(C06C_NAME, &C06C_NAMELEN, "R"); build_ppool(); vh_obs("PEM pool: %d texts; %d PEM readers", NPP, C06C_NPEMFN);
	if (!freopen("/dev/null", "w", stderr)) {} vh_guarded("C06", body_c, 20); vh_guarded("C06", body_pem, 20); return vh_finish(); }
