/* der.h — strict DER reader / tiny writer written for the harness (independent of the library's asn1.c). */
#ifndef VDER_H
#define VDER_H
#include <stdint.h>
#include <stddef.h>
#include <string.h>
typedef struct { const uint8_t *p; size_t n; } der_cur;
/* strict: single-byte tag (no high-tag-number form), definite length in minimal form, content inside the buffer */
static int der_tlv(der_cur *c, int *tag, const uint8_t **v, size_t *vl, size_t *hdrlen) {
	const uint8_t *p = c->p; size_t n = c->n; if (n < 2) return 0; if ((p[0] & 0x1f) == 0x1f) return 0; *tag = p[0]; size_t len, h = 2;
	if (p[1] < 0x80) len = p[1]; else { int k = p[1] & 0x7f; if (k == 0 || k > 4 || n < 2 + (size_t)k) return 0; if (p[2] == 0) return 0; len = 0; for (int i = 0; i < k; i++) len = (len << 8) | p[2 + i]; if (len < 0x80) return 0; h = 2 + k; }
	if (len > n - h) return 0; *v = p + h; *vl = len; if (hdrlen) *hdrlen = h; c->p = p + h + len; c->n = n - h - len; return 1;
}
/* non-negative INTEGER in minimal form */
static int der_uint_ok(const uint8_t *v, size_t vl) { if (vl == 0) return 0; if (v[0] & 0x80) return 0; if (vl > 1 && v[0] == 0 && !(v[1] & 0x80)) return 0; return 1; }
static int der_uint_to_fixed(const uint8_t *v, size_t vl, uint8_t *out, size_t outlen) { if (!der_uint_ok(v, vl)) return 0; if (v[0] == 0 && vl > 1) { v++; vl--; } if (vl > outlen) return 0; memset(out, 0, outlen); memcpy(out + outlen - vl, v, vl); return 1; }
/* whole-tree strictness: every TLV well formed, constructed ones recursively, no trailing bytes; BOOLEAN 00/ff; INTEGER minimal (sign allowed) */
static int der_tree_ok(const uint8_t *p, size_t n, int depth) {
	der_cur c = { p, n }; if (depth > 16) return 0;
	while (c.n) { int tag; const uint8_t *v; size_t vl; if (!der_tlv(&c, &tag, &v, &vl, NULL)) return 0;
		if (tag & 0x20) { if (!der_tree_ok(v, vl, depth + 1)) return 0; }
		else if (tag == 0x01) { if (vl != 1 || (v[0] != 0 && v[0] != 0xff)) return 0; }
		else if (tag == 0x02) { if (vl == 0) return 0; if (vl > 1 && ((v[0] == 0 && !(v[1] & 0x80)) || (v[0] == 0xff && (v[1] & 0x80)))) return 0; }
		else if (tag == 0x03) { if (vl == 0 || v[0] > 7 || (vl == 1 && v[0])) return 0; }
		else if (tag == 0x05) { if (vl) return 0; }
	}
	return 1;
}
/* writer */
static size_t der_put_len(uint8_t *o, size_t len) { if (len < 0x80) { o[0] = (uint8_t)len; return 1; } if (len < 0x100) { o[0] = 0x81; o[1] = (uint8_t)len; return 2; } if (len < 0x10000) { o[0] = 0x82; o[1] = (uint8_t)(len >> 8); o[2] = (uint8_t)len; return 3; } o[0] = 0x83; o[1] = (uint8_t)(len >> 16); o[2] = (uint8_t)(len >> 8); o[3] = (uint8_t)len; return 4; }
static size_t der_put_tlv(uint8_t *o, int tag, const uint8_t *v, size_t vl) { o[0] = (uint8_t)tag; size_t h = 1 + der_put_len(o + 1, vl); if (vl) memmove(o + h, v, vl); return h + vl; }
static size_t der_put_uint(uint8_t *o, const uint8_t *v, size_t vl) { while (vl > 1 && v[0] == 0) { v++; vl--; } uint8_t t[80]; size_t n = 0; if (v[0] & 0x80) t[n++] = 0; memcpy(t + n, v, vl); n += vl; return der_put_tlv(o, 0x02, t, n); }
#endif
