/* C16 — CMS messages round-trip for every signer/recipient set and reject tampering. */
#define _GNU_SOURCE
#include <stdio.h>
#include <gmssl/cms.h>
#include <gmssl/x509.h>
#include <gmssl/sm4.h>
#include "vh.h"
#include "creds.h"

#define NP 4
static uint8_t SCERT[NP][1024], RCERT[NP][1024]; static size_t SCL[NP], RCL[NP];
static SM2_KEY SKEY[NP][3], RKEY[NP][3];   /* key objects obtained by: 0 generation path (set_private_key), 1 DER import, 2 PEM import */
static uint8_t CONTENT[70000];
static void via_der(SM2_KEY *out, const SM2_KEY *in) { uint8_t b[256], *p = b; size_t l = 0; const uint8_t *cp = b; if (sm2_private_key_info_to_der(in, &p, &l) != 1) vh_harness_error("p8"); const uint8_t *at; size_t al; if (sm2_private_key_info_from_der(out, &at, &al, &cp, &l) != 1) vh_harness_error("p8 in"); }
static void via_pem(SM2_KEY *out, const SM2_KEY *in) { char *t = NULL; size_t tl = 0; FILE *f = open_memstream(&t, &tl); sm2_private_key_info_to_pem(in, f); fclose(f); FILE *g = fmemopen(t, tl, "r"); if (sm2_private_key_info_from_pem(out, g) != 1) vh_harness_error("pem in"); fclose(g); free(t); }
static void setup(void) {
	creds_init(); cert_spec ca; spec_ca(&ca, "CA", -1);
	for (int i = 0; i < NP; i++) { cert_spec s; char cn[8]; snprintf(cn, sizeof cn, "S%d", i); spec_leaf(&s, cn, X509_KU_DIGITAL_SIGNATURE); SCL[i] = 0; if (make_cert(&s, &CK[i], &CK[8], "CA", SCERT[i], &SCL[i]) != 1) vh_harness_error("cert");
		snprintf(cn, sizeof cn, "R%d", i); spec_leaf(&s, cn, X509_KU_KEY_ENCIPHERMENT); RCL[i] = 0; if (make_cert(&s, &CK[4 + i], &CK[8], "CA", RCERT[i], &RCL[i]) != 1) vh_harness_error("cert");
		SKEY[i][0] = CK[i]; via_der(&SKEY[i][1], &CK[i]); via_pem(&SKEY[i][2], &CK[i]); RKEY[i][0] = CK[4 + i]; via_der(&RKEY[i][1], &CK[4 + i]); via_pem(&RKEY[i][2], &CK[4 + i]); }
	for (size_t i = 0; i < sizeof CONTENT; i++) CONTENT[i] = (uint8_t)(i * 37 + 11 + (i >> 9));
}
static const size_t CLEN[] = { 0, 1, 15, 16, 17, 4096, 65536 };
static uint8_t MSG[140000], OUT[70000 + 64];

/* locate named regions in a produced message with the harness DER walker */
typedef struct { size_t off, len; const char *name; } region_t;
static int walk_children(const uint8_t *base, const uint8_t *v, size_t vl, der_cur *kids, int *tags, size_t *offs, int max) { der_cur c = { v, vl }; int n = 0; while (c.n && n < max) { const uint8_t *start = c.p; int tag; const uint8_t *cv; size_t cl; if (!der_tlv(&c, &tag, &cv, &cl, NULL)) return -1; kids[n].p = cv; kids[n].n = cl; tags[n] = tag; offs[n] = (size_t)(start - base); n++; } return n; }
/* ContentInfo -> inner structure value */
static int open_ci(const uint8_t *m, size_t n, const uint8_t **inner, size_t *il) { der_cur k[4]; int t[4]; size_t o[4]; der_cur c = { m, n }; int tag; const uint8_t *v; size_t vl; if (!der_tlv(&c, &tag, &v, &vl, NULL) || tag != 0x30) return 0; int nk = walk_children(m, v, vl, k, t, o, 4); if (nk < 2 || t[1] != 0xa0) return 0; der_cur e = k[1]; if (!der_tlv(&e, &tag, &v, &vl, NULL) || tag != 0x30) return 0; *inner = v; *il = vl; return 1; }
static int regions_signed(const uint8_t *m, size_t n, region_t *r, int max) { const uint8_t *sd; size_t sl; int nr = 0; if (!open_ci(m, n, &sd, &sl)) return -1; der_cur k[8]; int t[8]; size_t o[8]; int nk = walk_children(m, sd, sl, k, t, o, 8); if (nk < 4) return -1;
	/* contentInfo = 3rd child: SEQ { OID, [0] { OCTET STRING } } */ { der_cur kk[3]; int tt[3]; size_t oo[3]; int n2 = walk_children(m, k[2].p, k[2].n, kk, tt, oo, 3); if (n2 >= 2 && tt[1] == 0xa0) { der_cur e = kk[1]; int tag; const uint8_t *v; size_t vl; if (der_tlv(&e, &tag, &v, &vl, NULL) && vl && nr < max) { r[nr].off = (size_t)(v - m); r[nr].len = vl; r[nr].name = "content"; nr++; } } }
	/* signerInfos = last child (SET): each SignerInfo SEQ has exactly one OCTET STRING child = encryptedDigest */
	if (t[nk - 1] == 0x31) { der_cur si[8]; int st[8]; size_t so[8]; int ns = walk_children(m, k[nk - 1].p, k[nk - 1].n, si, st, so, 8); for (int i = 0; i < ns; i++) { der_cur f[12]; int ft[12]; size_t fo[12]; int nf = walk_children(m, si[i].p, si[i].n, f, ft, fo, 12); for (int j = 0; j < nf; j++) if (ft[j] == 0x04 && nr < max) { r[nr].off = (size_t)(f[j].p - m); r[nr].len = f[j].n; r[nr].name = "signature"; nr++; } } }
	return nr; }
static int regions_enveloped(const uint8_t *m, size_t n, region_t *r, int max) { const uint8_t *ed; size_t el; int nr = 0; if (!open_ci(m, n, &ed, &el)) return -1; der_cur k[8]; int t[8]; size_t o[8]; int nk = walk_children(m, ed, el, k, t, o, 8); if (nk < 3) return -1;
	/* recipientInfos SET (2nd child): each SEQ { version, issuerAndSerial, alg, encryptedKey OCTET STRING } */ { der_cur ri[8]; int rt[8]; size_t ro[8]; int n2 = walk_children(m, k[1].p, k[1].n, ri, rt, ro, 8); for (int i = 0; i < n2; i++) { der_cur f[8]; int ft[8]; size_t fo[8]; int nf = walk_children(m, ri[i].p, ri[i].n, f, ft, fo, 8); for (int j = 0; j < nf; j++) if (ft[j] == 0x04 && nr < max) { r[nr].off = (size_t)(f[j].p - m); r[nr].len = f[j].n; r[nr].name = "encrypted-key"; nr++; } } }
	/* encryptedContentInfo (3rd child): SEQ { OID, alg SEQ { OID, iv OCTET STRING }, [0] IMPLICIT ciphertext } */ { der_cur f[6]; int ft[6]; size_t fo[6]; int nf = walk_children(m, k[2].p, k[2].n, f, ft, fo, 6); if (nf >= 3) { der_cur a[3]; int at[3]; size_t ao[3]; int na = walk_children(m, f[1].p, f[1].n, a, at, ao, 3); if (na >= 2 && at[1] == 0x04 && nr < max) { r[nr].off = (size_t)(a[1].p - m); r[nr].len = a[1].n; r[nr].name = "iv"; nr++; } if ((ft[2] & 0xdf) == 0x80 && nr < max) { r[nr].off = (size_t)(f[2].p - m); r[nr].len = f[2].n; r[nr].name = "ciphertext"; nr++; } } }
	return nr; }
static int in_region(const region_t *r, int nr, size_t byte, const char **name) { for (int i = 0; i < nr; i++) if (byte >= r[i].off && byte < r[i].off + r[i].len) { *name = r[i].name; return 1; } return 0; }
/* the tag and length octets in front of a named field belong to that field ("any bit of ... ciphertext"): region "<name>-header" */
static int in_header(const region_t *r, int nr, size_t byte, const char **name) { static char nm[8][40]; static int rot; for (int i = 0; i < nr; i++) { size_t h = 1 + (r[i].len < 128 ? 1 : r[i].len < 256 ? 2 : 3); if (r[i].off >= h && byte >= r[i].off - h && byte < r[i].off) { char *o = nm[rot++ & 7]; snprintf(o, 40, "%s-header", r[i].name); *name = o; return 1; } } return 0; }
static int content_matches(int ctype, const uint8_t *c, size_t cl, const uint8_t *want, size_t wl) { if (ctype == OID_cms_data) { /* verify side hands back the OCTET STRING TLV or the raw value */ if (cl == wl && !memcmp(c, want, wl)) return 1; der_cur k = { c, cl }; int tag; const uint8_t *v; size_t vl; if (der_tlv(&k, &tag, &v, &vl, NULL) && tag == 0x04 && k.n == 0 && vl == wl && !memcmp(v, want, wl)) return 1; return wl == 0 && cl == 0; } return cl == wl && !memcmp(c, want, wl); }

static void blk_sign(void) {
	if (!vh_block_begin("sign-verify")) return;
	for (int ns = 1; ns <= NP; ns++) for (int kv = 0; kv < 3; kv++) for (int li = 0; li < 7; li++) { if (!vh_next()) continue; if (!vh_thorough && li >= 5 && (ns > 2 || kv)) continue;
		CMS_CERTS_AND_KEY sg[NP]; for (int i = 0; i < ns; i++) { sg[i].certs = SCERT[i]; sg[i].certs_len = SCL[i]; sg[i].sign_key = &SKEY[i][kv]; } size_t n = CLEN[li], ml = 0; venv_reset(ns * 100 + kv * 10 + li); char key[160];
		int r = cms_sign(MSG, &ml, sg, ns, OID_cms_data, CONTENT, n, NULL, 0); size_t kk[3] = { (size_t)ns, (size_t)kv, n }; vh_eval(vh_hash(kk, sizeof kk, 1));
		if (r != 1) { snprintf(key, sizeof key, "C16:sign:refused:signers=%d:%s", ns, n ? "content" : "empty-content"); vh_viol(key, "\"signers\":%d,\"len\":%zu,\"ret\":%d", ns, n, r); continue; }
		int ct; const uint8_t *c, *certs, *crls, *sis; size_t cl, certl, crll, sil; r = cms_verify(MSG, ml, NULL, 0, NULL, 0, &ct, &c, &cl, &certs, &certl, &crls, &crll, &sis, &sil); vh_eval(vh_hash(kk, sizeof kk, 2));
		if (r != 1) { snprintf(key, sizeof key, "C16:sign:own-message-does-not-verify:signers=%d", ns); vh_viol(key, "\"signers\":%d,\"key_origin\":%d,\"len\":%zu,\"ret\":%d", ns, kv, n, r); continue; }
		if (ct != OID_cms_data || !content_matches(ct, c, cl, CONTENT, n)) { snprintf(key, sizeof key, "C16:sign:content-differs"); vh_viol(key, "\"signers\":%d,\"len\":%zu,\"gotlen\":%zu", ns, n, cl); }
		for (int i = 0; i < ns; i++) { int found = 0; for (size_t o = 0; o + SCL[i] <= certl; o++) if (!memcmp(certs + o, SCERT[i], SCL[i])) { found = 1; break; } if (!found) { snprintf(key, sizeof key, "C16:sign:signer-certificate-not-returned"); vh_viol(key, "\"signers\":%d,\"missing\":%d", ns, i); } }
		/* every signer info must be made by the corresponding signer: count SignerInfos and verify each against its own certificate only */
		{ region_t rg[12]; int nr = regions_signed(MSG, ml, rg, 12); int nsig = 0; for (int i = 0; i < nr; i++) if (!strcmp(rg[i].name, "signature")) nsig++; if (nsig != ns) { snprintf(key, sizeof key, "C16:sign:signer-info-count"); vh_viol(key, "\"signers\":%d,\"infos\":%d", ns, nsig); }
			/* tamper: content <= 17 bytes: every single-bit flip; inside content/signature => must fail */
			if (n <= 17 && (kv == 0 || vh_thorough)) { static uint8_t m2[8000]; for (size_t bit = 0; bit < ml * 8; bit++) { const char *rn = NULL; int must = in_region(rg, nr, bit / 8, &rn) || in_header(rg, nr, bit / 8, &rn); if (!must && !(vh_thorough || (ns <= 2 && li == 1))) { vh_evals++; continue; } /* quick tier: the bits outside the named fields with one content length, 1-2 signers */ memcpy(m2, MSG, ml); m2[bit / 8] ^= (uint8_t)(1 << (bit % 8)); ct = -7; c = NULL; cl = 0xdead;
				r = cms_verify(m2, ml, NULL, 0, NULL, 0, &ct, &c, &cl, &certs, &certl, &crls, &crll, &sis, &sil); vh_eval(vh_hash(kk, sizeof kk, 1000 + bit)); if (r == 1 && must) { snprintf(key, sizeof key, "C16:sign:bitflip-accepted:%s", rn); vh_viol(key, "\"signers\":%d,\"len\":%zu,\"bit\":%zu", ns, n, bit); }
				/* any other bit of the message: if the message still verifies, what it hands back must be the signed content */
				else if (r == 1 && (ct != OID_cms_data || !c || !content_matches(ct, c, cl, CONTENT, n))) { vh_viol("C16:sign:bitflip-accepted-with-altered-content:structure", "\"signers\":%d,\"len\":%zu,\"bit\":%zu,\"byte\":%zu", ns, n, bit, bit / 8); } } } }
		/* a message whose signature was made by the wrong key: swap certificate order vs keys */
		if (ns >= 2 && li == 1) { CMS_CERTS_AND_KEY bad[NP]; for (int i = 0; i < ns; i++) { bad[i] = sg[i]; } bad[0].sign_key = &SKEY[1][kv]; bad[1].sign_key = &SKEY[0][kv]; size_t bl = 0; static uint8_t bm[9000]; if (cms_sign(bm, &bl, bad, ns, OID_cms_data, CONTENT, n, NULL, 0) == 1) { r = cms_verify(bm, bl, NULL, 0, NULL, 0, &ct, &c, &cl, &certs, &certl, &crls, &crll, &sis, &sil); vh_eval(vh_hash(kk, sizeof kk, 5)); if (r == 1) vh_viol("C16:sign:wrong-key-signature-verifies", "\"signers\":%d", ns); } }
		vh_sample("{\"block\":\"sign-verify\",\"signers\":%d,\"key_origin\":%d,\"content_len\":%zu,\"cms_len\":%zu}", ns, kv, n, ml);
	}
	/* structurally valid SignedData with zero SignerInfos: taken from a valid one-signer message, SignerInfos replaced by the empty SET (re-encoded with the harness writer) */
	if (vh_next()) { CMS_CERTS_AND_KEY sg = { SCERT[0], SCL[0], &SKEY[0][0] }; size_t ml = 0; venv_reset(4242); vh_eval(99);
		if (cms_sign(MSG, &ml, &sg, 1, OID_cms_data, CONTENT, 16, NULL, 0) == 1) { const uint8_t *sd; size_t sl; der_cur k[8]; int t[8]; size_t o[8]; if (open_ci(MSG, ml, &sd, &sl)) { int nk = walk_children(MSG, sd, sl, k, t, o, 8); if (nk >= 4 && t[nk - 1] == 0x31) {
			static uint8_t body[8000], seq[8100], ex[8200], ci[8300]; size_t bl = (size_t)((MSG + o[nk - 1]) - sd); memcpy(body, sd, bl); body[bl++] = 0x31; body[bl++] = 0x00; size_t ql = der_put_tlv(seq, 0x30, body, bl); size_t el = der_put_tlv(ex, 0xa0, seq, ql);
			/* outer: SEQ { contentType OID (copied from the original), [0] ... } */ der_cur c = { MSG, ml }; int tag; const uint8_t *v; size_t vl; der_tlv(&c, &tag, &v, &vl, NULL); der_cur in = { v, vl }; const uint8_t *ov; size_t ol2, oh; const uint8_t *ostart = in.p; der_tlv(&in, &tag, &ov, &ol2, &oh); size_t oidl = oh + ol2; static uint8_t ob[8400]; memcpy(ob, ostart, oidl); memcpy(ob + oidl, ex, el); size_t cil = der_put_tlv(ci, 0x30, ob, oidl + el);
			int ct; const uint8_t *cc, *certs, *crls, *sis; size_t cl, certl, crll, sil; int r = cms_verify(ci, cil, NULL, 0, NULL, 0, &ct, &cc, &cl, &certs, &certl, &crls, &crll, &sis, &sil); if (r == 1) vh_viol("C16:sign:zero-signer-infos-verifies", "\"cms\":\"%s\"", vh_hex(ci, cil > 120 ? 120 : cil));
			/* second zero-signer form: the signerInfos field left out entirely (SignedData ends after certificates) */
			bl = (size_t)((MSG + o[nk - 1]) - sd); memcpy(body, sd, bl); ql = der_put_tlv(seq, 0x30, body, bl); el = der_put_tlv(ex, 0xa0, seq, ql); memcpy(ob + oidl, ex, el); cil = der_put_tlv(ci, 0x30, ob, oidl + el);
			r = cms_verify(ci, cil, NULL, 0, NULL, 0, &ct, &cc, &cl, &certs, &certl, &crls, &crll, &sis, &sil); vh_eval(98); if (r == 1) vh_viol("C16:sign:absent-signer-infos-verifies", "\"cms\":\"%s\"", vh_hex(ci, cil > 120 ? 120 : cil));
			/* third form: certificates left out as well */
			if (nk >= 5) { bl = (size_t)((MSG + o[3]) - sd); memcpy(body, sd, bl); ql = der_put_tlv(seq, 0x30, body, bl); el = der_put_tlv(ex, 0xa0, seq, ql); memcpy(ob + oidl, ex, el); cil = der_put_tlv(ci, 0x30, ob, oidl + el); r = cms_verify(ci, cil, SCERT[0], SCL[0], NULL, 0, &ct, &cc, &cl, &certs, &certl, &crls, &crll, &sis, &sil); vh_eval(97); if (r == 1) vh_viol("C16:sign:absent-certs-and-signer-infos-verifies", "\"x\":1"); }
			/* sanity: the same rebuild WITH the original SignerInfos must still verify (the rebuild itself is sound) */ memcpy(body, sd, sl); ql = der_put_tlv(seq, 0x30, body, sl); el = der_put_tlv(ex, 0xa0, seq, ql); memcpy(ob + oidl, ex, el); cil = der_put_tlv(ci, 0x30, ob, oidl + el); r = cms_verify(ci, cil, NULL, 0, NULL, 0, &ct, &cc, &cl, &certs, &certl, &crls, &crll, &sis, &sil); if (r != 1) vh_harness_error("rebuilt one-signer message does not verify");
		} } } }
}
static uint8_t SK[16] = { 1,2,3,4,5,6,7,8,9,10,11,12,13,14,15,16 }, IV[16] = { 0xa0,0xa1,0xa2,0xa3,0xa4,0xa5,0xa6,0xa7,0xa8,0xa9,0xaa,0xab,0xac,0xad,0xae,0xaf };
static void blk_envelop(void) {
	if (!vh_block_begin("envelop")) return;
	for (int nr_ = 1; nr_ <= NP; nr_++) for (int li = 0; li < 7; li++) { if (!vh_next()) continue; if (!vh_thorough && li >= 5 && nr_ > 2) continue; size_t n = CLEN[li]; static uint8_t rc[5000]; size_t rcl = 0; for (int i = 0; i < nr_; i++) { memcpy(rc + rcl, RCERT[i], RCL[i]); rcl += RCL[i]; }
		size_t ml = 0; venv_reset(nr_ * 10 + li + 7000); char key[160]; int r = cms_envelop(MSG, &ml, rc, rcl, OID_sm4_cbc, SK, 16, IV, 16, OID_cms_data, CONTENT, n, NULL, 0, NULL, 0); size_t kk[2] = { (size_t)nr_, n }; vh_eval(vh_hash(kk, sizeof kk, 11));
		if (r != 1) { snprintf(key, sizeof key, "C16:envelop:refused:%s", n ? "content" : "empty-content"); vh_viol(key, "\"recipients\":%d,\"len\":%zu", nr_, n); continue; }
		for (int i = 0; i < NP; i++) for (int kv = 0; kv < 3; kv++) { int ct; size_t ol = 0; const uint8_t *ri, *s1, *s2; size_t ril, s1l, s2l; r = cms_deenvelop(MSG, ml, &RKEY[i][kv], RCERT[i], RCL[i], &ct, OUT, &ol, &ri, &ril, &s1, &s1l, &s2, &s2l); vh_eval(vh_hash(kk, sizeof kk, 100 + i * 3 + kv));
			if (i < nr_) { if (r != 1 || ol != n || memcmp(OUT, CONTENT, n)) { snprintf(key, sizeof key, "C16:envelop:recipient-cannot-open:key-origin=%s", kv == 0 ? "generated" : kv == 1 ? "der" : "pem"); vh_viol(key, "\"recipients\":%d,\"recipient\":%d,\"len\":%zu,\"ret\":%d", nr_, i, n, r); } }
			else if (r == 1) { vh_viol("C16:envelop:non-recipient-opens", "\"recipients\":%d,\"who\":%d", nr_, i); } }
		/* recipient certificate of one party with the key of another */
		{ int ct; size_t ol; const uint8_t *ri, *s1, *s2; size_t ril, s1l, s2l; r = cms_deenvelop(MSG, ml, &RKEY[(0 + 1) % NP][0], RCERT[0], RCL[0], &ct, OUT, &ol, &ri, &ril, &s1, &s1l, &s2, &s2l); vh_eval(vh_hash(kk, sizeof kk, 200)); if (r == 1) vh_viol("C16:envelop:key-cert-mismatch-opens", "\"recipients\":%d", nr_); }
		if (n <= 17 && n >= 1) { region_t rg[12]; int nr = regions_enveloped(MSG, ml, rg, 12); static uint8_t m2[9000]; if (nr < 3) { vh_viol("C16:envelop:walker-cannot-locate-fields", "\"nr\":%d", nr); continue; }
			for (size_t bit = 0; bit < ml * 8; bit++) { const char *rn = ""; int must = in_region(rg, nr, bit / 8, &rn) || in_header(rg, nr, bit / 8, &rn); if (!must && !(vh_thorough || (nr_ <= 2 && li == 1))) { vh_evals++; continue; } memcpy(m2, MSG, ml); m2[bit / 8] ^= (uint8_t)(1 << (bit % 8)); int ct = -7; size_t ol = 0xdead; const uint8_t *ri, *s1, *s2; size_t ril, s1l, s2l; memset(OUT, 0xEE, n + 64);
				/* opened by the LAST recipient so that flips in earlier recipients' encrypted keys are "another recipient's field": only own key / iv / ciphertext are demanded */
				int who = 0; r = cms_deenvelop(m2, ml, &RKEY[who][0], RCERT[who], RCL[who], &ct, OUT, &ol, &ri, &ril, &s1, &s1l, &s2, &s2l); vh_eval(vh_hash(kk, sizeof kk, 1000 + bit));
				size_t h0 = 1 + (rg[0].len < 128 ? 1 : rg[0].len < 256 ? 2 : 3); int own = strncmp(rn, "encrypted-key", 13) || (bit / 8 >= rg[0].off - h0 && bit / 8 < rg[0].off + rg[0].len); if (r == 1 && must && own) { snprintf(key, sizeof key, "C16:envelop:bitflip-accepted:%s", rn); vh_viol(key, "\"recipients\":%d,\"len\":%zu,\"bit\":%zu,\"content_changed\":%d", nr_, n, bit, ol != n || memcmp(OUT, CONTENT, n) != 0); }
				else if (r == 1 && !(must && own) && (ol != n || memcmp(OUT, CONTENT, n))) { /* the content TYPE inside EncryptedContentInfo is not protected by anything in this format and not named by the property: not compared */ vh_viol("C16:envelop:bitflip-accepted-with-altered-content:structure", "\"recipients\":%d,\"len\":%zu,\"bit\":%zu,\"byte\":%zu,\"outlen\":%zu", nr_, n, bit, bit / 8, ol); } } }
		vh_sample("{\"block\":\"envelop\",\"recipients\":%d,\"content_len\":%zu,\"cms_len\":%zu}", nr_, n, ml);
	}
}
static void blk_encrypt(void) {
	if (!vh_block_begin("encrypt")) return;
	for (int li = 0; li < 7; li++) { if (!vh_next()) continue; size_t n = CLEN[li], ml = 0; char key[160]; int r = cms_encrypt(MSG, &ml, OID_sm4_cbc, SK, 16, IV, 16, OID_cms_data, CONTENT, n, NULL, 0, NULL, 0); vh_eval(vh_mix(n + 31));
		if (r != 1) { snprintf(key, sizeof key, "C16:encrypt:refused:%s", n ? "content" : "empty-content"); vh_viol(key, "\"len\":%zu", n); continue; }
		int alg, ct; size_t ol = 0; const uint8_t *s1, *s2; size_t s1l, s2l; r = cms_decrypt(MSG, ml, &alg, SK, 16, &ct, OUT, &ol, &s1, &s1l, &s2, &s2l); vh_eval(vh_mix(n + 41)); if (r != 1 || ol != n || memcmp(OUT, CONTENT, n)) vh_viol("C16:encrypt:roundtrip", "\"len\":%zu,\"ret\":%d", n, r);
		uint8_t k2[16]; memcpy(k2, SK, 16); k2[5] ^= 1; r = cms_decrypt(MSG, ml, &alg, k2, 16, &ct, OUT, &ol, &s1, &s1l, &s2, &s2l); vh_eval(vh_mix(n + 51)); if (r == 1 && ol == n && !memcmp(OUT, CONTENT, n)) vh_viol("C16:encrypt:wrong-key-opens", "\"len\":%zu", n);
		if (n >= 1 && n <= 17) { /* EncryptedData = ContentInfo{ SEQ{version, EncryptedContentInfo} } */ const uint8_t *ed; size_t el; if (open_ci(MSG, ml, &ed, &el)) { der_cur k[4]; int t[4]; size_t o[4]; int nk = walk_children(MSG, ed, el, k, t, o, 4); region_t rg[4]; int nr = 0; if (nk >= 2) { der_cur f[6]; int ft[6]; size_t fo[6]; int nf = walk_children(MSG, k[1].p, k[1].n, f, ft, fo, 6); if (nf >= 3) { der_cur a[3]; int at[3]; size_t ao[3]; int na = walk_children(MSG, f[1].p, f[1].n, a, at, ao, 3); if (na >= 2) { rg[nr].off = (size_t)(a[1].p - MSG); rg[nr].len = a[1].n; rg[nr].name = "iv"; nr++; } rg[nr].off = (size_t)(f[2].p - MSG); rg[nr].len = f[2].n; rg[nr].name = "ciphertext"; nr++; } }
			static uint8_t m2[4000]; for (size_t bit = 0; bit < ml * 8; bit++) { const char *rn = ""; int must = in_region(rg, nr, bit / 8, &rn) || in_header(rg, nr, bit / 8, &rn); memcpy(m2, MSG, ml); m2[bit / 8] ^= (uint8_t)(1 << (bit % 8)); memset(OUT, 0xEE, n + 64); ol = 0xdead; ct = -7; r = cms_decrypt(m2, ml, &alg, SK, 16, &ct, OUT, &ol, &s1, &s1l, &s2, &s2l); vh_eval(vh_mix(n * 100000 + bit + 61)); if (r == 1 && must) { snprintf(key, sizeof key, "C16:encrypt:bitflip-accepted:%s", rn); vh_viol(key, "\"len\":%zu,\"bit\":%zu", n, bit); }
				else if (r == 1 && (ol != n || memcmp(OUT, CONTENT, n))) { vh_viol("C16:encrypt:bitflip-accepted-with-altered-content:structure", "\"len\":%zu,\"bit\":%zu,\"byte\":%zu,\"outlen\":%zu", n, bit, bit / 8, ol); } } } }
	}
	/* set_data */
	for (int li = 0; li < 7; li++) { if (!vh_next()) continue; size_t n = CLEN[li], ml = 0; int r = cms_set_data(MSG, &ml, CONTENT, n); vh_eval(vh_mix(n + 71)); int ct; const uint8_t *c; size_t cl; const uint8_t *cp = MSG; size_t il = ml; if (r != 1) { if (n) vh_viol("C16:set_data:refused", "\"len\":%zu", n); continue; } if (cms_content_info_from_der(&ct, &c, &cl, &cp, &il) != 1 || ct != OID_cms_data || il || !content_matches(ct, c, cl, CONTENT, n)) vh_viol("C16:set_data:roundtrip", "\"len\":%zu", n); }
}
/* the optional shared-info fields of the three encrypting message kinds, every pair of lengths from a small set (absent, 1, 16, 200 octets; the two
   fields of different sizes in particular): the message must still round-trip for every recipient, and the shared infos come back as supplied */
/* signed messages that carry CRLs (0, 1, 2 of them) for 1..NP signers; signed-and-enveloped likewise: own message verifies, content and the CRLs come back as supplied */
#include <gmssl/x509_crl.h>
static void blk_sign_crls(void) {
	if (!vh_block_begin("sign-with-crls")) return; static uint8_t crl[2][700]; size_t crll[2] = { 0, 0 }; uint8_t nm[128]; size_t nl = 0; if (make_name(nm, &nl, "CA") != 1) vh_harness_error("name");
	for (int i = 0; i < 2; i++) { uint8_t rev[128], *rp = rev; size_t rvl = 0; uint8_t ser[2] = { 0x11, (uint8_t)(i + 1) }; x509_revoked_cert_to_der(ser, 2, VENV_NOW - 500, NULL, 0, &rp, &rvl); uint8_t ex[64]; size_t el = 0; x509_crl_exts_add_crl_number(ex, &el, sizeof ex, X509_non_critical, i + 1); uint8_t *p = crl[i]; venv_reset(9100 + i);
		if (x509_crl_sign_to_der(X509_version_v2, OID_sm2sign_with_sm3, nm, nl, VENV_NOW - 100, VENV_NOW + 86400, rev, rvl, ex, el, &CK[8], SM2_DEFAULT_ID, SM2_DEFAULT_ID_LENGTH, &p, &crll[i]) != 1) vh_harness_error("crl"); }
	static uint8_t both[1400]; memcpy(both, crl[0], crll[0]); memcpy(both + crll[0], crl[1], crll[1]);
	for (int ns = 1; ns <= NP; ns++) for (int nc = 0; nc <= 2; nc++) for (int kind = 0; kind < 2; kind++) { if (!vh_next()) continue; CMS_CERTS_AND_KEY sg[NP]; for (int i = 0; i < ns; i++) { sg[i].certs = SCERT[i]; sg[i].certs_len = SCL[i]; sg[i].sign_key = &SKEY[i][0]; } size_t n = 40, ml = 0, cll = nc == 0 ? 0 : nc == 1 ? crll[0] : crll[0] + crll[1]; const uint8_t *cl_ = nc ? both : NULL; venv_reset(9200 + ns * 10 + nc * 2 + kind); char key[160]; static const char *KN[] = { "sign", "sign-and-envelop" };
		int r = kind == 0 ? cms_sign(MSG, &ml, sg, ns, OID_cms_data, CONTENT, n, cl_, cll) : cms_sign_and_envelop(MSG, &ml, sg, ns, RCERT[0], RCL[0], OID_sm4_cbc, SK, 16, IV, 16, OID_cms_data, CONTENT, n, cl_, cll, NULL, 0, NULL, 0); size_t kk[3] = { (size_t)ns, (size_t)nc, (size_t)kind }; vh_eval(vh_hash(kk, sizeof kk, 51));
		if (r != 1) { snprintf(key, sizeof key, "C16:sign-with-crls:%s:refused", KN[kind]); vh_viol(key, "\"signers\":%d,\"crls\":%d,\"ret\":%d", ns, nc, r); continue; }
		int ct = -1; const uint8_t *c = NULL, *certs, *crls = NULL, *sis, *ri, *s1, *s2; size_t cl = 0, certl, gcl = 0, sil, ril, s1l, s2l, ol = 0; memset(OUT, 0xEE, n + 32);
		r = kind == 0 ? cms_verify(MSG, ml, NULL, 0, NULL, 0, &ct, &c, &cl, &certs, &certl, &crls, &gcl, &sis, &sil) : cms_deenvelop_and_verify(MSG, ml, &RKEY[0][0], RCERT[0], RCL[0], NULL, 0, NULL, 0, &ct, OUT, &ol, &ri, &ril, &sis, &sil, &certs, &certl, &crls, &gcl, &s1, &s1l, &s2, &s2l); vh_eval(vh_hash(kk, sizeof kk, 52));
		if (r != 1) { snprintf(key, sizeof key, "C16:sign-with-crls:%s:own-message-does-not-verify", KN[kind]); vh_viol(key, "\"signers\":%d,\"crls\":%d,\"ret\":%d", ns, nc, r); continue; }
		if (kind == 0 ? !content_matches(ct, c, cl, CONTENT, n) : (ol != n || memcmp(OUT, CONTENT, n))) { snprintf(key, sizeof key, "C16:sign-with-crls:%s:content-differs", KN[kind]); vh_viol(key, "\"signers\":%d,\"crls\":%d", ns, nc); }
		if (gcl != cll || (cll && memcmp(crls, both, cll))) { snprintf(key, sizeof key, "C16:sign-with-crls:%s:crls-differ-from-the-supplied-ones", KN[kind]); vh_viol(key, "\"signers\":%d,\"crls\":%d,\"supplied_len\":%zu,\"returned_len\":%zu", ns, nc, cll, gcl); }
		vh_sample("{\"block\":\"sign-with-crls\",\"kind\":\"%s\",\"signers\":%d,\"crls\":%d,\"msglen\":%zu}", KN[kind], ns, nc, ml); }
}
static void blk_shared_info(void) {
	if (!vh_block_begin("shared-info")) return; static const size_t SL[] = { 0, 1, 16, 200 }; static uint8_t S1[200], S2[200]; for (int i = 0; i < 200; i++) { S1[i] = (uint8_t)(0x51 + i); S2[i] = (uint8_t)(0xa2 - i); }
	for (int kind = 0; kind < 3; kind++) for (int a = 0; a < 4; a++) for (int b = 0; b < 4; b++) { if (!vh_next()) continue; size_t n = 33, ml = 0, l1 = SL[a], l2 = SL[b]; const uint8_t *p1 = l1 ? S1 : NULL, *p2 = l2 ? S2 : NULL; static const char *KN[] = { "encrypt", "envelop", "sign-and-envelop" }; char key[160]; int r; venv_reset(8100 + kind * 16 + a * 4 + b);
		static uint8_t rc[3000]; size_t rcl = 0; for (int i = 0; i < 2; i++) { memcpy(rc + rcl, RCERT[i], RCL[i]); rcl += RCL[i]; } CMS_CERTS_AND_KEY sg = { SCERT[0], SCL[0], &SKEY[0][0] };
		r = kind == 0 ? cms_encrypt(MSG, &ml, OID_sm4_cbc, SK, 16, IV, 16, OID_cms_data, CONTENT, n, p1, l1, p2, l2) : kind == 1 ? cms_envelop(MSG, &ml, rc, rcl, OID_sm4_cbc, SK, 16, IV, 16, OID_cms_data, CONTENT, n, p1, l1, p2, l2)
			: cms_sign_and_envelop(MSG, &ml, &sg, 1, rc, rcl, OID_sm4_cbc, SK, 16, IV, 16, OID_cms_data, CONTENT, n, NULL, 0, p1, l1, p2, l2); size_t kk[3] = { (size_t)kind, l1, l2 }; vh_eval(vh_hash(kk, sizeof kk, 21));
		if (r != 1) { snprintf(key, sizeof key, "C16:shared-info:%s:refused", KN[kind]); vh_viol(key, "\"info1_len\":%zu,\"info2_len\":%zu,\"ret\":%d", l1, l2, r); continue; }
		for (int i = 0; i < (kind ? 2 : 1); i++) { int ct, alg; size_t ol = 0; const uint8_t *ri, *si, *sc, *scr, *s1 = NULL, *s2 = NULL; size_t ril, sil, scl, scrl, s1l = 0, s2l = 0; memset(OUT, 0xEE, n + 32);
			r = kind == 0 ? cms_decrypt(MSG, ml, &alg, SK, 16, &ct, OUT, &ol, &s1, &s1l, &s2, &s2l) : kind == 1 ? cms_deenvelop(MSG, ml, &RKEY[i][0], RCERT[i], RCL[i], &ct, OUT, &ol, &ri, &ril, &s1, &s1l, &s2, &s2l)
				: cms_deenvelop_and_verify(MSG, ml, &RKEY[i][0], RCERT[i], RCL[i], NULL, 0, NULL, 0, &ct, OUT, &ol, &ri, &ril, &si, &sil, &sc, &scl, &scr, &scrl, &s1, &s1l, &s2, &s2l); vh_eval(vh_hash(kk, sizeof kk, 31 + i));
			if (r != 1 || ol != n || memcmp(OUT, CONTENT, n)) { snprintf(key, sizeof key, "C16:shared-info:%s:own-message-does-not-open", KN[kind]); vh_viol(key, "\"info1_len\":%zu,\"info2_len\":%zu,\"recipient\":%d,\"ret\":%d", l1, l2, i, r); break; }
			if (s1l != l1 || s2l != l2 || (l1 && memcmp(s1, S1, l1)) || (l2 && memcmp(s2, S2, l2))) { snprintf(key, sizeof key, "C16:shared-info:%s:shared-info-differs-from-the-supplied-one", KN[kind]); vh_viol(key, "\"info1_len\":%zu,\"info2_len\":%zu,\"got1\":%zu,\"got2\":%zu", l1, l2, s1l, s2l); break; } }
		vh_sample("{\"block\":\"shared-info\",\"kind\":\"%s\",\"info1_len\":%zu,\"info2_len\":%zu,\"msglen\":%zu}", KN[kind], l1, l2, ml); }
}
static void blk_sign_envelop(void) {
	/* realistic certificates: six-field issuer names, 20-octet serial numbers - the RecipientInfo of each recipient is then about 270 octets instead of 230 */
	if (vh_block_begin("realistic-names")) { static uint8_t rcert[NP][1400]; static size_t rcl[NP]; uint8_t inm[256], snm[256]; size_t inl = 0, snl = 0; x509_name_set(inm, &inl, sizeof inm, "CN", "Beijing Municipality", "Haidian District", "Example Certification Authority Ltd", "Department of Secure Messaging", "Example Issuing CA for Recipients G2");
		for (int i = 0; i < NP; i++) { char cn[40]; snprintf(cn, sizeof cn, "recipient-%d.mail.example.cn", i); snl = 0; x509_name_set(snm, &snl, sizeof snm, "CN", "Beijing Municipality", NULL, "Example Organisation", NULL, cn); uint8_t ser[20]; for (int k = 0; k < 20; k++) ser[k] = (uint8_t)(0x21 + 7 * k + i); ser[0] = 0x5a; uint8_t ex[64]; size_t el = 0; x509_exts_add_key_usage(ex, &el, sizeof ex, X509_critical, X509_KU_KEY_ENCIPHERMENT); uint8_t *p = rcert[i]; rcl[i] = 0; venv_reset(8800 + i);
			if (x509_cert_sign_to_der(X509_version_v3, ser, 20, OID_sm2sign_with_sm3, inm, inl, VENV_NOW - 1000, VENV_NOW + 86400 * 365, snm, snl, &CK[4 + i], NULL, 0, NULL, 0, ex, el, &CK[8], SM2_DEFAULT_ID, SM2_DEFAULT_ID_LENGTH, &p, &rcl[i]) != 1) vh_harness_error("realistic cert"); }
		for (int nr_ = 1; nr_ <= NP; nr_++) for (int mode = 0; mode < 2; mode++) { if (!vh_next()) continue; static uint8_t rc[6000]; size_t rcll = 0; for (int i = 0; i < nr_; i++) { memcpy(rc + rcll, rcert[i], rcl[i]); rcll += rcl[i]; } size_t ml = 0, n = 100; venv_reset(8900 + nr_ * 2 + mode); CMS_CERTS_AND_KEY sg = { SCERT[0], SCL[0], &SKEY[0][0] }; char key[160]; vh_eval(vh_mix(nr_ * 2 + mode + 8801));
			int r = mode ? cms_sign_and_envelop(MSG, &ml, &sg, 1, rc, rcll, OID_sm4_cbc, SK, 16, IV, 16, OID_cms_data, CONTENT, n, NULL, 0, NULL, 0, NULL, 0) : cms_envelop(MSG, &ml, rc, rcll, OID_sm4_cbc, SK, 16, IV, 16, OID_cms_data, CONTENT, n, NULL, 0, NULL, 0);
			if (r != 1) { snprintf(key, sizeof key, "C16:%s:refused:recipients=%d-with-six-field-issuer-names", mode ? "sign-and-envelop" : "envelop", nr_); vh_viol(key, "\"recipients\":%d,\"issuer_name_octets\":%zu,\"ret\":%d", nr_, inl, r); continue; }
			for (int i = 0; i < nr_; i++) { int ct; size_t ol = 0; const uint8_t *ri, *si, *sc, *scr, *s1, *s2; size_t ril, sil, scl, scrl, s1l, s2l; memset(OUT, 0xEE, n + 32); r = mode ? cms_deenvelop_and_verify(MSG, ml, &RKEY[i][0], rcert[i], rcl[i], NULL, 0, NULL, 0, &ct, OUT, &ol, &ri, &ril, &si, &sil, &sc, &scl, &scr, &scrl, &s1, &s1l, &s2, &s2l) : cms_deenvelop(MSG, ml, &RKEY[i][0], rcert[i], rcl[i], &ct, OUT, &ol, &ri, &ril, &s1, &s1l, &s2, &s2l);
				if (r != 1 || ol != n || memcmp(OUT, CONTENT, n)) { snprintf(key, sizeof key, "C16:%s:realistic-names:recipient-cannot-open", mode ? "sign-and-envelop" : "envelop"); vh_viol(key, "\"recipients\":%d,\"recipient\":%d,\"ret\":%d", nr_, i, r); } }
			vh_sample("{\"block\":\"realistic-names\",\"mode\":\"%s\",\"recipients\":%d,\"cms_len\":%zu}", mode ? "sign-and-envelop" : "envelop", nr_, ml); } }
	if (!vh_block_begin("sign-and-envelop")) return;
	/* structurally valid SignedAndEnvelopedData with zero SignerInfos, taken from a genuine one-signer one-recipient message: the SignerInfos SET emptied, and the field left out
	   altogether; the recipient must not get "verified" for either (sanity: the same rebuild with the original SignerInfos still opens and verifies) */
	if (vh_next()) { CMS_CERTS_AND_KEY sg = { SCERT[0], SCL[0], &SKEY[0][0] }; size_t ml = 0; venv_reset(4343); vh_eval(96);
		if (cms_sign_and_envelop(MSG, &ml, &sg, 1, RCERT[0], RCL[0], OID_sm4_cbc, SK, 16, IV, 16, OID_cms_data, CONTENT, 16, NULL, 0, NULL, 0, NULL, 0) == 1) { const uint8_t *sd; size_t sl; der_cur k[10]; int t[10]; size_t o[10]; if (open_ci(MSG, ml, &sd, &sl)) { int nk = walk_children(MSG, sd, sl, k, t, o, 10); if (nk >= 5 && t[nk - 1] == 0x31) {
			static uint8_t body[9000], seq[9100], ex[9200], ci[9300], ob[9400]; der_cur c = { MSG, ml }; int tag; const uint8_t *v; size_t vl; der_tlv(&c, &tag, &v, &vl, NULL); der_cur in = { v, vl }; const uint8_t *ov; size_t ol2, oh; const uint8_t *ostart = in.p; der_tlv(&in, &tag, &ov, &ol2, &oh); size_t oidl = oh + ol2; memcpy(ob, ostart, oidl);
			for (int form = 0; form < 3; form++) { size_t bl = form == 2 ? sl : (size_t)((MSG + o[nk - 1]) - sd); memcpy(body, sd, bl); if (form == 0) { body[bl++] = 0x31; body[bl++] = 0x00; } size_t ql = der_put_tlv(seq, 0x30, body, bl); size_t el = der_put_tlv(ex, 0xa0, seq, ql); memcpy(ob + oidl, ex, el); size_t cil = der_put_tlv(ci, 0x30, ob, oidl + el);
				int ct = -7; size_t ol = 0xdead; const uint8_t *ri, *si, *sc, *scr, *s1, *s2; size_t ril, sil, scl, scrl, s1l, s2l; memset(OUT, 0xEE, 80); int r = cms_deenvelop_and_verify(ci, cil, &RKEY[0][1], RCERT[0], RCL[0], NULL, 0, NULL, 0, &ct, OUT, &ol, &ri, &ril, &si, &sil, &sc, &scl, &scr, &scrl, &s1, &s1l, &s2, &s2l); vh_eval(95 - form);
				if (form == 2) { if (r != 1) vh_harness_error("rebuilt signed-and-enveloped message does not open"); } else if (r == 1) vh_viol(form == 0 ? "C16:sign-and-envelop:zero-signer-infos-verifies" : "C16:sign-and-envelop:absent-signer-infos-verifies", "\"cms\":\"%s\"", vh_hex(ci, cil > 120 ? 120 : cil)); } } } } }
	for (int ns = 1; ns <= NP; ns++) for (int nr_ = 1; nr_ <= NP; nr_++) for (int li = 0; li < 6; li++) { if (!vh_next()) continue; if (!vh_thorough && (ns + nr_ > 4 || li == 5) && !(ns == nr_ && li == 1)) continue; size_t n = CLEN[li]; static uint8_t rc[5000]; size_t rcl = 0; for (int i = 0; i < nr_; i++) { memcpy(rc + rcl, RCERT[i], RCL[i]); rcl += RCL[i]; }
		CMS_CERTS_AND_KEY sg[NP]; for (int i = 0; i < ns; i++) { sg[i].certs = SCERT[i]; sg[i].certs_len = SCL[i]; sg[i].sign_key = &SKEY[i][0]; } size_t ml = 0; venv_reset(ns * 1000 + nr_ * 10 + li); char key[160];
		int r = cms_sign_and_envelop(MSG, &ml, sg, ns, rc, rcl, OID_sm4_cbc, SK, 16, IV, 16, OID_cms_data, CONTENT, n, NULL, 0, NULL, 0, NULL, 0); size_t kk[3] = { (size_t)ns, (size_t)nr_, n }; vh_eval(vh_hash(kk, sizeof kk, 21));
		if (r != 1) { snprintf(key, sizeof key, "C16:sign-and-envelop:refused:signers=%d:%s", ns, n ? "content" : "empty-content"); vh_viol(key, "\"signers\":%d,\"recipients\":%d,\"len\":%zu", ns, nr_, n); continue; }
		for (int i = 0; i < nr_; i++) { int ct; size_t ol = 0; const uint8_t *ri, *si, *sc, *scr, *s1, *s2; size_t ril, sil, scl, scrl, s1l, s2l; r = cms_deenvelop_and_verify(MSG, ml, &RKEY[i][1], RCERT[i], RCL[i], NULL, 0, NULL, 0, &ct, OUT, &ol, &ri, &ril, &si, &sil, &sc, &scl, &scr, &scrl, &s1, &s1l, &s2, &s2l); vh_eval(vh_hash(kk, sizeof kk, 100 + i));
			if (r != 1 || ol != n || memcmp(OUT, CONTENT, n)) { snprintf(key, sizeof key, "C16:sign-and-envelop:recipient-cannot-open-and-verify:signers=%d", ns); vh_viol(key, "\"signers\":%d,\"recipients\":%d,\"recipient\":%d,\"len\":%zu,\"ret\":%d", ns, nr_, i, n, r); break; } }
		/* every single-bit modification of the whole message (short contents): whatever is still opened AND verified must hand back exactly the
		   content type and content that were signed */
		if (n >= 1 && n <= 17 && ns == nr_ && ns <= 2 && ml < 6000 && (vh_thorough || (ns == 1 && n == 17))) { static uint8_t m2[6000]; for (size_t bit = 0; bit < ml * 8; bit++) { memcpy(m2, MSG, ml); m2[bit / 8] ^= (uint8_t)(1 << (bit % 8)); int ct = -1; size_t ol = 0; const uint8_t *ri, *si, *sc, *scr, *s1, *s2; size_t ril, sil, scl, scrl, s1l, s2l;
			r = cms_deenvelop_and_verify(m2, ml, &RKEY[0][0], RCERT[0], RCL[0], NULL, 0, NULL, 0, &ct, OUT, &ol, &ri, &ril, &si, &sil, &sc, &scl, &scr, &scrl, &s1, &s1l, &s2, &s2l); vh_eval(vh_hash(kk, sizeof kk, 5000 + bit));
			if (r == 1 && (ct != OID_cms_data || ol != n || memcmp(OUT, CONTENT, n))) { snprintf(key, sizeof key, "C16:sign-and-envelop:bitflip-accepted-with-altered-%s", ct != OID_cms_data ? "content-type" : "content"); vh_viol(key, "\"signers\":%d,\"len\":%zu,\"bit\":%zu,\"byte\":%zu,\"type_returned\":%d", ns, n, bit, bit / 8, ct); } } }
		{ int ct; size_t ol = 0; const uint8_t *ri, *si, *sc, *scr, *s1, *s2; size_t ril, sil, scl, scrl, s1l, s2l; r = cms_deenvelop_and_verify(MSG, ml, &RKEY[3][0], RCERT[3], RCL[3], NULL, 0, NULL, 0, &ct, OUT, &ol, &ri, &ril, &si, &sil, &sc, &scl, &scr, &scrl, &s1, &s1l, &s2, &s2l); vh_eval(vh_hash(kk, sizeof kk, 300)); if (nr_ < 4 && r == 1) vh_viol("C16:sign-and-envelop:non-recipient-opens", "\"recipients\":%d", nr_); }
	}
}
/* recipient sets whose members are easy to confuse: same serial under issuers whose names differ only in the last character, same issuer with
   serials that are prefixes of one another / differ in the last octet. Every member must open the message, nobody else's key may. */
static void blk_lookalike(void) {
	if (!vh_block_begin("envelop-lookalike-recipients")) return;
	static const struct { const char *i1, *i2; uint8_t s1[4]; size_t l1; uint8_t s2[4]; size_t l2; const char *name; } LK[] = {
		{ "Issuing CA 1", "Issuing CA 2", { 1, 2, 3 }, 3, { 1, 2, 3 }, 3, "same-serial-issuers-differ-in-last-char" }, { "1 Issuing CA", "2 Issuing CA", { 1, 2, 3 }, 3, { 1, 2, 3 }, 3, "same-serial-issuers-differ-in-first-char" },
		{ "CA", "CA", { 1 }, 1, { 1, 2 }, 2, "same-issuer-serial-is-prefix" }, { "CA", "CA", { 1, 2, 3 }, 3, { 1, 2, 4 }, 3, "same-issuer-serials-differ-in-last-octet" }, { "CA", "CB", { 9 }, 1, { 9 }, 1, "one-octet-serial-two-issuers" } };
	for (int c = 0; c < 5; c++) for (int order = 0; order < 2; order++) { if (!vh_next()) continue; uint8_t cert[2][1024]; size_t cl[2] = { 0, 0 }; cert_spec s; spec_leaf(&s, "r0", X509_KU_KEY_ENCIPHERMENT); memcpy(s.serial, LK[c].s1, LK[c].l1); s.serial_len = LK[c].l1; if (make_cert(&s, &CK[4], &CK[8], LK[c].i1, cert[0], &cl[0]) != 1) vh_harness_error("cert");
		spec_leaf(&s, "r1", X509_KU_KEY_ENCIPHERMENT); memcpy(s.serial, LK[c].s2, LK[c].l2); s.serial_len = LK[c].l2; if (make_cert(&s, &CK[5], &CK[9], LK[c].i2, cert[1], &cl[1]) != 1) vh_harness_error("cert");
		static uint8_t rc[3000]; size_t rcl = 0; int a = order, b = 1 - order; memcpy(rc, cert[a], cl[a]); rcl = cl[a]; memcpy(rc + rcl, cert[b], cl[b]); rcl += cl[b]; size_t ml = 0; venv_reset(9100 + c * 2 + order); char key[200];
		int r = cms_envelop(MSG, &ml, rc, rcl, OID_sm4_cbc, SK, 16, IV, 16, OID_cms_data, CONTENT, 33, NULL, 0, NULL, 0); vh_eval(vh_mix(9100 + c * 2 + order)); if (r != 1) { snprintf(key, sizeof key, "C16:envelop-lookalike:%s:refused", LK[c].name); vh_viol(key, "\"order\":%d", order); continue; }
		for (int who = 0; who < 2; who++) { int ct; size_t ol = 0; const uint8_t *ri, *s1, *s2; size_t ril, s1l, s2l; r = cms_deenvelop(MSG, ml, &CK[4 + who], cert[who], cl[who], &ct, OUT, &ol, &ri, &ril, &s1, &s1l, &s2, &s2l); vh_eval(vh_mix(9200 + c * 4 + order * 2 + who));
			if (r != 1 || ol != 33 || memcmp(OUT, CONTENT, 33)) { snprintf(key, sizeof key, "C16:envelop-lookalike:%s:recipient-cannot-open", LK[c].name); vh_viol(key, "\"recipient\":%d,\"position\":%d,\"ret\":%d", who, who == a ? 0 : 1, r); }
			/* the other member's certificate with this member's key must not open */
			r = cms_deenvelop(MSG, ml, &CK[4 + who], cert[1 - who], cl[1 - who], &ct, OUT, &ol, &ri, &ril, &s1, &s1l, &s2, &s2l); if (r == 1) { snprintf(key, sizeof key, "C16:envelop-lookalike:%s:opens-with-the-other-members-certificate", LK[c].name); vh_viol(key, "\"recipient\":%d", who); } }
		/* a message for ONE member only must not be opened by the look-alike */
		ml = 0; venv_reset(9300 + c); r = cms_envelop(MSG, &ml, cert[a], cl[a], OID_sm4_cbc, SK, 16, IV, 16, OID_cms_data, CONTENT, 33, NULL, 0, NULL, 0); if (r == 1) { int ct; size_t ol = 0; const uint8_t *ri, *s1, *s2; size_t ril, s1l, s2l; r = cms_deenvelop(MSG, ml, &CK[4 + b], cert[b], cl[b], &ct, OUT, &ol, &ri, &ril, &s1, &s1l, &s2, &s2l); vh_eval(vh_mix(9400 + c * 2 + order)); if (r == 1) { snprintf(key, sizeof key, "C16:envelop-lookalike:%s:non-recipient-opens", LK[c].name); vh_viol(key, "\"order\":%d", order); } } }
}
/* signer sets that are easy to confuse: one CA numbering its certificates so that one serial is a byte prefix of another, the same serial under
   two issuers; in both orders. The message must verify and hand back the content; flipping a content bit must still be refused. */
static void blk_lookalike_signers(void) {
	if (!vh_block_begin("sign-lookalike-signers")) return;
	static const struct { const char *i1, *i2; uint8_t s1[4]; size_t l1; uint8_t s2[4]; size_t l2; const char *name; } LK[] = {
		{ "CA", "CA", { 1, 0 }, 2, { 1 }, 1, "same-issuer-serial-0100-and-01" }, { "CA", "CA", { 1, 2, 3 }, 3, { 1, 2 }, 2, "same-issuer-serial-010203-and-0102" }, { "CA", "CA", { 1, 2, 3 }, 3, { 1, 2, 4 }, 3, "same-issuer-serials-differ-in-last-octet" },
		{ "Issuing CA 1", "Issuing CA 2", { 5 }, 1, { 5 }, 1, "same-serial-issuers-differ-in-last-char" }, { "CA", "CA", { 0x7f }, 1, { 0x7f, 0x01 }, 2, "same-issuer-serial-7f-and-7f01" } };
	for (int c = 0; c < 5; c++) for (int order = 0; order < 2; order++) { if (!vh_next()) continue; uint8_t cert[2][1024]; size_t cl[2] = { 0, 0 }; cert_spec sp; spec_leaf(&sp, "g0", X509_KU_DIGITAL_SIGNATURE); memcpy(sp.serial, LK[c].s1, LK[c].l1); sp.serial_len = LK[c].l1; if (make_cert(&sp, &CK[0], &CK[8], LK[c].i1, cert[0], &cl[0]) != 1) vh_harness_error("cert");
		spec_leaf(&sp, "g1", X509_KU_DIGITAL_SIGNATURE); memcpy(sp.serial, LK[c].s2, LK[c].l2); sp.serial_len = LK[c].l2; if (make_cert(&sp, &CK[1], &CK[8], LK[c].i2, cert[1], &cl[1]) != 1) vh_harness_error("cert");
		int a = order, b = 1 - order; CMS_CERTS_AND_KEY sg[2] = { { cert[a], cl[a], &CK[a] }, { cert[b], cl[b], &CK[b] } }; size_t ml = 0; venv_reset(9500 + c * 2 + order); char key[200]; int r = cms_sign(MSG, &ml, sg, 2, OID_cms_data, CONTENT, 33, NULL, 0); vh_eval(vh_mix(9500 + c * 2 + order));
		if (r != 1) { snprintf(key, sizeof key, "C16:sign-lookalike:%s:refused", LK[c].name); vh_viol(key, "\"order\":%d", order); continue; }
		int ct; const uint8_t *cc, *certs, *crls, *sis; size_t ccl, certl, crll, sil; r = cms_verify(MSG, ml, NULL, 0, NULL, 0, &ct, &cc, &ccl, &certs, &certl, &crls, &crll, &sis, &sil); vh_eval(vh_mix(9600 + c * 2 + order));
		if (r != 1 || !content_matches(ct, cc, ccl, CONTENT, 33)) { snprintf(key, sizeof key, "C16:sign-lookalike:%s:own-message-does-not-verify", LK[c].name); vh_viol(key, "\"order\":%d,\"ret\":%d", order, r); continue; }
		/* one signer's signature replaced by the other's must not verify: swap the two sign keys */
		CMS_CERTS_AND_KEY sw[2] = { { cert[a], cl[a], &CK[b] }, { cert[b], cl[b], &CK[a] } }; ml = 0; venv_reset(9700 + c * 2 + order); if (cms_sign(MSG, &ml, sw, 2, OID_cms_data, CONTENT, 33, NULL, 0) == 1) { r = cms_verify(MSG, ml, NULL, 0, NULL, 0, &ct, &cc, &ccl, &certs, &certl, &crls, &crll, &sis, &sil); vh_eval(vh_mix(9800 + c * 2 + order)); if (r == 1) { snprintf(key, sizeof key, "C16:sign-lookalike:%s:signatures-by-each-others-keys-verify", LK[c].name); vh_viol(key, "\"order\":%d", order); } } }
}
static void body(void) { blk_sign(); blk_lookalike_signers(); blk_envelop(); blk_lookalike(); blk_encrypt(); blk_shared_info(); blk_sign_crls(); blk_sign_envelop(); }
int main(int argc, char **argv) { vh_init(argc, argv); if (!freopen("/dev/null", "w", stderr)) {} setup(); vh_guarded("C16", body, vh_thorough ? 1200 : 120); return vh_finish(); }
