/* C09 — TLS peer authentication cannot be bypassed (part a: the authenticating endpoint is the real library code, the
 * peer is the real opposite endpoint configured with defective credentials through TLS_CTX filled directly). */
#include <stdio.h>
#include <sys/mman.h>
#include <sys/wait.h>
#include "vh.h"
#include "venv.h"
#include <time.h>
#include "tlsh.h"

typedef struct { const char *name; cred_defects df; int depth; int only_tlcp_server; int only_client; const char *tz; /* TZ of the verifying process (NULL: unchanged): validity is a statement about UTC instants whatever the local zone */ } defect_t;
static defect_t DEF[] = {
	{ "honest-depth1", {0}, 1 }, { "honest-depth2", {0}, 2 }, { "honest-depth3", {0}, 3 },
	{ "untrusted-root", { .untrusted_root = 1 }, 1 }, { "untrusted-root-depth2", { .untrusted_root = 1 }, 2 }, { "impostor-certificate-shaped-like-the-trust-anchor", { .untrusted_root = 1, .lookalike = 1 }, 1 }, { "expired", { .expired = 1 }, 1 }, { "not-yet-valid", { .notyet = 1 }, 1 }, { "not-yet-valid-by-2^32-seconds", { .notyet32 = 1 }, 1 }, { "expired-one-hour-ago-verifier-in-UTC+8", { .expired1h = 1 }, 1, 0, 0, "CST-8" }, { "expired-one-hour-ago-verifier-in-UTC-5", { .expired1h = 1 }, 1, 0, 0, "EST5" }, { "valid-in-one-hour-verifier-in-UTC-5", { .notyet1h = 1 }, 1, 0, 0, "EST5" }, { "valid-in-one-hour-verifier-in-UTC+8", { .notyet1h = 1 }, 1, 0, 0, "CST-8" }, { "honest-verifier-in-UTC+8", {0}, 1, 0, 0, "CST-8" }, { "honest-verifier-in-UTC-5", {0}, 1, 0, 0, "EST5" }, { "not-yet-valid-by-2^32-seconds-depth2", { .notyet32 = 1 }, 2 }, { "expired-depth2", { .expired = 1 }, 2 },
	{ "issuer-without-basicConstraints", { .issuer_no_bc = 1 }, 2 }, { "issuer-without-basicConstraints-depth3", { .issuer_no_bc = 1 }, 3 }, { "second-level-issuer-without-basicConstraints", { .issuer2_no_bc = 1 }, 3 }, { "second-level-issuer-cA-FALSE", { .issuer2_ca_false = 1 }, 3 }, { "issuer-cA-FALSE", { .issuer_ca_false = 1 }, 2 }, { "issuer-cA-FALSE-depth3", { .issuer_ca_false = 1 }, 3 },
	{ "certificate-signature-bitflip", { .sigflip = 1 }, 1 }, { "certificate-signature-bitflip-depth2", { .sigflip = 1 }, 2 }, { "sign-key-does-not-match-certificate", { .wrong_signkey = 1 }, 1 }, { "sign-key-does-not-match-certificate-depth2", { .wrong_signkey = 1 }, 2 },
	{ "enc-key-does-not-match-enc-certificate", { .wrong_enckey = 1 }, 1, 1 }, { "enc-certificate-forged", { .enc_forged = 1 }, 1, 1 }, { "enc-certificate-forged-depth2", { .enc_forged = 1 }, 2, 1 }, { "enc-certificate-forged-depth3", { .enc_forged = 1 }, 3, 1 }, { "enc-certificate-expired", { .enc_expired = 1 }, 1, 1 }, { "enc-certificate-expired-depth2", { .enc_expired = 1 }, 2, 1 }, { "chain-in-wrong-order", { .wrong_order = 1 }, 2 }, { "chain-in-wrong-order-depth3", { .wrong_order = 1 }, 3 }, { "forged-issuing-CA-depth2", { .issuer_forged = 1 }, 2 }, { "forged-issuing-CA-depth3", { .issuer_forged = 1 }, 3 }, { "forged-issuing-CA-under-a-CA-without-pathLen", { .issuer_forged = 1, .issuer2_no_pathlen = 1 }, 3 }, { "honest-upper-CA-without-pathLen", { .issuer2_no_pathlen = 1 }, 3 }, { "empty-chain", { .empty_chain = 1 }, 1, 0, 1 },
};
#define NDEF (sizeof DEF / sizeof DEF[0])
typedef struct { int status, c_hs, s_hs, sec_equal; } out_t; static out_t *XO; static char FAIL[32];
static void run_exec(int proto, int mode /* 0 server defective, 1 client defective (mutual), 2 server defective and it requests a client certificate (mutual), 3 / 4 = 0 / 1 with the VERIFIER's trust list holding the genuine root plus six unrelated CA certificates (more than 2048 octets) */, const defect_t *d) { int big = mode >= 3; if (big) mode -= 3; int who_is_defective = mode == 1; int mutual = mode != 0;
	memset(XO, 0, sizeof *XO); FAIL[0] = 0; fflush(stdout); pid_t pid = fork(); if (pid < 0) vh_harness_error("fork");
	if (pid == 0) { if (!freopen("/dev/null", "w", stderr) || !freopen("/dev/null", "w", stdout)) {} alarm(30); if (d->tz) { setenv("TZ", d->tz, 1); tzset(); } static side_creds srv, cli; static ep_t c, s; memset(&c, 0, sizeof c); memset(&s, 0, sizeof s);
		if (build_side(&srv, proto, 0, who_is_defective == 0 ? d->depth : 1, who_is_defective == 0 ? &d->df : NULL) != 1 || build_side(&cli, proto, 1, who_is_defective == 1 ? d->depth : 1, who_is_defective == 1 ? &d->df : NULL) != 1) _exit(3);
		c.proto = s.proto = proto; c.is_client = 1; c.mutual = s.mutual = mutual; c.own = &cli; s.own = &srv; c.trust = &srv; s.trust = mutual ? &cli : NULL;
		if (big) { static side_creds bt; bt = who_is_defective ? cli : srv; uint8_t *p = bt.cacerts + bt.cacertslen; for (int u = 0; u < 6; u++) { cert_spec us; char cn[8]; snprintf(cn, sizeof cn, "U%d", u); spec_ca(&us, cn, -1); size_t n = 0; if (make_cert(&us, &CK[9], &CK[9], cn, p, &n) == 1 && (size_t)(p - bt.cacerts) + n <= sizeof bt.cacerts) p += n; } bt.cacertslen = (size_t)(p - bt.cacerts); if (who_is_defective) s.trust = &bt; else c.trust = &bt; } c.entropy_key = 0xC11E17; s.entropy_key = 0x5E12BE12; c.entropy_fail_at = s.entropy_fail_at = -1;
		int cr, sr; XO->status = vnet_run2(ep_task, &c, ep_task, &s, &cr, &sr); XO->c_hs = c.hs_ret; XO->s_hs = s.hs_ret; XO->sec_equal = c.secrets_len == s.secrets_len && !memcmp(c.secrets, s.secrets, c.secrets_len); _exit(0); }
	int st; while (waitpid(pid, &st, 0) < 0 && errno == EINTR) {} if (!WIFEXITED(st) || WEXITSTATUS(st)) snprintf(FAIL, sizeof FAIL, "%s", WIFSIGNALED(st) ? (WTERMSIG(st) == SIGALRM ? "hang" : "crash") : (WEXITSTATUS(st) == 3 ? "cannot-build" : "abnormal-exit")); }
static uint64_t NSTATES, NTRANS;
static void body(void) {
	for (int p = 0; p < 3; p++) for (int mode = 0; mode < 5; mode++) { int who = (mode % 3) == 1; char bn[96]; snprintf(bn, sizeof bn, "%s-%s-verifies-%s%s", PNAME[p], who ? "server" : "client", who ? "client" : "server", mode == 2 ? "-that-requests-a-client-certificate" : mode >= 3 ? "-with-a-trust-list-over-2048-octets" : ""); if (!vh_block_begin(bn)) continue;
		for (size_t di = 0; di < NDEF; di++) { if (!vh_next()) continue; const defect_t *d = &DEF[di]; if (d->only_tlcp_server && !(p == P_TLCP && who == 0)) continue; if (d->only_client && who == 0) continue;
			run_exec(p, mode, d); int honest = !strncmp(d->name, "honest", 6); int verifier_done = who ? XO->s_hs == 1 : XO->c_hs == 1; size_t kk[3] = { (size_t)p, (size_t)mode, di }; vh_eval(vh_hash(kk, sizeof kk, 1)); NSTATES++; NTRANS += 2; char key[200];
			if (!strcmp(FAIL, "cannot-build")) { vh_obs("credentials for defect %s cannot be built", d->name); continue; }
			if (FAIL[0]) { snprintf(key, sizeof key, "C09:%s:%s:%s", bn, d->name, FAIL); vh_viol(key, "\"defect\":\"%s\"", d->name); continue; }
			if (honest && mode < 3 /* a trust list the connection cannot hold may be refused outright; what must not happen is that a defective peer is then accepted */ && !(XO->c_hs == 1 && XO->s_hs == 1 && XO->sec_equal)) { snprintf(key, sizeof key, "C09:%s:%s:honest-credentials-do-not-complete", bn, d->name); vh_viol(key, "\"c_hs\":%d,\"s_hs\":%d", XO->c_hs, XO->s_hs); }
			if (!honest && verifier_done) { snprintf(key, sizeof key, "C09:%s:%s:verifier-completed", bn, d->name); vh_viol(key, "\"defect\":\"%s\",\"depth\":%d,\"c_hs\":%d,\"s_hs\":%d,\"secrets_equal\":%d", d->name, d->depth, XO->c_hs, XO->s_hs, XO->sec_equal); }
			vh_sample("{\"block\":\"%s\",\"peer_credentials\":\"%s\",\"verifier_completed\":%d,\"peer_completed\":%d}", bn, d->name, verifier_done, who ? XO->c_hs == 1 : XO->s_hs == 1); } }
	printf("STAT states=%llu transitions=%llu executions=%llu\n", (unsigned long long)NSTATES, (unsigned long long)NTRANS, (unsigned long long)NSTATES);
}
int main(int argc, char **argv) { vh_init(argc, argv); app_fill(); XO = mmap(NULL, sizeof *XO, PROT_READ | PROT_WRITE, MAP_SHARED | MAP_ANONYMOUS, -1, 0); body(); return vh_finish(); }
