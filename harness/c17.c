/* C17 — SM9 signatures, encryption and key exchange are correct; the pairing is bilinear; the arithmetic agrees with integers.
 * Reference model: py/sm9_model.py (plain polynomial Fp12, definition-level R-ate pairing, validated on the GM/T 0044.5 worked
 * example) run as a co-process and queried per case.  Everything below is exhaustive over the stated alphabets. */
#include <stdio.h>
#include <stdarg.h>
#include <sys/wait.h>
#include <gmssl/sm9.h>
#include <gmssl/sm9_z256.h>
#include <gmssl/sm3.h>
#include <gmssl/hex.h>
#include "vh.h"
#include "venv.h"
#include "der.h"

/* ---------------- model co-process ---------------- */
static FILE *MW, *MR; static pid_t MPID; static uint64_t NQ;
static void model_start(void) { int a[2], b[2]; if (pipe(a) || pipe(b)) vh_harness_error("pipe"); MPID = fork(); if (MPID < 0) vh_harness_error("fork");
	if (MPID == 0) { dup2(a[0], 0); dup2(b[1], 1); close(a[1]); close(b[0]); const char *root = getenv("VERIF_ROOT"); char path[512]; snprintf(path, sizeof path, "%s/py/sm9_model.py", root ? root : "/verif"); execlp("python3", "python3", path, "--serve", (char *)NULL); _exit(127); }
	close(a[0]); close(b[1]); MW = fdopen(a[1], "w"); MR = fdopen(b[0], "r"); }
static char MLINE[8192];
/* returns number of result bytes, -1 if the model raised an error (MLINE holds the text) */
static int mq(uint8_t *out, size_t cap, const char *fmt, ...) { va_list ap; va_start(ap, fmt); vfprintf(MW, fmt, ap); va_end(ap); fputc('\n', MW); fflush(MW); NQ++;
	if (!fgets(MLINE, sizeof MLINE, MR)) vh_harness_error("model died"); size_t l = strlen(MLINE); while (l && (MLINE[l - 1] == '\n' || MLINE[l - 1] == '\r')) MLINE[--l] = 0;
	if (strncmp(MLINE, "ok ", 3)) return -1; if (!strcmp(MLINE + 3, "-")) return 0; size_t n = (l - 3) / 2; if (n > cap) vh_harness_error("model answer too long"); size_t ol; hex_to_bytes(MLINE + 3, 2 * n, out, &ol); return (int)n; }
#define HX(p, n) vh_hex(p, n)
static char *hx384(const void *p) { static char b[4][800]; static int r; char *o = b[r++ & 3]; const uint8_t *q = (const uint8_t *)p; for (int i = 0; i < 384; i++) sprintf(o + 2 * i, "%02x", q[i]); return o; }
static char *hxn(const void *p, size_t n) { static char b[4][17000]; static int r; char *o = b[r++ & 3]; const uint8_t *q = (const uint8_t *)p; for (size_t i = 0; i < n; i++) sprintf(o + 2 * i, "%02x", q[i]); o[2 * n] = 0; if (!n) strcpy(o, "-"); return o; }

/* ---------------- operand alphabets ---------------- */
static const char *P_HEX = "B640000002A3A6F1D603AB4FF58EC74521F2934B1A7AEEDBE56F9B27E351457D", *N_HEX = "B640000002A3A6F1D603AB4FF58EC74449F2934B18EA8BEEE56EE19CD69ECF25";
typedef struct { uint8_t b[32]; } v32;
static v32 FPV[700]; static int NFPV;     /* values < p */
static v32 SC[40]; static int NSC;        /* scalars (any 256-bit value) */
static int cmp32(const uint8_t *a, const uint8_t *b) { return memcmp(a, b, 32); }
static void sub32(uint8_t *r, const uint8_t *a, const uint8_t *b) { int br = 0; for (int i = 31; i >= 0; i--) { int d = a[i] - b[i] - br; br = d < 0; r[i] = (uint8_t)(d + (br ? 256 : 0)); } }
static void add_small(uint8_t *r, const uint8_t *a, int k) { memcpy(r, a, 32); if (k >= 0) { int c = k; for (int i = 31; i >= 0 && c; i--) { c += r[i]; r[i] = (uint8_t)c; c >>= 8; } } else { int bw = -k; for (int i = 31; i >= 0 && bw; i--) { int d = r[i] - (bw & 0xff); bw >>= 8; if (d < 0) { d += 256; bw += 1; } r[i] = (uint8_t)d; } } }
static uint8_t PB[32], NB[32];
static int add32(uint8_t *r, const uint8_t *a, const uint8_t *b) { int c = 0; for (int i = 31; i >= 0; i--) { int d = a[i] + b[i] + c; c = d > 255; r[i] = (uint8_t)d; } return c; }
/* the same G1 point written with a coordinate that is not reduced: x + p or y + p in place of x or y (possible when the sum still fits in 32 octets). The object then
   differs from the genuine one in many bits and must be refused like any other altered object. Returns the number of variants written into out[k] (each `len` octets). */
static int coord_aliases(const uint8_t *obj, size_t len, uint8_t out[2][700]) { int n = 0; for (size_t i = 0; i + 4 + 64 <= len; i++) if (obj[i] == 0x03 && obj[i + 1] == 0x42 && obj[i + 2] == 0x00 && obj[i + 3] == 0x04) { for (int c = 0; c < 2; c++) { uint8_t t[32]; if (add32(t, obj + i + 4 + 32 * c, PB)) continue; memcpy(out[n], obj, len); memcpy(out[n] + i + 4 + 32 * c, t, 32); n++; } break; } return n; }
static void hexv(uint8_t *o, const char *h) { size_t l; hex_to_bytes(h, 64, o, &l); }
static void build_alphabets(void) { hexv(PB, P_HEX); hexv(NB, N_HEX);
	static const uint64_t L[5] = { 0, 1, 0x8000000000000000ULL, 0xffffffffffffffffULL, 0x123456789abcdef1ULL }; int nl = vh_thorough ? 5 : 4;
	for (int a = 0; a < nl; a++) for (int b = 0; b < nl; b++) for (int c = 0; c < nl; c++) for (int d = 0; d < nl; d++) { uint64_t w[4] = { L[a], L[b], L[c], L[d] }; uint8_t v[32]; for (int i = 0; i < 4; i++) for (int j = 0; j < 8; j++) v[8 * i + j] = (uint8_t)(w[i] >> (56 - 8 * j)); while (cmp32(v, PB) >= 0) sub32(v, v, PB); int dup = 0; for (int k = 0; k < NFPV; k++) if (!cmp32(FPV[k].b, v)) { dup = 1; break; } if (!dup) memcpy(FPV[NFPV++].b, v, 32); }
	for (int k = -3; k <= -1; k++) add_small(FPV[NFPV++].b, PB, k);   /* p-3 .. p-1 */
	{ uint8_t h[32]; memcpy(h, PB, 32); int c = 0; for (int i = 0; i < 32; i++) { int v = (c << 8) | h[i]; h[i] = (uint8_t)(v >> 1); c = v & 1; } memcpy(FPV[NFPV++].b, h, 32); add_small(FPV[NFPV++].b, h, 1); }
	/* scalars */
	static const char *S[] = { "0000000000000000000000000000000000000000000000000000000000000000", "0000000000000000000000000000000000000000000000000000000000000001", "0000000000000000000000000000000000000000000000000000000000000002", "0000000000000000000000000000000000000000000000000000000000000003",
		"0000000000000000000000000000000100000000000000000000000000000000", "8000000000000000000000000000000000000000000000000000000000000000", "7FFFFFFFFFFFFFFFFFFFFFFFFFFFFFFFFFFFFFFFFFFFFFFFFFFFFFFFFFFFFFFFFF", "FFFFFFFFFFFFFFFFFFFFFFFFFFFFFFFFFFFFFFFFFFFFFFFFFFFFFFFFFFFFFFFF",
		"000130E78459D78545CB54C587E02CF480CE0B66340F319F348A1D5B1F2DC5F4", "5A5A5A5A5A5A5A5A5A5A5A5A5A5A5A5A5A5A5A5A5A5A5A5A5A5A5A5A5A5A5A5A", "0000000000000000FFFFFFFFFFFFFFFF0000000000000000FFFFFFFFFFFFFFFF", "00000000000000000000000000000000000000000000000000000000000000FF" };
	for (int i = 0; i < 12; i++) hexv(SC[NSC++].b, S[i]); for (int k = -2; k <= 2; k++) add_small(SC[NSC++].b, NB, k); }
static void to_z(sm9_z256_t z, const uint8_t *b) { sm9_z256_from_bytes(z, b); }
static void to_mont(sm9_z256_t z, const uint8_t *b) { sm9_z256_from_bytes(z, b); sm9_z256_modp_to_mont(z, z); }
static void from_mont(uint8_t *b, const sm9_z256_t z) { sm9_z256_t t; sm9_z256_modp_from_mont(t, z); sm9_z256_to_bytes(t, b); }

/* ---------------- Fp and Fn ---------------- */
static void blk_fp(void) {
	static const char *OP2[] = { "add", "sub", "mul" }; static const char *OP1[] = { "neg", "dbl", "tri", "haf", "sqr", "inv" };
	if (vh_block_begin("fp-binary")) for (int i = 0; i < NFPV; i++) for (int j = 0; j < NFPV; j++) { if (!vh_next()) continue; sm9_z256_t a, b, r; to_mont(a, FPV[i].b); to_mont(b, FPV[j].b);
		for (int o = 0; o < 3; o++) { if (o == 0) sm9_z256_modp_add(r, a, b); else if (o == 1) sm9_z256_modp_sub(r, a, b); else sm9_z256_modp_mont_mul(r, a, b); uint8_t got[32], exp[32]; from_mont(got, r); if (mq(exp, 32, "fop 1 %s %s %s", OP2[o], HX(FPV[i].b, 32), HX(FPV[j].b, 32)) != 32) vh_harness_error("model: %s", MLINE); vh_evals++; vh_nontriv++; if (memcmp(got, exp, 32)) { char k[64]; snprintf(k, sizeof k, "C17:fp:%s:value", OP2[o]); vh_viol(k, "\"a\":\"%s\",\"b\":\"%s\",\"got\":\"%s\",\"expected\":\"%s\"", HX(FPV[i].b, 32), HX(FPV[j].b, 32), HX(got, 32), HX(exp, 32)); } } }
	if (vh_block_begin("fp-unary")) for (int i = 0; i < NFPV; i++) { if (!vh_next()) continue; sm9_z256_t a, r; to_mont(a, FPV[i].b); int zero = 1; for (int k = 0; k < 32; k++) if (FPV[i].b[k]) zero = 0;
		for (int o = 0; o < 6; o++) { if (o == 5 && zero) continue; switch (o) { case 0: sm9_z256_modp_neg(r, a); break; case 1: sm9_z256_modp_dbl(r, a); break; case 2: sm9_z256_modp_tri(r, a); break; case 3: sm9_z256_modp_haf(r, a); break; case 4: sm9_z256_modp_mont_sqr(r, a); break; default: sm9_z256_modp_mont_inv(r, a); }
			uint8_t got[32], exp[32]; from_mont(got, r); if (mq(exp, 32, "fop 1 %s %s", OP1[o], HX(FPV[i].b, 32)) != 32) vh_harness_error("model: %s", MLINE); vh_evals++; vh_nontriv++; if (memcmp(got, exp, 32)) { char k[64]; snprintf(k, sizeof k, "C17:fp:%s:value", OP1[o]); vh_viol(k, "\"a\":\"%s\",\"got\":\"%s\",\"expected\":\"%s\"", HX(FPV[i].b, 32), HX(got, 32), HX(exp, 32)); } }
		for (int s = 0; s < NSC; s++) { sm9_z256_t e; to_z(e, SC[s].b); sm9_z256_modp_mont_pow(r, a, e); uint8_t got[32], exp[32]; from_mont(got, r); if (mq(exp, 32, "fpow 01 %s %s", HX(FPV[i].b, 32), HX(SC[s].b, 32)) != 32) vh_harness_error("model: %s", MLINE); vh_evals++; vh_nontriv++; if (memcmp(got, exp, 32)) vh_viol("C17:fp:pow:value", "\"a\":\"%s\",\"e\":\"%s\",\"got\":\"%s\",\"expected\":\"%s\"", HX(FPV[i].b, 32), HX(SC[s].b, 32), HX(got, 32), HX(exp, 32)); } }
	/* Fn: operands reduced below N */
	if (vh_block_begin("fn")) for (int i = 0; i < NFPV; i += 3) for (int j = 0; j < NFPV; j += 5) { if (!vh_next()) continue; uint8_t ab[32], bb[32]; memcpy(ab, FPV[i].b, 32); memcpy(bb, FPV[j].b, 32); if (cmp32(ab, NB) >= 0) sub32(ab, ab, NB); if (cmp32(bb, NB) >= 0) sub32(bb, bb, NB); sm9_z256_t a, b, r; to_z(a, ab); to_z(b, bb); static const char *ON[] = { "add", "sub", "mul", "pow", "inv" };
		for (int o = 0; o < 5; o++) { if (o == 3 && (j % 4)) continue; int zero = 1; for (int k = 0; k < 32; k++) if (ab[k]) zero = 0; if (o == 4 && (zero || j)) continue; switch (o) { case 0: sm9_z256_modn_add(r, a, b); break; case 1: sm9_z256_modn_sub(r, a, b); break; case 2: sm9_z256_modn_mul(r, a, b); break; case 3: sm9_z256_modn_pow(r, a, b); break; default: sm9_z256_modn_inv(r, a); }
			uint8_t got[32], exp[32]; sm9_z256_to_bytes(r, got); if (mq(exp, 32, "modn %s %s %s", ON[o], HX(ab, 32), HX(bb, 32)) != 32) vh_harness_error("model: %s", MLINE); vh_evals++; vh_nontriv++; if (memcmp(got, exp, 32)) { char k[64]; snprintf(k, sizeof k, "C17:fn:%s:value", ON[o]); vh_viol(k, "\"a\":\"%s\",\"b\":\"%s\",\"got\":\"%s\",\"expected\":\"%s\"", HX(ab, 32), HX(bb, 32), HX(got, 32), HX(exp, 32)); } } }
	/* hash-to-range: Ha alphabet of 40 bytes */
	if (vh_block_begin("hash-to-range")) { uint8_t ha[40]; for (int hi = 0; hi < 6; hi++) for (int i = 0; i < NSC; i++) { if (!vh_next()) continue; static const uint8_t HI[6][8] = { { 0 }, { 0, 0, 0, 0, 0, 0, 0, 1 }, { 0xff, 0xff, 0xff, 0xff, 0xff, 0xff, 0xff, 0xff }, { 0x80 }, { 0, 0, 0, 0, 0, 0, 0, 0xb6 }, { 0x12, 0x34, 0x56, 0x78, 0x9a, 0xbc, 0xde, 0xf0 } }; memcpy(ha, HI[hi], 8); memcpy(ha + 8, SC[i].b, 32);
			sm9_z256_t h; sm9_z256_modn_from_hash(h, ha); uint8_t got[32], exp[32]; sm9_z256_to_bytes(h, got); if (mq(exp, 32, "hash2n %s", HX(ha, 40)) != 32) vh_harness_error("model: %s", MLINE); vh_evals++; vh_nontriv++; if (memcmp(got, exp, 32)) vh_viol("C17:modn_from_hash:value", "\"Ha\":\"%s\",\"got\":\"%s\",\"expected\":\"%s\"", HX(ha, 40), HX(got, 32), HX(exp, 32)); } 
		/* Ha = k(N-1) + d for d in -2..3: where a truncated quotient estimate goes wrong */
		static const char *KM[] = { "01", "02", "03", "8000000000000000", "ffffffffffffffff", "0167980e0beb5759a6", "0167980e0beb5759a5", "0123456789abcdef" };
		for (int k = 0; k < 8; k++) for (int d = 6; d <= 11; d++) { if (!vh_next()) continue; uint8_t db[1] = { (uint8_t)d }; if (mq(ha, 40, "nearmult %s %s", KM[k], HX(db, 1)) != 40) vh_harness_error("model: %s", MLINE); sm9_z256_t h; sm9_z256_modn_from_hash(h, ha); uint8_t got[32], exp[32]; sm9_z256_to_bytes(h, got); if (mq(exp, 32, "hash2n %s", HX(ha, 40)) != 32) vh_harness_error("model: %s", MLINE); vh_evals++; vh_nontriv++; if (memcmp(got, exp, 32)) vh_viol("C17:modn_from_hash:value", "\"Ha\":\"%s\",\"got\":\"%s\",\"expected\":\"%s\"", HX(ha, 40), HX(got, 32), HX(exp, 32)); } }
}
/* ---------------- extension fields ---------------- */
static v32 CO[8]; static int NCO;   /* coordinate alphabet for tower elements */
static void build_co(void) { memset(CO[0].b, 0, 32); memset(CO[1].b, 0, 32); CO[1].b[31] = 1; add_small(CO[2].b, PB, -1); memcpy(CO[3].b, FPV[NFPV - 2].b, 32); hexv(CO[4].b, "483F336F119053CBA8C0E738CABC2BFDBF047CAF7E1AAA92526FA48041CEEA2B"); hexv(CO[5].b, "3220B45276E3692A387FAA7BF3CD46E390608F2F4298CCE467BF2B7FDA091EDB"); memset(CO[6].b, 0, 32); CO[6].b[31] = 2; add_small(CO[7].b, PB, -2); NCO = 8; }
static void fp2_set(sm9_z256_fp2_t r, uint8_t *ser, int c0, int c1) { memcpy(ser, CO[c1].b, 32); memcpy(ser + 32, CO[c0].b, 32); if (sm9_z256_fp2_from_bytes(r, ser) != 1) vh_harness_error("fp2_from_bytes"); }
static void cmp_out(const char *lvl, const char *op, const uint8_t *got, const uint8_t *exp, size_t n, const char *a, const char *b) { vh_evals++; vh_nontriv++; if (memcmp(got, exp, n)) { char k[80]; snprintf(k, sizeof k, "C17:%s:%s:value", lvl, op); vh_viol(k, "\"a\":\"%s\",\"b\":\"%s\",\"got\":\"%.140s\",\"expected\":\"%.140s\"", a, b, hxn(got, n), hxn(exp, n)); } }
static void blk_fp2(void) {
	if (!vh_block_begin("fp2")) return; int ne = NCO * NCO;
	for (int i = 0; i < ne; i++) for (int j = 0; j < ne; j++) { if (!vh_thorough && (j % 3) && i != j) continue; if (!vh_next()) continue; sm9_z256_fp2_t a, b, r; uint8_t as[64], bs[64], got[64], exp[64]; fp2_set(a, as, i % NCO, i / NCO); fp2_set(b, bs, j % NCO, j / NCO); char ah[130], bh[130]; strcpy(ah, HX(as, 64)); strcpy(bh, HX(bs, 64));
		static const char *O2[] = { "add", "sub", "mul", "mulg", "div" }; int bz = sm9_z256_fp2_is_zero(b);
		for (int o = 0; o < 5; o++) { if (o == 4 && bz) continue; switch (o) { case 0: sm9_z256_fp2_add(r, a, b); break; case 1: sm9_z256_fp2_sub(r, a, b); break; case 2: sm9_z256_fp2_mul(r, a, b); break; case 3: sm9_z256_fp2_mul_u(r, a, b); break; default: sm9_z256_fp2_div(r, a, b); } sm9_z256_fp2_to_bytes(r, got); if (mq(exp, 64, "fop 2 %s %s %s", O2[o], ah, bh) != 64) vh_harness_error("model: %s", MLINE); cmp_out("fp2", O2[o], got, exp, 64, ah, bh); }
		if (j == i) { static const char *O1[] = { "neg", "dbl", "tri", "haf", "sqr", "sqrg", "inv", "conj", "frob1", "amulg" }; int az = sm9_z256_fp2_is_zero(a);
			for (int o = 0; o < 10; o++) { if (o == 6 && az) continue; sm9_z256_fp2_t t; sm9_z256_fp2_copy(t, a); switch (o) { case 0: sm9_z256_fp2_neg(r, a); break; case 1: sm9_z256_fp2_dbl(r, a); break; case 2: sm9_z256_fp2_tri(r, a); break; case 3: sm9_z256_fp2_haf(r, a); break; case 4: sm9_z256_fp2_sqr(r, a); break; case 5: sm9_z256_fp2_sqr_u(r, a); break; case 6: sm9_z256_fp2_inv(r, a); break; case 7: sm9_z256_fp2_conjugate(r, a); break; case 8: sm9_z256_fp2_frobenius(r, a); break; default: sm9_z256_fp2_a_mul_u(r, t); }
				sm9_z256_fp2_to_bytes(r, got); if (mq(exp, 64, "fop 2 %s %s", O1[o], ah) != 64) vh_harness_error("model: %s", MLINE); cmp_out("fp2", O1[o], got, exp, 64, ah, ""); }
			for (int c = 0; c < NCO; c++) { sm9_z256_t k; to_mont(k, CO[c].b); sm9_z256_fp2_mul_fp(r, a, k); sm9_z256_fp2_to_bytes(r, got); if (mq(exp, 64, "fmulsub 02 01 %s %s", ah, HX(CO[c].b, 32)) != 64) vh_harness_error("model: %s", MLINE); cmp_out("fp2", "mul_fp", got, exp, 64, ah, HX(CO[c].b, 32)); } } }
}
/* Fp4 / Fp12 elements: a list of shapes over the coordinate alphabet */
static int SHAPE4[40][4], NS4; static int SHAPE12[48][12], NS12;
static void build_shapes(void) {
	/* Fp4: all-equal, unit vectors x {1, p-1, typical}, mixed typical */
	for (int c = 0; c < 6; c++) { for (int k = 0; k < 4; k++) SHAPE4[NS4][k] = c; NS4++; }
	static const int UV[3] = { 1, 2, 4 }; for (int pos = 0; pos < 4; pos++) for (int u = 0; u < 3; u++) { for (int k = 0; k < 4; k++) SHAPE4[NS4][k] = 0; SHAPE4[NS4][pos] = UV[u]; NS4++; }
	{ int m[6][4] = { { 4, 5, 2, 1 }, { 5, 4, 3, 7 }, { 2, 0, 0, 2 }, { 0, 2, 2, 0 }, { 1, 0, 4, 0 }, { 0, 5, 0, 6 } }; for (int i = 0; i < 6; i++) { memcpy(SHAPE4[NS4], m[i], sizeof m[i]); NS4++; } }
	for (int c = 0; c < 6; c++) { for (int k = 0; k < 12; k++) SHAPE12[NS12][k] = c; NS12++; }
	for (int pos = 0; pos < 12; pos++) for (int u = 0; u < 2; u++) { for (int k = 0; k < 12; k++) SHAPE12[NS12][k] = 0; SHAPE12[NS12][pos] = u ? 2 : 4; NS12++; }
	{ int m[6][12] = { { 4, 5, 2, 1, 0, 7, 6, 3, 5, 4, 1, 2 }, { 5, 5, 4, 4, 2, 2, 1, 1, 0, 0, 3, 3 }, { 4, 0, 0, 0, 5, 0, 0, 0, 0, 0, 0, 0 }, { 0, 0, 4, 5, 0, 0, 0, 0, 2, 3, 0, 0 }, { 2, 2, 2, 2, 0, 0, 0, 0, 0, 0, 0, 1 }, { 1, 4, 0, 0, 0, 0, 5, 0, 0, 0, 7, 0 } }; for (int i = 0; i < 6; i++) { memcpy(SHAPE12[NS12], m[i], sizeof m[i]); NS12++; } }
}
static void fp4_set(sm9_z256_fp4_t r, uint8_t *ser, const int *sh) { for (int k = 0; k < 4; k++) memcpy(ser + 32 * k, CO[sh[k]].b, 32); if (sm9_z256_fp4_from_bytes(r, ser) != 1) vh_harness_error("fp4_from_bytes"); }
static void fp12_set(sm9_z256_fp12_t r, uint8_t *ser, const int *sh) { for (int k = 0; k < 12; k++) memcpy(ser + 32 * k, CO[sh[k]].b, 32); if (sm9_z256_fp12_from_bytes(r, ser) != 1) vh_harness_error("fp12_from_bytes"); }
static void blk_fp4(void) {
	if (!vh_block_begin("fp4")) return;
	for (int i = 0; i < NS4; i++) for (int j = 0; j < NS4; j++) { if (!vh_next()) continue; sm9_z256_fp4_t a, b, r; uint8_t as[128], bs[128], got[128], exp[128]; fp4_set(a, as, SHAPE4[i]); fp4_set(b, bs, SHAPE4[j]); char ah[260], bh[260]; strcpy(ah, HX(as, 128)); strcpy(bh, HX(bs, 128));
		static const char *O2[] = { "add", "sub", "mul", "mulg" };
		for (int o = 0; o < 4; o++) { switch (o) { case 0: sm9_z256_fp4_add(r, a, b); break; case 1: sm9_z256_fp4_sub(r, a, b); break; case 2: sm9_z256_fp4_mul(r, a, b); break; default: sm9_z256_fp4_mul_v(r, a, b); } sm9_z256_fp4_to_bytes(r, got); if (mq(exp, 128, "fop 4 %s %s %s", O2[o], ah, bh) != 128) vh_harness_error("model: %s", MLINE); cmp_out("fp4", O2[o], got, exp, 128, ah, bh); }
		if (i == j) { static const char *O1[] = { "neg", "dbl", "haf", "sqr", "sqrg", "inv", "conj", "frob1", "frob2", "frob3", "amulg" }; int az = sm9_z256_fp4_is_zero(a);
			for (int o = 0; o < 11; o++) { if (o == 5 && az) continue; sm9_z256_fp4_t t; sm9_z256_fp4_copy(t, a); switch (o) { case 0: sm9_z256_fp4_neg(r, a); break; case 1: sm9_z256_fp4_dbl(r, a); break; case 2: sm9_z256_fp4_haf(r, a); break; case 3: sm9_z256_fp4_sqr(r, a); break; case 4: sm9_z256_fp4_sqr_v(r, a); break; case 5: sm9_z256_fp4_inv(r, a); break; case 6: sm9_z256_fp4_conjugate(r, a); break; case 7: sm9_z256_fp4_frobenius(r, a); break; case 8: sm9_z256_fp4_frobenius2(r, a); break; case 9: sm9_z256_fp4_frobenius3(r, a); break; default: sm9_z256_fp4_a_mul_v(r, t); }
				sm9_z256_fp4_to_bytes(r, got); if (mq(exp, 128, "fop 4 %s %s", O1[o], ah) != 128) vh_harness_error("model: %s", MLINE); cmp_out("fp4", O1[o], got, exp, 128, ah, ""); }
			for (int c = 0; c < NCO; c++) { sm9_z256_t k; to_mont(k, CO[c].b); sm9_z256_fp4_mul_fp(r, a, k); sm9_z256_fp4_to_bytes(r, got); if (mq(exp, 128, "fmulsub 04 01 %s %s", ah, HX(CO[c].b, 32)) != 128) vh_harness_error("model: %s", MLINE); cmp_out("fp4", "mul_fp", got, exp, 128, ah, HX(CO[c].b, 32)); }
			for (int c = 0; c < NCO * NCO; c += 5) { sm9_z256_fp2_t k; uint8_t ks[64]; fp2_set(k, ks, c % NCO, c / NCO); sm9_z256_fp4_mul_fp2(r, a, k); sm9_z256_fp4_to_bytes(r, got); if (mq(exp, 128, "fmulsub 04 02 %s %s", ah, HX(ks, 64)) != 128) vh_harness_error("model: %s", MLINE); cmp_out("fp4", "mul_fp2", got, exp, 128, ah, HX(ks, 64)); } } }
}
static void blk_fp12(void) {
	if (!vh_block_begin("fp12")) return;
	for (int i = 0; i < NS12; i++) for (int j = 0; j < NS12; j++) { if (!vh_thorough && (j % 2) && i != j) continue; if (!vh_next()) continue; sm9_z256_fp12_t a, b, r; uint8_t as[384], bs[384], got[384], exp[384]; fp12_set(a, as, SHAPE12[i]); fp12_set(b, bs, SHAPE12[j]); char *ah = hx384(as), *bh = hx384(bs);
		static const char *O2[] = { "add", "sub", "mul" };
		for (int o = 0; o < 3; o++) { switch (o) { case 0: sm9_z256_fp12_add(r, a, b); break; case 1: sm9_z256_fp12_sub(r, a, b); break; default: sm9_z256_fp12_mul(r, a, b); } sm9_z256_fp12_to_bytes(r, got); if (mq(exp, 384, "fop 12 %s %s %s", O2[o], ah, bh) != 384) vh_harness_error("model: %s", MLINE); cmp_out("fp12", O2[o], got, exp, 384, ah, bh); if (o == 2 && i == NS12 - 6 && j == NS12 - 5) vh_sample("{\"block\":\"fp12\",\"op\":\"mul\",\"got_first16\":\"%s\",\"model_first16\":\"%s\"}", HX(got, 16), HX(exp, 16)); }
		if (i == j) { static const char *O1[] = { "neg", "dbl", "tri", "sqr", "inv", "frob1", "frob2", "frob3", "frob6" }; int az = 1; for (int k = 0; k < 384; k++) if (as[k]) az = 0;
			for (int o = 0; o < 9; o++) { if (o == 4 && az) continue; switch (o) { case 0: sm9_z256_fp12_neg(r, a); break; case 1: sm9_z256_fp12_dbl(r, a); break; case 2: sm9_z256_fp12_tri(r, a); break; case 3: sm9_z256_fp12_sqr(r, a); break; case 4: sm9_z256_fp12_inv(r, a); break; case 5: sm9_z256_fp12_frobenius(r, a); break; case 6: sm9_z256_fp12_frobenius2(r, a); break; case 7: sm9_z256_fp12_frobenius3(r, a); break; default: sm9_z256_fp12_frobenius6(r, a); }
				sm9_z256_fp12_to_bytes(r, got); if (mq(exp, 384, "fop 12 %s %s", O1[o], ah) != 384) vh_harness_error("model: %s", MLINE); cmp_out("fp12", O1[o], got, exp, 384, ah, ""); }
			for (int s = 0; s < NSC; s++) { if (cmp32(SC[s].b, NB) >= 0) continue; /* fp12_pow is specified for exponents <= N-1 */ if (!vh_thorough && (s % 3) && i % 4) continue; sm9_z256_t k; to_z(k, SC[s].b); sm9_z256_fp12_pow(r, a, k); sm9_z256_fp12_to_bytes(r, got); if (mq(exp, 384, "fpow 0c %s %s", ah, HX(SC[s].b, 32)) != 384) vh_harness_error("model: %s", MLINE); cmp_out("fp12", "pow", got, exp, 384, ah, HX(SC[s].b, 32)); } } }
}
/* ---------------- groups ---------------- */
static void g1_ser(uint8_t *o, const SM9_Z256_POINT *P) { if (sm9_z256_point_is_at_infinity(P)) { o[0] = 0; return; } sm9_z256_point_to_uncompressed_octets(P, o); }
static void g2_ser(uint8_t *o, const SM9_Z256_TWIST_POINT *P) { if (sm9_z256_twist_point_is_at_infinity(P)) { o[0] = 0; return; } sm9_z256_twist_point_to_uncompressed_octets(P, o); }
static size_t g1_len(const uint8_t *o) { return o[0] ? 65 : 1; } static size_t g2_len(const uint8_t *o) { return o[0] ? 129 : 1; }
static void cmp_pt(const char *grp, const char *op, const uint8_t *got, const uint8_t *exp, int elen, size_t glen, const char *what) { vh_evals++; vh_nontriv++; if ((size_t)elen != glen || memcmp(got, exp, glen)) { char k[80]; snprintf(k, sizeof k, "C17:%s:%s:value", grp, op); vh_viol(k, "\"case\":\"%s\",\"got\":\"%.140s\",\"expected\":\"%.140s\"", what, hxn(got, glen), hxn(exp, elen < 0 ? 0 : (size_t)elen)); } }
static void blk_groups(void) {
	if (vh_block_begin("g1")) { SM9_Z256_POINT PT[8]; int np = 0; const SM9_Z256_POINT *G = sm9_z256_generator(); PT[np++] = *G; sm9_z256_point_dbl(&PT[np], G); np++; sm9_z256_point_neg(&PT[np], G); np++; { sm9_z256_t k; to_z(k, SC[9].b); sm9_z256_point_mul(&PT[np], k, G); np++; } sm9_z256_point_set_infinity(&PT[np]); np++; { sm9_z256_t k; to_z(k, SC[13].b); /* N-1 */ sm9_z256_point_mul(&PT[np], k, &PT[3]); np++; }
		uint8_t ps[8][65]; for (int i = 0; i < np; i++) g1_ser(ps[i], &PT[i]);
		for (int i = 0; i < np; i++) for (int j = 0; j < np; j++) { if (!vh_next()) continue; SM9_Z256_POINT R; uint8_t got[65], exp[65]; char w[40]; snprintf(w, sizeof w, "P%d,P%d", i, j); int el = mq(exp, 65, "g1add %s %s", hxn(ps[i], g1_len(ps[i])), hxn(ps[j], g1_len(ps[j])));
			sm9_z256_point_add(&R, &PT[i], &PT[j]); g1_ser(got, &R); cmp_pt("g1", "add", got, exp, el, g1_len(got), w);
			SM9_Z256_POINT NQ_; sm9_z256_point_neg(&NQ_, &PT[j]); sm9_z256_point_sub(&R, &PT[i], &NQ_); g1_ser(got, &R); cmp_pt("g1", "sub-of-negated", got, exp, el, g1_len(got), w);
			if (i == j) { sm9_z256_point_dbl(&R, &PT[i]); g1_ser(got, &R); cmp_pt("g1", "dbl", got, exp, el, g1_len(got), w); } }
		/* the same point in two representations (Jacobian with Z != 1 as computed, and re-imported with Z = 1) through the generic addition: must double */
		for (int i = 0; i < np; i++) { if (!vh_next()) continue; if (sm9_z256_point_is_at_infinity(&PT[i])) continue; SM9_Z256_POINT A1, R, D; if (sm9_z256_point_from_uncompressed_octets(&A1, ps[i]) != 1) continue; uint8_t got[65], exp[65]; char w[40]; snprintf(w, sizeof w, "P%d,P%d(Z=1)", i, i); sm9_z256_point_dbl(&D, &PT[i]); g1_ser(exp, &D);
			sm9_z256_point_add(&R, &PT[i], &A1); g1_ser(got, &R); cmp_pt("g1", "add-same-point-other-representation", got, exp, (int)g1_len(exp), g1_len(got), w); sm9_z256_point_add(&R, &A1, &PT[i]); g1_ser(got, &R); cmp_pt("g1", "add-same-point-other-representation", got, exp, (int)g1_len(exp), g1_len(got), w);
			SM9_Z256_POINT NA; sm9_z256_point_neg(&NA, &A1); sm9_z256_point_add(&R, &PT[i], &NA); g1_ser(got, &R); uint8_t inf[1] = { 0 }; cmp_pt("g1", "add-opposite-point-other-representation", got, inf, 1, g1_len(got), w); sm9_z256_point_sub(&R, &PT[i], &A1); g1_ser(got, &R); cmp_pt("g1", "sub-same-point-other-representation", got, inf, 1, g1_len(got), w); }
		for (int i = 0; i < np; i++) for (int s = 0; s < NSC; s++) { if (!vh_next()) continue; SM9_Z256_POINT R; uint8_t got[65], exp[65]; char w[100]; snprintf(w, sizeof w, "k=%s,P%d", HX(SC[s].b, 32), i); sm9_z256_t k; to_z(k, SC[s].b); int el = mq(exp, 65, "g1mul %s %s", HX(SC[s].b, 32), hxn(ps[i], g1_len(ps[i])));
			sm9_z256_point_mul(&R, k, &PT[i]); g1_ser(got, &R); cmp_pt("g1", "mul", got, exp, el, g1_len(got), w);
			if (i == 0) { sm9_z256_point_mul_generator(&R, k); g1_ser(got, &R); cmp_pt("g1", "mul_generator", got, exp, el, g1_len(got), w); } } }
	/* scalars N-k, k = 1..300: the signed-window recodings of these end in steps where the accumulator meets the table entry it is about to add
	   (the doubling case of the mixed addition) */
	if (vh_block_begin("g1-n-minus-small")) { const SM9_Z256_POINT *G = sm9_z256_generator(); uint8_t gs[65]; g1_ser(gs, G); SM9_Z256_POINT Q7; { sm9_z256_t k7; to_z(k7, SC[9].b); sm9_z256_point_mul(&Q7, k7, G); } uint8_t q7s[65]; g1_ser(q7s, &Q7);
		for (int k = 1; k <= 300; k++) { if (!vh_next()) continue; uint8_t kb[32]; add_small(kb, NB, -k); sm9_z256_t kk; to_z(kk, kb); SM9_Z256_POINT R; uint8_t got[65], exp[65]; char w[100]; snprintf(w, sizeof w, "N-%d", k);
			int el = mq(exp, 65, "g1mul %s %s", HX(kb, 32), hxn(gs, 65)); sm9_z256_point_mul_generator(&R, kk); g1_ser(got, &R); cmp_pt("g1", "mul_generator", got, exp, el, g1_len(got), w); sm9_z256_point_mul(&R, kk, G); g1_ser(got, &R); cmp_pt("g1", "mul", got, exp, el, g1_len(got), w);
			if (k <= 80 || vh_thorough) { el = mq(exp, 65, "g1mul %s %s", HX(kb, 32), hxn(q7s, 65)); sm9_z256_point_mul(&R, kk, &Q7); g1_ser(got, &R); cmp_pt("g1", "mul", got, exp, el, g1_len(got), w); } } }
	if (vh_block_begin("g2-n-minus-small")) { const SM9_Z256_TWIST_POINT *G = sm9_z256_twist_generator(); uint8_t gs[129]; g2_ser(gs, G);
		for (int k = 1; k <= (vh_thorough ? 300 : 100); k++) { if (!vh_next()) continue; uint8_t kb[32]; add_small(kb, NB, -k); sm9_z256_t kk; to_z(kk, kb); SM9_Z256_TWIST_POINT R; uint8_t got[129], exp[129]; char w[100]; snprintf(w, sizeof w, "N-%d", k);
			int el = mq(exp, 129, "g2mul %s %s", HX(kb, 32), hxn(gs, 129)); sm9_z256_twist_point_mul_generator(&R, kk); g2_ser(got, &R); cmp_pt("g2", "mul_generator", got, exp, el, g2_len(got), w); sm9_z256_twist_point_mul(&R, kk, G); g2_ser(got, &R); cmp_pt("g2", "mul", got, exp, el, g2_len(got), w); } }
	if (vh_block_begin("g2")) { SM9_Z256_TWIST_POINT PT[8]; int np = 0; const SM9_Z256_TWIST_POINT *G = sm9_z256_twist_generator(); PT[np++] = *G; sm9_z256_twist_point_dbl(&PT[np], G); np++; sm9_z256_twist_point_neg(&PT[np], G); np++; { sm9_z256_t k; to_z(k, SC[9].b); sm9_z256_twist_point_mul(&PT[np], k, G); np++; } sm9_z256_twist_point_set_infinity(&PT[np]); np++; { sm9_z256_t k; to_z(k, SC[13].b); sm9_z256_twist_point_mul(&PT[np], k, &PT[3]); np++; }
		uint8_t ps[8][129]; for (int i = 0; i < np; i++) g2_ser(ps[i], &PT[i]);
		for (int i = 0; i < np; i++) for (int j = 0; j < np; j++) { if (!vh_next()) continue; SM9_Z256_TWIST_POINT R; uint8_t got[129], exp[129]; char w[40]; snprintf(w, sizeof w, "Q%d,Q%d", i, j); int el = mq(exp, 129, "g2add %s %s", hxn(ps[i], g2_len(ps[i])), hxn(ps[j], g2_len(ps[j])));
			sm9_z256_twist_point_add_full(&R, &PT[i], &PT[j]); g2_ser(got, &R); cmp_pt("g2", "add_full", got, exp, el, g2_len(got), w);
			/* the mixed addition (second operand normalised, as read from octets): same sum, including equal / opposite / infinite operands */
			{ SM9_Z256_TWIST_POINT QA; if (ps[j][0] == 0) sm9_z256_twist_point_set_infinity(&QA); else if (sm9_z256_twist_point_from_uncompressed_octets(&QA, ps[j]) != 1) vh_harness_error("g2 octets"); sm9_z256_twist_point_add(&R, &PT[i], &QA); g2_ser(got, &R); cmp_pt("g2", "add-mixed", got, exp, el, g2_len(got), w); }
			SM9_Z256_TWIST_POINT NQ_; sm9_z256_twist_point_neg(&NQ_, &PT[j]); sm9_z256_twist_point_sub(&R, &PT[i], &NQ_); g2_ser(got, &R); cmp_pt("g2", "sub-of-negated", got, exp, el, g2_len(got), w);
			if (i == j) { sm9_z256_twist_point_dbl(&R, &PT[i]); g2_ser(got, &R); cmp_pt("g2", "dbl", got, exp, el, g2_len(got), w); } }
		for (int i = 0; i < np; i++) { if (!vh_next()) continue; if (sm9_z256_twist_point_is_at_infinity(&PT[i])) continue; SM9_Z256_TWIST_POINT A1, R, D; if (sm9_z256_twist_point_from_uncompressed_octets(&A1, ps[i]) != 1) continue; uint8_t got[129], exp[129]; char w[40]; snprintf(w, sizeof w, "Q%d,Q%d(Z=1)", i, i); sm9_z256_twist_point_dbl(&D, &PT[i]); g2_ser(exp, &D);
			sm9_z256_twist_point_add_full(&R, &PT[i], &A1); g2_ser(got, &R); cmp_pt("g2", "add_full-same-point-other-representation", got, exp, (int)g2_len(exp), g2_len(got), w); sm9_z256_twist_point_add_full(&R, &A1, &PT[i]); g2_ser(got, &R); cmp_pt("g2", "add_full-same-point-other-representation", got, exp, (int)g2_len(exp), g2_len(got), w);
			SM9_Z256_TWIST_POINT NA; sm9_z256_twist_point_neg(&NA, &A1); sm9_z256_twist_point_add_full(&R, &PT[i], &NA); g2_ser(got, &R); uint8_t inf[1] = { 0 }; cmp_pt("g2", "add_full-opposite-point-other-representation", got, inf, 1, g2_len(got), w); }
		for (int i = 0; i < np; i++) for (int s = 0; s < NSC; s++) { if (!vh_next()) continue; SM9_Z256_TWIST_POINT R; uint8_t got[129], exp[129]; char w[100]; snprintf(w, sizeof w, "k=%s,Q%d", HX(SC[s].b, 32), i); sm9_z256_t k; to_z(k, SC[s].b); int el = mq(exp, 129, "g2mul %s %s", HX(SC[s].b, 32), hxn(ps[i], g2_len(ps[i])));
			sm9_z256_twist_point_mul(&R, k, &PT[i]); g2_ser(got, &R); cmp_pt("g2", "mul", got, exp, el, g2_len(got), w);
			if (i == 0) { sm9_z256_twist_point_mul_generator(&R, k); g2_ser(got, &R); cmp_pt("g2", "mul_generator", got, exp, el, g2_len(got), w); } } }
}
/* ---------------- pairing ---------------- */
static void blk_pairing(void) {
	if (!vh_block_begin("pairing")) return; static const int AS[7] = { 1, 2, 3, 12, 13, 4, 9 }; /* scalars 1,2,3,N-2,N-1,2^128,typical */ int na = vh_thorough ? 7 : 5;
	sm9_z256_fp12_t g; sm9_z256_pairing(g, sm9_z256_twist_generator(), sm9_z256_generator()); uint8_t gs[384]; sm9_z256_fp12_to_bytes(g, gs);
	for (int ai = 0; ai < na; ai++) for (int bi = 0; bi < na; bi++) { if (!vh_next()) continue; sm9_z256_t a, b; to_z(a, SC[AS[ai]].b); to_z(b, SC[AS[bi]].b); SM9_Z256_POINT P; SM9_Z256_TWIST_POINT Q; sm9_z256_point_mul_generator(&P, a); sm9_z256_twist_point_mul_generator(&Q, b); sm9_z256_fp12_t e; sm9_z256_pairing(e, &Q, &P); uint8_t got[384], exp[384], ps[65], qs[129]; sm9_z256_fp12_to_bytes(e, got); g1_ser(ps, &P); g2_ser(qs, &Q); char w[160]; snprintf(w, sizeof w, "a=%s b=%s", HX(SC[AS[ai]].b, 32), HX(SC[AS[bi]].b, 32));
		/* model value on the library's own [a]P1, [b]P2 (the points are checked against the model in the group blocks) */
		if (mq(exp, 384, "pair %s %s", hxn(ps, 65), hxn(qs, 129)) != 384) vh_harness_error("model: %s", MLINE); cmp_out("pairing", "value", got, exp, 384, w, ""); vh_sample("{\"block\":\"pairing\",\"scalars\":\"%s\",\"e_first16\":\"%s\",\"model_first16\":\"%s\"}", w, HX(got, 16), HX(exp, 16));
		/* bilinearity against the library's own exponentiation: e([a]P1,[b]P2) = g^(ab mod N) */
		sm9_z256_t ab; sm9_z256_t ar, br; uint8_t t32[32]; memcpy(t32, SC[AS[ai]].b, 32); if (cmp32(t32, NB) >= 0) sub32(t32, t32, NB); to_z(ar, t32); memcpy(t32, SC[AS[bi]].b, 32); if (cmp32(t32, NB) >= 0) sub32(t32, t32, NB); to_z(br, t32); sm9_z256_modn_mul(ab, ar, br); sm9_z256_fp12_t ge; sm9_z256_fp12_pow(ge, g, ab); uint8_t ges[384]; sm9_z256_fp12_to_bytes(ge, ges); cmp_out("pairing", "bilinear", got, ges, 384, w, "");
		sm9_z256_fp12_t one; sm9_z256_fp12_set_one(one); vh_evals++; vh_nontriv++; if (sm9_z256_fp12_equ(e, one)) vh_viol("C17:pairing:degenerate", "\"case\":\"%s\"", w);
		/* e^N = 1 : e^(N-1) * e */
		sm9_z256_t nm1; to_z(nm1, SC[13].b); sm9_z256_fp12_t en; sm9_z256_fp12_pow(en, e, nm1); sm9_z256_fp12_mul(en, en, e); vh_evals++; vh_nontriv++; if (!sm9_z256_fp12_equ(en, one)) vh_viol("C17:pairing:order-not-N", "\"case\":\"%s\"", w); }
}
/* ---------------- schemes ---------------- */
static const int KSI[4] = { 1, 2, 13, 8 };     /* master secrets 1, 2, N-1, GM/T example */
static const size_t IDL[] = { 1, 2, 5, 31, 32, 33, 64, 8191 }; static const size_t ML[] = { 0, 1, 20, 55, 56, 63, 64, 65, 119, 128, 1000 };
static uint8_t IDBUF[8192], MSGBUF[1024]; static int ALIAS_SIG, ALIAS_CT;
static void fill(void) { for (size_t i = 0; i < sizeof IDBUF; i++) IDBUF[i] = (uint8_t)('A' + (i * 7 + i / 26) % 26); memcpy(IDBUF, "Alice", 5); for (size_t i = 0; i < sizeof MSGBUF; i++) MSGBUF[i] = (uint8_t)(i * 11 + 3); memcpy(MSGBUF, "Chinese IBS standard", 20); }
/* sm9_z256_rand_range fills the four 64-bit limbs directly from the entropy bytes (native little-endian): script the byte-reversed value */
static void script_r(const uint8_t *be) { static __thread uint8_t le[32]; for (int i = 0; i < 32; i++) le[i] = be[31 - i]; venv_script(le, 32); }
static int lib_sign(const SM9_SIGN_KEY *key, const uint8_t *msg, size_t mlen, const uint8_t *r32, uint8_t *sig, size_t *siglen) { venv_reset(17); script_r(r32); SM9_SIGN_CTX c; sm9_sign_init(&c); /* chunked: 1 byte, then the rest */ if (mlen) sm9_sign_update(&c, msg, 1); if (mlen > 1) sm9_sign_update(&c, msg + 1, mlen - 1); return sm9_sign_finish(&c, key, sig, siglen); }
static int lib_verify(const SM9_SIGN_MASTER_KEY *mpk, const char *id, size_t idlen, const uint8_t *msg, size_t mlen, const uint8_t *sig, size_t siglen) { SM9_SIGN_CTX c; sm9_verify_init(&c); sm9_verify_update(&c, msg, mlen); return sm9_verify_finish(&c, sig, siglen, mpk, id, idlen); }
static void blk_sign(void) {
	if (!vh_block_begin("sign")) return; static const int RI[5] = { 1, 2, 13, 8, 9 };
	for (int ki = 0; ki < 4; ki++) for (int ii = 0; ii < 8; ii++) for (int mi = 0; mi < 11; mi++) for (int ri = 0; ri < 5; ri++) {
		/* full cross only on the small axes; long ids / messages with one master key and nonce */
		if ((ii > 2 || mi > 2) && (ki != 3 || ri != 3) && !(vh_thorough && ri == 3)) continue; if (!vh_next()) continue;
		SM9_SIGN_MASTER_KEY M; to_z(M.ks, SC[KSI[ki]].b); sm9_z256_twist_point_mul_generator(&M.Ppubs, M.ks); SM9_SIGN_KEY K; size_t idl = IDL[ii], ml = ML[mi]; char cs[120]; snprintf(cs, sizeof cs, "ks#%d id%zu msg%zu r#%d", ki, idl, ml, ri);
		int xr = sm9_sign_master_key_extract_key(&M, (const char *)IDBUF, idl, &K); uint8_t dsexp[65], dsgot[65]; int el = mq(dsexp, 65, "sigkey %s %s", HX(SC[KSI[ki]].b, 32), hxn(IDBUF, idl)); vh_evals++; vh_nontriv++;
		if (xr != 1) { if (el > 1) vh_viol("C17:sign:extract-refused", "\"case\":\"%s\"", cs); continue; } g1_ser(dsgot, &K.ds); if (el != 65 || memcmp(dsgot, dsexp, 65)) { vh_viol("C17:sign:extracted-key-differs-from-model", "\"case\":\"%s\",\"got\":\"%s\"", cs, hxn(dsgot, 65)); continue; }
		uint8_t sig[200]; size_t sl = 0; int sr = lib_sign(&K, MSGBUF, ml, SC[RI[ri]].b, sig, &sl); uint8_t ex[100]; int xl = mq(ex, 100, "sign %s %s %s %s", HX(SC[KSI[ki]].b, 32), hxn(IDBUF, idl), hxn(MSGBUF, ml), HX(SC[RI[ri]].b, 32)); if (xl < 0) vh_harness_error("model: %s", MLINE);
		if (sr != 1) { vh_viol("C17:sign:failed", "\"case\":\"%s\",\"ret\":%d", cs, sr); continue; }
		SM9_SIGNATURE S; const uint8_t *cp = sig; size_t cl = sl; if (sm9_signature_from_der(&S, &cp, &cl) != 1 || cl) { vh_viol("C17:sign:own-signature-does-not-parse", "\"case\":\"%s\"", cs); continue; } uint8_t hb[32], Sb[65]; sm9_z256_to_bytes(S.h, hb); g1_ser(Sb, &S.S);
		vh_sample("{\"block\":\"sign\",\"case\":\"%s\",\"h\":\"%s\",\"h_model\":\"%s\"}", cs, HX(hb, 32), xl == 97 ? HX(ex, 32) : "retry"); if (xl == 97 && (memcmp(hb, ex, 32) || memcmp(Sb, ex + 32, 65))) vh_viol("C17:sign:signature-differs-from-model", "\"case\":\"%s\",\"h\":\"%s\",\"h_model\":\"%s\"", cs, HX(hb, 32), HX(ex, 32));
		int vr = lib_verify(&M, (const char *)IDBUF, idl, MSGBUF, ml, sig, sl); vh_evals++; vh_nontriv++; if (vr != 1) vh_viol("C17:verify:honest-signature-rejected", "\"case\":\"%s\",\"ret\":%d", cs, vr);
		/* negatives */
		{ uint8_t id2[8192]; memcpy(id2, IDBUF, idl); id2[idl - 1] ^= 1; vh_evals++; vh_nontriv++; if (lib_verify(&M, (const char *)id2, idl, MSGBUF, ml, sig, sl) == 1) vh_viol("C17:verify:other-identity-accepted", "\"case\":\"%s\"", cs); if (idl > 1) { vh_evals++; if (lib_verify(&M, (const char *)IDBUF, idl - 1, MSGBUF, ml, sig, sl) == 1) vh_viol("C17:verify:identity-prefix-accepted", "\"case\":\"%s\"", cs); } }
		{ uint8_t m2[1024]; memcpy(m2, MSGBUF, ml + 1); if (ml) { m2[ml - 1] ^= 0x80; vh_evals++; vh_nontriv++; if (lib_verify(&M, (const char *)IDBUF, idl, m2, ml, sig, sl) == 1) vh_viol("C17:verify:other-message-accepted", "\"case\":\"%s\"", cs); } vh_evals++; if (lib_verify(&M, (const char *)IDBUF, idl, MSGBUF, ml + 1, sig, sl) == 1) vh_viol("C17:verify:extended-message-accepted", "\"case\":\"%s\"", cs); }
		{ SM9_SIGN_MASTER_KEY M2; to_z(M2.ks, SC[3].b); sm9_z256_twist_point_mul_generator(&M2.Ppubs, M2.ks); vh_evals++; if (lib_verify(&M2, (const char *)IDBUF, idl, MSGBUF, ml, sig, sl) == 1) vh_viol("C17:verify:other-master-key-accepted", "\"case\":\"%s\"", cs); }
		if (ii <= 2 && mi <= 2 && (ri == 3 || vh_thorough)) for (size_t bit = 0; bit < sl * 8; bit++) { uint8_t t[200]; memcpy(t, sig, sl); t[bit / 8] ^= (uint8_t)(1 << (bit % 8)); vh_evals++; vh_nontriv++; if (lib_verify(&M, (const char *)IDBUF, idl, MSGBUF, ml, t, sl) == 1) vh_viol("C17:verify:bit-flipped-signature-accepted", "\"case\":\"%s\",\"bit\":%zu", cs, bit); }
		/* bytes behind the signature: the byte string as a whole is then not a signature */
		{ uint8_t t[260]; memcpy(t, sig, sl); static const size_t EX[] = { 1, 2, 32 }; for (int x = 0; x < 3; x++) { memset(t + sl, x ? 0x30 : 0x00, EX[x]); vh_evals++; vh_nontriv++; if (lib_verify(&M, (const char *)IDBUF, idl, MSGBUF, ml, t, sl + EX[x]) == 1) vh_viol("C17:verify:signature-with-trailing-bytes-accepted", "\"case\":\"%s\",\"extra\":%zu", cs, EX[x]); } memcpy(t + sl, sig, sl > 100 ? 100 : sl); vh_evals++; if (lib_verify(&M, (const char *)IDBUF, idl, MSGBUF, ml, t, sl + (sl > 100 ? 100 : sl)) == 1) vh_viol("C17:verify:signature-with-trailing-bytes-accepted", "\"case\":\"%s\",\"extra\":\"copy-of-itself\"", cs); if (sl > 1) { vh_evals++; if (lib_verify(&M, (const char *)IDBUF, idl, MSGBUF, ml, sig, sl - 1) == 1) vh_viol("C17:verify:truncated-signature-accepted", "\"case\":\"%s\"", cs); } }
		/* S written with an unreduced coordinate */
		{ static uint8_t al[2][700]; int na = coord_aliases(sig, sl, al); for (int a = 0; a < na; a++) { vh_evals++; vh_nontriv++; if (lib_verify(&M, (const char *)IDBUF, idl, MSGBUF, ml, al[a], sl) == 1) vh_viol("C17:verify:signature-with-unreduced-coordinate-accepted", "\"case\":\"%s\"", cs); } ALIAS_SIG += na; }
		/* algebraic variants of (h,S): h+N cannot be encoded; S negated, h+1 */
		{ SM9_SIGNATURE T = S; sm9_z256_point_neg(&T.S, &S.S); uint8_t d[200], *p = d; size_t dl = 0; sm9_signature_to_der(&T, &p, &dl); vh_evals++; if (lib_verify(&M, (const char *)IDBUF, idl, MSGBUF, ml, d, dl) == 1) vh_viol("C17:verify:negated-S-accepted", "\"case\":\"%s\"", cs); }
	}
}
static void blk_enc(void) {
	if (!vh_block_begin("encrypt")) return; static const int KE[3] = { 1, 13, 9 }; static const size_t PL[] = { 0, 1, 31, 32, 33, 100, 255 }; static const int RI[3] = { 1, 13, 8 }; static const size_t EIDL[] = { 1, 3, 32, 33, 8191 };
	for (int ki = 0; ki < 3; ki++) for (int ii = 0; ii < 5; ii++) for (int pi = 0; pi < 7; pi++) for (int ri = 0; ri < 3; ri++) { if ((ii > 1 || pi > 2) && (ki != 2 || ri != 2) && !(vh_thorough && ri == 2)) continue; if (!vh_next()) continue;
		SM9_ENC_MASTER_KEY M; to_z(M.ke, SC[KE[ki]].b); sm9_z256_point_mul_generator(&M.Ppube, M.ke); SM9_ENC_KEY K; size_t idl = EIDL[ii], pl = PL[pi]; char cs[120]; snprintf(cs, sizeof cs, "ke#%d id%zu pt%zu r#%d", ki, idl, pl, ri); uint8_t id[8192]; memcpy(id, IDBUF, idl); if (idl >= 3) memcpy(id, "Bob", 3);
		int xr = sm9_enc_master_key_extract_key(&M, (const char *)id, idl, &K); uint8_t deexp[129], degot[129]; int el = mq(deexp, 129, "enckey %s %s", HX(SC[KE[ki]].b, 32), hxn(id, idl)); vh_evals++; vh_nontriv++; if (xr != 1) { if (el > 1) vh_viol("C17:enc:extract-refused", "\"case\":\"%s\"", cs); continue; } g2_ser(degot, &K.de); if (el != 129 || memcmp(degot, deexp, 129)) { vh_viol("C17:enc:extracted-key-differs-from-model", "\"case\":\"%s\"", cs); continue; }
		uint8_t ct[600]; size_t cl = 0; venv_reset(23); script_r(SC[RI[ri]].b); int er = sm9_encrypt(&M, (const char *)id, idl, MSGBUF, pl, ct, &cl); if (er != 1) { vh_viol("C17:enc:encrypt-failed", "\"case\":\"%s\",\"ret\":%d", cs, er); continue; }
		uint8_t ex[400]; int xl = mq(ex, 400, "enc %s %s %s %s", HX(SC[KE[ki]].b, 32), hxn(id, idl), HX(SC[RI[ri]].b, 32), hxn(MSGBUF, pl)); if (xl < 0) vh_harness_error("model: %s", MLINE);
		SM9_Z256_POINT C1; const uint8_t *c2, *c3; size_t c2l; const uint8_t *cp = ct; size_t rem = cl; if (sm9_ciphertext_from_der(&C1, &c2, &c2l, &c3, &cp, &rem) != 1 || rem) { vh_viol("C17:enc:own-ciphertext-does-not-parse", "\"case\":\"%s\"", cs); continue; } uint8_t c1b[65]; g1_ser(c1b, &C1);
		vh_evals++; vh_nontriv++; if ((size_t)xl != 65 + 32 + pl || c2l != pl || memcmp(c1b, ex, 65) || memcmp(c3, ex + 65, 32) || memcmp(c2, ex + 97, pl)) vh_viol("C17:enc:ciphertext-differs-from-model", "\"case\":\"%s\"", cs);
		uint8_t out[300]; size_t ol = 999; int dr = sm9_decrypt(&K, (const char *)id, idl, ct, cl, out, &ol); vh_evals++; vh_nontriv++; if (dr != 1 || ol != pl || memcmp(out, MSGBUF, pl)) vh_viol("C17:enc:roundtrip", "\"case\":\"%s\",\"ret\":%d,\"outlen\":%zu", cs, dr, ol);
		/* negatives: another identity's key, the key used under another identity string, every bit of the ciphertext */
		{ uint8_t id2[8192]; memcpy(id2, id, idl); id2[0] ^= 2; SM9_ENC_KEY K2; if (sm9_enc_master_key_extract_key(&M, (const char *)id2, idl, &K2) == 1) { vh_evals++; vh_nontriv++; if (sm9_decrypt(&K2, (const char *)id2, idl, ct, cl, out, &ol) == 1) vh_viol("C17:enc:other-identity-key-decrypts", "\"case\":\"%s\"", cs); vh_evals++; if (sm9_decrypt(&K2, (const char *)id, idl, ct, cl, out, &ol) == 1) vh_viol("C17:enc:other-identity-key-decrypts-under-right-name", "\"case\":\"%s\"", cs); } vh_evals++; if (sm9_decrypt(&K, (const char *)id2, idl, ct, cl, out, &ol) == 1) vh_viol("C17:enc:decrypts-under-wrong-identity-string", "\"case\":\"%s\"", cs); }
		if (ii <= 1 && pi <= 3 && (ri == 2 || vh_thorough)) for (size_t bit = 0; bit < cl * 8; bit++) { uint8_t t[600]; memcpy(t, ct, cl); t[bit / 8] ^= (uint8_t)(1 << (bit % 8)); vh_evals++; vh_nontriv++; size_t o2 = 0; if (sm9_decrypt(&K, (const char *)id, idl, t, cl, out, &o2) == 1) vh_viol("C17:enc:bit-flipped-ciphertext-accepted", "\"case\":\"%s\",\"bit\":%zu", cs, bit); }
		/* C1 written with an unreduced coordinate */
		{ static uint8_t al[2][700]; int na = cl <= 700 ? coord_aliases(ct, cl, al) : 0; for (int a = 0; a < na; a++) { size_t o2 = 0; vh_evals++; vh_nontriv++; if (sm9_decrypt(&K, (const char *)id, idl, al[a], cl, out, &o2) == 1) vh_viol("C17:enc:ciphertext-with-unreduced-coordinate-accepted", "\"case\":\"%s\"", cs); } ALIAS_CT += na; }
		/* bytes behind the ciphertext, and a ciphertext cut by one byte */
		{ uint8_t t[700]; memcpy(t, ct, cl); size_t o2 = 0; static const size_t EX[] = { 1, 16 }; for (int x = 0; x < 2; x++) { memset(t + cl, x ? 0x04 : 0x00, EX[x]); vh_evals++; vh_nontriv++; if (sm9_decrypt(&K, (const char *)id, idl, t, cl + EX[x], out, &o2) == 1) vh_viol("C17:enc:ciphertext-with-trailing-bytes-accepted", "\"case\":\"%s\",\"extra\":%zu", cs, EX[x]); } vh_evals++; if (cl > 1 && sm9_decrypt(&K, (const char *)id, idl, ct, cl - 1, out, &o2) == 1) vh_viol("C17:enc:truncated-ciphertext-accepted", "\"case\":\"%s\"", cs); }
		/* KEM alone: several key lengths */
		for (int kl = 0; kl < 4; kl++) { static const size_t KL[4] = { 1, 16, 32, 100 }; uint8_t kb[100], kb2[100], kex[200]; SM9_Z256_POINT C; venv_reset(29); script_r(SC[RI[ri]].b); if (sm9_kem_encrypt(&M, (const char *)id, idl, KL[kl], kb, &C) != 1) { vh_viol("C17:kem:encrypt-failed", "\"case\":\"%s\"", cs); continue; } uint8_t kl4[4] = { 0, 0, 0, (uint8_t)KL[kl] }; int ml2 = mq(kex, 200, "kem %s %s %s %s", HX(SC[KE[ki]].b, 32), hxn(id, idl), HX(SC[RI[ri]].b, 32), HX(kl4, 4)); uint8_t cb[65]; g1_ser(cb, &C); vh_evals++; vh_nontriv++; if (ml2 != (int)(65 + KL[kl]) || memcmp(cb, kex, 65) || memcmp(kb, kex + 65, KL[kl])) vh_viol("C17:kem:differs-from-model", "\"case\":\"%s\",\"klen\":%zu", cs, KL[kl]); if (sm9_kem_decrypt(&K, (const char *)id, idl, &C, KL[kl], kb2) != 1 || memcmp(kb, kb2, KL[kl])) vh_viol("C17:kem:roundtrip", "\"case\":\"%s\",\"klen\":%zu", cs, KL[kl]); }
	}
}
static void blk_exch(void) {
	if (!vh_block_begin("exchange")) return; static const int KE[2] = { 8, 13 }; static const size_t KL[] = { 1, 16, 32, 33, 64 };
	for (int ki = 0; ki < 2; ki++) for (int ia = 0; ia < 3; ia++) for (int ra = 0; ra < 3; ra++) for (int rb = 0; rb < 3; rb++) for (int kl = 0; kl < 5; kl++) { if (!vh_thorough && kl != 2 && (ra != rb || ia)) continue; if (!vh_next()) continue; static const int RI[3] = { 1, 13, 9 }; static const size_t IL[3] = { 5, 1, 64 };
		SM9_EXCH_MASTER_KEY M; to_z(M.ke, SC[KE[ki]].b); sm9_z256_point_mul_generator(&M.Ppube, M.ke); SM9_EXCH_KEY KA, KB; uint8_t ida[64], idb[64]; size_t il = IL[ia]; memcpy(ida, IDBUF, il); memcpy(idb, IDBUF + 100, il); if (il >= 3) memcpy(idb, "Bob", 3); char cs[100]; snprintf(cs, sizeof cs, "ke#%d id%zu rA#%d rB#%d klen%zu", ki, il, ra, rb, KL[kl]);
		if (sm9_exch_master_key_extract_key(&M, (const char *)ida, il, &KA) != 1 || sm9_exch_master_key_extract_key(&M, (const char *)idb, il, &KB) != 1) { vh_viol("C17:exch:extract-failed", "\"case\":\"%s\"", cs); continue; }
		SM9_Z256_POINT RA, RB; sm9_z256_t rA; uint8_t skA[64], skB[64]; memset(skA, 0xA5, 64); memset(skB, 0x5A, 64); venv_reset(31); script_r(SC[RI[ra]].b); int r1 = sm9_exch_step_1A(&M, (const char *)idb, il, &RA, rA); venv_reset(37); script_r(SC[RI[rb]].b); int r2 = sm9_exch_step_1B(&M, (const char *)ida, il, (const char *)idb, il, &KB, &RA, &RB, skB, KL[kl]); int r3 = sm9_exch_step_2A(&M, (const char *)ida, il, (const char *)idb, il, &KA, rA, &RA, &RB, skA, KL[kl]);
		vh_evals++; vh_nontriv++; if (r1 != 1 || r2 != 1 || r3 != 1) { vh_viol("C17:exch:step-failed", "\"case\":\"%s\",\"r\":[%d,%d,%d]", cs, r1, r2, r3); continue; } if (memcmp(skA, skB, KL[kl])) vh_viol("C17:exch:keys-differ", "\"case\":\"%s\"", cs);
		uint8_t ex[300], kl4[4] = { 0, 0, 0, (uint8_t)KL[kl] }; int xl = mq(ex, 300, "exch %s %s %s %s %s %s", HX(SC[KE[ki]].b, 32), hxn(ida, il), hxn(idb, il), HX(SC[RI[ra]].b, 32), HX(SC[RI[rb]].b, 32), HX(kl4, 4)); if (xl < 0) vh_harness_error("model: %s", MLINE); uint8_t rab[65], rbb[65]; g1_ser(rab, &RA); g1_ser(rbb, &RB); vh_evals++; vh_nontriv++; if (xl != (int)(130 + KL[kl]) || memcmp(rab, ex, 65) || memcmp(rbb, ex + 65, 65) || memcmp(skB, ex + 130, KL[kl])) vh_viol("C17:exch:differs-from-model", "\"case\":\"%s\"", cs); }
}
static void blk_hash(void) {
	if (!vh_block_begin("hash1")) return; static const size_t HL[] = { 1, 2, 31, 32, 33, 50, 51, 52, 55, 56, 59, 60, 64, 119, 128, 1000, 8191 };
	for (int hid = 1; hid <= 3; hid++) for (int i = 0; i < 17; i++) { if (!vh_next()) continue; sm9_z256_t h; sm9_z256_hash1(h, (const char *)IDBUF, HL[i], (uint8_t)hid); uint8_t got[32], exp[32], hb[1] = { (uint8_t)hid }; sm9_z256_to_bytes(h, got); if (mq(exp, 32, "h1 %s %s", HX(hb, 1), hxn(IDBUF, HL[i])) != 32) vh_harness_error("model: %s", MLINE); vh_evals++; vh_nontriv++; if (memcmp(got, exp, 32)) vh_viol("C17:hash1:value", "\"idlen\":%zu,\"hid\":%d", HL[i], hid); }
}
/* key files: DER round trip of master / user keys for secrets with leading zero octets */
static void blk_keys(void) {
	if (!vh_block_begin("key-der")) return; static const char *KS[] = { "0000000000000000000000000000000000000000000000000000000000000001", "00000000000000000000000000000000000000000000000000000000000000FF", "0000000000000000000000000000000000000000000000000000000000000100", "000000000000000000000000000000008000000000000000000000000000000F", "0000FFFFFFFFFFFFFFFFFFFFFFFFFFFFFFFFFFFFFFFFFFFFFFFFFFFFFFFFFFFFFF", "00FFFFFFFFFFFFFFFFFFFFFFFFFFFFFFFFFFFFFFFFFFFFFFFFFFFFFFFFFFFFFFFF", "007FFFFFFFFFFFFFFFFFFFFFFFFFFFFFFFFFFFFFFFFFFFFFFFFFFFFFFFFFFFFFFF", "0080000000000000000000000000000000000000000000000000000000000000", "000130E78459D78545CB54C587E02CF480CE0B66340F319F348A1D5B1F2DC5F4", "8000000000000000000000000000000000000000000000000000000000000001", "B640000002A3A6F1D603AB4FF58EC74449F2934B18EA8BEEE56EE19CD69ECF24" };
	for (int i = 0; i < 11; i++) { if (!vh_next()) continue; uint8_t kb[32]; hexv(kb, KS[i]); uint8_t der[512], *p; const uint8_t *cp; size_t dl, rem;
		{ SM9_SIGN_MASTER_KEY M, M2; to_z(M.ks, kb); sm9_z256_twist_point_mul_generator(&M.Ppubs, M.ks); p = der; dl = 0; vh_evals++; vh_nontriv++; if (sm9_sign_master_key_to_der(&M, &p, &dl) != 1) vh_viol("C17:key-der:sign-master:encode-failed", "\"ks\":\"%s\"", KS[i]); else { cp = der; rem = dl; int r = sm9_sign_master_key_from_der(&M2, &cp, &rem); if (r != 1 || rem || !sm9_z256_equ(M.ks, M2.ks) || !sm9_z256_twist_point_equ(&M.Ppubs, &M2.Ppubs)) vh_viol("C17:key-der:sign-master:own-encoding-not-read-back", "\"ks\":\"%s\",\"ret\":%d,\"der\":\"%s\"", KS[i], r, hxn(der, dl > 40 ? 40 : dl)); }
		  p = der; dl = 0; vh_evals++; if (sm9_sign_master_key_info_encrypt_to_der(&M, "pw", &p, &dl) == 1) { cp = der; rem = dl; int r = sm9_sign_master_key_info_decrypt_from_der(&M2, "pw", &cp, &rem); if (r != 1 || !sm9_z256_equ(M.ks, M2.ks)) vh_viol("C17:key-der:sign-master:encrypted-file-not-read-back", "\"ks\":\"%s\",\"ret\":%d", KS[i], r); } else vh_viol("C17:key-der:sign-master:encrypt-failed", "\"ks\":\"%s\"", KS[i]); }
		{ SM9_ENC_MASTER_KEY M, M2; to_z(M.ke, kb); sm9_z256_point_mul_generator(&M.Ppube, M.ke); p = der; dl = 0; vh_evals++; vh_nontriv++; if (sm9_enc_master_key_to_der(&M, &p, &dl) != 1) vh_viol("C17:key-der:enc-master:encode-failed", "\"ke\":\"%s\"", KS[i]); else { cp = der; rem = dl; int r = sm9_enc_master_key_from_der(&M2, &cp, &rem); if (r != 1 || rem || !sm9_z256_equ(M.ke, M2.ke) || !sm9_z256_point_equ(&M.Ppube, &M2.Ppube)) vh_viol("C17:key-der:enc-master:own-encoding-not-read-back", "\"ke\":\"%s\",\"ret\":%d", KS[i], r); }
		  p = der; dl = 0; vh_evals++; if (sm9_enc_master_key_info_encrypt_to_der(&M, "pw", &p, &dl) == 1) { cp = der; rem = dl; int r = sm9_enc_master_key_info_decrypt_from_der(&M2, "pw", &cp, &rem); if (r != 1 || !sm9_z256_equ(M.ke, M2.ke)) vh_viol("C17:key-der:enc-master:encrypted-file-not-read-back", "\"ke\":\"%s\",\"ret\":%d", KS[i], r); } else vh_viol("C17:key-der:enc-master:encrypt-failed", "\"ke\":\"%s\"", KS[i]); } }
}
static void body(void) { model_start(); uint8_t pong[4]; if (mq(pong, 4, "ping") != 1) vh_harness_error("model does not answer: %s", MLINE); build_alphabets(); build_co(); build_shapes(); fill();
	blk_fp(); blk_fp2(); blk_fp4(); blk_fp12(); blk_groups(); blk_pairing(); blk_hash(); blk_sign(); blk_enc(); blk_exch(); blk_keys();
	printf("STAT model_queries=%llu x_signatures_with_unreduced_coordinate_tried=%d x_ciphertexts_with_unreduced_coordinate_tried=%d\n", (unsigned long long)NQ, ALIAS_SIG, ALIAS_CT); fclose(MW); int st; waitpid(MPID, &st, 0); }
int main(int argc, char **argv) { vh_init(argc, argv); if (!freopen("/dev/null", "w", stderr)) {} vh_guarded("C17", body, 120); return vh_finish(); }
