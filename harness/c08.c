/* C08 — honest TLCP / TLS 1.2 / TLS 1.3 peers agree on keys and deliver data intact.
 * Two real endpoints over vnet; environment choices (short reads, partial sends, task switches) explored with a deviation
 * bound, application write/read size alphabet crossed; every execution is an implementation run in a forked child. */
#include <stdio.h>
#include <sys/mman.h>
#include <sys/wait.h>
#include "vh.h"
#include "venv.h"
#include "tlsh.h"

typedef struct { int ntrace; vx_pt trace[VX_MAXCH]; uint64_t state[VX_MAXCH]; int status, cret, sret; ep_t c, s; int sec_equal, diverged; char fail[160]; int cke_len; } exec_out;
static exec_out *XO; static int ENVX = 1;
typedef struct { int proto, mutual, depth; app_dir c2s, s2c; int do_app, interleave; unsigned seed; int via_files; int trust_extra; int chain_total; /* > 0: the server's (and in mutual mode the client's) chain is sized to exactly this many octets */ } cfg_t;
static side_creds SRV[3][3], CLI[3][3];   /* [proto][depth-1] */

static uint64_t vn_state_hash(void) { uint64_t a[9] = { (uint64_t)vn_me, vn_bytes_recv[0], vn_bytes_recv[1], vn_bytes_sent[0], vn_bytes_sent[1], vn_to[0].w - vn_to[0].r, vn_to[1].w - vn_to[1].r, vn_stagelen[0], vn_stagelen[1] }; return vh_hash(a, sizeof a, 0x51a7e); }
/* wrap vx_choose to record the state at every choice point */
static int child_run(const cfg_t *cf) {
	ep_t *c = &XO->c, *s = &XO->s; memset(c, 0, sizeof *c); memset(s, 0, sizeof *s);
	c->proto = s->proto = cf->proto; c->is_client = 1; c->mutual = cf->mutual != 0 /* 2: the client HOLDS a certificate and key, but the server has no CA list and asks for none */; s->mutual = cf->mutual == 1; c->own = &CLI[cf->proto][cf->depth - 1]; s->own = &SRV[cf->proto][cf->depth - 1]; c->trust = &SRV[cf->proto][cf->depth - 1]; s->trust = cf->mutual == 1 ? &CLI[cf->proto][cf->depth - 1] : NULL;
	if (cf->chain_total) { static side_creds S2, C2; cred_defects kn; memset(&kn, 0, sizeof kn); kn.chain_total = cf->chain_total; venv_reset(0x5151 + (unsigned)cf->chain_total); if (build_side(&S2, cf->proto, 0, cf->depth, &kn) != 1 || build_side(&C2, cf->proto, 1, cf->depth, &kn) != 1) return -90; if ((int)S2.certslen != cf->chain_total) return -91; s->own = &S2; c->trust = &S2; if (cf->mutual == 1) { c->own = &C2; s->trust = &C2; } }
	c->out = cf->c2s; s->in = cf->c2s; s->out = cf->s2c; c->in = cf->s2c; c->do_app = s->do_app = cf->do_app; s->interleave = cf->interleave; if (cf->trust_extra) { /* trust lists with unrelated CA certificates around the genuine root: 1 = [U1, R], 2 = [R, U1], 3 = [U1, R, U2] */ static side_creds TS, TC; const side_creds *src[2] = { c->trust, s->trust }; side_creds *dst[2] = { &TS, &TC };
		for (int w = 0; w < 2; w++) { if (!src[w]) continue; *dst[w] = *src[w]; uint8_t u1[1024], u2[1024]; size_t l1 = 0, l2 = 0; cert_spec u; spec_ca(&u, "U1", -1); make_cert(&u, &CK[9], &CK[9], "U1", u1, &l1); spec_ca(&u, "U2", -1); make_cert(&u, &CK[10], &CK[10], "U2", u2, &l2); uint8_t *p = dst[w]->cacerts; size_t rl = src[w]->cacertslen;
			if (cf->trust_extra != 2) { memcpy(p, u1, l1); p += l1; } memcpy(p, src[w]->cacerts, rl); p += rl; if (cf->trust_extra == 2) { memcpy(p, u1, l1); p += l1; } if (cf->trust_extra == 3) { memcpy(p, u2, l2); p += l2; } dst[w]->cacertslen = (size_t)(p - dst[w]->cacerts); }
		c->trust = &TS; if (s->trust) s->trust = &TC; }
	c->do_close = s->do_close = 1; c->via_files = s->via_files = cf->via_files; c->entropy_key = 0xC11E17 + 7919u * cf->seed; s->entropy_key = 0x5E12BE12 + 104729u * cf->seed; c->entropy_fail_at = s->entropy_fail_at = -1;
	vx_explore_env = ENVX; XO->status = vnet_run2(ep_task, c, ep_task, s, &XO->cret, &XO->sret);
	XO->ntrace = vx_ntrace < VX_MAXCH ? vx_ntrace : VX_MAXCH; memcpy(XO->trace, vx_trace, sizeof(vx_pt) * XO->ntrace); XO->diverged = vx_diverged;
	XO->cke_len = -1; for (int i = 0; i < vn_nlog; i++) if (vn_log[i].dir == 1 && vn_log[i].hdr[0] == 22 && vn_log[i].len > 9 && vn_log[i].copy[5] == 16) { XO->cke_len = (int)vn_log[i].len - 9; break; } /* body length of the (plaintext) ClientKeyExchange */
	XO->sec_equal = c->secrets_len == s->secrets_len && !memcmp(c->secrets, s->secrets, c->secrets_len);
	return 0;
}
/* state recording: vx_choose is called inside send/recv; we hash after the fact from the trace index -> we record inside a hook instead */
static int run_exec(const cfg_t *cf, const uint8_t *prefix, int np) {
	memset(XO, 0, sizeof(int) * 4); XO->ntrace = 0; XO->fail[0] = 0; fflush(stdout);
	pid_t pid = fork(); if (pid < 0) vh_harness_error("fork");
	if (pid == 0) { if (!freopen("/dev/null", "w", stderr) || !freopen("/dev/null", "w", stdout)) {} alarm(60); vx_nprefix = np; memcpy(vx_prefix, prefix, np); vx_ntrace = 0; int cr_ = child_run(cf); _exit(cr_ <= -90 ? 99 : 0); }
	int st; while (waitpid(pid, &st, 0) < 0 && errno == EINTR) {}
	if (!WIFEXITED(st) || WEXITSTATUS(st)) { if (WIFEXITED(st) && WEXITSTATUS(st) == 99) vh_harness_error("credentials of the requested size could not be built (chain_total=%d)", cf->chain_total); snprintf(XO->fail, sizeof XO->fail, "%s", WIFSIGNALED(st) ? (WTERMSIG(st) == SIGALRM ? "hang" : "crash") : "abnormal-exit"); return -1; }
	return 0;
}
static const char *cfgname(const cfg_t *cf) { static char b[96]; snprintf(b, sizeof b, "%s-%s-depth%d", PNAME[cf->proto], cf->mutual == 2 ? "serverauth-client-holds-an-unrequested-certificate" : cf->mutual ? "mutual" : "serverauth", cf->depth); return b; }
static uint64_t NEXEC, NSTATES_SEEN, NTRANS; static uint64_t *SEEN; static size_t SEENCAP;
static int seen_add(uint64_t h) { if (!SEEN) { SEENCAP = 1 << 23; SEEN = calloc(SEENCAP, 8); } if (NSTATES_SEEN > SEENCAP / 2) return 0; /* table half full: the state count reported is a lower bound from here on */ if (!h) h = 1; size_t j = h & (SEENCAP - 1); while (SEEN[j]) { if (SEEN[j] == h) return 0; j = (j + 1) & (SEENCAP - 1); } SEEN[j] = h; NSTATES_SEEN++; return 1; }
static void judge(const cfg_t *cf, const uint8_t *prefix, int np, const char *blk) {
	/* explorer states = distinct nodes of the choice tree (configuration, choices taken so far); transitions = choice points passed */
	{ uint64_t h = vh_hash(cf, sizeof *cf, 11); seen_add(h); for (int i = 0; i < XO->ntrace; i++) { uint8_t c = XO->trace[i].c; h = vh_hash(&c, 1, h); seen_add(h); NTRANS++; } }
	char key[200], pre[400] = ""; for (int i = 0, o = 0; i < np && o < 380; i++) if (prefix[i]) o += snprintf(pre + o, sizeof pre - o, "%d:%d,", i, prefix[i]);
	vh_eval(vh_hash(prefix, np, vh_hash(cf, sizeof *cf, 3)));
	if (XO->fail[0]) { snprintf(key, sizeof key, "C08:%s:%s:%s", blk, cfgname(cf), XO->fail); vh_viol(key, "\"choices\":\"%s\"", pre); return; }
	if (XO->diverged) vh_harness_error("prefix diverged while replaying (%s)", pre);
	const char *what = NULL; static char wb[120];
	if (XO->status & 1) what = "deadlock"; else if (XO->status & 2) what = "horizon"; else if (XO->c.hs_ret != 1) what = "client-handshake-failed"; else if (XO->s.hs_ret != 1) what = "server-handshake-failed";
	else if (!XO->sec_equal) what = "secrets-differ"; else if (XO->c.cipher_suite != XO->s.cipher_suite || XO->c.protocol != XO->s.protocol) what = "suite-or-version-differ";
	else if (cf->do_app && !XO->s.app_ok) { snprintf(wb, sizeof wb, "data-c2s-err%d", XO->s.app_err); what = wb; } else if (cf->do_app && !XO->c.app_ok) { snprintf(wb, sizeof wb, "data-s2c-err%d", XO->c.app_err); what = wb; }
	else if (cf->proto != P_TLS13 && !XO->s.close_seen) what = "orderly-close-not-seen";
	if (what) { snprintf(key, sizeof key, "C08:%s:%s:%s", blk, cfgname(cf), what); vh_viol(key, "\"choices\":\"%s\",\"c_hs\":%d,\"s_hs\":%d,\"c2s\":[%zu,%zu,%zu],\"rbuf_s\":%zu,\"s2c\":[%zu,%zu,%zu],\"rbuf_c\":%zu,\"got_s\":%zu,\"got_c\":%zu", pre, XO->c.hs_ret, XO->s.hs_ret, cf->c2s.wsize[0], cf->c2s.wsize[1], cf->c2s.wsize[2], cf->c2s.rbuf, cf->s2c.wsize[0], cf->s2c.wsize[1], cf->s2c.wsize[2], cf->s2c.rbuf, XO->s.app_got, XO->c.app_got); }
}
/* deviation-bounded exploration of the environment choices for one configuration */
static void explore(const cfg_t *cf, const char *blk, int bound) {
	/* work list of prefixes; DFS */
	typedef struct { uint8_t *p; int n, dev; } item; static item stack[400000]; int sp = 0; stack[sp++] = (item){ NULL, 0, 0 };
	long top = 0;
	while (sp) { item it = stack[--sp]; if (vh_deadline_hit()) { vh_capped = 1; free(it.p); continue; }
		ENVX = 1; run_exec(cf, it.p, it.n); NEXEC++; int judged = (it.n > 0) || vh_shard == 0 || vh_replay_block; if (it.n == 0) { vh_index++; if (vh_replay_block && vh_replay_index != vh_index) judged = 0; } if (judged) { if (it.n) { vh_index++; vh_cases++; vh_block_cases++; } judge(cf, it.p, it.n, blk); }
		if (!XO->fail[0] && it.dev < bound) { int nt = XO->ntrace; for (int i = it.n; i < nt; i++) for (int alt = 1; alt < XO->trace[i].n; alt++) { if (it.dev == 0) { long me = top++; if (vh_replay_block ? 0 : (me % vh_nshards) != vh_shard) continue; } if (sp >= 399990) { vh_capped = 1; break; } uint8_t *np = (uint8_t *)malloc(i + 1); for (int j = 0; j < i; j++) np[j] = XO->trace[j].c; np[i] = (uint8_t)alt; stack[sp++] = (item){ np, i + 1, it.dev + 1 }; } }
		if (it.n == 0 && vh_shard == 0) vh_sample("{\"block\":\"%s\",\"config\":\"%s\",\"choice_points\":%d,\"bound\":%d,\"c_draws\":%ld,\"s_draws\":%ld}", blk, cfgname(cf), XO->ntrace, bound, XO->c.draws, XO->s.draws);
		free(it.p); }
}
static const size_t WS[] = { 1, 2, 15, 16, 17, 16383, 16384, 16385, 32768, 50000 }, RB[] = { 1, 7, 16384, 20000 };
static void body(void) {
	/* A: environment exploration on the handshake + a small data phase, per protocol x auth x depth */
	for (int p = 0; p < 3; p++) for (int m = 0; m < 2; m++) for (int d = 1; d <= 3; d++) { char bn[64]; snprintf(bn, sizeof bn, "env-%s-%s-d%d", PNAME[p], m ? "mutual" : "serverauth", d); if (!vh_block_begin(bn)) continue;
		cfg_t cf = { p, m, d, { { 17, 1 }, 2, 7 }, { { 33 }, 1, 16384 }, 1 }; cf.s2c.rbuf = 7; cf.c2s.rbuf = 16384; int bound = (d == 1) ? (vh_thorough ? 2 : 1) : 1; explore(&cf, "env", bound); }
	/* B: application size alphabet fully crossed (write size x read buffer x direction x {single write, burst of 3}) with default environment and with every single short-read deviation skipped (bound 0) */
	for (int p = 0; p < 3; p++) { char bn[64]; snprintf(bn, sizeof bn, "sizes-%s", PNAME[p]); if (!vh_block_begin(bn)) continue;
		for (int wi = 0; wi < 10; wi++) for (int ri = 0; ri < 4; ri++) for (int burst = 0; burst < 2; burst++) for (int dir = 0; dir < 2; dir++) { if (RB[ri] == 1 && WS[wi] > 20000 && !vh_thorough) continue;
			cfg_t cf = { p, 0, 1, { { 5 }, 1, 64 }, { { 6 }, 1, 64 }, 1 }; app_dir *ad = dir ? &cf.s2c : &cf.c2s; ad->rbuf = RB[ri]; if (burst) { ad->nw = 3; ad->wsize[0] = WS[wi]; ad->wsize[1] = 1; ad->wsize[2] = WS[wi] > 20000 ? 17 : WS[wi]; } else { ad->nw = 1; ad->wsize[0] = WS[wi]; }
			if (!vh_next()) continue; ENVX = 0; run_exec(&cf, NULL, 0); NEXEC++; judge(&cf, NULL, 0, "sizes"); vh_sample("{\"block\":\"sizes\",\"proto\":\"%s\",\"write\":%zu,\"readbuf\":%zu,\"burst\":%d,\"dir\":\"%s\"}", PNAME[p], WS[wi], RB[ri], burst, dir ? "s2c" : "c2s"); } }
	/* C: interleaved use — the server reads PART of a record, writes its own data, then reads the rest (read buffers smaller than the record) */
	for (int p = 0; p < 3; p++) { char bn[64]; snprintf(bn, sizeof bn, "interleaved-%s", PNAME[p]); if (!vh_block_begin(bn)) continue; static const size_t IW[] = { 17, 1000, 16384 }, IR[] = { 1, 7, 100, 999 }, IX[] = { 1, 500, 16384, 20000 };
		for (int wi = 0; wi < 3; wi++) for (int ri = 0; ri < 4; ri++) for (int xi = 0; xi < 4; xi++) { if (IR[ri] >= IW[wi]) continue; cfg_t cf = { p, 0, 1, { { IW[wi] }, 1, IR[ri] }, { { IX[xi] }, 1, 4096 }, 1, 1 }; if (!vh_next()) continue; ENVX = 0; run_exec(&cf, NULL, 0); NEXEC++; judge(&cf, NULL, 0, "interleaved"); vh_sample("{\"block\":\"interleaved\",\"proto\":\"%s\",\"c2s_write\":%zu,\"server_readbuf\":%zu,\"s2c_write\":%zu}", PNAME[p], IW[wi], IR[ri], IX[xi]); } }
	/* E: endpoints configured the way an application does it: credentials and trust anchors written to PEM files (keys password-protected) and loaded through
	   tls_ctx_init / tls_ctx_set_cipher_suites / tls_ctx_set_ca_certificates / tls_ctx_set_certificate_and_key / tls_ctx_set_tlcp_server_certificate_and_keys */
	for (int p = 0; p < 3; p++) { char bn[64]; snprintf(bn, sizeof bn, "context-interface-%s", PNAME[p]); if (!vh_block_begin(bn)) continue;
		for (int m = 0; m < 2; m++) for (int d = 1; d <= 3; d++) { cfg_t cf = { p, m, d, { { 24 }, 1, 64 }, { { 24 }, 1, 64 }, 1, 0, 0, 1 }; if (!vh_next()) continue; ENVX = 0; run_exec(&cf, NULL, 0); NEXEC++; judge(&cf, NULL, 0, "context-interface"); vh_sample("{\"block\":\"context-interface\",\"proto\":\"%s\",\"mutual\":%d,\"chain_depth\":%d}", PNAME[p], m, d); } }
	/* G: the client is configured with a certificate and key although the server asks for none (no CA list on the server): plain server authentication must complete,
	   filled context and context interface from files */
	for (int p = 0; p < 3; p++) { char bn[64]; snprintf(bn, sizeof bn, "unrequested-client-certificate-%s", PNAME[p]); if (!vh_block_begin(bn)) continue;
		for (int vf = 0; vf < 2; vf++) for (int d = 1; d <= 2; d++) { cfg_t cf = { p, 2, d, { { 24 }, 1, 64 }, { { 24 }, 1, 64 }, 1, 0, 0, vf }; if (!vh_next()) continue; ENVX = 0; run_exec(&cf, NULL, 0); NEXEC++; judge(&cf, NULL, 0, "unrequested-client-certificate"); vh_sample("{\"block\":\"unrequested-client-certificate\",\"proto\":\"%s\",\"via_files\":%d,\"chain_depth\":%d}", PNAME[p], vf, d); } }
	/* H: chains that just fit the peer's 2048-octet certificate store: total sizes 2036..2048 for chains of 2 and 3 certificates (TLCP server: sign + enc + CAs), server
	   authentication and mutual: every one of them is accepted by the presenting side's own tls_init, so the handshake must complete */
	for (int p = 0; p < 3; p++) { char bn[64]; snprintf(bn, sizeof bn, "chain-at-the-store-limit-%s", PNAME[p]); if (!vh_block_begin(bn)) continue;
		for (int m = 0; m < 2; m++) for (int d = 2; d <= 3; d++) for (int tot = 2036; tot <= 2048; tot++) { cfg_t cf = { p, m, d, { { 24 }, 1, 64 }, { { 24 }, 1, 64 }, 1, 0, 0, 0, 0, tot }; if (!vh_next()) continue; if (!vh_thorough && m && (tot & 1)) continue; ENVX = 0; run_exec(&cf, NULL, 0); NEXEC++; char nm[48]; snprintf(nm, sizeof nm, "chain-of-%d-octets", tot); judge(&cf, NULL, 0, nm); vh_sample("{\"block\":\"chain-at-the-store-limit\",\"proto\":\"%s\",\"mutual\":%d,\"chain_depth\":%d,\"chain_octets\":%d}", PNAME[p], m, d, tot); } }
	/* F: trust lists with more than one CA certificate (the genuine root in front, in the middle, at the end): both verifiers must find it, and what the server
	   tells the client about its acceptable authorities must be something the client can read */
	for (int p = 0; p < 3; p++) { char bn[64]; snprintf(bn, sizeof bn, "trust-lists-%s", PNAME[p]); if (!vh_block_begin(bn)) continue;
		for (int m = 0; m < 2; m++) for (int te = 1; te <= 3; te++) for (int d = 1; d <= 2; d++) { cfg_t cf = { p, m, d, { { 24 }, 1, 64 }, { { 24 }, 1, 64 }, 1, 0, 0, 0, te }; if (!vh_next()) continue; ENVX = 0; run_exec(&cf, NULL, 0); NEXEC++; char nm[40]; snprintf(nm, sizeof nm, "trust-list-%s", te == 1 ? "U,R" : te == 2 ? "R,U" : "U,R,U"); judge(&cf, NULL, 0, nm); vh_sample("{\"block\":\"trust-lists\",\"proto\":\"%s\",\"mutual\":%d,\"list\":\"%s\",\"chain_depth\":%d}", PNAME[p], m, nm + 11, d); } }
	/* D: other key material - the honest handshake under further entropy scripts: key-exchange values of unusual shape (an SM2 ciphertext or point whose
	   coordinate has leading zero octets encodes shorter) appear only for some of them; the shortest and longest ClientKeyExchange seen are counted */
	for (int p = 0; p < 3; p++) for (int m = 0; m < 2; m++) { char bn[64]; snprintf(bn, sizeof bn, "keys-%s-%s", PNAME[p], m ? "mutual" : "serverauth"); if (!vh_block_begin(bn)) continue; int N = p == 0 ? (vh_thorough ? 16384 : 4096) : (vh_thorough ? 1024 : 256), shortc = 0;
		for (int sd = 1; sd <= N; sd++) { cfg_t cf = { p, m, 1, { { 24 }, 1, 64 }, { { 24 }, 1, 64 }, 1, 0, (unsigned)sd }; if (!vh_next()) continue; ENVX = 0; run_exec(&cf, NULL, 0); NEXEC++; judge(&cf, NULL, 0, "other-key-material"); if (p == 0 && XO->cke_len >= 0 && XO->cke_len - 2 <= 154) shortc++; if (getenv("C08_DEBUG") && p == 0) fprintf(stderr, "cke %d\n", XO->cke_len); }
		if (p == 0) printf("STAT x_tlcp_%s_handshakes_with_a_short_client_key_exchange=%d\n", m ? "mutual" : "serverauth", shortc); }
	printf("STAT executions=%llu states=%llu transitions=%llu\n", (unsigned long long)NEXEC, (unsigned long long)NSTATES_SEEN, (unsigned long long)NTRANS);
}
int main(int argc, char **argv) { vh_init(argc, argv); app_fill(); XO = mmap(NULL, sizeof *XO, PROT_READ | PROT_WRITE, MAP_SHARED | MAP_ANONYMOUS, -1, 0);
	for (int p = 0; p < 3; p++) for (int d = 1; d <= 3; d++) { if (build_side(&SRV[p][d - 1], p, 0, d, NULL) != 1 || build_side(&CLI[p][d - 1], p, 1, d, NULL) != 1) vh_harness_error("creds"); }
	body(); return vh_finish(); }
