/* vh.h — common plumbing of every driver (header-only; include once per driver).
 *
 * Line protocol on stdout, parsed by bin/vcheck:
 *   STAT k=v k=v ...            integer counters (summed over shards)
 *   VIOL <key>\t<n>\t<block>\t<index>\t<json detail>    one per distinct key (first occurrence detail)
 *   SAMPLE <json>
 *   OBS <text>                  observation that is not a violation
 *   BLOCK <name> <done|skipped|capped> <cases>
 *
 * Enumeration contract: a driver is a deterministic nest of loops; every case calls vh_next()
 * exactly once in a fixed order.  vh_next() returns 1 if this process must evaluate the case
 * (it belongs to this shard, or it is the one selected by --replay block:index).
 */
#ifndef VH_H
#define VH_H
#ifndef _GNU_SOURCE
#define _GNU_SOURCE
#endif
#include <stdio.h>
#include <ctype.h>
#include <stdlib.h>
#include <string.h>
#include <stdint.h>
#include <stdarg.h>
#include <time.h>
#include <unistd.h>
#include <signal.h>
#include <errno.h>
#include <sys/wait.h>
#include <sys/mman.h>
#ifdef VH_COV   /* coverage build (bin/vcoverage): children leave through _exit, which would lose their counters */
void __gcov_dump(void);
#define _exit(x) do { __gcov_dump(); (_exit)(x); } while (0)
#endif

static int vh_shard = 0, vh_nshards = 1;
static int vh_thorough = 0;
static double vh_deadline_at = 0;
static const char *vh_replay_block = NULL;
static long vh_replay_index = -1;
static char vh_block[64] = "";
static long vh_index = -1;            /* index of current case inside block */
static long vh_block_cases = 0;
static uint64_t vh_evals = 0, vh_nontriv = 0, vh_viols = 0, vh_cases = 0;
static int vh_capped = 0;
static int vh_seed = 0;

static double vh_now(void) { struct timespec ts; clock_gettime(CLOCK_MONOTONIC, &ts); return ts.tv_sec + ts.tv_nsec * 1e-9; }

/* ---------- distinct set (64-bit hashes) ---------- */
static uint64_t *vh_set = NULL; static size_t vh_set_cap = 0, vh_set_n = 0;
static uint64_t vh_mix(uint64_t x) { x ^= x >> 33; x *= 0xff51afd7ed558ccdULL; x ^= x >> 33; x *= 0xc4ceb9fe1a85ec53ULL; x ^= x >> 33; return x; }
static uint64_t vh_hash(const void *p, size_t n, uint64_t h) {
	const uint8_t *b = (const uint8_t *)p; h ^= 0xcbf29ce484222325ULL;
	for (size_t i = 0; i < n; i++) { h ^= b[i]; h *= 0x100000001b3ULL; }
	return vh_mix(h);
}
static int vh_set_add(uint64_t h) {
	if (h == 0) h = 1;
	if ((vh_set_n + 1) * 2 > vh_set_cap) {
		size_t nc = vh_set_cap ? vh_set_cap * 2 : 1 << 16; uint64_t *ns = (uint64_t *)calloc(nc, 8);
		for (size_t i = 0; i < vh_set_cap; i++) if (vh_set[i]) { size_t j = vh_set[i] & (nc - 1); while (ns[j]) j = (j + 1) & (nc - 1); ns[j] = vh_set[i]; }
		free(vh_set); vh_set = ns; vh_set_cap = nc;
	}
	size_t j = h & (vh_set_cap - 1);
	while (vh_set[j]) { if (vh_set[j] == h) return 0; j = (j + 1) & (vh_set_cap - 1); }
	vh_set[j] = h; vh_set_n++; return 1;
}

/* ---------- blocks / cases ---------- */
static char vh_skip_block[64] = ""; static long vh_skip_index = -1; static int vh_skip_reached = 1;
static void vh_block_end(void) {
	if (vh_block[0]) printf("BLOCK %s %s %ld\n", vh_block, vh_capped ? "capped" : "done", vh_block_cases);
	vh_block[0] = 0; fflush(stdout);
}
static int vh_deadline_hit(void) { return vh_deadline_at > 0 && vh_now() > vh_deadline_at; }
/* returns 0 if the block must be skipped (deadline already hit, or replay targets another block) */
static int vh_block_begin(const char *name) {
	vh_block_end();
	if (vh_replay_block && strcmp(vh_replay_block, name) != 0) return 0;
	if (!vh_skip_reached) { if (strcmp(vh_skip_block, name)) return 0; vh_skip_reached = 1; }
	if (vh_deadline_hit()) { printf("BLOCK %s skipped 0\n", name); vh_capped = 1; return 0; }
	snprintf(vh_block, sizeof vh_block, "%s", name); vh_index = -1; vh_block_cases = 0; return 1;
}
typedef struct { char block[64]; long index; int reached; } vh_prog_t;
static vh_prog_t *vh_prog = NULL;          /* shared with the guarding parent: the case being evaluated */
static int vh_case_timeout = 0;
static int vh_next(void) {
	vh_index++;
	if (vh_replay_block) { if (vh_index != vh_replay_index) return 0; }
	else if ((vh_index % vh_nshards) != vh_shard) return 0;
	if (vh_skip_block[0] && !strcmp(vh_block, vh_skip_block) && vh_index <= vh_skip_index) return 0;
	if (vh_prog) { memcpy(vh_prog->block, vh_block, sizeof vh_block); vh_prog->index = vh_index; }
	if (vh_case_timeout) alarm(vh_case_timeout);
	vh_block_cases++; vh_cases++;
	return 1;
}
/* count one oracle evaluation; key!=0 marks it non-trivial & distinct by that key */
static void vh_eval(uint64_t key) { vh_evals++; if (key && vh_set_add(key)) vh_nontriv++; }

/* ---------- hex / json helpers ---------- */
static char *vh_hex(const void *p, size_t n) { /* rotating static buffers */
	static char bufs[8][2 * 600 + 8]; static int r = 0; char *o = bufs[r++ & 7]; const uint8_t *b = (const uint8_t *)p;
	size_t m = n > 600 ? 600 : n; for (size_t i = 0; i < m; i++) sprintf(o + 2 * i, "%02x", b[i]);
	o[2 * m] = 0; if (m < n) strcat(o, "..."); return o;
}

/* ---------- samples ---------- */
static int vh_nsamples = 0; static char vh_last_sample[1400];
static void vh_sample(const char *fmt, ...) {
	char buf[1400]; va_list ap; va_start(ap, fmt); vsnprintf(buf, sizeof buf, fmt, ap); va_end(ap);
	if (vh_nsamples < 3 || (vh_mix(vh_cases) % 100003) == 7) { if (vh_nsamples < 8) { printf("SAMPLE %s\n", buf); vh_nsamples++; } }
	snprintf(vh_last_sample, sizeof vh_last_sample, "%s", buf);
}

/* ---------- violations ---------- */
#define VH_MAXKEYS 2048
static struct { char key[200]; long n; } vh_keys[VH_MAXKEYS]; static int vh_nkeys = 0;
/* key identifies WHAT fails (coarse, stable); detail is a JSON object body (without braces) for this instance */
static void vh_viol(const char *key, const char *fmt, ...) {
	vh_viols++;
	for (int i = 0; i < vh_nkeys; i++) if (!strcmp(vh_keys[i].key, key)) { vh_keys[i].n++; return; }
	if (vh_nkeys >= VH_MAXKEYS) return;
	snprintf(vh_keys[vh_nkeys].key, sizeof vh_keys[0].key, "%s", key); vh_keys[vh_nkeys++].n = 1;
	char buf[4000]; va_list ap; va_start(ap, fmt); vsnprintf(buf, sizeof buf, fmt, ap); va_end(ap);
	printf("VIOL %s\t%s\t%ld\t{%s}\n", key, vh_block, vh_index, buf); fflush(stdout);
}
static void vh_obs(const char *fmt, ...) {
	char buf[2000]; va_list ap; va_start(ap, fmt); vsnprintf(buf, sizeof buf, fmt, ap); va_end(ap);
	printf("OBS %s\n", buf); fflush(stdout);
}
static void vh_harness_error(const char *fmt, ...) {
	char buf[2000]; va_list ap; va_start(ap, fmt); vsnprintf(buf, sizeof buf, fmt, ap); va_end(ap);
	printf("HARNESS-ERROR %s\n", buf); fflush(stdout); exit(2);
}

static void vh_init(int argc, char **argv) {
	const char *e;
	if ((e = getenv("VH_SHARD"))) vh_shard = atoi(e);
	if ((e = getenv("VH_NSHARDS"))) vh_nshards = atoi(e);
	if ((e = getenv("VH_TIER"))) vh_thorough = !strcmp(e, "thorough");
	if ((e = getenv("VH_DEADLINE"))) vh_deadline_at = vh_now() + atof(e);
	if ((e = getenv("VERIF_SEED"))) vh_seed = atoi(e);
	for (int i = 1; i < argc; i++) {
		if (!strcmp(argv[i], "--replay") && i + 1 < argc) { /* block:index */
			char *s = strdup(argv[++i]); char *c = strrchr(s, ':'); if (!c) vh_harness_error("bad --replay"); *c = 0;
			vh_replay_block = s; vh_replay_index = atol(c + 1); vh_nshards = 1; vh_shard = 0; vh_deadline_at = 0;
		}
	}
	setvbuf(stdout, NULL, _IOLBF, 0);
}
static int vh_finish(void) {
	vh_block_end();
	for (int i = 0; i < vh_nkeys; i++) printf("VIOLCOUNT %s\t%ld\n", vh_keys[i].key, vh_keys[i].n);
	if (vh_last_sample[0] && !vh_replay_block) printf("SAMPLE %s\n", vh_last_sample);
	printf("STAT evaluations=%llu nontrivial=%llu cases=%llu violations=%llu capped=%d\n",
		(unsigned long long)vh_evals, (unsigned long long)vh_nontriv, (unsigned long long)vh_cases, (unsigned long long)vh_viols, vh_capped);
	fflush(stdout);
	return 0;
}

/* ---------- fork isolation ----------
 * Runs fn(ctx) in a child; the child's return value (0..250) is its exit status.  stdout/stderr of the child are
 * captured into memfds so that sanitizer reports and diagnostics become observations.
 * obs->kind: 0 = returned normally (obs->ret), 1 = sanitizer report, 2 = abort/assert, 3 = other signal, 4 = timeout */
static void vh_strip_addrs(char *w) { /* addresses vary between runs: 0x.... -> 0xADDR */ char *o = w; for (char *c = w; *c; ) { if (c[0] == '0' && c[1] == 'x' && isxdigit((unsigned char)c[2])) { c += 2; while (isxdigit((unsigned char)*c)) c++; memcpy(o, "0xADDR", 6); o += 6; } else *o++ = *c++; } *o = 0; }
typedef struct { int kind; int ret; int sig; char what[160]; char *out; size_t outlen; char *err; size_t errlen; } vh_obs_t;
static int vh_mfd_out = -1, vh_mfd_err = -1;
static void vh_fork_setup(void) {
	if (vh_mfd_out < 0) { vh_mfd_out = memfd_create("vhout", 0); vh_mfd_err = memfd_create("vherr", 0); }
	if (ftruncate(vh_mfd_out, 0) || ftruncate(vh_mfd_err, 0)) {}
	lseek(vh_mfd_out, 0, SEEK_SET); lseek(vh_mfd_err, 0, SEEK_SET);
}
static char *vh_slurp(int fd, size_t *n) { /* the TAIL of the stream (a crash report comes last, after any amount of diagnostics) */
	off_t sz = lseek(fd, 0, SEEK_END), off = 0; if (sz < 0) sz = 0; if (sz > (1 << 20)) { off = sz - (1 << 20); sz = 1 << 20; }
	char *b = (char *)malloc(sz + 1); if (pread(fd, b, sz, off) != sz) {} for (off_t i = 0; i < sz; i++) if (!b[i]) b[i] = ' '; b[sz] = 0; *n = sz; return b;
}
static void vh_obs_free(vh_obs_t *o) { free(o->out); free(o->err); o->out = o->err = NULL; }
/* resfd: child may write a result blob to fd 3 (a third memfd) — exposed through vh_res */
static int vh_mfd_res = -1;
static void vh_child_result(const void *p, size_t n) { if (vh_mfd_res >= 0) { if (write(vh_mfd_res, p, n) < 0) {} } }
static int vh_fork(int (*fn)(void *), void *ctx, int timeout_s, vh_obs_t *o, void *res, size_t reslen, size_t *resgot) {
	memset(o, 0, sizeof *o); vh_fork_setup();
	if (vh_mfd_res < 0) vh_mfd_res = memfd_create("vhres", 0);
	if (ftruncate(vh_mfd_res, 0)) {} lseek(vh_mfd_res, 0, SEEK_SET);
	fflush(stdout); fflush(stderr);
	pid_t pid = fork();
	if (pid < 0) vh_harness_error("fork: %s", strerror(errno));
	if (pid == 0) {
		dup2(vh_mfd_out, 1); dup2(vh_mfd_err, 2);
		alarm(timeout_s);
		int r = fn(ctx); fflush(stdout); fflush(stderr); _exit(r & 0xff);
	}
	int st = 0; while (waitpid(pid, &st, 0) < 0 && errno == EINTR) {}
	o->out = vh_slurp(vh_mfd_out, &o->outlen); o->err = vh_slurp(vh_mfd_err, &o->errlen);
	if (res) { off_t sz = lseek(vh_mfd_res, 0, SEEK_END); if (sz < 0) sz = 0; if ((size_t)sz > reslen) sz = reslen; if (pread(vh_mfd_res, res, sz, 0) != sz) {} if (resgot) *resgot = sz; }
	const char *p;
	if ((p = strstr(o->err, "ERROR: AddressSanitizer: ")) || (p = strstr(o->err, "ERROR: MemorySanitizer: ")) || (p = strstr(o->err, "WARNING: MemorySanitizer: "))) {
		o->kind = 1; const char *q = strchr(p, ':') + 2; q = strchr(q, ':') + 2; snprintf(o->what, sizeof o->what, "%.*s", (int)strcspn(q, " \n"), q);
		const char *f = strstr(p, " in "); /* first frame inside the library: find "#k 0x.. in <func> " lines */
		const char *fr = p; char fn1[80] = "";
		while ((fr = strstr(fr, " in "))) { fr += 4; if (!strncmp(fr, "__", 2) || !strncmp(fr, "mem", 3) || !strncmp(fr, "str", 3) || !strncmp(fr, "printf", 6) || !strncmp(fr, "vfprintf", 8)|| !strncmp(fr, "fprintf", 7) || !strncmp(fr, "vprintf",7)) continue; snprintf(fn1, sizeof fn1, "%.*s", (int)strcspn(fr, " \n"), fr); break; }
		(void)f; size_t l = strlen(o->what); snprintf(o->what + l, sizeof o->what - l, "@%s", fn1);
	} else if ((p = strstr(o->err, "runtime error: "))) {
		o->kind = 1; snprintf(o->what, sizeof o->what, "ubsan:%.*s", (int)strcspn(p + 15, "\n"), p + 15);
		for (char *c = o->what; *c; c++) if (*c == ' ' || *c == '\t') *c = '_'; vh_strip_addrs(o->what);
		/* drop addresses / numbers that vary */
	} else if (WIFSIGNALED(st)) {
		o->sig = WTERMSIG(st);
		if (o->sig == SIGALRM) { o->kind = 4; strcpy(o->what, "timeout"); }
		else if (o->sig == SIGABRT) { o->kind = 2; const char *a = strstr(o->err, "Assertion"); if (a) { snprintf(o->what, sizeof o->what, "abort:%.*s", (int)strcspn(a, "\n"), a); } else strcpy(o->what, "abort"); }
		else { o->kind = 3; snprintf(o->what, sizeof o->what, "signal-%d", o->sig); }
	} else { o->kind = 0; o->ret = WEXITSTATUS(st); }
	return o->kind;
}

/* ---------- guarded execution of a whole driver body ----------
 * body() runs in a child; if the child dies (sanitizer report, abort, signal, per-case timeout) the case it was evaluating
 * is reported as a violation `<prefix>:crash:<what>` and a new child resumes right after that case. */
static void vh_guarded(const char *prefix, void (*body)(void), int case_timeout_s) {
	vh_prog = (vh_prog_t *)mmap(NULL, sizeof *vh_prog, PROT_READ | PROT_WRITE, MAP_SHARED | MAP_ANONYMOUS, -1, 0);
	int restarts = 0;
	for (;;) {
		memset(vh_prog, 0, sizeof *vh_prog); vh_prog->index = -1;
		fflush(stdout); int efd = memfd_create("vhgerr", 0);
		pid_t pid = fork(); if (pid < 0) vh_harness_error("fork");
		if (pid == 0) { dup2(efd, 2); vh_case_timeout = case_timeout_s; body(); alarm(0); vh_finish(); _exit(0); }
		int st = 0; while (waitpid(pid, &st, 0) < 0 && errno == EINTR) {}
		if (WIFEXITED(st) && WEXITSTATUS(st) == 0) { close(efd); break; }
		if (WIFEXITED(st) && WEXITSTATUS(st) == 2) { close(efd); exit(2); }
		size_t el; char *err = vh_slurp(efd, &el); close(efd);
		char what[200] = "?"; const char *p;
		if ((p = strstr(err, "ERROR: AddressSanitizer: ")) || (p = strstr(err, "WARNING: MemorySanitizer: "))) {
			const char *q = strstr(p, "Sanitizer: ") + 11; char kind[64]; snprintf(kind, sizeof kind, "%.*s", (int)strcspn(q, " \n"), q);
			const char *fr = p; char fn1[80] = "";
			while ((fr = strstr(fr, " in "))) { fr += 4; if (!strncmp(fr, "__", 2) || !strncmp(fr, "mem", 3) || !strncmp(fr, "str", 3) || strstr(fr, "printf") == fr || !strncmp(fr, "vfprintf", 8) || !strncmp(fr, "fprintf", 7)) continue; snprintf(fn1, sizeof fn1, "%.*s", (int)strcspn(fr, " \n"), fr); break; }
			snprintf(what, sizeof what, "%s@%s", kind, fn1);
		} else if ((p = strstr(err, "runtime error: "))) { snprintf(what, sizeof what, "ubsan:%.*s", (int)strcspn(p + 15, "\n"), p + 15); for (char *c = what; *c; c++) if (*c == ' ') *c = '_'; vh_strip_addrs(what); }
		else if (WIFSIGNALED(st) && WTERMSIG(st) == SIGALRM) snprintf(what, sizeof what, "timeout");
		else if (WIFSIGNALED(st) && WTERMSIG(st) == SIGABRT) { const char *a = strstr(err, "Assertion"); if (a) { snprintf(what, sizeof what, "abort:%.*s", (int)strcspn(a, "\n"), a); for (char *c = what; *c; c++) if (*c == ' ') *c = '_'; } else snprintf(what, sizeof what, "abort"); }
		else if (WIFSIGNALED(st)) snprintf(what, sizeof what, "signal-%d", WTERMSIG(st));
		else snprintf(what, sizeof what, "exit-%d", WEXITSTATUS(st));
		if (vh_prog->index < 0) { printf("HARNESS-ERROR driver died outside any case: %s\n%.600s\n", what, err); exit(2); }
		char key[300]; snprintf(key, sizeof key, "%s:crash:%s", prefix, what);
		snprintf(vh_block, sizeof vh_block, "%s", vh_prog->block); vh_index = vh_prog->index;
		const char *tail = strstr(err, "ERROR: AddressSanitizer"); if (!tail) tail = strstr(err, "runtime error: "); if (!tail) tail = strstr(err, "Assertion"); if (!tail) tail = el > 600 ? err + el - 600 : err; char esc[700]; size_t k = 0; for (size_t i = 0; tail[i] && k < sizeof esc - 2; i++) { char c = tail[i]; if (c == '"' || c == '\\') c = '\''; if (c == '\n') c = '|'; if ((unsigned char)c < 32) c = ' '; esc[k++] = c; } esc[k] = 0;
		vh_viol(key, "\"crash\":\"%s\",\"report\":\"%s\"", what, esc);
		printf("VIOLCOUNT %s\t1\n", key);
		vh_block[0] = 0; free(err);
		if (vh_replay_block) break;
		snprintf(vh_skip_block, sizeof vh_skip_block, "%s", vh_prog->block); vh_skip_index = vh_prog->index; vh_skip_reached = 0;
		if (++restarts > 60) { printf("BLOCK %s capped 0\n", vh_skip_block); break; }
	}
	vh_nkeys = 0; vh_last_sample[0] = 0; /* children have printed their own totals */
}
#endif
