/* C07 — certificate chain validation is sound and complete for the supported profile.
 * Chains of 1..5 certificates built with the library's own issuing functions; from the canonical valid chain of each
 * length every <=1 (quick) / <=2 (thorough) deviation of the per-certificate and global menu; three-valued reference predicate. */
#include <stdio.h>
#include <gmssl/x509.h>
#include "vh.h"
#include "creds.h"

enum { K_NONE, K_BC_ABSENT, K_BC_FALSE, K_BC_TRUE, K_PL_ABSENT, K_PL_0, K_PL_1, K_PL_EXACT, K_PL_LESS, K_KU_ABSENT, K_KU_NOCERTSIGN, K_KU_DS_ONLY, K_KU_KE_ONLY, K_KU_NONCRIT, K_KU_CERTSIGN_ON_LEAF,
	K_EKU_SERVER, K_EKU_CLIENT, K_EKU_ANY, K_EXPIRED, K_NOTYET, K_LONGSPAN, K_SIG_FLIP, K_SIG_OTHERKEY, K_ISSUER_MISMATCH, K_UNK_NONCRIT, K_UNK_CRIT, K_V1, K_ISSUER_EXTENDED, K_ISSUER_TRUNCATED, K_ISSUER_LASTCHAR, K_NB_NOW, K_NA_NOW, K_NB_NOW1, K_NA_NOW1, K_EXTS_NONE, K_WIN_P32, K_WIN_P31, K_NB_P32, K_SUBJ_UNKNOWN_ATTR, K_SUBJ_NUL_IN_O, NKINDS,
	G_STORE_UNRELATED = 100, G_STORE_SAMENAME, G_STORE_EMPTY, G_DEPTH, G_STORE_DECOY_FIRST, G_STORE_DECOY_ONLY };
static const char *KN[] = { "none", "bc-absent", "bc-cA=FALSE", "bc-cA=TRUE", "pathlen-absent", "pathlen-0", "pathlen-1", "pathlen-exact", "pathlen-one-less", "ku-absent", "ku-no-keyCertSign", "ku-digitalSignature-only", "ku-keyEncipherment-only", "ku-non-critical", "ku-keyCertSign-on-leaf",
	"eku-serverAuth", "eku-clientAuth", "eku-any", "expired", "not-yet-valid", "span>10y", "sig-bitflip", "sig-other-key", "issuer-name-mismatch", "unknown-ext-noncritical", "unknown-ext-critical", "version-v1", "issuer-name-with-extra-rdn", "issuer-name-without-last-rdn", "issuer-name-last-char", "notBefore=now", "notAfter=now", "notBefore=now+1s", "notAfter=now-1s", "no-extensions-at-all", "valid-only-around-now+2^32s", "valid-only-around-now+2^31s", "notBefore=now+2^32s-1h", "subject-with-unknown-attribute-before-CN", "subject-with-NUL-in-organizationName-before-CN" }; /* the last three: validity windows that are aliases of a currently valid one modulo 2^32 / 2^31 seconds (year 2162 / 2094): time arithmetic done in 32 bits accepts them */
typedef struct { int pos, kind, arg; } devn_t;   /* pos: 0 leaf, 1..L-1 intermediates, L anchor, -1 enc leaf (TLCP), -2 global */

typedef struct { int L, role /*0 server 1 client*/, tlcp, depth, store /*0 ok 1 unrelated 2 samename 3 empty*/; cert_spec c[7]; cert_spec enc; } chain_t;
static void canonical(chain_t *ch, int L, int role, int tlcp) {
	memset(ch, 0, sizeof *ch); ch->L = L; ch->role = role; ch->tlcp = tlcp; ch->depth = 5; ch->store = 0;
	spec_leaf(&ch->c[0], "L", X509_KU_DIGITAL_SIGNATURE); spec_leaf(&ch->enc, "E", X509_KU_KEY_ENCIPHERMENT);
	for (int i = 1; i < L; i++) { char cn[4] = { 'C', (char)('0' + i), 0 }; spec_ca(&ch->c[i], cn, i - 1); }  /* pathLen = number of CAs below */
	spec_ca(&ch->c[L], "R", -1);
}
static void apply(chain_t *ch, devn_t d) {
	if (d.kind == K_NONE) return;
	if (d.pos == -2) { if (d.kind == G_STORE_UNRELATED) ch->store = 1; else if (d.kind == G_STORE_SAMENAME) ch->store = 2; else if (d.kind == G_STORE_EMPTY) ch->store = 3; else if (d.kind == G_STORE_DECOY_FIRST || d.kind == G_STORE_DECOY_ONLY) { /* the anchor gets a two-RDN name (and everything it issues names it so); the store holds, in FRONT of it or instead of it, another self-signed CA whose one-RDN name is a proper prefix of the anchor's */ ch->store = d.kind == G_STORE_DECOY_FIRST ? 4 : 5; ch->c[ch->L].subj_extra = ch->c[ch->L].iss_extra = 1; ch->c[ch->L - 1].iss_extra = 1; if (ch->L == 1) ch->enc.iss_extra = 1; } else if (d.kind == G_DEPTH) ch->depth = d.arg; return; }
	cert_spec *s = d.pos == -1 ? &ch->enc : &ch->c[d.pos]; int below = d.pos > 0 ? d.pos - 1 : 0;
	switch (d.kind) {
	case K_BC_ABSENT: s->bc = 0; s->pathlen = -1; break; case K_BC_FALSE: s->bc = 1; s->pathlen = -1; break; case K_BC_TRUE: s->bc = 2; break;
	case K_PL_ABSENT: s->pathlen = -1; break; case K_PL_0: s->pathlen = 0; break; case K_PL_1: s->pathlen = 1; break; case K_PL_EXACT: s->pathlen = below; break; case K_PL_LESS: s->pathlen = below - 1; break;
	case K_KU_ABSENT: s->ku = -1; break; case K_KU_NOCERTSIGN: s->ku = X509_KU_CRL_SIGN | X509_KU_DIGITAL_SIGNATURE; break; case K_KU_DS_ONLY: s->ku = X509_KU_DIGITAL_SIGNATURE; break; case K_KU_KE_ONLY: s->ku = X509_KU_KEY_ENCIPHERMENT; break; case K_KU_NONCRIT: s->ku_crit = 0; break; case K_KU_CERTSIGN_ON_LEAF: s->ku |= X509_KU_KEY_CERT_SIGN; break;
	case K_EKU_SERVER: s->eku = 1; break; case K_EKU_CLIENT: s->eku = 2; break; case K_EKU_ANY: s->eku = 3; break;
	case K_EXPIRED: s->nb = VENV_NOW - 400 * 86400; s->na = VENV_NOW - 86400; break; case K_NOTYET: s->nb = VENV_NOW + 86400; s->na = VENV_NOW + 400 * 86400; break; case K_LONGSPAN: s->nb = VENV_NOW - 86400; s->na = VENV_NOW + (time_t)4000 * 86400; break;
	/* the validity interval is closed: valid at exactly notBefore and at exactly notAfter, not one second outside */
	case K_WIN_P32: s->nb = VENV_NOW + ((time_t)1 << 32) - 86400; s->na = VENV_NOW + ((time_t)1 << 32) + 86400; break; case K_WIN_P31: s->nb = VENV_NOW + ((time_t)1 << 31) - 86400; s->na = VENV_NOW + ((time_t)1 << 31) + 86400; break; case K_NB_P32: s->nb = VENV_NOW + ((time_t)1 << 32) - 3600; s->na = s->nb + 365 * 86400; break;
	case K_SUBJ_UNKNOWN_ATTR: s->subj_bad_rdn = 1; break; case K_SUBJ_NUL_IN_O: s->subj_bad_rdn = 2; break;
	case K_NB_NOW: s->nb = VENV_NOW; break; case K_NA_NOW: s->na = VENV_NOW; break; case K_NB_NOW1: s->nb = VENV_NOW + 1; break; case K_NA_NOW1: s->na = VENV_NOW - 1; break;
	/* a v3 certificate without any extension (the extensions field itself is absent): as an issuer it is not a CA */
	case K_EXTS_NONE: s->bc = 0; s->pathlen = -1; s->ku = -1; s->eku = 0; s->unknown_ext = 0; break;
	case K_SIG_FLIP: s->sig = 1; break; case K_SIG_OTHERKEY: s->sig = 2; break; case K_ISSUER_MISMATCH: s->issuer_mismatch = 1; break; case K_ISSUER_EXTENDED: s->issuer_mismatch = 2; break; case K_ISSUER_TRUNCATED: s->issuer_mismatch = 3; break; case K_ISSUER_LASTCHAR: s->issuer_mismatch = 4; break; case K_UNK_NONCRIT: s->unknown_ext = 1; break; case K_UNK_CRIT: s->unknown_ext = 2; break; case K_V1: s->version = X509_version_v1; break;
	}
}
/* reference predicate: 1 must accept, 0 must reject, -1 unspecified; *why explains */
static int now_valid(const cert_spec *s) { return s->nb <= VENV_NOW && VENV_NOW <= s->na; }
static int is_ca_ok(const cert_spec *s) { return s->version == X509_version_v3 && s->bc == 2 && (s->ku < 0 || (s->ku & X509_KU_KEY_CERT_SIGN)); }
static int predicate(const chain_t *ch, const char **why) {
	int L = ch->L, unspecified = 0; *why = "";
#define REJ(w) do { *why = (w); return 0; } while (0)
#define UNS(w) do { if (!unspecified) *why = (w); unspecified = 1; } while (0)
	if (ch->store && ch->store != 4) REJ("anchor-not-in-store");
	int ninter = L - 1; if (ninter > ch->depth) REJ("depth-limit");
	for (int i = 0; i <= L; i++) { const cert_spec *s = &ch->c[i];
		if (i < L) { if (!now_valid(s)) REJ("not-valid-now"); if (s->sig) REJ("bad-signature"); if (s->issuer_mismatch) REJ("issuer-name"); }
		else { if (!now_valid(s)) UNS("anchor-validity"); if (s->sig || s->issuer_mismatch) UNS("anchor-self-signature"); }
		if (s->subj_bad_rdn) REJ("malformed-subject-name"); /* a certificate whose subject does not pass the name check does not parse; above the leaf the child's issuer field no longer matches either */
		if (s->unknown_ext == 2) { if (i < L) REJ("unknown-critical-ext"); else UNS("anchor-unknown-critical-ext"); }
		if (i >= 1) { if (!is_ca_ok(s)) REJ("issuer-not-a-CA"); int below = i - 1; if (s->pathlen >= 0 && s->pathlen < below) REJ("pathLen-exceeded"); }
		if (s->na - s->nb > (time_t)3653 * 86400) UNS("validity-span");
		if (s->version != X509_version_v3) UNS("v1");
	}
	/* end entity usages */
	const cert_spec *lf = &ch->c[0];
	if (lf->ku >= 0 && !(lf->ku & X509_KU_DIGITAL_SIGNATURE)) REJ("leaf-keyUsage");
	if (lf->eku == (ch->role ? 1 : 2)) REJ("leaf-extKeyUsage-other-role"); if (lf->eku == 3) UNS("eku-any");
	if (lf->bc == 2) UNS("leaf-is-CA"); if (lf->ku >= 0 && (lf->ku & X509_KU_KEY_CERT_SIGN)) UNS("leaf-keyCertSign"); if (lf->bc == 1) UNS("leaf-bc-false-present"); if (lf->pathlen >= 0) UNS("leaf-pathlen");
	if (ch->tlcp) { const cert_spec *e = &ch->enc; if (!now_valid(e)) REJ("enc-not-valid-now"); if (e->sig) REJ("enc-bad-signature"); if (e->issuer_mismatch) REJ("enc-issuer-name"); if (e->unknown_ext == 2) REJ("enc-unknown-critical-ext"); if (e->subj_bad_rdn) REJ("enc-malformed-subject-name");
		if (e->ku >= 0 && !(e->ku & X509_KU_KEY_ENCIPHERMENT)) REJ("enc-keyUsage"); if (e->eku == (ch->role ? 1 : 2)) REJ("enc-extKeyUsage-other-role"); if (e->eku == 3 || e->bc || e->version != X509_version_v3 || e->na - e->nb > (time_t)3653 * 86400 || (e->ku >= 0 && (e->ku & X509_KU_KEY_CERT_SIGN))) UNS("enc-shape"); }
	/* toolkit shape for must-accept: intermediates carry pathLen == number of CAs below; key usages present; non-critical unknown extensions allowed */
	for (int i = 1; i < L; i++) { const cert_spec *s = &ch->c[i]; if (s->pathlen != i - 1) UNS("pathLen-not-toolkit-shape"); if (s->ku < 0 || s->eku) UNS("ca-usage-not-toolkit-shape"); }
	{ const cert_spec *s = &ch->c[L]; if (s->ku < 0 || s->eku) UNS("root-usage-not-toolkit-shape"); }
	if (lf->ku < 0) UNS("leaf-ku-absent");
	/* a validity interval of a single instant (notBefore == notAfter; reached only by combining the two boundary deviations) is not a shape the toolkit issues, and its reader refuses notBefore >= notAfter: unspecified */
	for (int i = 0; i <= L; i++) if (ch->c[i].nb >= ch->c[i].na) UNS("validity-interval-of-one-instant"); if (ch->tlcp && ch->enc.nb >= ch->enc.na) UNS("validity-interval-of-one-instant");
	return unspecified ? -1 : 1;
}
static uint8_t CHAIN[8192], STORE[4096]; static size_t CHL, STL;
static int build(const chain_t *ch) {
	int L = ch->L; CHL = STL = 0; creds_init(); size_t n; char icn[8];
	for (int i = 0; i < L; i++) { const char *issuer = ch->c[i + 1].cn; n = 0; int r = make_cert(&ch->c[i], &CK[i], &CK[i + 1 == L ? 5 : i + 1], issuer, CHAIN + CHL, &n); if (r != 1) return r; CHL += n;
		if (i == 0 && ch->tlcp) { n = 0; r = make_cert(&ch->enc, &CK[6], &CK[1 == L ? 5 : 1], ch->c[1].cn, CHAIN + CHL, &n); if (r != 1) return r; CHL += n; } }
	(void)icn;
	if (ch->store == 3) return 1;
	cert_spec root = ch->c[L]; const SM2_KEY *rk = &CK[5]; if (ch->store == 1) { strcpy(root.cn, "U"); rk = &CK[7]; } else if (ch->store == 2) rk = &CK[8];
	int r; if (ch->store >= 4) { cert_spec dec = ch->c[L]; dec.subj_extra = dec.iss_extra = 0; n = 0; r = make_cert(&dec, &CK[8], &CK[8], dec.cn, STORE, &n); if (r != 1) return r; STL = n; if (ch->store == 5) return 1; }
	n = 0; r = make_cert(&root, rk, rk, root.cn, STORE + STL, &n); if (r != 1) return r; STL += n;
	/* a second, unrelated anchor in front so that lookup is not positional */
	cert_spec u; spec_ca(&u, "U2", -1); n = 0; if (make_cert(&u, &CK[9], &CK[9], "U2", STORE + STL, &n) == 1) STL += n;
	return 1;
}
static void run_case(const chain_t *ch, const devn_t *d, int nd) {
	const char *why; int want = predicate(ch, &why); int br = build(ch); if (br != 1) { vh_evals++; return; } /* the issuing functions refuse this shape: nothing to verify */
	int vr = 0; int r = ch->tlcp ? x509_certs_verify_tlcp(CHAIN, CHL, ch->role ? X509_cert_chain_client : X509_cert_chain_server, STORE, STL, ch->depth, &vr) : x509_certs_verify(CHAIN, CHL, ch->role ? X509_cert_chain_client : X509_cert_chain_server, STORE, STL, ch->depth, &vr);
	char desc[200] = ""; for (int i = 0; i < nd; i++) { char t[80]; if (d[i].kind == K_NONE) continue; if (d[i].pos == -2) snprintf(t, sizeof t, "%s%s%d", d[i].kind == G_DEPTH ? "depth=" : d[i].kind == G_STORE_UNRELATED ? "store-unrelated" : d[i].kind == G_STORE_SAMENAME ? "store-samename-otherkey" : d[i].kind == G_STORE_DECOY_FIRST ? "store-with-prefix-named-decoy-in-front" : d[i].kind == G_STORE_DECOY_ONLY ? "store-with-prefix-named-decoy-only" : "store-empty", "", d[i].kind == G_DEPTH ? d[i].arg : 0); else snprintf(t, sizeof t, "%s@%s", KN[d[i].kind], d[i].pos == -1 ? "enc" : d[i].pos == 0 ? "leaf" : d[i].pos == ch->L ? "anchor" : d[i].pos == 1 ? "ca1" : "caN"); if (desc[0]) strcat(desc, "+"); strcat(desc, t); }
	uint64_t key = vh_hash(ch, sizeof *ch, 7); vh_eval(want >= 0 ? key : 0); if (want < 0) vh_evals += 0;
	if (want == 0 && r == 1) { char k[256]; snprintf(k, sizeof k, "C07:accepts-invalid:%s:%s:%s", ch->tlcp ? "tlcp" : "tls", why, desc[0] ? desc : "none"); vh_viol(k, "\"L\":%d,\"role\":\"%s\",\"depth\":%d,\"why\":\"%s\",\"deviations\":\"%s\"", ch->L, ch->role ? "client" : "server", ch->depth, why, desc); }
	if (want == 1 && r != 1) { char k[256]; snprintf(k, sizeof k, "C07:rejects-valid:%s:%s:%s", ch->tlcp ? "tlcp" : "tls", ch->role ? "client" : "server", desc[0] ? desc : "canonical"); vh_viol(k, "\"L\":%d,\"role\":\"%s\",\"depth\":%d,\"deviations\":\"%s\",\"ret\":%d", ch->L, ch->role ? "client" : "server", ch->depth, desc, r); }
	vh_sample("{\"L\":%d,\"role\":\"%s\",\"form\":\"%s\",\"deviations\":\"%s\",\"reference\":\"%s\",\"why\":\"%s\",\"library\":%d}", ch->L, ch->role ? "client" : "server", ch->tlcp ? "tlcp" : "tls", desc, want == 1 ? "must-accept" : want == 0 ? "must-reject" : "unspecified", why, r);
}
static int menu(int L, int tlcp, devn_t *out) { int n = 0; out[n++] = (devn_t){ 0, K_NONE, 0 };
	for (int pos = tlcp ? -1 : 0; pos <= L; pos++) for (int k = 1; k < NKINDS; k++) { if (pos <= 0 && (k == K_PL_EXACT || k == K_PL_LESS || k == K_KU_NOCERTSIGN)) continue; if (pos > 0 && (k == K_KU_CERTSIGN_ON_LEAF || k == K_BC_TRUE)) continue; if (k == K_PL_LESS && pos == 1) continue; out[n++] = (devn_t){ pos, k, 0 }; }
	out[n++] = (devn_t){ -2, G_STORE_UNRELATED, 0 }; out[n++] = (devn_t){ -2, G_STORE_SAMENAME, 0 }; out[n++] = (devn_t){ -2, G_STORE_EMPTY, 0 }; out[n++] = (devn_t){ -2, G_STORE_DECOY_FIRST, 0 }; out[n++] = (devn_t){ -2, G_STORE_DECOY_ONLY, 0 }; for (int dpt = 0; dpt <= 5; dpt++) out[n++] = (devn_t){ -2, G_DEPTH, dpt }; return n; }
static void body(void) {
	for (int tlcp = 0; tlcp < 2; tlcp++) for (int role = 0; role < 2; role++) for (int L = 1; L <= 5; L++) {
		char bn[64]; snprintf(bn, sizeof bn, "%s-%s-L%d", tlcp ? "tlcp" : "tls", role ? "client" : "server", L); if (!vh_block_begin(bn)) continue;
		static devn_t M[400]; int nm = menu(L, tlcp, M);
		for (int a = 0; a < nm; a++) { if (!vh_next()) continue; chain_t ch; canonical(&ch, L, role, tlcp); apply(&ch, M[a]); devn_t d1[1] = { M[a] }; run_case(&ch, d1, 1);
			/* quick tier: the pairs that touch one LINK of the chain from both ends - a defect of the issuer's constraints (pathLen absent / other values, basicConstraints forms, keyUsage) together with a defect
			   of the signature or issuer name of the certificate directly below it: a verifier that skips the link check under some shape of the issuer shows here */
			if (!vh_thorough && a > 0 && M[a].pos >= 1 && M[a].kind >= K_BC_ABSENT && M[a].kind <= K_KU_NONCRIT) for (int b = 1; b < nm; b++) { if (M[b].pos != M[a].pos - 1 || !(M[b].kind == K_SIG_FLIP || M[b].kind == K_SIG_OTHERKEY || M[b].kind == K_ISSUER_MISMATCH || M[b].kind == K_ISSUER_LASTCHAR)) continue; canonical(&ch, L, role, tlcp); apply(&ch, M[a]); apply(&ch, M[b]); devn_t d2[2] = { M[a], M[b] }; run_case(&ch, d2, 2); }
			if (vh_thorough && a > 0) for (int b = a + 1; b < nm; b++) { if (M[b].pos == M[a].pos && M[b].pos != -2 && ((M[a].kind <= K_BC_TRUE) == (M[b].kind <= K_BC_TRUE)) && M[a].kind <= K_PL_LESS && M[b].kind <= K_PL_LESS && (M[a].kind <= K_BC_TRUE) ) continue; canonical(&ch, L, role, tlcp); apply(&ch, M[a]); apply(&ch, M[b]); devn_t d2[2] = { M[a], M[b] }; run_case(&ch, d2, 2); } }
	}
}
int main(int argc, char **argv) { vh_init(argc, argv); if (!freopen("/dev/null", "w", stderr)) {} vh_guarded("C07", body, 120); return vh_finish(); }
