/* C05 — authenticated decryption rejects every modification.
 * For every sealed message of the grid: the complete single-bit-flip neighbourhood of (nonce, AAD, ciphertext, tag), every
 * truncation and one-byte extensions; streaming decryptors are fed every tampered stream in every 2-cut chunking. */
#include <gmssl/sm4.h>
#include <gmssl/aes.h>
#include <gmssl/sm4_cbc_sm3_hmac.h>
#include <gmssl/sm4_ctr_sm3_hmac.h>
#include "vh.h"
#include "ossl_ref.h"
#include "modes_ref.h"

static uint8_t PT[256], KEY[48], NONCE[16], AAD[48];
static void fill(void) { for (int i = 0; i < 256; i++) PT[i] = (uint8_t)(i * 29 + 7); for (int i = 0; i < 48; i++) KEY[i] = (uint8_t)(0x3c + 5 * i + vh_seed); for (int i = 0; i < 16; i++) NONCE[i] = (uint8_t)(0x91 + 3 * i); for (int i = 0; i < 48; i++) AAD[i] = (uint8_t)(0xa0 ^ (i * 9)); }

typedef struct { const char *name; int streaming; size_t noncelen; int varnonce; /* nonce length is a parameter */
	/* seal: body = ct||tag (streaming) or ct with tag separate; returns 1 */
	int (*seal)(const uint8_t *nonce, size_t nl, const uint8_t *aad, size_t al, const uint8_t *pt, size_t n, size_t tl, uint8_t *ct, size_t *ctlen, uint8_t *tag);
	int (*open)(const uint8_t *nonce, size_t nl, const uint8_t *aad, size_t al, const uint8_t *ct, size_t ctlen, const uint8_t *tag, size_t tl, size_t cut, uint8_t *pt, size_t *ptlen);
} scheme_t;

/* exact-size heap copies so that over-reads are ASan-visible */
static uint8_t *dupb(const uint8_t *p, size_t n) { uint8_t *r = (uint8_t *)malloc(n ? n : 1); memcpy(r, p, n); return r; }

static int gcm_seal(const uint8_t *nonce, size_t nl, const uint8_t *aad, size_t al, const uint8_t *pt, size_t n, size_t tl, uint8_t *ct, size_t *ctlen, uint8_t *tag) { SM4_KEY k; sm4_set_encrypt_key(&k, KEY); *ctlen = n; return sm4_gcm_encrypt(&k, nonce, nl, aad, al, pt, n, ct, tl, tag); }
static int gcm_open(const uint8_t *nonce, size_t nl, const uint8_t *aad, size_t al, const uint8_t *ct, size_t cl, const uint8_t *tag, size_t tl, size_t cut, uint8_t *pt, size_t *pl) { SM4_KEY k; sm4_set_encrypt_key(&k, KEY); *pl = cl;
	uint8_t *a = dupb(aad, al), *c = dupb(ct, cl), *t = dupb(tag, tl), *nn = dupb(nonce, nl); if (cut) memcpy(pt, ct, cl); /* cut 1: decrypt in place */ int r = sm4_gcm_decrypt(&k, nn, nl, a, al, cut ? pt : c, cl, t, tl, pt); free(a); free(c); free(t); free(nn); return r; }
static int agcm_seal(const uint8_t *nonce, size_t nl, const uint8_t *aad, size_t al, const uint8_t *pt, size_t n, size_t tl, uint8_t *ct, size_t *ctlen, uint8_t *tag) { AES_KEY k; aes_set_encrypt_key(&k, KEY, 16); *ctlen = n; return aes_gcm_encrypt(&k, nonce, nl, aad, al, pt, n, ct, tl, tag); }
static int agcm_open(const uint8_t *nonce, size_t nl, const uint8_t *aad, size_t al, const uint8_t *ct, size_t cl, const uint8_t *tag, size_t tl, size_t cut, uint8_t *pt, size_t *pl) { AES_KEY k; aes_set_encrypt_key(&k, KEY, 16); *pl = cl;
	uint8_t *a = dupb(aad, al), *c = dupb(ct, cl), *t = dupb(tag, tl), *nn = dupb(nonce, nl); if (cut) memcpy(pt, ct, cl); /* cut 1: decrypt in place */ int r = aes_gcm_decrypt(&k, nn, nl, a, al, cut ? pt : c, cl, t, tl, pt); free(a); free(c); free(t); free(nn); return r; }
static int ccm_seal(const uint8_t *nonce, size_t nl, const uint8_t *aad, size_t al, const uint8_t *pt, size_t n, size_t tl, uint8_t *ct, size_t *ctlen, uint8_t *tag) { SM4_KEY k; sm4_set_encrypt_key(&k, KEY); *ctlen = n; return sm4_ccm_encrypt(&k, nonce, nl, aad, al, pt, n, ct, tl, tag); }
static int ccm_open(const uint8_t *nonce, size_t nl, const uint8_t *aad, size_t al, const uint8_t *ct, size_t cl, const uint8_t *tag, size_t tl, size_t cut, uint8_t *pt, size_t *pl) { SM4_KEY k; sm4_set_encrypt_key(&k, KEY); *pl = cl;
	uint8_t *a = dupb(aad, al), *c = dupb(ct, cl), *t = dupb(tag, tl), *nn = dupb(nonce, nl); if (cut) memcpy(pt, ct, cl); /* cut 1: decrypt in place */ int r = sm4_ccm_decrypt(&k, nn, nl, a, al, cut ? pt : c, cl, t, tl, pt); free(a); free(c); free(t); free(nn); return r; }

/* streaming: body = ct||tag fed as [0,cut) and [cut,len) */
#define STREAM_OPEN(NAME, CTXT, INIT, UPD, FIN) \
static int NAME(const uint8_t *nonce, size_t nl, const uint8_t *aad, size_t al, const uint8_t *ct, size_t cl, const uint8_t *tag, size_t tl, size_t cut, uint8_t *pt, size_t *pl) { \
	(void)tag; CTXT c; size_t ol = 0; *pl = 0; uint8_t *a = dupb(aad, al); int r = INIT; free(a); if (r != 1) return r; \
	size_t parts[2][2] = { { 0, cut }, { cut, cl - cut } }; \
	for (int i = 0; i < 2; i++) { if (!parts[i][1]) continue; uint8_t *ib = dupb(ct + parts[i][0], parts[i][1]); ol = (size_t)-7; /* sentinel: a successful update must report how much it wrote */ r = UPD(&c, ib, parts[i][1], pt + *pl, &ol); free(ib); if (r != 1) return r; if (ol == (size_t)-7) { vh_viol("C05:" #UPD ":returns-success-without-setting-outlen", "\"chunk_len\":%zu,\"stream_len\":%zu", parts[i][1], cl); ol = 0; } *pl += ol; } \
	ol = 0; r = FIN(&c, pt + *pl, &ol); if (r == 1) *pl += ol; return r; }
STREAM_OPEN(sgcm_open, SM4_GCM_CTX, sm4_gcm_decrypt_init(&c, KEY, 16, nonce, nl, a, al, tl), sm4_gcm_decrypt_update, sm4_gcm_decrypt_finish)
STREAM_OPEN(cbch_open, SM4_CBC_SM3_HMAC_CTX, sm4_cbc_sm3_hmac_decrypt_init(&c, KEY, nonce, a, al), sm4_cbc_sm3_hmac_decrypt_update, sm4_cbc_sm3_hmac_decrypt_finish)
STREAM_OPEN(ctrh_open, SM4_CTR_SM3_HMAC_CTX, sm4_ctr_sm3_hmac_decrypt_init(&c, KEY, nonce, a, al), sm4_ctr_sm3_hmac_decrypt_update, sm4_ctr_sm3_hmac_decrypt_finish)
static int sgcm_seal(const uint8_t *nonce, size_t nl, const uint8_t *aad, size_t al, const uint8_t *pt, size_t n, size_t tl, uint8_t *ct, size_t *ctlen, uint8_t *tag) { (void)tag; SM4_GCM_CTX c; size_t ol = 0, o2 = 0;
	if (sm4_gcm_encrypt_init(&c, KEY, 16, nonce, nl, aad, al, tl) != 1) return -1; if (n && sm4_gcm_encrypt_update(&c, pt, n, ct, &ol) != 1) return -1; if (sm4_gcm_encrypt_finish(&c, ct + ol, &o2) != 1) return -1; *ctlen = ol + o2; return 1; }
static int cbch_seal(const uint8_t *nonce, size_t nl, const uint8_t *aad, size_t al, const uint8_t *pt, size_t n, size_t tl, uint8_t *ct, size_t *ctlen, uint8_t *tag) { (void)tag; (void)nl; (void)tl; SM4_CBC_SM3_HMAC_CTX c; size_t ol = 0, o2 = 0;
	if (sm4_cbc_sm3_hmac_encrypt_init(&c, KEY, nonce, aad, al) != 1) return -1; if (n && sm4_cbc_sm3_hmac_encrypt_update(&c, pt, n, ct, &ol) != 1) return -1; if (sm4_cbc_sm3_hmac_encrypt_finish(&c, ct + ol, &o2) != 1) return -1; *ctlen = ol + o2; return 1; }
static int ctrh_seal(const uint8_t *nonce, size_t nl, const uint8_t *aad, size_t al, const uint8_t *pt, size_t n, size_t tl, uint8_t *ct, size_t *ctlen, uint8_t *tag) { (void)tag; (void)nl; (void)tl; SM4_CTR_SM3_HMAC_CTX c; size_t ol = 0, o2 = 0;
	if (sm4_ctr_sm3_hmac_encrypt_init(&c, KEY, nonce, aad, al) != 1) return -1; if (n && sm4_ctr_sm3_hmac_encrypt_update(&c, pt, n, ct, &ol) != 1) return -1; if (sm4_ctr_sm3_hmac_encrypt_finish(&c, ct + ol, &o2) != 1) return -1; *ctlen = ol + o2; return 1; }

static scheme_t SCH[] = {
	{ "sm4-gcm", 0, 12, 1, gcm_seal, gcm_open }, { "aes-gcm", 0, 12, 1, agcm_seal, agcm_open }, { "sm4-ccm", 0, 12, 1, ccm_seal, ccm_open },
	{ "sm4-gcm-stream", 1, 12, 1, sgcm_seal, sgcm_open }, { "sm4-cbc-sm3-hmac", 1, 16, 0, cbch_seal, cbch_open }, { "sm4-ctr-sm3-hmac", 1, 16, 0, ctrh_seal, ctrh_open },
};
#define NSCH 6
static const size_t ML_Q[] = { 0, 1, 17, 40 }, ML_T[] = { 0, 1, 15, 16, 17, 33, 40, 80 }, AL[] = { 0, 1, 20, 15, 16, 17, 32 }; /* incl. block-aligned AAD: the last AAD block of GHASH / CBC-MAC is then a full block */

static void expect_reject(const scheme_t *s, const char *field, const char *kind, int r, size_t n, size_t al, size_t tl, size_t pos, size_t cut) {
	if (r == 1) { char key[160]; snprintf(key, sizeof key, "C05:%s:%s-%s-accepted", s->name, field, kind); vh_viol(key, "\"msglen\":%zu,\"aadlen\":%zu,\"taglen\":%zu,\"pos\":%zu,\"cut\":%zu", n, al, tl, pos, cut); }
}
static void one_sealed(const scheme_t *s, size_t n, size_t al, size_t tl, size_t nl) {
	static uint8_t ct[400], tag[32], pt[400], m[400], nn[16], aa[48]; size_t cl = 0, pl = 0; char key[160];
	memset(tag, 0, sizeof tag);
	if (s->seal(NONCE, nl, AAD, al, PT, n, tl, ct, &cl, tag) != 1) { snprintf(key, sizeof key, "C05:%s:seal-failed", s->name); vh_viol(key, "\"msglen\":%zu,\"aadlen\":%zu,\"taglen\":%zu", n, al, tl); return; }
	size_t ncuts = s->streaming ? cl + 1 : 2; /* one-shot: separate buffers, then in place */ uint64_t base = vh_hash(s->name, strlen(s->name), n * 1000003 + al * 1009 + tl * 31 + nl);
	/* untouched: every chunking must succeed and give back the plaintext */
	for (size_t cut = 0; cut < ncuts; cut++) { int r = s->open(NONCE, nl, AAD, al, ct, cl, tag, tl, cut, pt, &pl); vh_eval(vh_mix(base + cut));
		if (r != 1 || pl != n || memcmp(pt, PT, n)) { snprintf(key, sizeof key, "C05:%s:untouched-rejected", s->name); vh_viol(key, "\"msglen\":%zu,\"aadlen\":%zu,\"taglen\":%zu,\"cut\":%zu,\"ret\":%d,\"ptlen\":%zu", n, al, tl, cut, r, pl); return; } }
	/* bit flips: body (ct, and tag inside the stream for streaming schemes) */
	for (size_t bit = 0; bit < cl * 8; bit++) { memcpy(m, ct, cl); m[bit / 8] ^= (uint8_t)(1 << (bit % 8));
		for (size_t cut = 0; cut < ncuts; cut++) { int r = s->open(NONCE, nl, AAD, al, m, cl, tag, tl, cut, pt, &pl); vh_eval(vh_mix(base + 0x10000 + bit * 512 + cut)); expect_reject(s, s->streaming ? (bit / 8 < cl - (strstr(s->name, "gcm") ? tl : 32) ? "ciphertext" : "tag") : "ciphertext", "bitflip", r, n, al, tl, bit, cut); } }
	if (!s->streaming) for (size_t bit = 0; bit < tl * 8; bit++) { memcpy(m, tag, tl); m[bit / 8] ^= (uint8_t)(1 << (bit % 8)); int r = s->open(NONCE, nl, AAD, al, ct, cl, m, tl, 0, pt, &pl); vh_eval(vh_mix(base + 0x20000 + bit)); expect_reject(s, "tag", "bitflip", r, n, al, tl, bit, 0); }
	size_t cutstep = s->streaming ? (cl / 3 ? cl / 3 : 1) : 1;
	for (size_t bit = 0; bit < al * 8; bit++) { memcpy(aa, AAD, al); aa[bit / 8] ^= (uint8_t)(1 << (bit % 8)); for (size_t cut = 0; cut < ncuts; cut += cutstep) { int r = s->open(NONCE, nl, aa, al, ct, cl, tag, tl, cut, pt, &pl); vh_eval(vh_mix(base + 0x30000 + bit * 512 + cut)); expect_reject(s, "aad", "bitflip", r, n, al, tl, bit, cut); } }
	for (size_t bit = 0; bit < nl * 8; bit++) { memcpy(nn, NONCE, nl); nn[bit / 8] ^= (uint8_t)(1 << (bit % 8)); for (size_t cut = 0; cut < ncuts; cut += cutstep) { int r = s->open(nn, nl, AAD, al, ct, cl, tag, tl, cut, pt, &pl); vh_eval(vh_mix(base + 0x40000 + bit * 512 + cut)); expect_reject(s, "nonce", "bitflip", r, n, al, tl, bit, cut); } }
	/* AAD truncated / extended by one byte */
	if (al) { int r = s->open(NONCE, nl, AAD, al - 1, ct, cl, tag, tl, 0, pt, &pl); vh_eval(vh_mix(base + 0x50000)); expect_reject(s, "aad", "truncation", r, n, al, tl, al - 1, 0); }
	{ int r = s->open(NONCE, nl, AAD, al + 1, ct, cl, tag, tl, 0, pt, &pl); vh_eval(vh_mix(base + 0x50001)); expect_reject(s, "aad", "extension", r, n, al, tl, al + 1, 0); }
	/* truncations of the body: every prefix; extensions by one byte */
	for (size_t k = 0; k < cl; k++) for (size_t cut = 0; cut <= (s->streaming ? k : 0); cut++) { int r = s->open(NONCE, nl, AAD, al, ct, k, tag, tl, cut, pt, &pl); vh_eval(vh_mix(base + 0x60000 + k * 512 + cut)); expect_reject(s, "ciphertext", "truncation", r, n, al, tl, k, cut); }
	static const uint8_t EXT[] = { 0x00, 0x01, 0xff };
	for (int e = 0; e < 3; e++) for (size_t where = 0; where <= (s->streaming ? 1 : 1); where++) { /* append, or insert before the tag / at the front */
		if (where == 0) { memcpy(m, ct, cl); m[cl] = EXT[e]; } else { m[0] = EXT[e]; memcpy(m + 1, ct, cl); }
		for (size_t cut = 0; cut <= (s->streaming ? cl + 1 : 0); cut++) { int r = s->open(NONCE, nl, AAD, al, m, cl + 1, tag, tl, cut, pt, &pl); vh_eval(vh_mix(base + 0x70000 + e * 4096 + where * 2048 + cut)); expect_reject(s, "ciphertext", "extension", r, n, al, tl, where, cut); } }
	/* tag truncated (one-shot): shorter tag length with the same leading bytes must not verify as the full tag did, where the shorter length is admissible it is a different parameter set => only lengths < minimum are required to fail */
	vh_sample("{\"scheme\":\"%s\",\"msglen\":%zu,\"aadlen\":%zu,\"taglen\":%zu,\"noncelen\":%zu,\"sealed\":\"%s\",\"tag\":\"%s\"}", s->name, n, al, tl, nl, vh_hex(ct, cl), s->streaming ? "" : vh_hex(tag, tl));
}
static void body(void) {
	for (int si = 0; si < NSCH; si++) {
		const scheme_t *s = &SCH[si]; char bn[64]; snprintf(bn, sizeof bn, "tamper-%s", s->name); if (!vh_block_begin(bn)) continue;
		const size_t *ML = vh_thorough ? ML_T : ML_Q; int nml = vh_thorough ? 8 : 4; /* 40 and 80: the stream is longer than two tag-sized windows, so a single update crosses the look-behind buffer and goes on (the branch coverage run showed the quick tier never took it) */
		for (int mi = 0; mi < nml; mi++) for (int ai = 0; ai < 7; ai++) { if (ai >= 3 && !vh_thorough && mi != 1) continue; /* the block-aligned AAD lengths with one message length in the quick tier */
			size_t tl0 = 12, tl1 = 16, tstep = vh_thorough ? 1 : 4; if (!strcmp(s->name, "sm4-ccm")) { tl0 = 4; tstep = vh_thorough ? 2 : 6; } if (strstr(s->name, "hmac")) { tl0 = tl1 = 32; }
			for (size_t tl = tl0; tl <= tl1; tl += tstep) {
				size_t nls[4] = { s->noncelen, 0, 0, 0 }; int nn = 1; /* other nonce lengths (GCM derives the counter block through GHASH then): thorough everywhere, quick with one message / AAD length */
				if (s->varnonce && (vh_thorough || (mi == 1 && ai == 1))) { if (!strcmp(s->name, "sm4-ccm")) { nls[1] = 7; nls[2] = 13; nn = 3; } else { nls[1] = 1; nls[2] = 16; nls[3] = 8; nn = 4; } }
				for (int ni = 0; ni < nn; ni++) { if (!vh_next()) continue; one_sealed(s, ML[mi], AL[ai], tl, nls[ni]); }
			}
		}
	}
}
/* AAD lengths around the CCM length-encoding switch (0xff00) and 2^16: untouched must open; bit flips at both ends of the AAD, AAD +-1 byte must be refused */
static void body_bigaad(void) {
	if (!vh_block_begin("big-aad")) return;
	static const size_t BAL[] = { 0xfeff, 0xff00, 0xff01, 0xffff, 0x10000, 0x10001 }; static uint8_t aad[0x10010], m[0x10010]; for (size_t i = 0; i < sizeof aad; i++) aad[i] = (uint8_t)(i * 7 + 1);
	for (int si = 0; si < 4; si++) for (int ai = 0; ai < 6; ai++) for (int mi = 0; mi < 2; mi++) { if (!vh_next()) continue; const scheme_t *s = &SCH[si]; size_t al = BAL[ai], n = mi ? 17 : 0, tl = 16, nl = 12; uint8_t ct[100], tag[32], pt[100]; size_t cl = 0, pl = 0; char key[160];
		if (s->seal(NONCE, nl, aad, al, PT, n, tl, ct, &cl, tag) != 1) { snprintf(key, sizeof key, "C05:%s:seal-failed:big-aad", s->name); vh_viol(key, "\"aadlen\":%zu", al); continue; }
		size_t kk[3] = { (size_t)si, al, n }; int r = s->open(NONCE, nl, aad, al, ct, cl, tag, tl, cl / 2, pt, &pl); vh_eval(vh_hash(kk, sizeof kk, 1));
		if (r != 1 || pl != n || memcmp(pt, PT, n)) { snprintf(key, sizeof key, "C05:%s:untouched-rejected:big-aad", s->name); vh_viol(key, "\"aadlen\":%zu,\"msglen\":%zu,\"ret\":%d", al, n, r); continue; }
		static const size_t POS[] = { 0, 1, 15, 16 }; for (int e = 0; e < 2; e++) for (int pi = 0; pi < 4; pi++) for (int bit = 0; bit < 8; bit++) { size_t pos = e ? al - 1 - POS[pi] : POS[pi]; memcpy(m, aad, al); m[pos] ^= (uint8_t)(1 << bit); r = s->open(NONCE, nl, m, al, ct, cl, tag, tl, 0, pt, &pl); vh_eval(vh_hash(kk, sizeof kk, 100 + e * 50 + pi * 8 + bit)); expect_reject(s, "aad", "bitflip-big-aad", r, n, al, tl, pos * 8 + bit, 0); }
		r = s->open(NONCE, nl, aad, al - 1, ct, cl, tag, tl, 0, pt, &pl); vh_eval(vh_hash(kk, sizeof kk, 2)); expect_reject(s, "aad", "truncation-big-aad", r, n, al, tl, al - 1, 0);
		r = s->open(NONCE, nl, aad, al + 1, ct, cl, tag, tl, 0, pt, &pl); vh_eval(vh_hash(kk, sizeof kk, 3)); expect_reject(s, "aad", "extension-big-aad", r, n, al, tl, al + 1, 0);
		/* the same bytes presented under the other length encoding must not verify either: AAD' = 4-byte big-endian length || AAD, 4 bytes longer */
		if (al + 4 < sizeof m) { m[0] = (uint8_t)(al >> 24); m[1] = (uint8_t)(al >> 16); m[2] = (uint8_t)(al >> 8); m[3] = (uint8_t)al; memcpy(m + 4, aad, al); r = s->open(NONCE, nl, m, al + 4, ct, cl, tag, tl, 0, pt, &pl); vh_eval(vh_hash(kk, sizeof kk, 4)); expect_reject(s, "aad", "length-prefix-confusion", r, n, al, tl, 0, 0); }
		vh_sample("{\"block\":\"big-aad\",\"scheme\":\"%s\",\"aadlen\":%zu,\"msglen\":%zu}", s->name, al, n);
	}
}
/* the library's own command-line front ends for the three streaming AEAD schemes (tools/sm4_gcm.c, sm4_cbc_sm3_hmac.c, sm4_ctr_sm3_hmac.c, compiled into this
   driver from the tree under test): they read the input in 4096-octet pieces, so file sizes around the multiples of 4096 are the boundaries;
   decrypt(encrypt(file)) must succeed and give the file back, and a flipped bit anywhere in the sealed file must make decryption fail */
#include <unistd.h>
#include <sys/stat.h>
#define usage c05_usage_gcm
#define options c05_options_gcm
#include "../tools/sm4_gcm.c"
#undef usage
#undef options
#define usage c05_usage_cbch
#define options c05_options_cbch
#include "../tools/sm4_cbc_sm3_hmac.c"
#undef usage
#undef options
#define usage c05_usage_ctrh
#define options c05_options_ctrh
#include "../tools/sm4_ctr_sm3_hmac.c"
#undef usage
#undef options
static int run_tool(int which, int enc, const char *in, const char *out) { static char K16[] = "0123456789abcdef0123456789abcdef", K48[] = "0123456789abcdef0123456789abcdef0123456789abcdef0123456789abcdef0123456789abcdef0123456789abcdef", IV12[] = "000102030405060708090a0b", IV16[] = "000102030405060708090a0b0c0d0e0f";
	char *argv[16]; int n = 0; argv[n++] = (char *)"tool"; argv[n++] = (char *)(enc ? "-encrypt" : "-decrypt"); argv[n++] = (char *)"-key"; argv[n++] = which ? K48 : K16; argv[n++] = (char *)"-iv"; argv[n++] = which ? IV16 : IV12; argv[n++] = (char *)"-aad"; argv[n++] = (char *)"header"; argv[n++] = (char *)"-in"; argv[n++] = (char *)in; argv[n++] = (char *)"-out"; argv[n++] = (char *)out; argv[n] = NULL;
	return which == 0 ? sm4_gcm_main(n, argv) : which == 1 ? sm4_cbc_sm3_hmac_main(n, argv) : sm4_ctr_sm3_hmac_main(n, argv); }
static long slurp(const char *path, uint8_t *b, size_t cap) { FILE *f = fopen(path, "rb"); if (!f) return -1; size_t n = fread(b, 1, cap, f); fclose(f); return (long)n; }
static void spit(const char *path, const uint8_t *b, size_t n) { FILE *f = fopen(path, "wb"); if (!f) vh_harness_error("cannot write %s", path); if (n) fwrite(b, 1, n, f); fclose(f); }
static void body_tools(void) {
	if (!vh_block_begin("command-line-tools")) return; static const size_t FL[] = { 0, 1, 4079, 4080, 4081, 4095, 4096, 4097, 4111, 4112, 4113, 8191, 8192, 8193, 12289 }; static const char *TN[] = { "sm4_gcm", "sm4_cbc_sm3_hmac", "sm4_ctr_sm3_hmac" };
	char dir[64] = "/tmp/c05toolsXXXXXX"; if (!mkdtemp(dir)) vh_harness_error("mkdtemp"); char fi[96], fe[96], fd[96]; snprintf(fi, sizeof fi, "%s/in", dir); snprintf(fe, sizeof fe, "%s/sealed", dir); snprintf(fd, sizeof fd, "%s/opened", dir);
	static uint8_t data[12400], back[12600], sealed[12600]; for (size_t i = 0; i < sizeof data; i++) data[i] = (uint8_t)(i * 131 + (i >> 8));
	FILE *se = stderr; (void)se; int nfl = vh_thorough ? 15 : 15;
	for (int w = 0; w < 3; w++) for (int li = 0; li < nfl; li++) { if (!vh_next()) continue; size_t n = FL[li]; char key[160]; spit(fi, data, n); unlink(fe); unlink(fd);
		int r = run_tool(w, 1, fi, fe); size_t kk[2] = { (size_t)w, n }; vh_eval(vh_hash(kk, sizeof kk, 41)); if (r != 0) { snprintf(key, sizeof key, "C05:tools:%s:encrypt-failed", TN[w]); vh_viol(key, "\"file_len\":%zu,\"ret\":%d", n, r); continue; }
		r = run_tool(w, 0, fe, fd); long bl = slurp(fd, back, sizeof back); vh_eval(vh_hash(kk, sizeof kk, 42));
		if (r != 0 || bl != (long)n || memcmp(back, data, n)) { snprintf(key, sizeof key, "C05:tools:%s:own-output-does-not-decrypt", TN[w]); vh_viol(key, "\"file_len\":%zu,\"ret\":%d,\"opened_len\":%ld", n, r, bl); continue; }
		/* one flipped bit at the start, around every 4096 boundary of the sealed file and at its end */
		long sl = slurp(fe, sealed, sizeof sealed); if (sl <= 0) continue; size_t pos[8] = { 0, 4095, 4096, 8191, 8192, (size_t)sl / 2, (size_t)sl - 17, (size_t)sl - 1 };
		for (int pi = 0; pi < 8; pi++) { if (pos[pi] >= (size_t)sl) continue; sealed[pos[pi]] ^= 0x10; spit(fe, sealed, (size_t)sl); sealed[pos[pi]] ^= 0x10; unlink(fd); r = run_tool(w, 0, fe, fd); vh_eval(vh_hash(kk, sizeof kk, 50 + pi)); if (r == 0) { snprintf(key, sizeof key, "C05:tools:%s:altered-file-decrypts-with-success", TN[w]); vh_viol(key, "\"file_len\":%zu,\"byte\":%zu", n, pos[pi]); } }
		vh_sample("{\"block\":\"command-line-tools\",\"tool\":\"%s\",\"file_len\":%zu,\"sealed_len\":%ld}", TN[w], n, sl); }
	unlink(fi); unlink(fe); unlink(fd); rmdir(dir);
}
static void body_all(void) { body(); body_bigaad(); body_tools(); }
int main(int argc, char **argv) { vh_init(argc, argv); fill(); vh_guarded("C05", body_all, 60); return vh_finish(); }
