/* C04 — ciphers and modes match their standards, invert, and are chunking-invariant.
 * Enumerates (fill,len) update pairs for every streaming context, length/IV/tag/AAD grids for the one-shot calls,
 * in-place operation and the NULL-output size query; oracle = OpenSSL where it has the algorithm, otherwise the generic
 * mode references of ref/modes_ref.c (validated on AES against OpenSSL in the self-test block, block function = OpenSSL SM4-ECB). */
#include <gmssl/sm4.h>
#include <gmssl/sm4_cbc_mac.h>
#include <gmssl/aes.h>
#include <gmssl/zuc.h>
#include <gmssl/chacha20.h>
#include <gmssl/ghash.h>
#include <gmssl/gf128.h>
#include <gmssl/block_cipher.h>
#include <gmssl/mem.h>
#include "vh.h"
#include "ossl_ref.h"
#include "modes_ref.h"

static uint8_t PT[70000], KEYS[3][32], IVS[3][16];
static void fill(void) {
	for (size_t i = 0; i < sizeof PT; i++) PT[i] = (uint8_t)(i * 11 + (i >> 8) * 3 + 1);
	memset(KEYS[0], 0, 32); memset(KEYS[1], 0xff, 32); for (int i = 0; i < 32; i++) KEYS[2][i] = (uint8_t)(0x01 + 0x22 * i + vh_seed);
	memset(IVS[0], 0, 16); memset(IVS[1], 0xff, 16); for (int i = 0; i < 16; i++) IVS[2][i] = (uint8_t)(0xf0 - 13 * i);
}
static mr_blk *SM4R[3], *SM4R2[3], *AESR[3];

/* output arena with canary after the declared capacity */
static uint8_t ARENA[80000];
#define CAN 0xC3
static uint8_t *cap_buf(size_t cap) { if (cap + 64 > sizeof ARENA) vh_harness_error("arena"); memset(ARENA + cap, CAN, 64); return ARENA; }
static int cap_ok(size_t cap) { for (int i = 0; i < 64; i++) if (ARENA[cap + i] != CAN) return 0; return 1; }

/* ------------------------------------------------------------------ streaming abstraction */
typedef struct {
	const char *name; int kidx; size_t s; /* cfb segment */ size_t du; /* xts data unit */
	const uint8_t *aad; size_t aadlen, taglen, ivlen; int query; /* has NULL-out size query */
	int (*init)(void *c); int (*upd)(void *c, const uint8_t *in, size_t inlen, uint8_t *out, size_t *outlen); int (*fin)(void *c, uint8_t *out, size_t *outlen);
} stream_t;
static stream_t *S;  /* current stream parameters (closure) */
static union { SM4_CBC_CTX cbc; SM4_CTR_CTX ctr; SM4_GCM_CTX gcm; SM4_ECB_CTX ecb; SM4_OFB_CTX ofb; SM4_CFB_CTX cfb; SM4_XTS_CTX xts; ZUC_CTX zuc; uint8_t pad[4096]; } CTX;
#define KEY (KEYS[S->kidx])
#define IV (IVS[S->kidx])
static int i_ecb_e(void *c) { return sm4_ecb_encrypt_init(c, KEY); } static int i_ecb_d(void *c) { return sm4_ecb_decrypt_init(c, KEY); }
static int i_cbc_e(void *c) { return sm4_cbc_encrypt_init(c, KEY, IV); } static int i_cbc_d(void *c) { return sm4_cbc_decrypt_init(c, KEY, IV); }
static int i_ctr(void *c) { return sm4_ctr_encrypt_init(c, KEY, IV); } static int i_ctr32(void *c) { return sm4_ctr32_encrypt_init(c, KEY, IV); }
static int i_ofb(void *c) { return sm4_ofb_encrypt_init(c, KEY, IV); }
static int i_cfb_e(void *c) { return sm4_cfb_encrypt_init(c, S->s, KEY, IV); } static int i_cfb_d(void *c) { return sm4_cfb_decrypt_init(c, S->s, KEY, IV); }
static int i_xts_e(void *c) { return sm4_xts_encrypt_init(c, KEY, IV, S->du); } static int i_xts_d(void *c) { return sm4_xts_decrypt_init(c, KEY, IV, S->du); }
static int i_gcm_e(void *c) { return sm4_gcm_encrypt_init(c, KEY, 16, PT + 300, S->ivlen, S->aad, S->aadlen, S->taglen); }
static int i_gcm_d(void *c) { return sm4_gcm_decrypt_init(c, KEY, 16, PT + 300, S->ivlen, S->aad, S->aadlen, S->taglen); }
static int i_zuc(void *c) { return zuc_encrypt_init(c, KEY, IV); }
typedef int (*upd_f)(void *, const uint8_t *, size_t, uint8_t *, size_t *); typedef int (*fin_f)(void *, uint8_t *, size_t *);

/* run a stream over `in` cut as cuts[]; every call goes through the size query (if any) and an exactly-sized, canary-guarded
 * output; inplace: the chunk is first copied into the output buffer and processed there. returns 1 ok, <0 code */
static int stream_run(const uint8_t *in, const size_t *cuts, int ncuts, int inplace, uint8_t *res, size_t *reslen, char *why) {
	size_t pos = 0, ol; *reslen = 0; why[0] = 0; int first = 1;
	if (S->init(&CTX) != 1) { strcpy(why, "init"); return -1; }
	for (int i = 0; i <= ncuts; i++) {
		int last = i == ncuts; size_t n = last ? 0 : cuts[i]; if (!last && n == 0) continue;
		size_t q;
		if (S->query) { q = 0; int r = last ? S->fin(&CTX, NULL, &q) : S->upd(&CTX, in + pos, n, NULL, &q); if (r != 1) { strcpy(why, "query"); return -2; } }
		else q = last ? 2 * (S->du ? S->du : 16) + 32 : n + (S->du ? S->du : 16) + 32;
		size_t cap = q; if (inplace && first && cap < n) cap = n;
		uint8_t *o = cap_buf(cap); const uint8_t *src = in + pos;
		/* in place (out == in) is only meaningful while the context holds no buffered input: the first non-empty chunk */
		if (inplace && !last && first) { memcpy(o, in + pos, n); src = o; }
		first = 0;
		ol = (size_t)-1; uint8_t *ib = NULL;
		if (!last && src != o) { ib = (uint8_t *)malloc(n); memcpy(ib, src, n); src = ib; } /* exact-size input block: over-reads are visible to ASan */
		int r = last ? S->fin(&CTX, o, &ol) : S->upd(&CTX, src, n, o, &ol);
		free(ib);
		if (r != 1) { sprintf(why, "%s-ret%d", last ? "finish" : "update", r); return -3; }
		if (!cap_ok(cap) || ol > q) { sprintf(why, "%s-wrote-%zu-beyond-reported-%zu", last ? "finish" : "update", ol, q); return -4; }
		memcpy(res + *reslen, o, ol); *reslen += ol; pos += n;
	}
	if (S->du) { /* xts finish frees its block; nothing else */ }
	return 1;
}
static void stream_case(const char *blk, const uint8_t *in, size_t inlen, const uint8_t *exp, size_t explen, const size_t *cuts, int ncuts, int inplace, int expect_fail) {
	static uint8_t res[70100]; size_t rl; char why[96];
	int r = stream_run(in, cuts, ncuts, inplace, res, &rl, why);
	uint64_t k = vh_hash(cuts, sizeof(size_t) * ncuts, vh_hash(S->name, strlen(S->name), S->kidx * 1000 + S->s * 40 + S->du + S->taglen * 7 + S->ivlen * 131 + S->aadlen * 17 + inplace));
	vh_eval(k);
	char key[200];
	if (expect_fail) { if (r == 1) { snprintf(key, sizeof key, "C04:%s:%s:accepted-inadmissible-length", blk, S->name); vh_viol(key, "\"len\":%zu", inlen); } return; }
	if (r == -4) { snprintf(key, sizeof key, "C04:%s:%s:size-query-exceeded", blk, S->name); vh_viol(key, "\"cuts\":[%zu,%zu,%zu],\"s\":%zu,\"why\":\"%s\"", cuts[0], ncuts > 1 ? cuts[1] : 0, ncuts > 2 ? cuts[2] : 0, S->s, why); return; }
	if (r != 1) { snprintf(key, sizeof key, "C04:%s:%s:refused:%s", blk, S->name, why); vh_viol(key, "\"cuts\":[%zu,%zu,%zu],\"len\":%zu,\"inplace\":%d", cuts[0], ncuts > 1 ? cuts[1] : 0, ncuts > 2 ? cuts[2] : 0, inlen, inplace); return; }
	if (rl != explen || memcmp(res, exp, explen)) { snprintf(key, sizeof key, "C04:%s:%s:%s", blk, S->name, inplace ? "inplace-mismatch" : "mismatch");
		vh_viol(key, "\"cuts\":[%zu,%zu,%zu],\"key\":%d,\"s\":%zu,\"du\":%zu,\"taglen\":%zu,\"ivlen\":%zu,\"aadlen\":%zu,\"gotlen\":%zu,\"explen\":%zu,\"got\":\"%s\",\"exp\":\"%s\"", cuts[0], ncuts > 1 ? cuts[1] : 0, ncuts > 2 ? cuts[2] : 0, S->kidx, S->s, S->du, S->taglen, S->ivlen, S->aadlen, rl, explen, vh_hex(res, rl > 80 ? 80 : rl), vh_hex(exp, explen > 80 ? 80 : explen)); }
}
/* expected output of stream S for plaintext/ciphertext `in` (returns length, or -1 if the length is inadmissible) */
static long stream_expect(const uint8_t *in, size_t n, uint8_t *out) {
	const mr_blk *b = SM4R[S->kidx]; const char *nm = S->name;
	if (!strcmp(nm, "ecb-enc") || !strcmp(nm, "ecb-dec")) { if (n % 16) return -1; mr_ecb(b, nm[4] == 'e', in, n / 16, out); return (long)n; }
	if (!strcmp(nm, "cbc-enc")) return mr_cbc_pad(b, 1, IV, in, n, out);
	if (!strcmp(nm, "cbc-dec")) return mr_cbc_pad(b, 0, IV, in, n, out);
	if (!strcmp(nm, "ctr")) { mr_ctr(b, IV, 16, in, n, out); return (long)n; }
	if (!strcmp(nm, "ctr32")) { mr_ctr(b, IV, 4, in, n, out); return (long)n; }
	if (!strcmp(nm, "ofb")) { mr_ofb(b, IV, in, n, out); return (long)n; }
	if (!strcmp(nm, "cfb-enc")) { mr_cfb(b, 1, S->s, IV, in, n, out); return (long)n; }
	if (!strcmp(nm, "cfb-dec")) { mr_cfb(b, 0, S->s, IV, in, n, out); return (long)n; }
	if (!strcmp(nm, "xts-enc") || !strcmp(nm, "xts-dec")) { if (n % S->du) return -1; uint8_t tw[16]; memcpy(tw, IV, 16);
		for (size_t off = 0; off < n; off += S->du) { mr_xts(SM4R[S->kidx], SM4R2[S->kidx], nm[4] == 'e', 1, tw, in + off, S->du, out + off); for (int i = 0; i < 16; i++) if (++tw[i]) break; } return (long)n; }
	if (!strcmp(nm, "gcm-enc")) { mr_gcm(b, 1, PT + 300, S->ivlen, S->aad, S->aadlen, in, n, out, out + n, S->taglen); return (long)(n + S->taglen); }
	if (!strcmp(nm, "gcm-dec")) { if (n < S->taglen) return -1; uint8_t tag[16]; memcpy(tag, in + n - S->taglen, S->taglen); return mr_gcm(b, 0, PT + 300, S->ivlen, S->aad, S->aadlen, in, n - S->taglen, out, tag, S->taglen) ? (long)(n - S->taglen) : -1; }
	if (!strcmp(nm, "zuc")) { ZUC_STATE st; zuc_init(&st, KEY, IV); for (size_t i = 0; i < n; i += 4) { uint32_t w = zuc_generate_keyword(&st); for (size_t j = 0; j < 4 && i + j < n; j++) out[i + j] = in[i + j] ^ (uint8_t)(w >> (24 - 8 * j)); } return (long)n; }
	vh_harness_error("no expectation for stream %s", nm); return -1;
}
static stream_t STREAMS[] = {
	{ "ecb-enc", 0, 0, 0, NULL, 0, 0, 0, 1, i_ecb_e, (upd_f)sm4_ecb_encrypt_update, (fin_f)sm4_ecb_encrypt_finish },
	{ "ecb-dec", 0, 0, 0, NULL, 0, 0, 0, 1, i_ecb_d, (upd_f)sm4_ecb_decrypt_update, (fin_f)sm4_ecb_decrypt_finish },
	{ "cbc-enc", 0, 0, 0, NULL, 0, 0, 0, 1, i_cbc_e, (upd_f)sm4_cbc_encrypt_update, (fin_f)sm4_cbc_encrypt_finish },
	{ "cbc-dec", 0, 0, 0, NULL, 0, 0, 0, 1, i_cbc_d, (upd_f)sm4_cbc_decrypt_update, (fin_f)sm4_cbc_decrypt_finish },
	{ "ctr", 0, 0, 0, NULL, 0, 0, 0, 1, i_ctr, (upd_f)sm4_ctr_encrypt_update, (fin_f)sm4_ctr_encrypt_finish },
	{ "ctr32", 0, 0, 0, NULL, 0, 0, 0, 1, i_ctr32, (upd_f)sm4_ctr32_encrypt_update, (fin_f)sm4_ctr32_encrypt_finish },
	{ "ofb", 0, 0, 0, NULL, 0, 0, 0, 1, i_ofb, (upd_f)sm4_ofb_encrypt_update, (fin_f)sm4_ofb_encrypt_finish },
	{ "cfb-enc", 0, 16, 0, NULL, 0, 0, 0, 1, i_cfb_e, (upd_f)sm4_cfb_encrypt_update, (fin_f)sm4_cfb_encrypt_finish },
	{ "cfb-dec", 0, 16, 0, NULL, 0, 0, 0, 1, i_cfb_d, (upd_f)sm4_cfb_decrypt_update, (fin_f)sm4_cfb_decrypt_finish },
	{ "xts-enc", 0, 0, 32, NULL, 0, 0, 0, 0, i_xts_e, (upd_f)sm4_xts_encrypt_update, (fin_f)sm4_xts_encrypt_finish },
	{ "xts-dec", 0, 0, 32, NULL, 0, 0, 0, 0, i_xts_d, (upd_f)sm4_xts_decrypt_update, (fin_f)sm4_xts_decrypt_finish },
	{ "gcm-enc", 0, 0, 0, PT + 500, 20, 16, 12, 1, i_gcm_e, (upd_f)sm4_gcm_encrypt_update, (fin_f)sm4_gcm_encrypt_finish },
	{ "gcm-dec", 0, 0, 0, PT + 500, 20, 16, 12, 1, i_gcm_d, (upd_f)sm4_gcm_decrypt_update, (fin_f)sm4_gcm_decrypt_finish },
	{ "zuc", 0, 0, 0, NULL, 0, 0, 0, 0, i_zuc, (upd_f)zuc_encrypt_update, (fin_f)zuc_encrypt_finish },
};
#define NSTREAMS (sizeof STREAMS / sizeof STREAMS[0])
static int is_dec(const char *n) { return strstr(n, "-dec") != NULL; }

static void one_stream_variant(const char *blk, int full) {
	/* automaton: every (fill,len) pair */
	static uint8_t in2[70100], exp[70100], tmp[70100];
	size_t F = S->du ? S->du : 16, L = 50;
	if (!full) { L = 36; }
	for (size_t f = 0; f < F; f++) for (size_t len = 0; len < L; len++) {
		if (!vh_next()) continue;
		size_t n = f + len; const uint8_t *in = PT + 100; long el; int expect_fail = 0;
		if (is_dec(S->name)) { /* input = reference ciphertext of an n-byte plaintext */
			stream_t *save = S, enc = *S; char en[16]; snprintf(en, sizeof en, "%.4s", S->name); strcat(en, "enc"); enc.name = en; S = &enc; long cl = stream_expect(PT + 100, n, tmp); S = save;
			if (cl < 0) { /* plaintext length inadmissible for the encryptor: feed n raw bytes, decryptor must refuse */ el = stream_expect(PT + 100, n, exp); if (el >= 0) { in = PT + 100; } else expect_fail = 1; cl = (long)n; if (expect_fail) memcpy(tmp, PT + 100, n); }
			memcpy(in2, tmp, cl); in = in2; size_t cn = (size_t)cl; if (!expect_fail) { el = stream_expect(in, cn, exp); if (el < 0) vh_harness_error("reference cannot invert %s", S->name); }
			/* cut the ciphertext at f and f+len (clipped) */
			size_t c0 = f < cn ? f : cn, c1 = (len < cn - c0) ? len : cn - c0; size_t cuts[3] = { c0, c1, cn - c0 - c1 };
			stream_case(blk, in, cn, exp, expect_fail ? 0 : (size_t)el, cuts, 3, 0, expect_fail);
			if (!expect_fail && (f % 5) == 0) stream_case(blk, in, cn, exp, (size_t)el, cuts, 3, 1, 0);
		} else {
			el = stream_expect(in, n, exp); if (el < 0) expect_fail = 1;
			size_t cuts[2] = { f, len };
			stream_case(blk, in, n, exp, expect_fail ? 0 : (size_t)el, cuts, 2, 0, expect_fail);
			if (!expect_fail && (f % 5) == 0) stream_case(blk, in, n, exp, (size_t)el, cuts, 2, 1, 0);
		}
		vh_sample("{\"block\":\"%s\",\"stream\":\"%s\",\"key\":%d,\"fill\":%zu,\"len\":%zu,\"s\":%zu,\"taglen\":%zu}", blk, S->name, S->kidx, f, len, S->s, S->taglen);
	}
}
static void blk_streams(void) {
	for (size_t si = 0; si < NSTREAMS; si++) {
		char bn[64]; snprintf(bn, sizeof bn, "stream-%s", STREAMS[si].name); if (!vh_block_begin(bn)) continue;
		for (int k = 0; k < 3; k++) {
			stream_t st = STREAMS[si]; st.kidx = k; S = &st;
			if (!strncmp(st.name, "cfb", 3)) { for (size_t s = 1; s <= 16; s++) { st.s = s; one_stream_variant(bn, k == 2); } }
			else if (!strncmp(st.name, "xts", 3)) { static const size_t DU[] = { 16, 17, 31, 32, 48 }; for (int d = 0; d < 5; d++) { st.du = DU[d]; one_stream_variant(bn, k == 2); } }
			else if (!strncmp(st.name, "gcm", 3)) { for (size_t t = 12; t <= 16; t++) { st.taglen = t; st.ivlen = (t == 13) ? 1 : (t == 14 ? 64 : 12); st.aadlen = (t == 15) ? 0 : 20; one_stream_variant(bn, k == 2); } }
			else one_stream_variant(bn, 1);
		}
	}
	/* longer messages, 3 cuts */
	if (!vh_block_begin("stream-long")) return;
	static const size_t LENS[] = { 63, 64, 65, 127, 128, 129, 1023, 1024, 1025, 4095, 4096, 4097 };
	static uint8_t exp[70100], tmp[70100];
	for (size_t si = 0; si < NSTREAMS; si++) for (int li = 0; li < 12; li++) for (int cv = 0; cv < 3; cv++) {
		if (!vh_next()) continue;
		stream_t st = STREAMS[si]; st.kidx = 2; S = &st; size_t n = LENS[li]; if (st.du) n = (n / st.du) * st.du; if (!strncmp(st.name, "ecb", 3)) n &= ~(size_t)15;
		const uint8_t *in = PT + 7; size_t inl = n;
		if (is_dec(st.name)) { stream_t enc = st; char en[16]; snprintf(en, sizeof en, "%.4s", st.name); strcat(en, "enc"); enc.name = en; S = &enc; long cl = stream_expect(PT + 7, n, tmp); S = &st; if (cl < 0) continue; in = tmp; inl = (size_t)cl; }
		long el = stream_expect(in, inl, exp); if (el < 0) continue;
		size_t a = cv == 0 ? 1 : cv == 1 ? inl / 3 : inl - 1; size_t cuts[3] = { a, (inl - a) / 2, inl - a - (inl - a) / 2 };
		stream_case("stream-long", in, inl, exp, (size_t)el, cuts, 3, cv == 1, 0);
	}
}

/* ------------------------------------------------------------------ block functions and one-shot modes */
static void blk_block(void) {
	if (!vh_block_begin("block")) return;
	for (int k = 0; k < 3; k++) for (int i = 0; i < 3000; i++) {
		if (!vh_next()) continue;
		uint8_t in[16], o1[16], o2[16], d[16]; for (int j = 0; j < 16; j++) in[j] = (uint8_t)(i * 17 + j * (i + 1) + (i >> 4)); if (i < 128) { memset(in, 0, 16); in[i / 8] = (uint8_t)(0x80 >> (i % 8)); }
		SM4_KEY ek, dk; sm4_set_encrypt_key(&ek, KEYS[k]); sm4_set_decrypt_key(&dk, KEYS[k]); sm4_encrypt(&ek, in, o1); mr_E(SM4R[k], in, o2); sm4_encrypt(&dk, o1, d);
		vh_eval(vh_hash(in, 16, k));
		if (memcmp(o1, o2, 16) || memcmp(d, in, 16)) vh_viol("C04:block:sm4", "\"key\":%d,\"in\":\"%s\",\"got\":\"%s\",\"exp\":\"%s\"", k, vh_hex(in, 16), vh_hex(o1, 16), vh_hex(o2, 16));
		static const size_t KL[] = { 16, 24, 32 }; static const char *AN[] = { "AES-128-ECB", "AES-192-ECB", "AES-256-ECB" };
		for (int a = 0; a < 3; a++) { AES_KEY ak, adk; uint8_t e[16]; aes_set_encrypt_key(&ak, KEYS[k], KL[a]); aes_set_decrypt_key(&adk, KEYS[k], KL[a]); aes_encrypt(&ak, in, o1); aes_decrypt(&adk, o1, d);
			ref_cipher(AN[a], 1, 0, KEYS[k], NULL, 0, NULL, 0, in, 16, e, NULL, 0); vh_eval(vh_hash(in, 16, k + 10 * a + 5));
			if (memcmp(o1, e, 16) || memcmp(d, in, 16)) { char key[64]; snprintf(key, sizeof key, "C04:block:aes%zu", KL[a] * 8); vh_viol(key, "\"key\":%d,\"in\":\"%s\"", k, vh_hex(in, 16)); } }
		if (i % 64 == 0) { /* multi-block entry points */
			uint8_t o[16 * 9], e[16 * 9]; size_t nb = 1 + (i / 64) % 9; sm4_encrypt_blocks(&ek, PT + i, nb, o); mr_ecb(SM4R[k], 1, PT + i, nb, e); vh_eval(vh_hash(&nb, 8, i + k));
			if (memcmp(o, e, 16 * nb)) vh_viol("C04:block:sm4_encrypt_blocks", "\"nblocks\":%zu", nb);
			BLOCK_CIPHER_KEY bk; if (block_cipher_set_encrypt_key(&bk, BLOCK_CIPHER_sm4(), KEYS[k]) != 1 || block_cipher_encrypt(&bk, in, o) != 1 || (mr_E(SM4R[k], in, e), memcmp(o, e, 16))) vh_viol("C04:block:block_cipher_sm4", "\"i\":%d", i);
			if (block_cipher_set_decrypt_key(&bk, BLOCK_CIPHER_sm4(), KEYS[k]) != 1 || block_cipher_decrypt(&bk, e, o) != 1) {}
		}
	}
}
static const size_t LENB[] = { 0,1,2,3,4,5,6,7,8,9,10,11,12,13,14,15,16,17,18,19,20,21,22,23,24,25,26,27,28,29,30,31,32,33,34,35,36,37,38,39,40,41,42,43,44,45,46,47,48,49,50,63,64,65,127,128,129,1023,1024,1025,4095,4096,4097 };
#define NLENB (sizeof LENB / sizeof LENB[0])
static const uint8_t CTRS[][16] = {
	{0}, {0xff,0xff,0xff,0xff,0xff,0xff,0xff,0xff,0xff,0xff,0xff,0xff,0xff,0xff,0xff,0xff}, {0xff,0xff,0xff,0xff,0xff,0xff,0xff,0xff,0xff,0xff,0xff,0xff,0xff,0xff,0xff,0xfe},
	{1,2,3,4,5,6,7,8,9,10,11,12,0xff,0xff,0xff,0xff}, {1,2,3,4,5,6,7,8,9,10,11,0xff,0xff,0xff,0xff,0xfe}, {0,0,0,0,0,0,0,0,0xff,0xff,0xff,0xff,0xff,0xff,0xff,0xff}, {9,9,9,9,9,9,9,9,9,9,9,9,0,0,0xff,0xff} };
static void blk_oneshot(void) {
	if (!vh_block_begin("oneshot")) return;
	static uint8_t o[4200], e[4200], d[4200];
	for (int k = 0; k < 3; k++) for (size_t li = 0; li < NLENB; li++) {
		if (!vh_next()) continue;
		size_t n = LENB[li]; SM4_KEY ek, dk; sm4_set_encrypt_key(&ek, KEYS[k]); sm4_set_decrypt_key(&dk, KEYS[k]); const uint8_t *in = PT + 33; uint8_t iv[16]; size_t ol; char key[128];
		/* CBC with padding, both directions, against OpenSSL SM4-CBC */
		long el = ref_cipher("SM4-CBC", 1, 1, KEYS[k], IVS[k], 16, NULL, 0, in, n, e, NULL, 0); if (el < 0) vh_harness_error("openssl sm4-cbc");
		uint8_t *ob = cap_buf(n + 16 - n % 16); int r = sm4_cbc_padding_encrypt(&ek, IVS[k], in, n, ob, &ol); vh_eval(vh_hash(&n, 8, k + 100));
		if (r != 1 || ol != (size_t)el || memcmp(ob, e, ol) || !cap_ok(n + 16 - n % 16)) vh_viol("C04:oneshot:sm4_cbc_padding_encrypt", "\"len\":%zu,\"ret\":%d", n, r);
		r = sm4_cbc_padding_decrypt(&dk, IVS[k], e, (size_t)el, d, &ol); vh_eval(vh_hash(&n, 8, k + 200));
		if (r != 1 || ol != n || memcmp(d, in, n)) vh_viol("C04:oneshot:sm4_cbc_padding_decrypt", "\"len\":%zu,\"ret\":%d", n, r);
		if (n % 16 == 0 && n) { memcpy(iv, IVS[k], 16); sm4_cbc_encrypt_blocks(&ek, iv, in, n / 16, o); mr_cbc_blocks(SM4R[k], 1, IVS[k], in, n / 16, e); vh_eval(vh_hash(&n, 8, k + 300));
			if (memcmp(o, e, n) || memcmp(iv, e + n - 16, 16)) vh_viol("C04:oneshot:sm4_cbc_encrypt_blocks", "\"len\":%zu", n);
			memcpy(iv, IVS[k], 16); sm4_cbc_decrypt_blocks(&dk, iv, e, n / 16, d); vh_eval(vh_hash(&n, 8, k + 400)); if (memcmp(d, in, n)) vh_viol("C04:oneshot:sm4_cbc_decrypt_blocks", "\"len\":%zu", n);
			memcpy(d, e, n); memcpy(iv, IVS[k], 16); sm4_cbc_decrypt_blocks(&dk, iv, d, n / 16, d); vh_eval(vh_hash(&n, 8, k + 450)); if (memcmp(d, in, n)) vh_viol("C04:oneshot:sm4_cbc_decrypt_blocks:inplace", "\"len\":%zu", n); }
		/* CTR / CTR32 with wrapping counters; OpenSSL SM4-CTR for the 128-bit counter */
		for (int c = 0; c < 7; c++) { uint8_t ctr[16]; memcpy(ctr, CTRS[c], 16); sm4_ctr_encrypt(&ek, ctr, in, n, o); ref_cipher("SM4-CTR", 1, 0, KEYS[k], CTRS[c], 16, NULL, 0, in, n, e, NULL, 0); mr_ctr(SM4R[k], CTRS[c], 16, in, n, d);
			if (memcmp(e, d, n)) vh_harness_error("ctr reference disagrees with OpenSSL"); vh_eval(vh_hash(&n, 8, k + 500 + c));
			if (memcmp(o, e, n)) { snprintf(key, sizeof key, "C04:oneshot:sm4_ctr_encrypt:ctr%d", c); vh_viol(key, "\"len\":%zu,\"ctr\":\"%s\"", n, vh_hex(CTRS[c], 16)); }
			memcpy(ctr, CTRS[c], 16); sm4_ctr32_encrypt(&ek, ctr, in, n, o); mr_ctr(SM4R[k], CTRS[c], 4, in, n, e); vh_eval(vh_hash(&n, 8, k + 600 + c));
			if (memcmp(o, e, n)) { snprintf(key, sizeof key, "C04:oneshot:sm4_ctr32_encrypt:ctr%d", c); vh_viol(key, "\"len\":%zu,\"ctr\":\"%s\"", n, vh_hex(CTRS[c], 16)); }
			if (n % 16 == 0 && n) { memcpy(ctr, CTRS[c], 16); sm4_ctr_encrypt_blocks(&ek, ctr, in, n / 16, o); mr_ctr(SM4R[k], CTRS[c], 16, in, n, e); vh_eval(vh_hash(&n, 8, k + 700 + c)); if (memcmp(o, e, n)) { snprintf(key, sizeof key, "C04:oneshot:sm4_ctr_encrypt_blocks:ctr%d", c); vh_viol(key, "\"len\":%zu", n); }
				memcpy(ctr, CTRS[c], 16); sm4_ctr32_encrypt_blocks(&ek, ctr, in, n / 16, o); mr_ctr(SM4R[k], CTRS[c], 4, in, n, e); vh_eval(vh_hash(&n, 8, k + 800 + c)); if (memcmp(o, e, n)) { snprintf(key, sizeof key, "C04:oneshot:sm4_ctr32_encrypt_blocks:ctr%d", c); vh_viol(key, "\"len\":%zu", n); } }
			AES_KEY ak; aes_set_encrypt_key(&ak, KEYS[k], 16); memcpy(ctr, CTRS[c], 16); aes_ctr_encrypt(&ak, ctr, in, n, o); ref_cipher("AES-128-CTR", 1, 0, KEYS[k], CTRS[c], 16, NULL, 0, in, n, e, NULL, 0); vh_eval(vh_hash(&n, 8, k + 900 + c));
			if (memcmp(o, e, n)) { snprintf(key, sizeof key, "C04:oneshot:aes_ctr_encrypt:ctr%d", c); vh_viol(key, "\"len\":%zu", n); }
			/* AES-192 / AES-256 in CTR mode */ for (int a = 1; a < 3; a++) { static const size_t KL2[] = { 16, 24, 32 }; static const char *CN[] = { "AES-128-CTR", "AES-192-CTR", "AES-256-CTR" }; aes_set_encrypt_key(&ak, KEYS[k], KL2[a]); memcpy(ctr, CTRS[c], 16); aes_ctr_encrypt(&ak, ctr, in, n, o); ref_cipher(CN[a], 1, 0, KEYS[k], CTRS[c], 16, NULL, 0, in, n, e, NULL, 0); vh_eval(vh_hash(&n, 8, k + 950 + c * 3 + a)); if (memcmp(o, e, n)) { snprintf(key, sizeof key, "C04:oneshot:aes_ctr_encrypt:%s:ctr%d", CN[a], c); vh_viol(key, "\"len\":%zu", n); } } }
		/* OFB / CFB-s vs OpenSSL (OFB, CFB128, CFB8) and the generic reference */
		memcpy(iv, IVS[k], 16); sm4_ofb_encrypt(&ek, iv, in, n, o); ref_cipher("SM4-OFB", 1, 0, KEYS[k], IVS[k], 16, NULL, 0, in, n, e, NULL, 0); vh_eval(vh_hash(&n, 8, k + 1000)); if (memcmp(o, e, n)) vh_viol("C04:oneshot:sm4_ofb_encrypt", "\"len\":%zu", n);
		for (size_t s = 1; s <= 16; s++) { memcpy(iv, IVS[k], 16); sm4_cfb_encrypt(&ek, s, iv, in, n, o); mr_cfb(SM4R[k], 1, s, IVS[k], in, n, e); vh_eval(vh_hash(&n, 8, k + 1100 + s));
			if (memcmp(o, e, n)) { snprintf(key, sizeof key, "C04:oneshot:sm4_cfb_encrypt:s%zu", s); vh_viol(key, "\"len\":%zu", n); }
			if (s == 16) { ref_cipher("SM4-CFB", 1, 0, KEYS[k], IVS[k], 16, NULL, 0, in, n, d, NULL, 0); if (memcmp(d, e, n)) vh_harness_error("cfb128 reference disagrees with OpenSSL"); }
			memcpy(iv, IVS[k], 16); sm4_cfb_decrypt(&ek, s, iv, e, n, d); vh_eval(vh_hash(&n, 8, k + 1200 + s)); if (memcmp(d, in, n)) { snprintf(key, sizeof key, "C04:oneshot:sm4_cfb_decrypt:s%zu", s); vh_viol(key, "\"len\":%zu", n); }
			memcpy(d, e, n); memcpy(iv, IVS[k], 16); sm4_cfb_decrypt(&ek, s, iv, d, n, d); vh_eval(vh_hash(&n, 8, k + 1300 + s)); if (memcmp(d, in, n)) { snprintf(key, sizeof key, "C04:oneshot:sm4_cfb_decrypt:inplace:s%zu", s); vh_viol(key, "\"len\":%zu", n); } }
		/* AES-CBC with padding for the three key sizes */
		static const size_t KL[] = { 16, 24, 32 }; static const char *AN[] = { "AES-128-CBC", "AES-192-CBC", "AES-256-CBC" };
		for (int a = 0; a < 3; a++) { AES_KEY ak, adk; aes_set_encrypt_key(&ak, KEYS[k], KL[a]); aes_set_decrypt_key(&adk, KEYS[k], KL[a]); el = ref_cipher(AN[a], 1, 1, KEYS[k], IVS[k], 16, NULL, 0, in, n, e, NULL, 0);
			r = aes_cbc_padding_encrypt(&ak, IVS[k], in, n, o, &ol); vh_eval(vh_hash(&n, 8, k + 1400 + a)); if (r != 1 || ol != (size_t)el || memcmp(o, e, ol)) { snprintf(key, sizeof key, "C04:oneshot:aes%zu_cbc_padding_encrypt", KL[a] * 8); vh_viol(key, "\"len\":%zu,\"ret\":%d", n, r); }
			r = aes_cbc_padding_decrypt(&adk, IVS[k], e, (size_t)el, d, &ol); vh_eval(vh_hash(&n, 8, k + 1500 + a)); if (r != 1 || ol != n || memcmp(d, in, n)) { snprintf(key, sizeof key, "C04:oneshot:aes%zu_cbc_padding_decrypt", KL[a] * 8); vh_viol(key, "\"len\":%zu,\"ret\":%d", n, r); }
			/* the block-level CBC calls in place (out == in), both directions, as for SM4 above */
			if (n % 16 == 0 && n) { memcpy(o, in, n); aes_cbc_encrypt(&ak, IVS[k], o, n / 16, o); vh_eval(vh_hash(&n, 8, k + 1550 + a)); if (memcmp(o, e, n)) { snprintf(key, sizeof key, "C04:oneshot:aes%zu_cbc_encrypt:in-place", KL[a] * 8); vh_viol(key, "\"len\":%zu", n); }
				memcpy(d, e, n); aes_cbc_decrypt(&adk, IVS[k], d, n / 16, d); vh_eval(vh_hash(&n, 8, k + 1560 + a)); if (memcmp(d, in, n)) { snprintf(key, sizeof key, "C04:oneshot:aes%zu_cbc_decrypt:in-place", KL[a] * 8); vh_viol(key, "\"len\":%zu", n); } }
			{ memcpy(d, e, (size_t)el); size_t ol2 = 0; r = aes_cbc_padding_decrypt(&adk, IVS[k], d, (size_t)el, d, &ol2); vh_eval(vh_hash(&n, 8, k + 1570 + a)); if (r != 1 || ol2 != n || memcmp(d, in, n)) { snprintf(key, sizeof key, "C04:oneshot:aes%zu_cbc_padding_decrypt:in-place", KL[a] * 8); vh_viol(key, "\"len\":%zu,\"ret\":%d", n, r); } } }
		/* CBC-MAC with every 2-cut for short messages */
		uint8_t mac[16], em[16]; mr_cbcmac(SM4R[k], in, n, em);
		for (size_t c = 0; c <= n; c += (n <= 50 ? 1 : n / 2 ? n / 2 : 1)) { SM4_CBC_MAC_CTX mc; sm4_cbc_mac_init(&mc, KEYS[k]); sm4_cbc_mac_update(&mc, in, c); sm4_cbc_mac_update(&mc, in + c, n - c); sm4_cbc_mac_finish(&mc, mac); vh_eval(vh_hash(&c, 8, n * 7 + k + 1600));
			if (memcmp(mac, em, 16)) vh_viol("C04:oneshot:sm4_cbc_mac", "\"len\":%zu,\"cut\":%zu", n, c); }
		/* XTS one-shot, both doubling conventions exist in the reference; the library documents GB/T 17964 */
		if (n >= 16 && n <= 1100) { SM4_KEY k2; sm4_set_encrypt_key(&k2, KEYS[k] + 16); r = sm4_xts_encrypt(&ek, &k2, IVS[k], in, n, o); mr_xts(SM4R[k], SM4R2[k], 1, 1, IVS[k], in, n, e); vh_eval(vh_hash(&n, 8, k + 1700));
			if (r != 1 || memcmp(o, e, n)) vh_viol("C04:oneshot:sm4_xts_encrypt", "\"len\":%zu,\"ret\":%d", n, r);
			r = sm4_xts_decrypt(&dk, &k2, IVS[k], e, n, d); vh_eval(vh_hash(&n, 8, k + 1800)); if (r != 1 || memcmp(d, in, n)) vh_viol("C04:oneshot:sm4_xts_decrypt", "\"len\":%zu,\"ret\":%d", n, r);
			memcpy(d, in, n); r = sm4_xts_encrypt(&ek, &k2, IVS[k], d, n, d); vh_eval(vh_hash(&n, 8, k + 1900)); if (r != 1 || memcmp(d, e, n)) vh_viol("C04:oneshot:sm4_xts_encrypt:inplace", "\"len\":%zu", n); }
		else if (n < 16) { SM4_KEY k2; sm4_set_encrypt_key(&k2, KEYS[k] + 16); r = sm4_xts_encrypt(&ek, &k2, IVS[k], in, n, o); vh_eval(vh_hash(&n, 8, k + 1950)); if (r == 1) vh_viol("C04:oneshot:sm4_xts_encrypt:accepts-short", "\"len\":%zu", n); }
		vh_sample("{\"block\":\"oneshot\",\"key\":%d,\"len\":%zu}", k, n);
	}
}
/* GCM: all IV lengths 1..64, tag lengths, AAD lengths; SM4 against the generic reference, AES against OpenSSL */
static void blk_gcm_wrap(void) { static uint8_t o[300], e[300], d[300];
	/* counter wrap: 16-byte IVs constructed so that the pre-counter block J0 ends in chosen words; the 32-bit block counter then wraps
	   (or carries into its third / fourth byte) inside a short message. inc32 must wrap mod 2^32 without touching the upper 96 bits. */
	if (vh_block_begin("gcm-counter-wrap")) { static const uint32_t LOW[] = { 0x000000fe, 0x0000fffe, 0x00fffffe, 0x00ffffff, 0xfffffffe, 0xffffffff, 0x3cffffff, 0x7fffffff, 0xfffffffd };
		for (int k = 0; k < 3; k++) for (int w = 0; w < 9; w++) { if (!vh_next()) continue; SM4_KEY sk; sm4_set_encrypt_key(&sk, KEYS[k]); AES_KEY ak; aes_set_encrypt_key(&ak, KEYS[k], 16); uint8_t j0[16], iv[16], chk[16], h[16], z16[16] = {0}; for (int i = 0; i < 12; i++) j0[i] = (uint8_t)(0xa0 + 7 * i + k); j0[11] = 0xff; j0[12] = (uint8_t)(LOW[w] >> 24); j0[13] = (uint8_t)(LOW[w] >> 16); j0[14] = (uint8_t)(LOW[w] >> 8); j0[15] = (uint8_t)LOW[w];
			for (int alg = 0; alg < 2; alg++) { const mr_blk *B = alg ? AESR[k] : SM4R[k]; mr_gcm_iv_for_j0(B, j0, iv); mr_E(B, z16, h); mr_ghash(h, NULL, 0, iv, 16, chk); if (memcmp(chk, j0, 16)) vh_harness_error("IV construction for a chosen J0 failed");
				const uint8_t *in = PT + 6000, *aad = PT + 1000; size_t n = 100, al = 5; uint8_t tag[16], et[16]; int r; char key[128]; mr_gcm(B, 1, iv, 16, aad, al, in, n, e, et, 16);
				if (alg) { uint8_t ot[16]; long el = ref_cipher("AES-128-GCM", 1, 0, KEYS[k], iv, 16, aad, al, in, n, d, ot, 16); if (el != (long)n || memcmp(d, e, n) || memcmp(ot, et, 16)) vh_harness_error("mr_gcm disagrees with OpenSSL AES-GCM at a counter wrap (low word %08x)", LOW[w]); }
				r = alg ? aes_gcm_encrypt(&ak, iv, 16, aad, al, in, n, o, 16, tag) : sm4_gcm_encrypt(&sk, iv, 16, aad, al, in, n, o, 16, tag); vh_eval(vh_mix(70000 + k * 100 + w * 2 + alg)); if (r != 1 || memcmp(o, e, n) || memcmp(tag, et, 16)) { snprintf(key, sizeof key, "C04:gcm-counter-wrap:%s_gcm_encrypt", alg ? "aes" : "sm4"); vh_viol(key, "\"j0_low_word\":\"%08x\",\"ret\":%d", LOW[w], r); }
				r = alg ? aes_gcm_decrypt(&ak, iv, 16, aad, al, e, n, et, 16, d) : sm4_gcm_decrypt(&sk, iv, 16, aad, al, e, n, et, 16, d); vh_eval(vh_mix(71000 + k * 100 + w * 2 + alg)); if (r != 1 || memcmp(d, in, n)) { snprintf(key, sizeof key, "C04:gcm-counter-wrap:%s_gcm_decrypt", alg ? "aes" : "sm4"); vh_viol(key, "\"j0_low_word\":\"%08x\",\"ret\":%d", LOW[w], r); }
				/* the streaming SM4-GCM interface at the same IVs, several chunkings: same bytes as the one-shot reference, both directions */
				if (!alg) { static const size_t CH[] = { 100, 1, 15, 16, 17, 32, 33, 64 }; for (int ci = 0; ci < 8; ci++) for (int dir = 0; dir < 2; dir++) { SM4_GCM_CTX g; static uint8_t src[400], dst[600]; size_t sn, dn = 0, ol = 0; int bad = 0;
					if (dir == 0) { memcpy(src, in, n); sn = n; r = sm4_gcm_encrypt_init(&g, KEYS[k], 16, iv, 16, aad, al, 16); } else { memcpy(src, e, n); memcpy(src + n, et, 16); sn = n + 16; r = sm4_gcm_decrypt_init(&g, KEYS[k], 16, iv, 16, aad, al, 16); }
					if (r != 1) bad = 1; for (size_t off = 0; !bad && off < sn; ) { size_t c = CH[ci] < sn - off ? CH[ci] : sn - off; ol = 0; r = dir ? sm4_gcm_decrypt_update(&g, src + off, c, dst + dn, &ol) : sm4_gcm_encrypt_update(&g, src + off, c, dst + dn, &ol); if (r != 1) bad = 1; dn += ol; off += c; }
					if (!bad) { ol = 0; r = dir ? sm4_gcm_decrypt_finish(&g, dst + dn, &ol) : sm4_gcm_encrypt_finish(&g, dst + dn, &ol); if (r != 1) bad = 1; dn += ol; } vh_eval(vh_mix(72000 + k * 1000 + w * 20 + ci * 2 + dir));
					if (dir == 0 ? (bad || dn != n + 16 || memcmp(dst, e, n) || memcmp(dst + n, et, 16)) : (bad || dn != n || memcmp(dst, in, n))) { snprintf(key, sizeof key, "C04:gcm-counter-wrap:sm4_gcm_%s-streaming", dir ? "decrypt" : "encrypt"); vh_viol(key, "\"j0_low_word\":\"%08x\",\"chunk\":%zu,\"failed\":%d,\"outlen\":%zu", LOW[w], CH[ci], bad, dn); } } } } } }
}
static void blk_gcm_main(void);
static void blk_gcm_tail(void);
static void blk_gcm(void) { blk_gcm_main(); blk_gcm_tail(); }
static void blk_gcm_main(void) {
	if (!vh_block_begin("gcm")) return;
	static const size_t AAD[] = { 0,1,2,3,4,5,6,7,8,9,10,11,12,13,14,15,16,17,18,19,20,21,22,23,24,25,26,27,28,29,30,31,32,33,4096 }, ML[] = { 0, 1, 15, 16, 17, 33, 64, 255 };
	static uint8_t o[300], e[300], d[300]; uint8_t tag[16], et[16]; char key[128];
	for (int k = 0; k < 3; k++) for (size_t ivl = 0; ivl <= 65; ivl++) for (int ai = 0; ai < 35; ai++) {
		if (!vh_next()) continue;
		if (ai > 3 && ivl != 12 && ivl != 1 && ivl != 64 && ivl != 16) continue; /* AAD grid fully crossed only with 4 IV lengths */
		SM4_KEY sk; sm4_set_encrypt_key(&sk, KEYS[k]); AES_KEY ak; aes_set_encrypt_key(&ak, KEYS[k], 16);
		for (int mi = 0; mi < 8; mi++) for (size_t tl = (mi < 3 ? 0 : 12); tl <= (mi < 3 ? 17 : 16); tl += (mi < 3 ? 1 : 4)) {
			size_t n = ML[mi], al = AAD[ai]; const uint8_t *iv = PT + 900, *aad = PT + 1000, *in = PT + 6000; int admissible = ivl >= 1 && ivl <= 64 && tl >= 12 && tl <= 16;
			memset(tag, 0, 16); int r = sm4_gcm_encrypt(&sk, iv, ivl, aad, al, in, n, o, tl, tag); size_t kk[5] = { ivl, al, n, tl, (size_t)k }; vh_eval(vh_hash(kk, sizeof kk, 1));
			if (!admissible) { if (r == 1 && (tl < 12 || tl > 16)) { snprintf(key, sizeof key, "C04:gcm:sm4_gcm_encrypt:accepts-taglen"); vh_viol(key, "\"ivlen\":%zu,\"taglen\":%zu", ivl, tl); } continue; }
			mr_gcm(SM4R[k], 1, iv, ivl, aad, al, in, n, e, et, tl);
			if (r != 1 || memcmp(o, e, n) || memcmp(tag, et, tl)) { vh_viol("C04:gcm:sm4_gcm_encrypt", "\"ivlen\":%zu,\"aadlen\":%zu,\"len\":%zu,\"taglen\":%zu,\"ret\":%d", ivl, al, n, tl, r); continue; }
			r = sm4_gcm_decrypt(&sk, iv, ivl, aad, al, e, n, et, tl, d); vh_eval(vh_hash(kk, sizeof kk, 2)); if (r != 1 || memcmp(d, in, n)) vh_viol("C04:gcm:sm4_gcm_decrypt", "\"ivlen\":%zu,\"aadlen\":%zu,\"len\":%zu,\"taglen\":%zu,\"ret\":%d", ivl, al, n, tl, r);
			/* in place: out == in */ { uint8_t t2[16]; memcpy(o, in, n); memset(t2, 0, 16); r = sm4_gcm_encrypt(&sk, iv, ivl, aad, al, o, n, o, tl, t2); vh_eval(vh_hash(kk, sizeof kk, 5)); if (r != 1 || memcmp(o, e, n) || memcmp(t2, et, tl)) vh_viol("C04:gcm:sm4_gcm_encrypt:in-place", "\"ivlen\":%zu,\"aadlen\":%zu,\"len\":%zu,\"taglen\":%zu,\"ret\":%d,\"ciphertext_same\":%d", ivl, al, n, tl, r, !memcmp(o, e, n));
				memcpy(d, e, n); r = sm4_gcm_decrypt(&sk, iv, ivl, aad, al, d, n, et, tl, d); vh_eval(vh_hash(kk, sizeof kk, 6)); if (r != 1 || memcmp(d, in, n)) vh_viol("C04:gcm:sm4_gcm_decrypt:in-place", "\"ivlen\":%zu,\"aadlen\":%zu,\"len\":%zu,\"taglen\":%zu,\"ret\":%d", ivl, al, n, tl, r); }
			/* AES-128-GCM against OpenSSL directly; this also validates mr_gcm on the same grid */
			uint8_t ot[16]; long el = ref_cipher("AES-128-GCM", 1, 0, KEYS[k], iv, ivl, aad, al, in, n, e, ot, tl); if (el != (long)n) vh_harness_error("openssl aes-gcm ivlen=%zu", ivl);
			mr_gcm(AESR[k], 1, iv, ivl, aad, al, in, n, d, et, tl); if (memcmp(d, e, n) || memcmp(et, ot, tl)) vh_harness_error("mr_gcm disagrees with OpenSSL AES-GCM ivlen=%zu aad=%zu n=%zu", ivl, al, n);
			r = aes_gcm_encrypt(&ak, iv, ivl, aad, al, in, n, o, tl, tag); vh_eval(vh_hash(kk, sizeof kk, 3)); if (r != 1 || memcmp(o, e, n) || memcmp(tag, ot, tl)) vh_viol("C04:gcm:aes_gcm_encrypt", "\"ivlen\":%zu,\"aadlen\":%zu,\"len\":%zu,\"taglen\":%zu,\"ret\":%d", ivl, al, n, tl, r);
			r = aes_gcm_decrypt(&ak, iv, ivl, aad, al, e, n, ot, tl, d); vh_eval(vh_hash(kk, sizeof kk, 4)); if (r != 1 || memcmp(d, in, n)) vh_viol("C04:gcm:aes_gcm_decrypt", "\"ivlen\":%zu,\"aadlen\":%zu,\"len\":%zu,\"taglen\":%zu,\"ret\":%d", ivl, al, n, tl, r);
			{ uint8_t t2[16]; memcpy(o, in, n); memset(t2, 0, 16); r = aes_gcm_encrypt(&ak, iv, ivl, aad, al, o, n, o, tl, t2); vh_eval(vh_hash(kk, sizeof kk, 7)); if (r != 1 || memcmp(o, e, n) || memcmp(t2, ot, tl)) vh_viol("C04:gcm:aes_gcm_encrypt:in-place", "\"ivlen\":%zu,\"aadlen\":%zu,\"len\":%zu,\"taglen\":%zu,\"ret\":%d", ivl, al, n, tl, r);
				memcpy(d, e, n); r = aes_gcm_decrypt(&ak, iv, ivl, aad, al, d, n, ot, tl, d); vh_eval(vh_hash(kk, sizeof kk, 8)); if (r != 1 || memcmp(d, in, n)) vh_viol("C04:gcm:aes_gcm_decrypt:in-place", "\"ivlen\":%zu,\"aadlen\":%zu,\"len\":%zu,\"taglen\":%zu,\"ret\":%d", ivl, al, n, tl, r); }
		}
		vh_sample("{\"block\":\"gcm\",\"key\":%d,\"ivlen\":%zu,\"aadlen\":%zu}", k, ivl, AAD[ai]);
	}
}
static void blk_gcm_tail(void) {
	blk_gcm_wrap();
	/* AES-192 / AES-256 in GCM against OpenSSL: IV lengths {1, 12, 16, 64}, AAD {0, 1, 20}, message lengths around the block size, tag lengths 12..16 */
	if (vh_block_begin("gcm-aes-192-256")) { static const size_t KL2[] = { 24, 32 }, IVL[] = { 1, 12, 16, 64 }, AADL[] = { 0, 1, 20 }, MLN[] = { 0, 1, 15, 16, 17, 33, 100 }; static const char *GN[] = { "AES-192-GCM", "AES-256-GCM" }; static uint8_t o[200], e[200], d[200];
		for (int k = 0; k < 3; k++) for (int a = 0; a < 2; a++) for (int ii = 0; ii < 4; ii++) for (int ai = 0; ai < 3; ai++) { if (!vh_next()) continue; AES_KEY ak; aes_set_encrypt_key(&ak, KEYS[k], KL2[a]);
			for (int mi = 0; mi < 7; mi++) for (size_t tl = 12; tl <= 16; tl += 2) { const uint8_t *iv = PT + 900, *aad = PT + 1000, *in = PT + 6000; size_t n = MLN[mi], al = AADL[ai], ivl = IVL[ii]; uint8_t tag[16], ot[16]; char key[128]; long el = ref_cipher(GN[a], 1, 0, KEYS[k], iv, ivl, aad, al, in, n, e, ot, tl); if (el != (long)n) vh_harness_error("openssl %s ivlen=%zu", GN[a], ivl);
				int r = aes_gcm_encrypt(&ak, iv, ivl, aad, al, in, n, o, tl, tag); size_t kk[6] = { (size_t)k, (size_t)a, ivl, al, n, tl }; vh_eval(vh_hash(kk, sizeof kk, 91)); if (r != 1 || memcmp(o, e, n) || memcmp(tag, ot, tl)) { snprintf(key, sizeof key, "C04:gcm:aes_gcm_encrypt:%s", GN[a]); vh_viol(key, "\"ivlen\":%zu,\"aadlen\":%zu,\"len\":%zu,\"taglen\":%zu,\"ret\":%d", ivl, al, n, tl, r); }
				r = aes_gcm_decrypt(&ak, iv, ivl, aad, al, e, n, ot, tl, d); vh_eval(vh_hash(kk, sizeof kk, 92)); if (r != 1 || memcmp(d, in, n)) { snprintf(key, sizeof key, "C04:gcm:aes_gcm_decrypt:%s", GN[a]); vh_viol(key, "\"ivlen\":%zu,\"aadlen\":%zu,\"len\":%zu,\"taglen\":%zu,\"ret\":%d", ivl, al, n, tl, r); } }
			vh_sample("{\"block\":\"gcm-aes-192-256\",\"key\":%d,\"cipher\":\"%s\",\"ivlen\":%zu,\"aadlen\":%zu}", k, GN[a], IVL[ii], AADL[ai]); } }
	/* ghash / gf128 primitives */
	if (!vh_block_begin("ghash")) return;
	for (size_t al = 0; al <= 40; al++) for (size_t cl = 0; cl <= 40; cl++) { if (!vh_next()) continue; uint8_t g[16], r[16]; ghash(KEYS[2], PT + 3, al, PT + 77, cl, g); mr_ghash(KEYS[2], PT + 3, al, PT + 77, cl, r); vh_eval(vh_hash(&al, 8, cl + 50)); if (memcmp(g, r, 16)) vh_viol("C04:ghash", "\"aadlen\":%zu,\"clen\":%zu", al, cl);
		for (size_t c = 0; c <= cl; c++) { GHASH_CTX gc; ghash_init(&gc, KEYS[2], PT + 3, al); ghash_update(&gc, PT + 77, c); ghash_update(&gc, PT + 77 + c, cl - c); ghash_finish(&gc, g); vh_eval(vh_hash(&c, 8, al * 100 + cl + 9000)); if (memcmp(g, r, 16)) vh_viol("C04:ghash:stream", "\"aadlen\":%zu,\"clen\":%zu,\"cut\":%zu", al, cl, c); } }
}
static void blk_ccm(void) {
	if (!vh_block_begin("ccm")) return;
	static const size_t AAD[] = { 0, 1, 13, 14, 15, 16, 17, 30, 0xfeff, 0xff00, 0xff01 }, ML[] = { 0, 1, 15, 16, 17, 33, 255, 256, 257, 65535, 65536, 65537 };
	static uint8_t o[66000], e[66000], d[66000], aadbuf[0xff10]; uint8_t tag[16], et[16]; for (size_t i = 0; i < sizeof aadbuf; i++) aadbuf[i] = (uint8_t)(i * 5 + 1);
	for (int k = 0; k < 3; k++) for (size_t nl = 6; nl <= 14; nl++) for (size_t tl = 2; tl <= 18; tl++) for (int ai = 0; ai < 11; ai++) for (int mi = 0; mi < 12; mi++) {
		if (!vh_next()) continue;
		size_t al = AAD[ai], n = ML[mi]; if (!vh_thorough && k != 2 && (mi > 6 || ai > 7)) continue; if (mi > 8 && (tl != 16 || ai > 1)) continue; if (al > 100 && (tl != 8 || mi > 2)) continue;
		SM4_KEY sk; sm4_set_encrypt_key(&sk, KEYS[k]); const uint8_t *nonce = PT + 2000, *in = PT + 3000; size_t kk[5] = { nl, tl, al, n, (size_t)k };
		int adm = nl >= 7 && nl <= 13 && tl >= 4 && tl <= 16 && !(tl & 1); size_t q = 15 - nl; if (adm && q < 8 && n >= ((uint64_t)1 << (8 * q))) adm = 0;
		int r = sm4_ccm_encrypt(&sk, nonce, nl, aadbuf, al, in, n, o, tl, tag); vh_eval(vh_hash(kk, sizeof kk, 11));
		if (!adm) { if (r == 1) vh_viol("C04:ccm:sm4_ccm_encrypt:accepts-inadmissible", "\"noncelen\":%zu,\"taglen\":%zu,\"len\":%zu", nl, tl, n); continue; }
		mr_ccm(SM4R[k], 1, nonce, nl, aadbuf, al, in, n, e, et, tl);
		if (n <= 300 && al <= 0xff01) { /* validate the reference itself on AES against OpenSSL for this shape */
			uint8_t ot[16], rt[16]; long el = ref_cipher("AES-128-CCM", 1, 0, KEYS[k], nonce, nl, aadbuf, al, in, n, d, ot, tl); if (el != (long)n) vh_harness_error("openssl aes-ccm n=%zu nl=%zu tl=%zu", n, nl, tl);
			static uint8_t r2[400]; mr_ccm(AESR[k], 1, nonce, nl, aadbuf, al, in, n, r2, rt, tl); if (memcmp(r2, d, n) || memcmp(rt, ot, tl)) vh_harness_error("mr_ccm disagrees with OpenSSL AES-CCM nl=%zu tl=%zu al=%zu n=%zu", nl, tl, al, n); }
		char key[160];
		if (r != 1 || memcmp(o, e, n)) { vh_viol("C04:ccm:sm4_ccm_encrypt:ciphertext", "\"noncelen\":%zu,\"taglen\":%zu,\"aadlen\":%zu,\"len\":%zu,\"ret\":%d", nl, tl, al, n, r); continue; }
		if (memcmp(tag, et, tl)) { snprintf(key, sizeof key, "C04:ccm:sm4_ccm_encrypt:tag:aad-hdr+aad-mod16=%zu", ((al < 0xff00 ? 2 : 6) + al) % 16); vh_viol(key, "\"noncelen\":%zu,\"taglen\":%zu,\"aadlen\":%zu,\"len\":%zu,\"got\":\"%s\",\"exp\":\"%s\"", nl, tl, al, n, vh_hex(tag, tl), vh_hex(et, tl)); }
		/* decrypt what the reference produced (an independent implementation's ciphertext) */
		r = sm4_ccm_decrypt(&sk, nonce, nl, aadbuf, al, e, n, et, tl, d); vh_eval(vh_hash(kk, sizeof kk, 12));
		if (r != 1 || memcmp(d, in, n)) { if (memcmp(tag, et, tl) == 0) { snprintf(key, sizeof key, "C04:ccm:sm4_ccm_decrypt:refuses-valid:noncelen=%zu:%s", nl, n == 0 ? "empty" : n < 256 ? "len<2^8" : n < 65536 ? "len<2^16" : "len>=2^16"); vh_viol(key, "\"noncelen\":%zu,\"taglen\":%zu,\"aadlen\":%zu,\"len\":%zu,\"ret\":%d", nl, tl, al, n, r); } }
		/* own round trip */
		r = sm4_ccm_decrypt(&sk, nonce, nl, aadbuf, al, o, n, tag, tl, d); vh_eval(vh_hash(kk, sizeof kk, 13));
		if (r != 1 || memcmp(d, in, n)) { snprintf(key, sizeof key, "C04:ccm:roundtrip:noncelen=%zu:%s", nl, n == 0 ? "empty" : n < 256 ? "len<2^8" : n < 65536 ? "len<2^16" : "len>=2^16"); vh_viol(key, "\"noncelen\":%zu,\"taglen\":%zu,\"aadlen\":%zu,\"len\":%zu,\"ret\":%d", nl, tl, al, n, r); }
		/* in place: out == in, both directions */
		{ uint8_t t2[16]; memset(t2, 0, 16); memcpy(o, in, n); r = sm4_ccm_encrypt(&sk, nonce, nl, aadbuf, al, o, n, o, tl, t2); vh_eval(vh_hash(kk, sizeof kk, 14)); if (r != 1 || memcmp(o, e, n) || memcmp(t2, et, tl)) vh_viol("C04:ccm:sm4_ccm_encrypt:in-place", "\"noncelen\":%zu,\"taglen\":%zu,\"aadlen\":%zu,\"len\":%zu,\"ret\":%d,\"ciphertext_same\":%d,\"tag_same\":%d", nl, tl, al, n, r, !memcmp(o, e, n), !memcmp(t2, et, tl));
		  memcpy(d, e, n); r = sm4_ccm_decrypt(&sk, nonce, nl, aadbuf, al, d, n, et, tl, d); vh_eval(vh_hash(kk, sizeof kk, 15)); if (r != 1 || memcmp(d, in, n)) vh_viol("C04:ccm:sm4_ccm_decrypt:in-place", "\"noncelen\":%zu,\"taglen\":%zu,\"aadlen\":%zu,\"len\":%zu,\"ret\":%d", nl, tl, al, n, r); }
		vh_sample("{\"block\":\"ccm\",\"noncelen\":%zu,\"taglen\":%zu,\"aadlen\":%zu,\"len\":%zu}", nl, tl, al, n);
	}
}
/* ------------------------------------------------------------------ ChaCha20 and ZUC */
static void blk_chacha(void) {
	if (!vh_block_begin("chacha20")) return;
	static const uint32_t CN[] = { 0, 1, 0x7fffffff, 0xfffffffe, 0xffffffff };
	for (int k = 0; k < 3; k++) for (int c = 0; c < 5; c++) for (size_t nb = 0; nb <= 5; nb++) {
		if (!vh_next()) continue;
		CHACHA20_STATE st; uint8_t ks[64 * 6], e[64 * 6], z[64 * 6] = {0}, iv[16]; chacha20_init(&st, KEYS[k], IVS[k], CN[c]); chacha20_generate_keystream(&st, nb, ks);
		if (c == 4 && nb > 1) continue; /* behaviour after the 32-bit block counter wraps is implementation-defined (RFC 8439 2.3 limits the counter) */
		if (c == 3 && nb > 2) continue;
		iv[0] = (uint8_t)CN[c]; iv[1] = (uint8_t)(CN[c] >> 8); iv[2] = (uint8_t)(CN[c] >> 16); iv[3] = (uint8_t)(CN[c] >> 24); memcpy(iv + 4, IVS[k], 12);
		ref_cipher("ChaCha20", 1, 0, KEYS[k], iv, 16, NULL, 0, z, 64 * nb, e, NULL, 0); size_t kk[3] = { (size_t)k, (size_t)c, nb }; vh_eval(vh_hash(kk, sizeof kk, 77));
		if (memcmp(ks, e, 64 * nb)) vh_viol("C04:chacha20", "\"key\":%d,\"counter\":%u,\"blocks\":%zu", k, CN[c], nb);
	}
}
static uint32_t zbit32(const uint32_t *z, size_t i) { /* 32-bit word starting at bit i of the keystream */
	size_t w = i / 32, s = i % 32; return s ? (z[w] << s) | (z[w + 1] >> (32 - s)) : z[w]; }
static void blk_zuc(void) {
	if (!vh_block_begin("zuc")) return;
	/* known answers (ZUC-128 specification test sets 1-3, also quoted in the repository's own test) */
	static const struct { uint8_t k, iv; uint32_t z1, z2; } KAT[] = { { 0x00, 0x00, 0x27bede74, 0x018082da }, { 0xff, 0xff, 0x0657cfa0, 0x7096398b } };
	for (int i = 0; i < 2; i++) { if (!vh_next()) continue; uint8_t key[16], iv[16]; memset(key, KAT[i].k, 16); memset(iv, KAT[i].iv, 16); ZUC_STATE st; zuc_init(&st, key, iv); uint32_t z[2]; zuc_generate_keystream(&st, 2, z); vh_eval(i + 1);
		if (z[0] != KAT[i].z1 || z[1] != KAT[i].z2) vh_viol("C04:zuc:kat", "\"set\":%d,\"z1\":\"%08x\",\"z2\":\"%08x\"", i + 1, z[0], z[1]); }
	{ if (vh_next()) { static const uint8_t key[16] = { 0x3d,0x4c,0x4b,0xe9,0x6a,0x82,0xfd,0xae,0xb5,0x8f,0x64,0x1d,0xb1,0x7b,0x45,0x5b }, iv[16] = { 0x84,0x31,0x9a,0xa8,0xde,0x69,0x15,0xca,0x1f,0x6b,0xda,0x6b,0xfb,0xd8,0xc7,0x66 };
		ZUC_STATE st; zuc_init(&st, key, iv); uint32_t z[2]; zuc_generate_keystream(&st, 2, z); vh_eval(3); if (z[0] != 0x14f1c272 || z[1] != 0x3279c419) vh_viol("C04:zuc:kat", "\"set\":3,\"z1\":\"%08x\",\"z2\":\"%08x\"", z[0], z[1]); } }
	/* specification test set 4 with the 2000th word: the only published known answer far into the keystream */
	if (vh_next()) { static const uint8_t key[16] = { 0x4d,0x32,0x0b,0xfa,0xd4,0xc2,0x85,0xbf,0xd6,0xb8,0xbd,0x00,0xf3,0x9d,0x8b,0x41 }, iv[16] = { 0x52,0x95,0x9d,0xab,0xa0,0xbf,0x17,0x6e,0xce,0x2d,0xc3,0x15,0x04,0x9e,0xb5,0x74 };
		ZUC_STATE a, b, c; zuc_init(&a, key, iv); zuc_init(&b, key, iv); zuc_init(&c, key, iv); static uint32_t ks[2000]; zuc_generate_keystream(&a, 2000, ks); uint32_t w = 0, w1 = 0, w2 = 0; for (int i = 1; i <= 2000; i++) { w = zuc_generate_keyword(&b); if (i == 1) w1 = w; if (i == 2) w2 = w; } static uint8_t zero[8000], out[8000]; zuc_encrypt(&c, zero, 8000, out); uint32_t e2000 = ((uint32_t)out[7996] << 24) | (out[7997] << 16) | (out[7998] << 8) | out[7999];
		vh_eval(4); if (w1 != 0xed4400e7 || w2 != 0x0633e5c5 || w != 0x7a574cdb || ks[0] != 0xed4400e7 || ks[1999] != 0x7a574cdb || e2000 != 0x7a574cdb) vh_viol("C04:zuc:kat", "\"set\":4,\"z1\":\"%08x\",\"z2000_keyword\":\"%08x\",\"z2000_keystream\":\"%08x\",\"z2000_encrypt\":\"%08x\"", w1, w, ks[1999], e2000); }
	/* long runs: the three keystream routes (word by word, bulk, byte encryptor one-shot and streaming in odd chunks) must agree over 2^16 words
	   (a lost reduction in one copy of the LFSR step shows about once per 1300 words) */
	for (int k = 0; k < 3; k++) { if (!vh_next()) continue; enum { NW = 65536 }; static uint32_t wa[NW], wb[NW]; static uint8_t zb[4 * NW], ob[4 * NW], sb[4 * NW + 64]; ZUC_STATE a, b, c; zuc_init(&a, KEYS[k], IVS[k]); zuc_init(&b, KEYS[k], IVS[k]); zuc_init(&c, KEYS[k], IVS[k]);
		zuc_generate_keystream(&a, NW, wa); for (size_t i = 0; i < NW; i++) wb[i] = zuc_generate_keyword(&b); memset(zb, 0, sizeof zb); zuc_encrypt(&c, zb, sizeof zb, ob); vh_eval(vh_mix(9100 + k));
		size_t bad1 = NW, bad2 = NW; for (size_t i = 0; i < NW; i++) { if (wa[i] != wb[i] && bad1 == NW) bad1 = i; uint32_t e = ((uint32_t)ob[4 * i] << 24) | (ob[4 * i + 1] << 16) | (ob[4 * i + 2] << 8) | ob[4 * i + 3]; if (e != wb[i] && bad2 == NW) bad2 = i; }
		if (bad1 != NW) vh_viol("C04:zuc:long-run:keystream-vs-keyword", "\"key\":%d,\"first_bad_word\":%zu", k, bad1); if (bad2 != NW) vh_viol("C04:zuc:long-run:encrypt-vs-keyword", "\"key\":%d,\"first_bad_word\":%zu", k, bad2);
		ZUC_CTX zc; zuc_encrypt_init(&zc, KEYS[k], IVS[k]); size_t pos = 0, op = 0, ol = 0; static const size_t CH[] = { 1, 3, 4, 5, 63, 64, 65, 1000, 4099 }; int ci = 0; int okc = 1; while (pos < sizeof zb) { size_t n = CH[ci++ % 9]; if (n > sizeof zb - pos) n = sizeof zb - pos; if (zuc_encrypt_update(&zc, zb + pos, n, sb + op, &ol) != 1) { okc = 0; break; } op += ol; pos += n; } if (okc && zuc_encrypt_finish(&zc, sb + op, &ol) == 1) op += ol; else okc = 0;
		if (!okc || op != sizeof zb || memcmp(sb, ob, sizeof zb)) { size_t fb = 0; while (fb < sizeof zb && sb[fb] == ob[fb]) fb++; vh_viol("C04:zuc:long-run:streaming-vs-oneshot", "\"key\":%d,\"ok\":%d,\"outlen\":%zu,\"first_bad_byte\":%zu", k, okc, op, fb); }
		ZUC256_STATE d, e; uint8_t k256[32], iv256[23]; memcpy(k256, KEYS[k], 32); memcpy(iv256, PT + 40 + k, 23); for (int i = 17; i < 23; i++) iv256[i] &= 0x3f; zuc256_init(&d, k256, iv256); zuc256_init(&e, k256, iv256); zuc256_generate_keystream(&d, NW, wa); for (size_t i = 0; i < NW; i++) wb[i] = zuc256_generate_keyword(&e); size_t bad3 = NW; for (size_t i = 0; i < NW; i++) if (wa[i] != wb[i]) { bad3 = i; break; } if (bad3 != NW) vh_viol("C04:zuc256:long-run:keystream-vs-keyword", "\"key\":%d,\"first_bad_word\":%zu", k, bad3); }
	/* structure: keystream(n) == n x keyword; zuc_encrypt == xor with big-endian keystream for every length; EEA3/EIA3 framing from the bit-level definition */
	for (int k = 0; k < 3; k++) for (size_t nw = 0; nw <= 40; nw++) {
		if (!vh_next()) continue;
		ZUC_STATE a, b; uint32_t wa[48], wb[48]; zuc_init(&a, KEYS[k], IVS[k]); zuc_init(&b, KEYS[k], IVS[k]); zuc_generate_keystream(&a, nw, wa); for (size_t i = 0; i < nw; i++) wb[i] = zuc_generate_keyword(&b);
		vh_eval(vh_hash(&nw, 8, k + 31)); if (memcmp(wa, wb, 4 * nw)) vh_viol("C04:zuc:keystream-vs-keyword", "\"nwords\":%zu", nw);
		/* continuing after a batch must equal one long batch */
		zuc_generate_keystream(&a, 3, wa + nw); for (int i = 0; i < 3; i++) wb[nw + i] = zuc_generate_keyword(&b); vh_eval(vh_hash(&nw, 8, k + 41)); if (memcmp(wa, wb, 4 * (nw + 3))) vh_viol("C04:zuc:keystream-continuation", "\"nwords\":%zu", nw);
		ZUC256_STATE c, d; uint8_t k256[32], iv256[23]; memcpy(k256, KEYS[k], 32); memcpy(iv256, PT + 40 + k, 23); for (int i = 17; i < 23; i++) iv256[i] &= 0x3f; zuc256_init(&c, k256, iv256); zuc256_init(&d, k256, iv256); zuc256_generate_keystream(&c, nw, wa); for (size_t i = 0; i < nw; i++) wb[i] = zuc256_generate_keyword(&d);
		vh_eval(vh_hash(&nw, 8, k + 51)); if (memcmp(wa, wb, 4 * nw)) vh_viol("C04:zuc256:keystream-vs-keyword", "\"nwords\":%zu", nw);
	}
	for (int k = 0; k < 3; k++) for (size_t nbits = 1; nbits <= 300; nbits++) {
		if (!vh_next()) continue;
		if (nbits > 70 && (nbits % 8) > 1 && (nbits % 8) < 7) continue;
		uint32_t count = 0x66035492u + k, bearer = 0xf & (k * 5 + 3), dir = k & 1; size_t nw = (nbits + 31) / 32; uint32_t in[16], out[16], z[16 + 3], exp[16];
		for (size_t i = 0; i < 16; i++) in[i] = 0x9e3779b9u * (uint32_t)(i + 1 + k);
		uint8_t iv[16] = {0}; iv[0] = iv[8] = (uint8_t)(count >> 24); iv[1] = iv[9] = (uint8_t)(count >> 16); iv[2] = iv[10] = (uint8_t)(count >> 8); iv[3] = iv[11] = (uint8_t)count; iv[4] = iv[12] = (uint8_t)(((bearer << 1) | dir) << 2);
		ZUC_STATE st; zuc_init(&st, KEYS[k], iv); for (size_t i = 0; i < nw; i++) z[i] = zuc_generate_keyword(&st);
		for (size_t i = 0; i < nw; i++) exp[i] = in[i] ^ z[i]; if (nbits % 32) exp[nw - 1] &= 0xffffffffu << (32 - nbits % 32);
		memset(out, 0xee, sizeof out); zuc_eea_encrypt(in, out, nbits, KEYS[k], count, bearer, dir); vh_eval(vh_hash(&nbits, 8, k + 61));
		if (memcmp(out, exp, 4 * nw) || out[nw] != 0xeeeeeeee) vh_viol("C04:zuc:eea3", "\"nbits\":%zu,\"key\":%d", nbits, k);
		/* EIA3 (128-EIA3 v1.5+): IV per spec; T = xor of z[i..i+31] for set message bits, ^ z[LENGTH..], ^ z[32(L-1)] with L = ceil(LENGTH/32)+2 */
		uint8_t iv2[16] = {0}; iv2[0] = (uint8_t)(count >> 24); iv2[1] = iv2[9] = (uint8_t)(count >> 16); iv2[2] = iv2[10] = (uint8_t)(count >> 8); iv2[3] = iv2[11] = (uint8_t)count; iv2[4] = iv2[12] = (uint8_t)(bearer << 3); iv2[8] = iv2[0] ^ (uint8_t)(dir << 7); iv2[14] = (uint8_t)(dir << 7);
		size_t L = (nbits + 31) / 32 + 2; zuc_init(&st, KEYS[k], iv2); uint32_t zz[16 + 3]; for (size_t i = 0; i < L; i++) zz[i] = zuc_generate_keyword(&st); zz[L] = 0;
		/* the interface takes the message as a byte string (most significant bit of byte 0 first), typed ZUC_UINT32* */
		const uint8_t *mb = (const uint8_t *)in;
		uint32_t T = 0; for (size_t i = 0; i < nbits; i++) if ((mb[i / 8] >> (7 - i % 8)) & 1) T ^= zbit32(zz, i); T ^= zbit32(zz, nbits); T ^= zz[L - 1];
		uint32_t got = zuc_eia_generate_mac(in, nbits, KEYS[k], count, bearer, dir); vh_eval(vh_hash(&nbits, 8, k + 71));
		if (got != T) vh_viol("C04:zuc:eia3", "\"nbits\":%zu,\"key\":%d,\"got\":\"%08x\",\"exp\":\"%08x\"", nbits, k, got, T);
		/* zuc_mac_*: bytes through update in every 2-cut (whole bytes), remaining bits through finish */
		if (nbits <= 200) { uint8_t msg[64]; memcpy(msg, in, 64);
			size_t nby = nbits / 8, rb = nbits % 8; for (size_t c = 0; c <= nby; c++) { ZUC_MAC_CTX mc; uint8_t mac[4]; zuc_mac_init(&mc, KEYS[k], iv2); if (c) zuc_mac_update(&mc, msg, c); if (nby - c) zuc_mac_update(&mc, msg + c, nby - c); zuc_mac_finish(&mc, msg + nby, rb, mac);
				uint32_t g = ((uint32_t)mac[0] << 24) | (mac[1] << 16) | (mac[2] << 8) | mac[3]; vh_eval(vh_hash(&c, 8, nbits * 8 + k + 81)); if (g != T) { vh_viol("C04:zuc:mac-stream", "\"nbits\":%zu,\"cut\":%zu,\"got\":\"%08x\",\"exp\":\"%08x\"", nbits, c, g, T); break; } } }
	}
	/* ZUC-256 MAC, tags of 32 / 64 / 128 bits, every bit length 0..300: tag = z[0..t) ^ XOR over set message bits i of the t-bit keystream window at
	   bit t+i ^ the window at t+nbits (keystream continued from the MAC context's own state). One-shot finish(msg, nbits), every whole-octet cut
	   update(msg, c) + finish(msg + c, nbits - 8c) - i.e. finish is also handed more than 8 bits at an odd length - and update(all octets) + finish(rest). */
	for (int k = 0; k < 3; k++) for (int mb = 0; mb < 3; mb++) for (size_t nbits = 0; nbits <= 300; nbits++) {
		if (!vh_next()) continue; if (!vh_thorough && nbits > 80 && (nbits % 8) > 1 && (nbits % 8) < 7 && (nbits % 32) != 9) continue;
		static const int MB[3] = { 32, 64, 128 }; int t = MB[mb]; size_t n = t / 32; uint8_t k256[32], iv256[23], msg[48]; memcpy(k256, KEYS[k], 16); memcpy(k256 + 16, KEYS[(k + 1) % 3], 16); memcpy(iv256, PT + 60 + k, 23); for (int i = 17; i < 23; i++) iv256[i] &= 0x3f; for (int i = 0; i < 48; i++) msg[i] = (uint8_t)(0x9e * (i + 1) + 0x37 * k + (i >> 2));
		ZUC256_MAC_CTX mc; zuc256_mac_init(&mc, k256, iv256, t); uint32_t z[2 * 4 + 12 + 6]; memcpy(z, mc.T, 4 * n); memcpy(z + n, mc.K0, 4 * n); { ZUC256_STATE st; memcpy(&st, &mc, sizeof st); size_t more = (nbits + 31) / 32 + n + 1; for (size_t i = 0; i < more; i++) z[2 * n + i] = zuc256_generate_keyword(&st); }
		uint32_t T[4]; for (size_t j = 0; j < n; j++) T[j] = z[j]; for (size_t i = 0; i <= nbits; i++) { if (i < nbits && !((msg[i / 8] >> (7 - i % 8)) & 1)) continue; for (size_t j = 0; j < n; j++) T[j] ^= zbit32(z, (size_t)t + i + 32 * j); }
		uint8_t exp[16], got[16]; for (size_t j = 0; j < n; j++) { exp[4 * j] = (uint8_t)(T[j] >> 24); exp[4 * j + 1] = (uint8_t)(T[j] >> 16); exp[4 * j + 2] = (uint8_t)(T[j] >> 8); exp[4 * j + 3] = (uint8_t)T[j]; }
		size_t nby = nbits / 8; for (size_t c = 0; c <= nby + 1; c++) { zuc256_mac_init(&mc, k256, iv256, t); if (c <= nby) { if (c) zuc256_mac_update(&mc, msg, c); zuc256_mac_finish(&mc, msg + c, nbits - 8 * c, got); } else { /* two updates, then only the odd bits */ if (nby) { zuc256_mac_update(&mc, msg, nby / 2); zuc256_mac_update(&mc, msg + nby / 2, nby - nby / 2); } zuc256_mac_finish(&mc, msg + nby, nbits % 8, got); }
			size_t kk[4] = { (size_t)k, (size_t)t, nbits, c }; vh_eval(vh_hash(kk, sizeof kk, 97)); if (memcmp(got, exp, (size_t)t / 8)) { char key[96]; snprintf(key, sizeof key, "C04:zuc256-mac%d:%s", t, c == 0 ? "one-shot-finish" : c <= nby ? "update+finish-with-whole-octets" : "stream"); vh_viol(key, "\"nbits\":%zu,\"octets_through_update\":%zu,\"got\":\"%s\",\"exp\":\"%s\"", nbits, c <= nby ? c : nby, vh_hex(got, (size_t)t / 8), vh_hex(exp, (size_t)t / 8)); break; } } }
	/* zuc_encrypt for every length 0..70 against the keyword stream */
	for (int k = 0; k < 3; k++) for (size_t n = 0; n <= 70; n++) { if (!vh_next()) continue; ZUC_STATE a, b; uint8_t o[80], e[80]; zuc_init(&a, KEYS[k], IVS[k]); zuc_init(&b, KEYS[k], IVS[k]); memset(o, 0xee, sizeof o); zuc_encrypt(&a, PT + 9, n, o);
		for (size_t i = 0; i < n; i += 4) { uint32_t w = zuc_generate_keyword(&b); for (size_t j = 0; j < 4 && i + j < n; j++) e[i + j] = PT[9 + i + j] ^ (uint8_t)(w >> (24 - 8 * j)); }
		vh_eval(vh_hash(&n, 8, k + 91)); if (memcmp(o, e, n) || o[n] != 0xee) vh_viol("C04:zuc:encrypt", "\"len\":%zu", n); }
}
/* validate the generic references on AES against OpenSSL's own modes (harness error on disagreement) */
static void blk_selftest(void) {
	static uint8_t a[1200], b[1200];
	for (int k = 0; k < 3; k++) for (size_t n = 0; n <= 100; n++) {
		long el = ref_cipher("AES-128-CBC", 1, 1, KEYS[k], IVS[k], 16, NULL, 0, PT, n, a, NULL, 0); if (mr_cbc_pad(AESR[k], 1, IVS[k], PT, n, b) != el || memcmp(a, b, el)) vh_harness_error("mr_cbc_pad");
		if (mr_cbc_pad(AESR[k], 0, IVS[k], a, el, b) != (long)n || memcmp(b, PT, n)) vh_harness_error("mr_cbc_pad dec");
		ref_cipher("AES-128-OFB", 1, 0, KEYS[k], IVS[k], 16, NULL, 0, PT, n, a, NULL, 0); mr_ofb(AESR[k], IVS[k], PT, n, b); if (memcmp(a, b, n)) vh_harness_error("mr_ofb");
		ref_cipher("AES-128-CFB", 1, 0, KEYS[k], IVS[k], 16, NULL, 0, PT, n, a, NULL, 0); mr_cfb(AESR[k], 1, 16, IVS[k], PT, n, b); if (memcmp(a, b, n)) vh_harness_error("mr_cfb128");
		ref_cipher("AES-128-CFB8", 1, 0, KEYS[k], IVS[k], 16, NULL, 0, PT, n, a, NULL, 0); mr_cfb(AESR[k], 1, 1, IVS[k], PT, n, b); if (memcmp(a, b, n)) vh_harness_error("mr_cfb8");
		mr_cfb(AESR[k], 0, 1, IVS[k], a, n, b); if (memcmp(b, PT, n)) vh_harness_error("mr_cfb8 dec");
		if (n >= 16) { uint8_t k2[32]; memcpy(k2, KEYS[k], 16); memcpy(k2 + 16, KEYS[(k + 1) % 3], 16); if (k == 0) k2[16] = 1; mr_blk *x1 = mr_blk_new("AES-128-ECB", k2), *x2 = mr_blk_new("AES-128-ECB", k2 + 16);
			if (ref_cipher("AES-128-XTS", 1, 0, k2, IVS[k], 16, NULL, 0, PT, n, a, NULL, 0) != (long)n) vh_harness_error("openssl xts"); mr_xts(x1, x2, 1, 0, IVS[k], PT, n, b); if (memcmp(a, b, n)) vh_harness_error("mr_xts enc n=%zu", n);
			mr_xts(x1, x2, 0, 0, IVS[k], a, n, b); if (memcmp(b, PT, n)) vh_harness_error("mr_xts dec n=%zu", n); mr_blk_free(x1); mr_blk_free(x2); }
	}
}
static void body(void) {
	blk_block(); blk_oneshot(); blk_gcm(); blk_ccm(); blk_chacha(); blk_zuc(); blk_streams();
}
int main(int argc, char **argv) {
	vh_init(argc, argv); fill();
	for (int k = 0; k < 3; k++) { SM4R[k] = mr_blk_new("SM4-ECB", KEYS[k]); SM4R2[k] = mr_blk_new("SM4-ECB", KEYS[k] + 16); AESR[k] = mr_blk_new("AES-128-ECB", KEYS[k]); if (!SM4R[k] || !AESR[k]) vh_harness_error("openssl lacks SM4/AES ECB"); }
	if (vh_shard == 0 || vh_replay_block) blk_selftest();
	vh_guarded("C04", body, 30);
	return vh_finish();
}
