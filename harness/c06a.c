/* C06 (part a) — no memory-safety violation on arbitrary untrusted input: decoding / verifying / printing interfaces.
 * Seeds are objects built by the library itself; the complete <=1-deviation neighbourhood (byte substitutions from a boundary
 * alphabet at every offset, every truncation, structure-aware length-field rewrites found by the harness DER walker, algebraic
 * boundary substitutions of 32-byte fields) is fed, in exact-size heap blocks, to every consumer of that object type.
 * Oracle: no sanitizer report, no abort, no hang (guarded child), outputs within declared capacities. */
#include <stdio.h>
#include <gmssl/x509.h>
#include <gmssl/x509_req.h>
#include <gmssl/x509_crl.h>
#include <gmssl/cms.h>
#include <gmssl/pkcs8.h>
#include <gmssl/pem.h>
#include <gmssl/sm9.h>
#include <gmssl/http.h>
#include <gmssl/tls.h>
#include <gmssl/sm4.h>
#include <gmssl/sm3.h>
#include <gmssl/base64.h>
#include <gmssl/hex.h>
#include "vh.h"
#include "creds.h"

static FILE *NUL;
typedef void (*cons_f)(const uint8_t *p, size_t n);
typedef struct { const char *name; uint8_t *d; size_t n; cons_f c; int der; } seed_t;
static seed_t SEEDS[96]; static int NSEEDS;
static void add_seed(const char *name, const uint8_t *d, size_t n, cons_f c, int der) { SEEDS[NSEEDS].name = name; SEEDS[NSEEDS].d = (uint8_t *)malloc(n + 1); memcpy(SEEDS[NSEEDS].d, d, n); SEEDS[NSEEDS].n = n; SEEDS[NSEEDS].c = c; SEEDS[NSEEDS].der = der; NSEEDS++; }
static uint8_t ROOTC[1024]; static size_t ROOTL; static SM9_SIGN_MASTER_KEY S9M; static SM9_SIGN_KEY S9K; static SM9_ENC_MASTER_KEY E9M; static SM9_ENC_KEY E9K;
static uint8_t OUTB[70000];

/* environment cut: PBKDF2 cost. The iteration count of an encrypted key file is attacker-chosen and unbounded by PKCS#5 (cost, not memory
 * safety), and the library's own writers use 65536. Inside this driver every derivation - when the seeds are written and when mutants are
 * read - runs min(count, 64) iterations: writer and reader stay consistent (files still open, the decrypted inner structure is reached),
 * a mutated count costs nothing, and thousands of mutants per encrypted seed become affordable. */
int __real_sm3_pbkdf2(const char *pass, size_t passlen, const uint8_t *salt, size_t saltlen, size_t count, size_t outlen, uint8_t *out);
int __wrap_sm3_pbkdf2(const char *pass, size_t passlen, const uint8_t *salt, size_t saltlen, size_t count, size_t outlen, uint8_t *out) { return __real_sm3_pbkdf2(pass, passlen, salt, saltlen, count > 64 ? 64 : count, outlen, out); }
/* ---------------- consumers ---------------- */
static void c_cert(const uint8_t *p, size_t n) { x509_cert_print(NUL, 0, 0, "c", p, n); int v, a1, a2; const uint8_t *sn, *is, *su, *iu, *suu, *ex, *sg; size_t snl, isl, sul, iul, suul, exl, sgl; time_t nb, na; SM2_KEY k;
	x509_cert_get_details(p, n, &v, &sn, &snl, &a1, &is, &isl, &nb, &na, &su, &sul, &k, &iu, &iul, &suu, &suul, &ex, &exl, &a2, &sg, &sgl); int pl; x509_cert_check(p, n, X509_cert_ca, &pl); x509_cert_check(p, n, X509_cert_server_auth, &pl);
	x509_cert_verify_by_ca_cert(p, n, ROOTC, ROOTL, SM2_DEFAULT_ID, 16); int vr; x509_certs_verify(p, n, X509_cert_chain_server, ROOTC, ROOTL, 4, &vr); x509_certs_verify_tlcp(p, n, X509_cert_chain_server, ROOTC, ROOTL, 4, &vr); x509_certs_print(NUL, 0, 0, "cs", p, n);
	const uint8_t *cp = p; size_t l = n; const uint8_t *c; size_t cl; x509_cert_from_der(&c, &cl, &cp, &l); }
static void c_crl(const uint8_t *p, size_t n) { x509_crl_print(NUL, 0, 0, "l", p, n); int v, a1, a2; const uint8_t *is, *rv, *ex, *sg; size_t isl, rvl, exl, sgl; time_t t1, t2; x509_crl_get_details(p, n, &v, &a1, &is, &isl, &t1, &t2, &rv, &rvl, &ex, &exl, &a2, &sg, &sgl); x509_crl_check(p, n, VENV_NOW);
	uint8_t sn[2] = { 1, 2 }; time_t d; const uint8_t *ee; size_t eel; x509_crl_find_revoked_cert_by_serial_number(p, n, sn, 2, &d, &ee, &eel); x509_crl_verify_by_ca_cert(p, n, ROOTC, ROOTL, SM2_DEFAULT_ID, 16); }
static void c_req(const uint8_t *p, size_t n) { x509_req_print(NUL, 0, 0, "r", p, n); int v, a; const uint8_t *s, *at, *sg; size_t sl, atl, sgl; SM2_KEY k; x509_req_get_details(p, n, &v, &s, &sl, &k, &at, &atl, &a, &sg, &sgl); x509_req_verify(p, n, SM2_DEFAULT_ID, 16); }
static void c_cms(const uint8_t *p, size_t n) { cms_print(NUL, 0, 0, "m", p, n); int ct; const uint8_t *c, *certs, *crls, *sis; size_t cl, certl, crll, sil; cms_verify(p, n, NULL, 0, NULL, 0, &ct, &c, &cl, &certs, &certl, &crls, &crll, &sis, &sil);
	size_t ol = 0; const uint8_t *ri, *s1, *s2; size_t ril, s1l, s2l; if (n < 60000) { cms_deenvelop(p, n, &CK[2], ROOTC, ROOTL, &ct, OUTB, &ol, &ri, &ril, &s1, &s1l, &s2, &s2l); int alg; uint8_t key[16] = { 1, 2, 3, 4, 5, 6, 7, 8, 9, 10, 11, 12, 13, 14, 15, 16 }; cms_decrypt(p, n, &alg, key, 16, &ct, OUTB, &ol, &s1, &s1l, &s2, &s2l);
		const uint8_t *si2, *sc, *scr; size_t si2l, scl, scrl; cms_deenvelop_and_verify(p, n, &CK[2], ROOTC, ROOTL, NULL, 0, NULL, 0, &ct, OUTB, &ol, &ri, &ril, &si2, &si2l, &sc, &scl, &scr, &scrl, &s1, &s1l, &s2, &s2l); } }
static void c_p8(const uint8_t *p, size_t n) { SM2_KEY k; const uint8_t *cp = p, *at; size_t l = n, al; sm2_private_key_info_from_der(&k, &at, &al, &cp, &l); cp = p; l = n; sm2_private_key_info_decrypt_from_der(&k, &at, &al, "pw", &cp, &l); cp = p; l = n; sm2_private_key_from_der(&k, &cp, &l); cp = p; l = n; sm2_public_key_info_from_der(&k, &cp, &l);
	sm2_private_key_info_print(NUL, 0, 0, "k", p, n); pkcs8_enced_private_key_info_print(NUL, 0, 0, "e", p, n); sm2_private_key_print(NUL, 0, 0, "k", p, n); x509_public_key_info_print(NUL, 0, 0, "p", p, n); }
static void c_sm2sig(const uint8_t *p, size_t n) { SM2_SIGNATURE s; const uint8_t *cp = p; size_t l = n; sm2_signature_from_der(&s, &cp, &l); sm2_signature_print(NUL, 0, 0, "s", p, n); uint8_t dg[32] = { 1 }; if (n) sm2_verify(&CK[0], dg, p, n); }
static void c_sm2ct(const uint8_t *p, size_t n) { SM2_CIPHERTEXT c; const uint8_t *cp = p; size_t l = n; sm2_ciphertext_from_der(&c, &cp, &l); sm2_ciphertext_print(NUL, 0, 0, "c", p, n); uint8_t out[300]; size_t ol; sm2_decrypt(&CK[1], p, n, out, &ol); SM2_DEC_CTX d; sm2_decrypt_init(&d); sm2_decrypt_update(&d, p, n); sm2_decrypt_finish(&d, &CK[1], out, &ol); }
static void c_sm9sig(const uint8_t *p, size_t n) { SM9_SIGNATURE s; const uint8_t *cp = p; size_t l = n; sm9_signature_from_der(&s, &cp, &l); sm9_signature_print(NUL, 0, 0, "s", p, n); SM9_SIGN_CTX c; sm9_verify_init(&c); sm9_verify_update(&c, (const uint8_t *)"abc", 3); sm9_verify_finish(&c, p, n, &S9M, "alice", 5); }
static void c_sm9ct(const uint8_t *p, size_t n) { SM9_Z256_POINT C1; const uint8_t *c2, *c3; size_t c2l; const uint8_t *cp = p; size_t l = n; sm9_ciphertext_from_der(&C1, &c2, &c2l, &c3, &cp, &l); sm9_ciphertext_print(NUL, 0, 0, "c", p, n); uint8_t out[400]; size_t ol; sm9_decrypt(&E9K, "alice", 5, p, n, out, &ol); }
static void c_sm9key(const uint8_t *p, size_t n) { SM9_SIGN_MASTER_KEY m; SM9_SIGN_KEY k; SM9_ENC_MASTER_KEY em; SM9_ENC_KEY ek; const uint8_t *cp = p; size_t l = n; sm9_sign_master_key_from_der(&m, &cp, &l); cp = p; l = n; sm9_sign_master_public_key_from_der(&m, &cp, &l); cp = p; l = n; sm9_sign_key_from_der(&k, &cp, &l); cp = p; l = n; sm9_enc_master_key_from_der(&em, &cp, &l); cp = p; l = n; sm9_enc_master_public_key_from_der(&em, &cp, &l); cp = p; l = n; sm9_enc_key_from_der(&ek, &cp, &l); cp = p; l = n; sm9_sign_key_info_decrypt_from_der(&k, "pw", &cp, &l); cp = p; l = n; sm9_sign_master_key_info_decrypt_from_der(&m, "pw", &cp, &l); cp = p; l = n; sm9_enc_master_key_info_decrypt_from_der(&em, "pw", &cp, &l); cp = p; l = n; sm9_enc_key_info_decrypt_from_der(&ek, "pw", &cp, &l); }
static void c_pem(const uint8_t *p, size_t n) { static const char *NM[] = { "CERTIFICATE", "PUBLIC KEY", "ENCRYPTED PRIVATE KEY", "X509 CRL", "CERTIFICATE REQUEST", "CMS" }; for (int i = 0; i < 6; i++) { FILE *f = fmemopen((void *)p, n ? n : 1, "r"); if (!f) return; uint8_t *o = (uint8_t *)malloc(600); size_t ol = 0; pem_read(f, NM[i], o, &ol, 600); free(o); fclose(f); }
	FILE *f = fmemopen((void *)p, n ? n : 1, "r"); if (f) { uint8_t *o = (uint8_t *)malloc(700); size_t ol = 0; x509_cert_from_pem(o, &ol, 700, f); free(o); fclose(f); } f = fmemopen((void *)p, n ? n : 1, "r"); if (f) { SM2_KEY k; sm2_public_key_info_from_pem(&k, f); fclose(f); } f = fmemopen((void *)p, n ? n : 1, "r"); if (f) { SM2_KEY k; sm2_private_key_info_decrypt_from_pem(&k, "pw", f); fclose(f); } }
static void c_text(const uint8_t *p, size_t n) { uint8_t *o = (uint8_t *)malloc(n / 2 + 1); size_t ol; hex_to_bytes((const char *)p, n, o, &ol); free(o); BASE64_CTX b; base64_decode_init(&b); o = (uint8_t *)malloc(n + 4); int l; base64_decode_update(&b, p, (int)n, o, &l); base64_decode_finish(&b, o, &l); free(o);
	char *z = (char *)malloc(n + 1); memcpy(z, p, n); z[n] = 0; char host[128], path[256]; int port; http_parse_uri(z, host, &port, path); uint8_t *cont; size_t cl, left; http_parse_response(z, n, &cont, &cl, &left); free(z); }
/* TLS handshake records: every parser that a peer's bytes reach, and the trace printers */
static void c_tlsrec(const uint8_t *p, size_t n) { if (n < 5) return; size_t hl = ((size_t)p[3] << 8) | p[4]; /* present exactly 5 + header-length bytes, as tls_record_recv would */ size_t rl = 5 + hl; if (rl > 18432 + 5) return; uint8_t *r = (uint8_t *)calloc(1, rl); memcpy(r, p, n < rl ? n : rl);
	tls_record_print(NUL, r, rl, 0, 0); tlcp_record_print(NUL, r, rl, 0, 0); tls13_record_print(NUL, 0, 0, r, rl);
	int proto, cs; const uint8_t *rnd, *sid, *css, *exts; size_t sidl, cssl, extl; const uint8_t *comp; size_t compl_; (void)comp; (void)compl_;
	tls_record_get_handshake_client_hello(r, &proto, &rnd, &sid, &sidl, &css, &cssl, &exts, &extl); tls_record_get_handshake_server_hello(r, &proto, &rnd, &sid, &sidl, &cs, &exts, &extl);
	uint8_t *certs = (uint8_t *)malloc(TLS_MAX_CERTIFICATES_SIZE); size_t cl = 0; tls_record_get_handshake_certificate(r, certs, &cl); free(certs);
	int curve; SM2_Z256_POINT pt; const uint8_t *sig; size_t sigl; tls_record_get_handshake_server_key_exchange_ecdhe(r, &curve, &pt, &sig, &sigl); const uint8_t *ct, *can; size_t ctl, canl; tls_record_get_handshake_certificate_request(r, &ct, &ctl, &can, &canl); tls_record_get_handshake_server_hello_done(r);
	const uint8_t *epms; size_t epmsl; tls_record_get_handshake_client_key_exchange_pke(r, &epms, &epmsl); tls_record_get_handshake_client_key_exchange_ecdhe(r, &pt); tls_record_get_handshake_certificate_verify(r, &sig, &sigl); const uint8_t *vd; size_t vdl; tls_record_get_handshake_finished(r, &vd, &vdl);
	if (rl > 9) { uint8_t *o = (uint8_t *)malloc(512); size_t ol = 0; tls_process_client_hello_exts(r + 9, rl - 9, o, &ol, 512); free(o); int a, b, c; tls_process_server_hello_exts(r + 9, rl - 9, &a, &b, &c); }
	free(r); }
/* ---------------- mutation engine ---------------- */
static void feed(const seed_t *s, const uint8_t *m, size_t n) { uint8_t *hb = (uint8_t *)malloc(n ? n : 1); memcpy(hb, m, n); s->c(hb, n); free(hb); vh_evals++; vh_nontriv++; }
/* structure-aware: every TLV header found by walking the seed (recursively through constructed types and through OCTET/BIT STRING wrappers that parse as TLVs) */
typedef struct { size_t off, hlen, vlen; } tlvpos; static tlvpos TP[600]; static int NTP;
static void walk(const uint8_t *base, const uint8_t *p, size_t n, int depth) { der_cur c = { p, n }; while (c.n && NTP < 600 && depth < 12) { const uint8_t *st = c.p; int tag; const uint8_t *v; size_t vl, h; if (!der_tlv(&c, &tag, &v, &vl, &h)) return; TP[NTP++] = (tlvpos){ (size_t)(st - base), h, vl }; if ((tag & 0x20) || tag == 0x04) { der_cur t = { v, vl }; int t2; const uint8_t *v2; size_t l2; if ((tag & 0x20) || (vl > 2 && der_tlv(&t, &t2, &v2, &l2, NULL) && t.n == 0)) walk(base, v, vl, depth + 1); } else if (tag == 0x03 && vl > 3) { der_cur t = { v + 1, vl - 1 }; int t2; const uint8_t *v2; size_t l2; if (der_tlv(&t, &t2, &v2, &l2, NULL) && t.n == 0) walk(base, v + 1, vl - 1, depth + 1); } } }
/* tree form for list-growth / element-deletion mutants: every TLV that is an element of a constructed value (also inside OCTET STRING /
 * BIT STRING wrappers) is emitted r times, r in REPS, with all enclosing lengths re-encoded */
typedef struct { int tag, kind /* 0 leaf, 1 constructed, 2 octet-string wrapper, 3 bit-string wrapper */, child, next; const uint8_t *v; size_t vl; } nd_t; static nd_t ND[900]; static int NND;
static int tparse(const uint8_t *p, size_t n, int depth) { int first = -1, prev = -1; der_cur c = { p, n }; while (c.n) { int tag; const uint8_t *v; size_t vl; if (NND >= 900 || !der_tlv(&c, &tag, &v, &vl, NULL)) return -2; int me = NND++; ND[me] = (nd_t){ tag, 0, -1, -1, v, vl }; if (prev >= 0) ND[prev].next = me; else first = me; prev = me;
		if (depth < 14) { int save = NND, ch = -2; if (tag & 0x20) { ch = vl ? tparse(v, vl, depth + 1) : -1; if (ch != -2) { ND[me].kind = 1; ND[me].child = ch; } } else if (tag == 0x04 && vl > 2) { ch = tparse(v, vl, depth + 1); if (ch >= 0 && (ND[ch].tag & 0x20)) { ND[me].kind = 2; ND[me].child = ch; } else ch = -2; } else if (tag == 0x03 && vl > 3 && v[0] == 0) { ch = tparse(v + 1, vl - 1, depth + 1); if (ch >= 0 && (ND[ch].tag & 0x20)) { ND[me].kind = 3; ND[me].child = ch; } else ch = -2; } if (ch == -2) NND = save; } }
	return first; }
static size_t temit(int idx, uint8_t *out, size_t cap, int target, int reps);
static size_t temit_list(int first, uint8_t *out, size_t cap, int target, int reps) { size_t k = 0; for (int i = first; i >= 0; i = ND[i].next) { int r = (i == target) ? reps : 1; for (int j = 0; j < r; j++) { size_t n = temit(i, out + k, cap - k, -1, 1); if (i != target) n = temit(i, out + k, cap - k, target, reps); if (n == (size_t)-1) return n; k += n; } } return k; }
static size_t temit(int idx, uint8_t *out, size_t cap, int target, int reps) { const nd_t *d = &ND[idx]; if (d->kind == 0) { if (d->vl + 8 > cap) return (size_t)-1; return der_put_tlv(out, d->tag, d->v, d->vl); }
	uint8_t *tmp = (uint8_t *)malloc(cap); size_t pre = d->kind == 3 ? 1 : 0; if (pre) tmp[0] = 0; size_t n = temit_list(d->child, tmp + pre, cap - pre - 8 > cap ? 0 : cap - pre - 8, target, reps); if (n == (size_t)-1 || n + pre + 8 > cap) { free(tmp); return (size_t)-1; } size_t r = der_put_tlv(out, d->tag, tmp, n + pre); free(tmp); return r; }
static void mutate_seed(const seed_t *s) {
	static uint8_t m[80000]; static const uint8_t SUB[] = { 0x00, 0x01, 0x7f, 0x80, 0x81, 0xfe, 0xff }; size_t n = s->n; int step = (!vh_thorough && n > 2500) ? 3 : 1;
	if (vh_next()) feed(s, s->d, n);
	for (size_t off = 0; off < n; off += step) { if (!vh_next()) continue; for (int k = 0; k < 9; k++) { memcpy(m, s->d, n); uint8_t v = k < 7 ? SUB[k] : (k == 7 ? s->d[off] ^ 0x01 : s->d[off] ^ 0x80); if (v == s->d[off]) continue; m[off] = v; feed(s, m, n); } }
	for (size_t k = 0; k < n; k += step) { if (!vh_next()) continue; feed(s, s->d, k); }
	if (s->der) { NND = 0; int root = tparse(s->d, n, 0); static const int REPS[] = { 0, 2, 3, 7, 8, 9, 16, 17, 32, 33, 64, 65, 128, 129 }; static uint8_t big[66000];
		if (root >= 0) { size_t chk = temit_list(root, big, sizeof big, -1, 1); if (chk != n || memcmp(big, s->d, n)) vh_obs("tree re-encoding of seed %s is not the identity (non-minimal lengths?)", s->name);
			for (int t = 0; t < NND; t++) for (int r = 0; r < 14; r++) { if (!vh_next()) continue; size_t k = temit_list(root, big, sizeof big, t, REPS[r]); if (k == (size_t)-1 || k > 65000) continue; feed(s, big, k); } } }
	if (s->der) { NTP = 0; walk(s->d, s->d, n, 0); for (int t = 0; t < NTP; t++) { if (!vh_next()) continue; size_t off = TP[t].off, h = TP[t].hlen, L = TP[t].vlen, rem = n - off - h;
			/* replacement length encodings for this header */ uint8_t enc[11][6]; size_t el[11]; int ne = 0;
#define LENC(...) do { uint8_t t_[] = { __VA_ARGS__ }; memcpy(enc[ne], t_, sizeof t_); el[ne++] = sizeof t_; } while (0)
			LENC(0x00); LENC(0x01); LENC((uint8_t)((L ? L - 1 : 0) & 0x7f)); LENC((uint8_t)((L + 1) & 0x7f)); LENC(0x7f); LENC(0x80); LENC(0x81, (uint8_t)L); LENC(0x82, (uint8_t)(L >> 8), (uint8_t)L); LENC(0x84, 0xff, 0xff, 0xff, 0xff); LENC(0x82, (uint8_t)(rem >> 8), (uint8_t)rem); LENC(0x82, (uint8_t)((rem + 1) >> 8), (uint8_t)(rem + 1));
			for (int e = 0; e < ne; e++) { size_t k = 0; memcpy(m, s->d, off + 1); k = off + 1; memcpy(m + k, enc[e], el[e]); k += el[e]; memcpy(m + k, s->d + off + h, n - off - h); k += n - off - h; feed(s, m, k); }
			/* tag confusion */ static const uint8_t TG[] = { 0x02, 0x03, 0x04, 0x05, 0x06, 0x0c, 0x17, 0x18, 0x30, 0x31, 0xa0, 0xa3, 0x1f, 0xff }; for (int g = 0; g < 14; g++) { memcpy(m, s->d, n); m[off] = TG[g]; feed(s, m, n); }
			/* 32-byte values replaced by algebraic boundary values (field prime / group order neighbourhood, zero, all ones) */
			if (L == 32 || L == 33) { static const char *BV[] = { "0000000000000000000000000000000000000000000000000000000000000000", "0000000000000000000000000000000000000000000000000000000000000001", "FFFFFFFEFFFFFFFFFFFFFFFFFFFFFFFF7203DF6B21C6052B53BBF40939D54122", "FFFFFFFEFFFFFFFFFFFFFFFFFFFFFFFF7203DF6B21C6052B53BBF40939D54123", "FFFFFFFEFFFFFFFFFFFFFFFFFFFFFFFFFFFFFFFF00000000FFFFFFFFFFFFFFFF", "B640000002A3A6F1D603AB4FF58EC74449F2934B18EA8BEEE56EE19CD69ECF24", "B640000002A3A6F1D603AB4FF58EC74449F2934B18EA8BEEE56EE19CD69ECF25", "B640000002A3A6F1D603AB4FF58EC74521F2934B1A7AEEDBE56F9B27E351457D", "FFFFFFFFFFFFFFFFFFFFFFFFFFFFFFFFFFFFFFFFFFFFFFFFFFFFFFFFFFFFFFFF" };
				for (int b = 0; b < 9; b++) { memcpy(m, s->d, n); uint8_t bv[32]; size_t bl; hex_to_bytes(BV[b], 64, bv, &bl); if ((bv[0] & 0x80) && L == 32 && (s->d[off] == 0x02)) continue; /* would need a sign octet: covered by L==33 seeds */ memcpy(m + off + h + (L - 32), bv, 32); feed(s, m, n); } } } }
}
/* lists extended to capacity-1 .. capacity+2: OIDs with 31..34 arcs, SEQUENCE OF INTEGER beyond max, long names */
static void blk_capacity(void) {
	if (!vh_block_begin("capacity")) return; uint8_t b[600];
	for (int arcs = 30; arcs <= 40; arcs++) { if (!vh_next()) continue; size_t k = 0; b[k++] = 0x2a; for (int i = 2; i < arcs; i++) b[k++] = (uint8_t)(i & 0x7f); uint8_t der[300]; size_t dl = der_put_tlv(der, 0x06, b, k); uint32_t *nodes = (uint32_t *)malloc(32 * 4); size_t cnt = 0; uint8_t *hb = (uint8_t *)malloc(dl); memcpy(hb, der, dl); const uint8_t *cp = hb; size_t l = dl; asn1_object_identifier_from_der(nodes, &cnt, &cp, &l); free(nodes); asn1_object_identifier_print(NUL, 0, 0, "o", NULL, (uint32_t[]){ 1, 2 }, 2); free(hb); vh_evals++; vh_nontriv++;
		uint8_t *hb2 = (uint8_t *)malloc(k); memcpy(hb2, b, k); nodes = (uint32_t *)malloc(32 * 4); asn1_object_identifier_from_octets(nodes, &cnt, hb2, k); free(nodes); free(hb2); }
	for (int cnt = 1; cnt <= 12; cnt++) for (int cap = 1; cap <= 8; cap++) { if (!vh_next()) continue; size_t k = 0; for (int i = 0; i < cnt; i++) { b[k++] = 2; b[k++] = 1; b[k++] = (uint8_t)i; } uint8_t der[100]; size_t dl = der_put_tlv(der, 0x30, b, k); int *nums = (int *)malloc(sizeof(int) * cap); size_t got = 0; uint8_t *hb = (uint8_t *)malloc(dl); memcpy(hb, der, dl); const uint8_t *cp = hb; size_t l = dl; asn1_sequence_of_int_from_der(nums, &got, cap, &cp, &l); free(nums); free(hb); vh_evals++; vh_nontriv++; }
	for (int tag = 0; tag < 256; tag++) { if (!vh_next()) continue; const char *nm = asn1_tag_name(tag); (void)nm; vh_evals++; vh_nontriv++; }
	/* certificate lists whose DER total is around / beyond the 2048-byte certificate store (TLS 1.2 / TLCP form and TLS 1.3 form) */
	{ static const size_t T[] = { 1500, 2040, 2049, 2100, 4096, 8300, 16000 }; extern int tls13_process_certificate_list(const uint8_t *, size_t, uint8_t *, size_t *); static uint8_t rec[17000];
	  for (int t = 0; t < 7; t++) for (int form = 0; form < 2; form++) { if (!vh_next()) continue; size_t c1 = ROOTL, n = (T[t] + c1 - 1) / c1, k = 12; for (size_t i = 0; i < n && k + 5 + c1 < 16384; i++) { rec[k++] = (uint8_t)(c1 >> 16); rec[k++] = (uint8_t)(c1 >> 8); rec[k++] = (uint8_t)c1; memcpy(rec + k, ROOTC, c1); k += c1; if (form) { rec[k++] = 0; rec[k++] = 0; } }
		size_t ll = k - 12, hl = k - 9, rl = k - 5; rec[0] = 22; rec[1] = 3; rec[2] = 3; rec[3] = (uint8_t)(rl >> 8); rec[4] = (uint8_t)rl; rec[5] = 11; rec[6] = (uint8_t)(hl >> 16); rec[7] = (uint8_t)(hl >> 8); rec[8] = (uint8_t)hl; rec[9] = (uint8_t)(ll >> 16); rec[10] = (uint8_t)(ll >> 8); rec[11] = (uint8_t)ll;
		uint8_t *hb = (uint8_t *)malloc(k); memcpy(hb, rec, k); uint8_t *certs = (uint8_t *)malloc(TLS_MAX_CERTIFICATES_SIZE); size_t cl = 0; if (!form) tls_record_get_handshake_certificate(hb, certs, &cl); else tls13_process_certificate_list(hb + 12, k - 12, certs, &cl); free(certs); free(hb); vh_evals++; vh_nontriv++; } }
	/* cipher-suite lists of 63..66 entries, session ids of 31..34 bytes in ClientHello / ServerHello */
	for (int ncs = 62; ncs <= 67; ncs++) for (int sid = 30; sid <= 36; sid++) { if (!vh_next()) continue; uint8_t body[400]; size_t k = 0; body[k++] = 1; size_t lenpos = k; k += 3; body[k++] = 3; body[k++] = 3; for (int i = 0; i < 32; i++) body[k++] = (uint8_t)i; body[k++] = (uint8_t)sid; for (int i = 0; i < sid; i++) body[k++] = 0x55; body[k++] = (uint8_t)((2 * ncs) >> 8); body[k++] = (uint8_t)(2 * ncs); for (int i = 0; i < ncs; i++) { body[k++] = 0xe0; body[k++] = 0x13; } body[k++] = 1; body[k++] = 0; size_t hl = k - 4; body[lenpos] = 0; body[lenpos + 1] = (uint8_t)(hl >> 8); body[lenpos + 2] = (uint8_t)hl;
		uint8_t rec[420] = { 22, 3, 3, (uint8_t)(k >> 8), (uint8_t)k }; memcpy(rec + 5, body, k); c_tlsrec(rec, 5 + k); rec[5] = 2; c_tlsrec(rec, 5 + k); vh_evals++; vh_nontriv++; }
}
/* type confusion: every untouched seed through every OTHER consumer */
/* CBC-HMAC records as a peer that holds the record keys can send them (after the handshake every peer does): the decrypted plaintext is attacker-chosen.
   Every padding value 0..255 as the fill of 3..7 blocks, and every padding value in the last octet over a fill of zeros: the reader must find its way
   (MAC position, output length) without leaving the buffers - exact-size heap blocks in, output of the declared capacity */
static void blk_crafted_cbc(void) {
	if (!vh_block_begin("crafted-cbc-plaintexts")) return; SM3_HMAC_CTX hm; SM4_KEY ek, dk; uint8_t k[16], mk[32]; for (int i = 0; i < 16; i++) k[i] = (uint8_t)(0x40 + i); for (int i = 0; i < 32; i++) mk[i] = (uint8_t)(0x70 + i); sm3_hmac_init(&hm, mk, 32); sm4_set_encrypt_key(&ek, k); sm4_set_decrypt_key(&dk, k); static const uint8_t seq[8] = { 0, 0, 0, 0, 0, 0, 0, 1 };
	for (size_t nb = 3; nb <= 7; nb++) for (int v = 0; v < 256; v++) for (int shape = 0; shape < 2; shape++) { if (!vh_next()) continue; uint8_t pt[128], iv[16], ivc[16]; memset(pt, shape ? 0 : v, sizeof pt); pt[16 * nb - 1] = (uint8_t)v; for (int i = 0; i < 16; i++) iv[i] = (uint8_t)(i + v); memcpy(ivc, iv, 16);
		size_t bl = 16 + 16 * nb; uint8_t *rec = (uint8_t *)malloc(5 + bl); rec[0] = 23; rec[1] = 1; rec[2] = 1; rec[3] = (uint8_t)(bl >> 8); rec[4] = (uint8_t)bl; memcpy(rec + 5, iv, 16); sm4_cbc_encrypt_blocks(&ek, ivc, pt, nb, rec + 21);
		uint8_t *out = (uint8_t *)malloc(5 + bl); size_t ol = 0; int r = tls_record_decrypt(&hm, &dk, seq, rec, 5 + bl, out, &ol); vh_evals++; vh_nontriv++; if (r == 1 && ol > 5 + bl) vh_viol("C06:crafted-cbc:length-larger-than-the-record", "\"blocks\":%zu,\"pad\":%d,\"outlen\":%zu", nb, v, ol); free(out);
		uint8_t *o2 = (uint8_t *)malloc(bl); size_t o2l = 0; uint8_t hdr[5] = { 23, 1, 1, (uint8_t)(bl >> 8), (uint8_t)bl }; tls_cbc_decrypt(&hm, &dk, seq, hdr, rec + 5, bl, o2, &o2l); vh_evals++; free(o2); free(rec); } }
/* authentic TLS 1.3 records (made with the real key) whose INNER plaintexts are chosen: all zeros (no content type at all) of several lengths, and
   content || type || zeros for every type octet; the decryptor works on exact-size heap buffers, so a scan that runs off the front of the
   plaintext, or a length that wraps, is a sanitizer report; a reported length larger than the ciphertext is a violation */
static void blk_crafted_gcm(void) {
	if (!vh_block_begin("crafted-tls13-inner-plaintexts")) return; BLOCK_CIPHER_KEY bk; uint8_t k[16], iv[12], seq[8] = { 0, 0, 0, 0, 0, 0, 0, 2 }; for (int i = 0; i < 16; i++) k[i] = (uint8_t)(0x51 + i); for (int i = 0; i < 12; i++) iv[i] = (uint8_t)(0x90 + i); if (block_cipher_set_encrypt_key(&bk, BLOCK_CIPHER_sm4(), k) != 1) vh_harness_error("gcm key");
	static const size_t ZL[] = { 0, 1, 2, 15, 16, 17, 100, 1000 }; static uint8_t zeros[1024], enc[1200];
	for (int t = 0; t < 256; t++) for (int z = 0; z < 8; z++) for (int cl = 0; cl < 2; cl++) { if (!vh_next()) continue; if (t == 0 && cl) continue; size_t el = 0; uint8_t content[4] = { 0x41, 0x42, 0x43, 0x44 };
		/* type 0 with zero content and padding => an inner plaintext made of zeros only; other types: 0 or 4 content octets, the type, ZL zeros */
		if (tls13_gcm_encrypt(&bk, iv, seq, t, t ? content : zeros, t ? (cl ? 4 : 0) : ZL[z], t ? ZL[z] : 0, enc, &el) != 1) continue;
		uint8_t *in = (uint8_t *)malloc(el ? el : 1), *out = (uint8_t *)malloc(el ? el : 1); memcpy(in, enc, el); int rt = -1; size_t ol = 0; int r = tls13_gcm_decrypt(&bk, iv, seq, in, el, &rt, out, &ol); vh_evals++; vh_nontriv++;
		if (r == 1 && ol > el) vh_viol("C06:crafted-tls13:length-larger-than-the-record", "\"type\":%d,\"zeros\":%zu,\"outlen\":%zu,\"reclen\":%zu", t, ZL[z], ol, el);
		if (r == 1 && t == 0) vh_viol("C06:crafted-tls13:record-without-a-content-type-accepted", "\"zeros\":%zu,\"reported_type\":%d,\"outlen\":%zu", ZL[z], rt, ol);
		free(in); free(out); }
}
/* the fixed-size stores of the connection object filled through tls_init: trust lists and own chains of 1..12 certificates (about 0.4 .. 5 kilo-octets, so the
   2048- and 4096-octet marks are crossed): whatever tls_init answers, no length recorded in the connection exceeds the array it describes, what it accepted is the
   configured bytes, and (heap-allocated object, ASan) nothing is written behind the object */
static void blk_ctx_capacity(void) {
	if (!vh_block_begin("connection-store-capacities")) return; creds_init(); static uint8_t many[8000]; size_t off[14]; size_t n = 0; off[0] = 0;
	for (int i = 0; i < 13; i++) { cert_spec u; char cn[8]; snprintf(cn, sizeof cn, "U%d", i); spec_ca(&u, cn, -1); size_t l = 0; venv_reset(700 + i); if (make_cert(&u, &CK[9], &CK[9], cn, many + n, &l) != 1) vh_harness_error("cert"); n += l; off[i + 1] = n; }
	for (int proto = 0; proto < 3; proto++) for (int role = 0; role < 2; role++) for (int which = 0; which < 2; which++) for (int cnt = 1; cnt <= 13; cnt++) { if (!vh_next()) continue; static const int PR[3] = { TLS_protocol_tlcp, TLS_protocol_tls12, TLS_protocol_tls13 };
		TLS_CTX ctx; memset(&ctx, 0, sizeof ctx); ctx.protocol = PR[proto]; ctx.is_client = role; ctx.cipher_suites[0] = proto == 0 ? TLS_cipher_ecc_sm4_cbc_sm3 : proto == 1 ? TLS_cipher_ecdhe_sm4_cbc_sm3 : TLS_cipher_sm4_gcm_sm3; ctx.cipher_suites_cnt = 1; ctx.verify_depth = 4; ctx.quiet = 1;
		uint8_t *list = (uint8_t *)malloc(off[cnt]); memcpy(list, many, off[cnt]); if (which == 0) { ctx.cacerts = list; ctx.cacertslen = off[cnt]; if (!role) { ctx.certs = many; ctx.certslen = off[1]; ctx.signkey = CK[9]; ctx.kenckey = CK[9]; } } else { ctx.certs = list; ctx.certslen = off[cnt]; ctx.signkey = CK[9]; ctx.kenckey = CK[9]; }
		TLS_CONNECT *conn = (TLS_CONNECT *)malloc(sizeof *conn); memset(conn, 0xA5, sizeof *conn); int r = tls_init(conn, &ctx); vh_evals++; vh_nontriv++; char key[160]; const char *wn = which ? "own-chain" : "trust-list";
		if (r == 1) { size_t cl = conn->ca_certs_len, sl = conn->server_certs_len, kl = conn->client_certs_len;
			if (cl > sizeof conn->ca_certs || sl > sizeof conn->server_certs || kl > sizeof conn->client_certs) { snprintf(key, sizeof key, "C06:connection-store:%s-longer-than-its-array-accepted", wn); vh_viol(key, "\"configured_octets\":%zu,\"certificates\":%d,\"ca_certs_len\":%zu,\"server_certs_len\":%zu,\"client_certs_len\":%zu", off[cnt], cnt, cl, sl, kl); }
			else if (which == 0 && (cl != off[cnt] || memcmp(conn->ca_certs, many, cl))) { snprintf(key, sizeof key, "C06:connection-store:trust-list-differs-from-the-configured-one"); vh_viol(key, "\"configured_octets\":%zu,\"stored\":%zu", off[cnt], cl); } }
		free(conn); free(list); if (cnt == 1 || cnt == 5 || cnt == 13) vh_sample("{\"block\":\"connection-store-capacities\",\"which\":\"%s\",\"octets\":%zu,\"tls_init\":%d}", wn, off[cnt], r); }
}
/* RecipientInfo lookups: the message's issuer / serial number against the recipient's own, every length relation (shorter, equal, longer: prefix-equal in each case),
   the recipient's values in exact-size heap buffers: a comparison that takes its extent from the message reads behind them */
static void blk_rcpt_lookup(void) {
	if (!vh_block_begin("recipient-info-lookups")) return; creds_init(); static const size_t SL[] = { 1, 2, 3, 4, 8, 19, 20, 21, 33 }; uint8_t iss[2][128]; size_t il[2] = { 0, 0 }; make_name(iss[0], &il[0], "R"); make_name(iss[1], &il[1], "R"); { static const uint8_t extra[] = { 0x31, 0x0a, 0x30, 0x08, 0x06, 0x03, 0x55, 0x04, 0x0b, 0x13, 0x01, 0x58 }; memcpy(iss[1] + il[1], extra, sizeof extra); il[1] += sizeof extra; }
	uint8_t serial[40]; for (int i = 0; i < 40; i++) serial[i] = (uint8_t)(0x11 + i); uint8_t keymat[16]; memset(keymat, 0x3c, 16);
	for (int mi = 0; mi < 2; mi++) for (int ri = 0; ri < 2; ri++) for (int a = 0; a < 9; a++) for (int b = 0; b < 9; b++) { if (!vh_next()) continue; uint8_t rinfo[700], *p = rinfo; size_t rl = 0; venv_reset(300 + a * 9 + b); if (cms_recipient_info_encrypt_to_der(&CK[2], iss[mi], il[mi], serial, SL[a], keymat, 16, &p, &rl) != 1) continue;
		uint8_t *hi = (uint8_t *)malloc(il[ri]), *hs = (uint8_t *)malloc(SL[b]), *hr = (uint8_t *)malloc(rl); memcpy(hi, iss[ri], il[ri]); memcpy(hs, serial, SL[b]); memcpy(hr, rinfo, rl); uint8_t out[64]; size_t ol = 0; const uint8_t *cp = hr; size_t l = rl;
		int r = cms_recipient_info_decrypt_from_der(&CK[2], hi, il[ri], hs, SL[b], out, &ol, sizeof out, &cp, &l); vh_evals++; vh_nontriv++; int same = mi == ri && a == b;
		if ((r == 1) != same) { vh_viol(r == 1 ? "C06:recipient-info-lookup:another-recipients-info-opened" : "C06:recipient-info-lookup:own-info-refused", "\"message_serial_len\":%zu,\"own_serial_len\":%zu,\"message_issuer\":%d,\"own_issuer\":%d,\"ret\":%d", SL[a], SL[b], mi, ri, r); }
		free(hi); free(hs); free(hr); }
	vh_sample("{\"block\":\"recipient-info-lookups\",\"serial_lengths\":9,\"issuer_forms\":2}");
}
static void blk_cross(void) { if (!vh_block_begin("cross-type")) return; for (int i = 0; i < NSEEDS; i++) for (int j = 0; j < NSEEDS; j++) { if (SEEDS[j].c == SEEDS[i].c) continue; int dup = 0; for (int k = 0; k < j; k++) if (SEEDS[k].c == SEEDS[j].c) dup = 1; if (dup) continue; if (!vh_next()) continue; feed(&SEEDS[j], SEEDS[i].d, SEEDS[i].n); } }
static void body(void) { for (int i = 0; i < NSEEDS; i++) { char bn[64]; snprintf(bn, sizeof bn, "seed-%s", SEEDS[i].name); if (!vh_block_begin(bn)) continue; if (vh_deadline_hit()) { vh_capped = 1; continue; } mutate_seed(&SEEDS[i]); vh_sample("{\"seed\":\"%s\",\"bytes\":%zu,\"der\":%d}", SEEDS[i].name, SEEDS[i].n, SEEDS[i].der); } blk_capacity(); blk_crafted_cbc(); blk_crafted_gcm(); blk_ctx_capacity(); blk_rcpt_lookup(); blk_cross(); }
/* ---------------- seeds ---------------- */
#include "vnet.h"
#include "tlsh.h"
static void build_seeds(void) {
	creds_init(); venv_reset(606); static uint8_t b[70000]; size_t n; uint8_t *p;
	cert_spec rs; spec_ca(&rs, "R", -1); ROOTL = 0; make_cert(&rs, &CK[5], &CK[5], "R", ROOTC, &ROOTL);
	{ cert_spec s; spec_leaf(&s, "leaf", X509_KU_DIGITAL_SIGNATURE | X509_KU_KEY_ENCIPHERMENT); s.eku = 4; s.unknown_ext = 1; n = 0; make_cert(&s, &CK[2], &CK[5], "R", b, &n); add_seed("certificate", b, n, c_cert, 1); size_t n2 = 0; cert_spec c2; spec_ca(&c2, "A", 0); make_cert(&c2, &CK[1], &CK[5], "R", b + n, &n2); add_seed("certificate-chain", b, n + n2, c_cert, 1); add_seed("root-certificate", ROOTC, ROOTL, c_cert, 1);
	  char *t = NULL; size_t tl = 0; FILE *f = open_memstream(&t, &tl); x509_cert_to_pem(b, n, f); fclose(f); add_seed("certificate-pem", (uint8_t *)t, tl, c_pem, 0); free(t); }
	{ uint8_t rev[300], *rp = rev; size_t rl = 0; uint8_t s1[2] = { 1, 2 }, s2[3] = { 1, 2, 3 }; x509_revoked_cert_to_der(s1, 2, VENV_NOW - 10, NULL, 0, &rp, &rl); x509_revoked_cert_to_der_ex(s2, 3, VENV_NOW - 9, 1, VENV_NOW - 20, NULL, 0, &rp, &rl); uint8_t nm[128]; size_t nl; make_name(nm, &nl, "R"); uint8_t ex[128]; size_t el = 0; x509_crl_exts_add_crl_number(ex, &el, sizeof ex, 0, 7); p = b; n = 0; if (x509_crl_sign_to_der(X509_version_v2, OID_sm2sign_with_sm3, nm, nl, VENV_NOW - 100, VENV_NOW + 1000, rev, rl, ex, el, &CK[5], SM2_DEFAULT_ID, 16, &p, &n) == 1) add_seed("crl", b, n, c_crl, 1); }
	{ uint8_t nm[128]; size_t nl; make_name(nm, &nl, "req"); p = b; n = 0; if (x509_req_sign_to_der(X509_version_v1, nm, nl, &CK[2], (const uint8_t *)"", 0, OID_sm2sign_with_sm3, &CK[2], SM2_DEFAULT_ID, 16, &p, &n) == 1) add_seed("request", b, n, c_req, 1); }
	{ cert_spec s; spec_leaf(&s, "sig", X509_KU_DIGITAL_SIGNATURE); uint8_t sc[1024]; size_t scl = 0; make_cert(&s, &CK[2], &CK[5], "R", sc, &scl); CMS_CERTS_AND_KEY sg = { sc, scl, &CK[2] }; uint8_t msg[40] = "content of the message for cms tests.."; uint8_t k[16] = { 1, 2, 3, 4, 5, 6, 7, 8, 9, 10, 11, 12, 13, 14, 15, 16 }, iv[16] = { 9 };
	  n = 0; if (cms_sign(b, &n, &sg, 1, OID_cms_data, msg, 40, NULL, 0) == 1) add_seed("cms-signed", b, n, c_cms, 1); n = 0; if (cms_envelop(b, &n, ROOTC, ROOTL, OID_sm4_cbc, k, 16, iv, 16, OID_cms_data, msg, 40, NULL, 0, NULL, 0) == 1) add_seed("cms-enveloped", b, n, c_cms, 1);
	  n = 0; if (cms_encrypt(b, &n, OID_sm4_cbc, k, 16, iv, 16, OID_cms_data, msg, 40, NULL, 0, NULL, 0) == 1) add_seed("cms-encrypted", b, n, c_cms, 1); n = 0; if (cms_sign_and_envelop(b, &n, &sg, 1, ROOTC, ROOTL, OID_sm4_cbc, k, 16, iv, 16, OID_cms_data, msg, 40, NULL, 0, NULL, 0, NULL, 0) == 1) add_seed("cms-signed-and-enveloped", b, n, c_cms, 1); n = 0; if (cms_set_data(b, &n, msg, 40) == 1) add_seed("cms-data", b, n, c_cms, 1); }
	{ p = b; n = 0; sm2_private_key_info_to_der(&CK[0], &p, &n); add_seed("pkcs8", b, n, c_p8, 1); p = b; n = 0; sm2_private_key_info_encrypt_to_der(&CK[0], "pw", &p, &n); add_seed("pkcs8-encrypted", b, n, c_p8, 1); p = b; n = 0; sm2_public_key_info_to_der(&CK[0], &p, &n); add_seed("spki", b, n, c_p8, 1); p = b; n = 0; sm2_private_key_to_der(&CK[0], &p, &n); add_seed("ec-private-key", b, n, c_p8, 1);
	  char *t = NULL; size_t tl = 0; FILE *f = open_memstream(&t, &tl); sm2_private_key_info_encrypt_to_pem(&CK[0], "pw", f); fclose(f); add_seed("pkcs8-encrypted-pem", (uint8_t *)t, tl, c_pem, 0); free(t); }
	{ uint8_t dg[32] = { 1 }; n = 0; sm2_sign(&CK[0], dg, b, &n); add_seed("sm2-signature", b, n, c_sm2sig, 1); n = 0; sm2_encrypt(&CK[1], (const uint8_t *)"plaintext for sm2", 17, b, &n); add_seed("sm2-ciphertext", b, n, c_sm2ct, 1); }
	if (sm9_sign_master_key_generate(&S9M) == 1 && sm9_sign_master_key_extract_key(&S9M, "alice", 5, &S9K) == 1 && sm9_enc_master_key_generate(&E9M) == 1 && sm9_enc_master_key_extract_key(&E9M, "alice", 5, &E9K) == 1) {
	  SM9_SIGN_CTX c; sm9_sign_init(&c); sm9_sign_update(&c, (const uint8_t *)"abc", 3); n = 0; if (sm9_sign_finish(&c, &S9K, b, &n) == 1) add_seed("sm9-signature", b, n, c_sm9sig, 1); n = 0; if (sm9_encrypt(&E9M, "alice", 5, (const uint8_t *)"sm9 plaintext", 13, b, &n) == 1) add_seed("sm9-ciphertext", b, n, c_sm9ct, 1);
	  p = b; n = 0; sm9_sign_master_key_to_der(&S9M, &p, &n); add_seed("sm9-sign-master-key", b, n, c_sm9key, 1); p = b; n = 0; sm9_sign_master_public_key_to_der(&S9M, &p, &n); add_seed("sm9-sign-master-public-key", b, n, c_sm9key, 1); p = b; n = 0; sm9_sign_key_to_der(&S9K, &p, &n); add_seed("sm9-sign-key", b, n, c_sm9key, 1); p = b; n = 0; sm9_enc_key_to_der(&E9K, &p, &n); add_seed("sm9-enc-key", b, n, c_sm9key, 1); p = b; n = 0; sm9_enc_master_public_key_to_der(&E9M, &p, &n); add_seed("sm9-enc-master-public-key", b, n, c_sm9key, 1);
	  /* password-protected SM9 key files of all four kinds: every reader of c_sm9key sees every kind (a reader given another kind's file) */
	  p = b; n = 0; if (sm9_sign_master_key_info_encrypt_to_der(&S9M, "pw", &p, &n) == 1) add_seed("sm9-sign-master-key-encrypted", b, n, c_sm9key, 1); p = b; n = 0; if (sm9_sign_key_info_encrypt_to_der(&S9K, "pw", &p, &n) == 1) add_seed("sm9-sign-key-encrypted", b, n, c_sm9key, 1); p = b; n = 0; if (sm9_enc_master_key_info_encrypt_to_der(&E9M, "pw", &p, &n) == 1) add_seed("sm9-enc-master-key-encrypted", b, n, c_sm9key, 1); p = b; n = 0; if (sm9_enc_key_info_encrypt_to_der(&E9K, "pw", &p, &n) == 1) add_seed("sm9-enc-key-encrypted", b, n, c_sm9key, 1); }
	add_seed("hex-text", (const uint8_t *)"00112233445566778899aAbBcCdDeEfF0123", 36, c_text, 0); add_seed("base64-text", (const uint8_t *)"QUJDREVGR0hJSktMTU5PUFFSU1RVVldYWVo=\nYWJjZGVm\n", 46, c_text, 0); add_seed("http-uri", (const uint8_t *)"http://www.example.com:8080/path/to/file.crl", 44, c_text, 0); add_seed("http-response", (const uint8_t *)"HTTP/1.1 200 OK\r\nContent-Length: 5\r\nServer: x\r\n\r\nhello", 54, c_text, 0);
	/* handshake records of honest runs of the three protocols (mutual authentication: all message types occur) */
	for (int pr = 0; pr < 2; pr++) { static side_creds srv, cli; static ep_t c, s; build_side(&srv, pr, 0, 2, NULL); build_side(&cli, pr, 1, 1, NULL); memset(&c, 0, sizeof c); memset(&s, 0, sizeof s); c.proto = s.proto = pr; c.is_client = 1; c.mutual = s.mutual = 1; c.own = &cli; s.own = &srv; c.trust = &srv; s.trust = &cli; c.entropy_key = 1; s.entropy_key = 2; c.entropy_fail_at = s.entropy_fail_at = -1; int cr, sr; FILE *so = stdout; (void)so; fflush(stdout); int sv = dup(1); int dn = open("/dev/null", 1); dup2(dn, 1); vnet_run2(ep_task, &c, ep_task, &s, &cr, &sr); fflush(stdout); dup2(sv, 1); close(sv); close(dn);
		for (int i = 0; i < vn_nlog && i < 14; i++) { if (vn_log[i].hdr[0] != 22 || (i > 0 && vn_log[i - 1].hdr[0] == 20)) continue; char *nm = (char *)malloc(48); snprintf(nm, 48, "%s-handshake-record-%s%d", PNAME[pr], vn_log[i].dir ? "c2s" : "s2c", i); add_seed(nm, vn_log[i].copy, vn_log[i].len, c_tlsrec, 0); } }
}
#include <fcntl.h>
#ifndef C06_LIB
int main(int argc, char **argv) { vh_init(argc, argv); NUL = fopen("/dev/null", "w"); app_fill(); build_seeds(); if (!freopen("/dev/null", "w", stderr)) {} vh_guarded("C06", body, 20); return vh_finish(); }
#endif
