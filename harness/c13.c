/* C13 — SM2 big-number and curve arithmetic equals integer mathematics.
 * Operand alphabet = all 4-limb combinations over a boundary limb set + named boundary values; all pairs for binary
 * functions, all singles for unary ones; point-pair table; single- and adjacent-Booth-window scalars on all four
 * multiplication routes; oracle = OpenSSL BN / EC_POINT. */
#include <gmssl/sm2_z256.h>
#include <gmssl/sm2.h>
#include <openssl/err.h>
#include "vh.h"
#include "sm2_ref.h"

static const uint64_t LQ[] = { 0, 1, 0xffffffffULL, 0x100000000ULL, 0x8000000000000000ULL, 0xffffffffffffffffULL };
static const uint64_t LT[] = { 0, 1, 2, 0xffffffffULL, 0x100000000ULL, 0x8000000000000000ULL, 0xfffffffffffffffeULL, 0xffffffffffffffffULL };
static uint64_t (*OPS)[4]; static size_t NOPS;
static BIGNUM **OPB;
static void add_op_bn(const BIGNUM *b) { sr_bn_to_limbs(OPS[NOPS], b); NOPS++; }
static void build_ops(void) {
	const uint64_t *L = vh_thorough ? LT : LQ; size_t nl = vh_thorough ? 8 : 6; size_t cap = nl * nl * nl * nl + 64;
	OPS = calloc(cap, sizeof *OPS); NOPS = 0;
	for (size_t a = 0; a < nl; a++) for (size_t b = 0; b < nl; b++) for (size_t c = 0; c < nl; c++) for (size_t d = 0; d < nl; d++) { OPS[NOPS][0] = L[d]; OPS[NOPS][1] = L[c]; OPS[NOPS][2] = L[b]; OPS[NOPS][3] = L[a]; NOPS++; }
	/* named boundary values: n-2..n+1, p-2..p+1, 2^255, R mod p, R mod n, R^2 mod p, (p+1)/2, typical */
	BIGNUM *t = BN_new(), *r = BN_new(); BN_CTX *c = sr_ctx();
	for (int d = -2; d <= 1; d++) { BN_copy(t, sr_n()); if (d < 0) BN_sub_word(t, -d); else BN_add_word(t, d); add_op_bn(t); BN_copy(t, sr_p()); if (d < 0) BN_sub_word(t, -d); else BN_add_word(t, d); add_op_bn(t); }
	BN_zero(r); BN_set_bit(r, 256); BN_mod(t, r, sr_p(), c); add_op_bn(t); BN_mod(t, r, sr_n(), c); add_op_bn(t); BN_mod_sqr(t, r, sr_p(), c); add_op_bn(t); BN_mod_sqr(t, r, sr_n(), c); add_op_bn(t);
	BN_copy(t, sr_p()); BN_add_word(t, 1); BN_rshift1(t, t); add_op_bn(t); BN_copy(t, sr_n()); BN_rshift1(t, t); add_op_bn(t);
	BN_hex2bn(&t, "3945208F7B2144B13F36E38AC6D39F95889393692860B51A42FB81EF4DF7C5B8"); add_op_bn(t); BN_hex2bn(&t, "00000000FFFFFFFF00000000FFFFFFFF00000000FFFFFFFF00000000FFFFFFFF"); add_op_bn(t);
	OPB = calloc(NOPS, sizeof *OPB); for (size_t i = 0; i < NOPS; i++) { OPB[i] = BN_new(); sr_limbs_to_bn(OPB[i], OPS[i]); }
	BN_free(t); BN_free(r);
}
static char *lhex(const uint64_t a[4]) { static char b[4][80]; static int r; char *o = b[r++ & 3]; snprintf(o, 80, "%016llx%016llx%016llx%016llx", (unsigned long long)a[3], (unsigned long long)a[2], (unsigned long long)a[1], (unsigned long long)a[0]); return o; }
static int lt(size_t i, const BIGNUM *m) { return BN_cmp(OPB[i], m) < 0; }

enum { F_ADD, F_SUB, F_MUL, F_CMP, F_EQU, F_PADD, F_PSUB, F_PMMUL, F_NADD, F_NSUB, F_NMMUL, F_NMUL, NBIN };
static const char *BN_NAMES[] = { "add", "sub", "mul", "cmp", "equ", "modp_add", "modp_sub", "modp_mont_mul", "modn_add", "modn_sub", "modn_mont_mul", "modn_mul" };
static BIGNUM *T1, *T2, *T3, *RP, *RN, *RPI, *RNI, *M256;
static void mont_mul_ref(BIGNUM *r, const BIGNUM *a, const BIGNUM *b, const BIGNUM *m, const BIGNUM *rinv) { BN_mod_mul(r, a, b, m, sr_ctx()); BN_mod_mul(r, r, rinv, m, sr_ctx()); }

static void blk_binary(void) {
	for (int f = 0; f < NBIN; f++) {
		char bn[64]; snprintf(bn, sizeof bn, "bin-%s", BN_NAMES[f]); if (!vh_block_begin(bn)) continue;
		const BIGNUM *dom = (f >= F_PADD && f <= F_PMMUL) ? sr_p() : (f >= F_NADD) ? sr_n() : NULL;
		for (size_t i = 0; i < NOPS; i++) {
			if (!vh_next()) continue; if (dom && !lt(i, dom)) continue;
			if (vh_deadline_hit()) { vh_capped = 1; break; }
			for (size_t j = 0; j < NOPS; j++) {
				if (dom && !lt(j, dom)) continue;
				uint64_t r[8] = {0}, e[8] = {0}; uint64_t c = 0, ec = 0; int bad = 0; const uint64_t *a = OPS[i], *b = OPS[j];
				switch (f) {
				case F_ADD: c = sm2_z256_add(r, a, b); BN_add(T1, OPB[i], OPB[j]); ec = BN_is_bit_set(T1, 256); sr_bn_to_limbs(e, T1); bad = memcmp(r, e, 32) || c != ec; break;
				case F_SUB: c = sm2_z256_sub(r, a, b); ec = BN_cmp(OPB[i], OPB[j]) < 0; BN_sub(T1, OPB[i], OPB[j]); if (ec) BN_add(T1, T1, M256); sr_bn_to_limbs(e, T1); bad = memcmp(r, e, 32) || c != ec; break;
				case F_MUL: sm2_z256_mul(r, a, b); BN_mul(T1, OPB[i], OPB[j], sr_ctx()); sr_bn_to_limbs(e, T1); BN_rshift(T2, T1, 256); sr_bn_to_limbs(e + 4, T2); bad = memcmp(r, e, 64); break;
				case F_CMP: { int g = sm2_z256_cmp(a, b), x = BN_cmp(OPB[i], OPB[j]); bad = (g > 0) != (x > 0) || (g < 0) != (x < 0); r[0] = (uint64_t)g; e[0] = (uint64_t)x; } break;
				case F_EQU: { uint64_t g = sm2_z256_equ(a, b); bad = (g != 0) != (BN_cmp(OPB[i], OPB[j]) == 0) || (g != 0 && g != 1); r[0] = g; } break;
				case F_PADD: sm2_z256_modp_add(r, a, b); BN_mod_add(T1, OPB[i], OPB[j], sr_p(), sr_ctx()); sr_bn_to_limbs(e, T1); bad = memcmp(r, e, 32); break;
				case F_PSUB: sm2_z256_modp_sub(r, a, b); BN_mod_sub(T1, OPB[i], OPB[j], sr_p(), sr_ctx()); sr_bn_to_limbs(e, T1); bad = memcmp(r, e, 32); break;
				case F_PMMUL: sm2_z256_modp_mont_mul(r, a, b); mont_mul_ref(T1, OPB[i], OPB[j], sr_p(), RPI); sr_bn_to_limbs(e, T1); bad = memcmp(r, e, 32);
					if (i == j && !bad) { sm2_z256_modp_mont_sqr(r, a); bad = memcmp(r, e, 32) ? 2 : 0; } break;
				case F_NADD: sm2_z256_modn_add(r, a, b); BN_mod_add(T1, OPB[i], OPB[j], sr_n(), sr_ctx()); sr_bn_to_limbs(e, T1); bad = memcmp(r, e, 32); break;
				case F_NSUB: sm2_z256_modn_sub(r, a, b); BN_mod_sub(T1, OPB[i], OPB[j], sr_n(), sr_ctx()); sr_bn_to_limbs(e, T1); bad = memcmp(r, e, 32); break;
				case F_NMMUL: sm2_z256_modn_mont_mul(r, a, b); mont_mul_ref(T1, OPB[i], OPB[j], sr_n(), RNI); sr_bn_to_limbs(e, T1); bad = memcmp(r, e, 32);
					if (i == j && !bad) { sm2_z256_modn_mont_sqr(r, a); bad = memcmp(r, e, 32) ? 2 : 0; } break;
				case F_NMUL: sm2_z256_modn_mul(r, a, b); BN_mod_mul(T1, OPB[i], OPB[j], sr_n(), sr_ctx()); sr_bn_to_limbs(e, T1); bad = memcmp(r, e, 32);
					if (i == j && !bad) { sm2_z256_modn_sqr(r, a); bad = memcmp(r, e, 32) ? 2 : 0; } break;
				}
				vh_evals++; vh_nontriv++; /* (i,j) pairs are distinct by construction */
				/* the same call with the result written over an operand (the library itself calls these routines that way): r==a, r==b, and r==a==b on the diagonal */
				if (!bad && f >= F_ADD && f != F_MUL && f != F_CMP && f != F_EQU && (vh_thorough || ((i + j) & 3) == 0)) { for (int al = 0; al < 2; al++) { uint64_t t[4], u[4]; memcpy(t, al ? b : a, 32); memcpy(u, al ? a : b, 32); const uint64_t *pa = al ? u : t, *pb = al ? t : u; if (i == j && al) { pa = t; pb = t; }
					switch (f) { case F_ADD: sm2_z256_add(t, pa, pb); break; case F_SUB: sm2_z256_sub(t, pa, pb); break; case F_PADD: sm2_z256_modp_add(t, pa, pb); break; case F_PSUB: sm2_z256_modp_sub(t, pa, pb); break; case F_PMMUL: sm2_z256_modp_mont_mul(t, pa, pb); break; case F_NADD: sm2_z256_modn_add(t, pa, pb); break; case F_NSUB: sm2_z256_modn_sub(t, pa, pb); break; case F_NMMUL: sm2_z256_modn_mont_mul(t, pa, pb); break; case F_NMUL: sm2_z256_modn_mul(t, pa, pb); break; default: break; }
					vh_evals++; if (memcmp(t, e, 32)) { char key[96]; snprintf(key, sizeof key, "C13:%s:result-over-operand-%s", BN_NAMES[f], (i == j && al) ? "both" : al ? "b" : "a"); vh_viol(key, "\"a\":\"%s\",\"b\":\"%s\",\"got\":\"%s\",\"exp\":\"%s\"", lhex(a), lhex(b), lhex(t), lhex(e)); break; } } }
				if (bad) { char key[96]; snprintf(key, sizeof key, "C13:%s%s", BN_NAMES[f], bad == 2 ? ":sqr" : ""); vh_viol(key, "\"a\":\"%s\",\"b\":\"%s\",\"got\":\"%s\",\"exp\":\"%s\",\"carry\":%llu,\"expcarry\":%llu", lhex(a), lhex(b), lhex(r), lhex(e), (unsigned long long)c, (unsigned long long)ec); }
			}
			if ((i & 63) == 0) vh_sample("{\"block\":\"%s\",\"a\":\"%s\",\"pairs_with_all_b\":%zu}", bn, lhex(OPS[i]), NOPS);
		}
	}
}
static void chk1(const char *name, const uint64_t a[4], const uint64_t r[4], const BIGNUM *exp) {
	uint64_t e[4]; sr_bn_to_limbs(e, exp); vh_evals++; vh_nontriv++;
	if (memcmp(r, e, 32)) { char key[96]; snprintf(key, sizeof key, "C13:%s", name); vh_viol(key, "\"a\":\"%s\",\"got\":\"%s\",\"exp\":\"%s\"", lhex(a), lhex(r), lhex(e)); }
}
static void blk_unary(void) {
	if (!vh_block_begin("unary")) return;
	BN_CTX *c = sr_ctx(); const BIGNUM *p = sr_p(), *n = sr_n(); BIGNUM *two = BN_new(); BN_set_word(two, 2); BIGNUM *half = BN_new(); BN_mod_inverse(half, two, p, c);
	for (size_t i = 0; i < NOPS; i++) {
		if (!vh_next()) continue; const uint64_t *a = OPS[i]; uint64_t r[4], r2[4];
		{ uint64_t z = sm2_z256_is_zero(a); vh_evals++; if ((z != 0) != BN_is_zero(OPB[i])) vh_viol("C13:is_zero", "\"a\":\"%s\"", lhex(a)); }
		for (unsigned s = 0; s < 64; s++) { sm2_z256_rshift(r, a, s); BN_rshift(T1, OPB[i], s); chk1("rshift", a, r, T1); }
		{ uint8_t by[32], eb[32]; sm2_z256_to_bytes(a, by); sr_bn_to_bytes32(eb, OPB[i]); vh_evals++; if (memcmp(by, eb, 32)) vh_viol("C13:to_bytes", "\"a\":\"%s\"", lhex(a)); sm2_z256_from_bytes(r, eb); vh_evals++; if (memcmp(r, a, 32)) vh_viol("C13:from_bytes", "\"a\":\"%s\"", lhex(a)); }
		for (unsigned w = 5; w <= 7; w += 2) { int nw = (256 + w - 1) / w; BN_zero(T1); /* booth digits must reconstruct a */
			for (int k = nw - 1; k >= 0; k--) { int d = sm2_z256_get_booth(a, w, k); BN_lshift(T1, T1, w); if (d >= 0) BN_add_word(T1, d); else BN_sub_word(T1, -d); if (d > (1 << (w - 1)) || d < -(1 << (w - 1))) vh_viol("C13:get_booth:range", "\"a\":\"%s\",\"w\":%u,\"i\":%d,\"digit\":%d", lhex(a), w, k, d); }
			vh_evals++; vh_nontriv++; if (BN_cmp(T1, OPB[i]) != 0) { char key[64]; snprintf(key, sizeof key, "C13:get_booth:w%u", w); vh_viol(key, "\"a\":\"%s\"", lhex(a)); } }
		if (lt(i, p)) {
			sm2_z256_modp_dbl(r, a); BN_mod_lshift1(T1, OPB[i], p, c); chk1("modp_dbl", a, r, T1);
			sm2_z256_modp_tri(r, a); BN_mod_add(T2, T1, OPB[i], p, c); chk1("modp_tri", a, r, T2);
			sm2_z256_modp_neg(r, a); BN_mod_sub(T1, p, OPB[i], p, c); chk1("modp_neg", a, r, T1);
			sm2_z256_modp_haf(r, a); BN_mod_mul(T1, OPB[i], half, p, c); chk1("modp_haf", a, r, T1);
			sm2_z256_modp_to_mont(a, r); BN_mod_mul(T1, OPB[i], RP, p, c); chk1("modp_to_mont", a, r, T1);
			sm2_z256_modp_from_mont(r, a); BN_mod_mul(T1, OPB[i], RPI, p, c); chk1("modp_from_mont", a, r, T1);
			sm2_z256_modp_from_mont(r2, a); sm2_z256_modp_to_mont(r2, r); chk1("modp_mont_roundtrip", a, r, OPB[i]);
			if (!BN_is_zero(OPB[i])) { sm2_z256_modp_mont_inv(r, a); /* a = xR -> x^-1 R */ BN_mod_mul(T1, OPB[i], RPI, p, c); BN_mod_inverse(T1, T1, p, c); BN_mod_mul(T1, T1, RP, p, c); chk1("modp_mont_inv", a, r, T1); }
			{ int s = sm2_z256_modp_mont_sqrt(r, a); BN_mod_mul(T1, OPB[i], RPI, p, c); /* plain value */ BIGNUM *sq = BN_mod_sqrt(NULL, T1, p, c); vh_evals++; vh_nontriv++;
				if ((s == 1) != (sq != NULL)) vh_viol("C13:modp_mont_sqrt:existence", "\"a\":\"%s\",\"ret\":%d", lhex(a), s);
				else if (s == 1) { sr_limbs_to_bn(T2, r); BN_mod_mul(T2, T2, RPI, p, c); BN_mod_sqr(T3, T2, p, c); if (BN_cmp(T3, T1) != 0 || BN_cmp(T2, p) >= 0) vh_viol("C13:modp_mont_sqrt:value", "\"a\":\"%s\",\"got\":\"%s\"", lhex(a), lhex(r)); }
				BN_free(sq); ERR_clear_error(); }
			for (size_t ei = 0; ei < 6; ei++) { size_t j = (i * 7 + ei * 131) % NOPS; static const size_t FIX[] = { 0, 1 }; if (ei < 2) j = FIX[ei]; /* exponents: 0, 1, and four others */
				sm2_z256_modp_mont_exp(r, a, OPS[j]); BN_mod_mul(T1, OPB[i], RPI, p, c); BN_mod_exp(T1, T1, OPB[j], p, c); BN_mod_mul(T1, T1, RP, p, c); chk1("modp_mont_exp", a, r, T1); }
		}
		if (lt(i, n)) {
			sm2_z256_modn_neg(r, a); BN_mod_sub(T1, n, OPB[i], n, c); chk1("modn_neg", a, r, T1);
			sm2_z256_modn_to_mont(a, r); BN_mod_mul(T1, OPB[i], RN, n, c); chk1("modn_to_mont", a, r, T1);
			sm2_z256_modn_from_mont(r, a); BN_mod_mul(T1, OPB[i], RNI, n, c); chk1("modn_from_mont", a, r, T1);
			if (!BN_is_zero(OPB[i])) { sm2_z256_modn_inv(r, a); BN_mod_inverse(T1, OPB[i], n, c); chk1("modn_inv", a, r, T1);
				sm2_z256_modn_mont_inv(r, a); BN_mod_mul(T1, OPB[i], RNI, n, c); BN_mod_inverse(T1, T1, n, c); BN_mod_mul(T1, T1, RN, n, c); chk1("modn_mont_inv", a, r, T1); }
			for (size_t ei = 0; ei < 6; ei++) { size_t j = (i * 11 + ei * 97) % NOPS; if (ei < 2) j = ei;
				sm2_z256_modn_exp(r, a, OPS[j]); BN_mod_exp(T1, OPB[i], OPB[j], n, c); chk1("modn_exp", a, r, T1);
				sm2_z256_modn_mont_exp(r, a, OPS[j]); BN_mod_mul(T1, OPB[i], RNI, n, c); BN_mod_exp(T1, T1, OPB[j], n, c); BN_mod_mul(T1, T1, RN, n, c); chk1("modn_mont_exp", a, r, T1); }
		}
		if ((i & 127) == 0) vh_sample("{\"block\":\"unary\",\"a\":\"%s\"}", lhex(a));
	}
	BN_free(two); BN_free(half);
}
/* squarings over a WIDER limb alphabet (the all-pairs blocks above square only the diagonal of the small alphabet): the boundary limbs plus the limbs
   of p and n themselves and their neighbours, all 4-limb combinations; the dedicated squaring routines (separate code in the assembly back-end)
   against the integer reference and against the multiplication routine with both operands equal */
static void blk_squares(void) {
	if (!vh_block_begin("squares")) return;
	static const uint64_t LS[] = { 0, 1, 0xffffffffULL, 0x100000000ULL, 0x8000000000000000ULL, 0xffffffffffffffffULL, 0xffffffff00000000ULL, 0xfffffffeffffffffULL, 0xfffffffffffffffeULL, 0x7fffffffffffffffULL, 0x00000000fffffffeULL, 0x0000000100000001ULL,
		0x53BBF40939D54123ULL, 0x7203DF6B21C6052BULL, 0xfffffffe00000000ULL, 2 };
	size_t nl = vh_thorough ? 16 : 12; BN_CTX *c = sr_ctx(); BIGNUM *A = BN_new();
	for (size_t i3 = 0; i3 < nl; i3++) for (size_t i2 = 0; i2 < nl; i2++) { if (!vh_next()) continue; if (vh_deadline_hit()) { vh_capped = 1; break; }
		for (size_t i1 = 0; i1 < nl; i1++) for (size_t i0 = 0; i0 < nl; i0++) { uint64_t a[4] = { LS[i0], LS[i1], LS[i2], LS[i3] }, r[4], r2[4]; sr_limbs_to_bn(A, a);
			if (BN_cmp(A, sr_p()) < 0) { sm2_z256_modp_mont_sqr(r, a); mont_mul_ref(T1, A, A, sr_p(), RPI); chk1("modp_mont_sqr", a, r, T1); sm2_z256_modp_mont_mul(r2, a, a); chk1("modp_mont_mul(a,a)", a, r2, T1); }
			if (BN_cmp(A, sr_n()) < 0) { sm2_z256_modn_mont_sqr(r, a); mont_mul_ref(T1, A, A, sr_n(), RNI); chk1("modn_mont_sqr", a, r, T1); sm2_z256_modn_mont_mul(r2, a, a); chk1("modn_mont_mul(a,a)", a, r2, T1);
				sm2_z256_modn_sqr(r, a); BN_mod_sqr(T1, A, sr_n(), c); chk1("modn_sqr", a, r, T1); }
			{ uint64_t w[8], e[8]; sm2_z256_mul(w, a, a); BN_sqr(T1, A, c); sr_bn_to_limbs(e, T1); BN_rshift(T2, T1, 256); sr_bn_to_limbs(e + 4, T2); vh_evals++; vh_nontriv++; if (memcmp(w, e, 64)) vh_viol("C13:mul(a,a)", "\"a\":\"%s\"", lhex(a)); } }
		vh_sample("{\"block\":\"squares\",\"top_limbs\":[\"%016llx\",\"%016llx\"],\"operands\":%zu}", (unsigned long long)LS[i3], (unsigned long long)LS[i2], nl * nl); }
	BN_free(A);
}
/* ---------------- points ---------------- */
#define NPTS 17
static EC_POINT *RPT[NPTS]; static SM2_Z256_POINT LPT[NPTS]; static const char *PNAME[NPTS] = { "O", "O(0,0,0)", "G", "-G", "2G", "P", "-P", "2P", "Q", "P(Z=7)", "G(Z=R-ish)", "3G", "(0,sqrt(b))", "(0,-sqrt(b))", "P(storedZ=1)", "G(storedZ=2)", "P(storedZ=2^256-n)" }; /* the last two: representatives whose Z in the library's (Montgomery) storage is the WORD 1 / 2, i.e. z = R^-1, 2R^-1: what a test "Z == 1" written against the wrong constant mistakes for a normalised point */
static void build_points(void) {
	const EC_GROUP *g = sr_group(); BN_CTX *c = sr_ctx(); BIGNUM *k = BN_new(), *one = BN_new(), *z = BN_new(); BN_one(one);
	for (int i = 0; i < NPTS; i++) RPT[i] = EC_POINT_new(g);
	EC_POINT_set_to_infinity(g, RPT[0]); EC_POINT_set_to_infinity(g, RPT[1]); EC_POINT_copy(RPT[2], EC_GROUP_get0_generator(g)); EC_POINT_copy(RPT[3], RPT[2]); EC_POINT_invert(g, RPT[3], c);
	EC_POINT_dbl(g, RPT[4], RPT[2], c); BN_hex2bn(&k, "3945208F7B2144B13F36E38AC6D39F95889393692860B51A42FB81EF4DF7C5B8"); EC_POINT_mul(g, RPT[5], k, NULL, NULL, c);
	EC_POINT_copy(RPT[6], RPT[5]); EC_POINT_invert(g, RPT[6], c); EC_POINT_dbl(g, RPT[7], RPT[5], c); BN_hex2bn(&k, "59276E27D506861A16680F3AD9C02DCCEF3CC1FA3CDBE4CE6D54B80DEAC1BC21"); EC_POINT_mul(g, RPT[8], k, NULL, NULL, c);
	EC_POINT_copy(RPT[9], RPT[5]); EC_POINT_copy(RPT[10], RPT[2]); EC_POINT_copy(RPT[14], RPT[5]); EC_POINT_copy(RPT[15], RPT[2]); EC_POINT_copy(RPT[16], RPT[5]); BN_set_word(k, 3); EC_POINT_mul(g, RPT[11], k, NULL, NULL, c);
	{ /* the two points with x = 0 (b is a square mod p): a zero coordinate in an otherwise ordinary operand */ BIGNUM *bb = BN_new(), *y0 = BN_new(), *x0 = BN_new(); BN_hex2bn(&bb, "28E9FA9E9D9F5E344D5A9E4BCF6509A7F39789F515AB8F92DDBCBD414D940E93"); if (!BN_mod_sqrt(y0, bb, sr_p(), c)) vh_harness_error("sqrt(b)"); BN_zero(x0); if (!EC_POINT_set_affine_coordinates(g, RPT[12], x0, y0, c)) vh_harness_error("x=0 point"); EC_POINT_copy(RPT[13], RPT[12]); EC_POINT_invert(g, RPT[13], c); BN_free(bb); BN_free(y0); BN_free(x0); }
	for (int i = 0; i < NPTS; i++) { BN_one(z); if (i == 9) BN_set_word(z, 7); if (i == 10) { BN_copy(z, sr_p()); BN_sub_word(z, 5); } if (i == 14) BN_copy(z, RPI); if (i == 15) BN_mod_lshift1(z, RPI, sr_p(), c); if (i == 16) { /* stored Z = the Montgomery one of the OTHER modulus (R mod n) */ BN_mod_mul(z, RN, RPI, sr_p(), c); } sr_point_to_jac_mont(RPT[i], z, LPT[i].X, LPT[i].Y, LPT[i].Z); }
	memset(&LPT[1], 0, sizeof LPT[1]); /* the all-zero representation the library itself produces for [0]P */
	BN_free(k); BN_free(one); BN_free(z);
}
static int pt_eq(const SM2_Z256_POINT *L, const EC_POINT *E) { EC_POINT *t = EC_POINT_new(sr_group()); int ok = sr_point_from_jac_mont(t, L->X, L->Y, L->Z) && EC_POINT_cmp(sr_group(), t, E, sr_ctx()) == 0; EC_POINT_free(t); return ok; }
static void pt_fail(const char *op, int i, int j, const SM2_Z256_POINT *got) { char key[128]; snprintf(key, sizeof key, "C13:%s:%s%s%s", op, PNAME[i], j >= 0 ? "," : "", j >= 0 ? PNAME[j] : ""); vh_viol(key, "\"X\":\"%s\",\"Y\":\"%s\",\"Z\":\"%s\"", lhex(got->X), lhex(got->Y), lhex(got->Z)); }
static void blk_points(void) {
	if (!vh_block_begin("points")) return;
	const EC_GROUP *g = sr_group(); BN_CTX *c = sr_ctx(); EC_POINT *e = EC_POINT_new(g);
	for (int i = 0; i < NPTS; i++) for (int j = -1; j < NPTS; j++) {
		if (!vh_next()) continue; SM2_Z256_POINT r;
		if (j < 0) { /* unary */
			sm2_z256_point_dbl(&r, &LPT[i]); EC_POINT_dbl(g, e, RPT[i], c); vh_eval(vh_mix(i + 1)); if (!pt_eq(&r, e)) pt_fail("point_dbl", i, -1, &r);
			sm2_z256_point_neg(&r, &LPT[i]); EC_POINT_copy(e, RPT[i]); EC_POINT_invert(g, e, c); vh_eval(vh_mix(i + 101)); if (!pt_eq(&r, e)) pt_fail("point_neg", i, -1, &r);
			r = LPT[i]; sm2_z256_point_neg(&r, &r); vh_eval(vh_mix(i + 151)); if (!pt_eq(&r, e)) pt_fail("point_neg:in-place", i, -1, &r); r = LPT[i]; sm2_z256_point_dbl(&r, &r); EC_POINT_dbl(g, e, RPT[i], c); vh_eval(vh_mix(i + 51)); if (!pt_eq(&r, e)) pt_fail("point_dbl:in-place", i, -1, &r);
			{ int inf = sm2_z256_point_is_at_infinity(&LPT[i]); vh_eval(vh_mix(i + 201)); if ((inf == 1) != (EC_POINT_is_at_infinity(g, RPT[i]) == 1)) pt_fail("point_is_at_infinity", i, -1, &LPT[i]); }
			{ int oc = sm2_z256_point_is_on_curve(&LPT[i]); vh_eval(vh_mix(i + 301)); if (oc != 1 && !EC_POINT_is_at_infinity(g, RPT[i])) pt_fail("point_is_on_curve", i, -1, &LPT[i]); }
			{ uint64_t x[4], y[4]; uint8_t xy[64], exy[64]; int rr = sm2_z256_point_get_xy(&LPT[i], x, y); int er = sr_point_to_xy(RPT[i], exy); sm2_z256_to_bytes(x, xy); sm2_z256_to_bytes(y, xy + 32); vh_eval(vh_mix(i + 401));
				if ((rr == 1) != (er == 1) || (er && memcmp(xy, exy, 64))) pt_fail("point_get_xy", i, -1, &LPT[i]);
				if (er) { uint8_t b[64]; if (sm2_z256_point_to_bytes(&LPT[i], b) != 1 || memcmp(b, exy, 64)) pt_fail("point_to_bytes", i, -1, &LPT[i]); } }
			for (int k = 0; k < NPTS; k++) { int le = sm2_z256_point_equ(&LPT[i], &LPT[k]); int ee = EC_POINT_cmp(g, RPT[i], RPT[k], c) == 0; vh_eval(vh_mix(i * 100 + k + 501)); if ((le == 1) != ee) pt_fail("point_equ", i, k, &LPT[i]); }
			continue;
		}
		sm2_z256_point_add(&r, &LPT[i], &LPT[j]); EC_POINT_add(g, e, RPT[i], RPT[j], c); vh_eval(vh_mix(i * 100 + j + 1001)); if (!pt_eq(&r, e)) pt_fail("point_add", i, j, &r);
		sm2_z256_point_sub(&r, &LPT[i], &LPT[j]); EC_POINT_copy(e, RPT[j]); EC_POINT_invert(g, e, c); EC_POINT_add(g, e, RPT[i], e, c); vh_eval(vh_mix(i * 100 + j + 2001)); if (!pt_eq(&r, e)) pt_fail("point_sub", i, j, &r);
		{ r = LPT[i]; sm2_z256_point_add(&r, &r, &LPT[j]); EC_POINT_add(g, e, RPT[i], RPT[j], c); vh_eval(vh_mix(i * 100 + j + 2501)); if (!pt_eq(&r, e)) pt_fail("point_add:aliased", i, j, &r);
			r = LPT[j]; sm2_z256_point_add(&r, &LPT[i], &r); vh_eval(vh_mix(i * 100 + j + 2601)); if (!pt_eq(&r, e)) pt_fail("point_add:result-over-second-operand", i, j, &r);
			if (i == j) { r = LPT[i]; sm2_z256_point_add(&r, &r, &r); vh_eval(vh_mix(i * 100 + j + 2651)); if (!pt_eq(&r, e)) pt_fail("point_add:all-three-the-same-object", i, j, &r); }
			EC_POINT_copy(e, RPT[j]); EC_POINT_invert(g, e, c); EC_POINT_add(g, e, RPT[i], e, c); r = LPT[i]; sm2_z256_point_sub(&r, &r, &LPT[j]); vh_eval(vh_mix(i * 100 + j + 2701)); if (!pt_eq(&r, e)) pt_fail("point_sub:result-over-first-operand", i, j, &r);
			r = LPT[j]; sm2_z256_point_sub(&r, &LPT[i], &r); vh_eval(vh_mix(i * 100 + j + 2801)); if (!pt_eq(&r, e)) pt_fail("point_sub:result-over-second-operand", i, j, &r); }
		/* affine second operand: normalised points only ((0,0) encodes infinity) */
		if (j == 0 || (j >= 2 && j <= 8) || (j >= 11 && j <= 13)) { SM2_Z256_AFFINE_POINT af; memset(&af, 0, sizeof af); if (j) { memcpy(af.x, LPT[j].X, 32); memcpy(af.y, LPT[j].Y, 32); }
			int ok_add = 1, ok_sub = 1; sm2_z256_point_add_affine(&r, &LPT[i], &af); EC_POINT_add(g, e, RPT[i], RPT[j], c); vh_eval(vh_mix(i * 100 + j + 3001)); if (!pt_eq(&r, e)) { ok_add = 0; pt_fail("point_add_affine", i, j, &r); }
			sm2_z256_point_sub_affine(&r, &LPT[i], &af); EC_POINT_copy(e, RPT[j]); EC_POINT_invert(g, e, c); EC_POINT_add(g, e, RPT[i], e, c); vh_eval(vh_mix(i * 100 + j + 4001)); if (!pt_eq(&r, e)) { ok_sub = 0; pt_fail("point_sub_affine", i, j, &r); }
			/* in place; only where the separate-buffer call is right (its failures are reported above) */ r = LPT[i]; sm2_z256_point_sub_affine(&r, &r, &af); vh_eval(vh_mix(i * 100 + j + 4501)); if (ok_sub && !pt_eq(&r, e)) pt_fail("point_sub_affine:in-place", i, j, &r); r = LPT[i]; sm2_z256_point_add_affine(&r, &r, &af); EC_POINT_add(g, e, RPT[i], RPT[j], c); vh_eval(vh_mix(i * 100 + j + 3501)); if (ok_add && !pt_eq(&r, e)) pt_fail("point_add_affine:in-place", i, j, &r);
			if (i == 0 && j) { sm2_z256_point_copy_affine(&r, &af); vh_eval(vh_mix(j + 5001)); if (!pt_eq(&r, RPT[j])) pt_fail("point_copy_affine", j, -1, &r); } }
		vh_sample("{\"block\":\"points\",\"a\":\"%s\",\"b\":\"%s\"}", PNAME[i], PNAME[j]);
	}
	EC_POINT_free(e);
}
/* pairs of DIFFERENT points that agree in one affine coordinate. Same x = opposite points (in the grid above). Same y: for P = (x1, y) the other
   roots of x^3 + ax + b - y^2 are x = (-x1 +- sqrt(-3 x1^2 - 4a)) / 2; a general addition formula that tests "same y" where it means "same x"
   (or short-cuts on either) goes wrong exactly here. Every representation pair Z in {1, 7, p-5}; add, sub of the negative, affine second operand, aliased. */
static void blk_coincident(void) {
	if (!vh_block_begin("points-sharing-a-coordinate")) return;
	const EC_GROUP *g = sr_group(); BN_CTX *c = sr_ctx(); const BIGNUM *p = sr_p(); BIGNUM *k = BN_new(), *x1 = BN_new(), *y = BN_new(), *t = BN_new(), *rt = BN_new(), *x2 = BN_new(), *inv2 = BN_new(), *z = BN_new(), *a = BN_new();
	BN_set_word(inv2, 2); BN_mod_inverse(inv2, inv2, p, c); BN_copy(a, p); BN_sub_word(a, 3); EC_POINT *P = EC_POINT_new(g), *Q = EC_POINT_new(g), *e = EC_POINT_new(g), *nQ = EC_POINT_new(g); int pairs = 0;
	static const char *KS[] = { "3945208F7B2144B13F36E38AC6D39F95889393692860B51A42FB81EF4DF7C5B8", "59276E27D506861A16680F3AD9C02DCCEF3CC1FA3CDBE4CE6D54B80DEAC1BC21" };
	for (int ki = 1; ki <= 42; ki++) { if (ki <= 40) BN_set_word(k, (BN_ULONG)ki); else BN_hex2bn(&k, KS[ki - 41]); EC_POINT_mul(g, P, k, NULL, NULL, c); EC_POINT_get_affine_coordinates(g, P, x1, y, c);
		/* disc = -3 x1^2 - 4a */ BN_mod_sqr(t, x1, p, c); BN_mul_word(t, 3); BN_mod(t, t, p, c); BN_mod_sub(t, p, t, p, c); BN_copy(rt, a); BN_mul_word(rt, 4); BN_mod(rt, rt, p, c); BN_mod_sub(t, t, rt, p, c);
		if (BN_is_zero(t) || !BN_mod_sqrt(rt, t, p, c)) { ERR_clear_error(); continue; } /* no partner with this y */
		for (int sgn = 0; sgn < 2; sgn++) { if (sgn) BN_mod_sub(rt, p, rt, p, c); BN_mod_sub(x2, rt, x1, p, c); BN_mod_mul(x2, x2, inv2, p, c); if (!BN_cmp(x2, x1)) continue; if (!EC_POINT_set_affine_coordinates(g, Q, x2, y, c)) { ERR_clear_error(); vh_harness_error("same-y partner is not on the curve"); } pairs++;
			EC_POINT_copy(nQ, Q); EC_POINT_invert(g, nQ, c); EC_POINT_add(g, e, P, Q, c);
			for (int zi = 0; zi < 3; zi++) for (int zj = 0; zj < 3; zj++) { if (!vh_next()) continue; SM2_Z256_POINT LP, LQ, LnQ, r; BIGNUM *zz[2] = { BN_new(), BN_new() }; int zs[2] = { zi, zj }; for (int q = 0; q < 2; q++) { BN_one(zz[q]); if (zs[q] == 1) BN_set_word(zz[q], 7); if (zs[q] == 2) { BN_copy(zz[q], p); BN_sub_word(zz[q], 5); } }
				sr_point_to_jac_mont(P, zz[0], LP.X, LP.Y, LP.Z); sr_point_to_jac_mont(Q, zz[1], LQ.X, LQ.Y, LQ.Z); sr_point_to_jac_mont(nQ, zz[1], LnQ.X, LnQ.Y, LnQ.Z); BN_free(zz[0]); BN_free(zz[1]); char det[200]; snprintf(det, sizeof det, "\"k\":%d,\"partner\":%d,\"Z1\":%d,\"Z2\":%d", ki, sgn, zi, zj);
				sm2_z256_point_add(&r, &LP, &LQ); vh_eval(vh_mix(ki * 1000 + sgn * 100 + zi * 10 + zj + 7000001)); if (!pt_eq(&r, e)) vh_viol("C13:point_add:different-points-with-the-same-y", "%s", det);
				sm2_z256_point_add(&r, &LQ, &LP); vh_eval(vh_mix(ki * 1000 + sgn * 100 + zi * 10 + zj + 7100001)); if (!pt_eq(&r, e)) vh_viol("C13:point_add:different-points-with-the-same-y", "%s,\"swapped\":1", det);
				sm2_z256_point_sub(&r, &LP, &LnQ); vh_eval(vh_mix(ki * 1000 + sgn * 100 + zi * 10 + zj + 7200001)); if (!pt_eq(&r, e)) vh_viol("C13:point_sub:different-points-with-opposite-y", "%s", det);
				r = LP; sm2_z256_point_add(&r, &r, &LQ); vh_eval(vh_mix(ki * 1000 + sgn * 100 + zi * 10 + zj + 7300001)); if (!pt_eq(&r, e)) vh_viol("C13:point_add:aliased:different-points-with-the-same-y", "%s", det);
				if (zj == 0) { SM2_Z256_AFFINE_POINT af; memcpy(af.x, LQ.X, 32); memcpy(af.y, LQ.Y, 32); sm2_z256_point_add_affine(&r, &LP, &af); vh_eval(vh_mix(ki * 1000 + sgn * 100 + zi * 10 + 7400001)); if (!pt_eq(&r, e)) vh_viol("C13:point_add_affine:different-points-with-the-same-y", "%s", det);
					memcpy(af.x, LnQ.X, 32); memcpy(af.y, LnQ.Y, 32); sm2_z256_point_sub_affine(&r, &LP, &af); vh_eval(vh_mix(ki * 1000 + sgn * 100 + zi * 10 + 7500001)); if (!pt_eq(&r, e)) vh_viol("C13:point_sub_affine:different-points-with-opposite-y", "%s", det); } } } }
	if (pairs < 20) vh_harness_error("fewer than 20 same-y pairs constructed");
	vh_sample("{\"block\":\"points-sharing-a-coordinate\",\"same_y_pairs\":%d,\"representations\":9}", pairs);
	BN_free(k); BN_free(x1); BN_free(y); BN_free(t); BN_free(rt); BN_free(x2); BN_free(inv2); BN_free(z); BN_free(a); EC_POINT_free(P); EC_POINT_free(Q); EC_POINT_free(e); EC_POINT_free(nQ);
}
/* scalars: one non-zero Booth window v*2^(w*i); adjacent-window pairs; boundary scalars; on every route */
static void scalar_case(const BIGNUM *k, const char *what) {
	const EC_GROUP *g = sr_group(); BN_CTX *c = sr_ctx(); uint64_t kl[4]; sr_bn_to_limbs(kl, k); EC_POINT *e = EC_POINT_new(g); SM2_Z256_POINT r; char key[128];
	uint64_t kh = vh_hash(kl, 32, 0);
	sm2_z256_point_mul_generator(&r, kl); EC_POINT_mul(g, e, k, NULL, NULL, c); vh_eval(vh_mix(kh + 1)); if (!pt_eq(&r, e)) { snprintf(key, sizeof key, "C13:point_mul_generator:%s", what); vh_viol(key, "\"k\":\"%s\"", lhex(kl)); }
	static const int PI[] = { 2, 5, 9, 10, 14, 15, 16 }; /* G, P, P(Z=7), G(Z!=1), P and G with the stored Z word 1 / 2 */
	for (int pi = 0; pi < 7; pi++) { int i = PI[pi]; EC_POINT_mul(g, e, NULL, RPT[i], k, c);
		sm2_z256_point_mul(&r, kl, &LPT[i]); vh_eval(vh_mix(kh + 10 + pi)); if (!pt_eq(&r, e)) { snprintf(key, sizeof key, "C13:point_mul:%s:%s", PNAME[i], what); vh_viol(key, "\"k\":\"%s\"", lhex(kl)); }
		SM2_Z256_POINT T[16]; sm2_z256_point_mul_pre_compute(&LPT[i], T); sm2_z256_point_mul_ex(&r, kl, T); vh_eval(vh_mix(kh + 20 + pi)); if (!pt_eq(&r, e)) { snprintf(key, sizeof key, "C13:point_mul_ex:%s:%s", PNAME[i], what); vh_viol(key, "\"k\":\"%s\"", lhex(kl)); }
		if (pi < 2 || pi == 4) { /* [k]P + [s]G for s in {k, 1, n-k} */ BIGNUM *s = BN_new(); for (int sv = 0; sv < 3; sv++) { if (sv == 0) BN_copy(s, k); else if (sv == 1) BN_one(s); else { BN_nnmod(s, k, sr_n(), c); BN_sub(s, sr_n(), s); BN_mask_bits(s, 256); }
			uint64_t sl[4]; sr_bn_to_limbs(sl, s); sm2_z256_point_mul_sum(&r, kl, &LPT[i], sl); EC_POINT_mul(g, e, s, RPT[i], k, c); vh_eval(vh_mix(kh + 30 + pi * 3 + sv)); if (!pt_eq(&r, e)) { snprintf(key, sizeof key, "C13:point_mul_sum:%s:%s:s%d", PNAME[i], what, sv); vh_viol(key, "\"t\":\"%s\",\"s\":\"%s\"", lhex(kl), lhex(sl)); } } BN_free(s); }
	}
	EC_POINT_free(e);
}
static void blk_scalars(void) {
	if (!vh_block_begin("scalars")) return;
	BIGNUM *k = BN_new(), *t = BN_new();
	for (unsigned w = 5; w <= 7; w += 2) { unsigned nw = (256 + w - 1) / w; for (unsigned i = 0; i < nw; i++) for (unsigned v = 0; v < (1u << w); v++) { if (!vh_next()) continue; BN_set_word(k, v); BN_lshift(k, k, w * i); BN_mask_bits(k, 256); scalar_case(k, "single-window"); } }
	static const unsigned AV[] = { 0, 1, 15, 16, 17, 31, 63, 64, 65, 127 };
	for (unsigned w = 5; w <= 7; w += 2) { unsigned nw = (256 + w - 1) / w; for (unsigned i = 0; i + 1 < nw; i++) for (int a = 0; a < 10; a++) for (int b = 0; b < 10; b++) { if (!vh_next()) continue; if (AV[a] >= (1u << w) || AV[b] >= (1u << w)) continue;
		BN_set_word(k, AV[b]); BN_lshift(k, k, w); BN_add_word(k, AV[a]); BN_lshift(k, k, w * i); BN_mask_bits(k, 256); scalar_case(k, "adjacent-windows"); } }
	/* scalars just below the group order: n - v*2^(w*i); the wrap-around of the window sums is where a partial sum can meet a table entry */
	for (unsigned i = 0; i < 4; i++) for (unsigned v = 0; v < (vh_thorough ? 4096u : 600u); v++) { if (!vh_next()) continue; BN_set_word(t, v); BN_lshift(t, t, 7 * i); BN_sub(k, sr_n(), t); if (BN_is_negative(k)) continue; scalar_case(k, "n-minus-small"); }
	for (size_t i = NOPS - 18; i < NOPS; i++) { if (!vh_next()) continue; scalar_case(OPB[i], "boundary"); }
	for (size_t i = 0; i < NOPS - 18; i += (vh_thorough ? 1 : 7)) { if (!vh_next()) continue; scalar_case(OPB[i], "limb-alphabet"); }
	BN_free(k); BN_free(t);
}
static void body(void) { blk_unary(); blk_squares(); blk_points(); blk_coincident(); blk_scalars(); blk_binary(); }
int main(int argc, char **argv) {
	vh_init(argc, argv); if (!freopen("/dev/null", "w", stderr)) {} sr_init(); build_ops();
	T1 = BN_new(); T2 = BN_new(); T3 = BN_new(); RP = BN_new(); RN = BN_new(); RPI = BN_new(); RNI = BN_new(); M256 = BN_new(); BN_set_bit(M256, 256);
	BN_mod(RP, M256, sr_p(), sr_ctx()); BN_mod(RN, M256, sr_n(), sr_ctx()); BN_mod_inverse(RPI, RP, sr_p(), sr_ctx()); BN_mod_inverse(RNI, RN, sr_n(), sr_ctx()); build_points();
	vh_guarded("C13", body, 120);
	return vh_finish();
}
