/* C06 (part b) — no memory-safety violation on arbitrary untrusted input: bytes arriving from the network peer.
 * Honest endpoints over vnet; the peer / network applies exactly one deviation to the handshake byte stream:
 *   sub      every byte of every record on the wire (5 header bytes included) replaced by each value of a boundary alphabet
 *   trunc    every consistent truncation of every plaintext handshake message (record and handshake lengths adjusted)
 *   bigcert  the Certificate message replaced by a well-formed list of T bytes of certificates, T around and beyond the 2048-byte store
 *   wsub / wtrunc   the same two for the ENCRYPTED TLS 1.3 handshake messages, applied by a malicious peer before encryption
 *                   (link-time wrap of sm4_gcm_encrypt in the sending endpoint)
 *   post     crafted records (type x length x filler) right after the handshake
 * Oracle per execution (forked): no sanitizer report / signal / abort, no hang, termination within the scheduler horizon, and the
 * STATE GUARD: the victim's configured trust anchors, own chain, own keys, role, protocol, suite list are bit-identical before and
 * after, and every length field of TLS_CONNECT stays within its buffer (catches overflows inside the struct that ASan cannot see). */
#include <stdio.h>
#include <sys/mman.h>
#include <sys/wait.h>
#include "vh.h"
#include "venv.h"
#include "tlsh.h"

enum { F_NONE, F_SUB, F_TRUNC, F_BIGCERT, F_WSUB, F_WTRUNC, F_POST, F_EXT, NF };
static const char *FN[] = { "none", "sub", "trunc", "bigcert", "wsub", "wtrunc", "post", "ext" };
typedef struct { int kind, dir, idx; size_t off; int k; long arg; } fault_t;
static fault_t FA; static int HAVE;
#define MAXENC 16
typedef struct { int status, c_done, s_done, nrec; struct { int dir; size_t len; uint8_t type, hs; } rec[64]; int nenc[2]; size_t enclen[2][MAXENC]; char guard[2][96]; uint8_t hello[2][900]; size_t hello_len[2]; } out_t;
static out_t *XO; static side_creds SRV[3], CLI[3];
static const uint8_t SUBV[7] = { 0x00, 0x01, 0x7f, 0x80, 0x81, 0xfe, 0xff };
static uint8_t subst(uint8_t orig, int k) { return k < 7 ? SUBV[k] : (k == 7 ? orig ^ 0x01 : orig ^ 0x80); }

/* ---- structure-aware rewriting of the extension block of a plaintext ClientHello / ServerHello record (all enclosing lengths re-encoded) ---- */
typedef struct { size_t exts_off /* offset of the 2-byte extensions length inside the record, 0 if none */; int n; struct { size_t off, dlen; } e[24]; } hello_t;
static int hello_parse(const uint8_t *rec, size_t len, hello_t *h) { memset(h, 0, sizeof *h); if (len < 9 + 35 || rec[0] != 22 || (rec[5] != 1 && rec[5] != 2)) return 0; size_t p = 9 + 2 + 32; if (p >= len) return 0; p += 1 + rec[p]; /* session id */ if (rec[5] == 1) { if (p + 2 > len) return 0; p += 2 + (((size_t)rec[p] << 8) | rec[p + 1]); if (p + 1 > len) return 0; p += 1 + rec[p]; } else p += 3;
	if (p + 2 > len) return 0; size_t el = ((size_t)rec[p] << 8) | rec[p + 1]; if (p + 2 + el != len) return 0; h->exts_off = p; size_t q = p + 2; while (q + 4 <= len && h->n < 24) { size_t dl = ((size_t)rec[q + 2] << 8) | rec[q + 3]; if (q + 4 + dl > len) return 0; h->e[h->n].off = q; h->e[h->n].dlen = dl; h->n++; q += 4 + dl; } return q == len; }
/* ops: 0 delete extension e; 1 repeat extension e arg times; 2 cut its data to arg bytes; 3 shrink the inner vector whose 2-byte length sits at data offset (arg >> 16) to (arg & 0xffff) bytes */
static size_t hello_rewrite(uint8_t *rec, size_t len, size_t cap, int e, int op, long arg) { hello_t h; if (!hello_parse(rec, len, &h) || e >= h.n) return len; static uint8_t out[70000]; size_t k = h.exts_off + 2; memcpy(out, rec, k);
	for (int i = 0; i < h.n; i++) { const uint8_t *x = rec + h.e[i].off; size_t dl = h.e[i].dlen; if (i != e) { memcpy(out + k, x, 4 + dl); k += 4 + dl; continue; }
		if (op == 0) continue; if (op == 1) { for (long c = 0; c < arg && k + 4 + dl < 16000; c++) { memcpy(out + k, x, 4 + dl); k += 4 + dl; } continue; }
		if (op == 2) { size_t nl = (size_t)arg < dl ? (size_t)arg : dl; out[k] = x[0]; out[k + 1] = x[1]; out[k + 2] = (uint8_t)(nl >> 8); out[k + 3] = (uint8_t)nl; memcpy(out + k + 4, x + 4, nl); k += 4 + nl; continue; }
		{ size_t j = (size_t)(arg >> 16), t = (size_t)(arg & 0xffff); if (j + 2 > dl) { memcpy(out + k, x, 4 + dl); k += 4 + dl; continue; } size_t nl = j + 2 + t; out[k] = x[0]; out[k + 1] = x[1]; out[k + 2] = (uint8_t)(nl >> 8); out[k + 3] = (uint8_t)nl; memcpy(out + k + 4, x + 4, j); out[k + 4 + j] = (uint8_t)(t >> 8); out[k + 5 + j] = (uint8_t)t; memcpy(out + k + 6 + j, x + 4 + j + 2, t); k += 4 + nl; } }
	if (k > cap || k > 16384 + 5) return len; size_t el = k - h.exts_off - 2, hl = k - 9, rl = k - 5; out[h.exts_off] = (uint8_t)(el >> 8); out[h.exts_off + 1] = (uint8_t)el; out[6] = (uint8_t)(hl >> 16); out[7] = (uint8_t)(hl >> 8); out[8] = (uint8_t)hl; out[3] = (uint8_t)(rl >> 8); out[4] = (uint8_t)rl; memcpy(rec, out, k); return k; }
static int adv(vn_rec *r) {
	if (!HAVE || FA.dir != r->dir || FA.idx != r->idx) return 1;
	if (FA.kind == F_SUB) { if (FA.off < r->len) r->rec[FA.off] = subst(r->rec[FA.off], FA.k); }
	else if (FA.kind == F_TRUNC) { size_t t = FA.off; if (t < r->len - 5) { r->len = 5 + t; r->rec[3] = (uint8_t)(t >> 8); r->rec[4] = (uint8_t)t; if (t >= 4) { size_t h = t - 4; r->rec[6] = (uint8_t)(h >> 16); r->rec[7] = (uint8_t)(h >> 8); r->rec[8] = (uint8_t)h; } } }
	else if (FA.kind == F_EXT) { r->len = hello_rewrite(r->rec, r->len, r->cap, (int)FA.off, FA.k, FA.arg); }
	else if (FA.kind == F_BIGCERT) { /* list of copies of the first certificate of the original message, FA.off bytes of DER in total (last one cut to fit is NOT done: whole certificates only) */
		if (r->len < 5 + 4 + 3 + 3 + 4 || r->rec[5] != 11) return 1; size_t c1 = ((size_t)r->rec[12] << 16) | ((size_t)r->rec[13] << 8) | r->rec[14]; if (15 + c1 > r->len) return 1; static uint8_t cert[4096]; if (c1 > sizeof cert) return 1; memcpy(cert, r->rec + 15, c1);
		size_t n = (FA.off + c1 - 1) / c1, k = 12; for (size_t i = 0; i < n && k + 3 + c1 < 16384 + 5; i++) { r->rec[k++] = (uint8_t)(c1 >> 16); r->rec[k++] = (uint8_t)(c1 >> 8); r->rec[k++] = (uint8_t)c1; memcpy(r->rec + k, cert, c1); k += c1; }
		size_t ll = k - 12, hl = k - 9, rl = k - 5; r->rec[9] = (uint8_t)(ll >> 16); r->rec[10] = (uint8_t)(ll >> 8); r->rec[11] = (uint8_t)ll; r->rec[6] = (uint8_t)(hl >> 16); r->rec[7] = (uint8_t)(hl >> 8); r->rec[8] = (uint8_t)hl; r->rec[3] = (uint8_t)(rl >> 8); r->rec[4] = (uint8_t)rl; r->len = k; }
	return 1; }
static const uint8_t PT[6] = { 20, 21, 22, 23, 24, 0xff }; static const size_t PL[16] = { 0, 1, 2, 16, 17, 31, 32, 33, 48, 63, 64, 65, 16384, 18432, 18433, 65535 };
static void adv_after(int dir, int idx) { if (!HAVE || FA.kind != F_POST || FA.dir != dir || FA.idx != idx) return; static uint8_t rec[5 + 65535]; int ti = FA.k % 6, fill = FA.k / 6; size_t L = PL[FA.off]; rec[0] = PT[ti]; rec[1] = 3; rec[2] = 3; for (int k = vn_nlog - 1; k >= 0; k--) if (vn_log[k].dir == dir) { rec[1] = vn_log[k].hdr[1]; rec[2] = vn_log[k].hdr[2]; break; } rec[3] = (uint8_t)(L >> 8); rec[4] = (uint8_t)L; for (size_t i = 0; i < L; i++) rec[5 + i] = fill == 0 ? 0 : (fill == 1 ? 0xff : (uint8_t)(i * 31 + 7)); vn_inject(dir, rec, 5 + L); }

/* malicious TLS 1.3 peer: plaintext of the k-th encrypted record of one side altered before encryption */
int __real_sm4_gcm_encrypt(const SM4_KEY *key, const uint8_t *iv, size_t ivlen, const uint8_t *aad, size_t aadlen, const uint8_t *in, size_t inlen, uint8_t *out, size_t taglen, uint8_t *tag);
static int ENCIDX[2];
int __wrap_sm4_gcm_encrypt(const SM4_KEY *key, const uint8_t *iv, size_t ivlen, const uint8_t *aad, size_t aadlen, const uint8_t *in, size_t inlen, uint8_t *out, size_t taglen, uint8_t *tag) {
	if (vn_me < 0 || !vn_active) return __real_sm4_gcm_encrypt(key, iv, ivlen, aad, aadlen, in, inlen, out, taglen, tag);
	int me = vn_me, idx = ENCIDX[me]++; if (idx < MAXENC) { XO->enclen[me][idx] = inlen; XO->nenc[me] = idx + 1; }
	if (HAVE && (FA.kind == F_WSUB || FA.kind == F_WTRUNC) && FA.dir == me && FA.idx == idx && inlen < 20000) { static __thread uint8_t m[20000]; memcpy(m, in, inlen);
		if (FA.kind == F_WSUB) { if (FA.off < inlen) m[FA.off] = subst(m[FA.off], FA.k); }
		else { size_t t = FA.off; if (t + 1 < inlen) { if (t >= 4) { size_t h = t - 4; m[1] = (uint8_t)(h >> 16); m[2] = (uint8_t)(h >> 8); m[3] = (uint8_t)h; } m[t] = 22; memset(m + t + 1, 0, inlen - t - 1); } }
		return __real_sm4_gcm_encrypt(key, iv, ivlen, aad, aadlen, m, inlen, out, taglen, tag); }
	return __real_sm4_gcm_encrypt(key, iv, ivlen, aad, aadlen, in, inlen, out, taglen, tag); }

/* ---- state guard ---- */
typedef struct { int protocol, is_client; int cs[TLS_MAX_CIPHER_SUITES_COUNT]; size_t cscnt; uint8_t own[TLS_MAX_CERTIFICATES_SIZE]; size_t ownlen; uint8_t ca[2048]; size_t calen; SM2_KEY sk, ek; } snap_t;
static snap_t SNAP[2];
static int allzero(const void *p, size_t n) { const uint8_t *b = (const uint8_t *)p; for (size_t i = 0; i < n; i++) if (b[i]) return 0; return 1; }
static void take(snap_t *s, const TLS_CONNECT *c) { memset(s, 0, sizeof *s); s->protocol = c->protocol; s->is_client = c->is_client; memcpy(s->cs, c->cipher_suites, sizeof s->cs); s->cscnt = c->cipher_suites_cnt; memcpy(s->own, c->is_client ? c->client_certs : c->server_certs, sizeof s->own); s->ownlen = c->is_client ? c->client_certs_len : c->server_certs_len; memcpy(s->ca, c->ca_certs, sizeof s->ca); s->calen = c->ca_certs_len; s->sk = c->sign_key; s->ek = c->kenc_key; }
static void hook(void *ev, TLS_CONNECT *c, int phase) { ep_t *e = (ep_t *)ev; int me = e->is_client ? 0 : 1; if (phase == 0) { take(&SNAP[me], c); return; } snap_t n; take(&n, c); const snap_t *o = &SNAP[me]; const char *bad = NULL;
	if (n.is_client != o->is_client) bad = "role"; else if (n.cscnt != o->cscnt || memcmp(n.cs, o->cs, sizeof n.cs)) bad = "cipher-suite-configuration";
	else if (n.calen != o->calen || memcmp(n.ca, o->ca, sizeof n.ca)) bad = "trusted-ca-certificates"; else if ((n.ownlen != o->ownlen && !(o->is_client && n.ownlen == 0) /* a client that is not asked for a certificate, or cannot satisfy the request, sets the LENGTH of its chain to 0 */) || memcmp(n.own, o->own, sizeof n.own)) bad = "own-certificate-chain"; else if (memcmp(&n.sk, &o->sk, sizeof n.sk) && !(o->is_client && allzero(&n.sk, sizeof n.sk)) /* a client that will not authenticate wipes its signing key */) bad = "own-signing-key"; else if (memcmp(&n.ek, &o->ek, sizeof n.ek)) bad = "own-encryption-key";
	else if (c->server_certs_len > sizeof c->server_certs) bad = "server_certs_len-beyond-buffer"; else if (c->client_certs_len > sizeof c->client_certs) bad = "client_certs_len-beyond-buffer"; else if (c->session_id_len > sizeof c->session_id) bad = "session_id_len-beyond-buffer"; else if (c->datalen > sizeof c->databuf) bad = "datalen-beyond-buffer"; else if (c->data && (c->data < c->databuf || c->data > c->databuf + sizeof c->databuf)) bad = "data-pointer-outside-buffer";
	if (bad) snprintf(XO->guard[me], sizeof XO->guard[me], "%s", bad); }

typedef struct { ep_t e; int post, done; } cep_t;
static int cep_task(void *arg) { cep_t *c = (cep_t *)arg; c->e.do_app = 0; c->e.do_close = 0; int r = ep_task(&c->e); c->done = (c->e.hs_ret == 1); if (!c->done || !c->post) return r; TLS_CONNECT *conn = c->e.conn_out;
	ep_send(&c->e, conn, APPDATA[c->e.is_client ? 0 : 1], 17); static __thread uint8_t rb[20000]; for (int i = 0; i < 2; i++) { size_t g = 0; int rr = ep_recv(&c->e, conn, rb, sizeof rb, &g); if (rr != 1) break; } hook(&c->e, conn, 1); return r; }
static int P_, M_, POST_ = 1;
static int run_child(void *unused) { (void)unused; static cep_t c, s; memset(&c, 0, sizeof c); memset(&s, 0, sizeof s); int proto = P_, mutual = M_; c.e.proto = s.e.proto = proto; c.e.is_client = 1; c.e.mutual = s.e.mutual = mutual; c.e.own = &CLI[proto]; s.e.own = &SRV[proto]; c.e.trust = &SRV[proto]; s.e.trust = mutual ? &CLI[proto] : NULL; c.e.entropy_key = 0xC11E17; s.e.entropy_key = 0x5E12BE12; c.e.entropy_fail_at = s.e.entropy_fail_at = -1; c.post = s.post = POST_;
	vx_explore_env = 0; vn_adv = adv; vn_adv_after = adv_after; ep_hook = hook; ENCIDX[0] = ENCIDX[1] = 0; int cr, sr; XO->status = vnet_run2(cep_task, &c, cep_task, &s, &cr, &sr); XO->c_done = c.done; XO->s_done = s.done;
	XO->nrec = vn_nlog < 64 ? vn_nlog : 64; for (int i = 0; i < XO->nrec; i++) { XO->rec[i].dir = vn_log[i].dir; XO->rec[i].len = vn_log[i].len; XO->rec[i].type = vn_log[i].hdr[0]; XO->rec[i].hs = vn_log[i].len > 5 ? vn_log[i].copy[5] : 0; } for (int i = 0; i < vn_nlog && i < 4; i++) if (vn_log[i].hdr[0] == 22 && vn_log[i].len > 5 && (vn_log[i].copy[5] == 1 || vn_log[i].copy[5] == 2) && vn_log[i].len <= 900) { int w = vn_log[i].copy[5] - 1; if (!XO->hello_len[w]) { memcpy(XO->hello[w], vn_log[i].copy, vn_log[i].len); XO->hello_len[w] = vn_log[i].len; } } return 0; }
static vh_obs_t OB;
static void run_exec(int p, int m) { memset(XO, 0, sizeof *XO); P_ = p; M_ = m; vh_obs_free(&OB); vh_fork(run_child, NULL, 40, &OB, NULL, 0, NULL); }
static const char *fdesc(void) { static char b[160]; if (!HAVE) return "none"; snprintf(b, sizeof b, "%s:%s#%d+%zu/%d/%ld", FN[FA.kind], (FA.kind == F_WSUB || FA.kind == F_WTRUNC) ? (FA.dir ? "server-enc" : "client-enc") : (FA.dir ? "c2s" : "s2c"), FA.idx, FA.off, FA.k, FA.arg); return b; }
static const char *report(void) { static char b[900]; b[0] = 0; if (!OB.err) return b; const char *p = strstr(OB.err, "ERROR: AddressSanitizer"); if (!p) p = strstr(OB.err, "MemorySanitizer:"); if (!p) p = strstr(OB.err, "runtime error"); if (!p) { size_t l = OB.errlen; p = OB.err + (l > 500 ? l - 500 : 0); } size_t n = 0; for (; *p && n < sizeof b - 1; p++) b[n++] = (*p == '"' || *p == '\\') ? ' ' : (*p == '\n' ? '|' : ((unsigned char)*p < 32 ? ' ' : *p)); b[n] = 0; return b; }
static uint64_t OUTC[4];
static void judge(int p, int m) { char key[200]; const char *cn = m ? "mutual" : "serverauth"; vh_eval(vh_hash(&FA, sizeof FA, p * 2 + m + 1));
	if (OB.kind) { snprintf(key, sizeof key, "C06:peer:%s-%s:%s:crash:%s", PNAME[p], cn, FN[FA.kind], OB.kind == 4 ? "hang" : OB.what); vh_viol(key, "\"fault\":\"%s\",\"report\":\"%s\"", fdesc(), report()); return; }
	if (XO->status & 2) { snprintf(key, sizeof key, "C06:peer:%s-%s:%s:no-termination-within-horizon", PNAME[p], cn, FN[FA.kind]); vh_viol(key, "\"fault\":\"%s\"", fdesc()); }
	for (int i = 0; i < 2; i++) if (XO->guard[i][0]) { snprintf(key, sizeof key, "C06:peer:%s-%s:%s:state-corrupted:%s:%s", PNAME[p], cn, FN[FA.kind], i ? "server" : "client", XO->guard[i]); vh_viol(key, "\"fault\":\"%s\"", fdesc()); }
	OUTC[(XO->c_done ? 1 : 0) | (XO->s_done ? 2 : 0)]++; }
static void body(void) {
	/* thinning parameters of this job (recorded in the evidence): offsets beyond the dense prefix are visited every `step` bytes */
	size_t step = getenv("C06B_STEP") ? (size_t)atoi(getenv("C06B_STEP")) : (vh_thorough ? 1 : 3); size_t dense_n = getenv("C06B_DENSE") ? (size_t)atoi(getenv("C06B_DENSE")) : 160; unsigned subs = getenv("C06B_SUBS") ? (unsigned)strtoul(getenv("C06B_SUBS"), NULL, 0) : 0x1ff; if (!step) step = 1;
	if (vh_shard == 0 && !vh_replay_block) vh_sample("{\"params\":\"step=%zu dense=%zu subs=0x%x\"}", step, dense_n, subs);
	for (int p = 0; p < 3; p++) for (int m = 0; m < 2; m++) { char bn[64]; snprintf(bn, sizeof bn, "peer-%s-%s", PNAME[p], m ? "mutual" : "serverauth"); if (!vh_block_begin(bn)) continue;
		HAVE = 0; POST_ = 1; run_exec(p, m); out_t base = *XO; if (OB.kind || !base.c_done || !base.s_done || base.guard[0][0] || base.guard[1][0]) { if (vh_next()) vh_viol("C06:peer:baseline-honest-run-fails", "\"proto\":\"%s\",\"mutual\":%d,\"what\":\"%s\",\"guard\":\"%s%s\"", PNAME[p], m, OB.what, base.guard[0], base.guard[1]); continue; }
		POST_ = 0; run_exec(p, m); base = *XO; POST_ = 1;
		int nrec = base.nrec; int cnt[2] = { 0, 0 }; int idxof[64]; for (int i = 0; i < nrec; i++) idxof[i] = cnt[base.rec[i].dir]++; HAVE = 1;
		if (vh_shard == 0 && !vh_replay_block) { char d[700] = ""; for (int i = 0; i < nrec; i++) { char t[32]; snprintf(t, sizeof t, "%s%s:%d:%zu", i ? "," : "", base.rec[i].dir ? "c2s" : "s2c", base.rec[i].type, base.rec[i].len - 5); strcat(d, t); } vh_sample("{\"block\":\"%s\",\"records\":\"%s\",\"enc_client\":%d,\"enc_server\":%d}", bn, d, base.nenc[0], base.nenc[1]); }
		for (int i = 0; i < nrec; i++) { size_t rl = base.rec[i].len; int plain_hs = base.rec[i].type == 22 && !(i > 0 && base.rec[i - 1].type == 20 && base.rec[i - 1].dir == base.rec[i].dir) && !(p == 2 && base.rec[i].hs != 1 && base.rec[i].hs != 2);
			for (size_t off = 0; off < rl; off++) { int dense = off < 5 || (plain_hs && off < 5 + dense_n); if (!dense && (off % step)) continue; for (int k = 0; k < 9; k++) { if (!vh_next()) continue; if (!(subs >> k & 1)) continue; if (vh_deadline_hit()) { vh_capped = 1; continue; } FA = (fault_t){ F_SUB, base.rec[i].dir, idxof[i], off, k }; run_exec(p, m); judge(p, m); } }
			if (plain_hs) for (size_t t = 0; t + 5 < rl; t += (t < dense_n + 40 ? 1 : step)) { if (!vh_next()) continue; if (vh_deadline_hit()) { vh_capped = 1; continue; } FA = (fault_t){ F_TRUNC, base.rec[i].dir, idxof[i], t, 0 }; run_exec(p, m); judge(p, m); }
			if (plain_hs && base.rec[i].hs == 11) { static const size_t T[] = { 2040, 2049, 2056, 2060, 2100, 4096, 4200, 6200, 8300, 12000, 16000 }; for (int k = 0; k < 11; k++) { if (!vh_next()) continue; FA = (fault_t){ F_BIGCERT, base.rec[i].dir, idxof[i], T[k], 0 }; run_exec(p, m); judge(p, m); } } }
		/* hello extension blocks (TLS 1.2 and TLS 1.3): delete / repeat / cut every extension, shrink every inner vector that reaches the end of its extension */
		for (int w = 0; w < 2; w++) { hello_t h; if (!base.hello_len[w] || !hello_parse(base.hello[w], base.hello_len[w], &h)) continue; int hdir = w == 0 ? 1 : 0; /* ClientHello travels c2s */ int hidx = 0;
			for (int e = 0; e < h.n; e++) { size_t dl = h.e[e].dlen; const uint8_t *data = base.hello[w] + h.e[e].off + 4;
#define EXTF(op_, arg_) do { if (vh_next()) { if (vh_deadline_hit()) vh_capped = 1; else { FA = (fault_t){ F_EXT, hdir, hidx, (size_t)e, (op_), (long)(arg_) }; run_exec(p, m); judge(p, m); } } } while (0)
				EXTF(0, 0); static const long REP[] = { 2, 3, 8, 9, 60, 90, 200 }; for (int r_ = 0; r_ < 7; r_++) EXTF(1, REP[r_]); for (size_t t = 0; t < dl; t++) EXTF(2, t);
				for (size_t j = 0; j + 2 <= dl; j++) { size_t v = ((size_t)data[j] << 8) | data[j + 1]; if (j + 2 + v != dl) continue; size_t ts[4] = { 0, 1, v ? v - 1 : 0, v / 2 }; for (int q = 0; q < 4; q++) { if (ts[q] >= v && v) continue; EXTF(3, ((long)j << 16) | (long)ts[q]); } } } }
		if (p == 2) for (int side = 0; side < 2; side++) for (int e = 0; e < base.nenc[side]; e++) { size_t L = base.enclen[side][e]; 
			for (size_t off = 0; off < L; off++) { int dense = off < dense_n; if (!dense && (off % step)) continue; for (int k = 0; k < 9; k++) { if (!vh_next()) continue; if (!(subs >> k & 1)) continue; if (vh_deadline_hit()) { vh_capped = 1; continue; } FA = (fault_t){ F_WSUB, side, e, off, k }; run_exec(p, m); judge(p, m); } }
			for (size_t t = 0; t + 1 < L; t += (t < dense_n + 40 ? 1 : step)) { if (!vh_next()) continue; if (vh_deadline_hit()) { vh_capped = 1; continue; } FA = (fault_t){ F_WTRUNC, side, e, t, 0 }; run_exec(p, m); judge(p, m); } }
		for (int dir = 0; dir < 2; dir++) { int last = -1; for (int i = 0; i < nrec; i++) if (base.rec[i].dir == dir) last = idxof[i]; if (last < 0) continue;
			for (int li = 0; li < 16; li++) for (int k = 0; k < 18; k++) { if (!vh_next()) continue; if (!vh_thorough && (k / 6) == 1) continue; FA = (fault_t){ F_POST, dir, last, (size_t)li, k }; run_exec(p, m); judge(p, m); } }
		HAVE = 0; }
	printf("STAT executions=%llu outcome_neither=%llu outcome_client_only=%llu outcome_server_only=%llu outcome_both=%llu\n", (unsigned long long)vh_evals, (unsigned long long)OUTC[0], (unsigned long long)OUTC[1], (unsigned long long)OUTC[2], (unsigned long long)OUTC[3]);
}
int main(int argc, char **argv) { vh_init(argc, argv); app_fill(); XO = mmap(NULL, sizeof *XO, PROT_READ | PROT_WRITE, MAP_SHARED | MAP_ANONYMOUS, -1, 0);
	for (int p = 0; p < 3; p++) if (build_side(&SRV[p], p, 0, 1, NULL) != 1 || build_side(&CLI[p], p, 1, 1, NULL) != 1) vh_harness_error("creds"); body(); return vh_finish(); }
