/* creds.h — in-memory key / certificate / chain factory with per-certificate deviation knobs (shared by C07, C09, C15, C16, TLS drivers). */
#ifndef CREDS_H
#define CREDS_H
#include <gmssl/sm2.h>
#include <gmssl/x509.h>
#include <gmssl/x509_ext.h>
#include <gmssl/oid.h>
#include <string.h>
#include "venv.h"
#include "der.h"

typedef struct {
	int version;          /* X509_version_v3 (default) or v1 */
	int bc;               /* 0 absent, 1 present cA=FALSE, 2 present cA=TRUE */
	int pathlen;          /* -1 absent */
	int ku;               /* -1 absent, else bits */
	int ku_crit;
	int eku;              /* 0 absent, 1 serverAuth, 2 clientAuth, 3 anyExtendedKeyUsage, 4 both */
	int unknown_ext;      /* 0 none, 1 non-critical, 2 critical */
	time_t nb, na;
	int sig;              /* 0 good, 1 one signature bit flipped, 2 signed by an unrelated key */
	int issuer_mismatch;  /* issuer field names somebody else */
	char cn[12];
	uint8_t serial[20]; size_t serial_len;
	int pad;              /* > 0: one more non-critical extension (unknown OID) whose value is an OCTET STRING of that many octets: sizes a certificate */
	int subj_bad_rdn;     /* 1: an RDN with an attribute type the library does not know (2.5.4.99) IN FRONT of the CN; 2: an organizationName with an embedded NUL in front of the CN */
	int subj_extra, iss_extra; /* one more RDN (OU=X) behind the CN of the subject / of the issuer: two-RDN names, so that a one-RDN name is a proper prefix of them */
} cert_spec;

static SM2_KEY CK[12]; static int ck_ready;           /* deterministic key pool */
static void creds_init(void) {
	if (ck_ready) return; ck_ready = 1;
	for (int i = 0; i < 12; i++) { uint8_t d[32]; for (int j = 0; j < 32; j++) d[j] = (uint8_t)(0x21 + 7 * i + 13 * j); d[0] &= 0x7f; sm2_z256_t z; sm2_z256_from_bytes(z, d); if (sm2_key_set_private_key(&CK[i], z) != 1) abort(); }
}
static void spec_ca(cert_spec *s, const char *cn, int pathlen) { memset(s, 0, sizeof *s); s->version = X509_version_v3; s->bc = 2; s->pathlen = pathlen; s->ku = X509_KU_KEY_CERT_SIGN | X509_KU_CRL_SIGN; s->ku_crit = 1; s->nb = VENV_NOW - 86400; s->na = VENV_NOW + 365 * 86400; strncpy(s->cn, cn, sizeof s->cn - 1); s->serial_len = 8; for (int i = 0; i < 8; i++) s->serial[i] = (uint8_t)(cn[0] + 3 * cn[1] + 5 * (cn[1] ? cn[2] : 0) + i + 1); s->serial[0] &= 0x7f; s->serial[0] |= 1; }
static void spec_leaf(cert_spec *s, const char *cn, int ku) { memset(s, 0, sizeof *s); s->version = X509_version_v3; s->bc = 0; s->pathlen = -1; s->ku = ku; s->ku_crit = 1; s->nb = VENV_NOW - 86400; s->na = VENV_NOW + 365 * 86400; strncpy(s->cn, cn, sizeof s->cn - 1); s->serial_len = 8; for (int i = 0; i < 8; i++) s->serial[i] = (uint8_t)(cn[0] + 3 * cn[1] + 5 * (cn[1] ? cn[2] : 0) + 2 * i + 1); s->serial[0] &= 0x7f; s->serial[0] |= 1; }
static int make_name(uint8_t *name, size_t *nl, const char *cn) { *nl = 0; return x509_name_set(name, nl, 128, "CN", NULL, NULL, NULL, NULL, cn); }
/* returns 1; cert DER appended at *out */
static int make_cert(const cert_spec *s, const SM2_KEY *subject_key, const SM2_KEY *issuer_key, const char *issuer_cn, uint8_t *out, size_t *outlen) {
	uint8_t subj[128], iss[128], exts[2400]; size_t sl, il, el = 0; const SM2_KEY *other; creds_init(); other = &CK[11];
	if (make_name(subj, &sl, s->cn) != 1 || make_name(iss, &il, s->issuer_mismatch == 1 ? "ZZ" : issuer_cn) != 1) return -1;
	/* near misses of the issuer name: 2 = the issuer's name plus one more RDN (OU=X) behind it, 3 = the issuer's name without its last RDN, 4 = last character of the CN changed */
	if (s->issuer_mismatch == 2) { static const uint8_t extra[] = { 0x31, 0x0a, 0x30, 0x08, 0x06, 0x03, 0x55, 0x04, 0x0b, 0x13, 0x01, 0x58 }; memcpy(iss + il, extra, sizeof extra); il += sizeof extra; }
	else if (s->issuer_mismatch == 3) { der_cur c = { iss, il }; size_t keep = 0; int tag; const uint8_t *v; size_t vl; while (c.n) { const uint8_t *st = c.p; if (!der_tlv(&c, &tag, &v, &vl, NULL)) break; if (c.n) keep = (size_t)(c.p - iss); (void)st; } if (keep) il = keep; }
	else if (s->issuer_mismatch == 4) { iss[il - 1] ^= 0x01; }
	if (s->subj_bad_rdn) { static const uint8_t bad1[] = { 0x31, 0x0c, 0x30, 0x0a, 0x06, 0x03, 0x55, 0x04, 0x63, 0x13, 0x03, 'b', 'a', 'd' }, bad2[] = { 0x31, 0x0c, 0x30, 0x0a, 0x06, 0x03, 0x55, 0x04, 0x0a, 0x13, 0x03, 'A', 0x00, 'B' }; const uint8_t *b = s->subj_bad_rdn == 1 ? bad1 : bad2; memmove(subj + 14, subj, sl); memcpy(subj, b, 14); sl += 14; }
	{ static const uint8_t extra[] = { 0x31, 0x0a, 0x30, 0x08, 0x06, 0x03, 0x55, 0x04, 0x0b, 0x13, 0x01, 0x58 }; if (s->subj_extra) { memcpy(subj + sl, extra, sizeof extra); sl += sizeof extra; } if (s->iss_extra) { memcpy(iss + il, extra, sizeof extra); il += sizeof extra; } }
	if (s->bc && x509_exts_add_basic_constraints(exts, &el, sizeof exts, X509_critical, s->bc == 2, s->pathlen) != 1) return -2;
	if (s->ku >= 0 && x509_exts_add_key_usage(exts, &el, sizeof exts, s->ku_crit ? X509_critical : X509_non_critical, s->ku) != 1) return -3;
	if (s->eku) { int kp[2]; size_t n = 1; kp[0] = s->eku == 1 ? OID_kp_server_auth : s->eku == 2 ? OID_kp_client_auth : s->eku == 3 ? OID_any_extended_key_usage : OID_kp_server_auth; if (s->eku == 4) { kp[1] = OID_kp_client_auth; n = 2; } if (x509_exts_add_ext_key_usage(exts, &el, sizeof exts, X509_non_critical, kp, n) != 1) return -4; }
	if (s->unknown_ext) { static const uint8_t oid[] = { 0x06, 0x04, 0x2a, 0x03, 0x04, 0x05 }, tr[] = { 0x01, 0x01, 0xff }, val[] = { 0x04, 0x02, 0x05, 0x00 }; uint8_t b[32]; size_t n = 0; memcpy(b + n, oid, sizeof oid); n += sizeof oid; if (s->unknown_ext == 2) { memcpy(b + n, tr, 3); n += 3; } memcpy(b + n, val, sizeof val); n += sizeof val; el += der_put_tlv(exts + el, 0x30, b, n); }
	if (s->pad > 0 && s->pad < 1500) { static const uint8_t oid[] = { 0x06, 0x04, 0x2a, 0x03, 0x04, 0x06 }; uint8_t b[1600], v[1520]; size_t n = 0; memcpy(b, oid, sizeof oid); n = sizeof oid; memset(v, 0x77, (size_t)s->pad); uint8_t inner[1540]; size_t il_ = der_put_tlv(inner, 0x04, v, (size_t)s->pad); n += der_put_tlv(b + n, 0x04, inner, il_); if (el + n + 8 > sizeof exts) return -6; el += der_put_tlv(exts + el, 0x30, b, n); }
	uint8_t *p = out; size_t before = *outlen; (void)before; size_t len = 0; const SM2_KEY *sk = s->sig == 2 ? other : issuer_key;
	int r = x509_cert_sign_to_der(s->version, s->serial, s->serial_len, OID_sm2sign_with_sm3, iss, il, s->nb, s->na, subj, sl, subject_key, NULL, 0, NULL, 0, (s->version == X509_version_v3 && el) ? exts : NULL, (s->version == X509_version_v3) ? el : 0, sk, SM2_DEFAULT_ID, SM2_DEFAULT_ID_LENGTH, &p, &len);
	if (r != 1) return -5;
	if (s->sig == 1) out[len - 3] ^= 0x10;
	*outlen = len; return 1;
}
#endif
