/* tlsh_min.h — handshake roles for c20 (no vnet: the driver supplies send/recv over its own per-pair pipes).
 * Credentials are built once per (protocol, role) before any task starts. */
#ifndef TLSH_MIN_H
#define TLSH_MIN_H
#include <gmssl/tls.h>
static const int HPROTO[3] = { TLS_protocol_tlcp, TLS_protocol_tls12, TLS_protocol_tls13 };
static const int HCIPHER[3] = { TLS_cipher_ecc_sm4_cbc_sm3, TLS_cipher_ecdhe_sm4_cbc_sm3, TLS_cipher_sm4_gcm_sm3 };
typedef struct { uint8_t certs[3000]; size_t certslen; uint8_t root[1200]; size_t rootlen; uint8_t ccerts[1500]; size_t ccertslen; uint8_t root2[1200]; size_t root2len; /* another root of the same name: a client that trusts only this one refuses the server */ } hcreds; static hcreds HC[3]; static int hc_ready;
static void hcreds_init(void) { if (hc_ready) return; hc_ready = 1; creds_init(); for (int p = 0; p < 3; p++) { cert_spec leaf, enc, root; spec_leaf(&leaf, "s", X509_KU_DIGITAL_SIGNATURE); spec_leaf(&enc, "e", X509_KU_KEY_ENCIPHERMENT); spec_ca(&root, "R", -1); size_t n = 0; uint8_t *q = HC[p].certs; make_cert(&leaf, &CK[0], &CK[5], "R", q, &n); q += n; if (p == 0) { n = 0; make_cert(&enc, &CK[6], &CK[5], "R", q, &n); q += n; } HC[p].certslen = (size_t)(q - HC[p].certs); { cert_spec cl; spec_leaf(&cl, "c", X509_KU_DIGITAL_SIGNATURE); n = 0; make_cert(&cl, &CK[2], &CK[5], "R", HC[p].ccerts, &n); HC[p].ccertslen = n; } n = 0; make_cert(&root, &CK[5], &CK[5], "R", HC[p].root, &n); HC[p].rootlen = n; n = 0; make_cert(&root, &CK[9], &CK[9], "R", HC[p].root2, &n); HC[p].root2len = n; } }
static void hs_role(int proto, int is_client, int pipe, int inst, out_t *o) {
	(void)inst; int refuse = proto >= 3; /* the client trusts another root: it refuses the server's chain with a fatal alert and both sides fail */ if (refuse) proto -= 3; TLS_CTX ctx; TLS_CONNECT *conn = (TLS_CONNECT *)calloc(1, sizeof *conn); memset(&ctx, 0, sizeof ctx); ctx.protocol = HPROTO[proto]; ctx.is_client = is_client; ctx.cipher_suites[0] = HCIPHER[proto]; ctx.cipher_suites_cnt = 1; ctx.verify_depth = 4; ctx.quiet = 1;
	/* mutual authentication: both sides present a chain, both hold the root (the server then runs the client-verification code as well) */
	if (!is_client) { ctx.certs = HC[proto].certs; ctx.certslen = HC[proto].certslen; ctx.signkey = CK[0]; ctx.kenckey = CK[6]; } else { ctx.certs = HC[proto].ccerts; ctx.certslen = HC[proto].ccertslen; ctx.signkey = CK[2]; } ctx.cacerts = HC[proto].root; ctx.cacertslen = HC[proto].rootlen; if (refuse && is_client) { ctx.cacerts = HC[proto].root2; ctx.cacertslen = HC[proto].root2len; }
	if (tls_init(conn, &ctx) != 1) { o->rc = -77; free(conn); return; } conn->sock = 3000 + pipe; int r = tls_do_handshake(conn); o->rc = r;
	if (r == 1) { if (proto != 2) { mix(o, conn->master_secret, 48); mix(o, conn->key_block, 96); } else { mix(o, conn->client_write_iv, 12); mix(o, conn->server_write_iv, 12); }
		uint8_t buf[64]; size_t n = 0; if (is_client) { if (proto == 2) tls13_send(conn, MSG, 40, &n); else tls_send(conn, MSG, 40, &n); } else { int rr = proto == 2 ? tls13_recv(conn, buf, sizeof buf, &n) : tls_recv(conn, buf, sizeof buf, &n); o->rc += 10 * rr; mix(o, buf, n); } }
	free(conn); }
#endif
