/* C01 — SM2 signatures complete, sound, bound to message / ID / key.
 * Scripted entropy fixes every nonce; the reference (OpenSSL BN/EC + SM3) recomputes Z, e and (r,s) and gives the
 * accept/reject verdict for every offered (key, id, message, signature bytes) tuple. */
#include <gmssl/sm2.h>
#include <gmssl/sm3.h>
#include <gmssl/asn1.h>
#include "vh.h"
#include "venv.h"
#include "sm2_ref.h"
#include "ossl_ref.h"

#define ND 5
static uint8_t DKEY[ND][32], PUB[ND][64]; static SM2_KEY KEYS[ND], PUBKEYS[ND]; static const char *DNAME[ND] = { "d=1", "d=2", "d=n-2", "d=typical", "d=highlimb0" };
static uint8_t NB[32];      /* n big-endian */
static uint8_t MSG[70000];
static void be_to_le(uint8_t le[32], const uint8_t be[32]) { for (int i = 0; i < 32; i++) le[i] = be[31 - i]; }
static void bn_to_be(uint8_t out[32], const BIGNUM *b) { sr_bn_to_bytes32(out, b); }
static void key_from_d(SM2_KEY *k, const uint8_t d[32]) { sm2_z256_t z; sm2_z256_from_bytes(z, d); if (sm2_key_set_private_key(k, z) != 1) vh_harness_error("set_private_key"); }
static void setup(void) {
	sr_init(); BIGNUM *t = BN_new(); bn_to_be(NB, sr_n());
	BN_one(t); bn_to_be(DKEY[0], t); BN_set_word(t, 2); bn_to_be(DKEY[1], t); BN_copy(t, sr_n()); BN_sub_word(t, 2); bn_to_be(DKEY[2], t);
	BN_hex2bn(&t, "3945208F7B2144B13F36E38AC6D39F95889393692860B51A42FB81EF4DF7C5B8"); BN_add_word(t, vh_seed); bn_to_be(DKEY[3], t); BN_hex2bn(&t, "00000000000000005F36E38AC6D39F95889393692860B51A42FB81EF4DF7C5B8"); bn_to_be(DKEY[4], t);
	for (int i = 0; i < ND; i++) { key_from_d(&KEYS[i], DKEY[i]); if (!sr_pubkey(DKEY[i], PUB[i])) vh_harness_error("pub"); uint8_t b[64]; sm2_z256_point_to_bytes(&KEYS[i].public_key, b);
		if (memcmp(b, PUB[i], 64)) { vh_obs("public key of %s differs from reference (C13 territory)", DNAME[i]); } SM2_Z256_POINT P; sm2_z256_point_from_bytes(&P, PUB[i]); sm2_key_set_public_key(&PUBKEYS[i], &P); }
	for (size_t i = 0; i < sizeof MSG; i++) MSG[i] = (uint8_t)(i * 31 + 5 + (i >> 7)); BN_free(t);
}
/* nonce k (big-endian) -> the 32 entropy bytes that make sm2_z256_rand_range return it */
static uint8_t SCRIPT[32 * 40];
static void script_nonces(const uint8_t (*k)[32], int nk) { for (int i = 0; i < nk; i++) be_to_le(SCRIPT + 32 * i, k[i]); venv_reset(0x5eed0000 + vh_seed); venv_script(SCRIPT, 32 * nk); }
/* accepted nonces in draw order, recovered from the shim log: 32-byte draws that are in [1,n-1] */
static int logged_nonces(uint8_t (*out)[32], int max) { venv_stream *s = venv_cur(); int n = 0; for (int i = 0; i < s->nlog && n < max; i++) if (s->log[i].len == 32) { uint8_t be[32]; for (int j = 0; j < 32; j++) be[j] = s->logbuf[s->log[i].off + 31 - j]; static const uint8_t Z[32] = {0}; if (memcmp(be, NB, 32) < 0 && memcmp(be, Z, 32) != 0) memcpy(out[n++], be, 32); } return n; }

/* ---- strict DER predicate for SEQUENCE { INTEGER r, INTEGER s } ---- */
static int strict_len(const uint8_t **p, size_t *n, size_t *len) {
	if (*n < 1) return 0; uint8_t b = **p; (*p)++; (*n)--;
	if (b < 0x80) { *len = b; } else { int k = b & 0x7f; if (k == 0 || k > 4 || *n < (size_t)k) return 0; size_t v = 0; for (int i = 0; i < k; i++) v = (v << 8) | (*p)[i]; if ((*p)[0] == 0) return 0; if (v < 0x80) return 0; if (k > 1 && v < ((size_t)1 << (8 * (k - 1)))) return 0; *p += k; *n -= k; *len = v; }
	return *len <= *n;
}
static int strict_sig(const uint8_t *sig, size_t siglen, uint8_t r[32], uint8_t s[32]) {
	const uint8_t *p = sig; size_t n = siglen, len; if (n < 1 || *p != 0x30) return 0; p++; n--; if (!strict_len(&p, &n, &len) || len != n) return 0;
	/* two INTEGERs, manual cursor handling */
	for (int k = 0; k < 2; k++) { const uint8_t *q = p; size_t m = n; uint8_t *dst = k ? s : r; if (m < 1 || *q != 0x02) return 0; q++; m--; size_t il; if (!strict_len(&q, &m, &il) || il == 0) return 0;
		const uint8_t *v = q; if (v[0] & 0x80) return 0; if (il > 1 && v[0] == 0 && !(v[1] & 0x80)) return 0; size_t vl = il; if (v[0] == 0 && il > 1) { v++; vl--; } if (vl > 32) return 0; memset(dst, 0, 32); memcpy(dst + 32 - vl, v, vl); p = q + il; n = m - il; }
	return n == 0;
}
static size_t enc_int(uint8_t *o, const uint8_t v[32]) { int i = 0; while (i < 31 && v[i] == 0) i++; size_t n = 32 - i, pad = (v[i] & 0x80) ? 1 : 0; o[0] = 0x02; o[1] = (uint8_t)(n + pad); if (pad) o[2] = 0; memcpy(o + 2 + pad, v + i, n); return 2 + pad + n; }
static size_t enc_sig(uint8_t *o, const uint8_t r[32], const uint8_t s[32]) { uint8_t b[80]; size_t n = enc_int(b, r); n += enc_int(b + n, s); o[0] = 0x30; o[1] = (uint8_t)n; memcpy(o + 2, b, n); return n + 2; }

/* ---- verification through every interface; returns bitmask of interfaces that accepted ---- */
static int verify_all(const SM2_KEY *pk, const char *id, size_t idlen, const uint8_t *msg, size_t msglen, const uint8_t *sig, size_t siglen, const uint8_t e[32]) {
	int acc = 0; uint8_t *sb = (uint8_t *)malloc(siglen ? siglen : 1); memcpy(sb, sig, siglen);
	if (sm2_verify(pk, e, sb, siglen) == 1) acc |= 1;
	SM2_VERIFY_CTX vc; if (sm2_verify_init(&vc, pk, id, idlen) == 1) { size_t c = msglen / 3; if (sm2_verify_update(&vc, msg, c) == 1 && sm2_verify_update(&vc, msg + c, msglen - c) == 1 && sm2_verify_finish(&vc, sb, siglen) == 1) acc |= 2; }
	free(sb); return acc;
}
static void expect_verdict(const char *what, int d, int acc, int want, const uint8_t *sig, size_t siglen, const char *extra) {
	int all = 3; if ((want && acc != all) || (!want && acc != 0)) { char key[160]; snprintf(key, sizeof key, "C01:%s:%s:%s", what, want ? "valid-rejected" : "invalid-accepted", acc == 0 ? "all" : acc == 1 ? "by-sm2_verify-only" : acc == 2 ? "by-verify_ctx-only" : "both");
		vh_viol(key, "\"key\":\"%s\",\"sig\":\"%s\",\"accepted_mask\":%d,\"%s\":1", DNAME[d], vh_hex(sig, siglen), acc, extra); }
}

static const char DEFID[] = "1234567812345678";
/* block 1: every signing interface x key x nonce x message; signature == reference for the drawn nonce; verifies everywhere (incl. OpenSSL EVP) */
static void blk_sign(void) {
	if (!vh_block_begin("sign")) return;
	uint8_t KN[5][32]; BIGNUM *t = BN_new(); BN_one(t); bn_to_be(KN[0], t); BN_set_word(t, 2); bn_to_be(KN[1], t); BN_copy(t, sr_n()); BN_sub_word(t, 1); bn_to_be(KN[2], t); BN_sub_word(t, 1); bn_to_be(KN[3], t); BN_hex2bn(&t, "59276E27D506861A16680F3AD9C02DCCEF3CC1FA3CDBE4CE6D54B80DEAC1BC21"); bn_to_be(KN[4], t); BN_free(t);
	static const size_t ML[] = { 0, 1, 55, 56, 63, 64, 65, 119, 120, 128, 200, 4097 };
	for (int d = 0; d < ND; d++) for (int ki = 0; ki < 5; ki++) for (int mi = 0; mi < 12; mi++) {
		if (!vh_next()) continue;
		size_t ml = ML[mi]; uint8_t z[32], e[32], er[32], es[32], sig[80], esig[80]; size_t sl = 0, esl; char key[160];
		sr_compute_z(z, (const uint8_t *)DEFID, 16, PUB[d]); sr_digest_e(e, z, MSG, ml); int rok = sr_sign(DKEY[d], e, KN[ki], er, es); esl = enc_sig(esig, er, es);
		uint8_t kn2[2][32]; memcpy(kn2[0], KN[ki], 32); memcpy(kn2[1], KN[4], 32); /* fallback nonce if the first must be retried */
		/* (a) sm2_sign over the digest */
		script_nonces(kn2, 2); int r = sm2_sign(&KEYS[d], e, sig, &sl); vh_eval(vh_mix(d * 1000 + ki * 100 + mi + 1));
		if (rok) { if (r != 1 || sl != esl || memcmp(sig, esig, sl)) { snprintf(key, sizeof key, "C01:sign:sm2_sign:differs-from-equations"); vh_viol(key, "\"key\":\"%s\",\"k\":\"%s\",\"e\":\"%s\",\"got\":\"%s\",\"exp\":\"%s\",\"ret\":%d", DNAME[d], vh_hex(KN[ki], 32), vh_hex(e, 32), vh_hex(sig, sl), vh_hex(esig, esl), r); } }
		/* (b) sm2_do_sign */
		SM2_SIGNATURE S; script_nonces(kn2, 2); r = sm2_do_sign(&KEYS[d], e, &S); vh_eval(vh_mix(d * 1000 + ki * 100 + mi + 50001));
		if (rok && (r != 1 || memcmp(S.r, er, 32) || memcmp(S.s, es, 32))) vh_viol("C01:sign:sm2_do_sign:differs-from-equations", "\"key\":\"%s\",\"k\":\"%s\"", DNAME[d], vh_hex(KN[ki], 32));
		/* (c) streaming: init draws 32 nonces; the first finish uses the 32nd accepted one */
		{ uint8_t kk[34][32]; for (int i = 0; i < 34; i++) { memcpy(kk[i], KN[4], 32); kk[i][31] ^= (uint8_t)(i + 1); } memcpy(kk[31], KN[ki], 32); script_nonces(kk, 34);
			SM2_SIGN_CTX sc; if (sm2_sign_init(&sc, &KEYS[d], DEFID, 16) != 1) { vh_viol("C01:sign:sm2_sign_init:failed", "\"key\":\"%s\"", DNAME[d]); continue; }
			size_t c = ml / 2; sm2_sign_update(&sc, MSG, c); sm2_sign_update(&sc, MSG + c, ml - c); sl = 0; r = sm2_sign_finish(&sc, sig, &sl); vh_eval(vh_mix(d * 1000 + ki * 100 + mi + 100001));
			uint8_t used[40][32]; int nu = logged_nonces(used, 40); if (nu < 32 || memcmp(used[31], KN[ki], 32)) vh_harness_error("nonce script/log mismatch nu=%d", nu);
			if (rok) { if (r != 1 || sl != esl || memcmp(sig, esig, sl)) vh_viol("C01:sign:sm2_sign_finish:differs-from-equations", "\"key\":\"%s\",\"k\":\"%s\",\"msglen\":%zu,\"got\":\"%s\",\"exp\":\"%s\",\"ret\":%d", DNAME[d], vh_hex(KN[ki], 32), ml, vh_hex(sig, sl), vh_hex(esig, esl), r);
				int acc = verify_all(&PUBKEYS[d], DEFID, 16, MSG, ml, sig, sl, e); vh_eval(vh_mix(d * 1000 + ki * 100 + mi + 150001)); expect_verdict("sign:stream", d, acc, 1, sig, sl, "stream");
				int ev = sr_evp_verify(PUB[d], (const uint8_t *)DEFID, 16, MSG, ml, sig, sl); vh_eval(vh_mix(d * 1000 + ki * 100 + mi + 160001)); if (ev != 1) vh_viol("C01:sign:openssl-rejects-library-signature", "\"key\":\"%s\",\"msglen\":%zu,\"ev\":%d", DNAME[d], ml, ev); }
			/* reset and sign again: second finish uses the 31st nonce */
			sm2_sign_reset(&sc); sm2_sign_update(&sc, MSG, ml); sl = 0; r = sm2_sign_finish(&sc, sig, &sl); uint8_t r2[32], s2[32]; int rok2 = sr_sign(DKEY[d], e, kk[30], r2, s2); size_t e2l = enc_sig(esig, r2, s2); vh_eval(vh_mix(d * 1000 + ki * 100 + mi + 200001));
			if (rok2 && (r != 1 || sl != e2l || memcmp(sig, esig, sl))) vh_viol("C01:sign:sm2_sign_reset+finish:differs-from-equations", "\"key\":\"%s\",\"msglen\":%zu", DNAME[d], ml);
			/* fixlen through the context */
			sm2_sign_reset(&sc); sm2_sign_update(&sc, MSG, ml); venv_reset(777 + ki); static const size_t FL[] = { 70, 71, 72 }; for (int f = 0; f < 3; f++) { uint8_t fs[80]; SM2_SIGN_CTX c2 = sc; r = sm2_sign_finish_fixlen(&c2, FL[f], fs); vh_eval(vh_mix(d * 1000 + ki * 100 + mi + 300001 + f));
				if (r == 1) { int acc = verify_all(&PUBKEYS[d], DEFID, 16, MSG, ml, fs, FL[f], e); expect_verdict("sign:finish_fixlen", d, acc, 1, fs, FL[f], "fixlen"); } else if (d >= 3) vh_viol("C01:sign:sm2_sign_finish_fixlen:failed", "\"key\":\"%s\",\"len\":%zu", DNAME[d], FL[f]); } }
		/* (d) sm2_sign_fixlen on the digest with a generator stream; equation checked through the nonce log */
		{ static const size_t FL[] = { 70, 71, 72 }; for (int f = 0; f < 3; f++) { uint8_t fs[80]; venv_reset(4242 + f + ki * 7 + d * 31); r = sm2_sign_fixlen(&KEYS[d], e, FL[f], fs); vh_eval(vh_mix(d * 1000 + ki * 100 + mi + 400001 + f));
			if (r != 1) { if (d >= 3) vh_viol("C01:sign:sm2_sign_fixlen:failed", "\"key\":\"%s\",\"len\":%zu", DNAME[d], FL[f]); continue; }
			uint8_t fr[32], fsv[32]; if (!strict_sig(fs, FL[f], fr, fsv)) { vh_viol("C01:sign:sm2_sign_fixlen:not-strict-der", "\"sig\":\"%s\"", vh_hex(fs, FL[f])); continue; }
			if (!sr_verify(PUB[d], e, fr, fsv)) vh_viol("C01:sign:sm2_sign_fixlen:equation", "\"sig\":\"%s\"", vh_hex(fs, FL[f])); } }
		vh_sample("{\"block\":\"sign\",\"key\":\"%s\",\"k\":\"%s\",\"msglen\":%zu,\"sig\":\"%s\"}", DNAME[d], vh_hex(KN[ki], 32), ml, vh_hex(esig, esl));
	}
}
/* block 2: digests solved so that each retry branch of the signing loop fires (r=0, r+k=n, s=0), followed by a good nonce */
static void blk_retry(void) {
	if (!vh_block_begin("retry")) return;
	BN_CTX *c = sr_ctx(); const BIGNUM *n = sr_n(); BIGNUM *k = BN_new(), *x = BN_new(), *e = BN_new(), *t = BN_new(), *dd = BN_new(); EC_POINT *Q = EC_POINT_new(sr_group());
	for (int d = 0; d < ND; d++) for (int kv = 0; kv < 3; kv++) for (int br = 0; br < 3; br++) {
		if (!vh_next()) continue;
		BN_bin2bn(DKEY[d], 32, dd); BN_set_word(k, 7 + kv * 1000003); if (kv == 2) { BN_copy(k, n); BN_sub_word(k, 9); }
		EC_POINT_mul(sr_group(), Q, k, NULL, NULL, c); EC_POINT_get_affine_coordinates(sr_group(), Q, x, NULL, c);
		if (br == 0) { BN_mod_sub(e, n, x, n, c); BN_nnmod(e, e, n, c); }                          /* r = e + x1 = 0 */
		else if (br == 1) { BN_mod_sub(e, n, k, n, c); BN_mod_sub(e, e, x, n, c); }              /* r + k = n */
		else { BN_mod_inverse(t, dd, n, c); BN_mod_mul(t, t, k, n, c); BN_mod_sub(e, t, x, n, c); } /* k - r d = 0  =>  r = k d^-1 */
		uint8_t eb[32], kb[2][32], good[32], er[32], es[32]; bn_to_be(eb, e); bn_to_be(kb[0], k); BN_set_word(t, 0x1234567); bn_to_be(kb[1], t); memcpy(good, kb[1], 32);
		if (sr_sign(DKEY[d], eb, kb[0], er, es)) vh_harness_error("solved digest does not trigger retry branch %d", br);
		if (!sr_sign(DKEY[d], eb, good, er, es)) vh_harness_error("fallback nonce also retried");
		SM2_SIGNATURE S; script_nonces(kb, 2); int r = sm2_do_sign(&KEYS[d], eb, &S); vh_eval(vh_mix(d * 100 + kv * 10 + br + 1)); static const char *BR[] = { "r=0", "r+k=n", "s=0" }; char key[128];
		if (r != 1 || memcmp(S.r, er, 32) || memcmp(S.s, es, 32)) { snprintf(key, sizeof key, "C01:retry:sm2_do_sign:%s", BR[br]); vh_viol(key, "\"key\":\"%s\",\"k\":\"%s\",\"e\":\"%s\",\"ret\":%d,\"r\":\"%s\",\"s\":\"%s\"", DNAME[d], vh_hex(kb[0], 32), vh_hex(eb, 32), r, vh_hex(S.r, 32), vh_hex(S.s, 32)); }
		/* low-level fast path with the same (k, e): must not hand out an invalid signature as success */
		sm2_z256_t fp; SM2_SIGN_PRE_COMP pc; sm2_fast_sign_compute_key(&KEYS[d], fp); sm2_z256_from_bytes(pc.k, kb[0]); { uint8_t xb[32]; BN_nnmod(t, x, n, c); bn_to_be(xb, t); sm2_z256_from_bytes(pc.x1_modn, xb); }
		r = sm2_fast_sign(fp, &pc, eb, &S); vh_eval(vh_mix(d * 100 + kv * 10 + br + 5001));
		if (r == 1 && !sr_verify(PUB[d], eb, S.r, S.s)) { snprintf(key, sizeof key, "C01:retry:sm2_fast_sign:%s:invalid-signature-returned", BR[br]); vh_viol(key, "\"key\":\"%s\",\"k\":\"%s\",\"e\":\"%s\",\"r\":\"%s\",\"s\":\"%s\"", DNAME[d], vh_hex(kb[0], 32), vh_hex(eb, 32), vh_hex(S.r, 32), vh_hex(S.s, 32)); }
		vh_sample("{\"block\":\"retry\",\"key\":\"%s\",\"branch\":\"%s\",\"e\":\"%s\"}", DNAME[d], BR[br], vh_hex(eb, 32));
	}
	BN_free(k); BN_free(x); BN_free(e); BN_free(t); BN_free(dd); EC_POINT_free(Q);
}
/* block 3: message chunkings through the streaming signer/verifier (hash automaton is C03; here the sign/verify plumbing) */
static void blk_chunks(void) {
	if (!vh_block_begin("chunks")) return;
	int d = 3; SM2_SIGN_CTX sc; SM2_VERIFY_CTX vc; venv_reset(99); if (sm2_sign_init(&sc, &KEYS[d], DEFID, 16) != 1 || sm2_verify_init(&vc, &PUBKEYS[d], DEFID, 16) != 1) vh_harness_error("init");
	uint8_t z[32]; sr_compute_z(z, (const uint8_t *)DEFID, 16, PUB[d]); size_t maxl = vh_thorough ? 194 : 130;
	for (size_t ml = 0; ml <= maxl; ml++) { if (!vh_next()) continue; uint8_t e[32]; sr_digest_e(e, z, MSG + 3, ml);
		for (size_t c = 0; c <= ml; c++) { uint8_t sig[80], r[32], s[32]; size_t sl = 0; sm2_sign_reset(&sc); sm2_sign_update(&sc, MSG + 3, c); sm2_sign_update(&sc, MSG + 3 + c, ml - c);
			int rr = sm2_sign_finish(&sc, sig, &sl); size_t kk[2] = { ml, c }; vh_eval(vh_hash(kk, sizeof kk, 1));
			if (rr != 1 || !strict_sig(sig, sl, r, s) || !sr_verify(PUB[d], e, r, s)) { vh_viol("C01:chunks:stream-sign", "\"msglen\":%zu,\"cut\":%zu,\"ret\":%d", ml, c, rr); continue; }
			sm2_verify_reset(&vc); sm2_verify_update(&vc, MSG + 3, ml - c); sm2_verify_update(&vc, MSG + 3 + ml - c, c); vh_eval(vh_hash(kk, sizeof kk, 2));
			if (sm2_verify_finish(&vc, sig, sl) != 1) vh_viol("C01:chunks:stream-verify", "\"msglen\":%zu,\"cut\":%zu", ml, c); } }
}
/* block 3b: one streaming context used for many signatures (pool of 32 nonces refilled inside finish), without and with one failing entropy
   draw anywhere in the first refill; the caller resets and carries on: whatever finish returns as a signature must verify everywhere */
static void blk_long_stream(void) {
	if (!vh_block_begin("long-stream")) return; int d = 3; uint8_t z[32]; sr_compute_z(z, (const uint8_t *)DEFID, 16, PUB[d]);
	for (long fi = -1; fi < 70; fi++) { if (!vh_next()) continue; venv_reset(0xc01 + 5); if (fi >= 0) venv_fail_at(fi); SM2_SIGN_CTX sc; vh_eval(vh_mix(880000 + (uint64_t)(fi + 1)));
		if (sm2_sign_init(&sc, &KEYS[d], DEFID, 16) != 1) { if (fi < 0) vh_viol("C01:long-stream:init-failed", "\"x\":1"); continue; } int made = 0;
		for (int i = 0; i < 100; i++) { size_t ml = (size_t)(i % 7) * 13; uint8_t sig[80], e[32], r[32], s[32]; size_t sl = 0; sm2_sign_reset(&sc); sm2_sign_update(&sc, MSG + i, ml);
			if (sm2_sign_finish(&sc, sig, &sl) != 1) { if (fi < 0) { vh_viol("C01:long-stream:finish-failed-without-fault", "\"index\":%d", i); break; } continue; } made++;
			sr_digest_e(e, z, MSG + i, ml); int okr = strict_sig(sig, sl, r, s) && sr_verify(PUB[d], e, r, s); int acc = okr ? verify_all(&PUBKEYS[d], DEFID, 16, MSG + i, ml, sig, sl, e) : 0;
			if (!okr || acc != 3) { vh_viol(fi < 0 ? "C01:long-stream:signature-does-not-verify" : "C01:long-stream:signature-after-failed-refill-does-not-verify", "\"failing_draw\":%ld,\"index\":%d,\"equations\":%d,\"library\":%d,\"sig\":\"%s\"", fi, i, okr, acc, vh_hex(sig, sl)); break; } }
		if (made < 60) vh_viol("C01:long-stream:signer-does-not-recover", "\"failing_draw\":%ld,\"made\":%d", fi, made);
		vh_sample("{\"block\":\"long-stream\",\"failing_draw\":%ld,\"signatures\":%d}", fi, made); }
}
/* block 3c: a context re-initialised from ITS OWN key member (the way an application switches a long-lived context to another signer ID): source and
   destination of the key copy are the same object; the context must behave like a fresh one */
static void blk_own_key(void) {
	if (!vh_block_begin("context-reinitialised-from-its-own-key")) return; static const char ID2[] = "another-signer-id"; size_t id2l = sizeof ID2 - 1;
	for (int d = 0; d < ND; d++) { if (!vh_next()) continue; size_t ml = 77; uint8_t z[32], e[32], sig[80], r[32], s[32]; size_t sl = 0; sr_compute_z(z, (const uint8_t *)ID2, id2l, PUB[d]); sr_digest_e(e, z, MSG + 11, ml); venv_reset(0xc01 + 77 + d);
		SM2_SIGN_CTX sc; if (sm2_sign_init(&sc, &KEYS[d], DEFID, 16) != 1 || sm2_sign_init(&sc, &sc.key, ID2, id2l) != 1) { vh_viol("C01:own-key:sign_init-refused", "\"key\":\"%s\"", DNAME[d]); continue; }
		sm2_sign_update(&sc, MSG + 11, ml); int rr = sm2_sign_finish(&sc, sig, &sl); vh_eval(vh_mix(d + 660001));
		if (rr != 1 || !strict_sig(sig, sl, r, s) || !sr_verify(PUB[d], e, r, s)) { vh_viol("C01:own-key:signature-of-a-context-reinitialised-from-its-own-key-does-not-verify", "\"key\":\"%s\",\"ret\":%d", DNAME[d], rr); continue; }
		SM2_VERIFY_CTX vc; if (sm2_verify_init(&vc, &PUBKEYS[d], DEFID, 16) != 1 || sm2_verify_init(&vc, &vc.key, ID2, id2l) != 1) { vh_viol("C01:own-key:verify_init-refused", "\"key\":\"%s\"", DNAME[d]); continue; }
		sm2_verify_update(&vc, MSG + 11, ml); rr = sm2_verify_finish(&vc, sig, sl); vh_eval(vh_mix(d + 660101)); if (rr != 1) vh_viol("C01:own-key:genuine-signature-rejected-by-a-context-reinitialised-from-its-own-key", "\"key\":\"%s\",\"ret\":%d", DNAME[d], rr);
		/* soundness through the same context: every single-bit change of the signature, another message */
		for (size_t bit = 0; bit < sl * 8; bit++) { uint8_t m2[80]; memcpy(m2, sig, sl); m2[bit / 8] ^= (uint8_t)(1 << (bit % 8)); sm2_verify_init(&vc, &vc.key, ID2, id2l); sm2_verify_update(&vc, MSG + 11, ml); vh_evals++; if (sm2_verify_finish(&vc, m2, sl) == 1) { vh_viol("C01:own-key:altered-signature-accepted", "\"key\":\"%s\",\"bit\":%zu", DNAME[d], bit); break; } }
		sm2_verify_init(&vc, &vc.key, ID2, id2l); sm2_verify_update(&vc, MSG + 12, ml); vh_eval(vh_mix(d + 660201)); if (sm2_verify_finish(&vc, sig, sl) == 1) vh_viol("C01:own-key:other-message-accepted", "\"key\":\"%s\"", DNAME[d]);
		/* any (r, s) whatsoever from a small family must get the verdict of the equations */
		for (int k = 0; k < 64; k++) { uint8_t fr[32], fs[32], fsig[80]; memcpy(fr, r, 32); memcpy(fs, s, 32); fr[31] ^= (uint8_t)(k + 1); if (k & 1) fs[31] ^= (uint8_t)(k >> 1); size_t fl = enc_sig(fsig, fr, fs); sm2_verify_init(&vc, &vc.key, ID2, id2l); sm2_verify_update(&vc, MSG + 11, ml); int got = sm2_verify_finish(&vc, fsig, fl) == 1, want = sr_verify(PUB[d], e, fr, fs); vh_evals++; if (got != want) { vh_viol("C01:own-key:verdict-differs-from-the-equations", "\"key\":\"%s\",\"k\":%d,\"got\":%d", DNAME[d], k, got); break; } }
		vh_sample("{\"block\":\"context-reinitialised-from-its-own-key\",\"key\":\"%s\"}", DNAME[d]); }
}
/* block 4: the ID bound into the digest is exactly idlen bytes */
static void blk_id(void) {
	if (!vh_block_begin("id")) return;
	static const size_t IL[] = { 1, 2, 8, 15, 16, 17, 32, 8191 }; int d = 3;
	/* content kinds: 0 arbitrary, 1 starts with the default ID (prefix/suffix cases arise from idlen), 2 default ID followed by NUL then junk */
	for (int kind = 0; kind < 3; kind++) for (int li = 0; li < 8; li++) for (int nul = 0; nul < 2; nul++) {
		if (!vh_next()) continue; size_t il = IL[li];
		/* exactly-sized heap buffer (+1 when a trailing NUL is part of the allocation but not of the ID) */
		char *id = (char *)malloc(il + nul); for (size_t i = 0; i < il + nul; i++) id[i] = (char)('a' + (i * 7) % 23);
		if (kind >= 1) for (size_t i = 0; i < il + nul && i < 16; i++) id[i] = DEFID[i]; if (kind == 2 && il + nul > 16) id[16] = 0; if (nul) id[il] = 0;
		uint8_t z[32], zl[32], e[32], sig[80], r[32], s[32]; size_t sl = 0; sr_compute_z(z, (const uint8_t *)id, il, PUB[d]);
		int rz = sm2_compute_z(zl, &KEYS[d].public_key, id, il); size_t kk[3] = { (size_t)kind, il, (size_t)nul }; vh_eval(vh_hash(kk, sizeof kk, 1)); char key[160];
		const char *shape = (kind == 0) ? "arbitrary" : (il < 16 ? "default-id-prefix" : il == 16 ? "default-id" : "default-id+suffix");
		if (rz != 1 || memcmp(z, zl, 32)) { snprintf(key, sizeof key, "C01:id:sm2_compute_z:%s:idlen=%zu:%s", shape, il, nul ? "nul-after" : "exact-buffer"); vh_viol(key, "\"id\":\"%s\",\"idlen\":%zu,\"got\":\"%s\",\"exp\":\"%s\"", vh_hex(id, il > 40 ? 40 : il), il, vh_hex(zl, 32), vh_hex(z, 32)); }
		/* end to end: sign with this ID, the reference equation with the reference Z must hold, OpenSSL must accept under the same idlen bytes */
		SM2_SIGN_CTX sc; venv_reset(5 + li); if (sm2_sign_init(&sc, &KEYS[d], id, il) != 1) { snprintf(key, sizeof key, "C01:id:sm2_sign_init:refused:idlen=%zu", il); vh_viol(key, "\"idlen\":%zu", il); free(id); continue; }
		sm2_sign_update(&sc, MSG, 33); sm2_sign_finish(&sc, sig, &sl); sr_digest_e(e, z, MSG, 33); vh_eval(vh_hash(kk, sizeof kk, 2));
		if (!strict_sig(sig, sl, r, s) || !sr_verify(PUB[d], e, r, s)) { snprintf(key, sizeof key, "C01:id:signature-not-bound-to-idlen-bytes:%s:idlen=%zu:%s", shape, il, nul ? "nul-after" : "exact-buffer"); vh_viol(key, "\"idlen\":%zu", il); }
		/* a signature made under ID' must not verify under ID when ID' != ID: take the default ID vs its 8-byte prefix */
		free(id);
	}
	/* cross-ID: sign under X, verify under every other Y of a small set that includes prefix-related IDs */
	static const struct { const char *p; size_t n; } IDS[] = { { "1234567812345678", 16 }, { "1234567812345678", 8 }, { "12345678", 8 }, { "1234567812345678\0", 17 }, { "1234567812345678X", 17 }, { "alice", 5 }, { "alice\0", 6 } };
	for (int a = 0; a < 7; a++) for (int b = 0; b < 7; b++) { if (!vh_next()) continue; uint8_t sig[80]; size_t sl = 0; SM2_SIGN_CTX sc; SM2_VERIFY_CTX vc; venv_reset(1000 + a);
		char *ia = (char *)malloc(IDS[a].n), *ib = (char *)malloc(IDS[b].n); memcpy(ia, IDS[a].p, IDS[a].n); memcpy(ib, IDS[b].p, IDS[b].n);
		int same = IDS[a].n == IDS[b].n && !memcmp(ia, ib, IDS[a].n);
		if (sm2_sign_init(&sc, &KEYS[3], ia, IDS[a].n) == 1 && sm2_sign_update(&sc, MSG, 10) == 1 && sm2_sign_finish(&sc, sig, &sl) == 1) {
			int r = (sm2_verify_init(&vc, &PUBKEYS[3], ib, IDS[b].n) == 1 && sm2_verify_update(&vc, MSG, 10) == 1) ? sm2_verify_finish(&vc, sig, sl) : -9; vh_eval(vh_mix(a * 10 + b + 7000));
			if ((r == 1) != same) { char key[160]; snprintf(key, sizeof key, "C01:id:cross-id:%s", same ? "same-id-rejected" : "different-id-accepted"); vh_viol(key, "\"sign_id\":\"%s\",\"sign_idlen\":%zu,\"verify_id\":\"%s\",\"verify_idlen\":%zu", vh_hex(ia, IDS[a].n), IDS[a].n, vh_hex(ib, IDS[b].n), IDS[b].n); } }
		free(ia); free(ib); }
}
/* block 5: soundness over candidate (r,s) pairs */
static void blk_rs(void) {
	if (!vh_block_begin("rs-pairs")) return;
	BN_CTX *c = sr_ctx(); const BIGNUM *n = sr_n(); BIGNUM *t = BN_new(); uint8_t S[40][32]; int ns = 0;
	for (int d = 0; d < ND; d++) { if (!vh_thorough && d != 0 && d != 3) continue;
		uint8_t z[32], e[32], r0[32], s0[32], kb[32]; sr_compute_z(z, (const uint8_t *)DEFID, 16, PUB[d]); sr_digest_e(e, z, MSG, 20); BN_set_word(t, 0xabcdef); bn_to_be(kb, t); if (!sr_sign(DKEY[d], e, kb, r0, s0)) vh_harness_error("rs");
		ns = 0; static const int DW[] = { 0, 1, 2 }; for (int i = 0; i < 3; i++) { BN_set_word(t, DW[i]); bn_to_be(S[ns++], t); }
		for (int dl = -2; dl <= 1; dl++) { BN_copy(t, n); if (dl < 0) BN_sub_word(t, -dl); else BN_add_word(t, dl); bn_to_be(S[ns++], t); BN_copy(t, sr_p()); if (dl < 0) BN_sub_word(t, -dl); else BN_add_word(t, dl); bn_to_be(S[ns++], t); }
		BN_zero(t); BN_set_bit(t, 255); bn_to_be(S[ns++], t); memset(S[ns++], 0xff, 32);
		memcpy(S[ns++], r0, 32); memcpy(S[ns++], s0, 32); BN_bin2bn(r0, 32, t); BN_sub(t, n, t); bn_to_be(S[ns++], t); BN_bin2bn(s0, 32, t); BN_sub(t, n, t); bn_to_be(S[ns++], t);
		for (int pm = -1; pm <= 1; pm += 2) { BN_bin2bn(r0, 32, t); if (pm < 0) BN_sub_word(t, 1); else BN_add_word(t, 1); bn_to_be(S[ns++], t); BN_bin2bn(s0, 32, t); if (pm < 0) BN_sub_word(t, 1); else BN_add_word(t, 1); bn_to_be(S[ns++], t); }
		BN_bin2bn(r0, 32, t); BN_add(t, t, n); if (BN_num_bits(t) <= 256) bn_to_be(S[ns++], t); /* r + n, same residue */
		for (int i = 0; i < ns; i++) for (int j = 0; j < ns; j++) { if (!vh_next()) continue;
			int want = sr_verify(PUB[d], e, S[i], S[j]); SM2_SIGNATURE sg; memcpy(sg.r, S[i], 32); memcpy(sg.s, S[j], 32); int g = sm2_do_verify(&PUBKEYS[d], e, &sg) == 1; size_t kk[3] = { (size_t)d, (size_t)i, (size_t)j }; vh_eval(vh_hash(kk, sizeof kk, 3));
			if (g != want) { char key[128]; snprintf(key, sizeof key, "C01:rs-pairs:sm2_do_verify:%s", want ? "valid-rejected" : "invalid-accepted"); vh_viol(key, "\"key\":\"%s\",\"r\":\"%s\",\"s\":\"%s\"", DNAME[d], vh_hex(S[i], 32), vh_hex(S[j], 32)); }
			SM2_Z256_POINT T[16]; sm2_z256_point_mul_pre_compute(&PUBKEYS[d].public_key, T); g = sm2_fast_verify(T, e, &sg) == 1; vh_eval(vh_hash(kk, sizeof kk, 4));
			if (g != want) { char key[128]; snprintf(key, sizeof key, "C01:rs-pairs:sm2_fast_verify:%s", want ? "valid-rejected" : "invalid-accepted"); vh_viol(key, "\"key\":\"%s\",\"r\":\"%s\",\"s\":\"%s\"", DNAME[d], vh_hex(S[i], 32), vh_hex(S[j], 32)); }
			/* the same pair under a digest SOLVED so that the equation holds whatever the ranges are: t=(r+s) mod n, X=[s]G+[t]P, e=r-x(X) mod n;
			   a verifier that forgets one range / t!=0 test accepts exactly here */
			{ BIGNUM *rr = BN_bin2bn(S[i], 32, NULL), *ss = BN_bin2bn(S[j], 32, NULL), *tt = BN_new(), *xx = BN_new(), *ee = BN_new(); EC_POINT *X = EC_POINT_new(sr_group()), *Pk = EC_POINT_new(sr_group());
				BN_nnmod(ss, ss, n, c); BN_mod_add(tt, rr, ss, n, c); sr_point_from_xy(Pk, PUB[d]); EC_POINT_mul(sr_group(), X, ss, Pk, tt, c);
				if (!EC_POINT_is_at_infinity(sr_group(), X)) { EC_POINT_get_affine_coordinates(sr_group(), X, xx, NULL, c); BN_mod_sub(ee, rr, xx, n, c); uint8_t e2[32]; sr_bn_to_bytes32(e2, ee);
					int want2 = sr_verify(PUB[d], e2, S[i], S[j]); int g2 = sm2_do_verify(&PUBKEYS[d], e2, &sg) == 1; vh_eval(vh_hash(kk, sizeof kk, 6));
					if (g2 != want2) { char key[128]; snprintf(key, sizeof key, "C01:rs-pairs:solved-digest:sm2_do_verify:%s", want2 ? "valid-rejected" : "invalid-accepted"); vh_viol(key, "\"key\":\"%s\",\"r\":\"%s\",\"s\":\"%s\",\"e\":\"%s\"", DNAME[d], vh_hex(S[i], 32), vh_hex(S[j], 32), vh_hex(e2, 32)); }
					g2 = sm2_fast_verify(T, e2, &sg) == 1; vh_eval(vh_hash(kk, sizeof kk, 7));
					if (g2 != want2) { char key[128]; snprintf(key, sizeof key, "C01:rs-pairs:solved-digest:sm2_fast_verify:%s", want2 ? "valid-rejected" : "invalid-accepted"); vh_viol(key, "\"key\":\"%s\",\"r\":\"%s\",\"s\":\"%s\",\"e\":\"%s\"", DNAME[d], vh_hex(S[i], 32), vh_hex(S[j], 32), vh_hex(e2, 32)); }
					uint8_t der2[80]; size_t dl2 = enc_sig(der2, S[i], S[j]); g2 = sm2_verify(&PUBKEYS[d], e2, der2, dl2) == 1; vh_eval(vh_hash(kk, sizeof kk, 8));
					if (g2 != want2) { char key[128]; snprintf(key, sizeof key, "C01:rs-pairs:solved-digest:sm2_verify:%s", want2 ? "valid-rejected" : "invalid-accepted"); vh_viol(key, "\"key\":\"%s\",\"r\":\"%s\",\"s\":\"%s\",\"e\":\"%s\"", DNAME[d], vh_hex(S[i], 32), vh_hex(S[j], 32), vh_hex(e2, 32)); } }
				BN_free(rr); BN_free(ss); BN_free(tt); BN_free(xx); BN_free(ee); EC_POINT_free(X); EC_POINT_free(Pk); }
			/* DER-encoded through both byte interfaces */
			uint8_t der[80]; size_t dl = enc_sig(der, S[i], S[j]); int acc = verify_all(&PUBKEYS[d], DEFID, 16, MSG, 20, der, dl, e); vh_eval(vh_hash(kk, sizeof kk, 5)); expect_verdict("rs-pairs:der", d, acc, want, der, dl, "rs"); }
	}
	BN_free(t);
}
/* block 6: every byte string in the 1-deviation neighbourhood of a valid DER signature + the non-canonical menu */
static void offer(const char *what, int d, const uint8_t *sig, size_t sl, const uint8_t e[32], const uint8_t *msg, size_t ml) {
	uint8_t r[32], s[32]; int want = strict_sig(sig, sl, r, s) && sr_verify(PUB[d], e, r, s); int acc = verify_all(&PUBKEYS[d], DEFID, 16, msg, ml, sig, sl, e); vh_eval(vh_hash(sig, sl, d + 17)); expect_verdict(what, d, acc, want, sig, sl, "der");
}
static void blk_der(void) {
	if (!vh_block_begin("der-neighbourhood")) return;
	BIGNUM *t = BN_new();
	for (int d = 0; d < ND; d++) for (int shape = 0; shape < 3; shape++) {
		if (!vh_thorough && !(d == 3 || (d == 0 && shape == 0))) continue;
		uint8_t z[32], e[32], r0[32], s0[32], kb[32], sig[80], m[400]; sr_compute_z(z, (const uint8_t *)DEFID, 16, PUB[d]); sr_digest_e(e, z, MSG, 20);
		/* find nonces giving the three length shapes: both high bits set (72), mixed (71), both clear (70) */
		size_t sl = 0; for (unsigned kv = 1; kv < 400; kv++) { BN_set_word(t, 0x10001 * kv + d); bn_to_be(kb, t); if (!sr_sign(DKEY[d], e, kb, r0, s0)) continue; int hb = (r0[0] >> 7) + (s0[0] >> 7); if (hb == 2 - shape) { sl = enc_sig(sig, r0, s0); break; } }
		if (!sl) vh_harness_error("no nonce for shape");
		if (vh_next()) offer("der:valid", d, sig, sl, e, MSG, 20);
		for (size_t bit = 0; bit < sl * 8; bit++) { if (!vh_next()) continue; memcpy(m, sig, sl); m[bit / 8] ^= (uint8_t)(1 << (bit % 8)); offer("der:bitflip", d, m, sl, e, MSG, 20); }
		for (size_t k = 0; k < sl; k++) { if (!vh_next()) continue; offer("der:truncation", d, sig, k, e, MSG, 20); }
		for (int v = 0; v < 256; v++) { if (!vh_next()) continue; memcpy(m, sig, sl); m[sl] = (uint8_t)v; offer("der:extension-outside", d, m, sl + 1, e, MSG, 20);
			memcpy(m, sig, sl); m[sl] = (uint8_t)v; m[1]++; offer("der:extension-inside", d, m, sl + 1, e, MSG, 20); }
		/* non-canonical menu */
		if (!vh_next()) continue;
		size_t rl = sig[3], so = 4 + rl; size_t slen2 = sig[so + 1];
		{ size_t n = 0; m[n++] = 0x30; m[n++] = 0x81; m[n++] = sig[1]; memcpy(m + n, sig + 2, sl - 2); n += sl - 2; offer("der:long-form-seq-length", d, m, n, e, MSG, 20); }
		{ size_t n = 0; m[n++] = 0x30; m[n++] = 0x82; m[n++] = 0; m[n++] = sig[1]; memcpy(m + n, sig + 2, sl - 2); n += sl - 2; offer("der:long-form-2-seq-length", d, m, n, e, MSG, 20); }
		{ size_t n = 0; m[n++] = 0x30; m[n++] = (uint8_t)(sig[1] + 1); m[n++] = 0x02; m[n++] = 0x81; m[n++] = (uint8_t)rl; memcpy(m + n, sig + 4, sl - 4); n += sl - 4; offer("der:long-form-r-length", d, m, n, e, MSG, 20); }
		{ size_t n = 0; memcpy(m, sig, so + 1); n = so + 1; m[1]++; m[n++] = 0x81; m[n++] = (uint8_t)slen2; memcpy(m + n, sig + so + 2, slen2); n += slen2; offer("der:long-form-s-length", d, m, n, e, MSG, 20); }
		{ size_t n = 0; m[n++] = 0x30; m[n++] = (uint8_t)(sig[1] + 1); m[n++] = 0x02; m[n++] = (uint8_t)(rl + 1); m[n++] = 0; memcpy(m + n, sig + 4, sl - 4); n += sl - 4; offer("der:padded-r", d, m, n, e, MSG, 20); }
		{ size_t n = 0; memcpy(m, sig, so + 1); n = so + 1; m[1]++; m[n++] = (uint8_t)(slen2 + 1); m[n++] = 0; memcpy(m + n, sig + so + 2, slen2); n += slen2; offer("der:padded-s", d, m, n, e, MSG, 20); }
		if (sig[4] == 0) { size_t n = 0; m[n++] = 0x30; m[n++] = (uint8_t)(sig[1] - 1); m[n++] = 0x02; m[n++] = (uint8_t)(rl - 1); memcpy(m + n, sig + 5, sl - 5); n += sl - 5; offer("der:missing-sign-octet-r", d, m, n, e, MSG, 20); }
		/* over-long INTEGERs (33..64 content octets): the value does not fit the 32-octet field. With k surplus leading octets taken from the tail of r (a reader that
		   copies right-aligned without bounding the length writes them over r), zero octets and 0x01 octets; first INTEGER genuine, 1, and r with its tail zeroed */
		{ const uint8_t *rv = sig + 4 + (sig[4] == 0 && rl == 33 ? 1 : 0); size_t rvl = rl - (size_t)(rv - (sig + 4)); const uint8_t *sv = sig + so + 2 + (sig[so + 2] == 0 && slen2 == 33 ? 1 : 0); size_t svl = slen2 - (size_t)(sv - (sig + so + 2)); uint8_t r32[32] = {0}, s32[32] = {0}; memcpy(r32 + 32 - rvl, rv, rvl); memcpy(s32 + 32 - svl, sv, svl);
			static const size_t KS[] = { 1, 2, 16, 31, 32 }; for (int ki = 0; ki < 5; ki++) for (int fill = 0; fill < 3; fill++) for (int first = 0; first < 3; first++) { size_t k = KS[ki]; uint8_t big[64]; if (fill == 0) memcpy(big, r32 + 32 - k, k); else memset(big, fill == 1 ? 0x00 : 0x01, k); memcpy(big + k, s32, 32); size_t bl = k + 32; if (fill == 0 && (big[0] & 0x80)) continue; /* would be negative: another class */
				uint8_t fr[34]; size_t fl; if (first == 0) { memcpy(fr, sig + 4, rl); fl = rl; } else if (first == 1) { fr[0] = 1; fl = 1; } else { uint8_t z[32]; memcpy(z, r32, 32); memset(z + 32 - k, 0, k); size_t o = 0; while (o < 31 && z[o] == 0) o++; fl = 0; if (z[o] & 0x80) fr[fl++] = 0; memcpy(fr + fl, z + o, 32 - o); fl += 32 - o; }
				size_t n = 0; m[n++] = 0x30; size_t tot = 2 + fl + 2 + bl; if (tot >= 128) { m[n++] = 0x81; } m[n++] = (uint8_t)tot; m[n++] = 0x02; m[n++] = (uint8_t)fl; memcpy(m + n, fr, fl); n += fl; m[n++] = 0x02; m[n++] = (uint8_t)bl; memcpy(m + n, big, bl); n += bl; offer("der:over-long-s", d, m, n, e, MSG, 20);
				/* and the mirror image: over-long r */ if (first == 0) { n = 0; m[n++] = 0x30; tot = 2 + (k + 32) + 2 + slen2; if (tot >= 128) m[n++] = 0x81; m[n++] = (uint8_t)tot; m[n++] = 0x02; m[n++] = (uint8_t)(k + 32); if (fill == 0) memset(m + n, 0x01, k); else memset(m + n, fill == 1 ? 0x00 : 0x7f, k); n += k; memcpy(m + n, r32, 32); n += 32; memcpy(m + n, sig + so, 2 + slen2); n += 2 + slen2; offer("der:over-long-r", d, m, n, e, MSG, 20); } } }
		{ size_t n = 0; memcpy(m, sig, sl); n = sl; m[1] += 3; m[n++] = 0x02; m[n++] = 1; m[n++] = 1; offer("der:third-integer", d, m, n, e, MSG, 20); }
		{ size_t n = 0; m[n++] = 0x30; m[n++] = 0x80; memcpy(m + n, sig + 2, sl - 2); n += sl - 2; m[n++] = 0; m[n++] = 0; offer("der:indefinite-length", d, m, n, e, MSG, 20); }
		{ memcpy(m, sig, sl); m[0] = 0x31; offer("der:set-tag", d, m, sl, e, MSG, 20); memcpy(m, sig, sl); m[2] = 0x03; offer("der:bitstring-tag-r", d, m, sl, e, MSG, 20); memcpy(m, sig, sl); m[0] = 0x10; offer("der:primitive-seq-tag", d, m, sl, e, MSG, 20); }
		{ size_t n = 0; m[n++] = 0x30; m[n++] = (uint8_t)(2 + 2 + slen2); m[n++] = 0x02; m[n++] = 0; memcpy(m + n, sig + so, 2 + slen2); n += 2 + slen2; offer("der:empty-integer-r", d, m, n, e, MSG, 20); }
		{ uint8_t big[33] = { 1 }; memcpy(big + 1, r0, 32); size_t n = 0; m[n++] = 0x30; m[n++] = (uint8_t)(2 + 33 + 2 + slen2); m[n++] = 0x02; m[n++] = 33; memcpy(m + n, big, 33); n += 33; memcpy(m + n, sig + so, 2 + slen2); n += 2 + slen2; offer("der:33-byte-r", d, m, n, e, MSG, 20); }
		{ memcpy(m + 2, sig, sl); m[0] = 0x30; m[1] = (uint8_t)sl; offer("der:nested-sequence", d, m, sl + 2, e, MSG, 20); }
		offer("der:empty", d, sig, 0, e, MSG, 20);
		/* message / public key single-bit flips for this signature */
		for (size_t bit = 0; bit < 20 * 8; bit++) { uint8_t mm[20]; memcpy(mm, MSG, 20); mm[bit / 8] ^= (uint8_t)(1 << (bit % 8)); uint8_t e2[32]; sr_digest_e(e2, z, mm, 20); uint8_t rr[32], ss[32]; strict_sig(sig, sl, rr, ss); int want = sr_verify(PUB[d], e2, rr, ss);
			int acc = verify_all(&PUBKEYS[d], DEFID, 16, mm, 20, sig, sl, e2); vh_eval(vh_mix(bit + d * 1000 + 9000)); expect_verdict("msg-bitflip", d, acc, want, sig, sl, "msg"); }
		for (size_t bit = 0; bit < 64 * 8; bit++) { uint8_t pb[64]; memcpy(pb, PUB[d], 64); pb[bit / 8] ^= (uint8_t)(1 << (bit % 8)); SM2_Z256_POINT P; if (sm2_z256_point_from_bytes(&P, pb) != 1) { vh_eval(0); continue; } /* not a point: import refused (C12) */
			SM2_KEY pk; sm2_key_set_public_key(&pk, &P); uint8_t z2[32], e2[32], rr[32], ss[32]; sr_compute_z(z2, (const uint8_t *)DEFID, 16, pb); sr_digest_e(e2, z2, MSG, 20); strict_sig(sig, sl, rr, ss); int want = sr_verify(pb, e2, rr, ss);
			int acc = verify_all(&pk, DEFID, 16, MSG, 20, sig, sl, e2); vh_eval(vh_mix(bit + d * 1000 + 19000)); expect_verdict("pubkey-bitflip", d, acc, want, sig, sl, "pub"); }
		vh_sample("{\"block\":\"der-neighbourhood\",\"key\":\"%s\",\"valid_sig\":\"%s\"}", DNAME[d], vh_hex(sig, sl));
	}
	BN_free(t);
}
/* block 7: OpenSSL-made signatures verify in the library (independent signer, non-default ID) */
static void blk_interop(void) {
	if (!vh_block_begin("interop")) return;
	static const struct { const char *p; size_t n; } IDS[] = { { "1234567812345678", 16 }, { "bob@example", 11 }, { "x", 1 } };
	for (int d = 0; d < ND; d++) for (int i = 0; i < 3; i++) for (size_t ml = 0; ml < 70; ml += 23) { if (!vh_next()) continue; uint8_t sig[96]; size_t sl = 0;
		if (sr_evp_sign(DKEY[d], PUB[d], (const uint8_t *)IDS[i].p, IDS[i].n, MSG, ml, sig, &sl) != 1) { vh_obs("OpenSSL could not sign with %s", DNAME[d]); continue; }
		uint8_t z[32], e[32]; sr_compute_z(z, (const uint8_t *)IDS[i].p, IDS[i].n, PUB[d]); sr_digest_e(e, z, MSG, ml); int acc = verify_all(&PUBKEYS[d], IDS[i].p, IDS[i].n, MSG, ml, sig, sl, e); vh_eval(vh_mix(d * 100 + i * 10 + ml + 1)); expect_verdict("interop:openssl-signature", d, acc, 1, sig, sl, "evp"); }
}
static void body(void) { blk_sign(); blk_retry(); blk_chunks(); blk_long_stream(); blk_own_key(); blk_id(); blk_rs(); blk_der(); blk_interop(); }
int main(int argc, char **argv) { vh_init(argc, argv); setup(); vh_guarded("C01", body, 60); return vh_finish(); }
