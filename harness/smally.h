/* smally.h - a curve point of SM2 with a prescribed small ordinate (root of the cubic x^3 - 3x + b - y^2 found as gcd(x^p - x, f)); shared by c02 and c12 */
#ifndef SMALLY_H
#define SMALLY_H
#include <openssl/bn.h>
/* ---- tiny polynomial arithmetic over F_p modulo the monic cubic f = x^3 + A x + C ---- */
static void pmul(BIGNUM *r[3], BIGNUM *u[3], BIGNUM *v[3], const BIGNUM *A, const BIGNUM *C, const BIGNUM *p, BN_CTX *c) {
	BIGNUM *t[5], *m = BN_new(); for (int i = 0; i < 5; i++) { t[i] = BN_new(); BN_zero(t[i]); }
	for (int i = 0; i < 3; i++) for (int j = 0; j < 3; j++) { BN_mod_mul(m, u[i], v[j], p, c); BN_mod_add(t[i + j], t[i + j], m, p, c); }
	/* x^4 = -A x^2 - C x ; x^3 = -A x - C */
	BN_mod_mul(m, t[4], A, p, c); BN_mod_sub(t[2], t[2], m, p, c); BN_mod_mul(m, t[4], C, p, c); BN_mod_sub(t[1], t[1], m, p, c);
	BN_mod_mul(m, t[3], A, p, c); BN_mod_sub(t[1], t[1], m, p, c); BN_mod_mul(m, t[3], C, p, c); BN_mod_sub(t[0], t[0], m, p, c);
	for (int i = 0; i < 3; i++) BN_copy(r[i], t[i]); for (int i = 0; i < 5; i++) BN_free(t[i]); BN_free(m);
}
/* returns 1 and the point (x, ys) if the cubic x^3 - 3x + b - ys^2 has exactly one root in F_p */
static int small_y_point(unsigned ys, uint8_t xy[64]) {
	BN_CTX *c = sr_ctx(); const BIGNUM *p = sr_p(); BIGNUM *A = BN_new(), *C = BN_new(), *b = NULL, *t = BN_new(); BN_hex2bn(&b, "28E9FA9E9D9F5E344D5A9E4BCF6509A7F39789F515AB8F92DDBCBD414D940E93");
	BN_copy(A, p); BN_sub_word(A, 3); BN_set_word(t, ys); BN_mod_sqr(t, t, p, c); BN_mod_sub(C, b, t, p, c);
	BIGNUM *h[3], *x[3]; for (int i = 0; i < 3; i++) { h[i] = BN_new(); x[i] = BN_new(); BN_zero(h[i]); BN_zero(x[i]); } BN_one(h[0]); BN_one(x[1]);
	for (int i = BN_num_bits(p) - 1; i >= 0; i--) { pmul(h, h, h, A, C, p, c); if (BN_is_bit_set(p, i)) pmul(h, h, x, A, C, p, c); }   /* h = x^p mod f */
	BN_mod_sub(h[1], h[1], BN_value_one(), p, c);                                                                      /* g = x^p - x, degree <= 2 */
	/* gcd(f, g): f = x^3 + A x + C.  Euclid by hand for degrees 3 / <=2. */
	int ok = 0; BIGNUM *g2 = h[2], *g1 = h[1], *g0 = h[0], *inv = BN_new(), *q = BN_new(), *r1 = BN_new(), *r0 = BN_new(), *m = BN_new();
	if (!BN_is_zero(g2)) {
		/* make g monic: g = x^2 + a1 x + a0 */ BN_mod_inverse(inv, g2, p, c); BIGNUM *a1 = BN_new(), *a0 = BN_new(); BN_mod_mul(a1, g1, inv, p, c); BN_mod_mul(a0, g0, inv, p, c);
		/* f mod g: x^3 + A x + C = (x - a1) g + r, r = (A - a0 + a1^2) x + (C + a1 a0) */
		BN_mod_sqr(r1, a1, p, c); BN_mod_add(r1, r1, A, p, c); BN_mod_sub(r1, r1, a0, p, c); BN_mod_mul(r0, a1, a0, p, c); BN_mod_add(r0, r0, C, p, c);
		if (!BN_is_zero(r1)) { /* candidate root of r: x0 = -r0/r1; it is the single common root iff g(x0) = 0 */ BN_mod_inverse(inv, r1, p, c); BN_mod_mul(q, r0, inv, p, c); BN_mod_sub(q, p, q, p, c); BN_nnmod(q, q, p, c);
			BN_mod_sqr(m, q, p, c); BN_mod_mul(t, a1, q, p, c); BN_mod_add(m, m, t, p, c); BN_mod_add(m, m, a0, p, c); if (BN_is_zero(m)) { sr_bn_to_bytes32(xy, q); memset(xy + 32, 0, 32); xy[63] = (uint8_t)ys; xy[62] = (uint8_t)(ys >> 8); ok = 1; } }
		BN_free(a1); BN_free(a0);
	} else if (!BN_is_zero(g1)) { BN_mod_inverse(inv, g1, p, c); BN_mod_mul(q, g0, inv, p, c); BN_mod_sub(q, p, q, p, c); BN_nnmod(q, q, p, c); sr_bn_to_bytes32(xy, q); memset(xy + 32, 0, 32); xy[63] = (uint8_t)ys; xy[62] = (uint8_t)(ys >> 8); ok = sr_xy_on_curve(xy); }
	for (int i = 0; i < 3; i++) { BN_free(h[i]); BN_free(x[i]); } BN_free(A); BN_free(C); BN_free(b); BN_free(t); BN_free(inv); BN_free(q); BN_free(r1); BN_free(r0); BN_free(m);
	return ok && sr_xy_on_curve(xy);
}
#endif
