/* C20 — independent objects can be used concurrently with sequential results.
 *
 * Two builds of this one driver:
 *  (A) variant `vsched`: the library is compiled with -fsanitize=thread but linked WITHOUT the TSan runtime; this file supplies
 *      __tsan_read / __tsan_write ..., i.e. a callback on every load and store of library code (and, through --wrap, on
 *      memcpy/memset/memmove).  Tasks (2..3 operations, each on its own objects and its own scripted entropy stream) are real threads
 *      under a strict hand-off scheduler.  Footprint pass: a shadow map records per 8-byte granule which task read / wrote it; a
 *      granule written by one task and touched by another is a CONFLICT granule (with no lock anywhere in the library such a pair of
 *      accesses is a data race by definition).  Exploration: scheduling points are task start / end / blocking and every access to a
 *      conflict granule; all schedules with at most k preemptions are enumerated (iterative context bounding), conflict granules found
 *      on the way are added and the combination restarts (fixpoint).  Oracle: every task's outputs equal the outputs of the same
 *      operation run alone on the same entropy stream; the conflict set is empty.
 *  (B) variant `tsan`: the same operation bodies on 2/4/16 free-running threads under the real ThreadSanitizer (the cooperative
 *      scheduler's hand-offs would hide races from it), outputs compared with the sequential ones, any report is a violation. */
#include <stdio.h>
#include <pthread.h>
#include <semaphore.h>
#include <sys/wait.h>
#include <sys/mman.h>
#include <sched.h>
#include <gmssl/sm2.h>
#include <gmssl/sm3.h>
#include <gmssl/sm4.h>
#include <gmssl/sm9.h>
#include <gmssl/zuc.h>
#include <gmssl/sha2.h>
#include <gmssl/hmac.h>
#include <gmssl/x509.h>
#include <gmssl/x509_alg.h>
#include <gmssl/cms.h>
#include <gmssl/pkcs8.h>
#include <gmssl/base64.h>
#include <gmssl/hex.h>
#include <gmssl/sha1.h>
#include <gmssl/hkdf.h>
#include <gmssl/x509_crl.h>
#include <gmssl/x509_req.h>
#include <gmssl/pem.h>
#include <gmssl/digest.h>
#include <gmssl/sm4_cbc_mac.h>
#include <gmssl/tls.h>
#include "vh.h"
#include "venv.h"
#include "creds.h"
#if defined(__has_feature)
#if __has_feature(thread_sanitizer)
#define REAL_TSAN 1
#endif
#endif
#ifndef REAL_TSAN
#define REAL_TSAN 0
#endif

#define MAXT 6
static __thread int ME = -1; static __thread int IGN = 0; static __thread uintptr_t STK_LO, STK_HI;
static int NT;

/* ======================= in-memory connections (tasks that talk to each other: the handshake pairs) ======================= */
#define NPIPE 8
typedef struct { uint8_t buf[1 << 16]; size_t r, w; int closed; pthread_mutex_t mu; } hpipe; static hpipe *HP[NPIPE];   /* fd 3000+2k: client of pair k, 3001+2k: server */
static void wait_hook(int pipe_id);
static void pipes_reset(void) { for (int i = 0; i < NPIPE; i++) { if (!HP[i]) { HP[i] = (hpipe *)calloc(1, sizeof(hpipe)); pthread_mutex_init(&HP[i]->mu, NULL); } HP[i]->r = HP[i]->w = 0; HP[i]->closed = 0; } }
static void hcopy(uint8_t *d, const uint8_t *s, size_t n) { IGN++; for (size_t i = 0; i < n; i++) ((volatile uint8_t *)d)[i] = s[i]; IGN--; }
ssize_t send(int fd, const void *b, size_t n, int fl) { (void)fl; if (fd < 3000 || fd >= 3000 + NPIPE) { errno = EBADF; return -1; } hpipe *p = HP[(fd - 3000) ^ 1]; pthread_mutex_lock(&p->mu); if (p->w + n > sizeof p->buf) { pthread_mutex_unlock(&p->mu); errno = ENOBUFS; return -1; } hcopy(p->buf + p->w, (const uint8_t *)b, n); p->w += n; pthread_mutex_unlock(&p->mu); return (ssize_t)n; }
ssize_t recv(int fd, void *b, size_t n, int fl) { (void)fl; if (fd < 3000 || fd >= 3000 + NPIPE) { errno = EBADF; return -1; } hpipe *p = HP[fd - 3000]; for (;;) { pthread_mutex_lock(&p->mu); size_t av = p->w - p->r; if (av) { if (n > av) n = av; hcopy((uint8_t *)b, p->buf + p->r, n); p->r += n; pthread_mutex_unlock(&p->mu); return (ssize_t)n; } int cl = p->closed; pthread_mutex_unlock(&p->mu); if (cl) return 0; wait_hook(fd - 3000); } }
/* the descriptor numbers are the application's: a library call that closes the one it was handed frees a process-wide number that another thread's open() may be given
   while the owner still uses (and later closes) it. close() on a pair descriptor from inside a task is recorded; other descriptors go to the kernel. */
#include <sys/syscall.h>
static volatile int LIB_CLOSES;
int close(int fd) { if (fd >= 3000 && fd < 3000 + NPIPE) { __sync_fetch_and_add(&LIB_CLOSES, 1); return 0; } return (int)syscall(SYS_close, fd); }
static void pipe_close_peer(int fd) { hpipe *p = HP[(fd - 3000) ^ 1]; pthread_mutex_lock(&p->mu); p->closed = 1; pthread_mutex_unlock(&p->mu); }
static int pipe_ready(int id) { hpipe *p = HP[id]; return p->w != p->r || p->closed; }

/* ======================= operations ======================= */
typedef struct { uint64_t h; int rc; } out_t;
static void mix(out_t *o, const void *p, size_t n) { o->h = vh_hash(p, n, o->h + 0x9e37); }
static const uint8_t MSG[200] = "The quick brown fox jumps over the lazy dog. 0123456789 abcdefghijklmnopqrstuvwxyz ABCDEFGHIJKLMNOPQRSTUVWXYZ -- message block used by every task (read only)";
typedef void (*op_f)(int inst, out_t *o);
static void op_hash(int inst, out_t *o) { uint8_t d[64]; SM3_CTX c; sm3_init(&c); sm3_update(&c, MSG, 100 + inst); sm3_update(&c, MSG, 77); sm3_finish(&c, d); mix(o, d, 32); SHA256_CTX s; sha256_init(&s); sha256_update(&s, MSG, 150 + inst); sha256_finish(&s, d); mix(o, d, 32); SHA512_CTX s5; sha512_init(&s5); sha512_update(&s5, MSG, 199); sha512_finish(&s5, d); mix(o, d, 64); }
static void op_hmac(int inst, out_t *o) { uint8_t d[32], k[40]; memset(k, 0x30 + inst, sizeof k); SM3_HMAC_CTX c; sm3_hmac_init(&c, k, sizeof k); sm3_hmac_update(&c, MSG, 180); sm3_hmac_finish(&c, d); mix(o, d, 32); uint8_t okm[48]; sm3_pbkdf2("pw", 2, k, 8, 50 + inst, 48, okm); mix(o, okm, 48); }
static void op_sm4(int inst, out_t *o) { uint8_t k[16], iv[16], out[256], back[256], tag[16]; memset(k, 0x41 + inst, 16); memset(iv, 0x17, 16); SM4_KEY ek, dk; sm4_set_encrypt_key(&ek, k); sm4_set_decrypt_key(&dk, k); size_t ol, bl; o->rc += sm4_cbc_padding_encrypt(&ek, iv, MSG, 150, out, &ol); mix(o, out, ol); o->rc += sm4_cbc_padding_decrypt(&dk, iv, out, ol, back, &bl); mix(o, back, bl);
	uint8_t ctr[16]; memcpy(ctr, iv, 16); sm4_ctr_encrypt(&ek, ctr, MSG, 133, out); mix(o, out, 133); o->rc += sm4_gcm_encrypt(&ek, iv, 12, MSG, 20, MSG + 20, 100, out, 16, tag); mix(o, out, 100); mix(o, tag, 16); o->rc += sm4_gcm_decrypt(&ek, iv, 12, MSG, 20, out, 100, tag, 16, back); mix(o, back, 100);
	SM4_CBC_CTX cc; size_t l1, l2; o->rc += sm4_cbc_encrypt_init(&cc, k, iv); o->rc += sm4_cbc_encrypt_update(&cc, MSG, 70, out, &l1); o->rc += sm4_cbc_encrypt_finish(&cc, out + l1, &l2); mix(o, out, l1 + l2); }
static void op_zuc(int inst, out_t *o) { uint8_t k[16], iv[16], out[200]; memset(k, 0x51 + inst, 16); memset(iv, 0x22, 16); ZUC_STATE z; zuc_init(&z, k, iv); zuc_encrypt(&z, MSG, 160, out); mix(o, out, 160); uint32_t mac = 0; ZUC_MAC_CTX m; zuc_mac_init(&m, k, iv); zuc_mac_update(&m, MSG, 99); uint8_t mb[4]; zuc_mac_finish(&m, NULL, 0, mb); mix(o, mb, 4); (void)mac; }
static void op_sm2sign(int inst, out_t *o) { SM2_KEY k; o->rc += sm2_key_generate(&k); uint8_t pub[65]; sm2_z256_point_to_uncompressed_octets(&k.public_key, pub); mix(o, pub, 65); uint8_t sig[80]; size_t sl = 0; SM2_SIGN_CTX c; o->rc += sm2_sign_init(&c, &k, "id", 2); o->rc += sm2_sign_update(&c, MSG, 120 + inst); o->rc += sm2_sign_finish(&c, sig, &sl); mix(o, sig, sl); SM2_VERIFY_CTX v; o->rc += sm2_verify_init(&v, &k, "id", 2); o->rc += sm2_verify_update(&v, MSG, 120 + inst); o->rc += 10 * sm2_verify_finish(&v, sig, sl); uint8_t dg[32] = { 1 }; o->rc += sm2_sign(&k, dg, sig, &sl); mix(o, sig, sl); o->rc += 100 * sm2_verify(&k, dg, sig, sl); }
static void op_sm2enc(int inst, out_t *o) { const SM2_KEY *k = &CK[inst % 4]; uint8_t ct[400], pt[200]; size_t cl = 0, pl = 0; o->rc += sm2_encrypt(k, MSG, 100, ct, &cl); mix(o, ct, cl); o->rc += sm2_decrypt(k, ct, cl, pt, &pl); mix(o, pt, pl); uint8_t sh[64]; uint8_t oct[65]; sm2_z256_point_to_uncompressed_octets(&CK[5].public_key, oct); o->rc += sm2_ecdh(k, oct, 65, sh); mix(o, sh, 64);
	/* the nonce-batch interface (own pool per task) and the streaming encryptor */ { SM2_ENC_PRE_COMP pc[SM2_ENC_PRE_COMP_NUM]; o->rc += 100 * sm2_encrypt_pre_compute(pc); for (int i = 0; i < SM2_ENC_PRE_COMP_NUM; i++) { SM2_CIPHERTEXT C; uint8_t p2[64]; size_t l2 = 0; int r = sm2_do_encrypt_ex(k, &pc[i], MSG + i, 32, &C); o->rc += 1000 * (r == 1); if (r == 1) { mix(o, &C.point, 64); o->rc += 10000 * (sm2_do_decrypt(k, &C, p2, &l2) == 1); mix(o, p2, l2 <= 64 ? l2 : 0); } }
	  SM2_ENC_CTX ec; if (sm2_encrypt_init(&ec) == 1) { sm2_encrypt_update(&ec, MSG, 40); cl = 0; o->rc += 3 * sm2_encrypt_finish(&ec, k, ct, &cl); pl = 0; o->rc += 5 * (sm2_decrypt(k, ct, cl, pt, &pl) == 1); mix(o, pt, pl); } } }
static void op_sm9(int inst, out_t *o) { SM9_SIGN_MASTER_KEY m; SM9_SIGN_KEY k; o->rc += sm9_sign_master_key_generate(&m); o->rc += sm9_sign_master_key_extract_key(&m, "alice", 5, &k); uint8_t sig[200]; size_t sl = 0; SM9_SIGN_CTX c; sm9_sign_init(&c); sm9_sign_update(&c, MSG, 50 + inst); o->rc += sm9_sign_finish(&c, &k, sig, &sl); mix(o, sig, sl); sm9_verify_init(&c); sm9_verify_update(&c, MSG, 50 + inst); o->rc += 10 * sm9_verify_finish(&c, sig, sl, &m, "alice", 5); }
static void op_x509(int inst, out_t *o) { cert_spec ca, lf; spec_ca(&ca, "R", -1); char cn[8]; snprintf(cn, sizeof cn, "l%d", inst); spec_leaf(&lf, cn, X509_KU_DIGITAL_SIGNATURE); lf.eku = 1; uint8_t root[1024], leaf[1024]; size_t rl = 0, ll = 0; o->rc += make_cert(&ca, &CK[5], &CK[5], "R", root, &rl); o->rc += make_cert(&lf, &CK[inst % 4], &CK[5], "R", leaf, &ll); mix(o, root, rl); mix(o, leaf, ll);
	int vr = 0; o->rc += 10 * x509_certs_verify(leaf, ll, X509_cert_chain_server, root, rl, 4, &vr); const uint8_t *sub; size_t subl; o->rc += x509_cert_get_subject(leaf, ll, &sub, &subl); mix(o, sub, subl); leaf[ll - 5] ^= 1; o->rc += 100 * (x509_certs_verify(leaf, ll, X509_cert_chain_server, root, rl, 4, &vr) == 1); /* error path: error_print */ }
static void op_cms(int inst, out_t *o) { cert_spec s; char cn[8]; snprintf(cn, sizeof cn, "s%d", inst); spec_leaf(&s, cn, X509_KU_DIGITAL_SIGNATURE); uint8_t sc[1024]; size_t scl = 0; make_cert(&s, &CK[2], &CK[5], "R", sc, &scl); CMS_CERTS_AND_KEY sg = { sc, scl, &CK[2] }; uint8_t *cms = (uint8_t *)malloc(4096); size_t n = 0; o->rc += cms_sign(cms, &n, &sg, 1, OID_cms_data, MSG, 64 + inst, NULL, 0); mix(o, cms, n);
	int ct; const uint8_t *c, *certs, *crls, *sis; size_t cl, certl, crll, sil; cert_spec ca; spec_ca(&ca, "R", -1); uint8_t root[1024]; size_t rl = 0; make_cert(&ca, &CK[5], &CK[5], "R", root, &rl); o->rc += 10 * cms_verify(cms, n, NULL, 0, root, rl, &ct, &c, &cl, &certs, &certl, &crls, &crll, &sis, &sil);
	uint8_t k[16] = { 1, 2, 3, 4, 5, 6, 7, 8, 9, 10, 11, 12, 13, 14, 15, 16 }, iv[16] = { 7 }; n = 0; o->rc += cms_encrypt(cms, &n, OID_sm4_cbc, k, 16, iv, 16, OID_cms_data, MSG, 40, NULL, 0, NULL, 0); mix(o, cms, n); uint8_t out[200]; size_t ol = 0; int alg; const uint8_t *s1, *s2; size_t s1l, s2l; o->rc += cms_decrypt(cms, n, &alg, k, 16, &ct, out, &ol, &s1, &s1l, &s2, &s2l); mix(o, out, ol); free(cms); }
/* enveloped and signed-and-enveloped messages, each instance with its own recipient certificate, signer certificate, content and buffers */
static void op_cmsenv(int inst, out_t *o) { cert_spec s; char cn[8]; snprintf(cn, sizeof cn, "r%d", inst); spec_leaf(&s, cn, X509_KU_KEY_ENCIPHERMENT); uint8_t rc[1024], sc[1024]; size_t rcl = 0, scl = 0; make_cert(&s, &CK[inst % 4], &CK[5], "R", rc, &rcl); snprintf(cn, sizeof cn, "g%d", inst); spec_leaf(&s, cn, X509_KU_DIGITAL_SIGNATURE); make_cert(&s, &CK[(inst + 1) % 4], &CK[5], "R", sc, &scl);
	uint8_t *cms = (uint8_t *)malloc(8192), *out = (uint8_t *)malloc(512); size_t n = 0, ol = 0; uint8_t k[16], iv[16]; memset(k, 0x21 + inst, 16); memset(iv, 0x33, 16); int ct; const uint8_t *ri, *si, *sce, *scr, *s1, *s2; size_t ril, sil, scel, scrl, s1l, s2l;
	o->rc += cms_envelop(cms, &n, rc, rcl, OID_sm4_cbc, k, 16, iv, 16, OID_cms_data, MSG + inst, 90 + inst, NULL, 0, NULL, 0); o->rc += 10 * cms_deenvelop(cms, n, &CK[inst % 4], rc, rcl, &ct, out, &ol, &ri, &ril, &s1, &s1l, &s2, &s2l); mix(o, out, ol < 512 ? ol : 0);
	CMS_CERTS_AND_KEY sg = { sc, scl, &CK[(inst + 1) % 4] }; n = 0; ol = 0; o->rc += 100 * cms_sign_and_envelop(cms, &n, &sg, 1, rc, rcl, OID_sm4_cbc, k, 16, iv, 16, OID_cms_data, MSG + inst, 70 + inst, NULL, 0, NULL, 0, NULL, 0);
	o->rc += 1000 * cms_deenvelop_and_verify(cms, n, &CK[inst % 4], rc, rcl, NULL, 0, NULL, 0, &ct, out, &ol, &ri, &ril, &si, &sil, &sce, &scel, &scr, &scrl, &s1, &s1l, &s2, &s2l); mix(o, out, ol < 512 ? ol : 0); free(cms); free(out); }
static void op_pkcs8(int inst, out_t *o) { uint8_t b[600], *p = b; size_t l = 0; o->rc += sm2_private_key_info_encrypt_to_der(&CK[inst % 4], "password", &p, &l); mix(o, b, l); SM2_KEY k; const uint8_t *cp = b, *at; size_t rem = l, al; o->rc += sm2_private_key_info_decrypt_from_der(&k, &at, &al, "password", &cp, &rem); uint8_t d[32]; sm2_z256_to_bytes(k.private_key, d); mix(o, d, 32); cp = b; rem = l; o->rc += 10 * (sm2_private_key_info_decrypt_from_der(&k, &at, &al, "wrong", &cp, &rem) == 1); }
static void op_record(int inst, out_t *o) { uint8_t key[16], mk[32], seq[8] = { 0, 0, 0, 0, 0, 0, 0, (uint8_t)inst }, hdr[5] = { 23, 1, 1, 0, 100 }; memset(key, 0x61 + inst, 16); memset(mk, 0x62, 32); SM4_KEY ek, dk; sm4_set_encrypt_key(&ek, key); sm4_set_decrypt_key(&dk, key); SM3_HMAC_CTX h; sm3_hmac_init(&h, mk, 32); uint8_t out[400], back[400]; size_t ol = 0, bl = 0; o->rc += tls_cbc_encrypt(&h, &ek, seq, hdr, MSG, 100, out, &ol); mix(o, out, ol); hdr[3] = (uint8_t)(ol >> 8); hdr[4] = (uint8_t)ol; o->rc += tls_cbc_decrypt(&h, &dk, seq, hdr, out, ol, back, &bl); mix(o, back, bl);
	BLOCK_CIPHER_KEY bk; block_cipher_set_encrypt_key(&bk, BLOCK_CIPHER_sm4(), key); uint8_t iv[12] = { 9 }; o->rc += tls13_gcm_encrypt(&bk, iv, seq, 23, MSG, 90, 3, out, &ol); mix(o, out, ol); int rt; o->rc += tls13_gcm_decrypt(&bk, iv, seq, out, ol, &rt, back, &bl); mix(o, back, bl); }
static void op_decode_bad(int inst, out_t *o) { uint8_t junk[64]; for (int i = 0; i < 64; i++) junk[i] = (uint8_t)(i * 37 + inst); junk[0] = 0x30; junk[1] = 0x3e; const uint8_t *cp = junk; size_t l = 64; SM2_KEY k; o->rc += sm2_public_key_info_from_der(&k, &cp, &l) == 1; const uint8_t *c; size_t cl; cp = junk; l = 64; o->rc += x509_cert_from_der(&c, &cl, &cp, &l) == 1; uint32_t nodes[32]; size_t nc; uint8_t oid[5] = { 0x06, 0x03, 0x2a, 0x81, 0x1c }; cp = oid; l = 5; o->rc += asn1_object_identifier_from_der(nodes, &nc, &cp, &l); mix(o, nodes, nc * 4); char hex[129]; uint8_t hb[64]; size_t hl; for (int i = 0; i < 128; i++) hex[i] = "0123456789abcdef"[(i + inst) & 15]; hex_to_bytes(hex, 128, hb, &hl); mix(o, hb, hl); }
/* many small interfaces in one task: compressed points (square root), key files DER/PEM, base64 / hex / PEM text, DER time / OID / string helpers, CRL and
   request issuing, SM9 encrypt / decrypt / exchange, CCM / XTS / CFB / OFB, SM4-CBC-MAC, ZUC-256, SHA-1/224/384, HKDF, SM2 key exchange helpers */
static void op_misc(int inst, out_t *o) { uint8_t b[2048], b2[2048]; size_t n = 0, n2 = 0; uint8_t *p; const uint8_t *cp;
	{ const SM2_KEY *k = &CK[inst % 4]; uint8_t c33[33]; SM2_Z256_POINT P; o->rc += sm2_z256_point_to_compressed_octets(&k->public_key, c33); o->rc += sm2_z256_point_from_octets(&P, c33, 33); sm2_z256_point_to_bytes(&P, b); mix(o, b, 64); uint8_t sh[64]; o->rc += sm2_ecdh(&CK[(inst + 1) % 4], c33, 33, sh); mix(o, sh, 64); }
	{ SM2_KEY k2; p = b; n = 0; o->rc += sm2_private_key_info_to_der(&CK[inst % 4], &p, &n); mix(o, b, n); const uint8_t *at; size_t al; cp = b; n2 = n; o->rc += sm2_private_key_info_from_der(&k2, &at, &al, &cp, &n2); p = b; n = 0; o->rc += sm2_public_key_info_to_der(&CK[inst % 4], &p, &n); cp = b; n2 = n; o->rc += sm2_public_key_info_from_der(&k2, &cp, &n2); char *t = NULL; size_t tl = 0; FILE *f = open_memstream(&t, &tl); o->rc += sm2_public_key_info_to_pem(&CK[inst % 4], f); fclose(f); mix(o, t, tl); f = fmemopen(t, tl, "r"); o->rc += sm2_public_key_info_from_pem(&k2, f); fclose(f); free(t); }
	{ BASE64_CTX bc; int l1 = 0, l2 = 0; base64_encode_init(&bc); base64_encode_update(&bc, MSG, 100 + inst, b, &l1); base64_encode_finish(&bc, b + l1, &l2); mix(o, b, (size_t)(l1 + l2)); base64_decode_init(&bc); int d1 = 0, d2 = 0; o->rc += base64_decode_update(&bc, b, l1 + l2, b2, &d1); base64_decode_finish(&bc, b2 + d1, &d2); mix(o, b2, (size_t)(d1 + d2)); char hx[130]; for (int i = 0; i < 128; i++) hx[i] = "0123456789abcdef"[(i * 7 + inst) & 15]; size_t hl; o->rc += hex_to_bytes(hx, 128, b, &hl); mix(o, b, hl); }
	{ p = b; n = 0; time_t tv = 1790000000 + inst * 86400 * 400; o->rc += asn1_utc_time_to_der(tv, &p, &n); o->rc += asn1_generalized_time_to_der(tv + 7, &p, &n); mix(o, b, n); cp = b; n2 = n; time_t t1 = 0, t2 = 0; o->rc += asn1_utc_time_from_der(&t1, &cp, &n2); o->rc += asn1_generalized_time_from_der(&t2, &cp, &n2); mix(o, &t1, sizeof t1); mix(o, &t2, sizeof t2);
	  uint32_t nodes[8] = { 1, 2, 156, 10197, 1, 301, (uint32_t)inst + 1 }; p = b; n = 0; o->rc += asn1_object_identifier_to_der(nodes, 7, &p, &n); mix(o, b, n); uint32_t back[32]; size_t bc2; cp = b; n2 = n; o->rc += asn1_object_identifier_from_der(back, &bc2, &cp, &n2); mix(o, back, bc2 * 4); int oid; p = b; n = 0; o->rc += x509_signature_algor_to_der(OID_sm2sign_with_sm3, &p, &n); cp = b; n2 = n; o->rc += x509_signature_algor_from_der(&oid, &cp, &n2); mix(o, &oid, sizeof oid); }
	{ uint8_t nm[128]; size_t nl = 0; make_name(nm, &nl, "crl"); uint8_t rev[200], *rp = rev; size_t rvl = 0; uint8_t sn[2] = { 1, (uint8_t)inst }; x509_revoked_cert_to_der(sn, 2, 1790000000 - 10, NULL, 0, &rp, &rvl); p = b; n = 0; o->rc += x509_crl_sign_to_der(X509_version_v2, OID_sm2sign_with_sm3, nm, nl, 1790000000 - 100, 1790000000 + 1000, rev, rvl, NULL, 0, &CK[5], SM2_DEFAULT_ID, 16, &p, &n); mix(o, b, n > 60 ? 60 : n); o->rc += 10 * x509_crl_check(b, n, 1790000000);
	  p = b2; n2 = 0; o->rc += x509_req_sign_to_der(X509_version_v1, nm, nl, &CK[inst % 4], (const uint8_t *)"", 0, OID_sm2sign_with_sm3, &CK[inst % 4], SM2_DEFAULT_ID, 16, &p, &n2); o->rc += 10 * x509_req_verify(b2, n2, SM2_DEFAULT_ID, 16); }
	{ uint8_t k[32], iv[16], tag[16]; memset(k, 0x71 + inst, 32); memset(iv, 0x13, 16); SM4_KEY ek; sm4_set_encrypt_key(&ek, k); o->rc += sm4_ccm_encrypt(&ek, iv, 12, MSG, 9, MSG + 9, 70, b, 16, tag); mix(o, b, 70); mix(o, tag, 16); o->rc += sm4_ccm_decrypt(&ek, iv, 12, MSG, 9, b, 70, tag, 16, b2); mix(o, b2, 70); uint8_t fb[16]; memcpy(fb, iv, 16); sm4_ofb_encrypt(&ek, fb, MSG, 55, b); mix(o, b, 55); memcpy(fb, iv, 16); sm4_cfb_encrypt(&ek, 16, fb, MSG, 64, b); mix(o, b, 64);
	  SM4_CBC_MAC_CTX mc; sm4_cbc_mac_init(&mc, k); sm4_cbc_mac_update(&mc, MSG, 77); sm4_cbc_mac_finish(&mc, tag); mix(o, tag, 16); ZUC256_STATE z; uint8_t iv23[23]; memset(iv23, 0x21, 23); zuc256_init(&z, k, iv23); uint32_t ks[8]; zuc256_generate_keystream(&z, 8, ks); mix(o, ks, sizeof ks);
	  uint8_t dg[64]; SHA1_CTX s1; sha1_init(&s1); sha1_update(&s1, MSG, 150); sha1_finish(&s1, dg); mix(o, dg, 20); SHA384_CTX s3; sha384_init(&s3); sha384_update(&s3, MSG, 190); sha384_finish(&s3, dg); mix(o, dg, 48); size_t pl = 0; o->rc += hkdf_extract(DIGEST_sm3(), k, 16, MSG, 40, dg, &pl); o->rc += hkdf_expand(DIGEST_sm3(), dg, pl, MSG, 5, 80, b); mix(o, b, 80); }
	{ SM9_ENC_MASTER_KEY em; SM9_ENC_KEY ek, eka; o->rc += sm9_enc_master_key_generate(&em); o->rc += sm9_enc_master_key_extract_key(&em, "bob", 3, &ek); n = 0; o->rc += sm9_encrypt(&em, "bob", 3, MSG, 30 + inst, b, &n); mix(o, b, n); n2 = 0; o->rc += sm9_decrypt(&ek, "bob", 3, b, n, b2, &n2); mix(o, b2, n2);
	  o->rc += sm9_exch_master_key_extract_key(&em, "alice", 5, &eka); SM9_EXCH_KEY kb; o->rc += sm9_exch_master_key_extract_key(&em, "bob", 3, &kb); SM9_Z256_POINT RA, RB; sm9_z256_t rA; uint8_t ska[32], skb[32]; o->rc += sm9_exch_step_1A(&em, "bob", 3, &RA, rA); o->rc += sm9_exch_step_1B(&em, "alice", 5, "bob", 3, &kb, &RA, &RB, skb, 32); o->rc += sm9_exch_step_2A(&em, "alice", 5, "bob", 3, &eka, rA, &RA, &RB, ska, 32); mix(o, ska, 32); mix(o, skb, 32); } }
/* every `const char *name(int)` helper of the headers (generated table) over a range of identifiers, in an order that depends on the instance,
   and the structure printers on own objects into a per-task memory stream: static result buffers / lazily built name tables live here */
#include "c20_table.h"
static void op_names(int inst, out_t *o) {
	for (int f = 0; f < C20_NNAMES; f++) for (int v = 0; v < 340; v++) { int a = (v * 7 + inst * 13 + f) % 340 - 3; const char *sname = C20_NAMES[f].fn(a); if (sname) mix(o, sname, strlen(sname)); else o->rc++; }
	for (int v = 0; v < 40; v++) { int a = 0x0300 + ((v * 3 + inst) % 8); const char *sname = tls_protocol_name(a); if (sname) mix(o, sname, strlen(sname)); a = 0xe000 + ((v * 5 + inst) % 0x20); sname = tls_cipher_suite_name(a); if (sname) mix(o, sname, strlen(sname)); a = 0x0700 + ((v + inst) % 16); sname = tls_signature_scheme_name(a); if (sname) mix(o, sname, strlen(sname)); }
	char *t = NULL; size_t tl = 0; FILE *fp = open_memstream(&t, &tl); cert_spec lf; char cn[8]; snprintf(cn, sizeof cn, "p%d", inst); spec_leaf(&lf, cn, X509_KU_DIGITAL_SIGNATURE | X509_KU_KEY_ENCIPHERMENT); lf.eku = 4; lf.nb -= (time_t)inst * 86400 * 37 + 3600 * inst; lf.na += (time_t)inst * 86400 * 11 + 61 * inst; /* dates differ between instances: printers that go through a shared result buffer show it */ uint8_t leaf[1024]; size_t ll = 0; o->rc += make_cert(&lf, &CK[inst % 4], &CK[5], "R", leaf, &ll); o->rc += x509_cert_print(fp, 0, 0, "certificate", leaf, ll);
	{ uint8_t nm[128]; size_t nl = 0; make_name(nm, &nl, "crl"); uint8_t rev[200], *rp = rev; size_t rvl = 0; uint8_t sn[2] = { 1, (uint8_t)inst }; x509_revoked_cert_to_der(sn, 2, 1790000000 - 10, NULL, 0, &rp, &rvl); uint8_t b[1024], *p = b; size_t n = 0; o->rc += x509_crl_sign_to_der(X509_version_v2, OID_sm2sign_with_sm3, nm, nl, 1790000000 - 100 - 86400 * 29 * inst, 1790000000 + 1000 + 86400 * 13 * inst, rev, rvl, NULL, 0, &CK[5], SM2_DEFAULT_ID, 16, &p, &n); o->rc += x509_crl_print(fp, 0, 0, "crl", b, n);
	  p = b; n = 0; o->rc += x509_req_sign_to_der(X509_version_v1, nm, nl, &CK[inst % 4], (const uint8_t *)"", 0, OID_sm2sign_with_sm3, &CK[inst % 4], SM2_DEFAULT_ID, 16, &p, &n); o->rc += x509_req_print(fp, 0, 0, "req", b, n); }
	{ CMS_CERTS_AND_KEY sg = { leaf, ll, &CK[inst % 4] }; uint8_t *cms = (uint8_t *)malloc(4096); size_t n = 0; o->rc += cms_sign(cms, &n, &sg, 1, OID_cms_data, MSG, 30 + inst, NULL, 0); o->rc += cms_print(fp, 0, 0, "cms", cms, n); free(cms); }
	{ uint8_t b[300], *p = b; size_t n = 0; sm2_private_key_info_to_der(&CK[inst % 4], &p, &n); o->rc += sm2_private_key_info_print(fp, 0, 0, "key", b, n); uint32_t nodes[8] = { 1, 2, 156, 10197, 1, 301, (uint32_t)inst + 1 }; o->rc += asn1_object_identifier_print(fp, 0, 0, "oid", NULL, nodes, 7); }
	fclose(fp); mix(o, t, tl); free(t); }
/* handshake: two tasks */
#include "tlsh_min.h"
static struct { const char *name; op_f f; int pair; } OPS[] = { { "hash", op_hash, 0 }, { "hmac-kdf", op_hmac, 0 }, { "sm4-modes", op_sm4, 0 }, { "zuc", op_zuc, 0 }, { "sm2-keygen-sign-verify", op_sm2sign, 0 }, { "sm2-encrypt-ecdh", op_sm2enc, 0 }, { "x509-sign-verify", op_x509, 0 }, { "cms-sign-encrypt", op_cms, 0 }, { "cms-envelop", op_cmsenv, 0 }, { "tls-record", op_record, 0 }, { "decode-malformed", op_decode_bad, 0 }, { "sm9-sign-verify", op_sm9, 0 }, { "pkcs8-encrypt", op_pkcs8, 0 }, { "misc-interfaces", op_misc, 0 }, { "names-and-printers", op_names, 0 },
	{ "handshake-tlcp", NULL, 1 }, { "handshake-tls12", NULL, 2 }, { "handshake-tls13", NULL, 3 }, { "handshake-refused-tlcp", NULL, 4 }, { "handshake-refused-tls12", NULL, 5 }, { "handshake-refused-tls13", NULL, 6 } };
#define NOPS ((int)(sizeof OPS / sizeof OPS[0]))

/* a combination = list of task descriptors */
typedef struct { int op, inst, role /* 0 plain, 1 handshake client, 2 handshake server */, pipe; } task_t;
static task_t TASK[MAXT]; static out_t OUT[MAXT], REF[MAXT];
static void run_task_body(int t) { task_t *k = &TASK[t]; memset(&OUT[t], 0, sizeof OUT[t]); venv_reset(0x7000 + 97 * k->op + 13 * k->inst + k->role); if (k->role == 0) OPS[k->op].f(k->inst, &OUT[t]); else hs_role(OPS[k->op].pair - 1, k->role == 1, k->pipe, k->inst, &OUT[t]); }

#if !REAL_TSAN
/* ======================= (A) controlled scheduler + access callbacks ======================= */
static sem_t SEM[MAXT], MAINSEM; static volatile int CUR = -1, DONE[MAXT], WAITING[MAXT]; static volatile int DEADLOCK;
typedef struct { uint8_t n, c, cur_enabled; } pt_t; static pt_t TR[1 << 16]; static int NTR; static uint8_t PFX[1 << 16]; static int NPFX; static int DIVERGED; static uint64_t NPOINTS;
static int enabled(int t) { return !DONE[t] && (WAITING[t] < 0 || pipe_ready(WAITING[t])); }
/* choose who runs next; cur = the task asking (-1: none / it cannot continue) */
static int choose_next(int cur) { int en[MAXT], n = 0; int cur_ok = cur >= 0 && enabled(cur); if (cur_ok) en[n++] = cur; for (int t = 0; t < NT; t++) if (t != cur && enabled(t)) en[n++] = t; else if (t == cur && !cur_ok) { } if (!n) return -1; int c = 0; if (n > 1) { if (NTR < NPFX) { c = PFX[NTR]; if (c >= n) { DIVERGED = 1; c = 0; } } if (NTR < (1 << 16)) { TR[NTR].n = (uint8_t)n; TR[NTR].c = (uint8_t)c; TR[NTR].cur_enabled = (uint8_t)cur_ok; NTR++; } NPOINTS++; } return en[c]; }
static void switch_to(int nxt) { int me = ME; if (nxt == me) return; CUR = nxt; sem_post(&SEM[nxt]); sem_wait(&SEM[me]); CUR = me; }
static void sched_point(void) { IGN++; int nxt = choose_next(ME); if (nxt >= 0) switch_to(nxt); IGN--; }
static void wait_hook(int pipe_id) { IGN++; WAITING[ME] = pipe_id; for (;;) { if (pipe_ready(pipe_id)) break; int nxt = choose_next(-1); /* I cannot continue */ if (nxt < 0) { /* nobody can run: deadlock -> close my pipe so that recv returns */ DEADLOCK = 1; HP[pipe_id]->closed = 1; break; } if (nxt == ME) break; switch_to(nxt); } WAITING[ME] = -1; IGN--; }
static void *task_thread(void *arg) { int t = (int)(intptr_t)arg; ME = t; pthread_attr_t at; pthread_getattr_np(pthread_self(), &at); void *sa; size_t ss; pthread_attr_getstack(&at, &sa, &ss); pthread_attr_destroy(&at); STK_LO = (uintptr_t)sa; STK_HI = STK_LO + ss; IGN = 1; sem_wait(&SEM[t]); CUR = t; IGN = 0;
	run_task_body(t); IGN = 1; DONE[t] = 1; if (TASK[t].role) pipe_close_peer(3000 + TASK[t].pipe); int nxt = choose_next(-1); if (nxt >= 0) { CUR = nxt; sem_post(&SEM[nxt]); } else { for (int i = 0; i < NT; i++) if (!DONE[i]) DEADLOCK = 1; sem_post(&MAINSEM); } ME = -1; return NULL; }
void *__real_memcpy(void *, const void *, size_t); void *__real_memset(void *, int, size_t); void *__real_memmove(void *, const void *, size_t);
/* shadow map */
typedef struct { uintptr_t g; uint32_t gen; uint8_t rd, wr; } sh_t; static sh_t *SH; static size_t SHCAP = 1 << 22; static uint32_t GEN = 1;
#define MAXW 4096
static uintptr_t WSET[MAXW]; static int NW; static uintptr_t NEWW[MAXW]; static int NNEWW; static int USE_W;
#define WHCAP (1 << 15)
static uintptr_t WH[WHCAP]; /* hash set over WSET (open addressing; at most MAXW = WHCAP/8 entries) */
static void w_rehash(void) { __real_memset(WH, 0, sizeof WH); for (int i = 0; i < NW; i++) { size_t j = (WSET[i] * 0x9E3779B97F4A7C15ULL) >> 49; while (WH[j & (WHCAP - 1)]) j++; WH[j & (WHCAP - 1)] = WSET[i]; } }
static int W_DIRTY = 1; static int in_w(uintptr_t g) { if (!NW) return 0; if (W_DIRTY) { w_rehash(); W_DIRTY = 0; } size_t j = (g * 0x9E3779B97F4A7C15ULL) >> 49; for (;;) { uintptr_t v = WH[j & (WHCAP - 1)]; if (!v) return 0; if (v == g) return 1; j++; } }
extern char __data_start[], _end[];
static inline void touch(uintptr_t g, int w) { size_t j = (g * 0x9E3779B97F4A7C15ULL) >> 42; sh_t *e; for (;;) { e = &SH[j & (SHCAP - 1)]; if (e->gen != GEN) { e->g = g; e->gen = GEN; e->rd = e->wr = 0; break; } if (e->g == g) break; j++; } uint8_t bit = (uint8_t)(1 << ME); uint8_t acc = e->rd | e->wr | bit, wr = e->wr | (w ? bit : 0); if (w) e->wr |= bit; else e->rd |= bit;
	int conflict = wr && (acc & (acc - 1)); int stat_write = w && (g << 3) >= (uintptr_t)__data_start && (g << 3) < (uintptr_t)_end;
	if ((conflict || stat_write) && !in_w(g)) { int known = 0; for (int i = 0; i < NNEWW; i++) if (NEWW[i] == g) known = 1; if (!known && NNEWW < MAXW) NEWW[NNEWW++] = g; } }
static inline void on_access(uintptr_t a, size_t n, int w) { if (ME < 0 || IGN || !n) return; if (a >= STK_LO && a < STK_HI) return; IGN++; uintptr_t g0 = a >> 3, g1 = (a + n - 1) >> 3; int hit = 0; for (uintptr_t g = g0; g <= g1; g++) { if (USE_W && NW && in_w(g)) hit = 1; } IGN--; if (hit) sched_point(); /* the access happens after the point */ IGN++; for (uintptr_t g = g0; g <= g1; g++) touch(g, w); IGN--; }
#define RW(n) void __tsan_read##n(void *a) { on_access((uintptr_t)a, n, 0); } void __tsan_write##n(void *a) { on_access((uintptr_t)a, n, 1); } void __tsan_unaligned_read##n(void *a) { on_access((uintptr_t)a, n, 0); } void __tsan_unaligned_write##n(void *a) { on_access((uintptr_t)a, n, 1); }
RW(1) RW(2) RW(4) RW(8) RW(16)
void __tsan_init(void) {} void __tsan_func_entry(void *p) { (void)p; } void __tsan_func_exit(void) {} void __tsan_vptr_update(void **a, void *b) { (void)a; (void)b; } void __tsan_vptr_read(void **a) { (void)a; }
void __tsan_read_range(void *a, unsigned long n) { on_access((uintptr_t)a, n, 0); } void __tsan_write_range(void *a, unsigned long n) { on_access((uintptr_t)a, n, 1); }

/* libc functions that answer through static storage (ctime, asctime, gmtime, localtime, strerror, strtok): libc is not instrumented, so the scheduler
   would never see the shared buffer. They are modelled here: the result lives in a named harness global, the write is an access like any other
   (reported as shared writable state, becomes a scheduling point), and there is a second point when the function returns - between a task's call and
   its use of the result. A library that calls one of them on behalf of independent objects shows up as a differing result under some schedule. */
char libc_static_result_of_ctime[32]; struct tm libc_static_result_of_gmtime; char libc_static_result_of_strerror[96];
char *ctime(const time_t *t) { on_access((uintptr_t)libc_static_result_of_ctime, 26, 1); IGN++; char b[32]; ctime_r(t, b); for (int i = 0; i < 26; i++) ((volatile char *)libc_static_result_of_ctime)[i] = b[i]; IGN--; on_access((uintptr_t)libc_static_result_of_ctime, 26, 0); return libc_static_result_of_ctime; }
char *asctime(const struct tm *tm) { on_access((uintptr_t)libc_static_result_of_ctime, 26, 1); IGN++; char b[32]; asctime_r(tm, b); for (int i = 0; i < 26; i++) ((volatile char *)libc_static_result_of_ctime)[i] = b[i]; IGN--; on_access((uintptr_t)libc_static_result_of_ctime, 26, 0); return libc_static_result_of_ctime; }
struct tm *gmtime(const time_t *t) { on_access((uintptr_t)&libc_static_result_of_gmtime, sizeof(struct tm), 1); IGN++; struct tm b; gmtime_r(t, &b); libc_static_result_of_gmtime = b; IGN--; on_access((uintptr_t)&libc_static_result_of_gmtime, sizeof(struct tm), 0); return &libc_static_result_of_gmtime; }
struct tm *localtime(const time_t *t) { on_access((uintptr_t)&libc_static_result_of_gmtime, sizeof(struct tm), 1); IGN++; struct tm b; localtime_r(t, &b); libc_static_result_of_gmtime = b; IGN--; on_access((uintptr_t)&libc_static_result_of_gmtime, sizeof(struct tm), 0); return &libc_static_result_of_gmtime; }
void *__wrap_memcpy(void *d, const void *s, size_t n) { on_access((uintptr_t)s, n, 0); on_access((uintptr_t)d, n, 1); return __real_memcpy(d, s, n); }
void *__wrap_memmove(void *d, const void *s, size_t n) { on_access((uintptr_t)s, n, 0); on_access((uintptr_t)d, n, 1); return __real_memmove(d, s, n); }
void *__wrap_memset(void *d, int c, size_t n) { on_access((uintptr_t)d, n, 1); return __real_memset(d, c, n); }
static void run_schedule2(const uint8_t *pfx, int npfx);
#include <malloc.h>
#include <fcntl.h>
void __real_free(void *);
/* a freed block may be handed to another task by the allocator: forget its history */
void __wrap_free(void *q) { if (q && SH && ME >= 0) { IGN++; size_t n = malloc_usable_size(q); uintptr_t g0 = (uintptr_t)q >> 3, g1 = ((uintptr_t)q + n - 1) >> 3; for (uintptr_t g = g0; g <= g1; g++) { size_t j = (g * 0x9E3779B97F4A7C15ULL) >> 42; for (;;) { sh_t *e = &SH[j & (SHCAP - 1)]; if (e->gen != GEN) break; if (e->g == g) { e->rd = e->wr = 0; break; } j++; } } IGN--; } __real_free(q); }
static int NULLFD = -1;
/* every execution runs in a forked child: library statics are in their pristine state at the start of each schedule (a lazily built
   table is built again, so its construction can be interleaved), and a crash is an observation of that schedule */
typedef struct { out_t out[MAXT]; int ntr; pt_t tr[1 << 16]; int nneww; uintptr_t neww[MAXW]; int diverged, deadlock, done, closes; uint64_t npoints; } shr_t; static shr_t *SHR; static int CRASHED;
static void run_schedule(const uint8_t *pfx, int npfx) { if (!SHR) SHR = (shr_t *)mmap(NULL, sizeof(shr_t), PROT_READ | PROT_WRITE, MAP_SHARED | MAP_ANONYMOUS, -1, 0); SHR->done = 0; CRASHED = 0; fflush(stdout); pid_t pid = fork(); if (pid < 0) vh_harness_error("fork");
	if (pid == 0) { if (NULLFD < 0) NULLFD = open("/dev/null", O_WRONLY); dup2(NULLFD, 1); alarm(300); uint64_t p0 = NPOINTS; run_schedule2(pfx, npfx); __real_memcpy(SHR->out, OUT, sizeof OUT); SHR->ntr = NTR; __real_memcpy(SHR->tr, TR, sizeof(pt_t) * (size_t)NTR); SHR->nneww = NNEWW; __real_memcpy(SHR->neww, NEWW, sizeof(uintptr_t) * (size_t)NNEWW); SHR->diverged = DIVERGED; SHR->closes = LIB_CLOSES; SHR->deadlock = DEADLOCK; SHR->npoints = NPOINTS - p0; SHR->done = 1; _exit(0); }
	int st; while (waitpid(pid, &st, 0) < 0 && errno == EINTR) {} if (!SHR->done) { CRASHED = 1; NTR = 0; return; }
	__real_memcpy(OUT, SHR->out, sizeof OUT); NTR = SHR->ntr; __real_memcpy(TR, SHR->tr, sizeof(pt_t) * (size_t)NTR); NNEWW = SHR->nneww; __real_memcpy(NEWW, SHR->neww, sizeof(uintptr_t) * (size_t)NNEWW); DIVERGED = SHR->diverged; LIB_CLOSES = SHR->closes; DEADLOCK = SHR->deadlock; NPOINTS += SHR->npoints; }
static void run_schedule2(const uint8_t *pfx, int npfx) { GEN++; NTR = 0; NPFX = npfx; if (npfx) __real_memcpy(PFX, pfx, npfx); DIVERGED = 0; DEADLOCK = 0; pipes_reset(); sem_init(&MAINSEM, 0, 0); pthread_t th[MAXT]; pthread_attr_t at; pthread_attr_init(&at); pthread_attr_setstacksize(&at, 8 << 20);
	for (int t = 0; t < NT; t++) { DONE[t] = 0; WAITING[t] = -1; sem_init(&SEM[t], 0, 0); } for (int t = 0; t < NT; t++) pthread_create(&th[t], &at, task_thread, (void *)(intptr_t)t);
	ME = -1; int first = choose_next(-1); CUR = first; sem_post(&SEM[first]); sem_wait(&MAINSEM); for (int t = 0; t < NT; t++) pthread_join(th[t], NULL); pthread_attr_destroy(&at); }
/* data-segment symbol table of this executable (nm -n, read once) */
typedef struct { uintptr_t a; char n[64]; } sym_t; static sym_t *SYMS; static int NSYMS = -1;
static void syms_load(void) { NSYMS = 0; char exe[300]; ssize_t el = readlink("/proc/self/exe", exe, sizeof exe - 1); if (el <= 0) return; exe[el] = 0; char cmd[400]; snprintf(cmd, sizeof cmd, "nm -n '%s' 2>/dev/null", exe); FILE *f = popen(cmd, "r"); if (!f) return; SYMS = (sym_t *)malloc(sizeof(sym_t) * 40000); char line[400], sym[200]; unsigned long v; char ty; uintptr_t known = 0;
	while (fgets(line, sizeof line, f)) { if (sscanf(line, "%lx %c %199s", &v, &ty, sym) != 3) continue; if (!strcmp(sym, "__data_start")) known = v; if (strchr("bBdD", ty) && NSYMS < 40000) { SYMS[NSYMS].a = v; snprintf(SYMS[NSYMS].n, sizeof SYMS[NSYMS].n, "%s", sym); NSYMS++; } } pclose(f); uintptr_t bias = (uintptr_t)__data_start - known; for (int i = 0; i < NSYMS; i++) SYMS[i].a += bias; }
static const char *symbol_of(uintptr_t addr) { static char out[160]; if (addr < (uintptr_t)__data_start || addr >= (uintptr_t)_end) { snprintf(out, sizeof out, "heap-or-other"); return out; } if (NSYMS < 0) syms_load(); snprintf(out, sizeof out, "data+0x%lx", (unsigned long)(addr - (uintptr_t)__data_start));
	int best = -1; for (int i = 0; i < NSYMS; i++) { if (SYMS[i].a <= addr) best = i; else if (SYMS[i].a > (uintptr_t)__data_start) break; } if (best >= 0) snprintf(out, sizeof out, "%s+%lu", SYMS[best].n, (unsigned long)(addr - SYMS[best].a)); return out; }
static uint64_t NSCHED, NEXEC; static uint64_t OUTCOMES_SEEN[64]; static int NOUTC;
static void combo_name(char *b, size_t n) { b[0] = 0; for (int t = 0; t < NT; t++) { char x[64]; snprintf(x, sizeof x, "%s%s%s", t ? "|" : "", OPS[TASK[t].op].name, TASK[t].role == 1 ? ":client" : TASK[t].role == 2 ? ":server" : ""); strncat(b, x, n - strlen(b) - 1); } }
/* explore one combination with preemption bound; returns number of schedules */
static void explore_combo(int bound) {
	char cn[200]; combo_name(cn, sizeof cn);
	/* sequential references: each plain task alone; a handshake pair together (client, server) in the default schedule */
	{ NNEWW = 0; int nt = NT; task_t save[MAXT]; __real_memcpy(save, TASK, sizeof save); out_t ref[MAXT]; for (int t = 0; t < nt; ) { int span = save[t].role ? 2 : 1; NT = span; for (int i = 0; i < span; i++) TASK[i] = save[t + i]; USE_W = 0; run_schedule(NULL, 0); if (CRASHED) vh_harness_error("reference run crashed"); for (int i = 0; i < span; i++) { ref[t + i] = OUT[i]; if (!strcmp(OPS[save[t + i].op].name, "cms-envelop") && OUT[i].rc != 1111) vh_harness_error("cms-envelop reference run: rc=%d (expected all four calls to succeed)", OUT[i].rc); } t += span; } NT = nt; __real_memcpy(TASK, save, sizeof save); __real_memcpy(REF, ref, sizeof ref); }
	int restarts = 0; NW = 0; W_DIRTY = 1; /* conflict / static-write granules seen during the reference runs stay pending and are reported with the first schedule */
restart:
	USE_W = 1; typedef struct { uint8_t *p; int n, pre; } item; static item *stack; if (!stack) stack = (item *)malloc(sizeof(item) * 2000000); int sp = 0; stack[sp++] = (item){ NULL, 0, 0 }; uint64_t sched_here = 0; NOUTC = 0;
	while (sp) { item it = stack[--sp]; if (vh_deadline_hit()) { vh_capped = 1; free(it.p); continue; } run_schedule(it.p, it.n); NSCHED++; NEXEC++; sched_here++; vh_index++; vh_cases++; vh_block_cases++;
		int judged = !vh_replay_block || vh_replay_index == vh_index; if (vh_replay_block && vh_index > vh_replay_index) { free(it.p); while (sp) free(stack[--sp].p); break; } char pre[300] = ""; for (int i = 0, o = 0; i < it.n && o < 280; i++) if (it.p[i]) o += snprintf(pre + o, sizeof pre - o, "%d:%d,", i, it.p[i]);
		if (CRASHED) { if (judged) { char key[240]; snprintf(key, sizeof key, "C20:crash:%s", cn); vh_viol(key, "\"schedule\":\"%s\"", pre); } free(it.p); continue; }
		if (LIB_CLOSES) { if (judged) { char key[240]; snprintf(key, sizeof key, "C20:library-closes-a-descriptor-the-application-owns:%s", cn); vh_viol(key, "\"closes\":%d,\"schedule\":\"%s\"", LIB_CLOSES, pre); } LIB_CLOSES = 0; }
		if (DIVERGED) vh_harness_error("schedule prefix diverged on replay (%s, %s)", cn, pre);
		if (NNEWW) { /* new conflict granules: report as data race, add to W, restart this combination */ for (int i = 0; i < NNEWW && NW < MAXW; i++) { uintptr_t a = NEWW[i] << 3; const char *sy = symbol_of(a); char sb[100]; snprintf(sb, sizeof sb, "%s", sy); char *plus = strchr(sb, '+'); if (plus) *plus = 0; if (judged && (a >= (uintptr_t)__data_start && a < (uintptr_t)_end)) { char key[240]; snprintf(key, sizeof key, "C20:shared-writable-state:%s", sb); vh_viol(key, "\"combination\":\"%s\",\"symbol\":\"%s\",\"schedule\":\"%s\"", cn, sy, pre); } else if (judged) { char key[240]; snprintf(key, sizeof key, "C20:conflicting-access:%s", cn); vh_viol(key, "\"where\":\"%s\",\"schedule\":\"%s\"", sy, pre); } WSET[NW++] = NEWW[i]; W_DIRTY = 1; }
			while (sp) free(stack[--sp].p); free(it.p); NNEWW = 0; if (++restarts < 40) goto restart; break; }
		uint64_t oc = 0; for (int t = 0; t < NT; t++) oc = vh_hash(&OUT[t], sizeof OUT[t], oc); int seen = 0; for (int i = 0; i < NOUTC; i++) if (OUTCOMES_SEEN[i] == oc) seen = 1; if (!seen && NOUTC < 64) OUTCOMES_SEEN[NOUTC++] = oc;
		if (judged) { vh_eval(vh_hash(it.p, it.n, vh_hash(TASK, sizeof(task_t) * NT, 5))); if (DEADLOCK) { char key[240]; snprintf(key, sizeof key, "C20:deadlock:%s", cn); vh_viol(key, "\"schedule\":\"%s\"", pre); }
			for (int t = 0; t < NT; t++) if (OUT[t].h != REF[t].h || OUT[t].rc != REF[t].rc) { char key[240]; snprintf(key, sizeof key, "C20:result-differs-from-sequential:%s", cn); vh_viol(key, "\"task\":%d,\"op\":\"%s\",\"rc\":%d,\"rc_alone\":%d,\"schedule\":\"%s\",\"preemptions\":%d", t, OPS[TASK[t].op].name, OUT[t].rc, REF[t].rc, pre, it.pre); break; } }
		/* children: alternatives at every later point, cost = preemptions */
		/* partial-order reduction: with an empty conflict set the only dependencies between tasks are the pipes inside a handshake pair, so at a
		   point where the running task blocks or ends the choice among the OTHER tasks commutes; for 4-task combinations (two independent
		   handshakes: 3^k such choices) only the default is followed there (the start order is still enumerated) */
		/* a seeded shared table makes tens of thousands of scheduling points per run: alternatives are expanded at the first 400 points only and the run is
		   reported as capped (the conflict itself has been reported by then) */
		int lim = NTR; if (lim > 400) { lim = 400; vh_capped = 1; }
		for (int i = it.n; i < lim; i++) { int cost = it.pre; if (NT >= 4 && NW == 0 && i > 0 && !TR[i].cur_enabled) continue; for (int alt = 1; alt < TR[i].n; alt++) { int c2 = cost + (TR[i].cur_enabled ? 1 : 0); if (c2 > bound) continue; if (sp >= 1999990) { vh_capped = 1; break; } uint8_t *np = (uint8_t *)malloc(i + 1); for (int j = 0; j < i; j++) np[j] = TR[j].c; np[i] = (uint8_t)alt; stack[sp++] = (item){ np, i + 1, c2 }; } /* choices already taken along the default continuation add no cost */ }
		free(it.p); }
	if (vh_shard == 0 || 1) vh_sample("{\"combination\":\"%s\",\"bound\":%d,\"schedules\":%llu,\"conflict_granules\":%d,\"distinct_outcomes\":%d}", cn, bound, (unsigned long long)sched_here, NW, NOUTC);
}
static void body(void) { SH = (sh_t *)calloc(SHCAP, sizeof(sh_t)); creds_init(); hcreds_init(); int bound = vh_thorough ? 2 : 1; int combo = 0;
	/* pairs (unordered, including the same operation twice on distinct objects); one block per combination so that a replay addresses (combination, schedule number) */
	for (int a = 0; a < NOPS; a++) for (int b = a; b < NOPS; b++) { int me = combo++; if (!vh_replay_block && (me % vh_nshards) != vh_shard) continue;
		NT = 0; int pipe = 0; int ops[2] = { a, b }; for (int k = 0; k < 2; k++) { if (OPS[ops[k]].pair) { if (!vh_thorough && k == 1 && OPS[ops[0]].pair && a != b) { NT = -1; break; } TASK[NT] = (task_t){ ops[k], k, 1, pipe }; TASK[NT + 1] = (task_t){ ops[k], k, 2, pipe + 1 }; NT += 2; pipe += 2; } else { TASK[NT] = (task_t){ ops[k], k, 0, 0 }; NT++; } } if (NT < 0) continue;
		if (!vh_thorough && (OPS[a].f == op_pkcs8 || OPS[b].f == op_pkcs8) && a != b && (a + b) % 3) continue; char bn[64]; snprintf(bn, sizeof bn, "pair-%d-%d", a, b); if (!vh_block_begin(bn)) continue; explore_combo(NT >= 4 ? (vh_thorough ? 1 : 0) : NT == 3 ? 1 : bound); }
	if (vh_thorough) { static const int CHEAP[] = { 0, 1, 2, 3, 8, 9 }; int tc = 0; for (int a = 0; a < 6; a++) for (int b = a; b < 6; b++) for (int c = b; c < 6; c++) { int me = tc++; if (!vh_replay_block && (me % vh_nshards) != vh_shard) continue; NT = 3; TASK[0] = (task_t){ CHEAP[a], 0, 0, 0 }; TASK[1] = (task_t){ CHEAP[b], 1, 0, 0 }; TASK[2] = (task_t){ CHEAP[c], 2, 0, 0 }; char bn[64]; snprintf(bn, sizeof bn, "triple-%d-%d-%d", CHEAP[a], CHEAP[b], CHEAP[c]); if (!vh_block_begin(bn)) continue; explore_combo(2); } }
	printf("STAT schedules=%llu executions=%llu states=%llu transitions=%llu traces_validated_against_impl=%llu\n", (unsigned long long)NSCHED, (unsigned long long)NEXEC, (unsigned long long)(NPOINTS + NSCHED), (unsigned long long)NPOINTS, (unsigned long long)NEXEC); }
int main(int argc, char **argv) { vh_init(argc, argv); if (!freopen("/dev/null", "w", stderr)) {} body(); return vh_finish(); }
#else
/* ======================= (B) free-running threads under the real ThreadSanitizer ======================= */
static void wait_hook(int pipe_id) { (void)pipe_id; sched_yield(); }
static pthread_barrier_t BAR;
/* the same models in the free-running pass: the result buffers are harness globals that the real ThreadSanitizer watches */
char libc_static_result_of_ctime[32]; struct tm libc_static_result_of_gmtime;
char *ctime(const time_t *t) { char b[32]; ctime_r(t, b); memcpy(libc_static_result_of_ctime, b, 26); return libc_static_result_of_ctime; }
char *asctime(const struct tm *tm) { char b[32]; asctime_r(tm, b); memcpy(libc_static_result_of_ctime, b, 26); return libc_static_result_of_ctime; }
struct tm *gmtime(const time_t *t) { struct tm b; gmtime_r(t, &b); libc_static_result_of_gmtime = b; return &libc_static_result_of_gmtime; }
struct tm *localtime(const time_t *t) { struct tm b; localtime_r(t, &b); libc_static_result_of_gmtime = b; return &libc_static_result_of_gmtime; }
static void *free_thread(void *arg) { int t = (int)(intptr_t)arg; ME = t; pthread_barrier_wait(&BAR); run_task_body(t); if (TASK[t].role) pipe_close_peer(3000 + TASK[t].pipe); return NULL; }
static void run_free(void) { pipes_reset(); pthread_t th[MAXT * 4]; pthread_barrier_init(&BAR, NULL, NT); for (int t = 0; t < NT; t++) pthread_create(&th[t], NULL, free_thread, (void *)(intptr_t)t); for (int t = 0; t < NT; t++) pthread_join(th[t], NULL); pthread_barrier_destroy(&BAR); }
typedef struct { int ops[16]; int n; } fcombo; static fcombo FC; static out_t FOUT[MAXT], FREF[MAXT];
static int child_free(void *unused) { (void)unused; creds_init(); hcreds_init();  NT = 0; int pipe = 0; for (int k = 0; k < FC.n; k++) { if (OPS[FC.ops[k]].pair) { TASK[NT] = (task_t){ FC.ops[k], k, 1, pipe }; TASK[NT + 1] = (task_t){ FC.ops[k], k, 2, pipe + 1 }; NT += 2; pipe += 2; } else { TASK[NT] = (task_t){ FC.ops[k], k, 0, 0 }; NT++; } }
	/* the concurrent runs come FIRST in this fresh process (a lazily initialised static is only racy the first time), the sequential references after */
	static out_t conc[3][MAXT]; for (int rep = 0; rep < 3; rep++) { run_free(); memcpy(conc[rep], OUT, sizeof OUT); }
	int nt = NT; task_t save[MAXT]; memcpy(save, TASK, sizeof save); for (int t = 0; t < nt; ) { int span = save[t].role ? 2 : 1; NT = span; for (int i = 0; i < span; i++) TASK[i] = save[t + i]; run_free(); for (int i = 0; i < span; i++) FREF[t + i] = OUT[i]; t += span; } NT = nt; memcpy(TASK, save, sizeof save);
	int bad = 0; for (int rep = 0; rep < 3; rep++) for (int t = 0; t < NT; t++) if (conc[rep][t].h != FREF[t].h || conc[rep][t].rc != FREF[t].rc) bad = 1 + t; (void)FOUT; return bad; }
static void body(void) { int combo = 0; if (!vh_block_begin("free-running")) return;
	for (int a = 0; a < NOPS; a++) for (int b = a; b < NOPS; b++) { (void)combo; if (OPS[a].pair && OPS[b].pair && a != b && !vh_thorough) continue; if (!vh_next()) continue; FC.n = 2; FC.ops[0] = a; FC.ops[1] = b; if (OPS[a].pair && OPS[b].pair && MAXT < 4) continue; vh_obs_t ob; vh_fork(child_free, NULL, 300, &ob, NULL, 0, NULL); vh_eval(vh_mix(a * 100 + b + 1)); char cn[120]; snprintf(cn, sizeof cn, "%s|%s", OPS[a].name, OPS[b].name);
		const char *race = ob.err ? strstr(ob.err, "WARNING: ThreadSanitizer: data race") : NULL; if (race) { const char *loc = strstr(race, "Location is global '"); char sym[100] = "?"; if (loc) snprintf(sym, sizeof sym, "%.*s", (int)strcspn(loc + 20, "'"), loc + 20); else { const char *fr = strstr(race, "#0 "); if (fr) snprintf(sym, sizeof sym, "%.*s", (int)strcspn(fr + 3, " \n"), fr + 3); } char key[240]; snprintf(key, sizeof key, "C20:tsan-data-race:%s", sym); char rep[700]; size_t n = 0; for (const char *p = race; *p && n < sizeof rep - 1; p++) rep[n++] = (*p == '"' || *p == '\\') ? ' ' : (*p == '\n' ? '|' : *p); rep[n] = 0; vh_viol(key, "\"combination\":\"%s\",\"report\":\"%s\"", cn, rep); }
		else if (ob.kind == 0 && ob.ret) { char key[240]; snprintf(key, sizeof key, "C20:result-differs-from-sequential:%s", cn); vh_viol(key, "\"task\":%d,\"mode\":\"free-running\"", ob.ret - 1); } else if (ob.kind) { char key[240]; snprintf(key, sizeof key, "C20:crash:%s:%s", cn, ob.what); vh_viol(key, "\"mode\":\"free-running\""); } vh_obs_free(&ob); }
	/* many threads: 4 and 16 threads over the cheap operations */
	for (int n = 4; n <= 16; n *= 4) { if (!vh_next()) continue; if (n > MAXT) { /* each child uses up to MAXT tasks: run n/MAXT groups one after another is not concurrency; use MAXT */ } FC.n = n > MAXT ? MAXT : n; for (int k = 0; k < FC.n; k++) FC.ops[k] = (k * 5) % 12; vh_obs_t ob; vh_fork(child_free, NULL, 300, &ob, NULL, 0, NULL); vh_eval(vh_mix(9000 + n)); const char *race = ob.err ? strstr(ob.err, "WARNING: ThreadSanitizer: data race") : NULL; if (race || (ob.kind == 0 && ob.ret) || ob.kind) { char key[120]; snprintf(key, sizeof key, "C20:many-threads:%s", race ? "tsan-data-race" : ob.kind ? "crash" : "result-differs"); vh_viol(key, "\"threads\":%d", FC.n); } vh_obs_free(&ob); }
}
int main(int argc, char **argv) { vh_init(argc, argv); body(); return vh_finish(); }
#endif
