/* venv.h — the environment shim: the harness owns entropy and clock (libc symbols interposed by static linking).
 * Per-thread state so that TLS endpoints / C20 worker threads each have their own scripted stream. */
#ifndef VENV_H
#define VENV_H
#include <stdint.h>
#include <stddef.h>
#include <time.h>

typedef struct {
	uint64_t key;            /* stream key: a different key gives a different stream */
	uint64_t ctr;            /* bytes-block counter of the generator */
	const uint8_t *script;   /* optional explicit bytes served first */
	size_t scriptlen, scriptpos;
	long draws;              /* number of getentropy calls so far */
	long fail_at;            /* draw index that fails (-1 = never); fail_from: every draw >= index fails */
	long fail_from;
	long ff_count;           /* with ff_at: that many consecutive draws are all-0xff (0 = one draw): a source stuck high for a while */
	long ff_at;              /* draw index answered with all-0xff bytes (-1 = none): forces the redraw of any range-checked candidate */
	size_t bytes; int failed;   /* number of failures delivered */
	/* log of draws (first VENV_LOG calls): offset into logbuf + length */
	uint8_t logbuf[8192]; size_t loglen;
	struct { uint16_t off, len; } log[256]; int nlog;
} venv_stream;

venv_stream *venv_cur(void);                 /* this thread's stream */
void venv_reset(uint64_t key);                /* (re)start this thread's stream: generator keyed by key, no script, no failure */
void venv_script(const uint8_t *bytes, size_t len);
void venv_fail_at(long idx);
void venv_fail_from(long idx);
void venv_ff_at(long idx);
void venv_ff_window(long idx, long count);
void venv_set_time(time_t t);
time_t venv_get_time(void);
extern __thread int venv_in_ref;
extern void (*venv_fail_hook)(void);              /* set while inside a reference (OpenSSL) call: real entropy, not logged */
#define VENV_NOW 1790000000  /* fixed harness clock: 2026-09-21 */
#endif
