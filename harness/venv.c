#ifndef _GNU_SOURCE
#define _GNU_SOURCE
#endif
#include <string.h>
#include <unistd.h>
#include <sys/syscall.h>
#include <errno.h>
#include "venv.h"

static __thread venv_stream vs = { .key = 0x243f6a8885a308d3ULL, .fail_at = -1, .fail_from = -1, .ff_at = -1 };
__thread int venv_in_ref = 0;
static time_t vnow = VENV_NOW;
void (*venv_fail_hook)(void) = 0;   /* called (in the failing thread) when a scripted entropy failure is delivered */

venv_stream *venv_cur(void) { return &vs; }
void venv_reset(uint64_t key) { memset(&vs, 0, sizeof vs); vs.key = key; vs.fail_at = -1; vs.fail_from = -1; vs.ff_at = -1; }
void venv_script(const uint8_t *b, size_t n) { vs.script = b; vs.scriptlen = n; vs.scriptpos = 0; }
void venv_fail_at(long i) { vs.fail_at = i; }
void venv_fail_from(long i) { vs.fail_from = i; }
void venv_ff_at(long i) { vs.ff_at = i; }
void venv_ff_window(long i, long n) { vs.ff_at = i; vs.ff_count = n; }
void venv_set_time(time_t t) { vnow = t; }
time_t venv_get_time(void) { return vnow; }

static uint64_t mix(uint64_t x) { x += 0x9e3779b97f4a7c15ULL; x = (x ^ (x >> 30)) * 0xbf58476d1ce4e5b9ULL; x = (x ^ (x >> 27)) * 0x94d049bb133111ebULL; return x ^ (x >> 31); }

int getentropy(void *buf, size_t len)
{
	uint8_t *o = (uint8_t *)buf;
	if (venv_in_ref) { /* reference library asking: real kernel entropy, outside the model */
		size_t got = 0; while (got < len) { long r = syscall(SYS_getrandom, o + got, len - got, 0); if (r < 0) { if (errno == EINTR) continue; return -1; } got += r; } return 0;
	}
	if (len > 256) { errno = EIO; return -1; }
	long idx = vs.draws++;
	if (idx == vs.fail_at || (vs.fail_from >= 0 && idx >= vs.fail_from)) { vs.failed++; if (venv_fail_hook) venv_fail_hook(); errno = EIO; return -1; }
	for (size_t i = 0; i < len; i++) {
		if (idx == vs.ff_at || (vs.ff_count > 0 && vs.ff_at >= 0 && idx >= vs.ff_at && idx < vs.ff_at + vs.ff_count)) { o[i] = 0xff; continue; }
		if (vs.scriptpos < vs.scriptlen) o[i] = vs.script[vs.scriptpos++];
		else { uint64_t w = mix(vs.key ^ mix(vs.ctr >> 3)); o[i] = (uint8_t)(w >> (8 * (vs.ctr & 7))); vs.ctr++; }
	}
	vs.bytes += len;
	if (vs.nlog < 256 && vs.loglen + len <= sizeof vs.logbuf) {
		vs.log[vs.nlog].off = (uint16_t)vs.loglen; vs.log[vs.nlog].len = (uint16_t)len; vs.nlog++;
		memcpy(vs.logbuf + vs.loglen, o, len); vs.loglen += len;
	}
	return 0;
}

time_t time(time_t *t) { if (t) *t = vnow; return vnow; }
