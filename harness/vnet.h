/* vnet.h — in-memory duplex byte pipe between two TLS endpoints run as two threads under a strict hand-off scheduler,
 * with a record-aware adversary and explorer choice points.  Header-only; include once per driver.
 * The harness defines send()/recv()/usleep() itself (static linking), so the library's socket calls land here. */
#ifndef VNET_H
#define VNET_H
#define _GNU_SOURCE
#include <pthread.h>
#include <semaphore.h>
#include <errno.h>
#include <sys/socket.h>
#include <string.h>
#include <stdint.h>
#include <stdlib.h>
#include <stdio.h>
#include <unistd.h>

#define VN_CLIENT_FD 1000
#define VN_SERVER_FD 1001
#define VN_PIPE_CAP (1 << 18)

/* ---------- explorer choice points ---------- */
#define VX_MAXCH 4096
typedef struct { uint8_t n, c; } vx_pt;
static vx_pt vx_trace[VX_MAXCH]; static int vx_ntrace;          /* choices taken in this execution */
static uint8_t vx_prefix[VX_MAXCH]; static int vx_nprefix;       /* choices to replay first */
static int vx_diverged;
static int vx_choose(int n) { int c = 0; if (vx_ntrace < vx_nprefix) { c = vx_prefix[vx_ntrace]; if (c >= n) { vx_diverged = 1; c = 0; } } if (vx_ntrace < VX_MAXCH) { vx_trace[vx_ntrace].n = (uint8_t)n; vx_trace[vx_ntrace].c = (uint8_t)c; } vx_ntrace++; return c; }
static int vx_explore_env = 0;  /* 1: short reads / partial sends / task switches are choice points; 0: default answers only */

/* ---------- pipes ---------- */
typedef struct { uint8_t *buf; size_t r, w; } vn_pipe;
static volatile int vn_blocked[2];
static vn_pipe vn_to[2];             /* vn_to[0]: bytes travelling to the client, vn_to[1]: to the server */
static uint8_t *vn_stage[2]; static size_t vn_stagelen[2];   /* bytes written by sender dir (0 = from server to client) not yet forming a full record */
static int vn_recidx[2];             /* index of next record in each direction (dir 0: server->client, 1: client->server) */
static size_t vn_bytes_sent[2], vn_bytes_recv[2]; static int vn_nrecv[2], vn_nsend[2];

/* adversary: called for every complete record travelling in direction dir; may rewrite it in place (len may shrink/grow up to cap),
 * and returns the number of copies to deliver (0 = drop, 1 = normal, 2 = duplicate).  extra: records to inject after it. */
typedef struct { int dir, idx; uint8_t *rec; size_t len, cap; } vn_rec;
static int (*vn_adv)(vn_rec *r) = NULL;
static void (*vn_adv_after)(int dir, int idx) = NULL;          /* may call vn_inject() */
/* log of records as sent (before the adversary) */
typedef struct { int dir; size_t len; uint8_t hdr[5]; uint8_t *copy; } vn_logrec;
static vn_logrec vn_log[256]; static int vn_nlog;
static void vn_pipe_put(int to, const uint8_t *p, size_t n) { vn_pipe *q = &vn_to[to]; if (q->w + n > VN_PIPE_CAP) { if (q->r) { memmove(q->buf, q->buf + q->r, q->w - q->r); q->w -= q->r; q->r = 0; } if (q->w + n > VN_PIPE_CAP) n = VN_PIPE_CAP - q->w; } memcpy(q->buf + q->w, p, n); q->w += n; if (n) vn_blocked[to] = 0; /* data for a waiting reader */ }
static void vn_inject(int dir, const uint8_t *rec, size_t len) { vn_pipe_put(dir == 0 ? 0 : 1, rec, len); }
static int vn_hold_dir = -1; static uint8_t *vn_hold; static size_t vn_holdlen;   /* one held-back record (for swap-with-next) */
static void vn_deliver_records(int dir) {
	for (;;) { size_t sl = vn_stagelen[dir]; uint8_t *s = vn_stage[dir]; if (sl < 5) return; size_t rl = 5 + (((size_t)s[3] << 8) | s[4]); if (sl < rl) return;
		static uint8_t work[2][70000]; memcpy(work[dir], s, rl); memmove(s, s + rl, sl - rl); vn_stagelen[dir] -= rl;
		if (vn_nlog < 256) { vn_log[vn_nlog].dir = dir; vn_log[vn_nlog].len = rl; memcpy(vn_log[vn_nlog].hdr, work[dir], 5); vn_log[vn_nlog].copy = (uint8_t *)malloc(rl); memcpy(vn_log[vn_nlog].copy, work[dir], rl); vn_nlog++; }
		vn_rec r = { dir, vn_recidx[dir]++, work[dir], rl, sizeof work[dir] }; int copies = vn_adv ? vn_adv(&r) : 1;
		if (copies == -1) { /* hold back: deliver after the next record of this direction */ free(vn_hold); vn_hold = (uint8_t *)malloc(r.len); memcpy(vn_hold, r.rec, r.len); vn_holdlen = r.len; vn_hold_dir = dir; continue; }
		for (int i = 0; i < copies; i++) vn_pipe_put(dir == 0 ? 0 : 1, r.rec, r.len);
		if (vn_hold_dir == dir && vn_hold) { vn_pipe_put(dir == 0 ? 0 : 1, vn_hold, vn_holdlen); free(vn_hold); vn_hold = NULL; vn_hold_dir = -1; }
		if (vn_adv_after) vn_adv_after(dir, r.idx);
	}
}

/* ---------- scheduler ---------- */
static sem_t vn_sem[2], vn_main_sem; static volatile int vn_done[2], vn_cur = -1, vn_abort, vn_steps, vn_horizon = 20000, vn_deadlock, vn_active;
static __thread int vn_me = -1;
static void vn_pass_to(int other) { vn_cur = other; sem_post(&vn_sem[other]); sem_wait(&vn_sem[vn_me]); vn_cur = vn_me; }
static void vn_yield(void) { int o = 1 - vn_me; if (vn_done[o]) return; if (++vn_steps > vn_horizon) { vn_abort = 1; return; } vn_pass_to(o); }
typedef struct { int who; int (*fn)(void *); void *arg; int ret; } vn_task;
static void *vn_thread(void *p) { vn_task *t = (vn_task *)p; vn_me = t->who; sem_wait(&vn_sem[vn_me]); vn_cur = vn_me; t->ret = t->fn(t->arg); vn_done[vn_me] = 1; int o = 1 - vn_me; if (!vn_done[o]) { vn_cur = o; sem_post(&vn_sem[o]); } else sem_post(&vn_main_sem); return NULL; }
/* run client (task 0... who=0 is the CLIENT, fd 1000) and server (who=1, fd 1001) to completion; returns bit0 deadlock, bit1 horizon */
static int vnet_run2(int (*client)(void *), void *carg, int (*server)(void *), void *sarg, int *cret, int *sret) {
	for (int i = 0; i < 2; i++) { if (!vn_to[i].buf) { vn_to[i].buf = (uint8_t *)malloc(VN_PIPE_CAP); vn_stage[i] = (uint8_t *)malloc(VN_PIPE_CAP); } vn_to[i].r = vn_to[i].w = 0; vn_stagelen[i] = 0; vn_recidx[i] = 0; vn_done[i] = vn_blocked[i] = 0; sem_init(&vn_sem[i], 0, 0); vn_bytes_sent[i] = vn_bytes_recv[i] = 0; vn_nrecv[i] = vn_nsend[i] = 0; }
	sem_init(&vn_main_sem, 0, 0); vn_abort = vn_steps = vn_deadlock = 0; vn_nlog = 0; vn_hold_dir = -1; vn_active = 1;
	vn_task t[2] = { { 0, client, carg, -99 }, { 1, server, sarg, -99 } }; pthread_t th[2]; pthread_attr_t at; pthread_attr_init(&at); pthread_attr_setstacksize(&at, 16 << 20);
	pthread_create(&th[0], &at, vn_thread, &t[0]); pthread_create(&th[1], &at, vn_thread, &t[1]);
	vn_cur = 1; sem_post(&vn_sem[1]);   /* the server starts (blocks in recv at once), as a listening server would */
	sem_wait(&vn_main_sem); pthread_join(th[0], NULL); pthread_join(th[1], NULL); vn_active = 0;
	*cret = t[0].ret; *sret = t[1].ret; return (vn_deadlock ? 1 : 0) | (vn_abort && !vn_deadlock ? 2 : 0);
}
/* ---------- interposed libc ---------- */
ssize_t send(int fd, const void *buf, size_t len, int flags) {
	(void)flags; if (fd != VN_CLIENT_FD && fd != VN_SERVER_FD) { errno = EBADF; return -1; } if (!vn_active || vn_me < 0) { errno = EPIPE; return -1; }
	if (vn_abort) { errno = ECONNRESET; return -1; }
	int dir = (fd == VN_CLIENT_FD) ? 1 : 0; size_t n = len; vn_nsend[vn_me]++;
	if (vx_explore_env && len > 1) { int c = vx_choose(3); if (c == 1) n = 1; else if (c == 2) n = (len + 1) / 2; }
	if (vn_stagelen[dir] + n > VN_PIPE_CAP) { errno = ENOBUFS; return -1; }
	memcpy(vn_stage[dir] + vn_stagelen[dir], buf, n); vn_stagelen[dir] += n; vn_bytes_sent[vn_me] += n; vn_deliver_records(dir);
	if (vx_explore_env && vx_choose(2) == 1) vn_yield();
	return (ssize_t)n;
}
ssize_t recv(int fd, void *buf, size_t len, int flags) {
	(void)flags; if (fd != VN_CLIENT_FD && fd != VN_SERVER_FD) { errno = EBADF; return -1; } if (!vn_active || vn_me < 0) { errno = EPIPE; return -1; }
	vn_pipe *q = &vn_to[fd == VN_CLIENT_FD ? 0 : 1]; int o = 1 - vn_me; vn_nrecv[vn_me]++;
	while (q->w == q->r) { if (vn_abort) { errno = ECONNRESET; return -1; } if (vn_done[o]) return 0; /* peer gone: EOF */
		vn_blocked[vn_me] = 1; if (vn_blocked[o]) { vn_deadlock = 1; vn_abort = 1; vn_blocked[vn_me] = 0; errno = ECONNRESET; return -1; }
		if (++vn_steps > vn_horizon) { vn_abort = 1; vn_blocked[vn_me] = 0; errno = ECONNRESET; return -1; }
		vn_pass_to(o); vn_blocked[vn_me] = 0; }
	size_t avail = q->w - q->r, n = len < avail ? len : avail;
	if (vx_explore_env && n > 1) { int c = vx_choose(3); if (c == 1) n = 1; else if (c == 2) n = (n + 1) / 2; }
	memcpy(buf, q->buf + q->r, n); q->r += n; if (q->r == q->w) q->r = q->w = 0; vn_bytes_recv[vn_me] += n;
	if (vx_explore_env && vx_choose(2) == 1) vn_yield();
	return (ssize_t)n;
}
int usleep(useconds_t us) { (void)us; if (vn_active && vn_me >= 0) vn_yield(); return 0; }
#endif
