/* C02 — SM2 encryption / ECDH correct, malformed ciphertexts rejected. */
#include <gmssl/sm2.h>
#include <gmssl/asn1.h>
#include "vh.h"
#include <openssl/err.h>
#include "venv.h"
#include "der.h"
#include "sm2_ref.h"
#include "smally.h"
#include "ossl_ref.h"

#define ND 5
static uint8_t DKEY[ND][32], PUB[ND][64], NB[32]; static SM2_KEY KEYS[ND], PUBKEYS[ND]; static const char *DNAME[ND] = { "d=1", "d=2", "d=n-2", "d=typical", "d=highlimb0" };
static uint8_t PT[3][256];
static void bn_to_be(uint8_t out[32], const BIGNUM *b) { sr_bn_to_bytes32(out, b); }
static void setup(void) {
	sr_init(); BIGNUM *t = BN_new(); bn_to_be(NB, sr_n());
	BN_one(t); bn_to_be(DKEY[0], t); BN_set_word(t, 2); bn_to_be(DKEY[1], t); BN_copy(t, sr_n()); BN_sub_word(t, 2); bn_to_be(DKEY[2], t);
	BN_hex2bn(&t, "3945208F7B2144B13F36E38AC6D39F95889393692860B51A42FB81EF4DF7C5B8"); BN_add_word(t, vh_seed); bn_to_be(DKEY[3], t); BN_hex2bn(&t, "00000000000000005F36E38AC6D39F95889393692860B51A42FB81EF4DF7C5B8"); bn_to_be(DKEY[4], t);
	for (int i = 0; i < ND; i++) { sm2_z256_t z; sm2_z256_from_bytes(z, DKEY[i]); if (sm2_key_set_private_key(&KEYS[i], z) != 1) vh_harness_error("key"); sr_pubkey(DKEY[i], PUB[i]); SM2_Z256_POINT P; if (sm2_z256_point_from_bytes(&P, PUB[i]) != 1) vh_harness_error("pub"); sm2_key_set_public_key(&PUBKEYS[i], &P); }
	memset(PT[0], 0, 256); memset(PT[1], 0xff, 256); for (int i = 0; i < 256; i++) PT[2][i] = (uint8_t)(i + 1); BN_free(t);
}
static uint8_t SCRIPT[32 * 12];
static void script_k(const uint8_t k[32], int copies) { for (int c = 0; c < copies; c++) for (int i = 0; i < 32; i++) SCRIPT[32 * c + i] = k[31 - i]; venv_reset(0xc02 + vh_seed); venv_script(SCRIPT, 32 * copies); }
static int last_nonce(uint8_t out[32]) { venv_stream *s = venv_cur(); for (int i = s->nlog - 1; i >= 0; i--) if (s->log[i].len == 32) { for (int j = 0; j < 32; j++) out[j] = s->logbuf[s->log[i].off + 31 - j]; static const uint8_t Z[32] = {0}; if (memcmp(out, NB, 32) < 0 && memcmp(out, Z, 32)) return 1; } return 0; }

/* strict SM2Cipher parser: SEQUENCE { INTEGER x, INTEGER y, OCTET STRING (32), OCTET STRING (0..255) } */
static int strict_ct(const uint8_t *in, size_t n, uint8_t c1[64], uint8_t c3[32], uint8_t *c2, size_t *c2len) {
	der_cur c = { in, n }; int tag; const uint8_t *v; size_t vl; if (!der_tlv(&c, &tag, &v, &vl, NULL) || tag != 0x30 || c.n) return 0; der_cur s = { v, vl };
	if (!der_tlv(&s, &tag, &v, &vl, NULL) || tag != 0x02 || !der_uint_to_fixed(v, vl, c1, 32)) return 0; if (!der_tlv(&s, &tag, &v, &vl, NULL) || tag != 0x02 || !der_uint_to_fixed(v, vl, c1 + 32, 32)) return 0;
	if (!der_tlv(&s, &tag, &v, &vl, NULL) || tag != 0x04 || vl != 32) return 0; memcpy(c3, v, 32); if (!der_tlv(&s, &tag, &v, &vl, NULL) || tag != 0x04 || vl > 255) return 0; memcpy(c2, v, vl); *c2len = vl; return s.n == 0;
}
static size_t enc_ct(uint8_t *o, const uint8_t c1[64], const uint8_t c3[32], const uint8_t *c2, size_t n) { uint8_t b[420]; size_t l = 0; l += der_put_uint(b + l, c1, 32); l += der_put_uint(b + l, c1 + 32, 32); l += der_put_tlv(b + l, 0x04, c3, 32); l += der_put_tlv(b + l, 0x04, c2, n); return der_put_tlv(o, 0x30, b, l); }
/* reference verdict for an offered byte string under key d: 1 and plaintext, or 0 */
static int ref_open(int d, const uint8_t *ct, size_t n, uint8_t *pt, size_t *pl) { uint8_t c1[64], c3[32], c2[256]; size_t cl; if (!strict_ct(ct, n, c1, c3, c2, &cl)) return 0; if (cl < 1) return 0; if (!sr_decrypt(DKEY[d], c1, c3, c2, cl, pt)) return 0; *pl = cl; return 1; }
/* decrypt through both library byte interfaces; bit0 = sm2_decrypt, bit1 = streaming */
static int lib_open(int d, const uint8_t *ct, size_t n, const uint8_t *want_pt, size_t want_len, int *ptbad) {
	int acc = 0; uint8_t out[300]; size_t ol = 0; *ptbad = 0; uint8_t *cb = (uint8_t *)malloc(n ? n : 1); memcpy(cb, ct, n);
	if (sm2_decrypt(&KEYS[d], cb, n, out, &ol) == 1) { acc |= 1; if (want_pt && (ol != want_len || memcmp(out, want_pt, ol))) *ptbad = 1; }
	SM2_DEC_CTX dc; if (sm2_decrypt_init(&dc) == 1 && sm2_decrypt_update(&dc, cb, n / 2) == 1 && sm2_decrypt_update(&dc, cb + n / 2, n - n / 2) == 1) { ol = 0; if (sm2_decrypt_finish(&dc, &KEYS[d], out, &ol) == 1) { acc |= 2; if (want_pt && (ol != want_len || memcmp(out, want_pt, ol))) *ptbad = 1; } }
	free(cb); return acc;
}
static void offer(const char *what, int d, const uint8_t *ct, size_t n) {
	uint8_t pt[256]; size_t pl = 0; int want = ref_open(d, ct, n, pt, &pl), bad; int acc = lib_open(d, ct, n, want ? pt : NULL, pl, &bad); vh_eval(vh_hash(ct, n, d + 3));
	if ((want && acc != 3) || (!want && acc != 0) || bad) { char key[160]; snprintf(key, sizeof key, "C02:%s:%s", what, bad ? "wrong-plaintext" : want ? "valid-rejected" : "invalid-accepted"); vh_viol(key, "\"key\":\"%s\",\"ct\":\"%s\",\"accepted_mask\":%d", DNAME[d], vh_hex(ct, n), acc); }
}

static void blk_roundtrip(void) {
	if (!vh_block_begin("roundtrip")) return;
	uint8_t KN[4][32]; BIGNUM *t = BN_new(); BN_one(t); bn_to_be(KN[0], t); BN_set_word(t, 2); bn_to_be(KN[1], t); BN_copy(t, sr_n()); BN_sub_word(t, 1); bn_to_be(KN[2], t); BN_hex2bn(&t, "59276E27D506861A16680F3AD9C02DCCEF3CC1FA3CDBE4CE6D54B80DEAC1BC21"); bn_to_be(KN[3], t); BN_free(t);
	for (int d = 0; d < ND; d++) for (size_t n = 0; n <= 256; n++) for (int ci = 0; ci < 3; ci++) {
		if (!vh_next()) continue; int ki = (int)((n + ci + d) % 4); const uint8_t *pt = PT[ci]; uint8_t ct[420], ect[420], c1[64], c3[32], c2[256], out[300]; size_t cl = 0, ol = 0; char key[160];
		size_t kk[3] = { (size_t)d, n, (size_t)ci };
		if (n == 0 || n == 256) { /* inadmissible lengths must be refused, without writing */
			script_k(KN[ki], 2); int r = sm2_encrypt(&PUBKEYS[d], pt, n, ct, &cl); vh_eval(vh_hash(kk, sizeof kk, 1)); if (r == 1) { snprintf(key, sizeof key, "C02:roundtrip:sm2_encrypt:accepts-len-%zu", n); vh_viol(key, "\"len\":%zu", n); } continue; }
		int rok = sr_encrypt(PUB[d], KN[ki], pt, n, c1, c3, c2); if (!rok) continue; size_t el = enc_ct(ect, c1, c3, c2, n);
		script_k(KN[ki], 2); int r = sm2_encrypt(&PUBKEYS[d], pt, n, ct, &cl); vh_eval(vh_hash(kk, sizeof kk, 2));
		if (r != 1 || cl != el || memcmp(ct, ect, cl)) { vh_viol("C02:roundtrip:sm2_encrypt:differs-from-equations", "\"key\":\"%s\",\"k\":\"%s\",\"len\":%zu,\"got\":\"%s\",\"exp\":\"%s\"", DNAME[d], vh_hex(KN[ki], 32), n, vh_hex(ct, cl), vh_hex(ect, el)); continue; }
		SM2_CIPHERTEXT C; script_k(KN[ki], 2); r = sm2_do_encrypt(&PUBKEYS[d], pt, n, &C); vh_eval(vh_hash(kk, sizeof kk, 3));
		if (r != 1 || memcmp(&C.point, c1, 64) || memcmp(C.hash, c3, 32) || C.ciphertext_size != n || memcmp(C.ciphertext, c2, n)) vh_viol("C02:roundtrip:sm2_do_encrypt:differs-from-equations", "\"key\":\"%s\",\"len\":%zu", DNAME[d], n);
		r = sm2_do_decrypt(&KEYS[d], &C, out, &ol); vh_eval(vh_hash(kk, sizeof kk, 4)); if (r != 1 || ol != n || memcmp(out, pt, n)) vh_viol("C02:roundtrip:sm2_do_decrypt", "\"key\":\"%s\",\"len\":%zu,\"ret\":%d", DNAME[d], n, r);
		int bad, acc = lib_open(d, ct, cl, pt, n, &bad); vh_eval(vh_hash(kk, sizeof kk, 5)); if (acc != 3 || bad) vh_viol("C02:roundtrip:decrypt", "\"key\":\"%s\",\"len\":%zu,\"mask\":%d", DNAME[d], n, acc);
		/* streaming encryptor, every 2-cut for short messages */
		for (size_t c = 0; c <= (n <= 40 ? n : 0); c++) { SM2_ENC_CTX ec; script_k(KN[ki], 10); if (sm2_encrypt_init(&ec) != 1) { vh_viol("C02:roundtrip:sm2_encrypt_init", "\"len\":%zu", n); break; }
			size_t q = 0; uint8_t sc[420]; size_t sl = 0; r = (sm2_encrypt_update(&ec, pt, c) == 1 && sm2_encrypt_update(&ec, pt + c, n - c) == 1 && sm2_encrypt_finish(&ec, &PUBKEYS[d], NULL, &q) == 1) ? sm2_encrypt_finish(&ec, &PUBKEYS[d], sc, &sl) : -9; vh_eval(vh_hash(kk, sizeof kk, 100 + c));
			uint8_t kk2[32]; if (r != 1 || sl > q || !last_nonce(kk2)) { vh_viol("C02:roundtrip:sm2_encrypt_finish", "\"len\":%zu,\"cut\":%zu,\"ret\":%d,\"outlen\":%zu,\"reported\":%zu", n, c, r, sl, q); continue; }
			uint8_t p2[256]; size_t p2l; if (!ref_open(d, sc, sl, p2, &p2l) || p2l != n || memcmp(p2, pt, n)) vh_viol("C02:roundtrip:stream-ciphertext-invalid", "\"len\":%zu,\"cut\":%zu", n, c); }
		/* OpenSSL decrypts what the library made, the library decrypts what OpenSSL made */
		if ((n % 5) == 0 || n < 20 || n > 250) { uint8_t o2[300]; size_t o2l = sizeof o2; int er = sr_evp_decrypt(DKEY[d], PUB[d], ct, cl, o2, &o2l); vh_eval(vh_hash(kk, sizeof kk, 6));
			if (er != 1 || o2l != n || memcmp(o2, pt, n)) vh_viol("C02:roundtrip:openssl-cannot-open-library-ciphertext", "\"key\":\"%s\",\"len\":%zu,\"er\":%d", DNAME[d], n, er);
			uint8_t oc[420]; size_t ocl = sizeof oc; if (sr_evp_encrypt(PUB[d], pt, n, oc, &ocl) == 1) { acc = lib_open(d, oc, ocl, pt, n, &bad); vh_eval(vh_hash(kk, sizeof kk, 7)); if (acc != 3 || bad) vh_viol("C02:roundtrip:library-cannot-open-openssl-ciphertext", "\"key\":\"%s\",\"len\":%zu,\"mask\":%d,\"ct\":\"%s\"", DNAME[d], n, acc, vh_hex(oc, ocl)); } }
		/* fixed point-size variants (generator entropy; ciphertext validated by the reference) */
		if (n == 1 || n == 100 || n == 255) { static const int PS[] = { SM2_ciphertext_compact_point_size, SM2_ciphertext_typical_point_size, SM2_ciphertext_max_point_size }; for (int f = 0; f < 3; f++) { uint8_t fc[420]; size_t fl = 0; venv_reset(31 * d + f + n); r = sm2_encrypt_fixlen(&PUBKEYS[d], pt, n, PS[f], fc, &fl); vh_eval(vh_hash(kk, sizeof kk, 200 + f));
			uint8_t p2[256]; size_t p2l; if (r != 1) { vh_viol("C02:roundtrip:sm2_encrypt_fixlen:failed", "\"len\":%zu,\"point_size\":%d", n, PS[f]); continue; }
			if (!ref_open(d, fc, fl, p2, &p2l) || p2l != n || memcmp(p2, pt, n)) vh_viol("C02:roundtrip:sm2_encrypt_fixlen:invalid", "\"len\":%zu,\"point_size\":%d", n, PS[f]);
			uint8_t x1[64], h[32], cc[256]; size_t ccl; strict_ct(fc, fl, x1, h, cc, &ccl); uint8_t tb[80]; size_t xl = der_put_uint(tb, x1, 32) + der_put_uint(tb, x1 + 32, 32); if ((int)xl != PS[f]) vh_viol("C02:roundtrip:sm2_encrypt_fixlen:wrong-point-size", "\"want\":%d,\"got\":%zu", PS[f], xl); } }
		vh_sample("{\"block\":\"roundtrip\",\"key\":\"%s\",\"len\":%zu,\"content\":%d,\"ct\":\"%s\"}", DNAME[d], n, ci, vh_hex(ct, cl > 120 ? 120 : cl));
	}
}
static void blk_malformed(void) {
	if (!vh_block_begin("malformed")) return;
	static const size_t LENS[] = { 1, 16, 255 }; BIGNUM *t = BN_new(); uint8_t kb[32];
	for (int d = 0; d < ND; d++) for (int li = 0; li < 3; li++) {
		if (!vh_thorough && !((d == 3) || (d == 0 && li == 0))) continue;
		size_t n = LENS[li]; uint8_t c1[64], c3[32], c2[256], ct[420], m[440]; size_t cl = 0;
		for (unsigned kv = 1; kv < 50; kv++) { BN_set_word(t, 0x9e3779b1u * kv + d); bn_to_be(kb, t); if (sr_encrypt(PUB[d], kb, PT[2], n, c1, c3, c2)) { cl = enc_ct(ct, c1, c3, c2, n); break; } }
		if (vh_next()) offer("malformed:untouched", d, ct, cl);
		for (size_t bit = 0; bit < cl * 8; bit++) { if (!vh_next()) continue; memcpy(m, ct, cl); m[bit / 8] ^= (uint8_t)(1 << (bit % 8)); offer("malformed:bitflip", d, m, cl); }
		for (size_t k = 0; k < cl; k++) { if (!vh_next()) continue; offer("malformed:truncation", d, ct, k); }
		for (int v = 0; v < 256; v += (n == 255 ? 17 : 1)) { if (!vh_next()) continue; memcpy(m, ct, cl); m[cl] = (uint8_t)v; offer("malformed:extension-outside", d, m, cl + 1); }
		/* zero-trimmed / zero-extended fixed-size fields: a decoder that pads a short C3 with zeros would accept a byte string that is not a
		   ciphertext; needs a ciphertext whose C3 ends (resp. starts) with a zero octet: search the nonce */
		if (vh_next()) for (int end = 0; end < 2; end++) { uint8_t e1[64], e3[32], e2[256]; int got = 0; for (unsigned kv = 100; kv < 6000 && !got; kv++) { BN_set_word(t, 0x85ebca6bu * kv + d); bn_to_be(kb, t); if (sr_encrypt(PUB[d], kb, PT[2], n, e1, e3, e2) && e3[end ? 31 : 0] == 0) got = 1; }
			if (!got) { vh_obs("no nonce with a zero %s octet of C3 found", end ? "last" : "first"); continue; }
			uint8_t b[440]; size_t l = 0; l += der_put_uint(b + l, e1, 32); l += der_put_uint(b + l, e1 + 32, 32); l += der_put_tlv(b + l, 0x04, end ? e3 : e3 + 1, 31); l += der_put_tlv(b + l, 0x04, e2, n); size_t ml = der_put_tlv(m, 0x30, b, l); offer(end ? "malformed:c3-trailing-zero-cut" : "malformed:c3-leading-zero-cut", d, m, ml);
			uint8_t e33[33]; memset(e33, 0, 33); memcpy(e33 + (end ? 0 : 1), e3, 32); l = 0; l += der_put_uint(b + l, e1, 32); l += der_put_uint(b + l, e1 + 32, 32); l += der_put_tlv(b + l, 0x04, e33, 33); l += der_put_tlv(b + l, 0x04, e2, n); ml = der_put_tlv(m, 0x30, b, l); offer(end ? "malformed:c3-zero-appended" : "malformed:c3-zero-prepended", d, m, ml);
			ml = enc_ct(m, e1, e3, e2, n); offer("malformed:c3-with-zero-octet-untouched", d, m, ml); }
		/* a key stream whose LAST (partial) 32-byte block is all zero while the stream as a whole is not: plaintext lengths 32j+1 with a zero
		   last key-stream octet (nonce search). Such a ciphertext is perfectly valid (only an ALL-zero stream is refused by the standard). */
		if (li == 0 && vh_next()) { static const size_t KL[] = { 33, 65, 225 }; for (int q = 0; q < 3; q++) { uint8_t e1[64], e3[32], e2[256]; size_t ln = KL[q]; int got = 0; uint8_t kk2[32]; for (unsigned kv = 9000; kv < 13000 && !got; kv++) { BN_set_word(t, 0x27d4eb2fu * kv + d); bn_to_be(kb, t); if (sr_encrypt(PUB[d], kb, PT[1], ln, e1, e3, e2) && (e2[ln - 1] ^ PT[1][ln - 1]) == 0) { got = 1; memcpy(kk2, kb, 32); } }
			if (!got) { vh_obs("no nonce with a zero last key-stream octet found for length %zu", ln); continue; } size_t ml = enc_ct(m, e1, e3, e2, ln); offer("malformed:valid-with-zero-last-keystream-block", d, m, ml);
			uint8_t lc[420]; size_t lcl = 0; script_k(kk2, 2); int r = sm2_encrypt(&PUBKEYS[d], PT[1], ln, lc, &lcl); vh_eval(vh_hash(kk2, 32, 77 + q)); if (r != 1 || lcl != ml || memcmp(lc, m, ml)) { vh_viol("C02:encrypt:nonce-with-zero-last-keystream-block-not-used-as-drawn", "\"len\":%zu,\"ret\":%d", ln, r); } } }
		/* the LARGEST ciphertext the interfaces admit (255-byte plaintext, both C1 coordinates with a sign octet = SM2_MAX_CIPHERTEXT_SIZE) followed by
		   extra bytes: the streaming decryptor's buffer is exactly that large, so this is where "input too long" and "trailing bytes" meet */
		if (li == 2 && vh_next()) { uint8_t e1[64], e3[32], e2[256]; int got = 0; for (unsigned kv = 7000; kv < 7400 && !got; kv++) { BN_set_word(t, 0xc2b2ae35u * kv + d); bn_to_be(kb, t); if (sr_encrypt(PUB[d], kb, PT[2], 255, e1, e3, e2) && (e1[0] & 0x80) && (e1[32] & 0x80)) got = 1; }
			if (!got) vh_obs("no nonce giving a maximum-size ciphertext found"); else { size_t ml = enc_ct(m, e1, e3, e2, 255); if (ml != SM2_MAX_CIPHERTEXT_SIZE) vh_harness_error("expected a %d-byte ciphertext, got %zu", SM2_MAX_CIPHERTEXT_SIZE, ml); offer("malformed:max-size-untouched", d, m, ml);
				static const size_t EX[] = { 1, 2, 16, 100 }; for (int x = 0; x < 4; x++) { uint8_t big[600]; memcpy(big, m, ml); memset(big + ml, x ? 0x30 : 0x00, EX[x]); offer("malformed:max-size-with-trailing-bytes", d, big, ml + EX[x]); } } }
		if (!vh_next()) continue;
		/* C1 substitutions */
		{ uint8_t v1[64]; const BIGNUM *p = sr_p(); BIGNUM *y = BN_new();
			memcpy(v1, c1, 64); BN_bin2bn(c1 + 32, 32, y); BN_add_word(y, 1); bn_to_be(v1 + 32, y); cl = enc_ct(m, v1, c3, c2, n); offer("malformed:c1-y+1", d, m, cl);
			memset(v1, 0, 64); cl = enc_ct(m, v1, c3, c2, n); offer("malformed:c1-zero", d, m, cl);
			memcpy(v1, c1, 64); bn_to_be(v1, p); cl = enc_ct(m, v1, c3, c2, n); offer("malformed:c1-x=p", d, m, cl);
			memcpy(v1, c1, 64); bn_to_be(v1 + 32, p); cl = enc_ct(m, v1, c3, c2, n); offer("malformed:c1-y=p", d, m, cl);
			memcpy(v1, c1, 64); memset(v1, 0xff, 32); cl = enc_ct(m, v1, c3, c2, n); offer("malformed:c1-x=2^256-1", d, m, cl);
			memcpy(v1, c1, 64); BN_bin2bn(c1 + 32, 32, y); BN_sub(y, p, y); bn_to_be(v1 + 32, y); cl = enc_ct(m, v1, c3, c2, n); offer("malformed:c1-negated-y", d, m, cl);
			memcpy(v1, c1, 64); BN_bin2bn(c1, 32, y); BN_add(y, y, p); if (BN_num_bits(y) <= 256) { bn_to_be(v1, y); cl = enc_ct(m, v1, c3, c2, n); offer("malformed:c1-x+p", d, m, cl); }
			/* special abscissae: C1 = (x0, y0) with x0 in {0, smallest valid x > 0} is a legitimate point; the same ciphertext with x0+p (and y0+p when it fits) names no point */
			for (unsigned xs = 0, found = 0; xs < 300 && found < 2; xs++) { EC_POINT *P0 = EC_POINT_new(sr_group()); BIGNUM *xb = BN_new(); BN_set_word(xb, xs);
				if (EC_POINT_set_compressed_coordinates(sr_group(), P0, xb, 0, sr_ctx()) == 1) { found++; uint8_t s1[64], s3[32], s2[256]; sr_point_to_xy(P0, s1);
					if (sr_seal_with_c1(DKEY[d], s1, PT[2], n, s3, s2)) { cl = enc_ct(m, s1, s3, s2, n); offer(xs ? "malformed:c1-small-x(valid)" : "malformed:c1-x=0(valid)", d, m, cl);
						uint8_t w[64]; memcpy(w, s1, 64); BN_add(xb, xb, p); bn_to_be(w, xb); cl = enc_ct(m, w, s3, s2, n); offer(xs ? "malformed:c1-small-x+p" : "malformed:c1-x=p-with-y-of-x=0", d, m, cl);
						memcpy(w, s1, 64); BN_bin2bn(s1 + 32, 32, y); BN_add(y, y, p); if (BN_num_bits(y) <= 256) { bn_to_be(w + 32, y); cl = enc_ct(m, w, s3, s2, n); offer("malformed:c1-small-x,y+p", d, m, cl); } } }
				EC_POINT_free(P0); BN_free(xb); ERR_clear_error(); }
			/* special ordinates: C1 = (x0, ys) with a SMALL ys (the cubic in x solved for it) is a legitimate point; the same ciphertext with ys + p (which fits in 256 bits only for such points) names none */
			for (unsigned ys = 1, found = 0; ys < 40 && !found; ys++) { uint8_t s1[64], s3[32], s2[256]; if (!small_y_point(ys, s1)) continue; found = 1; if (!sr_xy_on_curve(s1)) vh_harness_error("small-y point off curve");
				if (sr_seal_with_c1(DKEY[d], s1, PT[2], n, s3, s2)) { cl = enc_ct(m, s1, s3, s2, n); offer("malformed:c1-small-y(valid)", d, m, cl); uint8_t w[64]; memcpy(w, s1, 64); BN_set_word(y, ys); BN_add(y, y, p); bn_to_be(w + 32, y); cl = enc_ct(m, w, s3, s2, n); offer("malformed:c1-small-y+p", d, m, cl); } }
			BN_free(y); }
		/* non-canonical forms of the valid ciphertext */
		cl = enc_ct(ct, c1, c3, c2, n);
		{ der_cur c = { ct, cl }; int tag; const uint8_t *v; size_t vl, h; der_tlv(&c, &tag, &v, &vl, &h); size_t k = 0;
			/* outer length one byte longer than minimal */
			m[k++] = 0x30; if (h == 2) { m[k++] = 0x81; m[k++] = (uint8_t)vl; } else if (h == 3) { m[k++] = 0x82; m[k++] = 0; m[k++] = (uint8_t)vl; } else { m[k++] = 0x83; m[k++] = 0; m[k++] = (uint8_t)(vl >> 8); m[k++] = (uint8_t)vl; } memcpy(m + k, v, vl); offer("malformed:long-form-seq-length", d, m, k + vl);
			/* x padded with a redundant zero */
			der_cur s = { v, vl }; const uint8_t *xv; size_t xl, xh; der_tlv(&s, &tag, &xv, &xl, &xh); uint8_t body[440]; size_t b = 0; body[b++] = 0x02; body[b++] = (uint8_t)(xl + 1); body[b++] = 0; memcpy(body + b, xv, xl); b += xl; memcpy(body + b, s.p, s.n); b += s.n; k = der_put_tlv(m, 0x30, body, b); offer("malformed:padded-x", d, m, k);
			b = 0; body[b++] = 0x02; body[b++] = 0x81; body[b++] = (uint8_t)xl; memcpy(body + b, xv, xl); b += xl; memcpy(body + b, s.p, s.n); b += s.n; k = der_put_tlv(m, 0x30, body, b); offer("malformed:long-form-x-length", d, m, k);
			/* trailing bytes inside the sequence */
			memcpy(body, v, vl); body[vl] = 0x05; body[vl + 1] = 0; k = der_put_tlv(m, 0x30, body, vl + 2); offer("malformed:trailing-null-inside", d, m, k);
			/* indefinite length */
			k = 0; m[k++] = 0x30; m[k++] = 0x80; memcpy(m + k, v, vl); k += vl; m[k++] = 0; m[k++] = 0; offer("malformed:indefinite-length", d, m, k);
			/* hash of 31 / 33 bytes */
			uint8_t h33[33] = {0}; memcpy(h33, c3, 32); b = 0; b += der_put_uint(body + b, c1, 32); b += der_put_uint(body + b, c1 + 32, 32); b += der_put_tlv(body + b, 0x04, h33, 33); b += der_put_tlv(body + b, 0x04, c2, n); k = der_put_tlv(m, 0x30, body, b); offer("malformed:hash-33", d, m, k);
			b = 0; b += der_put_uint(body + b, c1, 32); b += der_put_uint(body + b, c1 + 32, 32); b += der_put_tlv(body + b, 0x04, c3, 31); b += der_put_tlv(body + b, 0x04, c2, n); k = der_put_tlv(m, 0x30, body, b); offer("malformed:hash-31", d, m, k);
			/* empty ciphertext / 256-byte ciphertext */
			b = 0; b += der_put_uint(body + b, c1, 32); b += der_put_uint(body + b, c1 + 32, 32); b += der_put_tlv(body + b, 0x04, c3, 32); b += der_put_tlv(body + b, 0x04, c2, 0); k = der_put_tlv(m, 0x30, body, b); offer("malformed:c2-empty", d, m, k);
			uint8_t big[256]; memset(big, 0x5a, 256); b = 0; b += der_put_uint(body + b, c1, 32); b += der_put_uint(body + b, c1 + 32, 32); b += der_put_tlv(body + b, 0x04, c3, 32); b += der_put_tlv(body + b, 0x04, big, 256); k = der_put_tlv(m, 0x30, body, b); offer("malformed:c2-256", d, m, k);
		}
		/* other keys must not open it */
		for (int o = 0; o < ND; o++) if (o != d) { uint8_t out[300]; size_t ol; cl = enc_ct(ct, c1, c3, c2, n); int r = sm2_decrypt(&KEYS[o], ct, cl, out, &ol); vh_eval(vh_mix(d * 10 + o + 999)); if (r == 1) vh_viol("C02:malformed:wrong-key-accepted", "\"enc_key\":\"%s\",\"dec_key\":\"%s\"", DNAME[d], DNAME[o]); }
		vh_sample("{\"block\":\"malformed\",\"key\":\"%s\",\"len\":%zu,\"valid_ct\":\"%s\"}", DNAME[d], n, vh_hex(ct, cl > 150 ? 150 : cl));
	}
	BN_free(t);
}
static void blk_ecdh(void) {
	if (!vh_block_begin("ecdh")) return;
	for (int a = 0; a < ND; a++) for (int b = 0; b < ND; b++) { if (!vh_next()) continue;
		uint8_t exp[64], o1[64], o2[64], oct[65]; sr_ecdh(DKEY[a], PUB[b], exp); SM2_Z256_POINT R; vh_eval(vh_mix(a * 10 + b + 1));
		int r = sm2_do_ecdh(&KEYS[a], &PUBKEYS[b].public_key, &R); if (r != 1 || sm2_z256_point_to_bytes(&R, o1) != 1 || memcmp(o1, exp, 64)) vh_viol("C02:ecdh:sm2_do_ecdh", "\"a\":\"%s\",\"b\":\"%s\",\"ret\":%d", DNAME[a], DNAME[b], r);
		oct[0] = 4; memcpy(oct + 1, PUB[b], 64); r = sm2_ecdh(&KEYS[a], oct, 65, o1); vh_eval(vh_mix(a * 10 + b + 101)); if (r != 1 || memcmp(o1, exp, 64)) vh_viol("C02:ecdh:sm2_ecdh", "\"a\":\"%s\",\"b\":\"%s\",\"ret\":%d", DNAME[a], DNAME[b], r);
		oct[0] = 4; memcpy(oct + 1, PUB[a], 64); r = sm2_ecdh(&KEYS[b], oct, 65, o2); vh_eval(vh_mix(a * 10 + b + 201)); if (r != 1 || memcmp(o1, o2, 64)) vh_viol("C02:ecdh:not-symmetric", "\"a\":\"%s\",\"b\":\"%s\"", DNAME[a], DNAME[b]);
		/* compressed peer share */
		oct[0] = (uint8_t)(2 + (PUB[b][63] & 1)); memcpy(oct + 1, PUB[b], 32); r = sm2_ecdh(&KEYS[a], oct, 33, o1); vh_eval(vh_mix(a * 10 + b + 301)); if (r != 1 || memcmp(o1, exp, 64)) vh_viol("C02:ecdh:sm2_ecdh:compressed-peer", "\"a\":\"%s\",\"b\":\"%s\",\"ret\":%d", DNAME[a], DNAME[b], r);
		vh_sample("{\"block\":\"ecdh\",\"a\":\"%s\",\"b\":\"%s\",\"shared\":\"%s\"}", DNAME[a], DNAME[b], vh_hex(exp, 64));
	}
	/* invalid peer shares must be refused (never yield a key) */
	for (int v = 0; v < 8; v++) { if (!vh_next()) continue; uint8_t oct[66] = {0}, out[64]; size_t ol = 65; oct[0] = 4; memcpy(oct + 1, PUB[3], 64); const char *nm = "";
		switch (v) { case 0: memset(oct + 1, 0, 64); nm = "zero"; break; case 1: oct[64] ^= 1; nm = "y^1"; break; case 2: sr_bn_to_bytes32(oct + 1, sr_p()); nm = "x=p"; break; case 3: memset(oct + 1, 0xff, 32); nm = "x=ff"; break; case 4: oct[0] = 5; nm = "prefix5"; break; case 5: ol = 64; nm = "len64"; break; case 6: ol = 66; nm = "len66"; break; case 7: oct[0] = 0; ol = 1; nm = "infinity-octet"; break; }
		int r = sm2_ecdh(&KEYS[3], oct, ol, out); vh_eval(vh_mix(v + 5000)); if (r == 1) { char key[96]; snprintf(key, sizeof key, "C02:ecdh:invalid-peer-accepted:%s", nm); vh_viol(key, "\"peer\":\"%s\",\"out\":\"%s\"", vh_hex(oct, ol), vh_hex(out, 64)); } }
}
/* the pre-computation interface: sm2_encrypt_pre_compute draws eight (k, [k]G) pairs; sm2_do_encrypt_ex with pair i must give exactly the
   GB/T ciphertext for that k (0 = this nonce is unusable, try another) and it must open */
static void blk_precomp(void) {
	if (!vh_block_begin("pre-computed-nonces")) return;
	for (int d = 0; d < ND; d++) for (int rep = 0; rep < 4; rep++) { if (!vh_next()) continue; venv_reset(7700 + d * 10 + rep); SM2_ENC_PRE_COMP pc[SM2_ENC_PRE_COMP_NUM]; int r = sm2_encrypt_pre_compute(pc); if (r != 1) { vh_viol("C02:precomp:pre_compute-refused", "\"ret\":%d", r); continue; }
		for (int i = 0; i < SM2_ENC_PRE_COMP_NUM; i++) for (int li = 0; li < 4; li++) { static const size_t LL[] = { 1, 2, 32, 255 }; size_t n = LL[li]; uint8_t kb[32], c1[64], c3[32], c2[256], out[300]; size_t ol = 0; sm2_z256_to_bytes(pc[i].k, kb); SM2_CIPHERTEXT C; memset(&C, 0xEE, sizeof C);
			int rok = sr_encrypt(PUB[d], kb, PT[li % 3], n, c1, c3, c2); r = sm2_do_encrypt_ex(&PUBKEYS[d], &pc[i], PT[li % 3], n, &C); size_t kk[4] = { (size_t)d, (size_t)rep, (size_t)i, n }; vh_eval(vh_hash(kk, sizeof kk, 55));
			if (!rok) { if (r == 1) vh_viol("C02:precomp:unusable-nonce-accepted", "\"k\":\"%s\",\"len\":%zu", vh_hex(kb, 32), n); continue; }
			if (r != 1 || memcmp(&C.point, c1, 64) || memcmp(C.hash, c3, 32) || C.ciphertext_size != n || memcmp(C.ciphertext, c2, n)) { vh_viol("C02:precomp:sm2_do_encrypt_ex:differs-from-equations", "\"key\":\"%s\",\"k\":\"%s\",\"len\":%zu,\"ret\":%d", DNAME[d], vh_hex(kb, 32), n, r); continue; }
			r = sm2_do_decrypt(&KEYS[d], &C, out, &ol); if (r != 1 || ol != n || memcmp(out, PT[li % 3], n)) vh_viol("C02:precomp:does-not-open", "\"key\":\"%s\",\"len\":%zu", DNAME[d], n); }
		/* the eight nonces of one pre-computation are distinct */ for (int i = 0; i < SM2_ENC_PRE_COMP_NUM; i++) for (int j = i + 1; j < SM2_ENC_PRE_COMP_NUM; j++) if (!memcmp(pc[i].k, pc[j].k, 32)) vh_viol("C02:precomp:nonce-repeated", "\"i\":%d,\"j\":%d", i, j);
		vh_sample("{\"block\":\"pre-computed-nonces\",\"key\":\"%s\",\"pairs\":8}", DNAME[d]); }
}
static void body(void) { blk_roundtrip(); blk_malformed(); blk_ecdh(); blk_precomp(); }
int main(int argc, char **argv) { vh_init(argc, argv); setup(); vh_guarded("C02", body, 60); return vh_finish(); }
