/* C14 — encodings round-trip, are canonical, and respect buffer capacities.
 * Value enumerations per ASN.1 type (encode -> dry-run length == bytes written -> decode == value, consumes exactly),
 * small-scope exhaustive decoder inputs (accepted => re-encodes byte-identically and is strict DER), composite objects,
 * base64 / hex / PEM automata with every chunking and capacity edge, wrong passwords. */
#define _GNU_SOURCE
#include <stdio.h>
#include <gmssl/asn1.h>
#include <gmssl/base64.h>
#include <gmssl/hex.h>
#include <gmssl/pem.h>
#include <gmssl/pkcs8.h>
#include <gmssl/sm2.h>
#include <gmssl/sm9.h>
#include <gmssl/sm9_z256.h>
#include <gmssl/x509_alg.h>
#include <gmssl/x509.h>
#include <gmssl/oid.h>
#include "vh.h"
#include "venv.h"
#include "der.h"

#define CAN 0xC3
static uint8_t ARENA[300000];
static uint8_t *cap_buf(size_t cap) { if (cap + 64 > sizeof ARENA) vh_harness_error("arena"); memset(ARENA + cap, CAN, 64); return ARENA; }
static int cap_ok(size_t cap) { for (int i = 0; i < 64; i++) if (ARENA[cap + i] != CAN) return 0; return 1; }

/* ENC(expr-with-out,len): dry run into `dl`, then real run into a canary buffer of exactly dl bytes */
#define ENC2(name, CALLDRY, CALLREAL, buf, blen) do { size_t dl_ = 0; int r0_ = (CALLDRY); uint8_t *ob_ = cap_buf(dl_); uint8_t *p_ = ob_; size_t wl_ = 0; int r1_ = (CALLREAL); \
	if (r0_ != 1 || r1_ != 1 || wl_ != dl_ || (size_t)(p_ - ob_) != dl_ || !cap_ok(dl_)) { char k_[128]; snprintf(k_, sizeof k_, "C14:%s:dry-run-length-vs-written", name); vh_viol(k_, "\"dry\":%zu,\"written\":%zu,\"ptr_adv\":%zu,\"ret_dry\":%d,\"ret\":%d", dl_, wl_, (size_t)(p_ - ob_), r0_, r1_); } \
	memcpy(buf, ob_, dl_ < sizeof(buf) ? dl_ : sizeof(buf)); blen = dl_; } while (0)

static void viol_rt(const char *type, const char *what, const char *fmt, ...) { char key[128], d[600]; snprintf(key, sizeof key, "C14:%s:%s", type, what); va_list ap; va_start(ap, fmt); vsnprintf(d, sizeof d, fmt, ap); va_end(ap); vh_viol(key, "%s", d); }

/* ---------- value round trips ---------- */
static void blk_values(void) {
	uint8_t b[70100]; size_t bl;
	if (vh_block_begin("val-length")) { for (uint64_t v = 0; v <= 70000 + 64; v++) { if (!vh_next()) continue; size_t len = v <= 70000 ? (size_t)v : (v - 70000 < 32 ? ((size_t)1 << (v - 70000)) : ((size_t)1 << (v - 70000 - 32 + 1)) - 1); if (len > 0x7fffffff) len = 0x7fffffff;
		ENC2("length", asn1_length_to_der(len, NULL, &dl_), asn1_length_to_der(len, &p_, &wl_), b, bl); vh_eval(vh_mix(len + 1));
		/* decode needs len bytes of content behind it: give a window claiming them only when small */
		if (len <= 60000) { static uint8_t in[70100]; memcpy(in, b, bl); const uint8_t *cp = in; size_t il = bl + len, g = 0; int r = asn1_length_from_der(&g, &cp, &il); if (r != 1 || g != len || (size_t)(cp - in) != bl) viol_rt("length", "roundtrip", "\"len\":%zu,\"ret\":%d,\"got\":%zu", len, r, g); }
		/* minimal form per X.690 */
		uint8_t e[8]; size_t el = der_put_len(e, len); if (len >= (1u << 24)) { e[0] = 0x84; e[1] = (uint8_t)(len >> 24); e[2] = (uint8_t)(len >> 16); e[3] = (uint8_t)(len >> 8); e[4] = (uint8_t)len; el = 5; } if (el != bl || memcmp(e, b, bl)) viol_rt("length", "not-minimal", "\"len\":%zu,\"enc\":\"%s\"", len, vh_hex(b, bl)); } }
	if (vh_block_begin("val-int")) { for (uint64_t v = 0; v <= 70000 + 96; v++) { if (!vh_next()) continue; int x = (int)v; if (v > 70000) { uint64_t k = v - 70000; int sh = (int)(k / 3) % 31; x = (int)(((int64_t)1 << sh) + (int)(k % 3) - 1); if (x < 0) x = 0x7fffffff; }
		ENC2("int", asn1_int_to_der(x, NULL, &dl_), asn1_int_to_der(x, &p_, &wl_), b, bl); const uint8_t *cp = b; size_t il = bl; int g = -5; int r = asn1_int_from_der(&g, &cp, &il); vh_eval(vh_mix((uint64_t)x + 77));
		if (r != 1 || g != x || il != 0) viol_rt("int", "roundtrip", "\"v\":%d,\"ret\":%d,\"got\":%d,\"left\":%zu,\"enc\":\"%s\"", x, r, g, il, vh_hex(b, bl));
		uint8_t be[4] = { (uint8_t)(x >> 24), (uint8_t)(x >> 16), (uint8_t)(x >> 8), (uint8_t)x }, e[8]; size_t el = der_put_uint(e, be, 4); if (el != bl || memcmp(e, b, bl)) viol_rt("int", "not-canonical", "\"v\":%d,\"enc\":\"%s\"", x, vh_hex(b, bl)); } }
	if (vh_block_begin("val-integer")) { static const uint8_t LEAD[] = { 0x00, 0x01, 0x7f, 0x80, 0xff }; for (size_t n = 1; n <= 33; n++) for (int l = 0; l < 5; l++) for (int sec = 0; sec < 3; sec++) { if (!vh_next()) continue;
		uint8_t v[40]; for (size_t i = 0; i < n; i++) v[i] = (uint8_t)(0x11 * (i + 1)); v[0] = LEAD[l]; if (n > 1) v[1] = sec == 0 ? 0x00 : sec == 1 ? 0x7f : 0x80;
		ENC2("integer", asn1_integer_to_der(v, n, NULL, &dl_), asn1_integer_to_der(v, n, &p_, &wl_), b, bl); const uint8_t *cp = b, *g; size_t il = bl, gl; int r = asn1_integer_from_der(&g, &gl, &cp, &il); size_t kk[3] = { n, (size_t)l, (size_t)sec }; vh_eval(vh_hash(kk, sizeof kk, 3));
		const uint8_t *sv = v; size_t sn = n; while (sn > 1 && sv[0] == 0) { sv++; sn--; } /* value without leading zeros */
		if (r != 1 || il != 0 || gl != sn || memcmp(g, sv, sn)) viol_rt("integer", "roundtrip", "\"in\":\"%s\",\"enc\":\"%s\",\"ret\":%d", vh_hex(v, n), vh_hex(b, bl), r);
		uint8_t e[80]; size_t el = der_put_uint(e, v, n); if (el != bl || memcmp(e, b, bl)) viol_rt("integer", "not-canonical", "\"in\":\"%s\",\"enc\":\"%s\",\"exp\":\"%s\"", vh_hex(v, n), vh_hex(b, bl), vh_hex(e, el)); } }
	if (vh_block_begin("val-boolean")) { for (int v = 0; v < 2; v++) { if (!vh_next()) continue; ENC2("boolean", asn1_boolean_to_der(v, NULL, &dl_), asn1_boolean_to_der(v, &p_, &wl_), b, bl); const uint8_t *cp = b; size_t il = bl; int g = -3; int r = asn1_boolean_from_der(&g, &cp, &il); vh_eval(v + 1);
		if (r != 1 || g != v || il || bl != 3 || b[0] != 1 || b[1] != 1 || b[2] != (v ? 0xff : 0)) viol_rt("boolean", "roundtrip", "\"v\":%d,\"enc\":\"%s\"", v, vh_hex(b, bl)); } }
	if (vh_block_begin("val-bitstring")) { for (size_t nbits = 0; nbits <= 40; nbits++) for (int pat = 0; pat < 2; pat++) { if (!vh_next()) continue; uint8_t v[8]; memset(v, pat ? 0xff : 0xa5, 8); size_t nby = (nbits + 7) / 8; if (nbits % 8) v[nby - 1] &= (uint8_t)(0xff << (8 - nbits % 8));
		ENC2("bit_string", asn1_bit_string_to_der(v, nbits, NULL, &dl_), asn1_bit_string_to_der(v, nbits, &p_, &wl_), b, bl); const uint8_t *cp = b, *g; size_t il = bl, gb; int r = asn1_bit_string_from_der(&g, &gb, &cp, &il); size_t kk[2] = { nbits, (size_t)pat }; vh_eval(vh_hash(kk, sizeof kk, 4));
		if (r != 1 || il || gb != nbits || (nby && memcmp(g, v, nby))) viol_rt("bit_string", "roundtrip", "\"nbits\":%zu,\"enc\":\"%s\",\"ret\":%d,\"gotbits\":%zu", nbits, vh_hex(b, bl), r, gb);
		if (bl != 3 + nby || b[0] != 3 || b[1] != nby + 1 || b[2] != (uint8_t)(nby * 8 - nbits)) viol_rt("bit_string", "not-canonical", "\"nbits\":%zu,\"enc\":\"%s\"", nbits, vh_hex(b, bl)); } }
	/* named-bit lists (asn1_bits: an int whose bit i is list member i): 0, every single bit 0..30, every pair, every run 2^k - 1, through the universal and an implicit tag */
	if (vh_block_begin("val-bits")) { for (int i = -1; i < 31; i++) for (int j = i; j < 32; j++) { if (!vh_next()) continue; int v = i < 0 ? (j < 0 ? 0 : (j == 31 ? 0x7fffffff : (int)((1u << (j + 1)) - 1))) : (j == 31 ? (int)((1u << i) | 0x40000000u) : (int)((1u << i) | (1u << j)));
			for (int impl = 0; impl < 2; impl++) { uint8_t ob[16], *p = ob; size_t wl = 0, dl = 0; int r0 = impl ? asn1_implicit_bits_to_der(2, v, NULL, &dl) : asn1_bits_to_der(v, NULL, &dl); int r1 = impl ? asn1_implicit_bits_to_der(2, v, &p, &wl) : asn1_bits_to_der(v, &p, &wl); size_t kk[3] = { (size_t)(i + 1), (size_t)j, (size_t)impl }; vh_eval(vh_hash(kk, sizeof kk, 44));
				if (v == 0 && r1 == 0) continue; /* an empty list is "absent" */ if (r0 != 1 || r1 != 1 || wl != dl || wl > 7) { viol_rt("bits", "encode", "\"value\":%d,\"implicit\":%d,\"ret\":%d,\"len\":%zu", v, impl, r1, wl); continue; }
				const uint8_t *cp = ob; size_t il = wl; int g = -5; int r = impl ? asn1_implicit_bits_from_der(2, &g, &cp, &il) : asn1_bits_from_der(&g, &cp, &il); if (r != 1 || il || g != v) viol_rt("bits", "roundtrip", "\"value\":%d,\"implicit\":%d,\"enc\":\"%s\",\"ret\":%d,\"got\":%d", v, impl, vh_hex(ob, wl), r, g); } } }
	if (vh_block_begin("val-oid")) { static const uint32_t AV[] = { 0, 1, 39, 127, 128, 16383, 16384, 1u << 21, (1u << 28) - 1, 1u << 28, 0xffffffffu };
		for (size_t cnt = 2; cnt <= 33; cnt++) for (int a = 0; a < 11; a++) for (int first = 0; first < 3; first++) { if (!vh_next()) continue; uint32_t nodes[40]; nodes[0] = (uint32_t)first; nodes[1] = first < 2 ? (AV[a] > 39 ? 39 : AV[a]) : AV[a] > 0xffffff00u ? 47 : AV[a]; for (size_t i = 2; i < cnt; i++) nodes[i] = AV[(a + i) % 11];
			size_t kk[3] = { cnt, (size_t)a, (size_t)first }; vh_eval(vh_hash(kk, sizeof kk, 5)); size_t dl = 0; int r0 = asn1_object_identifier_to_der(nodes, cnt, NULL, &dl);
			if (cnt > 32) { if (r0 == 1) viol_rt("oid", "encodes-33-arcs", "\"cnt\":%zu", cnt); continue; } if (r0 != 1) { viol_rt("oid", "refuses-valid", "\"cnt\":%zu,\"arc\":%u", cnt, AV[a]); continue; }
			ENC2("oid", asn1_object_identifier_to_der(nodes, cnt, NULL, &dl_), asn1_object_identifier_to_der(nodes, cnt, &p_, &wl_), b, bl); uint32_t g[40]; size_t gc = 0; const uint8_t *cp = b; size_t il = bl; int r = asn1_object_identifier_from_der(g, &gc, &cp, &il);
			if (r != 1 || il || gc != cnt || memcmp(g, nodes, 4 * cnt)) viol_rt("oid", "roundtrip", "\"cnt\":%zu,\"arc\":%u,\"first\":%d,\"ret\":%d,\"gotcnt\":%zu,\"enc\":\"%s\"", cnt, AV[a], first, r, gc, vh_hex(b, bl));
			/* reference base-128 encoding */
			uint8_t e[200]; size_t el = 0; uint64_t f = (uint64_t)nodes[0] * 40 + nodes[1]; for (size_t i = 1; i < cnt; i++) { uint64_t v = i == 1 ? f : nodes[i]; uint8_t t[10]; int k = 0; do { t[k++] = (uint8_t)(v & 0x7f); v >>= 7; } while (v); while (k--) e[el++] = (uint8_t)(t[k] | (k ? 0x80 : 0)); }
			if (bl != el + 2 || b[0] != 6 || b[1] != el || memcmp(b + 2, e, el)) viol_rt("oid", "not-canonical", "\"cnt\":%zu,\"enc\":\"%s\",\"exp\":\"%s\"", cnt, vh_hex(b, bl), vh_hex(e, el)); } }
	if (vh_block_begin("val-strings")) {
		static const uint32_t CP[] = { 0x01, 0x41, 0x7f, 0x80, 0x7ff, 0x800, 0xd7ff, 0xe000, 0xffff, 0x10000, 0x10ffff }; char s[64];
		for (int a = 0; a < 11; a++) for (int c2 = -1; c2 < 11; c2++) for (int c3 = -1; c3 < (c2 < 0 ? 0 : 11); c3++) { if (!vh_next()) continue; uint32_t cps[3] = { CP[a], c2 >= 0 ? CP[c2] : 0, c3 >= 0 ? CP[c3] : 0 }; int nc = 1 + (c2 >= 0) + (c3 >= 0); size_t n = 0;
			for (int i = 0; i < nc; i++) { uint32_t c = cps[i]; if (c < 0x80) s[n++] = (char)c; else if (c < 0x800) { s[n++] = (char)(0xc0 | (c >> 6)); s[n++] = (char)(0x80 | (c & 0x3f)); } else if (c < 0x10000) { s[n++] = (char)(0xe0 | (c >> 12)); s[n++] = (char)(0x80 | ((c >> 6) & 0x3f)); s[n++] = (char)(0x80 | (c & 0x3f)); } else { s[n++] = (char)(0xf0 | (c >> 18)); s[n++] = (char)(0x80 | ((c >> 12) & 0x3f)); s[n++] = (char)(0x80 | ((c >> 6) & 0x3f)); s[n++] = (char)(0x80 | (c & 0x3f)); } }
			size_t kk[3] = { (size_t)a, (size_t)(c2 + 1), (size_t)(c3 + 1) }; vh_eval(vh_hash(kk, sizeof kk, 6)); size_t dl = 0; int r0 = asn1_utf8_string_to_der(s, n, NULL, &dl); int multibyte = 0; for (size_t i = 0; i < n; i++) if (s[i] & 0x80) multibyte = 1;
			if (r0 != 1) { char key[96]; snprintf(key, sizeof key, "refuses-valid-utf8:%s", multibyte ? "multibyte" : "ascii"); viol_rt("utf8_string", key, "\"bytes\":\"%s\"", vh_hex(s, n)); continue; }
			ENC2("utf8_string", asn1_utf8_string_to_der(s, n, NULL, &dl_), asn1_utf8_string_to_der(s, n, &p_, &wl_), b, bl); const uint8_t *cp = b; size_t il = bl, gl; const char *g; int r = asn1_utf8_string_from_der(&g, &gl, &cp, &il);
			if (r != 1 || il || gl != n || memcmp(g, s, n)) { char key[96]; snprintf(key, sizeof key, "roundtrip:%s", multibyte ? "multibyte" : "ascii"); viol_rt("utf8_string", key, "\"bytes\":\"%s\",\"ret\":%d", vh_hex(s, n), r); } }
		/* invalid UTF-8 must not be encoded/decoded as UTF8String */
		/* structurally invalid sequences only; overlong forms / surrogates / > U+10FFFF are not refused by the library and the property does not speak about them */
		static const char *BAD[] = { "\x80", "a\xbf", "\xf8\x88\x80\x80\x80", "\xc3", "\xe2\x82", "a\xffz", "\xc3\x28", "\xe2\x28\xa1", "\xf0\x90\x28\xbc", "\xfe", "\xe2\x82\xc0" };
		for (int i = 0; i < 11; i++) { if (!vh_next()) continue; size_t n = strlen(BAD[i]), dl = 0; int r = asn1_utf8_string_to_der(BAD[i], n, NULL, &dl); vh_eval(vh_mix(i + 9100)); if (r == 1) { char key[96]; snprintf(key, sizeof key, "accepts-invalid-utf8:%d", i); viol_rt("utf8_string", key, "\"bytes\":\"%s\"", vh_hex(BAD[i], n)); }
			uint8_t der[16]; size_t l = der_put_tlv(der, 0x0c, (const uint8_t *)BAD[i], n); const uint8_t *cp = der; const char *g; size_t gl; r = asn1_utf8_string_from_der(&g, &gl, &cp, &l); vh_eval(vh_mix(i + 9200)); if (r == 1) { char key[96]; snprintf(key, sizeof key, "decodes-invalid-utf8:%d", i); viol_rt("utf8_string", key, "\"bytes\":\"%s\"", vh_hex(BAD[i], n)); } }
		/* every byte value as a one-character PrintableString / IA5String */
		static const char PRN[] = "ABCDEFGHIJKLMNOPQRSTUVWXYZabcdefghijklmnopqrstuvwxyz0123456789 '()+,-./:=?";
		for (int c = 0; c < 256; c++) { if (!vh_next()) continue; char ch[3] = { 'x', (char)c, 'y' }; size_t dl = 0; int wantp = c != 0 && strchr(PRN, c) != NULL, wanti = c < 0x80; int r = asn1_printable_string_to_der(ch, 3, NULL, &dl); vh_eval(vh_mix(c + 9300));
			if ((r == 1) != wantp) { char key[96]; snprintf(key, sizeof key, "%s:0x%02x", r == 1 ? "accepts-nonprintable" : "refuses-printable", c); viol_rt("printable_string", key, "\"c\":%d", c); }
			if (r == 1) { ENC2("printable_string", asn1_printable_string_to_der(ch, 3, NULL, &dl_), asn1_printable_string_to_der(ch, 3, &p_, &wl_), b, bl); const uint8_t *cp = b; size_t il = bl, gl; const char *g; if (asn1_printable_string_from_der(&g, &gl, &cp, &il) != 1 || gl != 3 || memcmp(g, ch, 3) || il) viol_rt("printable_string", "roundtrip", "\"c\":%d", c); }
			else { uint8_t der[8]; size_t l = der_put_tlv(der, 0x13, (const uint8_t *)ch, 3); const uint8_t *cp = der; const char *g; size_t gl; if (asn1_printable_string_from_der(&g, &gl, &cp, &l) == 1) { char key[96]; snprintf(key, sizeof key, "decodes-nonprintable:0x%02x", c); viol_rt("printable_string", key, "\"c\":%d", c); } }
			dl = 0; r = asn1_ia5_string_to_der(ch, 3, NULL, &dl); vh_eval(vh_mix(c + 9600)); if ((r == 1) != wanti) { char key[96]; snprintf(key, sizeof key, "%s:0x%02x", r == 1 ? "accepts-non-ia5" : "refuses-ia5", c); viol_rt("ia5_string", key, "\"c\":%d", c); }
			if (r == 1) { ENC2("ia5_string", asn1_ia5_string_to_der(ch, 3, NULL, &dl_), asn1_ia5_string_to_der(ch, 3, &p_, &wl_), b, bl); const uint8_t *cp = b; size_t il = bl, gl; const char *g; if (asn1_ia5_string_from_der(&g, &gl, &cp, &il) != 1 || gl != 3 || memcmp(g, ch, 3) || il) viol_rt("ia5_string", "roundtrip", "\"c\":%d", c); } }
	}
	if (vh_block_begin("val-time")) { /* every day of the representable ranges at seconds {0,1,86399}; civil-from-days is the independent oracle */
		for (int64_t day = 0; day <= 2932896; day++) { if (!vh_next()) continue; if (!vh_thorough && day > 29219 + 366 && (day % 37) != 0 && day < 2932896 - 400) continue; /* quick: all days to 2050, then every 37th, then the last 400 */
			int64_t z = day + 719468, era = z / 146097; unsigned doe = (unsigned)(z - era * 146097), yoe = (doe - doe / 1460 + doe / 36524 - doe / 146096) / 365; int64_t y = (int64_t)yoe + era * 400; unsigned doy = doe - (365 * yoe + yoe / 4 - yoe / 100), mp = (5 * doy + 2) / 153, d = doy - (153 * mp + 2) / 5 + 1, m = mp < 10 ? mp + 3 : mp - 9; if (m <= 2) y++;
			static const int SEC[] = { 0, 1, 86399 }; for (int si = 0; si < 3; si++) { time_t t = (time_t)(day * 86400 + SEC[si]); char exp[20], got[20] = {0}; int hh = SEC[si] / 3600, mi = (SEC[si] % 3600) / 60, ss = SEC[si] % 60;
				snprintf(exp, sizeof exp, "%04d%02u%02u%02d%02d%02dZ", (int)y, m, d, hh, mi, ss); uint64_t kk = (uint64_t)t; vh_eval(vh_mix(kk + 5));
				int r = asn1_time_to_str(0, t, got); if (r != 1 || memcmp(got, exp, 15)) { viol_rt("generalized_time", "to_str", "\"t\":%lld,\"got\":\"%.15s\",\"exp\":\"%s\",\"ret\":%d", (long long)t, got, exp, r); continue; }
				time_t back = -7; r = asn1_time_from_str(0, &back, exp); if (r != 1 || back != t) viol_rt("generalized_time", "from_str", "\"str\":\"%s\",\"got\":%lld,\"exp\":%lld,\"ret\":%d", exp, (long long)back, (long long)t, r);
				if (y <= 2049) { memset(got, 0, sizeof got); r = asn1_time_to_str(1, t, got); vh_eval(vh_mix(kk + 6)); if (r != 1 || memcmp(got, exp + 2, 13)) viol_rt("utc_time", "to_str", "\"t\":%lld,\"got\":\"%.13s\",\"exp\":\"%s\"", (long long)t, got, exp + 2); back = -7; r = asn1_time_from_str(1, &back, exp + 2); if (r != 1 || back != t) viol_rt("utc_time", "from_str", "\"str\":\"%s\",\"got\":%lld,\"exp\":%lld", exp + 2, (long long)back, (long long)t);
					if ((day % 97) == 0) { ENC2("utc_time", asn1_utc_time_to_der(t, NULL, &dl_), asn1_utc_time_to_der(t, &p_, &wl_), b, bl); const uint8_t *cp = b; size_t il = bl; time_t g = -1; if (asn1_utc_time_from_der(&g, &cp, &il) != 1 || g != t || il) viol_rt("utc_time", "der-roundtrip", "\"t\":%lld", (long long)t); } }
				if ((day % 97) == 0) { ENC2("generalized_time", asn1_generalized_time_to_der(t, NULL, &dl_), asn1_generalized_time_to_der(t, &p_, &wl_), b, bl); const uint8_t *cp = b; size_t il = bl; time_t g = -1; if (asn1_generalized_time_from_der(&g, &cp, &il) != 1 || g != t || il) viol_rt("generalized_time", "der-roundtrip", "\"t\":%lld", (long long)t); } }
			if ((day % 100000) == 0) vh_sample("{\"block\":\"val-time\",\"day\":%lld,\"date\":\"%04d-%02u-%02u\"}", (long long)day, (int)y, m, d); }
		/* impossible dates must be refused */
		static const char *BADT[] = { "20230229000000Z", "20230431000000Z", "20231301000000Z", "20230100000000Z", "20230101240000Z", "20230101006000Z", "20230101000060Z", "21000229000000Z", "2023010100000Z0", "20230101000000z", "19691231235959Z" };
		for (int i = 0; i < 11; i++) { if (!vh_next()) continue; time_t t; int r = asn1_time_from_str(0, &t, BADT[i]); vh_eval(vh_mix(i + 777000)); if (r == 1) { char key[96]; snprintf(key, sizeof key, "accepts-impossible-date:%s", BADT[i]); viol_rt("generalized_time", key, "\"t\":%lld", (long long)t); } } }
}

/* ---------- small-scope exhaustive decoder inputs ---------- */
typedef int (*dec_f)(const uint8_t *in, size_t n, size_t *consumed, uint8_t *re, size_t *relen);
#define DEC_PROLOGUE const uint8_t *cp = in; size_t il = n; int r
static int d_bool(const uint8_t *in, size_t n, size_t *c, uint8_t *re, size_t *rl) { DEC_PROLOGUE; int v; r = asn1_boolean_from_der(&v, &cp, &il); if (r == 1) { *c = n - il; uint8_t *p = re; *rl = 0; asn1_boolean_to_der(v, &p, rl); } return r; }
static int d_integer(const uint8_t *in, size_t n, size_t *c, uint8_t *re, size_t *rl) { DEC_PROLOGUE; const uint8_t *v; size_t vl; r = asn1_integer_from_der(&v, &vl, &cp, &il); if (r == 1) { *c = n - il; uint8_t *p = re; *rl = 0; asn1_integer_to_der(v, vl, &p, rl); } return r; }
static int d_int(const uint8_t *in, size_t n, size_t *c, uint8_t *re, size_t *rl) { DEC_PROLOGUE; int v; r = asn1_int_from_der(&v, &cp, &il); if (r == 1) { *c = n - il; uint8_t *p = re; *rl = 0; asn1_int_to_der(v, &p, rl); } return r; }
static int d_bits(const uint8_t *in, size_t n, size_t *c, uint8_t *re, size_t *rl) { DEC_PROLOGUE; const uint8_t *v; size_t nb; r = asn1_bit_string_from_der(&v, &nb, &cp, &il); if (r == 1) { *c = n - il; uint8_t *p = re; *rl = 0; asn1_bit_string_to_der(v, nb, &p, rl); } return r; }
static int d_bitoct(const uint8_t *in, size_t n, size_t *c, uint8_t *re, size_t *rl) { DEC_PROLOGUE; const uint8_t *v; size_t vl; r = asn1_bit_octets_from_der(&v, &vl, &cp, &il); if (r == 1) { *c = n - il; uint8_t *p = re; *rl = 0; asn1_bit_octets_to_der(v, vl, &p, rl); } return r; }
static int d_null(const uint8_t *in, size_t n, size_t *c, uint8_t *re, size_t *rl) { DEC_PROLOGUE; r = asn1_null_from_der(&cp, &il); if (r == 1) { *c = n - il; uint8_t *p = re; *rl = 0; asn1_null_to_der(&p, rl); } return r; }
static int d_oid(const uint8_t *in, size_t n, size_t *c, uint8_t *re, size_t *rl) { DEC_PROLOGUE; uint32_t nodes[40]; size_t cnt = 0; r = asn1_object_identifier_from_der(nodes, &cnt, &cp, &il); if (r == 1) { *c = n - il; uint8_t *p = re; *rl = 0; asn1_object_identifier_to_der(nodes, cnt, &p, rl); } return r; }
static int d_octets(const uint8_t *in, size_t n, size_t *c, uint8_t *re, size_t *rl) { DEC_PROLOGUE; const uint8_t *v; size_t vl; r = asn1_octet_string_from_der(&v, &vl, &cp, &il); if (r == 1) { *c = n - il; uint8_t *p = re; *rl = 0; if (asn1_octet_string_to_der(v, vl, &p, rl) != 1) { /* the encoder treats an absent/empty value as "nothing": encode by hand */ *rl = der_put_tlv(re, 0x04, v, vl); } } return r; }
static int d_seq(const uint8_t *in, size_t n, size_t *c, uint8_t *re, size_t *rl) { DEC_PROLOGUE; const uint8_t *v; size_t vl; r = asn1_sequence_from_der(&v, &vl, &cp, &il); if (r == 1) { *c = n - il; *rl = der_put_tlv(re, 0x30, v, vl); } return r; }
static int d_utf8(const uint8_t *in, size_t n, size_t *c, uint8_t *re, size_t *rl) { DEC_PROLOGUE; const char *v; size_t vl; r = asn1_utf8_string_from_der(&v, &vl, &cp, &il); if (r == 1) { *c = n - il; uint8_t *p = re; *rl = 0; asn1_utf8_string_to_der(v, vl, &p, rl); } return r; }
static int d_prn(const uint8_t *in, size_t n, size_t *c, uint8_t *re, size_t *rl) { DEC_PROLOGUE; const char *v; size_t vl; r = asn1_printable_string_from_der(&v, &vl, &cp, &il); if (r == 1) { *c = n - il; uint8_t *p = re; *rl = 0; asn1_printable_string_to_der(v, vl, &p, rl); } return r; }
static int d_ia5(const uint8_t *in, size_t n, size_t *c, uint8_t *re, size_t *rl) { DEC_PROLOGUE; const char *v; size_t vl; r = asn1_ia5_string_from_der(&v, &vl, &cp, &il); if (r == 1) { *c = n - il; uint8_t *p = re; *rl = 0; asn1_ia5_string_to_der(v, vl, &p, rl); } return r; }
static int d_any(const uint8_t *in, size_t n, size_t *c, uint8_t *re, size_t *rl) { DEC_PROLOGUE; const uint8_t *v; size_t vl; r = asn1_any_from_der(&v, &vl, &cp, &il); if (r == 1) { *c = n - il; memcpy(re, v, vl); *rl = vl; } return r; }
static int d_seqint(const uint8_t *in, size_t n, size_t *c, uint8_t *re, size_t *rl) { DEC_PROLOGUE; int nums[8]; size_t cnt = 0; r = asn1_sequence_of_int_from_der(nums, &cnt, 4, &cp, &il); if (r == 1) { *c = n - il; if (cnt > 4) { *rl = 0; return 99; } uint8_t *p = re; *rl = 0; if (cnt == 0) { re[0] = 0x30; re[1] = 0; *rl = 2; } else asn1_sequence_of_int_to_der(nums, cnt, &p, rl); } return r; }
static const struct { const char *name; int tag; dec_f f; } DECS[] = { { "boolean", 1, d_bool }, { "integer", 2, d_integer }, { "int", 2, d_int }, { "bit_string", 3, d_bits }, { "bit_octets", 3, d_bitoct }, { "null", 5, d_null }, { "oid", 6, d_oid }, { "octet_string", 4, d_octets },
	{ "sequence", 0x30, d_seq }, { "utf8_string", 0x0c, d_utf8 }, { "printable_string", 0x13, d_prn }, { "ia5_string", 0x16, d_ia5 }, { "any", 0x04, d_any }, { "sequence_of_int", 0x30, d_seqint } };
#define NDECS (sizeof DECS / sizeof DECS[0])
static void offer_dec(int di, const uint8_t *s, size_t n) {
	uint8_t *hb = (uint8_t *)malloc(n ? n : 1); memcpy(hb, s, n); size_t consumed = 0, rl = 0; uint8_t re[64]; int r = DECS[di].f(hb, n, &consumed, re, &rl); vh_evals++;
	if (r == 1 || r == 99) { vh_nontriv++; char key[128];
		if (r == 99) { snprintf(key, sizeof key, "C14:dec:%s:count-exceeds-capacity", DECS[di].name); vh_viol(key, "\"in\":\"%s\"", vh_hex(s, n)); }
		else if (consumed > n || rl != consumed || memcmp(re, hb, consumed)) {
			/* the property demands byte-identical re-encoding for lengths, integers and booleans (and the composite objects); a non-minimal LENGTH shows up for every
			   decoder and is always a violation; non-canonical CONTENT of other types (e.g. OID subidentifier with a leading 0x80) is recorded as an observation */
			der_cur c = { hb, consumed > n ? n : consumed }; int tag; const uint8_t *v; size_t vl; int hdr_ok = der_tlv(&c, &tag, &v, &vl, NULL) && c.n == 0; int listed = !strcmp(DECS[di].name, "boolean") || !strcmp(DECS[di].name, "integer") || !strcmp(DECS[di].name, "int");
			if (!hdr_ok || listed || consumed > n) { snprintf(key, sizeof key, "C14:dec:%s:accepted-not-canonical", DECS[di].name); vh_viol(key, "\"in\":\"%s\",\"consumed\":%zu,\"reencoded\":\"%s\"", vh_hex(s, n), consumed, vh_hex(re, rl)); }
			else { static int seen[32]; if (!seen[di]++) vh_obs("decoder %s accepts non-canonical content that re-encodes differently (outside the property's list): in=%s reencoded=%s", DECS[di].name, vh_hex(s, n), vh_hex(re, rl)); } }
		else if (strcmp(DECS[di].name, "any")) { der_cur c = { hb, consumed }; int tag; const uint8_t *v; size_t vl; if (!der_tlv(&c, &tag, &v, &vl, NULL) || c.n) { snprintf(key, sizeof key, "C14:dec:%s:accepted-not-strict-tlv", DECS[di].name); vh_viol(key, "\"in\":\"%s\"", vh_hex(s, n)); } } }
	free(hb);
}
static void blk_decoders(void) {
	for (size_t di = 0; di < NDECS; di++) { char bn[64]; snprintf(bn, sizeof bn, "dec-%s", DECS[di].name); if (!vh_block_begin(bn)) continue;
		uint8_t s[8]; uint8_t A[12] = { 0x00, 0x01, 0x02, 0x03, 0x04, 0x7f, 0x80, 0x81, 0x82, 0x84, 0xff, (uint8_t)DECS[di].tag };
		/* every string of length <= 2 over all bytes (first byte shards the space) */
		for (int b0 = 0; b0 < 256; b0++) { if (!vh_next()) continue; if (b0 == 0) offer_dec((int)di, s, 0); s[0] = (uint8_t)b0; offer_dec((int)di, s, 1); for (int b1 = 0; b1 < 256; b1++) { s[1] = (uint8_t)b1; offer_dec((int)di, s, 2); if (b0 == DECS[di].tag && b1 <= 3) for (int b2 = 0; b2 < 256; b2++) { s[2] = (uint8_t)b2; offer_dec((int)di, s, 3); if (b1 >= 2) for (int b3 = 0; b3 < 256; b3++) { s[3] = (uint8_t)b3; offer_dec((int)di, s, 4); } } } }
		/* every string of length 3..5 over the 10-symbol alphabet, tag first (other first bytes are "absent") */
		for (int i1 = 0; i1 < 12; i1++) for (int i2 = 0; i2 < 12; i2++) { if (!vh_next()) continue; s[0] = (uint8_t)DECS[di].tag; s[1] = A[i1]; s[2] = A[i2]; offer_dec((int)di, s, 3); for (int i3 = 0; i3 < 12; i3++) { s[3] = A[i3]; offer_dec((int)di, s, 4); for (int i4 = 0; i4 < 12; i4++) { s[4] = A[i4]; offer_dec((int)di, s, 5); for (int i5 = 0; i5 < 12; i5++) { s[5] = A[i5]; offer_dec((int)di, s, 6); } } } }
		vh_sample("{\"block\":\"%s\",\"alphabet\":\"%s\",\"max_len\":6}", bn, vh_hex(A, 12));
	}
}
/* ---------- base64 / hex / PEM ---------- */
static const char B64[] = "ABCDEFGHIJKLMNOPQRSTUVWXYZabcdefghijklmnopqrstuvwxyz0123456789+/";
static size_t ref_b64(const uint8_t *in, size_t n, char *out) { size_t o = 0, col = 0; for (size_t i = 0; i < n; i += 3) { uint32_t v = in[i] << 16 | (i + 1 < n ? in[i + 1] << 8 : 0) | (i + 2 < n ? in[i + 2] : 0); out[o++] = B64[v >> 18]; out[o++] = B64[(v >> 12) & 63]; out[o++] = i + 1 < n ? B64[(v >> 6) & 63] : '='; out[o++] = i + 2 < n ? B64[v & 63] : '='; col += 4; if (col == 64) { out[o++] = '\n'; col = 0; } } if (col) out[o++] = '\n'; out[o] = 0; return o; }
static uint8_t BIN[4200];
static int b64_decode_all(const char *txt, size_t tl, size_t cut, uint8_t *out, size_t cap, size_t *ol) { BASE64_CTX c; base64_decode_init(&c); int l = 0, r; *ol = 0; uint8_t *o = cap_buf(cap);
	size_t parts[2][2] = { { 0, cut }, { cut, tl - cut } }; for (int i = 0; i < 2; i++) { if (!parts[i][1]) continue; char *hb = (char *)malloc(parts[i][1]); memcpy(hb, txt + parts[i][0], parts[i][1]); r = base64_decode_update(&c, (uint8_t *)hb, (int)parts[i][1], o + *ol, &l); free(hb); if (r < 0) return r; *ol += l; }
	r = base64_decode_finish(&c, o + *ol, &l); if (r < 0) return r; *ol += l; if (!cap_ok(cap)) return -77; memcpy(out, o, *ol < cap ? *ol : cap); return 1; }
static void blk_text(void) {
	for (size_t i = 0; i < sizeof BIN; i++) BIN[i] = (uint8_t)(i * 131 + (i >> 5) + 7);
	if (vh_block_begin("base64-encode")) { static char exp[6000], got[6000];
		for (size_t fill = 0; fill < 48; fill++) for (size_t len = 0; len <= 100; len++) { if (!vh_next()) continue; size_t n = fill + len; size_t el = ref_b64(BIN, n, exp); BASE64_CTX c; base64_encode_init(&c); int l = 0; size_t gl = 0; uint8_t *o = cap_buf(el + 2);
			if (fill) { base64_encode_update(&c, BIN, (int)fill, o + gl, &l); gl += l; } if (len) { base64_encode_update(&c, BIN + fill, (int)len, o + gl, &l); gl += l; } base64_encode_finish(&c, o + gl, &l); gl += l; size_t kk[2] = { fill, len }; vh_eval(vh_hash(kk, sizeof kk, 11));
			memcpy(got, o, gl < sizeof got ? gl : sizeof got); if (gl != el || memcmp(got, exp, el) || !cap_ok(el + 2)) viol_rt("base64", "encode", "\"fill\":%zu,\"len\":%zu,\"gotlen\":%zu,\"explen\":%zu", fill, len, gl, el); }
		static const size_t BL[] = { 200, 4095, 4096 }; for (int i = 0; i < 3; i++) for (size_t c1 = 0; c1 < 48; c1 += 5) { if (!vh_next()) continue; size_t n = BL[i]; size_t el = ref_b64(BIN, n, exp); BASE64_CTX c; base64_encode_init(&c); int l; size_t gl = 0; uint8_t *o = cap_buf(el + 2);
			if (c1) { base64_encode_update(&c, BIN, (int)c1, o + gl, &l); gl += l; } base64_encode_update(&c, BIN + c1, (int)(n - c1), o + gl, &l); gl += l; base64_encode_finish(&c, o + gl, &l); gl += l; vh_eval(vh_mix(n * 64 + c1)); if (gl != el || memcmp(o, exp, el) || !cap_ok(el + 2)) viol_rt("base64", "encode-long", "\"n\":%zu,\"cut\":%zu", n, c1); } }
	if (vh_block_begin("base64-decode")) { static char txt[6000]; static uint8_t out[4300];
		for (size_t n = 0; n <= 200; n++) { if (!vh_next()) continue; size_t tl = ref_b64(BIN, n, txt); for (size_t cut = 0; cut <= tl; cut++) { size_t ol; int r = b64_decode_all(txt, tl, cut, out, n + 3, &ol); size_t kk[2] = { n, cut }; vh_eval(vh_hash(kk, sizeof kk, 12)); if (r != 1 || ol != n || memcmp(out, BIN, n)) { viol_rt("base64", r == -77 ? "decode-overruns-capacity" : "decode", "\"n\":%zu,\"cut\":%zu,\"ret\":%d,\"outlen\":%zu", n, cut, r, ol); break; } }
			/* malformed text: one character replaced, at every position */
			if (n >= 1 && n <= 60) { static const char REP[] = { '=', (char)0x80, 0x00, '*', '_', '!' }; for (size_t pos = 0; pos < tl; pos++) for (int ri = 0; ri < 6; ri++) { if (txt[pos] == '\n' || txt[pos] == REP[ri]) continue; char sv = txt[pos]; txt[pos] = REP[ri]; size_t ol; int r = b64_decode_all(txt, tl, tl / 2, out, n + 3, &ol); size_t kk[3] = { n, pos, (size_t)ri }; vh_eval(vh_hash(kk, sizeof kk, 13));
				/* '=' replacing a data character before the end, or any non-alphabet character, must not decode to success with the original length */
				if (r == 1 && ol == n && !memcmp(out, BIN, n)) { char key[96]; snprintf(key, sizeof key, "decode-accepts-malformed:rep=0x%02x", (unsigned char)REP[ri]); viol_rt("base64", key, "\"n\":%zu,\"pos\":%zu", n, pos); } else if (r == -77) viol_rt("base64", "decode-overruns-capacity", "\"n\":%zu,\"pos\":%zu", n, pos);
				else if (r == 1) { char key[96]; snprintf(key, sizeof key, "decode-succeeds-on-malformed:rep=0x%02x", (unsigned char)REP[ri]); if (REP[ri] != '=' ) viol_rt("base64", key, "\"n\":%zu,\"pos\":%zu,\"outlen\":%zu", n, pos, ol); }
				txt[pos] = sv; } }
		}
		static const size_t BL[] = { 4095, 4096 }; for (int i = 0; i < 2; i++) { if (!vh_next()) continue; size_t n = BL[i]; size_t tl = ref_b64(BIN, n, txt), ol; int r = b64_decode_all(txt, tl, 1000, out, n + 3, &ol); vh_eval(vh_mix(n + 4)); if (r != 1 || ol != n || memcmp(out, BIN, n)) viol_rt("base64", "decode-long", "\"n\":%zu,\"ret\":%d", n, r); } }
	if (vh_block_begin("hex")) { static char hx[600]; static uint8_t out[300];
		for (size_t n = 0; n <= 200; n++) for (int up = 0; up < 2; up++) { if (!vh_next()) continue; for (size_t i = 0; i < n; i++) sprintf(hx + 2 * i, up ? "%02X" : "%02x", BIN[i]); size_t ol = 999; uint8_t *o = cap_buf(n); int r = hex_to_bytes(hx, 2 * n, o, &ol); size_t kk[2] = { n, (size_t)up }; vh_eval(vh_hash(kk, sizeof kk, 14));
			if (n == 0) continue; if (r != 1 || ol != n || memcmp(o, BIN, n) || !cap_ok(n)) viol_rt("hex", "decode", "\"n\":%zu,\"upper\":%d,\"ret\":%d", n, up, r);
			if (n <= 20) { r = hex_to_bytes(hx, 2 * n - 1, out, &ol); vh_eval(vh_hash(kk, sizeof kk, 15)); if (r == 1) viol_rt("hex", "accepts-odd-length", "\"n\":%zu", n); } }
		for (int c = 0; c < 256; c++) { if (!vh_next()) continue; int ishex = (c >= '0' && c <= '9') || (c >= 'a' && c <= 'f') || (c >= 'A' && c <= 'F'); char s[4] = { 'a', (char)c, '1', '2' }; size_t ol; int r = hex_to_bytes(s, 4, out, &ol); vh_eval(vh_mix(c + 8800)); if ((r == 1) != ishex) { char key[64]; snprintf(key, sizeof key, "%s:0x%02x", r == 1 ? "accepts-non-hex" : "refuses-hex", c); viol_rt("hex", key, "\"c\":%d", c); }
			else if (r == 1) { int v = c <= '9' ? c - '0' : (c | 0x20) - 'a' + 10; if (out[0] != (0xa0 | v) || out[1] != 0x12 || ol != 2) viol_rt("hex", "wrong-value", "\"c\":%d", c); } } }
	if (vh_block_begin("pem")) { static uint8_t out[9000];
		static const size_t CAPS[] = { 30, 100, 512 };
		for (int ci = 0; ci < 3; ci++) for (int dv = -1; dv <= 2; dv++) for (int nl = 0; nl < 3; nl++) { if (!vh_next()) continue; size_t cap = CAPS[ci], n = dv == 2 ? 2 * cap : (size_t)((long)cap + dv); char *txt = NULL; size_t tl = 0; FILE *f = open_memstream(&txt, &tl); pem_write(f, "TEST", BIN, n); fclose(f);
			/* newline style: 0 = \n, 1 = \r\n, 2 = no final newline */
			char *t2 = (char *)malloc(2 * tl + 1); size_t t2l = 0; for (size_t i = 0; i < tl; i++) { if (txt[i] == '\n') { if (nl == 2 && i == tl - 1) break; if (nl == 1) t2[t2l++] = '\r'; } t2[t2l++] = txt[i]; }
			FILE *g = fmemopen(t2, t2l, "r"); uint8_t *o = cap_buf(cap); size_t ol = 0; int r = pem_read(g, "TEST", o, &ol, cap); fclose(g); size_t kk[3] = { cap, n, (size_t)nl }; vh_eval(vh_hash(kk, sizeof kk, 16));
			if (!cap_ok(cap)) { char key[96]; snprintf(key, sizeof key, "read-writes-beyond-maxlen:body=%s", n > cap ? "cap+" : "cap"); viol_rt("pem", key, "\"maxlen\":%zu,\"bodylen\":%zu,\"ret\":%d,\"outlen\":%zu", cap, n, r, ol); }
			else if (n <= cap) { if (r != 1 || ol != n || memcmp(o, BIN, n)) { char key[96]; snprintf(key, sizeof key, "roundtrip:newline=%d", nl); viol_rt("pem", key, "\"maxlen\":%zu,\"bodylen\":%zu,\"ret\":%d,\"outlen\":%zu", cap, n, r, ol); } }
			else if (r == 1) viol_rt("pem", "accepts-body-larger-than-maxlen", "\"maxlen\":%zu,\"bodylen\":%zu,\"outlen\":%zu", cap, n, ol);
			free(txt); free(t2); }
		/* the same body re-wrapped at every line width 1..79 and at alternating widths (63,77): never a write outside the buffer; success => exact data */
		for (int w1 = 1; w1 <= 79; w1++) for (int w2v = 0; w2v < 3; w2v++) { if (!vh_next()) continue; int w2 = w2v == 0 ? w1 : w2v == 1 ? 77 : 63; size_t n = 300; static char flat[600], txt[1400]; size_t fl = 0; { static char tmp[700]; size_t tl2 = ref_b64(BIN, n, tmp); for (size_t i = 0; i < tl2; i++) if (tmp[i] != '\n') flat[fl++] = tmp[i]; }
			size_t tl = 0; tl += (size_t)sprintf(txt, "-----BEGIN TEST-----\n"); size_t pos = 0; int tog = 0; while (pos < fl) { size_t w = (size_t)(tog ? w2 : w1); if (w > fl - pos) w = fl - pos; memcpy(txt + tl, flat + pos, w); tl += w; txt[tl++] = '\n'; pos += w; tog ^= 1; } tl += (size_t)sprintf(txt + tl, "-----END TEST-----\n");
			char *hb = (char *)malloc(tl); memcpy(hb, txt, tl); FILE *g = fmemopen(hb, tl, "r"); size_t cap = 300; uint8_t *o = cap_buf(cap); size_t ol = 0; int r = pem_read(g, "TEST", o, &ol, cap); fclose(g); free(hb); size_t kk[2] = { (size_t)w1, (size_t)w2 }; vh_eval(vh_hash(kk, sizeof kk, 17));
			if (!cap_ok(cap)) viol_rt("pem", "rewrapped-body-overruns", "\"w1\":%d,\"w2\":%d", w1, w2); else if (r == 1 && (ol != n || memcmp(o, BIN, n))) viol_rt("pem", "rewrapped-body-wrong-data", "\"w1\":%d,\"w2\":%d,\"outlen\":%zu", w1, w2, ol); }
		/* malformed base64 inside a PEM body must not be reported as success with data */
		for (int v = 0; v < 4; v++) { if (!vh_next()) continue; static const char *BODY[] = { "QUJD*EVG\n", "QUJDREV\n", "QUJD=EVG\n", "QUJ\x80REVG\n" }; char t[200]; snprintf(t, sizeof t, "-----BEGIN TEST-----\n%s-----END TEST-----\n", BODY[v]); FILE *g = fmemopen(t, strlen(t), "r"); size_t ol = 0; int r = pem_read(g, "TEST", out, &ol, 100); fclose(g); vh_eval(vh_mix(v + 8900));
			if (r == 1) { char key[64]; snprintf(key, sizeof key, "accepts-malformed-base64:%d", v); viol_rt("pem", key, "\"body\":\"%s\",\"outlen\":%zu", vh_hex(BODY[v], strlen(BODY[v])), ol); } }
		(void)out; }
}
/* ---------- composite objects and passwords ---------- */
static void blk_composite(void) {
	if (!vh_block_begin("composite")) return;
	static const char *DH[] = { "0000000000000000000000000000000000000000000000000000000000000001", "0000000000000000000000000000000000000000000000000000000000000002", "FFFFFFFEFFFFFFFFFFFFFFFFFFFFFFFF7203DF6B21C6052B53BBF40939D54121", "3945208F7B2144B13F36E38AC6D39F95889393692860B51A42FB81EF4DF7C5B8", "00000000000000005F36E38AC6D39F95889393692860B51A42FB81EF4DF7C5B8" };
	for (int d = 0; d < 5; d++) { if (!vh_next()) continue; SM2_KEY k, k2; sm2_z256_t z; sm2_z256_from_hex(z, DH[d]); if (sm2_key_set_private_key(&k, z) != 1) vh_harness_error("key"); uint8_t b[600]; size_t bl; const uint8_t *cp; size_t il; char key[128];
		ENC2("sm2_private_key", sm2_private_key_to_der(&k, NULL, &dl_), sm2_private_key_to_der(&k, &p_, &wl_), b, bl); cp = b; il = bl; vh_eval(vh_mix(d + 1)); if (sm2_private_key_from_der(&k2, &cp, &il) != 1 || il || memcmp(k.private_key, k2.private_key, 32) || sm2_public_key_equ(&k, &k2) != 1) { snprintf(key, sizeof key, "roundtrip:%d", d); viol_rt("sm2_private_key", key, "\"der\":\"%s\"", vh_hex(b, bl)); } if (!der_tree_ok(b, bl, 0)) viol_rt("sm2_private_key", "not-strict-der", "\"der\":\"%s\"", vh_hex(b, bl));
		ENC2("sm2_private_key_info", sm2_private_key_info_to_der(&k, NULL, &dl_), sm2_private_key_info_to_der(&k, &p_, &wl_), b, bl); cp = b; il = bl; const uint8_t *at; size_t al; vh_eval(vh_mix(d + 11)); if (sm2_private_key_info_from_der(&k2, &at, &al, &cp, &il) != 1 || il || memcmp(k.private_key, k2.private_key, 32)) viol_rt("sm2_private_key_info", "roundtrip", "\"d\":%d", d); if (!der_tree_ok(b, bl, 0)) viol_rt("sm2_private_key_info", "not-strict-der", "\"d\":%d", d);
		ENC2("sm2_public_key_info", sm2_public_key_info_to_der(&k, NULL, &dl_), sm2_public_key_info_to_der(&k, &p_, &wl_), b, bl); cp = b; il = bl; vh_eval(vh_mix(d + 21)); if (sm2_public_key_info_from_der(&k2, &cp, &il) != 1 || il || sm2_public_key_equ(&k, &k2) != 1) viol_rt("sm2_public_key_info", "roundtrip", "\"d\":%d", d); if (!der_tree_ok(b, bl, 0)) viol_rt("sm2_public_key_info", "not-strict-der", "\"d\":%d", d);
		/* every single-bit change of the SubjectPublicKeyInfo (algorithm identifiers, lengths, key): accepted => re-encodes to exactly the offered bytes */
		{ uint8_t m[200], re[200]; for (size_t bit = 0; bit < bl * 8; bit++) { memcpy(m, b, bl); m[bit / 8] ^= (uint8_t)(1 << (bit % 8)); cp = m; il = bl; vh_evals++; if (sm2_public_key_info_from_der(&k2, &cp, &il) == 1 && il == 0) { vh_nontriv++; uint8_t *rp = re; size_t rl = 0; sm2_public_key_info_to_der(&k2, &rp, &rl); if (rl != bl || memcmp(re, m, bl)) { viol_rt("sm2_public_key_info", "accepted-but-reencodes-differently", "\"bit\":%zu,\"offered\":\"%s\"", bit, vh_hex(m, bl)); break; } } } }
		/* a private-key container that carries ANOTHER key's (valid) public point: if a reader accepts it, what it read must re-encode to exactly the offered octets */
		{ SM2_KEY other, sp = k, got; sm2_z256_t z2; sm2_z256_from_hex(z2, DH[(d + 1) % 5]); sm2_key_set_private_key(&other, z2); sp.public_key = other.public_key; uint8_t e1[600], e2[600]; uint8_t *p1; size_t l1, l2; const uint8_t *cq, *at2; size_t iq, al2;
			p1 = e1; l1 = 0; if (sm2_private_key_to_der(&sp, &p1, &l1) == 1) { cq = e1; iq = l1; vh_eval(vh_mix(d + 41)); if (sm2_private_key_from_der(&got, &cq, &iq) == 1 && iq == 0) { uint8_t *p2 = e2; l2 = 0; sm2_private_key_to_der(&got, &p2, &l2); if (l2 != l1 || memcmp(e1, e2, l1)) viol_rt("sm2_private_key", "accepted-with-foreign-public-key:re-encodes-differently", "\"offered\":\"%s\"", vh_hex(e1, l1 > 200 ? 200 : l1)); } }
			p1 = e1; l1 = 0; if (sm2_private_key_info_to_der(&sp, &p1, &l1) == 1) { cq = e1; iq = l1; vh_eval(vh_mix(d + 42)); if (sm2_private_key_info_from_der(&got, &at2, &al2, &cq, &iq) == 1 && iq == 0) { uint8_t *p2 = e2; l2 = 0; sm2_private_key_info_to_der(&got, &p2, &l2); if (l2 != l1 || memcmp(e1, e2, l1)) viol_rt("sm2_private_key_info", "accepted-with-foreign-public-key:re-encodes-differently", "\"offered\":\"%s\"", vh_hex(e1, l1 > 200 ? 200 : l1)); } }
			p1 = e1; l1 = 0; venv_reset(770 + d); if (sm2_private_key_info_encrypt_to_der(&sp, "pw", &p1, &l1) == 1) { cq = e1; iq = l1; vh_eval(vh_mix(d + 43)); if (sm2_private_key_info_decrypt_from_der(&got, &at2, &al2, "pw", &cq, &iq) == 1 && (memcmp(got.private_key, k.private_key, 32) || sm2_public_key_equ(&got, &k) != 1)) viol_rt("sm2_private_key_info_encrypted", "accepted-with-foreign-public-key", "\"x\":1"); } }
		/* PEM forms */
		{ char *txt = NULL; size_t tl = 0; FILE *f = open_memstream(&txt, &tl); sm2_private_key_info_to_pem(&k, f); fclose(f); FILE *g = fmemopen(txt, tl, "r"); vh_eval(vh_mix(d + 31)); if (sm2_private_key_info_from_pem(&k2, g) != 1 || memcmp(k.private_key, k2.private_key, 32)) viol_rt("sm2_private_key_info", "pem-roundtrip", "\"d\":%d", d); fclose(g); free(txt);
		  txt = NULL; f = open_memstream(&txt, &tl); sm2_public_key_info_to_pem(&k, f); fclose(f); g = fmemopen(txt, tl, "r"); vh_eval(vh_mix(d + 41)); if (sm2_public_key_info_from_pem(&k2, g) != 1 || sm2_public_key_equ(&k, &k2) != 1) viol_rt("sm2_public_key_info", "pem-roundtrip", "\"d\":%d", d); fclose(g); free(txt); }
		/* password-encrypted PKCS#8: right password opens, every one-edit neighbour and "" does not */
		if (d == 3 || vh_thorough) { const char *pw = "P@ssw0rd"; venv_reset(55 + d); ENC2("sm2_enced_private_key_info", sm2_private_key_info_encrypt_to_der(&k, pw, NULL, &dl_), (venv_reset(55 + d), sm2_private_key_info_encrypt_to_der(&k, pw, &p_, &wl_)), b, bl);
			cp = b; il = bl; vh_eval(vh_mix(d + 51)); if (sm2_private_key_info_decrypt_from_der(&k2, &at, &al, pw, &cp, &il) != 1 || il || memcmp(k.private_key, k2.private_key, 32)) viol_rt("sm2_enced_private_key_info", "roundtrip", "\"d\":%d", d); if (!der_tree_ok(b, bl, 0)) viol_rt("sm2_enced_private_key_info", "not-strict-der", "\"d\":%d", d);
			/* every single-bit change of the EncryptedPrivateKeyInfo: if the structure is still accepted it must re-encode to exactly the offered bytes (algorithm identifiers are part of the value) */
			{ uint8_t m[700], re[700]; for (size_t bit = 0; bit < bl * 8; bit++) { memcpy(m, b, bl); m[bit / 8] ^= (uint8_t)(1 << (bit % 8)); const uint8_t *salt, *iv, *enc; size_t sl, ivl, encl; int iter, kl, prf, ciph; cp = m; il = bl; vh_evals++;
				if (pkcs8_enced_private_key_info_from_der(&salt, &sl, &iter, &kl, &prf, &ciph, &iv, &ivl, &enc, &encl, &cp, &il) == 1 && il == 0) { vh_nontriv++; uint8_t *rp = re; size_t rl = 0; int rr = pkcs8_enced_private_key_info_to_der(salt, sl, iter, kl, prf, ciph, iv, ivl, enc, encl, &rp, &rl);
					if (rr != 1 || rl != bl || memcmp(re, m, bl)) { viol_rt("pkcs8_enced_private_key_info", "accepted-but-reencodes-differently", "\"bit\":%zu,\"offered\":\"%s\",\"reencoded\":\"%s\"", bit, vh_hex(m, bl > 110 ? 110 : bl), vh_hex(re, rl > 110 ? 110 : rl)); break; } } } }
			size_t pl = strlen(pw); char w[32]; int nw = 0;
			for (size_t pos = 0; pos <= pl; pos++) for (int kind = 0; kind < 4; kind++) { /* substitute, delete, insert, case flip */
				if (kind < 2 && pos == pl) continue; if (kind == 3 && (pos == pl || !((pw[pos] | 0x20) >= 'a' && (pw[pos] | 0x20) <= 'z'))) continue; size_t wl = 0;
				for (size_t i = 0; i < pl; i++) { if (i == pos && kind == 2) w[wl++] = 'x'; if (i == pos && kind == 1) continue; w[wl++] = (i == pos && kind == 0) ? (char)(pw[i] ^ 1) : (i == pos && kind == 3) ? (char)(pw[i] ^ 0x20) : pw[i]; } if (pos == pl && kind == 2) w[wl++] = 'x'; w[wl] = 0;
				cp = b; il = bl; memset(&k2, 0, sizeof k2); int r = sm2_private_key_info_decrypt_from_der(&k2, &at, &al, w, &cp, &il); vh_eval(vh_hash(w, wl, d + 61)); nw++; if (r == 1) { snprintf(key, sizeof key, "wrong-password-opens:%s", w); viol_rt("sm2_enced_private_key_info", key, "\"password\":\"%s\"", w); } }
			cp = b; il = bl; if (sm2_private_key_info_decrypt_from_der(&k2, &at, &al, "", &cp, &il) == 1) viol_rt("sm2_enced_private_key_info", "empty-password-opens", "\"d\":%d", d);
			vh_sample("{\"block\":\"composite\",\"key\":%d,\"wrong_passwords_tried\":%d,\"enced_der\":\"%s\"}", d, nw, vh_hex(b, bl > 100 ? 100 : bl)); }
	}
	/* algorithm identifiers: every OID known to x509_alg through its encoder/decoder pair */
	static const int DG[] = { OID_sm3, OID_sha1, OID_sha224, OID_sha256, OID_sha384, OID_sha512 }; for (int i = 0; i < 6; i++) { if (!vh_next()) continue; uint8_t b[64]; size_t bl; ENC2("x509_digest_algor", x509_digest_algor_to_der(DG[i], NULL, &dl_), x509_digest_algor_to_der(DG[i], &p_, &wl_), b, bl); const uint8_t *cp = b; size_t il = bl; int o = -1; vh_eval(vh_mix(i + 3001)); if (x509_digest_algor_from_der(&o, &cp, &il) != 1 || o != DG[i] || il) viol_rt("x509_digest_algor", "roundtrip", "\"oid\":%d", DG[i]); if (!der_tree_ok(b, bl, 0)) viol_rt("x509_digest_algor", "not-strict-der", "\"oid\":%d", DG[i]); }
	static const int SG[] = { OID_sm2sign_with_sm3, OID_ecdsa_with_sha1, OID_ecdsa_with_sha256, OID_rsasign_with_sm3, OID_rsasign_with_sha256 }; for (int i = 0; i < 5; i++) { if (!vh_next()) continue; uint8_t b[64]; size_t bl; ENC2("x509_signature_algor", x509_signature_algor_to_der(SG[i], NULL, &dl_), x509_signature_algor_to_der(SG[i], &p_, &wl_), b, bl); const uint8_t *cp = b; size_t il = bl; int o = -1; vh_eval(vh_mix(i + 3101)); if (x509_signature_algor_from_der(&o, &cp, &il) != 1 || o != SG[i] || il) viol_rt("x509_signature_algor", "roundtrip", "\"oid\":%d", SG[i]); if (!der_tree_ok(b, bl, 0)) viol_rt("x509_signature_algor", "not-strict-der", "\"oid\":%d", SG[i]); }
	/* all five algorithm-identifier families over EVERY identifier the library knows (discovered through the family's own name function, oid 1..399) */
	for (int oid = 1; oid < 400; oid++) { if (!vh_next()) continue; uint8_t b[96]; size_t bl; const uint8_t *cp; size_t il; int o;
		if (x509_digest_algor_name(oid) && ({ size_t l0_ = 0; x509_digest_algor_to_der(oid, NULL, &l0_) == 1; })) { ENC2("x509_digest_algor", x509_digest_algor_to_der(oid, NULL, &dl_), x509_digest_algor_to_der(oid, &p_, &wl_), b, bl); cp = b; il = bl; o = -1; vh_eval(vh_mix(oid + 3301)); if (x509_digest_algor_from_der(&o, &cp, &il) != 1 || o != oid || il) viol_rt("x509_digest_algor", "roundtrip", "\"oid\":%d,\"name\":\"%s\"", oid, x509_digest_algor_name(oid)); if (!der_tree_ok(b, bl, 0)) viol_rt("x509_digest_algor", "not-strict-der", "\"oid\":%d", oid); }
		if (x509_signature_algor_name(oid) && ({ size_t l0_ = 0; x509_signature_algor_to_der(oid, NULL, &l0_) == 1; })) { ENC2("x509_signature_algor", x509_signature_algor_to_der(oid, NULL, &dl_), x509_signature_algor_to_der(oid, &p_, &wl_), b, bl); cp = b; il = bl; o = -1; vh_eval(vh_mix(oid + 3701)); if (x509_signature_algor_from_der(&o, &cp, &il) != 1 || o != oid || il) viol_rt("x509_signature_algor", "roundtrip", "\"oid\":%d,\"name\":\"%s\"", oid, x509_signature_algor_name(oid)); if (!der_tree_ok(b, bl, 0)) viol_rt("x509_signature_algor", "not-strict-der", "\"oid\":%d", oid); }
		if (x509_public_key_encryption_algor_name(oid) && ({ size_t l0_ = 0; x509_public_key_encryption_algor_to_der(oid, NULL, &l0_) == 1; }) /* the writer only supports sm2encrypt: identifiers it refuses are not judged */) { ENC2("x509_public_key_encryption_algor", x509_public_key_encryption_algor_to_der(oid, NULL, &dl_), x509_public_key_encryption_algor_to_der(oid, &p_, &wl_), b, bl); cp = b; il = bl; o = -1; const uint8_t *pp; size_t ppl; vh_eval(vh_mix(oid + 4101)); if (x509_public_key_encryption_algor_from_der(&o, &pp, &ppl, &cp, &il) != 1 || o != oid || il) viol_rt("x509_public_key_encryption_algor", "roundtrip", "\"oid\":%d,\"name\":\"%s\"", oid, x509_public_key_encryption_algor_name(oid)); if (!der_tree_ok(b, bl, 0)) viol_rt("x509_public_key_encryption_algor", "not-strict-der", "\"oid\":%d", oid); }
		if (x509_encryption_algor_name(oid) && ({ size_t l0_ = 0; uint8_t iv0_[16] = {0}; x509_encryption_algor_to_der(oid, iv0_, 16, NULL, &l0_) == 1; })) { uint8_t iv[16]; memset(iv, 0x5c, 16); ENC2("x509_encryption_algor", x509_encryption_algor_to_der(oid, iv, 16, NULL, &dl_), x509_encryption_algor_to_der(oid, iv, 16, &p_, &wl_), b, bl); cp = b; il = bl; o = -1; const uint8_t *gi; size_t gil; vh_eval(vh_mix(oid + 4501)); if (x509_encryption_algor_from_der(&o, &gi, &gil, &cp, &il) != 1 || o != oid || il || gil != 16 || memcmp(gi, iv, 16)) viol_rt("x509_encryption_algor", "roundtrip", "\"oid\":%d,\"name\":\"%s\"", oid, x509_encryption_algor_name(oid)); if (!der_tree_ok(b, bl, 0)) viol_rt("x509_encryption_algor", "not-strict-der", "\"oid\":%d", oid); }
		if (x509_public_key_algor_name(oid)) { int curves[3] = { OID_sm2, OID_undef, OID_prime256v1 }; for (int ci = 0; ci < 3; ci++) { int cv = curves[ci]; uint8_t *p0 = NULL; size_t l0 = 0; if (x509_public_key_algor_to_der(oid, cv, &p0, &l0) != 1) continue; /* combination not supported */ ENC2("x509_public_key_algor", x509_public_key_algor_to_der(oid, cv, NULL, &dl_), x509_public_key_algor_to_der(oid, cv, &p_, &wl_), b, bl); cp = b; il = bl; o = -1; int gc = -7; vh_eval(vh_mix(oid * 4 + ci + 4901));
				if (x509_public_key_algor_from_der(&o, &gc, &cp, &il) != 1 || o != oid || il) viol_rt("x509_public_key_algor", "roundtrip", "\"oid\":%d,\"name\":\"%s\",\"curve\":%d,\"enc\":\"%s\",\"left\":%zu", oid, x509_public_key_algor_name(oid), cv, vh_hex(b, bl), il); if (!der_tree_ok(b, bl, 0)) viol_rt("x509_public_key_algor", "not-strict-der", "\"oid\":%d,\"enc\":\"%s\"", oid, vh_hex(b, bl)); } } }
	/* names over attribute subsets */
	for (int mask = 1; mask < 64; mask++) { if (!vh_next()) continue; uint8_t nm[512], b[600]; size_t nl = 0, bl; if (!(mask & 1) || !(mask & 32)) continue; int r = x509_name_set(nm, &nl, sizeof nm, "CN", (mask & 2) ? "Beijing" : NULL, (mask & 4) ? "Haidian" : NULL, (mask & 8) ? "PKU" : NULL, (mask & 16) ? "CS" : NULL, (mask & 32) ? "Alice" : NULL); vh_eval(vh_mix(mask + 3201));
		if (r != 1) { viol_rt("x509_name", "set-failed", "\"mask\":%d", mask); continue; } ENC2("x509_name", x509_name_to_der(nm, nl, NULL, &dl_), x509_name_to_der(nm, nl, &p_, &wl_), b, bl); const uint8_t *cp = b, *g; size_t il = bl, gl; if (x509_name_from_der(&g, &gl, &cp, &il) != 1 || il || gl != nl || memcmp(g, nm, nl)) viol_rt("x509_name", "roundtrip", "\"mask\":%d", mask); if (!der_tree_ok(b, bl, 0)) viol_rt("x509_name", "not-strict-der", "\"mask\":%d", mask); if (x509_name_check(nm, nl) != 1) viol_rt("x509_name", "own-output-fails-check", "\"mask\":%d", mask); }
}
/* ---------- typed PEM writers and readers: what each *_to_pem writes, the matching *_from_pem reads back as the same object ---------- */
#include <gmssl/cms.h>
#include <gmssl/x509_req.h>
#include <gmssl/x509_crl.h>
static char *memtxt(size_t *tl, int (*w)(void *, FILE *), void *arg) { char *t = NULL; FILE *f = open_memstream(&t, tl); int r = w(arg, f); fclose(f); if (r != 1) { free(t); return NULL; } return t; }
#define TP_BEGIN(nm) do { const char *tp_name = nm; char *txt = NULL; size_t tl = 0; FILE *f = open_memstream(&txt, &tl); int wr_, rd_ = 0, same_ = 0;
#define TP_END(idx) fclose(g_); vh_eval(vh_mix((idx) + 880001)); if (wr_ != 1) viol_rt(tp_name, "pem-write-refused", "\"ret\":%d", wr_); else if (rd_ != 1 || !same_) viol_rt(tp_name, "pem-roundtrip", "\"read_ret\":%d,\"same\":%d,\"text_len\":%zu", rd_, same_, tl); free(txt); } while (0)
static void blk_typed_pem(void) {
	if (!vh_block_begin("typed-pem")) return; (void)memtxt;
	for (int inst = 0; inst < 3; inst++) { if (!vh_next()) continue; venv_reset(4400 + inst); SM2_KEY k, k2; if (sm2_key_generate(&k) != 1) vh_harness_error("keygen");
		TP_BEGIN("sm2_private_key") wr_ = sm2_private_key_to_pem(&k, f); fclose(f); FILE *g_ = fmemopen(txt, tl ? tl : 1, "r"); rd_ = sm2_private_key_from_pem(&k2, g_); same_ = rd_ == 1 && !memcmp(k.private_key, k2.private_key, 32) && sm2_public_key_equ(&k, &k2) == 1; TP_END(inst * 20 + 1);
		TP_BEGIN("sm2_public_key_info") wr_ = sm2_public_key_info_to_pem(&k, f); fclose(f); FILE *g_ = fmemopen(txt, tl ? tl : 1, "r"); rd_ = sm2_public_key_info_from_pem(&k2, g_); same_ = rd_ == 1 && sm2_public_key_equ(&k, &k2) == 1; TP_END(inst * 20 + 2);
		TP_BEGIN("sm2_private_key_info_encrypt") wr_ = sm2_private_key_info_encrypt_to_pem(&k, "Passw0rd", f); fclose(f); FILE *g_ = fmemopen(txt, tl ? tl : 1, "r"); rd_ = sm2_private_key_info_decrypt_from_pem(&k2, "Passw0rd", g_); same_ = rd_ == 1 && !memcmp(k.private_key, k2.private_key, 32); TP_END(inst * 20 + 3);
		SM9_SIGN_MASTER_KEY sm, sm2; SM9_SIGN_KEY sk, sk2; SM9_ENC_MASTER_KEY em, em2; SM9_ENC_KEY ek, ek2; if (sm9_sign_master_key_generate(&sm) != 1 || sm9_sign_master_key_extract_key(&sm, "alice", 5, &sk) != 1 || sm9_enc_master_key_generate(&em) != 1 || sm9_enc_master_key_extract_key(&em, "bob", 3, &ek) != 1) vh_harness_error("sm9 keygen");
		TP_BEGIN("sm9_sign_master_key") wr_ = sm9_sign_master_key_info_encrypt_to_pem(&sm, "pw", f); fclose(f); FILE *g_ = fmemopen(txt, tl ? tl : 1, "r"); rd_ = sm9_sign_master_key_info_decrypt_from_pem(&sm2, "pw", g_); same_ = rd_ == 1 && !memcmp(&sm.ks, &sm2.ks, sizeof sm.ks) && sm9_z256_twist_point_equ(&sm.Ppubs, &sm2.Ppubs) == 1; TP_END(inst * 20 + 4);
		TP_BEGIN("sm9_sign_master_public_key") wr_ = sm9_sign_master_public_key_to_pem(&sm, f); fclose(f); FILE *g_ = fmemopen(txt, tl ? tl : 1, "r"); rd_ = sm9_sign_master_public_key_from_pem(&sm2, g_); same_ = rd_ == 1 && sm9_z256_twist_point_equ(&sm.Ppubs, &sm2.Ppubs) == 1; TP_END(inst * 20 + 5);
		TP_BEGIN("sm9_sign_key") wr_ = sm9_sign_key_info_encrypt_to_pem(&sk, "pw", f); fclose(f); FILE *g_ = fmemopen(txt, tl ? tl : 1, "r"); rd_ = sm9_sign_key_info_decrypt_from_pem(&sk2, "pw", g_); same_ = rd_ == 1 && sm9_z256_point_equ(&sk.ds, &sk2.ds) == 1 && sm9_z256_twist_point_equ(&sk.Ppubs, &sk2.Ppubs) == 1; TP_END(inst * 20 + 6);
		TP_BEGIN("sm9_enc_master_key") wr_ = sm9_enc_master_key_info_encrypt_to_pem(&em, "pw", f); fclose(f); FILE *g_ = fmemopen(txt, tl ? tl : 1, "r"); rd_ = sm9_enc_master_key_info_decrypt_from_pem(&em2, "pw", g_); same_ = rd_ == 1 && !memcmp(&em.ke, &em2.ke, sizeof em.ke) && sm9_z256_point_equ(&em.Ppube, &em2.Ppube) == 1; TP_END(inst * 20 + 7);
		TP_BEGIN("sm9_enc_master_public_key") wr_ = sm9_enc_master_public_key_to_pem(&em, f); fclose(f); FILE *g_ = fmemopen(txt, tl ? tl : 1, "r"); rd_ = sm9_enc_master_public_key_from_pem(&em2, g_); same_ = rd_ == 1 && sm9_z256_point_equ(&em.Ppube, &em2.Ppube) == 1; TP_END(inst * 20 + 8);
		TP_BEGIN("sm9_enc_key") wr_ = sm9_enc_key_info_encrypt_to_pem(&ek, "pw", f); fclose(f); FILE *g_ = fmemopen(txt, tl ? tl : 1, "r"); rd_ = sm9_enc_key_info_decrypt_from_pem(&ek2, "pw", g_); same_ = rd_ == 1 && sm9_z256_twist_point_equ(&ek.de, &ek2.de) == 1 && sm9_z256_point_equ(&ek.Ppube, &ek2.Ppube) == 1; TP_END(inst * 20 + 9);
		/* certificate, certificate list, request, CMS */ uint8_t nm[128]; size_t nl = 0; x509_name_set(nm, &nl, sizeof nm, "CN", NULL, NULL, "Org", NULL, inst ? "subject-b" : "a"); uint8_t ser[3] = { 1, 2, (uint8_t)inst }; static uint8_t cert[1024], two[2048], back[4096]; uint8_t *p = cert; size_t cl = 0, bl2 = 0;
		if (x509_cert_sign_to_der(X509_version_v3, ser, 3, OID_sm2sign_with_sm3, nm, nl, 1790000000 - 1000, 1790000000 + 100000, nm, nl, &k, NULL, 0, NULL, 0, NULL, 0, &k, SM2_DEFAULT_ID, SM2_DEFAULT_ID_LENGTH, &p, &cl) != 1) vh_harness_error("cert");
		TP_BEGIN("x509_cert") wr_ = x509_cert_to_pem(cert, cl, f); fclose(f); FILE *g_ = fmemopen(txt, tl ? tl : 1, "r"); bl2 = 0; rd_ = x509_cert_from_pem(back, &bl2, sizeof back, g_); same_ = rd_ == 1 && bl2 == cl && !memcmp(back, cert, cl); TP_END(inst * 20 + 10);
		memcpy(two, cert, cl); memcpy(two + cl, cert, cl); TP_BEGIN("x509_certs") wr_ = x509_certs_to_pem(two, 2 * cl, f); fclose(f); FILE *g_ = fmemopen(txt, tl ? tl : 1, "r"); bl2 = 0; rd_ = x509_certs_from_pem(back, &bl2, sizeof back, g_); same_ = rd_ == 1 && bl2 == 2 * cl && !memcmp(back, two, 2 * cl); TP_END(inst * 20 + 11);
		{ static uint8_t req[1024]; uint8_t *q = req; size_t rl = 0; if (x509_req_sign_to_der(X509_version_v1, nm, nl, &k, (const uint8_t *)"", 0, OID_sm2sign_with_sm3, &k, SM2_DEFAULT_ID, SM2_DEFAULT_ID_LENGTH, &q, &rl) != 1) vh_harness_error("req");
		  TP_BEGIN("x509_req") wr_ = x509_req_to_pem(req, rl, f); fclose(f); FILE *g_ = fmemopen(txt, tl ? tl : 1, "r"); bl2 = 0; rd_ = x509_req_from_pem(back, &bl2, sizeof back, g_); same_ = rd_ == 1 && bl2 == rl && !memcmp(back, req, rl); TP_END(inst * 20 + 12); }
		{ static uint8_t cms[600]; size_t ml = 0; uint8_t msg[100]; memset(msg, 0x40 + inst, sizeof msg); if (cms_set_data(cms, &ml, msg, 37 + 30 * (size_t)inst) != 1) vh_harness_error("cms");
		  TP_BEGIN("cms") wr_ = cms_to_pem(cms, ml, f); fclose(f); FILE *g_ = fmemopen(txt, tl ? tl : 1, "r"); bl2 = 0; rd_ = cms_from_pem(back, &bl2, sizeof back, g_); same_ = rd_ == 1 && bl2 == ml && !memcmp(back, cms, ml); TP_END(inst * 20 + 13); }
		vh_sample("{\"block\":\"typed-pem\",\"instance\":%d,\"kinds\":13}", inst); }
}
/* ---------- decoding into a destination that is not fresh: the decoded value must not depend on what the destination object held before
   (a zeroed object, an object holding ANOTHER complete key, an object full of 0xAA): same bytes in, byte-identical object out ---------- */
#define RD_DER(fn, T, call) static int rd_##fn(void *o, const uint8_t *b, size_t bl) { const uint8_t *cp = b; size_t il = bl; T *x = (T *)o; int r = call; return r == 1 && il == 0 ? 1 : r == 1 ? -2 : r; }
#define RD_PEM(fn, T, call) static int rd_##fn(void *o, const uint8_t *b, size_t bl) { FILE *g = fmemopen((void *)b, bl ? bl : 1, "r"); T *x = (T *)o; int r = call; fclose(g); return r; }
RD_DER(sm2_public_key_info_from_der, SM2_KEY, sm2_public_key_info_from_der(x, &cp, &il))
RD_PEM(sm2_public_key_info_from_pem, SM2_KEY, sm2_public_key_info_from_pem(x, g))
RD_DER(sm2_private_key_from_der, SM2_KEY, sm2_private_key_from_der(x, &cp, &il))
RD_PEM(sm2_private_key_from_pem, SM2_KEY, sm2_private_key_from_pem(x, g))
RD_DER(sm2_private_key_info_from_der, SM2_KEY, ({ const uint8_t *at; size_t al; sm2_private_key_info_from_der(x, &at, &al, &cp, &il); }))
RD_PEM(sm2_private_key_info_from_pem, SM2_KEY, sm2_private_key_info_from_pem(x, g))
RD_DER(sm2_private_key_info_decrypt_from_der, SM2_KEY, ({ const uint8_t *at; size_t al; sm2_private_key_info_decrypt_from_der(x, &at, &al, "pw", &cp, &il); }))
RD_PEM(sm2_private_key_info_decrypt_from_pem, SM2_KEY, sm2_private_key_info_decrypt_from_pem(x, "pw", g))
static int rd_x509_cert_get_subject_public_key(void *o, const uint8_t *b, size_t bl) { return x509_cert_get_subject_public_key(b, bl, (SM2_KEY *)o); }
RD_DER(sm9_sign_master_key_from_der, SM9_SIGN_MASTER_KEY, sm9_sign_master_key_from_der(x, &cp, &il))
RD_DER(sm9_sign_master_public_key_from_der, SM9_SIGN_MASTER_KEY, sm9_sign_master_public_key_from_der(x, &cp, &il))
RD_PEM(sm9_sign_master_public_key_from_pem, SM9_SIGN_MASTER_KEY, sm9_sign_master_public_key_from_pem(x, g))
RD_PEM(sm9_sign_master_key_info_decrypt_from_pem, SM9_SIGN_MASTER_KEY, sm9_sign_master_key_info_decrypt_from_pem(x, "pw", g))
RD_DER(sm9_sign_key_from_der, SM9_SIGN_KEY, sm9_sign_key_from_der(x, &cp, &il))
RD_PEM(sm9_sign_key_info_decrypt_from_pem, SM9_SIGN_KEY, sm9_sign_key_info_decrypt_from_pem(x, "pw", g))
RD_DER(sm9_enc_master_key_from_der, SM9_ENC_MASTER_KEY, sm9_enc_master_key_from_der(x, &cp, &il))
RD_DER(sm9_enc_master_public_key_from_der, SM9_ENC_MASTER_KEY, sm9_enc_master_public_key_from_der(x, &cp, &il))
RD_PEM(sm9_enc_master_public_key_from_pem, SM9_ENC_MASTER_KEY, sm9_enc_master_public_key_from_pem(x, g))
RD_PEM(sm9_enc_master_key_info_decrypt_from_pem, SM9_ENC_MASTER_KEY, sm9_enc_master_key_info_decrypt_from_pem(x, "pw", g))
RD_DER(sm9_enc_key_from_der, SM9_ENC_KEY, sm9_enc_key_from_der(x, &cp, &il))
RD_PEM(sm9_enc_key_info_decrypt_from_pem, SM9_ENC_KEY, sm9_enc_key_info_decrypt_from_pem(x, "pw", g))
typedef struct { const char *name; int (*rd)(void *, const uint8_t *, size_t); size_t osz; const void *other; uint8_t enc[2400]; size_t el; } rd_t;
static void blk_reused_destination(void) {
	if (!vh_block_begin("reused-destination")) return; venv_reset(6600);
	static SM2_KEY k, ko; static SM9_SIGN_MASTER_KEY sm, smo; static SM9_SIGN_KEY sk, sko; static SM9_ENC_MASTER_KEY em, emo; static SM9_ENC_KEY ek, eko;
	if (sm2_key_generate(&k) != 1 || sm2_key_generate(&ko) != 1 || sm9_sign_master_key_generate(&sm) != 1 || sm9_sign_master_key_generate(&smo) != 1 || sm9_sign_master_key_extract_key(&sm, "alice", 5, &sk) != 1 || sm9_sign_master_key_extract_key(&smo, "carol", 5, &sko) != 1
		|| sm9_enc_master_key_generate(&em) != 1 || sm9_enc_master_key_generate(&emo) != 1 || sm9_enc_master_key_extract_key(&em, "bob", 3, &ek) != 1 || sm9_enc_master_key_extract_key(&emo, "dave", 4, &eko) != 1) vh_harness_error("keygen");
	static rd_t T[24]; int n = 0; uint8_t *p; FILE *f; char *txt; size_t tl;
#define E_DER(fn, OTH, SZ, call) do { rd_t *t = &T[n++]; t->name = #fn; t->rd = rd_##fn; t->osz = SZ; t->other = OTH; p = t->enc; t->el = 0; if ((call) != 1) vh_harness_error("encode for " #fn); } while (0)
#define E_PEM(fn, OTH, SZ, call) do { rd_t *t = &T[n++]; t->name = #fn; t->rd = rd_##fn; t->osz = SZ; t->other = OTH; txt = NULL; tl = 0; f = open_memstream(&txt, &tl); int r_ = (call); fclose(f); if (r_ != 1 || tl > sizeof t->enc) vh_harness_error("encode for " #fn); memcpy(t->enc, txt, tl); t->el = tl; free(txt); } while (0)
	E_DER(sm2_public_key_info_from_der, &ko, sizeof k, sm2_public_key_info_to_der(&k, &p, &t->el)); E_PEM(sm2_public_key_info_from_pem, &ko, sizeof k, sm2_public_key_info_to_pem(&k, f));
	E_DER(sm2_private_key_from_der, &ko, sizeof k, sm2_private_key_to_der(&k, &p, &t->el)); E_PEM(sm2_private_key_from_pem, &ko, sizeof k, sm2_private_key_to_pem(&k, f));
	E_DER(sm2_private_key_info_from_der, &ko, sizeof k, sm2_private_key_info_to_der(&k, &p, &t->el)); E_PEM(sm2_private_key_info_from_pem, &ko, sizeof k, sm2_private_key_info_to_pem(&k, f));
	E_DER(sm2_private_key_info_decrypt_from_der, &ko, sizeof k, sm2_private_key_info_encrypt_to_der(&k, "pw", &p, &t->el)); E_PEM(sm2_private_key_info_decrypt_from_pem, &ko, sizeof k, sm2_private_key_info_encrypt_to_pem(&k, "pw", f));
	{ uint8_t nm[128]; size_t nl = 0; x509_name_set(nm, &nl, sizeof nm, "CN", NULL, NULL, "Org", NULL, "reuse"); uint8_t ser[3] = { 1, 2, 3 }; E_DER(x509_cert_get_subject_public_key, &ko, sizeof k, x509_cert_sign_to_der(X509_version_v3, ser, 3, OID_sm2sign_with_sm3, nm, nl, 1790000000 - 1000, 1790000000 + 100000, nm, nl, &k, NULL, 0, NULL, 0, NULL, 0, &ko, SM2_DEFAULT_ID, SM2_DEFAULT_ID_LENGTH, &p, &t->el)); }
	E_DER(sm9_sign_master_key_from_der, &smo, sizeof sm, sm9_sign_master_key_to_der(&sm, &p, &t->el)); E_DER(sm9_sign_master_public_key_from_der, &smo, sizeof sm, sm9_sign_master_public_key_to_der(&sm, &p, &t->el)); E_PEM(sm9_sign_master_public_key_from_pem, &smo, sizeof sm, sm9_sign_master_public_key_to_pem(&sm, f));
	E_PEM(sm9_sign_master_key_info_decrypt_from_pem, &smo, sizeof sm, sm9_sign_master_key_info_encrypt_to_pem(&sm, "pw", f));
	E_DER(sm9_sign_key_from_der, &sko, sizeof sk, sm9_sign_key_to_der(&sk, &p, &t->el)); E_PEM(sm9_sign_key_info_decrypt_from_pem, &sko, sizeof sk, sm9_sign_key_info_encrypt_to_pem(&sk, "pw", f));
	E_DER(sm9_enc_master_key_from_der, &emo, sizeof em, sm9_enc_master_key_to_der(&em, &p, &t->el)); E_DER(sm9_enc_master_public_key_from_der, &emo, sizeof em, sm9_enc_master_public_key_to_der(&em, &p, &t->el)); E_PEM(sm9_enc_master_public_key_from_pem, &emo, sizeof em, sm9_enc_master_public_key_to_pem(&em, f));
	E_PEM(sm9_enc_master_key_info_decrypt_from_pem, &emo, sizeof em, sm9_enc_master_key_info_encrypt_to_pem(&em, "pw", f));
	E_DER(sm9_enc_key_from_der, &eko, sizeof ek, sm9_enc_key_to_der(&ek, &p, &t->el)); E_PEM(sm9_enc_key_info_decrypt_from_pem, &eko, sizeof ek, sm9_enc_key_info_encrypt_to_pem(&ek, "pw", f));
	for (int i = 0; i < n; i++) { if (!vh_next()) continue; rd_t *t = &T[i]; uint8_t *z = (uint8_t *)calloc(1, t->osz), *u = (uint8_t *)malloc(t->osz), *a = (uint8_t *)malloc(t->osz); memcpy(u, t->other, t->osz); memset(a, 0xAA, t->osz);
		int r0 = t->rd(z, t->enc, t->el), r1 = t->rd(u, t->enc, t->el), r2 = t->rd(a, t->enc, t->el); vh_eval(vh_hash(t->name, strlen(t->name), 9900));
		if (r0 != 1 || r1 != 1 || r2 != 1) viol_rt(t->name, "own-encoding-refused-for-some-destination", "\"fresh\":%d,\"holding_another_key\":%d,\"poisoned\":%d", r0, r1, r2);
		else { if (memcmp(z, u, t->osz)) viol_rt(t->name, "decoded-object-keeps-content-of-the-destination", "\"destination\":\"held another complete key\""); if (memcmp(z, a, t->osz)) viol_rt(t->name, "decoded-object-keeps-content-of-the-destination:poison", "\"destination\":\"0xAA fill\""); }
		free(z); free(u); free(a); vh_sample("{\"block\":\"reused-destination\",\"reader\":\"%s\",\"object_size\":%zu,\"encoding_len\":%zu}", t->name, t->osz, t->el); }
}
/* ---------- signatures and ciphertexts: value round trip, and every ACCEPTED encoding re-encodes to the offered octets. Offered: every single-bit change of a
   genuine encoding, every INTEGER / OCTET STRING member re-written with 33 and 34 content octets (minimal positive), with a redundant leading zero, negative,
   and empty, and the genuine encoding with one trailing octet ---------- */
typedef int (*reenc_f)(const uint8_t *in, size_t n, uint8_t *re, size_t *rl);   /* 1: accepted and everything consumed */
static int re_sm2sig(const uint8_t *in, size_t n, uint8_t *re, size_t *rl) { SM2_SIGNATURE g; const uint8_t *cp = in; size_t il = n; if (sm2_signature_from_der(&g, &cp, &il) != 1 || il) return 0; uint8_t *p = re; *rl = 0; return sm2_signature_to_der(&g, &p, rl) == 1; }
static int re_sm2ct(const uint8_t *in, size_t n, uint8_t *re, size_t *rl) { SM2_CIPHERTEXT c; const uint8_t *cp = in; size_t il = n; if (sm2_ciphertext_from_der(&c, &cp, &il) != 1 || il) return 0; uint8_t *p = re; *rl = 0; return sm2_ciphertext_to_der(&c, &p, rl) == 1; }
static int re_sm9sig(const uint8_t *in, size_t n, uint8_t *re, size_t *rl) { SM9_SIGNATURE g; const uint8_t *cp = in; size_t il = n; if (sm9_signature_from_der(&g, &cp, &il) != 1 || il) return 0; uint8_t *p = re; *rl = 0; return sm9_signature_to_der(&g, &p, rl) == 1; }
static int re_sm9ct(const uint8_t *in, size_t n, uint8_t *re, size_t *rl) { SM9_Z256_POINT C1; const uint8_t *c2, *c3; size_t c2l; const uint8_t *cp = in; size_t il = n; if (sm9_ciphertext_from_der(&C1, &c2, &c2l, &c3, &cp, &il) != 1 || il) return 0; uint8_t *p = re; *rl = 0; return sm9_ciphertext_to_der(&C1, c2, c2l, c3, &p, rl) == 1; }
static void offer_reenc(const char *type, reenc_f f, const uint8_t *m, size_t n, const char *how) { uint8_t *hb = (uint8_t *)malloc(n ? n : 1); memcpy(hb, m, n); static uint8_t re[1200]; size_t rl = 0; int r = f(hb, n, re, &rl); vh_evals++; if (r == 1) { vh_nontriv++; if (rl != n || memcmp(re, hb, n)) { char key[160]; snprintf(key, sizeof key, "C14:%s:accepted-but-reencodes-differently:%s", type, how); vh_viol(key, "\"offered\":\"%s\",\"reencoded\":\"%s\"", vh_hex(hb, n > 120 ? 120 : n), vh_hex(re, rl > 120 ? 120 : rl)); } } free(hb); }
/* rebuild a SEQUENCE with member `idx` (counted over the primitive members, in order, descending into nested SEQUENCEs) replaced by `rep` */
static size_t member_replace(const uint8_t *in, size_t n, int *idx, const uint8_t *repv, size_t repl, uint8_t *out) { der_cur c = { in, n }; size_t o = 0; while (c.n) { const uint8_t *st = c.p; int tag; const uint8_t *v; size_t vl, h; if (!der_tlv(&c, &tag, &v, &vl, &h)) return 0;
		if (tag & 0x20) { uint8_t *tmp = (uint8_t *)malloc(vl + repl + 16); size_t tl = member_replace(v, vl, idx, repv, repl, tmp); o += der_put_tlv(out + o, tag, tmp, tl); free(tmp); } else if ((*idx)-- == 0) o += der_put_tlv(out + o, tag, repv, repl); else { memcpy(out + o, st, h + vl); o += h + vl; } } return o; }
static int member_get(const uint8_t *in, size_t n, int *idx, const uint8_t **v_, size_t *vl_) { der_cur c = { in, n }; while (c.n) { int tag; const uint8_t *v; size_t vl; if (!der_tlv(&c, &tag, &v, &vl, NULL)) return 0; if (tag & 0x20) { if (member_get(v, vl, idx, v_, vl_)) return 1; } else if ((*idx)-- == 0) { *v_ = v; *vl_ = vl; return 1; } } return 0; }
static void family(const char *type, reenc_f f, const uint8_t *der, size_t n) { static uint8_t m[1300], rep[300]; char how[64];
	offer_reenc(type, f, der, n, "genuine"); { static uint8_t re[1200]; size_t rl = 0; vh_evals++; vh_nontriv++; if (f(der, n, re, &rl) != 1 || rl != n || memcmp(re, der, n)) { char key[96]; snprintf(key, sizeof key, "C14:%s:own-encoding-does-not-round-trip", type); vh_viol(key, "\"der\":\"%s\"", vh_hex(der, n > 120 ? 120 : n)); } }
	for (size_t bit = 0; bit < n * 8; bit++) { memcpy(m, der, n); m[bit / 8] ^= (uint8_t)(1 << (bit % 8)); offer_reenc(type, f, m, n, "bit-changed"); }
	memcpy(m, der, n); m[n] = 0; offer_reenc(type, f, m, n + 1, "trailing-octet");
	for (int mi = 0; mi < 8; mi++) { int ix = mi; const uint8_t *v; size_t vl; if (!member_get(der, n, &ix, &v, &vl)) break; if (vl > 200) continue;
		for (int kind = 0; kind < 6; kind++) { size_t rl = 0; switch (kind) { case 0: rl = 33; memset(rep, 0x5a, 33); rep[0] = 0x01; if (vl && vl <= 32) memcpy(rep + 33 - vl, v, vl); break; /* 33 content octets, minimal positive, low octets = the genuine value */
			case 1: rl = 34; memset(rep, 0x11, 34); rep[0] = 0x01; if (vl && vl <= 32) memcpy(rep + 34 - vl, v, vl); break; case 2: rep[0] = 0; memcpy(rep + 1, v, vl); rl = vl + 1; break; /* redundant leading zero */
			case 3: memcpy(rep, v, vl); rl = vl; if (rl) rep[0] |= 0x80; break; /* negative */ case 4: rl = 0; break; /* empty */ default: rl = vl > 1 ? vl - 1 : 0; memcpy(rep, v + (vl > 1 ? 1 : 0), rl); break; /* first content octet dropped */ }
			int ix2 = mi; size_t ml = member_replace(der, n, &ix2, rep, rl, m); if (!ml) continue; static const char *KN[] = { "member-with-33-content-octets", "member-with-34-content-octets", "member-with-redundant-leading-zero", "member-negative", "member-empty", "member-without-its-first-octet" }; snprintf(how, sizeof how, "%s", KN[kind]); offer_reenc(type, f, m, ml, how); } }
}
static int re_p8(const uint8_t *in, size_t n, uint8_t *re, size_t *rl) { SM2_KEY k; memset(&k, 0xAA, sizeof k); const uint8_t *cp = in, *at; size_t il = n, al; if (sm2_private_key_info_from_der(&k, &at, &al, &cp, &il) != 1 || il) return 0; uint8_t *p = re; *rl = 0; if (sm2_private_key_info_to_der(&k, &p, rl) != 1) *rl = 0; return 1; }
static int re_ecpriv(const uint8_t *in, size_t n, uint8_t *re, size_t *rl) { SM2_KEY k; memset(&k, 0xAA, sizeof k); const uint8_t *cp = in; size_t il = n; if (sm2_private_key_from_der(&k, &cp, &il) != 1 || il) return 0; uint8_t *p = re; *rl = 0; if (sm2_private_key_to_der(&k, &p, rl) != 1) *rl = 0; return 1; }
static int re_spki(const uint8_t *in, size_t n, uint8_t *re, size_t *rl) { SM2_KEY k; memset(&k, 0xAA, sizeof k); const uint8_t *cp = in; size_t il = n; if (sm2_public_key_info_from_der(&k, &cp, &il) != 1 || il) return 0; uint8_t *p = re; *rl = 0; if (sm2_public_key_info_to_der(&k, &p, rl) != 1) *rl = 0; return 1; }
static void blk_key_families(void) {
	if (!vh_block_begin("key-containers-member-variants")) return; static uint8_t der[400]; uint8_t *p; size_t n; SM2_KEY k; sm2_z256_t z; sm2_z256_from_hex(z, "3945208F7B2144B13F36E38AC6D39F95889393692860B51A42FB81EF4DF7C5B8"); if (sm2_key_set_private_key(&k, z) != 1) vh_harness_error("key");
	if (vh_next()) { p = der; n = 0; sm2_private_key_info_to_der(&k, &p, &n); family("sm2_private_key_info", re_p8, der, n); }
	if (vh_next()) { p = der; n = 0; sm2_private_key_to_der(&k, &p, &n); family("sm2_private_key", re_ecpriv, der, n); }
	if (vh_next()) { p = der; n = 0; sm2_public_key_info_to_der(&k, &p, &n); family("sm2_public_key_info", re_spki, der, n); }
	vh_sample("{\"block\":\"key-containers-member-variants\",\"families\":[\"sm2_private_key_info\",\"sm2_private_key\",\"sm2_public_key_info\"]}");
}
static void blk_sig_ct(void) {
	if (!vh_block_begin("signatures-and-ciphertexts")) return; static uint8_t der[1200]; uint8_t *p; size_t n;
	static const uint8_t LEAD[] = { 0x00, 0x01, 0x7f, 0x80, 0xff };
	for (int a = 0; a < 5; a++) for (int b = 0; b < 5; b++) { if (!vh_next()) continue; SM2_SIGNATURE g; memset(g.r, 0x3c, 32); memset(g.s, 0xc3, 32); g.r[0] = LEAD[a]; g.s[0] = LEAD[b]; if (a == 0) g.r[1] = 0x80; if (b == 0) { g.s[1] = 0; g.s[2] = 0x7f; } p = der; n = 0; if (sm2_signature_to_der(&g, &p, &n) != 1) { vh_viol("C14:sm2_signature:encode-refused", "\"a\":%d,\"b\":%d", a, b); continue; }
		SM2_SIGNATURE h; const uint8_t *cp = der; size_t il = n; vh_eval(vh_mix(a * 5 + b + 120001)); if (sm2_signature_from_der(&h, &cp, &il) != 1 || il || memcmp(&g, &h, sizeof g)) vh_viol("C14:sm2_signature:roundtrip", "\"a\":%d,\"b\":%d", a, b); family("sm2_signature", re_sm2sig, der, n); }
	static const size_t CL[] = { 1, 31, 32, 33, 127, 128, 255 };
	for (int a = 0; a < 5; a++) for (int b = 0; b < 5; b++) for (int ci = 0; ci < 7; ci++) { if (!vh_next()) continue; if (!vh_thorough && ci && (a != b)) continue; SM2_CIPHERTEXT c; memset(&c, 0, sizeof c); memset(c.point.x, 0x3c, 32); memset(c.point.y, 0xc3, 32); c.point.x[0] = LEAD[a]; c.point.y[0] = LEAD[b]; if (a == 0) c.point.x[1] = 0x80; for (int i = 0; i < 32; i++) c.hash[i] = (uint8_t)(i + 1); c.ciphertext_size = (uint8_t)CL[ci]; for (size_t i = 0; i < CL[ci]; i++) c.ciphertext[i] = (uint8_t)(0xa0 + i);
		p = der; n = 0; if (sm2_ciphertext_to_der(&c, &p, &n) != 1) { vh_viol("C14:sm2_ciphertext:encode-refused", "\"a\":%d,\"b\":%d,\"len\":%zu", a, b, CL[ci]); continue; } SM2_CIPHERTEXT d; memset(&d, 0, sizeof d); const uint8_t *cp = der; size_t il = n; vh_eval(vh_mix(a * 50 + b * 10 + ci + 120101));
		if (sm2_ciphertext_from_der(&d, &cp, &il) != 1 || il || memcmp(&c.point, &d.point, 64) || memcmp(c.hash, d.hash, 32) || d.ciphertext_size != c.ciphertext_size || memcmp(c.ciphertext, d.ciphertext, CL[ci])) vh_viol("C14:sm2_ciphertext:roundtrip", "\"a\":%d,\"b\":%d,\"len\":%zu", a, b, CL[ci]); if (ci < 2 || vh_thorough) family("sm2_ciphertext", re_sm2ct, der, n); }
	/* SM9: a genuine signature and a genuine ciphertext from fixed keys */
	if (vh_next()) { venv_reset(5150); SM9_SIGN_MASTER_KEY sm; SM9_SIGN_KEY sk; SM9_ENC_MASTER_KEY em; if (sm9_sign_master_key_generate(&sm) != 1 || sm9_sign_master_key_extract_key(&sm, "alice", 5, &sk) != 1 || sm9_enc_master_key_generate(&em) != 1) vh_harness_error("sm9 keys");
		SM9_SIGN_CTX sc; sm9_sign_init(&sc); sm9_sign_update(&sc, (const uint8_t *)"message", 7); n = 0; if (sm9_sign_finish(&sc, &sk, der, &n) != 1) vh_harness_error("sm9 sign"); family("sm9_signature", re_sm9sig, der, n);
		{ SM9_SIGNATURE g, h; const uint8_t *cp = der; size_t il = n; if (sm9_signature_from_der(&g, &cp, &il) != 1 || il) vh_viol("C14:sm9_signature:own-encoding-refused", "\"x\":1"); else { uint8_t b2[300]; uint8_t *q = b2; size_t l2 = 0; sm9_signature_to_der(&g, &q, &l2); cp = b2; il = l2; vh_eval(120301); if (sm9_signature_from_der(&h, &cp, &il) != 1 || memcmp(g.h, h.h, sizeof g.h) || sm9_z256_point_equ(&g.S, &h.S) != 1) vh_viol("C14:sm9_signature:roundtrip", "\"x\":1"); } }
		static const size_t PL[] = { 1, 32, 100 }; for (int pi = 0; pi < 3; pi++) { uint8_t msg[100]; memset(msg, 0x77, sizeof msg); n = 0; if (sm9_encrypt(&em, "bob", 3, msg, PL[pi], der, &n) != 1) vh_harness_error("sm9 encrypt"); if (pi == 0 || vh_thorough) family("sm9_ciphertext", re_sm9ct, der, n); else { offer_reenc("sm9_ciphertext", re_sm9ct, der, n, "genuine"); } } }
	vh_sample("{\"block\":\"signatures-and-ciphertexts\",\"families\":[\"sm2_signature\",\"sm2_ciphertext\",\"sm9_signature\",\"sm9_ciphertext\"]}");
}
/* ---------- password-encrypted PKCS#8 under parameter sets OTHER than the one the library's own writer uses (salt 8 octets, 65536 iterations, keyLength 16, prf present):
   salt lengths, iteration counts, keyLength absent (RFC 8018 makes it OPTIONAL) or present, prf absent (default) or present. Built with the public encoder from a genuine
   encryption; the reader either opens it to the same key or refuses it - it never crashes, and a wrong password never opens ---------- */
#include <gmssl/sm4.h>
static void blk_pkcs8_params(void) {
	if (!vh_block_begin("pkcs8-parameter-sets")) return; SM2_KEY k; sm2_z256_t z; sm2_z256_from_hex(z, "3945208F7B2144B13F36E38AC6D39F95889393692860B51A42FB81EF4DF7C5B8"); if (sm2_key_set_private_key(&k, z) != 1) vh_harness_error("key");
	uint8_t pki[300], *p = pki; size_t pl = 0; if (sm2_private_key_info_to_der(&k, &p, &pl) != 1) vh_harness_error("pki"); static const size_t SL[] = { 1, 8, 16, 32, 64 }; static const int IT[] = { 1, 2, 1000, 65536, 70000 }, KLN[] = { -1, 16 }, PRF[] = { -1, OID_hmac_sm3 };
	for (int si = 0; si < 5; si++) for (int ii = 0; ii < 5; ii++) for (int ki = 0; ki < 2; ki++) for (int pi = 0; pi < 2; pi++) { if (!vh_next()) continue; uint8_t salt[64], iv[16], key[16], enc[400], der[700]; size_t el = 0, dl = 0; for (int i = 0; i < 64; i++) salt[i] = (uint8_t)(0x31 + i + si); memset(iv, 0x42 + ii, 16); const char *pw = "P@ss";
		if (sm3_pbkdf2(pw, strlen(pw), salt, SL[si], (size_t)IT[ii], 16, key) != 1) vh_harness_error("pbkdf2"); SM4_KEY sk; sm4_set_encrypt_key(&sk, key); if (sm4_cbc_padding_encrypt(&sk, iv, pki, pl, enc, &el) != 1) vh_harness_error("cbc");
		p = der; if (pkcs8_enced_private_key_info_to_der(salt, SL[si], IT[ii], KLN[ki], PRF[pi], OID_sm4_cbc, iv, 16, enc, el, &p, &dl) != 1) { vh_obs("pkcs8 encoder refuses salt=%zu iter=%d keylen=%d prf=%d", SL[si], IT[ii], KLN[ki], PRF[pi]); continue; }
		uint8_t *hb = (uint8_t *)malloc(dl); memcpy(hb, der, dl); SM2_KEY k2; memset(&k2, 0, sizeof k2); const uint8_t *cp = hb, *at; size_t il = dl, al; int r = sm2_private_key_info_decrypt_from_der(&k2, &at, &al, pw, &cp, &il); size_t kk[4] = { SL[si], (size_t)IT[ii], (size_t)(KLN[ki] + 1), (size_t)(PRF[pi] + 1) }; vh_eval(vh_hash(kk, sizeof kk, 61)); char key_[160];
		if (r == 1 && (il || memcmp(k2.private_key, k.private_key, 32) || sm2_public_key_equ(&k, &k2) != 1)) { snprintf(key_, sizeof key_, "C14:pkcs8-parameter-sets:opens-to-another-key"); vh_viol(key_, "\"salt\":%zu,\"iter\":%d,\"keylen\":%d,\"prf\":%d", SL[si], IT[ii], KLN[ki], PRF[pi]); }
		else if (r != 1 && SL[si] == 8 && IT[ii] == 65536) { /* the library's own salt / iteration choice with the OPTIONAL fields absent or present must open */ snprintf(key_, sizeof key_, "C14:pkcs8-parameter-sets:valid-container-refused:keyLength-%s:prf-%s", KLN[ki] < 0 ? "absent" : "present", PRF[pi] < 0 ? "absent" : "present"); vh_viol(key_, "\"ret\":%d", r); }
		else if (r != 1) vh_obs("pkcs8 reader refuses salt=%zu iter=%d keylen=%d prf=%d", SL[si], IT[ii], KLN[ki], PRF[pi]);
		cp = hb; il = dl; memset(&k2, 0, sizeof k2); int rw = sm2_private_key_info_decrypt_from_der(&k2, &at, &al, "P@sr", &cp, &il); vh_eval(vh_hash(kk, sizeof kk, 62)); if (rw == 1) { vh_viol("C14:pkcs8-parameter-sets:wrong-password-opens", "\"salt\":%zu,\"iter\":%d,\"keylen\":%d,\"prf\":%d", SL[si], IT[ii], KLN[ki], PRF[pi]); }
		free(hb); vh_sample("{\"block\":\"pkcs8-parameter-sets\",\"salt\":%zu,\"iter\":%d,\"keylen\":%d,\"prf\":%d,\"opened\":%d}", SL[si], IT[ii], KLN[ki], PRF[pi], r == 1); }
}
static void body(void) { blk_decoders(); blk_pkcs8_params(); blk_sig_ct(); blk_key_families(); blk_text(); blk_composite(); blk_typed_pem(); blk_reused_destination(); blk_values(); }
int main(int argc, char **argv) { vh_init(argc, argv); vh_guarded("C14", body, 120); return vh_finish(); }
